import warnings; warnings.filterwarnings("ignore")
import numpy as np, msprime, tskit, tsdate, traceback
from tsdate import util
# ts with edges only on [0,5) of length 10, mutation on sample 0 at position 7 (isolated there)
t = tskit.TableCollection(10)
for _ in range(3): t.nodes.add_row(flags=1, time=0)
t.nodes.add_row(flags=0, time=1)
t.nodes.add_row(flags=0, time=2)
t.edges.add_row(0,5,3,0); t.edges.add_row(0,5,3,1); t.edges.add_row(0,5,4,3); t.edges.add_row(0,5,4,2)
s = t.sites.add_row(2, "A"); t.mutations.add_row(s, 3, "T")
s = t.sites.add_row(7, "A"); t.mutations.add_row(s, 0, "T")
t.sort(); t.build_index(); t.compute_mutation_parents()
ts = t.tree_sequence()
print(ts.draw_text())
try:
    out = util.split_disjoint_nodes(ts)
    print("ok", out.mutations_node)
except BaseException as e:
    print("C29 beyond-last-edge raises", type(e).__name__, str(e)[:200])
# isolated sample w/ mutation in the middle: edges on [0,4) and [6,10), sample 0 isolated in [4,6) w/ mutation at 5
t = tskit.TableCollection(10)
for _ in range(3): t.nodes.add_row(flags=1, time=0)
t.nodes.add_row(flags=0, time=1)
t.nodes.add_row(flags=0, time=2)
for (l,r) in [(0,4),(6,10)]:
    t.edges.add_row(l,r,3,0); t.edges.add_row(l,r,3,1); t.edges.add_row(l,r,4,3); t.edges.add_row(l,r,4,2)
s = t.sites.add_row(2, "A"); t.mutations.add_row(s, 3, "T")
s = t.sites.add_row(5, "A"); t.mutations.add_row(s, 0, "T")
t.sort(); t.build_index(); t.compute_mutation_parents()
ts = t.tree_sequence()
try:
    out = util.split_disjoint_nodes(ts)
    print("ok", out.mutations_node, out.num_nodes)
    for v0, v1 in zip(ts.variants(), out.variants()): assert (v0.genotypes == v1.genotypes).all()
    out2 = util.split_disjoint_nodes(out)
    print("idempotent nodes", out2.num_nodes, out.num_nodes)
except BaseException as e:
    print("C29 isolated raises", type(e).__name__, str(e)[:200])
