from tsdate import cli
p = cli.tsdate_cli_parser()
a = p.parse_args(["preprocess", "in.trees", "out.trees", "--erase-flanks", "False", "--split-disjoint", "False"])
print(a.erase_flanks, a.split_disjoint, a.minimum_gap)
a = p.parse_args(["preprocess", "in.trees", "out.trees", "--erase-flanks", "", "--split-disjoint", "0"])
print(a.erase_flanks, a.split_disjoint)
import inspect
print([ (x.dest, x.option_strings, x.type, x.default, x.nargs, type(x).__name__) for x in p._subparsers._group_actions[0].choices["date"]._actions])
