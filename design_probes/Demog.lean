import Mathlib.Algebra.Order.Field.Basic
import Mathlib.Tactic.FieldSimp
import Mathlib.Tactic.Ring
import Mathlib.Tactic.Linarith
import Mathlib.Tactic.Positivity

/-! scratch calibration: piecewise-constant time measure, integral form, inverse -/

variable {α : Type} [Field α] [LinearOrder α] [IsStrictOrderedRing α]

/-- segments are (start, measure); `conv segs acc t` = acc + ∫_{start}^{t} 1/measure -/
def conv : List (α × α) → α → α → α
  | [], acc, _ => acc
  | [(b, m)], acc, t => acc + (t - b) / m
  | (b, m) :: (b', m') :: rest, acc, t =>
      if t < b' then acc + (t - b) / m else conv ((b', m') :: rest) (acc + (b' - b) / m) t

/-- the transformed segment list: new starts are the accumulated values, new measures 1/m -/
def tr : List (α × α) → α → List (α × α)
  | [], _ => []
  | [(_, m)], acc => [(acc, 1 / m)]
  | (b, m) :: (b', m') :: rest, acc => (acc, 1 / m) :: tr ((b', m') :: rest) (acc + (b' - b) / m)

/-- validity: strictly increasing starts, positive measures -/
def Valid : List (α × α) → Prop
  | [] => True
  | [(_, m)] => 0 < m
  | (b, m) :: (b', m') :: rest => 0 < m ∧ b < b' ∧ Valid ((b', m') :: rest)

theorem conv_ge (segs : List (α × α)) (acc t : α) (hv : Valid segs) (hne : segs ≠ [])
    (ht : (segs.head hne).1 ≤ t) : acc ≤ conv segs acc t := by
  induction segs generalizing acc with
  | nil => exact absurd rfl hne
  | cons s rest ih =>
    obtain ⟨b, m⟩ := s
    cases rest with
    | nil =>
      simp only [conv]
      have hm : 0 < m := hv
      have : 0 ≤ (t - b) / m := div_nonneg (sub_nonneg.mpr ht) hm.le
      linarith
    | cons s' rest' =>
      obtain ⟨b', m'⟩ := s'
      obtain ⟨hm, hbb, hv'⟩ := hv
      simp only [conv]
      split_ifs with h
      · have : 0 ≤ (t - b) / m := div_nonneg (sub_nonneg.mpr ht) hm.le
        linarith
      · have h1 := ih (acc + (b' - b) / m) hv' (by simp) (by simpa using not_lt.mp h)
        have : 0 ≤ (b' - b) / m := div_nonneg (sub_nonneg.mpr hbb.le) hm.le
        linarith

/-- round trip: converting with the transformed segments undoes `conv` -/
theorem roundtrip (segs : List (α × α)) (acc t : α) (hv : Valid segs) (hne : segs ≠ [])
    (ht : (segs.head hne).1 ≤ t) :
    conv (tr segs acc) ((segs.head hne).1) (conv segs acc t) = t := by
  induction segs generalizing acc with
  | nil => exact absurd rfl hne
  | cons s rest ih =>
    obtain ⟨b, m⟩ := s
    cases rest with
    | nil =>
      have hm : 0 < m := hv
      have hm' : m ≠ 0 := ne_of_gt hm
      simp only [conv, tr, List.head_cons]
      field_simp
      ring
    | cons s' rest' =>
      obtain ⟨b', m'⟩ := s'
      obtain ⟨hm, hbb, hv'⟩ := hv
      have hm' : m ≠ 0 := ne_of_gt hm
      simp only [List.head_cons] at ht ⊢
      by_cases h : t < b'
      · -- t in the first segment: image is below the next new start
        have himg : acc + (t - b) / m < acc + (b' - b) / m := by
          have : (t - b) / m < (b' - b) / m := by
            apply div_lt_div_of_pos_right _ hm; linarith
          linarith
        simp only [conv, tr, h, if_true]
        cases rest' with
        | nil =>
          simp only [tr, conv, himg, if_true]
          field_simp; ring
        | cons s'' r'' =>
          obtain ⟨b'', m''⟩ := s''
          simp only [tr, conv, himg, if_true]
          field_simp; ring
      · have hge : b' ≤ t := not_lt.mp h
        have hrec := ih (acc + (b' - b) / m) hv' (by simp) (by simpa using hge)
        have hlow := conv_ge ((b', m') :: rest') (acc + (b' - b) / m) t hv' (by simp) (by simpa using hge)
        simp only [List.head_cons] at hrec
        have hnlt : ¬ conv ((b', m') :: rest') (acc + (b' - b) / m) t < acc + (b' - b) / m := not_lt.mpr hlow
        cases rest' with
        | nil =>
          simp only [conv, tr, h, if_false] at hrec hnlt ⊢
          simp only [hnlt, if_false]
          have : acc + (b' - b) / m - acc = (b' - b) / m := by ring
          rw [this]
          have e : b + (b' - b) / m / (1 / m) = b' := by field_simp; ring
          rw [e]; exact hrec
        | cons s'' r'' =>
          obtain ⟨b'', m''⟩ := s''
          simp only [conv, tr, h, if_false] at hrec hnlt ⊢
          simp only [hnlt, if_false]
          have : acc + (b' - b) / m - acc = (b' - b) / m := by ring
          rw [this]
          have e : b + (b' - b) / m / (1 / m) = b' := by field_simp; ring
          rw [e]; exact hrec

#print axioms roundtrip
