import warnings; warnings.filterwarnings("ignore")
import numpy as np, msprime, tskit, tsdate, traceback, itertools
from tsdate import rescaling, util
from math import inf, log
# C26 PELT vs brute force (python mode of numba function)
f = rescaling._poisson_changepoints
def brute(counts, offset, penalty, min_counts, min_offset):
    n = len(counts)
    best = (inf, None)
    for k in range(0, n):
        for cuts in itertools.combinations(range(1, n), k):
            b = [0, *cuts, n]
            tot = 0.0
            for i, j in zip(b[:-1], b[1:]):
                nn = sum(offset[i:j]); y = sum(counts[i:j])
                if nn < min_offset or y < min_counts: tot = inf; break
                tot += (-2*y*(log(y)-log(nn)-1) if y > 0 else 0.0) + penalty
            if tot < best[0]: best = (tot, b)
    return best
def cost_of(b, counts, offset, penalty, min_counts, min_offset):
    tot = 0.0
    for i, j in zip(b[:-1], b[1:]):
        nn = sum(offset[i:j]); y = sum(counts[i:j])
        if nn < min_offset or y < min_counts: return inf
        tot += (-2*y*(log(y)-log(nn)-1) if y>0 else 0.0) + penalty
    return tot
rng = np.random.default_rng(1)
bad = 0
for trial in range(3000):
    n = rng.integers(2, 7)
    counts = rng.integers(0, 6, size=n).astype(float)
    offset = rng.integers(1, 5, size=n).astype(float)
    pen = float(rng.choice([0.0, 0.5, 2.0, 5.0]))
    mc = float(rng.choice([0, 1, 3, 5])); mo = float(rng.choice([0, 2, 4]))
    try:
        with np.errstate(all="ignore"):
            br = list(f(counts, offset, pen, mc, mo))
    except BaseException as e:
        print("raise", type(e).__name__, e, counts, offset, pen, mc, mo); bad += 1
        if bad > 5: break
        continue
    c_impl = cost_of(br, counts, offset, pen, mc, mo)
    c_best, b_best = brute(counts, offset, pen, mc, mo)
    if not (abs(c_impl - c_best) < 1e-9 or (c_impl == inf and c_best == inf)):
        print("MISMATCH", counts, offset, pen, mc, mo, "impl", br, c_impl, "best", b_best, c_best)
        bad += 1
        if bad > 5: break
print("done", bad)
