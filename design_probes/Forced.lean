import Mathlib.Order.Basic
import Mathlib.Tactic.SplitIfs

variable {α : Type} [LinearOrder α]

structure Edge where
  p : Nat
  c : Nat
deriving DecidableEq, Repr

def upd (t : Nat → α) (i : Nat) (v : α) : Nat → α := fun j => if j = i then v else t j

@[simp] theorem upd_same (t : Nat → α) (i : Nat) (v : α) : upd t i v i = v := by simp [upd]
theorem upd_other (t : Nat → α) (i j : Nat) (v : α) (h : j ≠ i) : upd t i v j = t j := by
  simp [upd, h]

def forcedStep (fadd : α → α) (t : Nat → α) (e : Edge) : Nat → α :=
  if t e.p ≤ fadd (t e.c) then upd t e.p (fadd (t e.c)) else t

def forced (fadd : α → α) (t : Nat → α) (es : List Edge) : Nat → α :=
  es.foldl (forcedStep fadd) t

def TopoOrdered : List Edge → Prop
  | [] => True
  | e :: es => (∀ e' ∈ es, e'.p ≠ e.c) ∧ e.p ≠ e.c ∧ TopoOrdered es

theorem forcedStep_mono (fadd : α → α) (t : Nat → α) (e : Edge) (i : Nat) :
    t i ≤ forcedStep fadd t e i := by
  unfold forcedStep
  split_ifs with h1
  · by_cases h2 : i = e.p
    · subst h2; simpa using h1
    · rw [upd_other _ _ _ _ h2]
  · exact le_rfl

theorem forcedStep_other (fadd : α → α) (t : Nat → α) (e : Edge) (i : Nat) (h : i ≠ e.p) :
    forcedStep fadd t e i = t i := by
  unfold forcedStep
  split_ifs
  · exact upd_other _ _ _ _ h
  · rfl

theorem forced_mono (fadd : α → α) (es : List Edge) (t : Nat → α) (i : Nat) :
    t i ≤ forced fadd t es i := by
  induction es generalizing t with
  | nil => exact le_rfl
  | cons e es ih => exact le_trans (forcedStep_mono fadd t e i) (ih _)

theorem forced_unchanged (fadd : α → α) (es : List Edge) (t : Nat → α) (i : Nat)
    (h : ∀ e ∈ es, e.p ≠ i) : forced fadd t es i = t i := by
  induction es generalizing t with
  | nil => rfl
  | cons e es ih =>
    have h1 : i ≠ e.p := fun h' => h e (by simp) h'.symm
    show forced fadd (forcedStep fadd t e) es i = t i
    rw [ih _ (fun e' he' => h e' (by simp [he'])), forcedStep_other _ _ _ _ h1]

theorem forced_constraint (fadd : α → α) (es : List Edge) (t : Nat → α)
    (htopo : TopoOrdered es) :
    ∀ e ∈ es, fadd (forced fadd t es e.c) ≤ forced fadd t es e.p := by
  induction es generalizing t with
  | nil => intro e he; cases he
  | cons e0 es ih =>
    obtain ⟨h1, h2, h3⟩ := htopo
    intro e he
    show fadd (forced fadd (forcedStep fadd t e0) es e.c) ≤ forced fadd (forcedStep fadd t e0) es e.p
    rcases List.mem_cons.mp he with rfl | he'
    · rw [forced_unchanged fadd es _ e.c (fun e' he' => h1 e' he')]
      refine le_trans ?_ (forced_mono fadd es _ e.p)
      rw [forcedStep_other _ _ _ _ (Ne.symm h2)]
      unfold forcedStep
      split_ifs with h4
      · simp
      · exact le_of_lt (not_le.mp h4)
    · exact ih _ h3 e he'

#print axioms forced_constraint
