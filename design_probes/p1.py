import warnings; warnings.filterwarnings("ignore")
import numpy as np, msprime, tskit, tsdate, traceback
from tsdate import rescaling, util
ts = msprime.sim_ancestry(5, sequence_length=1e4, recombination_rate=1e-4, population_size=1e3, random_seed=2)
ts = msprime.sim_mutations(ts, rate=1e-5, random_seed=3)
print(ts.num_nodes, ts.num_edges, ts.num_mutations, ts.num_trees)
# C37
try:
    r = rescaling.rescale_tree_sequence(ts, 1e-5)
    print("C37 ok", r.num_nodes)
except BaseException as e:
    print("C37 raises", type(e).__name__, str(e)[:300])
# C24 custom sample set
try:
    s = np.full(ts.num_nodes, False); s[[0,1,2]] = True
    r = rescaling.count_mutations(ts, node_is_sample=s, size_biased=True)
    print("C24 ok")
except BaseException as e:
    print("C24 raises", type(e).__name__, str(e)[:300])
