import warnings; warnings.filterwarnings("ignore")
import numpy as np, msprime, tskit, tsdate, traceback, _tskit
print(tskit.LibraryError.__mro__)
for seed in range(1, 30):
    ts = msprime.sim_ancestry(3, sequence_length=1e3, recombination_rate=1e-5, population_size=1e4, random_seed=seed)
    ts = msprime.sim_mutations(ts, rate=2e-8, random_seed=seed)
    if ts.num_mutations == 0: continue
    try:
        d = tsdate.date(ts, mutation_rate=1e-8)
    except BaseException as e:
        print(seed, ts.num_trees, ts.num_mutations, "raises", type(e).__name__, str(e)[:100])
