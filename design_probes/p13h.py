import numpy as np, msprime, json
def sim(seed, n=5, L=1e4, rho=2e-8*20, mu=3e-7, N=1e4):
    ts = msprime.sim_ancestry(n, sequence_length=L, recombination_rate=rho, population_size=N, random_seed=seed)
    return msprime.sim_mutations(ts, rate=mu, random_seed=seed+1)
def md(ts, key="mn"):
    return np.array([n.metadata.get(key, np.nan) if isinstance(n.metadata, dict) else json.loads(n.metadata.decode() or "{}").get(key, np.nan) for n in ts.nodes()])
def rel(a, b):
    a = np.asarray(a, float); b = np.asarray(b, float)
    m = np.isfinite(a) & np.isfinite(b)
    return float(np.max(np.abs(a[m]-b[m]) / np.maximum(np.abs(a[m]), 1e-300))) if m.any() else 0.0
