import warnings; warnings.filterwarnings("ignore")
import numpy as np, msprime, tskit, tsdate, collections, traceback, logging
logging.disable(logging.CRITICAL)
rng = np.random.default_rng(7)
def target_sim(seed, ntrees):
    n = int(rng.integers(2, 7)); L = 1e4; N = 1e4
    rho = ntrees / (4*N*L*1.5)
    ts = msprime.sim_ancestry(n, sequence_length=L, recombination_rate=rho, population_size=N, random_seed=seed, ploidy=int(rng.choice([1,2])))
    mu = float(rng.choice([0, 1e-9, 1e-8, 1e-7, 1e-6]))
    return msprime.sim_mutations(ts, rate=mu, random_seed=seed+1), max(mu, 1e-8)
def mutilate(ts):
    kind = rng.choice(["none", "subset_unary", "subset", "delete_iv", "historical", "root_muts", "keep_iv"])
    try:
        if kind == "subset_unary": return ts.simplify(rng.choice(ts.samples(), size=max(2, ts.num_samples//2), replace=False), keep_unary=True), kind
        if kind == "subset": return ts.simplify(rng.choice(ts.samples(), size=max(2, ts.num_samples//2), replace=False)), kind
        if kind == "delete_iv": return ts.delete_intervals([[2000, 5000]], simplify=bool(rng.integers(0,2))), kind
        if kind == "keep_iv": return ts.keep_intervals([[1000, 3000],[6000,9000]], simplify=True), kind
        if kind == "historical":
            t = ts.dump_tables(); tm = t.nodes.time; s = ts.samples(); tm[s[0]] = 0.0; 
            # make one sample historical but below its parent
            par_t = min(ts.nodes_time[e.parent] for e in ts.edges() if e.child == s[-1]); tm[s[-1]] = par_t/2
            t.nodes.time = tm; t.sort(); return t.tree_sequence(), kind
        if kind == "root_muts":
            t = ts.dump_tables(); root = ts.first().root
            s = t.sites.add_row(0.5, "A"); t.mutations.add_row(s, root, "T"); t.sort(); t.build_index(); t.compute_mutation_parents(); return t.tree_sequence(), kind
    except Exception as e:
        return ts, "none"
    return ts, "none"
out = collections.Counter(); examples = {}
for seed in range(1, 160):
    ts, mu = target_sim(seed, int(rng.choice([1, 3, 10, 40])))
    ts, kind = mutilate(ts)
    for method in ["variational_gamma", "inside_outside", "maximization"]:
        kw = {} if method == "variational_gamma" else dict(population_size=1e4)
        try:
            d = tsdate.date(ts, mutation_rate=mu, method=method, **kw)
            key = (method, "ok")
        except (ValueError, NotImplementedError) as e:
            key = (method, type(e).__name__ + ":" + str(e)[:50])
        except BaseException as e:
            key = (method, "INTERNAL " + type(e).__name__ + ":" + str(e)[:60])
            examples.setdefault(key, (seed, kind, ts.num_trees, ts.num_mutations, ts.num_samples))
        out[key] += 1
for k, v in sorted(out.items()): print(v, k, examples.get(k, ""))
