-- model file: core only
def pwl {α : Type} [Add α] [Sub α] [Mul α] [Div α] [LT α] [DecidableLT α]
    (x0 x1 y0 y1 x : α) : α :=
  y0 + (y1 - y0) / (x1 - x0) * (x - x0)

def mom {α : Type} [Mul α] [Div α] [Sub α] [OfNat α 1] (mean var : α) : α × α :=
  (mean * mean / var - 1, mean / var)

#eval pwl (0:Float) 2 0 3 1
#eval pwl (0:Rat) 2 0 3 1
#eval mom (2:Rat) 3
#eval (mom (Float.ofBits 0x4000000000000000) 3).1.toBits
