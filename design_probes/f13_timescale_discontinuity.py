"""
Finding F13 (found by the C06/C07 checks): `rescaling.mutational_timescale` is discontinuous where two node
times coincide.  Run with /venv/bin/python from /verif.

On corpus/C07/f13_near_tie.json the EP posterior means of nodes 7 and 8 (two symmetric cherries under node 9)
differ by one ulp.  Making them exactly equal changes the piecewise-rescaled node times by ~3.9 %.
"""
import json
import sys

sys.path.insert(0, "/verif")
from harness import common  # noqa: E402

common.setup_env()
import numpy as np  # noqa: E402
from tsdate import rescaling, variational  # noqa: E402

from harness import gen, scale_corr as sc  # noqa: E402

d = json.load(open("/verif/corpus/C07/f13_near_tie.json"))
ts = gen.ts_from_jsonable(d["ts"])
kw = sc.explicit_defaults(sc.kw_from_jsonable(d["kw"]))
ep = variational.ExpectationPropagation(ts, mutation_rate=kw["mutation_rate"])
ep.infer(ep_iterations=25, max_shape=1000, rescale_intervals=0, rescale_iterations=5, regularise=True,
         rescale_segsites=False)
t, _ = ep.node_moments()
fixed = ep.node_constraints[:, 0] == ep.node_constraints[:, 1]
u, v = 8, 7
print("posterior means of nodes 8 and 7:", repr(t[u]), repr(t[v]), "relative gap", abs(t[u] - t[v]) / t[u])
lik = ep.sizebiased_likelihoods
tt = t.copy()
tt[v] = tt[u]
o0, a0 = rescaling.mutational_timescale(t, lik, fixed, ep.edge_parents, ep.edge_children, 5)
o1, a1 = rescaling.mutational_timescale(tt, lik, fixed, ep.edge_parents, ep.edge_children, 5)
print("near-tie : adjust", a0)
print("exact tie: adjust", a1)
n0 = rescaling.piecewise_scale_point_estimate(t, fixed, o0, a0)
n1 = rescaling.piecewise_scale_point_estimate(tt, fixed, o1, a1)
print("one input changed by rel.", abs(t[v] - tt[v]) / t[v], "-> rescaled node times change by rel.", sc.relerr(n0, n1))
