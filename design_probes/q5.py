import warnings; warnings.filterwarnings("ignore")
import numpy as np, msprime, tskit, tsdate
ts = msprime.sim_ancestry(4, sequence_length=1e4, recombination_rate=2e-8, population_size=1e4, random_seed=4)
ts = msprime.sim_mutations(ts, rate=1e-6, random_seed=5)
print(ts.num_trees, ts.num_mutations)
for ms in [1000, 10, 2, 1.0000001, 1, 0.5]:
    for ri in [0, 1000]:
        try:
            d, fit = tsdate.variational_gamma(ts, mutation_rate=1e-6, max_shape=ms, rescaling_intervals=ri, return_fit=True)
            p = fit.node_posteriors(); ns = ~np.isin(np.arange(ts.num_nodes), ts.samples())
            sh = p["mean"][ns]**2/p["variance"][ns]
            print(ms, ri, "ok finite", np.isfinite(p["mean"][ns]).all(), "max shape", sh.max(), "min mean", p["mean"][ns].min())
        except BaseException as e:
            print(ms, ri, "raises", type(e).__name__, str(e)[:80])
