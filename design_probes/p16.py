import warnings; warnings.filterwarnings("ignore")
import numpy as np, msprime, tskit, tsdate, json
from tsdate import util, prior, variational
from p13h import *
rng = np.random.default_rng(5)
def naive_unary(ts, skip_samples):
    samp = set(ts.samples())
    for tree in ts.trees():
        for u in tree.nodes():
            if tree.num_children(u) == 1 and not (skip_samples and u in samp):
                return True
    return False
mism = 0
for seed in range(1, 60):
    ts = sim(seed, n=4, L=1e3, rho=rng.choice([0, 2e-7, 1e-6]), mu=1e-6)
    # variant: keep unary / simplify subset
    variants = [ts]
    sub = rng.choice(ts.samples(), size=4, replace=False)
    variants.append(ts.simplify(sub, keep_unary=True))
    variants.append(ts.simplify(sub, keep_unary=False))
    t = ts.dump_tables(); 
    if t.edges.num_rows > 3:
        keep = np.ones(t.edges.num_rows, bool); keep[rng.integers(0, t.edges.num_rows)] = False
        t.edges.keep_rows(keep); t.mutations.clear(); t.sites.clear()
        variants.append(t.tree_sequence())
    for v in variants:
        a = util.contains_unary_nodes(v, skip_samples=True); a2 = util.contains_unary_nodes(v, skip_samples=False)
        b = prior.has_locally_unary_nodes(v)
        na = naive_unary(v, True); nb = naive_unary(v, False)
        if a != na or a2 != nb or b != nb:
            mism += 1; print("seed", seed, "contains(skip)", a, na, "contains(all)", a2, nb, "has_locally", b, nb)
print("mismatches", mism)
# C21 check_valid
ts = sim(3, n=5, L=1e4, rho=4e-7, mu=3e-7)
ep = variational.ExpectationPropagation(ts, mutation_rate=3e-7)
for it in range(5):
    ep.iterate(check_valid=True)
print("C21 check_valid ok")
