import warnings; warnings.filterwarnings("ignore")
import numpy as np, msprime, tskit, tsdate, traceback
ts = msprime.sim_ancestry(6, sequence_length=1e3, recombination_rate=1e-3, population_size=1e4, random_seed=5)
ts = msprime.sim_mutations(ts, rate=1e-7, random_seed=3)
print(ts.num_mutations, ts.num_trees)
for mu in [1e-8, 1e-12, 1e-14]:
    for method, kw in [("variational_gamma", {}), ("inside_outside", dict(population_size=1e4/mu*1e-8)), ("maximization", dict(population_size=1e4/mu*1e-8))]:
        try:
            d = tsdate.date(ts, mutation_rate=mu, method=method, **kw)
            t = d.nodes_time
            gaps = t[d.edges_parent] - t[d.edges_child]
            print(mu, method, "ok max time %.3g min gap %.3g" % (t.max(), gaps.min()))
        except BaseException as e:
            print(mu, method, "raises", type(e).__name__, str(e)[:150])
