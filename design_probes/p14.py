import warnings; warnings.filterwarnings("ignore")
import numpy as np, msprime, tskit, tsdate, json
from p13h import *
import logging
for seed, rho in [(1, 0), (2, 1e-8), (3, 5e-8), (4, 1e-7), (5, 2e-7)]:
    ts = sim(seed, n=4, L=1e4, rho=rho, mu=1e-6)
    mu=1e-6; N=1e4
    for method in ["inside_outside"]:
        with np.errstate(all="raise"):
            try:
                d0, f0 = tsdate.date(ts, mutation_rate=mu, method=method, population_size=N, probability_space="linear", return_fit=True)
                under = ""
            except FloatingPointError as e:
                under = "FPE:" + str(e)
        with np.errstate(all="ignore"):
            d0, f0 = tsdate.date(ts, mutation_rate=mu, method=method, population_size=N, probability_space="linear", return_fit=True)
            d1, f1 = tsdate.date(ts, mutation_rate=mu, method=method, population_size=N, probability_space="logarithmic", return_fit=True)
        print(seed, "trees", ts.num_trees, "nodes", ts.num_nodes, "C12", rel(d0.nodes_time, d1.nodes_time), rel(md(d0), md(d1)), under,
              "min inside lin", np.nanmin(f0.inside.grid_data[f0.inside.grid_data>0]) )
