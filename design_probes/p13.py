import warnings; warnings.filterwarnings("ignore")
import numpy as np, msprime, tskit, tsdate, json
def sim(seed, n=5, L=1e4, rho=2e-8*20, mu=3e-7, N=1e4):
    ts = msprime.sim_ancestry(n, sequence_length=L, recombination_rate=rho, population_size=N, random_seed=seed)
    return msprime.sim_mutations(ts, rate=mu, random_seed=seed+1)
def md(ts, key="mn"):
    return np.array([json.loads(n.metadata.decode() or "{}").get(key, np.nan) if isinstance(n.metadata, bytes) else n.metadata.get(key, np.nan) for n in ts.nodes()])
def rel(a, b):
    a = np.asarray(a, float); b = np.asarray(b, float)
    m = np.isfinite(a) & np.isfinite(b)
    return float(np.max(np.abs(a[m]-b[m]) / np.maximum(np.abs(a[m]), 1e-300))) if m.any() else 0.0
ts = sim(3)
print("trees", ts.num_trees, "muts", ts.num_mutations, "nodes", ts.num_nodes)
mu = 3e-7; N = 1e4
# C06 time-units scaling
for c in [3.7, 1e-5, 1e6]:
    for method in ["variational_gamma", "inside_outside", "maximization"]:
        kw0 = {}; kw1 = {}
        if method != "variational_gamma":
            pr0 = tsdate.build_prior_grid(ts, population_size=N, timepoints=10)
            kw0 = dict(priors=pr0, eps=1e-8)
            tp = pr0.timepoints * c
            pr1 = tsdate.build_prior_grid(ts, population_size=N*c, timepoints=np.array(tp))
            kw1 = dict(priors=pr1, eps=1e-8*c)
        try:
            d0 = tsdate.date(ts, mutation_rate=mu, method=method, min_branch_length=1e-8, **kw0)
            d1 = tsdate.date(ts, mutation_rate=mu/c, method=method, min_branch_length=1e-8*c, **kw1)
            print("C06", method, c, "time", rel(d0.nodes_time*c, d1.nodes_time), "mn", rel(md(d0)*c, md(d1)), "vr", rel(md(d0,"vr")*c*c, md(d1,"vr")), "mut", rel(d0.mutations_time*c, d1.mutations_time))
        except BaseException as e:
            print("C06", method, c, "raises", type(e).__name__, str(e)[:100])
# C07 coordinates scaling
def scale_coords(ts, c):
    t = ts.dump_tables(); t.sequence_length = ts.sequence_length*c
    t.edges.left = t.edges.left*c; t.edges.right = t.edges.right*c; t.sites.position = t.sites.position*c
    return t.tree_sequence()
for c in [4.0, 0.37, 1e-3]:
    ts1 = scale_coords(ts, c)
    for method in ["variational_gamma", "inside_outside", "maximization"]:
        kw = {} if method == "variational_gamma" else dict(population_size=N)
        d0 = tsdate.date(ts, mutation_rate=mu, method=method, **kw)
        d1 = tsdate.date(ts1, mutation_rate=mu/c, method=method, **kw)
        print("C07", method, c, "time", rel(d0.nodes_time, d1.nodes_time), "mn", rel(md(d0), md(d1)))
# C12 lin vs log
for method in ["inside_outside", "maximization"]:
    d0 = tsdate.date(ts, mutation_rate=mu, method=method, population_size=N, probability_space="linear")
    d1 = tsdate.date(ts, mutation_rate=mu, method=method, population_size=N, probability_space="logarithmic")
    print("C12", method, rel(d0.nodes_time, d1.nodes_time), rel(md(d0), md(d1)))
