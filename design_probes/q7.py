import warnings; warnings.filterwarnings("ignore")
import numpy as np, msprime, tskit, tsdate, json, logging
from tsdate import util, demography
logging.disable(logging.CRITICAL)
rng = np.random.default_rng(3)
def sim(seed, n=5, ntrees=8, mu=1e-6, L=1e4, N=1e4, ploidy=2):
    rho = ntrees/(4*N*L*1.5)
    ts = msprime.sim_ancestry(n, sequence_length=L, recombination_rate=rho, population_size=N, random_seed=seed, ploidy=ploidy)
    return msprime.sim_mutations(ts, rate=mu, random_seed=seed+1)
dec = lambda v: [v.alleles[g] if g >= 0 else None for g in v.genotypes]
# ---- C28
for seed in range(1, 13):
    ts = sim(seed, ntrees=int(rng.choice([3, 12])), mu=float(rng.choice([2e-8, 2e-7])), L=1e5)
    if ts.num_sites == 0: continue
    for kw in [dict(), dict(minimum_gap=3000), dict(erase_flanks=False, minimum_gap=2000), dict(delete_intervals=[[10.0, 500.0]]), dict(split_disjoint=False, minimum_gap=1500)]:
        try:
            out = tsdate.preprocess_ts(ts, **kw)
        except BaseException as e:
            print("C28", seed, kw, "raises", type(e).__name__, str(e)[:80]); continue
        pos_in = ts.sites_position; pos_out = out.sites_position
        if "delete_intervals" in kw:
            keep = ~((pos_in >= 10) & (pos_in < 500))
        else: keep = np.ones(len(pos_in), bool)
        ok_sites = np.array_equal(pos_in[keep], pos_out)
        ok_samples = np.array_equal(ts.samples(), out.samples())
        vin = {v.site.position: dec(v) for v in ts.variants()}; vout = {v.site.position: dec(v) for v in out.variants()}
        ok_geno = all(vin[p] == vout[p] for p in pos_out)
        prov = json.loads(out.provenance(-1).record)["parameters"]
        ivs = prov["delete_intervals"]
        # intervals avoid sites & are flank or gap>=minimum
        mg = prov.get("minimum_gap") or 0
        ok_iv = all(not np.any((pos_in >= a) & (pos_in < b)) for a, b in ivs) if "delete_intervals" not in kw else True
        # no topology removed elsewhere: total edge span outside intervals preserved per position -> check tree presence
        print("C28", seed, list(kw), "sites", ok_sites, "samples", ok_samples, "geno", ok_geno, "iv_avoid_sites", ok_iv, "n_iv", len(ivs), "prov+1", out.num_provenances == ts.num_provenances+1)
