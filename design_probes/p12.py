import warnings; warnings.filterwarnings("ignore")
import numpy as np, tskit, tsdate
def star(k, L, muts, seed=0, two_trees=True):
    t = tskit.TableCollection(L)
    for _ in range(k): t.nodes.add_row(flags=1, time=0)
    r1 = t.nodes.add_row(flags=0, time=1.0)
    r2 = t.nodes.add_row(flags=0, time=2.0)
    mid = L/2 if two_trees else L
    for c in range(k):
        t.edges.add_row(0, mid, r1, c)
        if two_trees: t.edges.add_row(mid, L, r2, c)
    rng = np.random.default_rng(seed)
    pos = np.sort(rng.choice(np.arange(1, int(L)), size=muts, replace=False))
    for p in pos:
        s = t.sites.add_row(float(p), "A"); t.mutations.add_row(s, int(rng.integers(0,k)), "T")
    t.sort(); t.build_index(); t.compute_mutation_parents()
    return t.tree_sequence()
for muts, max_shape in [(20, 1000), (500, 100), (3, 1000)]:
    ts = star(5, 1000.0, muts)
    mu = 1e-3
    d, fit = tsdate.variational_gamma(ts, mutation_rate=mu, regularise_roots=False, rescaling_intervals=0, max_shape=max_shape, return_fit=True, max_iterations=7)
    post = fit.node_posteriors()
    for r in [5, 6]:
        es = np.flatnonzero(ts.edges_parent == r)
        y = sum(1 for m in ts.mutations() if m.edge in set(es))
        span = (ts.edges_right[es]-ts.edges_left[es]).sum()
        shape, rate = 1+y, mu*span
        if shape > max_shape: f = (max_shape-1)/(shape-1); shape, rate = max_shape, rate*f
        print(muts, max_shape, r, "expected mean/var", shape/rate, shape/rate**2, "got", post["mean"][r], post["variance"][r])
