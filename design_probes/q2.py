import warnings; warnings.filterwarnings("ignore")
import numpy as np, tskit, tsdate
from tsdate import util
def build(edges_iv, muts, L=10):
    t = tskit.TableCollection(L)
    for _ in range(3): t.nodes.add_row(flags=1, time=0)
    t.nodes.add_row(flags=0, time=1); t.nodes.add_row(flags=0, time=2)
    for (l,r) in edges_iv:
        t.edges.add_row(l,r,3,0); t.edges.add_row(l,r,3,1); t.edges.add_row(l,r,4,3); t.edges.add_row(l,r,4,2)
    for pos, node in muts:
        s = t.sites.add_row(pos, "A"); t.mutations.add_row(s, node, "T")
    t.sort(); t.build_index(); t.compute_mutation_parents()
    return t.tree_sequence()
cases = {
 "mutation on isolated sample before first edge": build([(4,10)], [(1,0),(6,3)]),
 "mutation beyond last edge": build([(0,5)], [(2,3),(7,0)]),
 "gap in middle w/ mutation on isolated sample": build([(0,4),(6,10)], [(2,3),(5,0)]),
}
for name, ts in cases.items():
    for fn in ["split", "preprocess"]:
        try:
            out = util.split_disjoint_nodes(ts) if fn=="split" else tsdate.preprocess_ts(ts, erase_flanks=False, minimum_gap=1e9)
            same = all((a.genotypes==b.genotypes).all() for a,b in zip(ts.variants(), out.variants())) and out.num_sites==ts.num_sites
            print(name, "|", fn, "ok genotypes_same=", same)
        except BaseException as e:
            print(name, "|", fn, "raises", type(e).__name__, str(e)[:80])
