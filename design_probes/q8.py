import warnings; warnings.filterwarnings("ignore")
import numpy as np
from fractions import Fraction as F
from math import comb
from tsdate import prior
def closed(n):
    # exact mean & variance per k via closed-form P(a|k,n)
    mean_a = {a: sum(F(2, m*(m-1)) for m in range(a+1, n+1)) for a in range(1, n+1)}
    var_a  = {a: sum(F(2, m*(m-1))**2 for m in range(a+1, n+1)) for a in range(1, n+1)}
    out = {}
    for k in range(2, n):
        den = comb(n, k+1); m1 = F(0); m2 = F(0)
        for a in range(2, n-k+2):
            p = F(comb(a,2)*comb(n-a-1, k-2), den)
            m1 += p*mean_a[a]; m2 += p*(var_a[a] + mean_a[a]**2)
        out[k] = (m1, m2 - m1**2)
    out[n] = (mean_a[1], var_a[1])
    return out
worst = 0
for n in [3, 4, 7, 20, 60, 150]:
    v = prior.conditional_coalescent_variance(n)
    c = closed(n)
    for k in range(2, n+1):
        m_exp = prior.ConditionalCoalescentTimes.tau_expect(k, n)
        assert abs(float(c[k][0]) - m_exp) < 1e-12, (n, k, float(c[k][0]), m_exp)
        worst = max(worst, abs(v[k] - float(c[k][1]))/float(c[k][1]))
print("closed form matches tau_expect exactly; worst rel err of variance vs closed form:", worst)
cc = prior.ConditionalCoalescentTimes(None, "gamma"); cc.add(10)
row = cc[10][4]; print("gamma row alpha,beta,mean,var", row, "alpha/beta", row[0]/row[1], "alpha/beta^2", row[0]/row[1]**2)
