from fractions import Fraction as F
from math import comb
def table(n):
    # exact rational version of the recursion: returns dict k -> {a: prob}
    pr = {2: F(1)}
    out = {}
    amax = 2
    for k in range(n-1, 1, -1):
        out[k] = {a: pr[a] for a in range(2, n-k+2)}
        const = F((n-k)*(k-2), (k+1)) if k>2 else None
        if k > 2:
            for a in range(2, n-k+2):
                pr[a] = pr[a]*const/F(n-a-k+2)
            pr[n-k+2] = pr[n-k+1]*F(n-k+2, k+1)/const
    return out
n=9
T = table(n)
for k in sorted(T):
    print(k, [str(v) for v in T[k].values()], "sum", sum(T[k].values()))
# candidate closed form
def cand(a,k,n):
    return F(comb(n-a, k-1)* (k+1)... if False else 0)
