import warnings; warnings.filterwarnings("ignore")
import numpy as np, msprime, tskit, tsdate, json
ts = msprime.sim_ancestry(4, sequence_length=2e4, recombination_rate=1e-8*10, population_size=1e4, random_seed=4)
ts = msprime.sim_mutations(ts, rate=4e-7, random_seed=5)   # multiple mutations per site likely w/ discrete genome
t = ts.dump_tables()
t.nodes.metadata_schema = tskit.MetadataSchema.permissive_json()
t.nodes.packset_metadata([json.dumps({"x": i}).encode() for i in range(ts.num_nodes)])
ts = t.tree_sequence()
print("muts", ts.num_mutations, "sites", ts.num_sites, "max muts/site", max(len(s.mutations) for s in ts.sites()))
def cmp(a, b, phased):
    ta, tb = a.dump_tables(), b.dump_tables()
    res = {}
    res["nodes.flags"] = np.array_equal(ta.nodes.flags, tb.nodes.flags)
    res["nodes.pop/ind"] = np.array_equal(ta.nodes.population, tb.nodes.population) and np.array_equal(ta.nodes.individual, tb.nodes.individual)
    ea = sorted(zip(ta.edges.left, ta.edges.right, ta.edges.parent, ta.edges.child)); eb = sorted(zip(tb.edges.left, tb.edges.right, tb.edges.parent, tb.edges.child))
    res["edges set"] = ea == eb
    res["edges order same"] = np.array_equal(ta.edges.parent, tb.edges.parent) and np.array_equal(ta.edges.child, tb.edges.child)
    res["sites"] = ta.sites.equals(tb.sites)
    res["mut.site"] = np.array_equal(ta.mutations.site, tb.mutations.site)
    res["mut.derived"] = np.array_equal(ta.mutations.derived_state, tb.mutations.derived_state) and np.array_equal(ta.mutations.derived_state_offset, tb.mutations.derived_state_offset)
    res["mut.node"] = np.array_equal(ta.mutations.node, tb.mutations.node)
    res["mut.parent"] = np.array_equal(ta.mutations.parent, tb.mutations.parent)
    res["inds/pops/migs"] = ta.individuals.equals(tb.individuals) and ta.populations.equals(tb.populations) and ta.migrations.equals(tb.migrations)
    res["other md kept"] = all(n.metadata.get("x") == i for i, n in enumerate(b.nodes()))
    res["prov +1"] = tb.provenances.num_rows == ta.provenances.num_rows + 1
    return res
for method, kw in [("variational_gamma", dict(singletons_phased=True)), ("variational_gamma", dict(singletons_phased=False)), ("inside_outside", dict(population_size=1e4)), ("maximization", dict(population_size=1e4))]:
    d = tsdate.date(ts, mutation_rate=4e-7, method=method, **kw)
    r = cmp(ts, d, kw.get("singletons_phased", True))
    print(method, kw, {k: v for k, v in r.items() if not v} or "all equal")
d = tsdate.date(ts, mutation_rate=4e-7, method="inside_outside", population_size=1e4)
a, b = ts.tables.mutations, d.tables.mutations
diff = np.flatnonzero(a.node != b.node)
print("rows differing", diff[:10], "of", len(a))
for i in diff[:4]:
    print(i, "in: site", a.site[i], "node", a.node[i], "parent", a.parent[i], "| out: site", b.site[i], "node", b.node[i], "parent", b.parent[i])
ka = sorted(zip(a.site, a.node, tskit.unpack_strings(a.derived_state, a.derived_state_offset)))
kb = sorted(zip(b.site, b.node, tskit.unpack_strings(b.derived_state, b.derived_state_offset)))
print("multiset equal", ka == kb)
print("genotypes equal", all((x.genotypes==y.genotypes).all() and x.alleles==y.alleles for x,y in zip(ts.variants(), d.variants())))
dec = lambda v: [v.alleles[g] if g >= 0 else None for g in v.genotypes]
print("decoded genotypes equal", all(dec(x)==dec(y) for x,y in zip(ts.variants(), d.variants())))
d2, fit = tsdate.date(ts, mutation_rate=4e-7, return_fit=True)
post = fit.mutation_posteriors()
a, b = ts.tables.mutations, d2.tables.mutations
mn = np.array([m.metadata["mn"] for m in d2.mutations()])
print("rowwise mn == posterior mean:", np.array_equal(mn, post["mean"], equal_nan=True), "n differing", np.sum(~((mn==post["mean"])|(np.isnan(mn)&np.isnan(post["mean"])))))
