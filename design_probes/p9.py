import warnings; warnings.filterwarnings("ignore")
import numpy as np, msprime, tskit, tsdate
ts = msprime.sim_ancestry(4, sequence_length=1e3, population_size=1e4, random_seed=11)
ts = msprime.sim_mutations(ts, rate=1e-6, random_seed=3)
rng = np.random.default_rng(1)
nbad = 0
for N in [1e4, 12345.678, 3.3, 7e5]:
    tp = np.sort(np.concatenate([[0], rng.uniform(0, 1e5, 30)]))
    pr = tsdate.build_prior_grid(ts, population_size=N, timepoints=tp)
    d = pr.timepoints - tp
    print(N, "exact" if np.all(d == 0) else "max abs diff %g  nbad %d" % (np.abs(d).max(), (d!=0).sum()))
pr = tsdate.build_prior_grid(ts, population_size=tsdate.demography.PopulationSizeHistory([1e3, 2e4, 5e3], [100.0, 3000.0]), timepoints=tp)
d = pr.timepoints - tp; print("3 epoch", np.abs(d).max(), (d!=0).sum())
print(pr.timepoints[:4], pr[ts.num_nodes-1][:5], pr.nonfixed_nodes)
# first timepoint must be 0?
try:
    pr = tsdate.build_prior_grid(ts, population_size=1e4, timepoints=np.array([1.0, 5.0, 10.0]))
    print("grid not starting at 0 accepted:", pr.timepoints)
except Exception as e: print(type(e).__name__, e)
