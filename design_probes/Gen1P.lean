import Mathlib.Algebra.Order.Field.Basic
import Mathlib.Tactic.FieldSimp
import Mathlib.Tactic.Ring
import Mathlib.Tactic.Positivity
import Gen1

theorem mom_mean {α : Type} [Field α] [LinearOrder α] [IsStrictOrderedRing α]
    (m v : α) (hm : 0 < m) (hv : 0 < v) :
    ((mom m v).1 + 1) / (mom m v).2 = m ∧ ((mom m v).1 + 1) / (mom m v).2 ^ 2 = v := by
  have hm' : m ≠ 0 := ne_of_gt hm
  have hv' : v ≠ 0 := ne_of_gt hv
  constructor <;> simp only [mom] <;> field_simp
theorem mom_scale {α : Type} [Field α] [LinearOrder α] [IsStrictOrderedRing α]
    (m v c : α) (hm : 0 < m) (hv : 0 < v) (hc : 0 < c) :
    (mom (c*m) (c^2*v)).1 = (mom m v).1 ∧ (mom (c*m) (c^2*v)).2 = (mom m v).2 / c := by
  have hm' : m ≠ 0 := ne_of_gt hm
  have hv' : v ≠ 0 := ne_of_gt hv
  have hc' : c ≠ 0 := ne_of_gt hc
  constructor <;> simp only [mom] <;> field_simp
#print axioms mom_scale
