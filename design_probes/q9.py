import warnings; warnings.filterwarnings("ignore")
import sys, hashlib, numpy as np, msprime, tsdate, logging
logging.disable(logging.CRITICAL)
ts = msprime.sim_ancestry(5, sequence_length=1e4, recombination_rate=1e-8*2, population_size=1e4, random_seed=4)
ts = msprime.sim_mutations(ts, rate=1e-6, random_seed=5)
out = []
for method, kw in [("variational_gamma", dict(singletons_phased=False)), ("inside_outside", dict(population_size=1e4, num_threads=int(sys.argv[1]) or None)), ("maximization", dict(population_size=1e4, num_threads=int(sys.argv[1]) or None))]:
    d = tsdate.date(ts, mutation_rate=1e-6, method=method, record_provenance=False, **kw)
    t = d.dump_tables()
    h = hashlib.sha256(); 
    for arr in [t.nodes.time, t.nodes.metadata, t.mutations.time, t.mutations.node, t.mutations.metadata]: h.update(np.ascontiguousarray(arr).tobytes())
    out.append(h.hexdigest()[:12])
print(" ".join(out))
