import warnings; warnings.filterwarnings("ignore")
import numpy as np, msprime, tskit, tsdate, traceback
ts = msprime.sim_ancestry(4, sequence_length=1e4, recombination_rate=2e-8*50, population_size=1e4, random_seed=11)
ts = msprime.sim_mutations(ts, rate=1e-6, random_seed=3)
print(ts.num_trees, ts.num_mutations, ts.num_nodes)
def renumber(ts, perm_nonsample_seed):
    rng = np.random.default_rng(perm_nonsample_seed)
    samples = ts.samples()
    non = np.setdiff1d(np.arange(ts.num_nodes), samples)
    newpos = non.copy(); rng.shuffle(newpos)
    # node_map old->new
    m = np.arange(ts.num_nodes); m[non] = newpos
    order = np.argsort(m)  # new id i holds old node order[i]
    t = ts.dump_tables()
    t.nodes.set_columns(flags=t.nodes.flags[order], time=t.nodes.time[order], population=t.nodes.population[order], individual=t.nodes.individual[order])
    t.edges.parent = m[t.edges.parent].astype(np.int32); t.edges.child = m[t.edges.child].astype(np.int32)
    t.mutations.node = m[t.mutations.node].astype(np.int32)
    t.sort(); t.build_index(); t.compute_mutation_parents()
    return t.tree_sequence(), m
for method in ["inside_outside"]:
    for ior in [False, True]:
        d0 = tsdate.inside_outside(ts, mutation_rate=1e-6, population_size=1e4, ignore_oldest_root=ior)
        ts2, m = renumber(ts, 1)
        d1 = tsdate.inside_outside(ts2, mutation_rate=1e-6, population_size=1e4, ignore_oldest_root=ior)
        a = d0.nodes_time; b = d1.nodes_time[m]
        print("ignore_oldest_root", ior, "max rel diff", np.max(np.abs(a-b)/np.maximum(a,1e-9)))
d0 = tsdate.maximization(ts, mutation_rate=1e-6, population_size=1e4)
d1 = tsdate.maximization(ts2, mutation_rate=1e-6, population_size=1e4)
a = d0.nodes_time; b = d1.nodes_time[m]
print("maximization max rel diff", np.max(np.abs(a-b)/np.maximum(a,1e-9)))
