import warnings; warnings.filterwarnings("ignore")
import numpy as np, msprime, tskit, tsdate, json, logging, scipy.stats
from tsdate import util, phasing, variational, demography
logging.disable(logging.CRITICAL)
rng = np.random.default_rng(3)
def sim(seed, n=5, ntrees=8, mu=1e-6, L=1e4, N=1e4, ploidy=2):
    rho = ntrees/(4*N*L*1.5)
    ts = msprime.sim_ancestry(n, sequence_length=L, recombination_rate=rho, population_size=N, random_seed=seed, ploidy=ploidy)
    return msprime.sim_mutations(ts, rate=mu, random_seed=seed+1)
# ---- C13 rule
bad13 = 0
for seed in range(1, 25):
    ts = sim(seed, ntrees=int(rng.choice([1,5,15]))); mu = 1e-6
    for space in ["linear", "logarithmic"]:
        pr = tsdate.build_prior_grid(ts, population_size=1e4, timepoints=8)
        d, fit = tsdate.maximization(ts, mutation_rate=mu, priors=pr, probability_space=space, return_fit=True, eps=1e-8)
        tp = fit.lik.timepoints; idx = np.searchsorted(tp, fit.posterior_mean); 
        mut_edges = fit.lik.mut_edges; samples = set(ts.samples())
        pmf = scipy.stats.poisson.logpmf
        is_child = np.isin(np.arange(ts.num_nodes), ts.edges_child)
        for u in range(ts.num_nodes):
            if u in samples: continue
            ins = fit.inside[u] if space == "logarithmic" else np.log(fit.inside[u])
            par_edges = [e for e in ts.edges() if e.child == u]
            if not par_edges:
                want = np.argmax(ins)
            else:
                y = min(idx[e.parent] for e in par_edges)
                score = ins[:y+1].copy()
                for e in par_edges:
                    score += pmf(mut_edges[e.id], (tp[idx[e.parent]] - tp[:y+1] + 1e-8)*mu*e.span)
                want = np.argmax(score)
                gap = np.sort(score)[-1] - np.sort(score)[-2] if len(score) > 1 else 1
                if gap < 1e-9: continue
                if any(idx[u] > idx[e.parent] for e in par_edges): bad13 += 1; print("C13 order violated", seed, u)
            if idx[u] != want: bad13 += 1; print("C13 rule mismatch", seed, space, u, idx[u], want)
print("C13 mismatches", bad13)
# ---- C22 phase invariance & node changes
bad22 = 0
for seed in range(1, 3):
    ts = sim(seed, n=4, ntrees=6, mu=3e-7)
    if ts.num_mutations == 0: continue
    try:
        d0 = tsdate.variational_gamma(ts, mutation_rate=3e-7, singletons_phased=False, rescaling_intervals=0)
        ts2 = phasing.rephase_singletons(ts, use_node_times=False, random_seed=seed)
        d1 = tsdate.variational_gamma(ts2, mutation_rate=3e-7, singletons_phased=False, rescaling_intervals=0)
    except AssertionError as e:
        print("skip", e); continue
    r = np.max(np.abs(d0.nodes_time - d1.nodes_time)/np.maximum(d0.nodes_time, 1e-12))
    # changed nodes only within individual
    ch = np.flatnonzero(ts.mutations_node != d0.mutations_node) if np.array_equal(ts.mutations_site, d0.mutations_site) else []
    ok_nodes = all(ts.nodes_individual[ts.mutations_node[m]] == ts.nodes_individual[d0.mutations_node[m]] and ts.nodes_individual[ts.mutations_node[m]] != -1 for m in ch)
    # keyed comparison of output mutation (site,node) multiset between d0 and d1
    k0 = sorted(zip(d0.mutations_site, d0.mutations_node)); k1 = sorted(zip(d1.mutations_site, d1.mutations_node))
    print("C22 seed", seed, "rel diff", r, "changed", len(ch), "within-individual", ok_nodes, "same placement", k0 == k1, "input phases differ", int(np.sum(ts.mutations_node != ts2.mutations_node)))
# ---- C25 order preservation of means through rescale
for seed in range(1, 6):
    ts = sim(seed, n=6, ntrees=10, mu=2e-6)
    ep = variational.ExpectationPropagation(ts, mutation_rate=2e-6)
    for _ in range(5): ep.iterate()
    ep.propagate_mutations(ep.mutation_order, ep.mutation_posterior, ep.mutation_phase, ep.mutation_edges, ep.edge_parents, ep.edge_children, ep.edge_likelihoods, ep.node_constraints, ep.node_posterior, ep.factors, False)
    m0, _ = ep.node_moments()
    try:
        ep.rescale(rescale_intervals=20, rescale_iterations=3)
    except AssertionError as e:
        print("C25 skip (F5)", e); continue
    m1, v1 = ep.node_moments()
    o = np.argsort(m0, kind="stable"); inv = np.sum(np.diff(m1[o]) < -1e-9*np.abs(m1[o][1:]))
    print("C25 seed", seed, "order inversions", inv, "max shape", np.nanmax((m1**2/np.where(v1>0, v1, np.nan))))
