import warnings; warnings.filterwarnings("ignore")
import numpy as np, msprime, tskit, tsdate
from tsdate import variational, rescaling
from p13h import *
# F8: after infer with singletons_phased=False, compare counts on the two block edges for each singleton
ts = msprime.sim_ancestry(4, sequence_length=2e4, recombination_rate=1e-8*10, population_size=1e4, random_seed=4)
ts = msprime.sim_mutations(ts, rate=2e-7, random_seed=5)
print("trees", ts.num_trees, "muts", ts.num_mutations, "inds", ts.num_individuals)
ep = variational.ExpectationPropagation(ts, mutation_rate=2e-7, singletons_phased=False)
base_edge = ep.edge_likelihoods.copy()
ep.infer(ep_iterations=5, max_shape=1000, rescale_intervals=5, rescale_iterations=2, regularise=True, rescale_segsites=True)
lik = ep.edge_likelihoods  # reallocated in place (segsites=True)
sing = np.flatnonzero(ep.mutation_blocks != -1)
print("unphased singletons", sing.size, "blocks", ep.block_edges.shape[0])
# per block: expected counts
exp = {}
viol = 0; tot = 0
for b in range(ep.block_edges.shape[0]):
    i, j = ep.block_edges[b]
    ms = [m for m in sing if ep.mutation_blocks[m] == b]
    if not ms: continue
    # placed edge and phase prob (prob of placed edge) per mutation
    want_i = sum(ep.mutation_phase[m] if ep.mutation_edges[m] == i else 1-ep.mutation_phase[m] for m in ms if not np.isnan(ep.mutation_phase[m]))
    want_j = sum(ep.mutation_phase[m] if ep.mutation_edges[m] == j else 1-ep.mutation_phase[m] for m in ms if not np.isnan(ep.mutation_phase[m]))
    tot += 1
    if not (abs(lik[i,0]-want_i) < 1e-9 and abs(lik[j,0]-want_j) < 1e-9):
        viol += 1
        if viol <= 3: print("block", b, "edges", i, j, "got", lik[i,0], lik[j,0], "want", want_i, want_j, "phases", [ (ep.mutation_phase[m], ep.mutation_edges[m]) for m in ms])
print("blocks with singletons", tot, "swapped-allocation blocks", viol)
want = np.zeros(ts.num_edges)
for m in sing:
    b = ep.mutation_blocks[m]; i, j = ep.block_edges[b]; ph = ep.mutation_phase[m]
    if np.isnan(ph): continue
    placed = ep.mutation_edges[m]; other = j if placed == i else i
    want[placed] += ph; want[other] += 1-ph
unph = np.zeros(ts.num_edges, bool); unph[ep.block_edges.ravel()] = True
bad = np.flatnonzero(unph & (np.abs(lik[:,0]-want) > 1e-9))
print("unphased edges", unph.sum(), "edges with wrong share", bad.size, "sum got", lik[unph,0].sum(), "sum want", want.sum())
print("phased edges unchanged:", np.allclose(lik[~unph,0], base_edge[~unph,0]))
