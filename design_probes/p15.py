import warnings; warnings.filterwarnings("ignore")
import numpy as np, msprime, tskit, tsdate, json, itertools, scipy.stats
from p13h import *
ts = sim(7, n=3, L=1e3, rho=0, mu=2e-6)   # 6 samples single tree
print(ts.num_trees, ts.num_mutations, ts.num_nodes)
print(ts.draw_text())
mu=2e-6; N=1e4
tp = np.array([0, 500., 3000., 9000., 30000.])
pr = tsdate.build_prior_grid(ts, population_size=N, timepoints=tp)
eps = 1e-8
for space in ["linear", "logarithmic"]:
    prc = tsdate.build_prior_grid(ts, population_size=N, timepoints=tp)
    d, fit, lik = tsdate.inside_outside(ts, mutation_rate=mu, priors=prc, eps=eps, probability_space=space, return_fit=True, return_likelihood=True)
    post = fit.posterior_grid  # after to_probabilities
    # brute force
    G = len(tp); nonfixed = [u for u in range(ts.num_nodes) if not ts.node(u).is_sample()]
    prior = {u: pr[u] for u in nonfixed}
    edges = list(ts.edges())
    mut_edges = np.zeros(ts.num_edges, int)
    for m in ts.mutations():
        if m.edge >= 0: mut_edges[m.edge]+=1
    tot = 0.0; marg = {u: np.zeros(G) for u in nonfixed}
    for assign in itertools.product(range(G), repeat=len(nonfixed)):
        x = dict(zip(nonfixed, assign)); w = 1.0
        for u in nonfixed: w *= prior[u][x[u]]
        for e in edges:
            tpar = tp[x[e.parent]]
            if ts.node(e.child).is_sample():
                dt = tpar - 0 + eps
            else:
                if x[e.child] > x[e.parent]: w = 0; break
                dt = tpar - tp[x[e.child]] + eps
            w *= scipy.stats.poisson.pmf(mut_edges[e.id], dt*mu*e.span)
        if w == 0: continue
        tot += w
        for u in nonfixed: marg[u][x[u]] += w
    err = max(np.max(np.abs(marg[u]/tot - post[u])) for u in nonfixed)
    print(space, "max abs posterior err", err, "lik", lik, "brute Z", tot, np.log(tot))
