import warnings; warnings.filterwarnings("ignore")
import numpy as np, io, os, tempfile
tab = np.zeros((6,2)); tab[1:,0] = np.arange(2,7)/6; tab[1:,1] = np.random.default_rng(1).random(5)
buf = io.BytesIO(); np.savetxt(buf, tab); data = buf.getvalue()
print(len(data)); print(data[:120])
res = {}
for k in range(len(data)+1):
    with tempfile.NamedTemporaryFile(delete=False) as f: f.write(data[:k]); name=f.name
    try:
        with warnings.catch_warnings():
            warnings.simplefilter("ignore")
            arr = np.genfromtxt(name)
        ok = arr.shape == tab.shape and np.array_equal(arr, tab)
        res[k] = "same" if ok else f"silently-different shape={arr.shape}"
    except Exception as e:
        res[k] = "error:" + type(e).__name__
    os.unlink(name)
from collections import Counter
print(Counter(v.split(" ")[0] for v in res.values()))
print([ (k,v) for k,v in res.items() if v.startswith("silently")][:5])
