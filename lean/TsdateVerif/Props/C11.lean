/-
C11 — discrete-time dating is invariant to node numbering and input time order.

The discrete-time algorithms never read node ids or input times of non-sample nodes except through
the ORDER in which they traverse the edges (`edges_by_parent_asc`, `edges_by_child_desc`,
`edges_by_child_then_parent_desc` in tsdate/discrete.py; the edge-table order in the forced pass of
`util._constrain_ages`).  The theorems:

* `edge_orders_topological_*`: for every edge table whose parents are strictly older than their
  children, the three orders (as produced by the Lean models of the sort keys, which the check runs
  against the real iterators) finish every node before it is read and keep the edges of one
  destination adjacent — the hypotheses of all the pass theorems;
* `pass_order_indep`, `inside_order_indep`, `outside_order_indep`: a grouped pass computes the same
  values along ANY two such orders of the same edges — so a re-timing of the non-sample nodes that
  keeps the tree sequence valid (it only changes the order) cannot change the result;
* `pass_renumbering_invariant`: a renumbering of nodes and edge rows, followed by any valid order
  of the renumbered input, gives the same values at the renumbered nodes;
* `forced_order_indep`: likewise for the forced pass of the constraint step;
* `maximization_order_indep`: likewise for `outside_maximization` — in exact arithmetic even the
  argmax ties are broken identically (first index), so no "no ties" hypothesis is needed; the
  floating-point tie caveat of the property is handled by the oracle.
-/
import TsdateVerif.Proofs.SortKeys
import TsdateVerif.Proofs.Passes
import TsdateVerif.Proofs.ForcedOrder
import TsdateVerif.Props.C13
import TsdateVerif.Proofs.MaximizeOrder
import TsdateVerif.Proofs.PassesRelabel

namespace Tsdate.C11
open Tsdate Tsdate.Order
set_option linter.unusedSectionVars false

/-! ### the orders -/

section Orders
variable {α : Type} [Inhabited α] [LinearOrder α]

/-- edges of the outside pass (parent → child) for a list of edge rows -/
def outEdges (parent child : Array Nat) (rows : List Nat) : List DEdge :=
  rows.map (fun i => ⟨aget parent i, aget child i, i⟩)

/-- edges of the inside pass (child → parent) for a list of edge rows -/
def inEdges (parent child : Array Nat) (rows : List Nat) : List DEdge :=
  rows.map (fun i => ⟨aget child i, aget parent i, i⟩)

/-- edges of `outside_maximization` for a list of edge rows -/
def maxEdges (parent child : Array Nat) (rows : List Nat) : List Maximize.MEdge :=
  rows.map (fun i => ⟨aget parent i, aget child i, i⟩)

theorem flatDone_map {ι ε : Type} (m : ι → ε) (key src : ε → Nat) (l : List ι)
    (h : FlatDone (fun i => key (m i)) (fun i => src (m i)) l) : FlatDone key src (l.map m) := by
  refine ⟨List.pairwise_map.mpr h.1, ?_⟩
  intro e he
  obtain ⟨i, hi, rfl⟩ := List.mem_map.mp he
  exact h.2 i hi

theorem heads_map {ι ε : Type} (m : ι → ε) (key : ε → Nat) (l : List ι) :
    (runsBy key (l.map m)).map (ghead key) = (runsBy (fun i => key (m i)) l).map (ghead (fun i => key (m i))) := by
  rw [runsBy_map, List.map_map]
  apply List.map_congr_left
  intro g _
  exact ghead_map m key g

/-- **`edges_by_parent_asc` (the edge-table order) is topological** for the inside pass and the
forced pass whenever the table is sorted by parent time (a tskit requirement) and parents are
strictly older than children: no edge's parent is the child of that edge or of an earlier one. -/
theorem edge_orders_topological_parent_asc (time : Nat → α) (es : List DEdge)
    (hsorted : es.Pairwise (fun a b => time a.dst ≤ time b.dst))
    (hval : ∀ e ∈ es, time e.src < time e.dst) : FlatDone (·.dst) (·.src) es :=
  flatDone_of_asc _ _ time es hsorted hval

/-- **`edges_by_child_desc` is a valid grouped order for the outside pass**, for every edge table
with parents strictly older than children (no sortedness assumption: the iterator sorts). -/
theorem edge_orders_topological_child_desc (time : Array α) (child parent : Array Nat)
    (hval : ∀ i, i < child.size → aget time (aget child i) < aget time (aget parent i)) :
    FlatDone (·.dst) (·.src) (outEdges parent child (byChildDesc time child)) ∧
    ((runsBy (·.dst) (outEdges parent child (byChildDesc time child))).map gkey).Nodup ∧
    (outEdges parent child (byChildDesc time child)).Perm
      (outEdges parent child (List.range child.size)) := by
  obtain ⟨h1, h2⟩ := byChildDesc_valid time child parent hval
  refine ⟨flatDone_map _ _ _ _ h1, ?_, (byChildDesc_perm time child).map _⟩
  have : (runsBy (·.dst) (outEdges parent child (byChildDesc time child))).map gkey
      = (runsBy (·.dst) (outEdges parent child (byChildDesc time child))).map (ghead (·.dst)) :=
    List.map_congr_left (fun g _ => gkey_eq g)
  rw [this]
  unfold outEdges
  rw [heads_map]
  exact h2

/-- **`edges_by_child_then_parent_desc` is a valid order for `outside_maximization`** (the
hypothesis `ValidOrder` of the C13 theorems), for every edge table with parents strictly older than
children. -/
theorem edge_orders_topological_child_parent_desc (time : Array α) (child parent : Array Nat)
    (hval : ∀ i, i < child.size → aget time (aget child i) < aget time (aget parent i)) :
    C13.ValidOrder (maxEdges parent child (byChildThenParentDesc time child parent)) ∧
    (maxEdges parent child (byChildThenParentDesc time child parent)).Perm
      (maxEdges parent child (List.range child.size)) := by
  obtain ⟨h1, h2⟩ := byChildThenParentDesc_valid time child parent hval
  refine ⟨⟨?_, flatDone_map _ _ _ _ h1⟩, (byChildThenParentDesc_perm time child parent).map _⟩
  have : (runsBy (·.c) (maxEdges parent child (byChildThenParentDesc time child parent))).map
        Maximize.gchild
      = (runsBy (·.c) (maxEdges parent child (byChildThenParentDesc time child parent))).map
        (ghead (·.c)) :=
    List.map_congr_left (fun g _ => Maximize.gchild_eq g)
  rw [this]
  unfold maxEdges
  rw [heads_map]
  exact h2

end Orders

/-! ### the passes -/

section Passes
variable {β : Type} [Inhabited β]

/-- what a valid order of a pass is, on the flat edge list -/
structure ValidPassOrder (es : List DEdge) (n : Nat) : Prop where
  grouped : ((runsBy (·.dst) es).map gkey).Nodup
  flatDone : FlatDone (·.dst) (·.src) es
  inRange : ∀ e ∈ es, e.dst < n

/-- **Order independence of a pass** (inside pass, outside pass, with or without an ignored set):
along any two valid orders of the same edges every node gets the same value.  `time` is any
assignment under which the sources are strictly on one side of the destinations (the input times
witness acyclicity; the values do not depend on them). -/
theorem pass_order_indep {α : Type} [LinearOrder α] (ops : PassOps β) (hcomm : StepComm ops)
    (es es' : List DEdge) (st : Array β) (hv : ValidPassOrder es st.size)
    (hv' : ValidPassOrder es' st.size) (hperm : es.Perm es') (time : Nat → α)
    (hval : ∀ e ∈ es, time e.src < time e.dst) :
    ∀ u, aget (pass ops st es) u = aget (pass ops st es') u := by
  obtain ⟨rank, hrank⟩ := exists_rank time es hval
  unfold pass
  apply passGroups_perm ops hcomm _ _ st
    (validGroups_runsBy es _ hv.grouped hv.flatDone hv.inRange)
    (validGroups_runsBy es' _ hv'.grouped hv'.flatDone hv'.inRange)
    (by rw [runsBy_flatten, runsBy_flatten]; exact hperm) rank
    (by rw [runsBy_flatten]; exact hrank)

/-- **Renumbering invariance of a pass**: renumber nodes by `π` and edge rows by `σ`, transport
the operations and the start state, traverse the renumbered edges in ANY valid order: the value at
`π u` is the value the original pass computes at `u`. -/
theorem pass_renumbering_invariant {α : Type} [LinearOrder α] (π σ : Nat → Nat) (n : Nat)
    (hinj : ∀ u v, u < n → v < n → π u = π v → u = v) (hlt : ∀ u, u < n → π u < n)
    (ops ops' : PassOps β) (hrel : OpsRelabel π σ n ops ops') (hcomm : StepComm ops')
    (es es' : List DEdge) (hv : ValidPassOrder es n) (hr : ∀ e ∈ es, e.src < n)
    (hv' : ValidPassOrder es' n) (hperm : es'.Perm (es.map (relabelE π σ)))
    (time' : Nat → α) (hval' : ∀ e ∈ es', time' e.src < time' e.dst)
    (st st' : Array β) (hsz : st.size = n) (hsz' : st'.size = n)
    (hst : ∀ u, u < n → aget st' (π u) = aget st u) :
    ∀ u, u < n → aget (pass ops' st' es') (π u) = aget (pass ops st es) u := by
  unfold pass
  apply passGroups_renumber π σ n hinj hlt ops ops' hrel hcomm _
    (validGroups_runsBy es n hv.grouped hv.flatDone hv.inRange) ?_ _
    (validGroups_runsBy es' n hv'.grouped hv'.flatDone hv'.inRange) ?_ time'
    (by rw [runsBy_flatten]; exact hval') st st' hsz hsz' hst
  · intro g hg e he
    have hmem : e ∈ es := by
      rw [← runsBy_flatten (·.dst) es]; exact List.mem_flatten.mpr ⟨g, hg, he⟩
    exact ⟨hr e hmem, hv.inRange e hmem⟩
  · rw [runsBy_flatten, ← List.map_flatten, runsBy_flatten]
    exact hperm

end Passes

section Concrete
variable {α : Type} [Inhabited α] [Field α] [LinearOrder α] [IsStrictOrderedRing α]

/-- **The inside pass does not depend on the (valid) order of the edges.** -/
theorem inside_order_indep (d : GridData α) (n : Nat) (es es' : List DEdge)
    (hv : ValidPassOrder es n) (hv' : ValidPassOrder es' n) (hperm : es.Perm es')
    (time : Nat → α) (hval : ∀ e ∈ es, time e.src < time e.dst) :
    ∀ u, aget (pass (insideOps d) (insideInit d n) es) u
      = aget (pass (insideOps d) (insideInit d n) es') u := by
  have hsz : (insideInit d n).size = n := by simp [insideInit]
  exact pass_order_indep (insideOps d) (insideOps_comm d) es es' _ (by rw [hsz]; exact hv)
    (by rw [hsz]; exact hv') hperm time hval

/-- **The outside pass does not depend on the (valid) order of the edges**, for any ignored set,
with or without standardisation. -/
theorem outside_order_indep (d : GridData α) (n : Nat) (ins : Nat → List α) (den : Nat → α)
    (std : Bool) (ign : Nat → Bool) (rootfrac : Nat → α) (es es' : List DEdge)
    (hv : ValidPassOrder es n) (hv' : ValidPassOrder es' n) (hperm : es.Perm es')
    (time : Nat → α) (hval : ∀ e ∈ es, time e.dst < time e.src) :
    ∀ u, aget (pass (withIgnore (outsideOps d ins den std) ign) (outsideInit d n rootfrac) es) u
      = aget (pass (withIgnore (outsideOps d ins den std) ign) (outsideInit d n rootfrac) es') u := by
  have hsz : (outsideInit d n rootfrac).size = n := by simp [outsideInit]
  exact pass_order_indep (α := αᵒᵈ) _ (withIgnore_comm _ ign (outsideOps_comm d ins den std)) es es' _
    (by rw [hsz]; exact hv) (by rw [hsz]; exact hv') hperm (fun u => OrderDual.toDual (time u))
    (fun e he => OrderDual.toDual_lt_toDual.mpr (hval e he))

end Concrete

section ConcreteRenumber
variable {α : Type} [Inhabited α] [Field α] [LinearOrder α] [IsStrictOrderedRing α]

/-- **Inside–outside is invariant under renumbering, on the concrete model**: the linear-space
computation the check runs against the real code (`insideOutside`, no ignored root) gives, for the
renumbered input traversed in any valid orders, the outside rows of the original input at the
renumbered nodes (and the same holds for the inside rows, `insideOutside_renumber` being proved
through them). -/
theorem insideOutside_renumbering_invariant {τ : Type} [LinearOrder τ] (π σ : Nat → Nat) (n : Nat)
    (hinj : ∀ u v, u < n → v < n → π u = π v → u = v) (hlt : ∀ u, u < n → π u < n)
    (d d' : GridData α) (h : DataRelabel π σ n d d')
    (rootfrac rootfrac' : Nat → α) (hrf : ∀ u, u < n → rootfrac' (π u) = rootfrac u) (std : Bool)
    (insO outO insO' outO' : List DEdge)
    (hvi : ValidFlat insO n) (hvo : ValidFlat outO n)
    (hvi' : ValidFlat insO' n) (hvo' : ValidFlat outO' n)
    (hpi : insO'.Perm (insO.map (relabelE π σ))) (hpo : outO'.Perm (outO.map (relabelE π σ)))
    (time' : Nat → τ) (hti : ∀ e ∈ insO', time' e.src < time' e.dst)
    (hto : ∀ e ∈ outO', time' e.dst < time' e.src) :
    ∀ u, u < n →
      aget (insideOutside d' n rootfrac' (fun _ => false) std insO' outO').2 (π u)
        = aget (insideOutside d n rootfrac (fun _ => false) std insO outO).2 u :=
  insideOutside_renumber π σ n hinj hlt d d' h rootfrac rootfrac' hrf _ _ (fun _ _ => rfl) std
    insO outO insO' outO' hvi hvo hvi' hvo' hpi hpo time' hti hto

end ConcreteRenumber

/-! ### the forced pass of the constraint step -/

/-- **The forced pass does not depend on which topological order the edge table is in**
(exact arithmetic).  Together with `C27.forced_is_max` (order-free characterisation) this is why
re-timing and renumbering cannot change the constrained times. -/
theorem forced_order_indep {α : Type} [Inhabited α] [LinearOrder α] (fadd : α → α)
    (es es' : List Edge) (t : Array α) (hr : InRange t.size es) (htopo : TopoOrdered es)
    (htopo' : TopoOrdered es') (hperm : es.Perm es') (time : Nat → α)
    (hval : ∀ e ∈ es, time e.c < time e.p) :
    ∀ p, aget (forced fadd fadd t es) p = aget (forced fadd fadd t es') p := by
  obtain ⟨rank, hrank⟩ := exists_rank_edges time es hval
  exact Order.forced_order_indep fadd es es' t hr htopo htopo' hperm rank hrank

/-! ### maximization -/

section Maximization
open Maximize
variable {α : Type} [Inhabited α] [LinearOrder α]

/-- the standardising constants of every group can be divided by (linear space: positive) -/
def ConstsOK (ops : Ops α) (inp : Inp α) (es : List MEdge) : Prop :=
  ∀ e0 rest, (e0 :: rest) ∈ runsBy (·.c) es → inp.fixed e0.c = false →
    ∀ m ∈ groupConsts inp (aget (maximize ops inp es)) e0 rest, Scalable ops m

theorem heads_nodup (es : List MEdge) (hv : C13.ValidOrder es) :
    ((runsBy (·.c) es).map (ghead (·.c))).Nodup := by
  have : (runsBy (·.c) es).map (ghead (·.c)) = (runsBy (·.c) es).map gchild :=
    List.map_congr_left (fun g _ => (gchild_eq g).symm)
  rw [this]; exact hv.grouped

/-- **`outside_maximization` does not depend on the (valid) order of the edges**: along any two
valid orders of the same edges every node is assigned the same grid index.  In exact arithmetic
this needs no "no ties" hypothesis: both runs maximise the *same* score list and `argmax` takes
the first maximum. -/
theorem maximization_order_indep {τ : Type} [LinearOrder τ] (ops : Ops α) (hl : OpsLaws ops)
    (inp : Inp α) (es es' : List MEdge) (hv : C13.ValidOrder es) (hv' : C13.ValidOrder es')
    (hperm : es.Perm es') (hr : ∀ e ∈ es, e.c < inp.n)
    (hsc : ConstsOK ops inp es) (hsc' : ConstsOK ops inp es')
    (time : Nat → τ) (hval : ∀ e ∈ es, time e.c < time e.p) :
    ∀ u, aget (maximize ops inp es) u = aget (maximize ops inp es') u := by
  have hr' : ∀ e ∈ es', e.c < inp.n := fun e he => hr e (hperm.mem_iff.mpr he)
  obtain ⟨depth, hdepth⟩ := exists_rank (fun u => OrderDual.toDual (time u))
    (es.map (fun e => (⟨e.p, e.c, e.id⟩ : DEdge))) (by
      intro e he
      obtain ⟨e1, he1, rfl⟩ := List.mem_map.mp he
      exact OrderDual.toDual_lt_toDual.mpr (hval e1 he1))
  have hdepth' : ∀ e ∈ es, depth e.p < depth e.c :=
    fun e he => hdepth ⟨e.p, e.c, e.id⟩ (List.mem_map.mpr ⟨e, he, rfl⟩)
  apply eq_of_rank_step depth
  intro u ih
  by_cases hu : u < inp.n
  · by_cases hfix : inp.fixed u = true
    · rw [C13.max_fixed_value ops inp es u hu hfix, C13.max_fixed_value ops inp es' u hu hfix]
    · have hfix' : inp.fixed u = false := by simpa using hfix
      by_cases hch : ∃ e ∈ es, e.c = u
      · obtain ⟨e, he, hec⟩ := hch
        obtain ⟨e0, rest, hg, heg, hc⟩ := C13.mem_runs es e he
        obtain ⟨e0', rest', hg', heg', hc'⟩ := C13.mem_runs es' e (hperm.mem_iff.mp he)
        have hu0 : e0.c = u := by rw [← hc, hec]
        have hu0' : e0'.c = u := by rw [← hc', hec]
        have h1 := C13.max_rule ops hl inp es hv hr e0 rest hg (by rw [hu0]; exact hfix')
          (hsc e0 rest hg (by rw [hu0]; exact hfix'))
        have h2 := C13.max_rule ops hl inp es' hv' hr' e0' rest' hg' (by rw [hu0']; exact hfix')
          (hsc' e0' rest' hg' (by rw [hu0']; exact hfix'))
        rw [hu0] at h1
        rw [hu0'] at h2
        rw [h1, h2]
        congr 1
        have hf := run_eq_filter (·.c) es (heads_nodup es hv) _ hg
        have hf' := run_eq_filter (·.c) es' (heads_nodup es' hv') _ hg'
        have hpg : (e0 :: rest).Perm (e0' :: rest') := by
          rw [hf, hf']
          have : ghead (·.c) (e0 :: rest) = ghead (·.c) (e0' :: rest') := by
            show e0.c = e0'.c
            rw [hu0, hu0']
          rw [this]
          exact hperm.filter _
        apply specScores_perm ops hl inp _ _ e0 e0' rest rest' hpg (by rw [hu0, hu0'])
        intro e1 he1
        have hmem : e1 ∈ es := by
          rw [← runsBy_flatten (·.c) es]; exact List.mem_flatten.mpr ⟨_, hg, he1⟩
        have hc1 : e1.c = u := by
          rw [runsBy_homog (·.c) es _ hg e1 he1]; exact hu0
        have := hdepth' e1 hmem
        rw [hc1] at this
        exact ih e1.p this
      · have hno : ∀ e ∈ es, e.c ≠ u := fun e he h => hch ⟨e, he, h⟩
        have hno' : ∀ e ∈ es', e.c ≠ u := fun e he => hno e (hperm.mem_iff.mpr he)
        rw [C13.max_root_value ops inp es u hu hno hfix', C13.max_root_value ops inp es' u hu hno' hfix']
  · have h1 : aget (maximize ops inp es) u = 0 := by
      simp only [aget]
      rw [Array.getElem?_eq_none (by rw [C13.maximize_size]; omega)]; rfl
    have h2 : aget (maximize ops inp es') u = 0 := by
      simp only [aget]
      rw [Array.getElem?_eq_none (by rw [C13.maximize_size]; omega)]; rfl
    rw [h1, h2]

end Maximization

/-! ### Non-vacuity: the two-tree example of C13 (edge rows (child,parent): (0,3) (1,3) (2,3) (2,4)
(3,4); times 0,0,0,1,2) -/

def exTime : Array Rat := #[0, 0, 0, 1, 2]
def exChild : Array Nat := #[0, 1, 2, 2, 3]
def exParent : Array Nat := #[3, 3, 3, 4, 4]

/-- the order `edges_by_child_desc` yields on the example (rows 4, 0, 1, 2, 3) is valid -/
example : ValidPassOrder (outEdges exParent exChild [4, 0, 1, 2, 3]) 5 := by
  refine ⟨by decide +kernel, ⟨?_, by decide +kernel⟩, by decide +kernel⟩
  simp [outEdges, exParent, exChild, aget]
example : ∀ i, i < exChild.size → aget exTime (aget exChild i) < aget exTime (aget exParent i) := by
  decide +kernel

end Tsdate.C11
