/-
C25 — time rescaling is an order-preserving recalibration
(models: `mutational_area`, `mutational_timescale`, `piecewise_scale_point_estimate`,
`piecewise_scale_posterior`, tsdate/rescaling.py; `Model/Rescale.lean`).

`pwlPre ob rb = true` is exactly what the code asserts ("Use fewer rescaling intervals": both break
vectors strictly increasing, same size).  Before fix fa21a50 it could fail on valid inputs (finding F5,
property C35); since that fix `mutational_timescale` merges uninformative intervals and
`timescale_breaks_strict` proves that the breaks it returns always satisfy the precondition;
`timescale_strict_iff` + `merge_noop_when_informative` say exactly when merging changes anything.  All statements are over an arbitrary
linear ordered field (exact arithmetic); the same definitions run at `Float` agree with numba
bit-for-bit on generated inputs.
-/
import TsdateVerif.Proofs.RescaleAux
import TsdateVerif.Proofs.RescaleIter

namespace Tsdate.C25
open Tsdate.Rescale
set_option linter.unusedSectionVars false

variable {α : Type} [Inhabited α] [Field α] [LinearOrder α] [IsStrictOrderedRing α]

/-! ### the difference array of `mutational_area` -/

/-- **`diffarray_spec`: the difference array + `cumsum` of `mutational_area` equals the direct overlap sum.**
For every epoch `k` (interval between consecutive distinct node times), the returned `counts[k]` is the
sum over the edges spanning that interval of `mutations / edge length`, and `offset[k]` the sum of their
spans — for every edge list with in-range endpoints, every time vector (ties, zero- and negative-length
edges included) and every likelihood table. -/
theorem diffarray_spec (times : List α) (lik : List (α × α)) (edges : List Edge)
    (hr : ∀ e ∈ edges, e.p < times.length ∧ e.c < times.length) (k : Nat)
    (hk : k < (epochBreaks (distinctSorted times)).length - 1) :
    let A := mutationalArea times lik edges
    lget A.counts k = ((edges.zip lik).map (fun el =>
        if spans times A.index el.1 k then el.2.1 / (lget times el.1.p - lget times el.1.c) else 0)).sum ∧
    lget A.offset k = ((edges.zip lik).map (fun el =>
        if spans times A.index el.1 k then el.2.2 else 0)).sum := by
  intro A
  set d := distinctSorted times with hd
  set idx := times.map (nodeIndex d) with hidx
  have hAidx : A.index = idx := rfl
  -- every update has child index ≤ parent index
  have hle : ∀ u ∈ edgeUpdates times idx edges lik, u.1 ≤ u.2.1 := by
    intro u hu
    unfold edgeUpdates at hu
    obtain ⟨el, hel, hf⟩ := List.mem_filterMap.mp hu
    have hmem : el.1 ∈ edges := (List.of_mem_zip hel).1
    obtain ⟨hp, hc⟩ := hr el.1 hmem
    by_cases hlen : 0 < lget times el.1.p - lget times el.1.c
    · simp only [hlen, if_true, Option.some.injEq] at hf
      rw [← hf]
      simp only
      rw [hidx, lget_map _ _ _ hc, lget_map _ _ _ hp]
      exact nodeIndex_mono d _ _ (by linarith)
    · simp [hlen] at hf
  have key : ∀ (proj : α × α → α → α),
      ((edgeUpdates times idx edges lik).map (fun u => (u.1, u.2.1, proj (u.2.2.1, u.2.2.2) 0))).map (contrib k)
        = (edgeUpdates times idx edges lik).map
            (fun u => if u.1 ≤ k ∧ k < u.2.1 then proj (u.2.2.1, u.2.2.2) 0 else 0) := by
    intro proj
    rw [List.map_map]
    apply List.map_congr_left
    intro u hu
    exact contrib_of_le k _ (hle u hu)
  constructor
  · show lget (cumsum (diffArray _ ((edgeUpdates times idx edges lik).map
        (fun u => (u.1, u.2.1, u.2.2.1))))) k = _
    rw [cumsum_diffArray _ _ k hk]
    have := key (fun p _ => p.1)
    simp only at this
    rw [this]
    unfold edgeUpdates
    rw [sum_filterMap]
    congr 1
    apply List.map_congr_left
    intro el _
    rw [hAidx]
    unfold spans
    by_cases hlen : 0 < lget times el.1.p - lget times el.1.c
    · simp [hlen]
    · simp [hlen]
  · show lget (cumsum (diffArray _ ((edgeUpdates times idx edges lik).map
        (fun u => (u.1, u.2.1, u.2.2.2))))) k = _
    rw [cumsum_diffArray _ _ k hk]
    have := key (fun p _ => p.2)
    simp only at this
    rw [this]
    unfold edgeUpdates
    rw [sum_filterMap]
    congr 1
    apply List.map_congr_left
    intro el _
    rw [hAidx]
    unfold spans
    by_cases hlen : 0 < lget times el.1.p - lget times el.1.c
    · simp [hlen]
    · simp [hlen]

/-! ### what the indices mean: intervals between distinct node times -/

/-- **What "spans" means in terms of times.**  Let `d` be the strictly increasing list of distinct node
times (so interval `k` is `[d[k], d[k+1]]`).  An edge with in-range endpoints spans interval `k` in the
sense of `diffarray_spec` (child index `≤ k <` parent index, positive length) iff the parent is strictly
older than the child and the edge covers the whole interval: `t[child] ≤ d[k]` and `d[k+1] ≤ t[parent]`.
Together with `diffarray_spec`: `counts[k]`/`offset[k]` are the sums over exactly the edges overlapping
the `k`-th interval between node times. -/
theorem spans_iff_covers (times : List α) (lik : List (α × α)) (edges : List Edge) (e : Edge)
    (hp : e.p < times.length) (hc : e.c < times.length) (k : Nat)
    (hk : k + 1 < (distinctSorted times).length) :
    spans times (mutationalArea times lik edges).index e k ↔
      lget times e.c < lget times e.p ∧ lget times e.c ≤ (distinctSorted times)[k] ∧
        (distinctSorted times)[k + 1] ≤ lget times e.p := by
  have hs := sorted_distinctSorted times
  have hmc : lget times e.c ∈ distinctSorted times := (mem_distinctSorted times _).mpr (lget_mem times e.c hc)
  have hmp : lget times e.p ∈ distinctSorted times := (mem_distinctSorted times _).mpr (lget_mem times e.p hp)
  have hidx : (mutationalArea times lik edges).index = times.map (nodeIndex (distinctSorted times)) := rfl
  unfold spans
  rw [hidx, lget_map _ _ _ hc, lget_map _ _ _ hp,
    rank_le_iff _ hs _ hmc k (by omega), lt_rank_iff _ hs _ hmp k hk, sub_pos]

/-- the list of distinct node times is strictly increasing and has exactly the node times as members -/
theorem distinct_times_spec (times : List α) :
    (distinctSorted times).Pairwise (· < ·) ∧ ∀ t, t ∈ distinctSorted times ↔ t ∈ times :=
  ⟨sorted_distinctSorted times, mem_distinctSorted times⟩

/-- `nodes_index[u]` is the position of node `u`'s time among the distinct node times -/
theorem index_spec (times : List α) (lik : List (α × α)) (edges : List Edge) (u : Nat)
    (hu : u < times.length) :
    (distinctSorted times)[lget (mutationalArea times lik edges).index u]? = some (lget times u) := by
  have hidx : (mutationalArea times lik edges).index = times.map (nodeIndex (distinctSorted times)) := rfl
  rw [hidx, lget_map _ _ _ hu]
  exact (nodeIndex_lt_length _ _ ((mem_distinctSorted times _).mpr (lget_mem times u hu))
    (sorted_distinctSorted times)).2
/-! ### the piecewise-linear map -/

/-- **The code's formula is the piecewise-linear interpolant** through `(original_breaks[i],
rescaled_breaks[i])`, constant after the last break: for every `x` not below the first break,
`rescaled_breaks[idx] + scalings[idx] * (x - original_breaks[idx])` with
`idx = searchsorted(original_breaks, x, "right") - 1` equals `pwlRec` (Proofs/Rescale). -/
theorem pwl_interpolant (ob rb : List α) (h : pwlPre ob rb = true) (hne : ob ≠ []) (x : α)
    (hx : ob.head hne ≤ x) : pwlAt ob rb x = pwlRec (ob.zip rb) x := by
  have := pwlAt_zip (ob.zip rb) x (zip_incZ ob rb h) (zip_ne ob rb h hne)
    (by rw [zip_head ob rb h hne]; exact hx)
  rwa [zip_fst ob rb h, zip_snd ob rb h] at this

/-- **`pwl_monotone`: the rescaling map never reverses the order of two times.** -/
theorem pwl_monotone (ob rb : List α) (h : pwlPre ob rb = true) (hne : ob ≠ []) (x y : α)
    (hx : ob.head hne ≤ x) (hxy : x ≤ y) : pwlAt ob rb x ≤ pwlAt ob rb y := by
  rw [pwl_interpolant ob rb h hne x hx, pwl_interpolant ob rb h hne y (le_trans hx hxy)]
  exact pwlRec_mono _ x y (zip_incZ ob rb h) (zip_ne ob rb h hne)
    (by rw [zip_head ob rb h hne]; exact hx) hxy

/-- **The map sends every original break to the corresponding rescaled break** (so the linear pieces
meet at the breaks: the map is continuous there). -/
theorem pwl_at_break (ob rb : List α) (h : pwlPre ob rb = true) (hne : ob ≠ []) (i : Nat)
    (hi : i < ob.length) : pwlAt ob rb (lget ob i) = lget rb i := by
  obtain ⟨h1, h2, _⟩ := (pre_iff ob rb).mp h
  have hir : i < rb.length := by omega
  have hmem : (lget ob i, lget rb i) ∈ ob.zip rb := by
    rw [lget_eq_getElem ob i hi, lget_eq_getElem rb i hir]
    have : (ob.zip rb)[i]'(by simp [List.length_zip]; omega) = (ob[i], rb[i]) := by simp
    rw [← this]
    exact List.getElem_mem _
  have hge : ob.head hne ≤ lget ob i := by
    have hz := zip_incZ ob rb h
    match ob, rb, h1, hne, hz, hmem with
    | a :: t, b :: u, _, _, hz, hmem =>
      simp only [List.zip_cons_cons] at hz hmem
      simp only [List.head_cons]
      rcases List.mem_cons.mp hmem with e | hm
      · exact le_of_eq (congrArg Prod.fst e).symm
      · exact (hz.head_lt _ hm).1.le
  rw [pwl_interpolant ob rb h hne _ hge]
  exact pwlRec_at_break _ (zip_incZ ob rb h) _ hmem

/-- **`pwl_fix_zero`: when both break vectors start at 0 (as `mutational_timescale` builds them), time 0
is mapped to 0.** -/
theorem pwl_fix_zero (ob rb : List α) (h : pwlPre ob rb = true) (hne : ob ≠ [])
    (ho : lget ob 0 = 0) (hr : lget rb 0 = 0) : pwlAt ob rb 0 = 0 := by
  have := pwl_at_break ob rb h hne 0 (List.length_pos_iff.mpr hne)
  rwa [ho, hr] at this

/-- **`pwl_continuous` (quantitative)**: between `x ≤ y` the image grows by at least 0 and at most
`L (y - x)` for any bound `L ≥ 0` on the slopes `scalings` — no jumps anywhere. -/
theorem pwl_continuous (ob rb : List α) (h : pwlPre ob rb = true) (hne : ob ≠ []) (x y L : α)
    (hx : ob.head hne ≤ x) (hxy : x ≤ y) (hL : 0 ≤ L) (hs : ∀ s ∈ scalings ob rb, s ≤ L) :
    0 ≤ pwlAt ob rb y - pwlAt ob rb x ∧ pwlAt ob rb y - pwlAt ob rb x ≤ L * (y - x) := by
  refine ⟨sub_nonneg.mpr (pwl_monotone ob rb h hne x y hx hxy), ?_⟩
  rw [pwl_interpolant ob rb h hne x hx, pwl_interpolant ob rb h hne y (le_trans hx hxy)]
  refine pwlRec_lipschitz _ x y L (zip_incZ ob rb h) (zip_ne ob rb h hne)
    (by rw [zip_head ob rb h hne]; exact hx) hxy hL ?_
  rw [← scalings_zip, zip_fst ob rb h, zip_snd ob rb h]
  exact hs

/-- beyond the last original break the map is constant (`scalings[-1] = 0`) -/
theorem pwl_constant_after_last (ob rb : List α) (h : pwlPre ob rb = true) (hne : ob ≠ []) (x : α)
    (hx : ob.getLast hne ≤ x) :
    pwlAt ob rb x = ((ob.zip rb).getLast (zip_ne ob rb h hne)).2 := by
  have hz := zip_incZ ob rb h
  have hzne := zip_ne ob rb h hne
  have hlast : ((ob.zip rb).getLast hzne).1 = ob.getLast hne := by
    have : ((ob.zip rb).map (·.1)).getLast (by simpa using hzne) = ((ob.zip rb).getLast hzne).1 :=
      List.getLast_map _
    rw [← this]
    congr 1
    exact zip_fst ob rb h
  have hhead : ob.head hne ≤ x := by
    refine le_trans ?_ hx
    obtain ⟨_, h2, _⟩ := (pre_iff ob rb).mp h
    match ob, hne, h2 with
    | [a], _, _ => simp
    | a :: b :: t, _, h2 =>
      have hm : (a :: b :: t).getLast (by simp) ∈ b :: t := by
        rw [List.getLast_cons (by simp)]; exact List.getLast_mem _
      have hall : ∀ l : List α, ∀ a : α, Inc (a :: l) → ∀ y ∈ l, a < y := by
        intro l
        induction l with
        | nil => intro a _ y hy; cases hy
        | cons c r ih =>
          intro a hinc y hy
          rcases List.mem_cons.mp hy with rfl | hy
          · exact hinc.1
          · exact lt_trans hinc.1 (ih c hinc.2 y hy)
      exact (hall _ a h2 _ hm).le
  rw [pwl_interpolant ob rb h hne x hhead]
  exact pwlRec_after_last _ hz hzne x (by rw [hlast]; exact hx)

/-- **Fixed nodes are untouched, free nodes are mapped**: entry `i` of
`piecewise_scale_point_estimate(xs, fixed, ob, rb)` is `xs[i]` if `fixed[i]`, else the map of `xs[i]`. -/
theorem pwl_fixed_untouched (xs : List α) (fixed : List Bool) (ob rb : List α) (i : Nat)
    (hi : i < xs.length) (hf : i < fixed.length) :
    lget (piecewiseScalePoint xs fixed ob rb) i =
      if lget fixed i = true then lget xs i else pwlAt ob rb (lget xs i) := by
  unfold piecewiseScalePoint
  simp [lget, hi, hf]

/-- **Order of point estimates preserved**: two free nodes ordered `xs[i] ≤ xs[j]` stay ordered. -/
theorem order_preserved (xs : List α) (fixed : List Bool) (ob rb : List α) (h : pwlPre ob rb = true)
    (hne : ob ≠ []) (i j : Nat) (hi : i < xs.length) (hj : j < xs.length) (hfi : i < fixed.length)
    (hfj : j < fixed.length) (hi0 : lget fixed i = false) (hj0 : lget fixed j = false)
    (hge : ob.head hne ≤ lget xs i) (hij : lget xs i ≤ lget xs j) :
    lget (piecewiseScalePoint xs fixed ob rb) i ≤ lget (piecewiseScalePoint xs fixed ob rb) j := by
  rw [pwl_fixed_untouched xs fixed ob rb i hi hfi, pwl_fixed_untouched xs fixed ob rb j hj hfj, hi0, hj0]
  simp only [Bool.false_eq_true, if_false]
  exact pwl_monotone ob rb h hne _ _ hge hij

/-- **`compose_monotone`**: iterating rescaling maps (each with asserted precondition, each starting at
break 0 with value 0) is again monotone on `x ≥ 0`. -/
theorem compose_monotone (maps : List (List α × List α))
    (hm : ∀ m ∈ maps, pwlPre m.1 m.2 = true ∧ lget m.1 0 = 0 ∧ lget m.2 0 = 0 ∧ m.1 ≠ [])
    (x y : α) (hx : 0 ≤ x) (hxy : x ≤ y) :
    0 ≤ maps.foldl (fun t m => pwlAt m.1 m.2 t) x ∧
    maps.foldl (fun t m => pwlAt m.1 m.2 t) x ≤ maps.foldl (fun t m => pwlAt m.1 m.2 t) y := by
  induction maps generalizing x y with
  | nil => exact ⟨hx, hxy⟩
  | cons m rest ih =>
    obtain ⟨h1, h2, h3, h4⟩ := hm m (List.mem_cons_self ..)
    have hhead : m.1.head h4 = 0 := by
      match hm1 : m.1, h4, h2 with
      | a :: t, _, h2 => simpa [lget] using h2
    simp only [List.foldl_cons]
    have h0 : pwlAt m.1 m.2 0 = 0 := pwl_fix_zero m.1 m.2 h1 h4 h2 h3
    have hx' : 0 ≤ pwlAt m.1 m.2 x := by
      rw [← h0]; exact pwl_monotone m.1 m.2 h1 h4 0 x (by rw [hhead]) hx
    have hxy' : pwlAt m.1 m.2 x ≤ pwlAt m.1 m.2 y :=
      pwl_monotone m.1 m.2 h1 h4 x y (by rw [hhead]; exact hx) hxy
    exact ih (fun m' hm' => hm m' (List.mem_cons_of_mem _ hm')) _ _ hx' hxy'

/-! ### the breaks returned by `mutational_timescale` (repair of finding F5) -/

/-- **`timescale_breaks_strict`: the breakpoints returned by `mutational_timescale` always satisfy the
precondition asserted by `piecewise_scale_point_estimate` / `piecewise_scale_posterior`** — both vectors
strictly increasing, same size — and start at (0, 0): the "Use fewer rescaling intervals" assertions can
no longer fire.  `origin, adjust` are the raw breakpoints before the merging step; the only hypothesis is
that the first raw original break is below the last one (true as soon as two node times differ). -/
theorem timescale_breaks_strict (cast : Nat → α) (times : List α) (lik : List (α × α)) (edges : List Edge)
    (m : Nat) (origin adjust : List α)
    (hraw : mutationalTimescaleRaw cast times lik edges m = some (origin, adjust))
    (hid : lget origin 0 < lget origin (origin.length - 1)) :
    ∃ ob rb, mutationalTimescale cast times lik edges m = some (ob, rb) ∧ pwlPre ob rb = true ∧
      ob ≠ [] ∧ lget ob 0 = 0 ∧ lget rb 0 = 0 := by
  have hts : mutationalTimescale cast times lik edges m = some (mergeBreaks origin adjust) := by
    simp [mutationalTimescale, hraw]
  refine ⟨(mergeBreaks origin adjust).1, (mergeBreaks origin adjust).2, hts, merge_pre origin adjust hid, ?_⟩
  exact timescale_zero cast times lik edges m _ _ hts

/-- **Nothing is merged when every interval is informative**: if the raw breakpoints strictly increase in
both coordinates (for the rescaled ones that is `timescale_strict_iff`: every interval carries mutations),
`mutational_timescale` returns them unchanged — the time scale of the code before the repair. -/
theorem merge_noop_when_informative (cast : Nat → α) (times : List α) (lik : List (α × α))
    (edges : List Edge) (m : Nat) (origin adjust : List α)
    (hraw : mutationalTimescaleRaw cast times lik edges m = some (origin, adjust))
    (hl : origin.length = adjust.length) (h2 : 2 ≤ origin.length)
    (ho : strictlyIncreasing origin = true) (ha : strictlyIncreasing adjust = true) :
    mutationalTimescale cast times lik edges m = some (origin, adjust) := by
  simp only [mutationalTimescale, hraw, Option.map_some]
  rw [merge_noop_of_strict origin adjust hl h2 ((inc_iff origin).mp ho) ((inc_iff adjust).mp ha)]

/-! ### when are the raw rescaled breaks strictly increasing? (the mechanism of finding F5) -/

/-- **`timescale_strict_iff`: the rescaled breaks returned by `mutational_timescale` strictly increase
iff every interval between consecutive changepoints carries a positive total mutation count.**
(`adjustSteps … = some steps` says the code's own `assert n > 0` passed; durations of intervals are
positive because node times are distinct.)  When some interval has no mutations the raw breaks repeat; before
fix fa21a50 the next call then stopped with "Use fewer rescaling intervals" (finding F5), now those
intervals are merged into their neighbours (`timescale_breaks_strict`). -/
theorem timescale_strict_iff (counts offset duration : List α) (cps : List Nat) (steps : List α)
    (h : adjustSteps counts offset duration cps = some steps)
    (hz : ∀ ij ∈ pairsOf cps, 0 < lsum (slice duration ij.1 ij.2)) :
    strictlyIncreasing (cumsum (0 :: steps)) = true ↔
      ∀ ij ∈ pairsOf cps, 0 < lsum (slice counts ij.1 ij.2) := by
  rw [inc_iff, inc_cumsum_iff]
  induction cps generalizing steps with
  | nil => simp [adjustSteps] at h; subst h; simp [pairsOf]
  | cons i rest ih =>
    cases rest with
    | nil => simp [adjustSteps] at h; subst h; simp [pairsOf]
    | cons j r =>
      simp only [adjustSteps] at h
      by_cases hn : 0 < lsum (slice offset i j)
      · simp only [hn, if_true, Option.map_eq_some_iff] at h
        obtain ⟨t, ht, rfl⟩ := h
        have hz' : ∀ ij ∈ pairsOf (j :: r), 0 < lsum (slice duration ij.1 ij.2) :=
          fun ij hij => hz ij (by simp [pairsOf, hij])
        have hzi : 0 < lsum (slice duration i j) := hz (i, j) (by simp [pairsOf])
        have := ih t ht hz'
        simp only [pairsOf, List.mem_cons, forall_eq_or_imp]
        rw [this]
        constructor
        · rintro ⟨h1, h2⟩
          refine ⟨?_, h2⟩
          by_contra hc
          have hy : lsum (slice counts i j) ≤ 0 := not_lt.mp hc
          have : lsum (slice duration i j) * lsum (slice counts i j) / lsum (slice offset i j) ≤ 0 :=
            div_nonpos_of_nonpos_of_nonneg (mul_nonpos_of_nonneg_of_nonpos hzi.le hy) hn.le
          linarith
        · rintro ⟨h1, h2⟩
          exact ⟨div_pos (mul_pos hzi h1) hn, h2⟩
      · simp [hn] at h

/-! ### the posterior step -/

/-- **`posterior_keeps_mapped_mean`**: whatever shape `alpha'` the inter-quantile fit returns, the rate
`beta' = (alpha'+1)/midpt'` makes the mean of the rescaled posterior equal to the *mapped* old mean
`midpt' = pwl((alpha+1)/beta)`. -/
theorem posterior_keeps_mapped_mean (ob rb : List α) (alpha beta qlo qhi alphaNew : α)
    (hm : (posteriorPoints ob rb alpha beta qlo qhi).1 ≠ 0) (ha : alphaNew + 1 ≠ 0) :
    ((posteriorFromShape alphaNew (posteriorPoints ob rb alpha beta qlo qhi).1).1 + 1) /
      (posteriorFromShape alphaNew (posteriorPoints ob rb alpha beta qlo qhi).1).2
      = pwlAt ob rb ((alpha + 1) / beta) := by
  simp only [posteriorFromShape, posteriorPoints] at hm ⊢
  field_simp

/-! ### Non-vacuity -/

example : pwlPre ([0, 1, 3] : List Rat) [0, 4, 5] = true := by decide +kernel

example : piecewiseScalePoint ([0, 1/2, 1, 2, 3, 7] : List Rat) [true, false, false, false, false, false]
    [0, 1, 3] [0, 4, 5] = [0, 2, 4, 9/2, 5, 5] := by decide +kernel

example : (mutationalArea ([0, 0, 1, 2] : List Rat) [(2, 10), (1, 10), (3, 10)]
    [⟨2, 0⟩, ⟨2, 1⟩, ⟨3, 2⟩]).counts = [3, 3] := by decide +kernel

example : (mutationalArea ([0, 0, 1, 2] : List Rat) [(2, 10), (1, 10), (3, 10)]
    [⟨2, 0⟩, ⟨2, 1⟩, ⟨3, 2⟩]).offset = [20, 10] := by decide +kernel

end Tsdate.C25
