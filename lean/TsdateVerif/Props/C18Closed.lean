/-
C18 (continued) — the closed-form cases of the EP moment updates are exact, and the algebraic part of the support
clauses.  Same conventions as `Props/C18.lean`: generated kernels, any ordered field, ANY `F : SpecFns α`.
-/
import TsdateVerif.Props.C18

namespace Tsdate.C18
open Tsdate.Kernels Tsdate.Gen.Kernels
set_option linter.unusedSectionVars false

variable {α : Type} [Field α] [LinearOrder α] [IsStrictOrderedRing α]

/-! ## 2. The closed-form cases are exact -/

/-- **Child at time zero is conjugate.**  With the child fixed at 0 the tilted density of the parent is
`Gamma(a+1+y, b+μ)`; whenever the update is not skipped, the returned natural parameters are exactly
`(a + y, b + μ)` — for every interpretation of the special functions. -/
theorem rootward_t0_conjugate (F : SpecFns α) (a b y mu logl : α) (q : α × α)
    (h : rootward_projection F 0 (a, b) (y, mu) = (some logl, q)) : q = (a + y, b + mu) := by
  rcases rootward_projection_valid_or_skip F 0 (a, b) (y, mu) with hs | ⟨l, mn, va, hm, q', hq, hfit⟩
  · rw [hs] at h; simp at h
  · rw [hq] at h
    have hq' : q' = q := by simpa using (Prod.mk.inj h).2
    subst hq'
    simp only [rootward_moments, Nat.cast_zero, feq_self, if_true] at hm
    split_ifs at hm with hv
    simp only [Option.some.injEq, Prod.mk.injEq] at hm
    obtain ⟨-, hmn, hva⟩ := hm
    have hg := (valid_gamma_iff F _ _).1 (by simpa using hv)
    obtain ⟨-, hs, hr⟩ := hg
    obtain ⟨hsh, hrt⟩ := gammaFit_unique _ _ _ hfit
    have hr' : mu + b ≠ 0 := ne_of_gt hr
    have hs' : a + 1 + y ≠ 0 := ne_of_gt hs
    rw [← hmn, ← hva] at hsh hrt
    ext
    · have : q'.1 + 1 = a + 1 + y := by rw [hsh]; field_simp
      linarith
    · rw [hrt]; field_simp; ring

/-- The conjugate update is really taken (not skipped) whenever the arguments are finite, the cavity shape plus
the mutation count is positive and the total rate is positive. -/
theorem rootward_t0_not_skipped (F : SpecFns α) (hfin : ∀ x, F.isFinite x = true) (a b y mu : α)
    (hs : 0 < a + 1 + y) (hr : 0 < mu + b) :
    ∃ logl, rootward_projection F 0 (a, b) (y, mu) = (some logl, (a + y, b + mu)) := by
  have hv : _valid_gamma F (a + 1 + y) (mu + b) = true := (valid_gamma_iff F _ _).2 ⟨⟨hfin _, hfin _⟩, hs, hr⟩
  have hr' : mu + b ≠ 0 := ne_of_gt hr
  have hs' : a + 1 + y ≠ 0 := ne_of_gt hs
  have hm : _valid_moments F ((a + 1 + y) / (mu + b)) ((a + 1 + y) / ((mu + b) * (mu + b))) = true :=
    (valid_moments_iff F _ _).2 ⟨⟨hfin _, hfin _⟩, by positivity, by positivity⟩
  refine ⟨F.lgamma (a + 1 + y) - (a + 1 + y) * F.log (mu + b), ?_⟩
  simp only [rootward_projection, rootward_moments, Nat.cast_one, Nat.cast_zero, feq_self, hv, hm,
    approximate_gamma_mom, Bool.not_true, Bool.false_eq_true, if_false, if_true]
  refine Prod.ext rfl (Prod.ext ?_ ?_)
  · show (a + 1 + y) / (mu + b) * ((a + 1 + y) / (mu + b)) / ((a + 1 + y) / ((mu + b) * (mu + b))) - 1 = a + y
    field_simp; ring
  · show (a + 1 + y) / (mu + b) / ((a + 1 + y) / ((mu + b) * (mu + b))) = b + mu
    field_simp; ring

/-- **Twin blocks are conjugate**: whenever not skipped, the update of a node that is both parents of a singleton
block returns exactly `(a + y, b + 2μ)`. -/
theorem twin_conjugate (F : SpecFns α) (a b y mu logl : α) (q : α × α)
    (h : twin_projection F (a, b) (y, mu) = (some logl, q)) : q = (a + y, b + 2 * mu) := by
  rcases twin_projection_valid_or_skip F (a, b) (y, mu) with hs | ⟨q', hq, hfit⟩
  · rw [hs] at h; simp at h
  · rw [hq] at h
    have hq' : q' = q := by simpa using (Prod.mk.inj h).2
    subst hq'
    obtain ⟨h1, h2, h3, h4⟩ := hfit
    simp only [twin_moments, Nat.cast_ofNat] at h3 h4
    have h2' : q'.2 ≠ 0 := ne_of_gt h2
    have h1' : q'.1 + 1 ≠ 0 := ne_of_gt h1
    -- mean m = s / r and variance v = s / r² with s = shape, r = rate determine (s, r) = (m²/v, m/v)
    have hr : b + 2 * mu ≠ 0 := by
      intro h0
      rw [h0, div_zero] at h3
      exact absurd h3 (ne_of_gt (div_pos h1 h2))
    have hs : a + 1 + y ≠ 0 := by
      intro h0
      rw [h0, zero_div] at h3
      exact absurd h3 (ne_of_gt (div_pos h1 h2))
    have e1 : (q'.1 + 1) * (b + 2 * mu) = (a + 1 + y) * q'.2 := by
      field_simp at h3; linarith
    have e2 : (q'.1 + 1) * ((b + 2 * mu) * (b + 2 * mu)) = (a + 1 + y) * q'.2 ^ 2 := by
      field_simp at h4; linarith
    have e3 : q'.2 = b + 2 * mu := by
      have : (a + 1 + y) * q'.2 * (b + 2 * mu) = (a + 1 + y) * q'.2 * q'.2 := by
        linear_combination (-(b + 2 * mu)) * e1 + e2
      have hne : (a + 1 + y) * q'.2 ≠ 0 := mul_ne_zero hs h2'
      exact (mul_left_cancel₀ hne this).symm
    have e4 : q'.1 + 1 = a + 1 + y := by
      rw [e3] at e1; exact mul_right_cancel₀ hr e1
    ext
    · show q'.1 = a + y; linarith
    · exact e3

/-- **Both ends fixed**: the mutation age is uniform on the edge — mean `(t_i + t_j)/2`, variance `(t_i − t_j)²/12`. -/
theorem edge_uniform_exact (F : SpecFns α) (t_i t_j : α) :
    mutation_edge_moments F t_i t_j = ((t_i + t_j) / 2, (t_i - t_j) ^ 2 / 12) := by
  simp only [mutation_edge_moments, Nat.cast_one, Nat.cast_ofNat]
  refine Prod.ext ?_ ?_ <;> simp only <;> ring

/-- … and that mean lies strictly between the two ends, with positive variance. -/
theorem edge_uniform_between (F : SpecFns α) (t_i t_j : α) (h : t_j < t_i) :
    t_j < (mutation_edge_moments F t_i t_j).1 ∧ (mutation_edge_moments F t_i t_j).1 < t_i ∧
      0 < (mutation_edge_moments F t_i t_j).2 := by
  rw [edge_uniform_exact]
  have : t_i - t_j ≠ 0 := ne_of_gt (sub_pos.2 h)
  refine ⟨by simp only; linarith, by simp only; linarith, by simp only; positivity⟩

/-- **Block between two fixed parents** (ages `t_i, t_j > 0`): the mutation is under parent `i` with probability
`t_i/(t_i+t_j)`, its age has mean `(t_i² + t_j²) / (2 (t_i + t_j))` and second moment `(t_i³ + t_j³)/(3 (t_i+t_j))`
(mixture of two uniforms). -/
theorem block_mixture_exact (F : SpecFns α) (t_i t_j : α) (hi : 0 < t_i) (hj : 0 < t_j) :
    (mutation_block_moments F t_i t_j).1 = t_i / (t_i + t_j) ∧
    (mutation_block_moments F t_i t_j).2.1 = (t_i ^ 2 + t_j ^ 2) / (2 * (t_i + t_j)) ∧
    (mutation_block_moments F t_i t_j).2.2
      = (t_i ^ 3 + t_j ^ 3) / (3 * (t_i + t_j)) - ((t_i ^ 2 + t_j ^ 2) / (2 * (t_i + t_j))) ^ 2 := by
  have hs : t_i + t_j ≠ 0 := ne_of_gt (add_pos hi hj)
  simp only [mutation_block_moments, Nat.cast_one, Nat.cast_ofNat]
  refine ⟨by first | trivial | rfl, ?_, ?_⟩ <;> field_simp <;> ring

/-- … with phase probability strictly inside `(0, 1)`, mean inside the support `(0, max t_i t_j)`, variance > 0. -/
theorem block_mean_in_support (F : SpecFns α) (t_i t_j : α) (hi : 0 < t_i) (hj : 0 < t_j) :
    0 < (mutation_block_moments F t_i t_j).1 ∧ (mutation_block_moments F t_i t_j).1 < 1 ∧
    0 < (mutation_block_moments F t_i t_j).2.1 ∧ (mutation_block_moments F t_i t_j).2.1 < max t_i t_j ∧
    0 < (mutation_block_moments F t_i t_j).2.2 := by
  obtain ⟨h1, h2, h3⟩ := block_mixture_exact F t_i t_j hi hj
  have hs : 0 < t_i + t_j := add_pos hi hj
  rw [h1, h2, h3]
  refine ⟨by positivity, by rw [div_lt_one hs]; linarith, by positivity, ?_, ?_⟩
  · rw [div_lt_iff₀ (by positivity)]
    rcases le_total t_i t_j with hle | hle
    · rw [max_eq_right hle]; nlinarith
    · rw [max_eq_left hle]; nlinarith
  · have key : (t_i ^ 3 + t_j ^ 3) / (3 * (t_i + t_j)) - ((t_i ^ 2 + t_j ^ 2) / (2 * (t_i + t_j))) ^ 2
        = (t_i ^ 4 + t_j ^ 4 + 4 * t_i * t_j * (t_i ^ 2 + t_j ^ 2) - 6 * t_i ^ 2 * t_j ^ 2)
            / (12 * (t_i + t_j) ^ 2) := by
      field_simp; ring
    rw [key]
    apply div_pos _ (by positivity)
    nlinarith [sq_nonneg (t_i - t_j), sq_nonneg (t_i + t_j), mul_pos hi hj, sq_nonneg (t_i ^ 2 - t_j ^ 2),
      mul_pos (mul_pos hi hj) (mul_pos hi hj)]

/-- **Mutation above a fixed child** (`t_m` uniform between `t_j` and the parent age `t_i`): the mutation moments
are the midpoint-of-uniform algebra applied to the parent's moments: mean `(E t_i + t_j)/2`, variance
`Var t_i / 3 + (E t_i − t_j)² / 12` (law of total variance); skipped exactly when the parent update is. -/
theorem mutation_rootward_from_parent (F : SpecFns α) (t_j a_i b_i y mu : α) :
    mutation_rootward_moments F t_j a_i b_i y mu =
      (rootward_moments F t_j a_i b_i y mu).map
        (fun r => ((r.2.1 + t_j) / 2, r.2.2 / 3 + (r.2.1 - t_j) ^ 2 / 12)) := by
  simp only [mutation_rootward_moments, Nat.cast_ofNat]
  cases rootward_moments F t_j a_i b_i y mu with
  | none => rfl
  | some r =>
    simp only [Option.map_some]
    congr 1
    refine Prod.ext ?_ ?_ <;> simp only <;> ring

/-- Mirror image for a mutation below a fixed parent. -/
theorem mutation_leafward_from_child (F : SpecFns α) (t_i a_j b_j y mu : α) :
    mutation_leafward_moments F t_i a_j b_j y mu =
      (leafward_moments F t_i a_j b_j y mu).map
        (fun r => ((r.2.1 + t_i) / 2, r.2.2 / 3 + (r.2.1 - t_i) ^ 2 / 12)) := by
  simp only [mutation_leafward_moments, Nat.cast_ofNat]
  cases leafward_moments F t_i a_j b_j y mu with
  | none => rfl
  | some r =>
    simp only [Option.map_some]
    congr 1
    refine Prod.ext ?_ ?_ <;> simp only <;> ring

/-- Hence: if the node mean is in its support (`t_j < E t_i`, variance > 0) then the mutation mean lies strictly
between the child and the parent mean, with positive variance. -/
theorem mutation_rootward_between (F : SpecFns α) (t_j a_i b_i y mu logl mn_i va_i : α)
    (h : rootward_moments F t_j a_i b_i y mu = some (logl, mn_i, va_i)) (hsup : t_j < mn_i) (hva : 0 < va_i) :
    ∃ mn_m va_m, mutation_rootward_moments F t_j a_i b_i y mu = some (mn_m, va_m) ∧
      t_j < mn_m ∧ mn_m < mn_i ∧ 0 < va_m := by
  rw [mutation_rootward_from_parent, h]
  refine ⟨_, _, rfl, by simp only; linarith, by simp only; linarith, by simp only; positivity⟩

theorem mutation_leafward_between (F : SpecFns α) (t_i a_j b_j y mu logl mn_j va_j : α)
    (h : leafward_moments F t_i a_j b_j y mu = some (logl, mn_j, va_j)) (hsup : mn_j < t_i) (hva : 0 < va_j) :
    ∃ mn_m va_m, mutation_leafward_moments F t_i a_j b_j y mu = some (mn_m, va_m) ∧
      mn_j < mn_m ∧ mn_m < t_i ∧ 0 < va_m := by
  rw [mutation_leafward_from_child, h]
  refine ⟨_, _, rfl, by simp only; linarith, by simp only; linarith, by simp only; positivity⟩

/-- **Twin block, mutation age**: phase 1/2, mean `s/(2r)`, variance `s (s + 4) / (12 r²)` with
`s = a_i + y`, `r = b_i + 2μ` (uniform below a `Gamma(s, r)` age). -/
theorem mutation_twin_exact (F : SpecFns α) (a_i b_i y mu : α) (hr : b_i + 2 * mu ≠ 0) :
    mutation_twin_moments F a_i b_i y mu =
      (1 / 2, (a_i + y) / (2 * (b_i + 2 * mu)), (a_i + y) * (a_i + y + 4) / (12 * (b_i + 2 * mu) ^ 2)) := by
  simp only [mutation_twin_moments, Nat.cast_one, Nat.cast_ofNat]
  refine Prod.ext rfl (Prod.ext ?_ ?_) <;> simp only <;> field_simp <;> try ring

/-- **First-moment identity, both ends free.**  For the tilted density
`t_i^{a_i-1} t_j^{a_j-1} (t_i-t_j)^y e^{-(μ+b_i) t_i + (μ-b_j) t_j}` the scaling identity
`(μ+b_i) E t_i − (μ−b_j) E t_j = a_i + a_j + y` holds exactly; the returned means satisfy it exactly, whatever
the accuracy of the Laplace approximation of the hypergeometric function. -/
theorem moments_first_moment_identity (F : SpecFns α) (a_i b_i a_j b_j y mu logl mn_i va_i mn_j va_j : α)
    (h : moments F a_i b_i a_j b_j y mu = some (logl, mn_i, va_i, mn_j, va_j)) :
    (mu + b_i) * mn_i - (mu - b_j) * mn_j = a_i + a_j + y := by
  simp only [moments, Nat.cast_zero] at h
  split_ifs at h with ht hv
  simp only [Option.some.injEq, Prod.mk.injEq] at h
  obtain ⟨-, hmi, -, hmj, -⟩ := h
  have ht' : mu + b_i ≠ 0 := ne_of_gt (by simpa using ht)
  rw [← hmi, ← hmj]
  field_simp
  ring

/-- Same for the unphased block: `(μ+b_i) E t_i + (μ+b_j) E t_j = a_i + a_j + y`. -/
theorem unphased_first_moment_identity (F : SpecFns α) (a_i b_i a_j b_j y mu logl mn_i va_i mn_j va_j : α)
    (h : unphased_moments F a_i b_i a_j b_j y mu = some (logl, mn_i, va_i, mn_j, va_j)) :
    (mu + b_i) * mn_i + (mu + b_j) * mn_j = a_i + a_j + y := by
  simp only [unphased_moments, Nat.cast_zero] at h
  split_ifs at h with ht hv
  simp only [Option.some.injEq, Prod.mk.injEq] at h
  obtain ⟨-, hmi, -, hmj, -⟩ := h
  have ht' : mu + b_i ≠ 0 := ne_of_gt (by simpa using ht)
  rw [← hmi, ← hmj]
  field_simp
  ring

/-- **Where the support clause of the Laplace kernels lives.**  Above a fixed child at `t_j > 0` the returned mean is
`t_j (1 − d0)` with `d0` the approximated `∂ log U / ∂z`: the mean lies in the support `(t_j, ∞)` *iff* `d0 < 0`, and the
variance `t_j² d0 (d1 − d0)` is positive iff `d0 (d1 − d0) > 0`.  (The true `U′/U` is negative and increasing; that the
approximation shares these signs is the analytic fact that is not proved here.) -/
theorem rootward_support_iff (F : SpecFns α) (t_j a_i b_i y mu logl mn va : α) (ht : 0 < t_j)
    (h : rootward_moments F t_j a_i b_i y mu = some (logl, mn, va)) :
    (t_j < mn ↔ (_hyperu_laplace F (y + 1) (a_i + y + 1) (t_j * (mu + b_i))).2 < 0) ∧
    (0 < va ↔ 0 < (_hyperu_laplace F (y + 1) (a_i + y + 1) (t_j * (mu + b_i))).2 *
      ((_hyperu_laplace F (y + 1 + 1) (a_i + y + 1 + 1) (t_j * (mu + b_i))).2
        - (_hyperu_laplace F (y + 1) (a_i + y + 1) (t_j * (mu + b_i))).2)) := by
  have hne : ¬ (feq t_j 0 = true) := by rw [feq_iff]; exact ne_of_gt ht
  simp only [rootward_moments, Nat.cast_zero, Nat.cast_one, add_zero] at h
  split_ifs at h with h1 h3
  simp only [Option.some.injEq, Prod.mk.injEq] at h
  obtain ⟨-, hmn, hva⟩ := h
  rw [← hmn, ← hva]
  constructor
  · constructor
    · intro hlt; nlinarith
    · intro hd; nlinarith
  · have ht2 : 0 < t_j * t_j := mul_pos ht ht
    have e : ∀ d0 d1 : α, t_j * t_j * d0 * (d1 - d0) = (t_j * t_j) * (d0 * (d1 - d0)) := by intro d0 d1; ring
    rw [e]
    exact mul_pos_iff_of_pos_left ht2

/-- Below a fixed parent the returned mean is `t_i · (a/b) · exp(f₁ − f₀)`: it is positive as soon as `exp` is a
positive function (no other property of `exp` is needed); `mean < t_i` is again a statement about the
approximation. -/
theorem leafward_mean_pos (F : SpecFns α) (hexp : ∀ x, 0 < F.exp x) (t_i a_j b_j y mu logl mn va : α) (ht : 0 < t_i)
    (h : leafward_moments F t_i a_j b_j y mu = some (logl, mn, va)) : 0 < mn := by
  simp only [leafward_moments, Nat.cast_zero, Nat.cast_one, Nat.cast_ofNat, add_zero] at h
  split_ifs at h with h1
  have hv := (valid_hyp1f1_iff F _ _ _).1 (by simpa using h1)
  obtain ⟨-, hab, ha⟩ := hv
  simp only [Option.some.injEq, Prod.mk.injEq] at h
  obtain ⟨-, hmn, -⟩ := h
  rw [← hmn]
  have hb : 0 < a_j + y + 1 := lt_of_lt_of_le ha hab
  have := hexp (_hyp1f1_laplace F (a_j + 1) (a_j + y + 1 + 1) (t_i * (mu - b_j)) - _hyp1f1_laplace F a_j (a_j + y + 1) (t_i * (mu - b_j)))
  positivity

/-! ## Non-vacuity -/

/-- The hypotheses of the conjugacy theorem are met by a concrete update (at `Rat`, special functions trivial):
cavity `(a, b) = (2, 1/2)`, 3 mutations, span·rate 1/4: posterior `(5, 3/4)`. -/
example : ∃ logl, rootward_projection (α := Rat) ⟨id, id, id, id, fun _ => true⟩ 0 (2, 1/2) (3, 1/4)
    = (some logl, (5, 3/4)) := by
  obtain ⟨l, h⟩ := rootward_t0_not_skipped (α := Rat) ⟨id, id, id, id, fun _ => true⟩ (fun _ => rfl) 2 (1/2) 3 (1/4)
    (by norm_num) (by norm_num)
  exact ⟨l, by rw [h]; norm_num⟩

example : mutation_edge_moments (α := Rat) ⟨id, id, id, id, fun _ => true⟩ 10 4 = (7, 3) := by
  rw [edge_uniform_exact]; norm_num

example : (mutation_block_moments (α := Rat) ⟨id, id, id, id, fun _ => true⟩ 3 1).1 = 3 / 4 := by
  rw [(block_mixture_exact _ 3 1 (by norm_num) (by norm_num)).1]; norm_num

end Tsdate.C18
