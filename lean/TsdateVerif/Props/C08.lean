/-
C08 — dates depend only on topology, sample times and mutation placement.

* `readSet_allowed`, `forbidden_not_read` (by `decide` on the regenerated `Gen/ReadSet.lean`): every
  tskit attribute read by any function of the dating path is in the list below; in particular no
  allele state, metadata, schema, population, provenance, migration, genotype/variant accessor,
  `tables`/`dump_tables`, existing mutation time/parent, `time_units`, nor any dynamic attribute access.
* `sites_position_only_at_mutations`: `sites_position` is only ever read as
  `sites_position[ts.mutations_site]` (never the whole per-site column).
* `readSet_phased_no_individuals`: individual information is read only in
  `phasing.block_singletons` / `_block_singletons` (and `num_individuals` in `EP.__init__`), every
  use of a value derived from it sits behind `individuals_unphased[…]`, and that array is
  `~np.full(ts.num_individuals, singletons_phased)`; `guardedRun_phased`: with no unphased
  individual a run of guarded steps leaves the state untouched whatever `nodes_individual` holds.
* `DatingInput` / `project` / `dating_congr`: the model's input type contains only what the read-set
  allows; `project_eq_of`: two table collections that agree on sequence length, node times, sample
  flags, edges, site positions and each mutation's (site, node) — and, when unphased, on
  `nodes_individual` — have the same projection, hence are dated identically by *any* function of
  the projection; `insertSite_project`: adding a site without mutations does not change it.
-/
import TsdateVerif.Model.DatingInput
import TsdateVerif.Gen.ReadSet
import TsdateVerif.Proofs.Pipeline

namespace Tsdate.C08
open Tsdate.Tables Tsdate.Pipeline

/-- The tskit attributes the dating path may read: topology and tree traversal, node times and
sample flags, mutation placement, counts, sequence length, and (guarded) individual membership. -/
def allowedReads : List String := [
  -- edges and tree traversal
  "edges", "edge", "edges_parent", "edges_child", "edges_left", "edges_right", "parent", "child", "children",
  "id", "span", "interval", "trees", "first", "edge_diffs", "root", "has_single_root", "has_multiple_roots",
  "is_internal", "num_children", "num_children_array", "num_samples", "num_tracked_samples", "nodes",
  "indexes_edge_insertion_order", "indexes_edge_removal_order", "simplify",
  -- counts and genome length
  "num_nodes", "num_edges", "num_mutations", "num_trees", "num_individuals", "sequence_length",
  -- node times and sample flags
  "nodes_time", "nodes_flags", "samples", "node", "time",
  -- mutation placement
  "mutations", "mutations_node", "mutations_site", "sites_position",
  -- individual membership (only behind `individuals_unphased`, see below)
  "individuals", "nodes_individual", "individual.id", "individual.nodes"]

/-- What must never be read on the dating path. -/
def forbidden : List String := [
  "derived_state", "ancestral_state", "metadata", "metadata_schema", "metadata_bytes", "population",
  "populations", "nodes_population", "provenances", "migrations", "alleles", "genotypes", "variants",
  "haplotypes", "tables", "dump_tables", "sites", "site", "mutations_derived_state", "sites_ancestral_state",
  "mutations_metadata", "nodes_metadata", "sites_metadata", "mutations_time", "mutations_parent", "time_units",
  "reference_sequence", "individuals_nodes", "individuals_location", "individuals_parents", "individuals_flags",
  "individuals_metadata", "location", "parents", "<dynamic>"]

/-- **Every tskit attribute read on the dating path is an allowed one** (re-proved on every run
against the regenerated read-set; a new read of e.g. `derived_state`, `metadata`, `population`,
`ts.tables` makes it fail). -/
theorem readSet_allowed : ∀ a ∈ Gen.ReadSet.readSet, a ∈ allowedReads := by decide

/-- None of the forbidden accessors occurs (a corollary of `readSet_allowed`, spelled out). -/
theorem forbidden_not_read : ∀ a ∈ forbidden, a ∉ Gen.ReadSet.readSet := by decide

/-- the two lists are disjoint, so the whitelist itself admits nothing forbidden -/
theorem allowed_forbidden_disjoint : ∀ a ∈ forbidden, a ∉ allowedReads := by decide

/-- **Site positions are read only for sites that carry a mutation**: every read of the per-site column
`sites_position` on the dating path is indexed by `ts.mutations_site` (this is what makes
`DatingInput.mutations` = (position of the mutation's site, node) the right projection, and
mutation-free sites invisible). A read of the whole column, or one indexed by anything else (a "one
mutation per site" shortcut, say), makes this fail. -/
theorem sites_position_only_at_mutations :
    Gen.ReadSet.sitesPositionIndex ≠ [] ∧
    ∀ e ∈ Gen.ReadSet.sitesPositionIndex, e.2 = "ts.mutations_site" := by decide

/-- **With phased singletons individual information cannot influence anything**: it is read in two
functions only; in `_block_singletons` and in its wrapper every use of a value derived from
`nodes_individual` / `ts.individuals()` is guarded by `individuals_unphased[…]`; and the array passed
as `individuals_unphased` is the negation of `np.full(ts.num_individuals, singletons_phased)`. -/
theorem readSet_phased_no_individuals :
    (∀ r ∈ Gen.ReadSet.individualReads,
      r.1 = "phasing.block_singletons" ∨
      (r.1 = "variational.ExpectationPropagation.__init__" ∧ r.2 = "num_individuals")) ∧
    (∀ u ∈ Gen.ReadSet.blockSingletonsUses, u.2.2 = true) ∧
    (∀ u ∈ Gen.ReadSet.blockSingletonsWrapperUses, u.2.2 = true) ∧
    Gen.ReadSet.blockSingletonsUses ≠ [] ∧
    Gen.ReadSet.unphasedArgument = "~individual_phased" ∧
    Gen.ReadSet.phasedDefinition = "np.full(ts.num_individuals, singletons_phased)" := by
  decide

/-- One guarded step does nothing when no individual is unphased. -/
theorem guarded_phased {σ : Type} (ind : Int) (body : σ → σ) (s : σ) :
    guarded (fun _ => false) ind body s = s := by
  simp [guarded]

/-- A whole run of guarded steps does nothing when no individual is unphased — for every
assignment of nodes to individuals and every body. -/
theorem guardedRun_phased {σ : Type} (steps : List (Int × (σ → σ))) (s : σ) :
    guardedRun (fun _ => false) steps s = s := by
  induction steps generalizing s with
  | nil => rfl
  | cons st rest ih =>
    simp only [guardedRun, List.foldl_cons] at ih ⊢
    rw [guarded_phased]
    exact ih s

/-- …while with an unphased individual the same run may well change the state (the guard is the
only thing standing between individual data and the result). -/
example : guardedRun (fun _ => true) [((0 : Int), fun (n : Nat) => n + 1)] 0 = 1 := by decide

section Projection
variable {α : Type}

/-- **Dating is a function of the projection**: equal projections, equal results — for any `f`. -/
theorem dating_congr {β : Type} (f : DatingInput α → β) (phased : Bool) (a b : TableCollection α)
    (h : project phased a = project phased b) : datingOf f phased a = datingOf f phased b := by
  unfold datingOf; rw [h]

/-- **Two inputs that agree on sequence length, node times, sample flags, edges, site positions and
each mutation's (site, node) have the same projection** — whatever their metadata, schemas, allele
states, populations, migrations, provenance, time units, mutation times/parents, reference sequence
are; individuals matter only when singletons are unphased. -/
theorem project_eq_of (phased : Bool) (a b : TableCollection α)
    (hseq : b.sequenceLength = a.sequenceLength)
    (hnodes : b.nodes.map (fun n => (n.time, isSample n.flags)) = a.nodes.map (fun n => (n.time, isSample n.flags)))
    (hedges : b.edges.map (fun e => (e.left, e.right, e.parent, e.child)) =
      a.edges.map (fun e => (e.left, e.right, e.parent, e.child)))
    (hpos : b.sites.map (·.position) = a.sites.map (·.position))
    (hmuts : b.mutations.map (fun m => (m.site, m.node)) = a.mutations.map (fun m => (m.site, m.node)))
    (hind : phased = false →
      b.nodes.map (·.individual) = a.nodes.map (·.individual) ∧ b.individuals.length = a.individuals.length) :
    project phased b = project phased a := by
  have hsplit : ∀ t : TableCollection α,
      t.mutations.map (fun m => ((t.sites[m.site]?).map (·.position), m.node)) =
        (t.mutations.map (fun m => (m.site, m.node))).map
          (fun sn => ((t.sites.map (·.position))[sn.1]?, sn.2)) := by
    intro t
    simp [List.map_map, Function.comp_def, List.getElem?_map]
  have ht : b.nodes.map (·.time) = a.nodes.map (·.time) := by
    have := congrArg (List.map Prod.fst) hnodes
    simpa [List.map_map, Function.comp_def] using this
  have hs : b.nodes.map (fun n => isSample n.flags) = a.nodes.map (fun n => isSample n.flags) := by
    have := congrArg (List.map Prod.snd) hnodes
    simpa [List.map_map, Function.comp_def] using this
  unfold project
  rw [hseq, ht, hs, hedges, hsplit b, hsplit a, hpos, hmuts]
  cases phased with
  | true => rfl
  | false =>
    obtain ⟨h1, h2⟩ := hind rfl
    simp [h1, h2]

theorem getElem?_insert (l : List α) (x : α) : ∀ (k i : Nat), k ≤ l.length →
    (l.take k ++ x :: l.drop k)[if k ≤ i then i + 1 else i]? = l[i]? := by
  induction l with
  | nil =>
    intro k i hk
    have : k = 0 := by simpa using hk
    subst this
    simp
  | cons y ys ih =>
    intro k i hk
    cases k with
    | zero => simp
    | succ k =>
      cases i with
      | zero => simp
      | succ i =>
        have := ih k i (by simpa using hk)
        by_cases h : k ≤ i
        · simp only [h, if_true] at this
          simp [h, this]
        · simp only [h, if_false] at this
          simp [h, this]

/-- **Sites without mutations are irrelevant**: inserting a site at any position `k` of the site
table (mutation site ids are renumbered as tskit does) leaves the projection unchanged. -/
theorem insertSite_project (phased : Bool) (t : TableCollection α) (k : Nat) (hk : k ≤ t.sites.length)
    (s : SiteRow α) : project phased (insertSite t k s) = project phased t := by
  unfold project insertSite
  simp only [List.map_map]
  congr 1
  apply List.map_congr_left
  intro m _
  simp only [Function.comp]
  have := getElem?_insert t.sites s k m.site hk
  by_cases h : k ≤ m.site
  · simp only [h, if_true] at this ⊢
    rw [this]
  · simp only [h, if_false] at this ⊢
    rw [this]

end Projection

/-! ### Non-vacuity: two different table collections with the same projection, and one that differs -/

namespace Example

def t1 : TableCollection Nat where
  sequenceLength := 10
  timeUnits := "generations"
  metadata := ""
  metadataSchema := ""
  refseq := ""
  nodes := [⟨1, 0, 0, 0, ""⟩, ⟨1, 0, 0, 0, ""⟩, ⟨0, 5, 0, -1, ""⟩]
  nodesSchema := ""
  edges := [⟨0, 10, 2, 0, ""⟩, ⟨0, 10, 2, 1, ""⟩]
  edgesSchema := ""
  sites := [⟨3, "A", ""⟩]
  sitesSchema := ""
  mutations := [⟨0, 1, 0, "T", -1, ""⟩]
  mutationsSchema := ""
  individuals := [⟨0, [], [], ""⟩]
  individualsSchema := ""
  populations := [⟨""⟩]
  populationsSchema := ""
  migrations := []
  migrationsSchema := ""
  provenances := []

/-- other states, metadata, population, an extra monomorphic site in front, other individuals -/
def t2 : TableCollection Nat :=
  { t1 with
    nodes := [⟨1, 0, 1, -1, "x"⟩, ⟨1, 0, 1, -1, "y"⟩, ⟨0, 5, -1, -1, "z"⟩]
    sites := [⟨1, "G", "mono"⟩, ⟨3, "C", "m"⟩]
    mutations := [⟨1, 1, 9, "GG", -1, "md"⟩]
    populations := [⟨"a"⟩, ⟨"b"⟩]
    individuals := []
    provenances := [⟨"t", "r"⟩]
    timeUnits := "years" }

example : t1 ≠ t2 ∧ project true t1 = project true t2 := by decide
/-- …but not when singletons are unphased (individuals differ) -/
example : project false t1 ≠ project false t2 := by decide
/-- and moving the mutation to the other sample does change the projection -/
example : project true { t1 with mutations := [⟨0, 0, 0, "T", -1, ""⟩] } ≠ project true t1 := by decide

end Example

end Tsdate.C08
