/-
C04 — reported posteriors in metadata equal the fit object's posteriors
(models: `set_time_metadata` / `get_modified_ts` (tsdate/core.py), `DiscreteTimeMethod.mean_var`,
`NodeTimeValues.to_probabilities`; wiring regenerated from the source by translate/results.py).

The chain, link by link:

  fit object's moments  ──run──▶  Results(...)  ──get_modified_ts──▶  set_time_metadata  ──▶  rows

* `wiring_*` (by `decide` on the regenerated `Gen/Results.lean`): for variational_gamma the arrays
  in `Results` are `fit.node_moments()` / `fit.mutation_moments()`, the very calls from which
  `node_posteriors()` / `mutation_posteriors()` fill their `mean` / `variance` fields; for
  inside_outside they are `mean_var(ts, fit.posterior_grid)` evaluated after
  `posterior_grid.to_probabilities()`; maximization passes no variance; `get_modified_ts` hands
  `result.posterior_mean/var` to the node table and `result.mutation_mean/var` to the mutation table
  and `_time_md_array` stores them under `mn` / `vr`.
* `metadata_rows_eq`, `node_metadata_eq`, `mutation_metadata_eq`, `mutation_metadata_eq_any_phase`: in the executable model, whenever
  metadata is written, decoding row i gives exactly `(mean[i], var[i])` — for mutations matched by
  the mutation's identity (site, node, derived state), because `sort` may permute rows in a site.
* `maximization_writes_none`: no variance ⇒ nothing written, node rows and schema untouched.
* `toProb_sum_one`, `toProb_nonneg`, `meanVar_eq_moments`, `meanVar_fixed`: the inside_outside
  summaries over any ordered field.
-/
import TsdateVerif.Proofs.Pipeline
import TsdateVerif.Proofs.Posterior
import TsdateVerif.Gen.Results

namespace Tsdate.C04
open Tsdate.Tables Tsdate.Pipeline

/-! ### the wiring, re-proved against the regenerated `Gen/Results.lean` on every run -/

/-- variational_gamma: `Results` carries `fit.node_moments()` and `fit.mutation_moments()`, and
`node_posteriors()` / `mutation_posteriors()` are filled from the same two calls. -/
theorem wiring_variational :
    Gen.Results.variationalGamma.posteriorMean = .call "fit_obj.node_moments" 0 [] ∧
    Gen.Results.variationalGamma.posteriorVar = .call "fit_obj.node_moments" 1 [] ∧
    Gen.Results.variationalGamma.mutationMean = .call "fit_obj.mutation_moments" 0 [] ∧
    Gen.Results.variationalGamma.mutationVar = .call "fit_obj.mutation_moments" 1 [] ∧
    Gen.Results.vgNodePosteriors =
      [("mean", .call "self.node_moments" 0 []), ("variance", .call "self.node_moments" 1 [])] ∧
    Gen.Results.vgMutationPosteriors =
      [("mean", .call "self.mutation_moments" 0 []), ("variance", .call "self.mutation_moments" 1 [])] := by
  decide

/-- inside_outside: `Results` carries `mean_var(ts, fit.posterior_grid)`, evaluated after the grid
has been turned into probabilities (`to_probabilities()` is the last thing done to it); there are
no mutation posteriors. -/
theorem wiring_inside_outside :
    Gen.Results.insideOutside.posteriorMean = .call "self.mean_var" 0 ["self.ts", "fit_obj.posterior_grid"] ∧
    Gen.Results.insideOutside.posteriorVar = .call "self.mean_var" 1 ["self.ts", "fit_obj.posterior_grid"] ∧
    Gen.Results.insideOutside.prep.getLast? = some "to_probabilities" ∧
    Gen.Results.insideOutside.mutationMean = .none ∧ Gen.Results.insideOutside.mutationVar = .none := by
  decide

/-- maximization hands over no variance at all (neither for nodes nor for mutations). -/
theorem wiring_maximization :
    Gen.Results.maximization.posteriorVar = .none ∧ Gen.Results.maximization.mutationVar = .none := by
  decide

/-- `get_modified_ts` / `_time_md_array` in the source are wired as in the model: node table ←
`posterior_mean/var`, mutation table ← `mutation_mean/var`, keys `mn` ← mean and `vr` ← var,
`nodes.time` ← `constrain_ages(ts, posterior_mean, …)`, `mutations.node` ← `mutation_node`. -/
theorem wiring_get_modified_ts :
    Gen.Results.mdCalls = modelMdCalls ∧ Gen.Results.mdKeys = modelMdKeys ∧
    Gen.Results.timeSource = modelTimeSource ∧ Gen.Results.mutNodeSource = modelMutNodeSource := by
  decide

/-! ### metadata rows = the moment arrays -/

section Md
variable {α : Type}

/-- A codec whose `validate_and_encode_row` round-trips the two fields (true of tskit's JSON codec:
Python's float repr round-trips; checked bitwise by the harness on every run). -/
def CodecRoundTrips (C : Codec α) : Prop :=
  ∀ schema old mn vr b, C.encodeRow schema old mn vr = some b → C.readMnVr schema b = some (mn, vr)

/-- **`set_time_metadata` writes exactly the arrays it is given**: whenever it writes (first attempt
or after replacing the schema), decoding row `i` of the table gives `(mean[i], var[i])`, for every
`i`, every table, every policy. -/
theorem metadata_rows_eq (C : Codec α) (hC : CodecRoundTrips C) (policy : Option Bool) (dflt : Bytes)
    (t : MdTable) (mean var : List α)
    (hw : (setTimeMetadata C policy dflt t mean (some var)).1 = .written ∨
          (setTimeMetadata C policy dflt t mean (some var)).1 = .replaced) :
    let res := (setTimeMetadata C policy dflt t mean (some var)).2
    res.mds.map (C.readMnVr res.schema) = (mean.zip var).map some := by
  intro res
  rcases setTimeMetadata_cases C policy dflt t mean (some var) with ⟨h, _⟩ | ⟨h, _⟩ |
    ⟨v, md, hv, _, hl1, hl2, ⟨hm, h⟩ | ⟨_, h, _⟩ | ⟨_, hm, h⟩ | ⟨_, _, h⟩⟩
  · rw [h] at hw; simp at hw
  · rw [h] at hw; simp at hw
  · cases hv
    have : res = { t with mds := md } := by simp only [res, h]
    rw [this]
    unfold timeMdArray at hm
    split at hm
    · exact encodeAll_read C _ _ (fun o mn vr b => hC _ o mn vr b) _ _ _ _ hm hl1 hl2
    · simp at hm
  · rw [h] at hw; simp at hw
  · cases hv
    have : res = { retryTable C dflt t with mds := md } := by simp only [res, h]
    rw [this]
    unfold timeMdArray at hm
    split at hm
    · exact encodeAll_read C _ _ (fun o mn vr b => hC _ o mn vr b) _ _ _ _ hm hl1
        (by rw [retryTable_length]; exact hl2)
    · simp at hm
  · rw [h] at hw; simp at hw

/-- **Node metadata of the dated tables = the result's posterior mean/variance, node by node.** -/
theorem node_metadata_eq (E : Env α) (hC : CodecRoundTrips E.codec) (hsort : ∀ t, SortRel t (E.sort t))
    (htimes : ∀ t, TimesRel t (E.computeTimes t)) (o : Options) (t0 : TableCollection α) (r : Results α) (var : List α) (hvar : r.posteriorVar = some var)
    (out : TableCollection α) (tr : Trace) (h : getModifiedTs E o t0 r = some (out, tr))
    (hw : tr.nodeMd = .written ∨ tr.nodeMd = .replaced) :
    out.nodes.map (fun n => E.codec.readMnVr out.nodesSchema n.metadata) =
      (r.posteriorMean.zip var).map some := by
  obtain ⟨t3, t5, t8, h3, h5, h8, rfl⟩ := getModifiedTs_some h
  rw [(stageProv_fields E o t8).2.1, (stageProv_fields E o t8).2.2, (stageTskit_fields hsort htimes h8).2.1,
    (stageTskit_fields hsort htimes h8).2.2.1, (stageCols_fields h5).2.1]
  have hmd5 : t5.nodes.map (·.metadata) = t3.nodes.map (·.metadata) := by
    have := congrArg (List.map Prod.snd) (stageCols_fields h5).2.2
    simpa [List.map_map, Function.comp_def] using this
  have hsplit : ∀ (l : List (NodeRow α)) (s : Bytes),
      l.map (fun n => E.codec.readMnVr s n.metadata) = (l.map (·.metadata)).map (E.codec.readMnVr s) := by
    intro l s; simp [List.map_map, Function.comp_def]
  rw [hsplit, hmd5]
  -- unfold the metadata stage
  unfold stageMd at h3
  simp only at h3
  split_ifs at h3 with h1 h2
  simp only [Option.some.injEq, Prod.mk.injEq] at h3
  obtain ⟨rfl, rfl⟩ := h3
  simp only at hw
  rw [hvar] at hw ⊢
  have key := metadata_rows_eq E.codec hC o.setMetadata E.nodeDefaultSchema
    (nodeMd { t0 with timeUnits := o.timeUnits }) r.posteriorMean var hw
  simp only at key
  have hl := setTimeMetadata_length E.codec o.setMetadata E.nodeDefaultSchema
    (nodeMd { t0 with timeUnits := o.timeUnits }) r.posteriorMean (some var)
  -- the node table after both metadata writes carries exactly these metadata strings
  show List.map (E.codec.readMnVr _) (List.map (·.metadata) (setCol NodeRow.setMetadata t0.nodes _)) = _
  have hcol : ∀ (rows : List (NodeRow α)) (vals : List Bytes), vals.length = rows.length →
      (setCol NodeRow.setMetadata rows vals).map (·.metadata) = vals := by
    intro rows vals hlen
    induction rows generalizing vals with
    | nil => cases vals <;> simp_all [setCol]
    | cons x xs ih =>
      cases vals with
      | nil => simp at hlen
      | cons v vs =>
        simp only [setCol, List.zipWith_cons_cons, List.map_cons, NodeRow.setMetadata]
        rw [show List.zipWith NodeRow.setMetadata xs vs = setCol NodeRow.setMetadata xs vs from rfl,
          ih vs (by simpa using hlen)]
  rw [hcol _ _ (by rw [hl]; simp [nodeMd])]
  exact key

/-- **Mutation metadata of the dated tables = the result's mutation mean/variance, matched by the
mutation's identity.** `sort` may permute the mutations of a site, so row `i` of the output need not
be input mutation `i`; what holds is that the multiset of ((site, node, derived state), (mn, vr))
pairs of the output is exactly the input's mutations paired, in input order, with the arrays
`mutation_posteriors()` is built from. (Stated for results whose `mutation_node` is the input column,
i.e. phased singletons.) -/
theorem mutation_metadata_eq (E : Env α) (hC : CodecRoundTrips E.codec)
    (hsort : ∀ t, SortRel t (E.sort t)) (htimes : ∀ t, TimesRel t (E.computeTimes t)) (o : Options)
    (t0 : TableCollection α) (r : Results α) (mean var : List α) (hmean : r.mutationMean = some mean) (hvar : r.mutationVar = some var)
    (out : TableCollection α) (tr : Trace) (h : getModifiedTs E o t0 r = some (out, tr))
    (hnode : r.mutationNode = t0.mutations.map (·.node))
    (hw : tr.mutMd = .written ∨ tr.mutMd = .replaced) :
    (out.mutations.map (fun m => (m.key1, E.codec.readMnVr out.mutationsSchema m.metadata))).Perm
      (List.zipWith (fun m mv => (m.key1, some mv)) t0.mutations (mean.zip var)) := by
  obtain ⟨t3, t5, t8, h3, h5, h8, rfl⟩ := getModifiedTs_some h
  have s3 := stageMd_spec h3
  have hsch : (stageProv E o t8).mutationsSchema = t3.mutationsSchema := by
    rw [(stageProv_fields E o t8).1, (stageTskit_fields hsort htimes h8).1, (stageCols_fields h5).1]
  rw [hsch, (stageProv_frame E o t8).2]
  have hk : KeyOK (fun m : MutRow α => (m.key1, E.codec.readMnVr t3.mutationsSchema m.metadata)) :=
    ⟨fun x => ((x.1, x.2.1, x.2.2.1), E.codec.readMnVr t3.mutationsSchema x.2.2.2), fun _ => rfl⟩
  refine (stageTskit_key _ hk hsort htimes h8).trans ?_
  rw [stageCols_key _ hk h5 (by rw [hnode, s3.2.2.1])]
  -- unfold the metadata stage
  unfold stageMd at h3
  simp only at h3
  split_ifs at h3 with h1 h2
  simp only [Option.some.injEq, Prod.mk.injEq] at h3
  obtain ⟨rfl, rfl⟩ := h3
  simp only at hw
  rw [hvar, hmean] at hw
  simp only [Option.getD_some] at hw
  have key := metadata_rows_eq E.codec hC o.setMetadata E.mutDefaultSchema _ mean var hw
  simp only at key
  have hl := setTimeMetadata_length E.codec o.setMetadata E.mutDefaultSchema
    (mutMd (putNodeMd { t0 with timeUnits := o.timeUnits }
      (setTimeMetadata E.codec o.setMetadata E.nodeDefaultSchema (nodeMd { t0 with timeUnits := o.timeUnits })
        r.posteriorMean r.posteriorVar).2)) mean (some var)
  rw [hvar, hmean]
  simp only [Option.getD_some]
  have hcol : ∀ (f : Bytes → Option (α × α)) (rows : List (MutRow α)) (vals : List Bytes),
      (setCol MutRow.setMetadata rows vals).map (fun m => (m.key1, f m.metadata)) =
        List.zipWith (fun m x => (m.key1, x)) rows (vals.map f) := by
    intro f rows vals
    induction rows generalizing vals with
    | nil => simp [setCol]
    | cons x xs ih =>
      cases vals with
      | nil => simp [setCol]
      | cons v vs =>
        simp only [setCol, List.zipWith_cons_cons, List.map_cons]
        rw [show List.zipWith MutRow.setMetadata xs vs = setCol MutRow.setMetadata xs vs from rfl, ih vs]
        rfl
  have hsome : ∀ (rows : List (MutRow α)) (l : List (α × α)),
      List.zipWith (fun m x => (m.key1, x)) rows (l.map some) =
        List.zipWith (fun m mv => (m.key1, some mv)) rows l := by
    intro rows l
    induction rows generalizing l with
    | nil => simp
    | cons x xs ih => cases l <;> simp [ih]
  show (List.map _ (setCol MutRow.setMetadata t0.mutations _)).Perm _
  rw [hcol]
  simp only [putMutMd]
  rw [key, hsome]

/-- **The same without any assumption on `mutation_node`** (so also for unphased singletons, whose
node is switched): the multiset of ((site, node, derived state), (mn, vr)) of the output is the input's
mutations, each carrying the node `result.mutation_node[i]` assigns to it and the pair
`(mutation_mean[i], mutation_var[i])` — the three arrays `mutation_mapping()` / `mutation_posteriors()`
expose, zipped in input order. -/
theorem mutation_metadata_eq_any_phase (E : Env α) (hC : CodecRoundTrips E.codec)
    (hsort : ∀ t, SortRel t (E.sort t)) (htimes : ∀ t, TimesRel t (E.computeTimes t)) (o : Options)
    (t0 : TableCollection α) (r : Results α) (mean var : List α) (hmean : r.mutationMean = some mean)
    (hvar : r.mutationVar = some var)
    (out : TableCollection α) (tr : Trace) (h : getModifiedTs E o t0 r = some (out, tr))
    (hw : tr.mutMd = .written ∨ tr.mutMd = .replaced) :
    (out.mutations.map (fun m => (m.key1, E.codec.readMnVr out.mutationsSchema m.metadata))).Perm
      (List.zipWith (fun (mn : MutRow α × Nat) v => ((mn.1.site, mn.2, mn.1.derivedState), some v))
        (t0.mutations.zip r.mutationNode) (mean.zip var)) := by
  obtain ⟨t3, t5, t8, h3, h5, h8, rfl⟩ := getModifiedTs_some h
  have hsch : (stageProv E o t8).mutationsSchema = t3.mutationsSchema := by
    rw [(stageProv_fields E o t8).1, (stageTskit_fields hsort htimes h8).1, (stageCols_fields h5).1]
  rw [hsch, (stageProv_frame E o t8).2]
  have hk : KeyOK (fun m : MutRow α => (m.key1, E.codec.readMnVr t3.mutationsSchema m.metadata)) :=
    ⟨fun x => ((x.1, x.2.1, x.2.2.1), E.codec.readMnVr t3.mutationsSchema x.2.2.2), fun _ => rfl⟩
  refine (stageTskit_key _ hk hsort htimes h8).trans ?_
  -- the column stage
  unfold stageCols at h5
  simp only [Option.bind_eq_some_iff] at h5
  obtain ⟨ns, hns, ms, hms, h5⟩ := h5
  obtain ⟨lm, rfl⟩ := setCol?_some _ _ _ _ hms
  simp only [Option.some.injEq] at h5
  subst h5
  show (List.map _ (List.map _ (setCol MutRow.setNode t3.mutations r.mutationNode))).Perm _
  rw [List.map_map]
  have hz : ∀ (rows : List (MutRow α)) (vals : List Nat),
      List.map ((fun m : MutRow α => (m.key1, E.codec.readMnVr t3.mutationsSchema m.metadata)) ∘
        fun row => (row.setTime E.unknownTime).setParent (-1)) (setCol MutRow.setNode rows vals) =
      List.zipWith (fun (m' : MutRow α) n => ((m'.site, n, m'.derivedState),
        E.codec.readMnVr t3.mutationsSchema m'.metadata)) rows vals := by
    intro rows vals
    induction rows generalizing vals with
    | nil => simp [setCol]
    | cons x xs ih =>
      cases vals with
      | nil => simp [setCol]
      | cons v vs =>
        simp only [setCol, List.zipWith_cons_cons, List.map_cons]
        rw [show List.zipWith MutRow.setNode xs vs = setCol MutRow.setNode xs vs from rfl, ih vs]
        rfl
  rw [hz]
  -- the metadata stage
  unfold stageMd at h3
  simp only at h3
  split_ifs at h3 with h1 h2
  simp only [Option.some.injEq, Prod.mk.injEq] at h3
  obtain ⟨rfl, rfl⟩ := h3
  simp only at hw
  rw [hvar, hmean] at hw
  simp only [Option.getD_some] at hw
  have key := metadata_rows_eq E.codec hC o.setMetadata E.mutDefaultSchema _ mean var hw
  simp only at key
  rw [hvar, hmean]
  simp only [Option.getD_some, putMutMd]
  rw [zip3_lemma _ _ _ _ _ key]
  exact List.Perm.refl _

end Md

/-- **maximization writes no time metadata**: without a variance array `set_time_metadata` returns
at once, so node flags/population/individual/metadata and the schema come out as they went in. -/
theorem maximization_writes_none {α : Type} (E : Env α) (hsort : ∀ t, SortRel t (E.sort t))
    (htimes : ∀ t, TimesRel t (E.computeTimes t)) (o : Options) (t0 : TableCollection α) (r : Results α) (hn : r.posteriorVar = none)
    (hm : r.mutationVar = none) (out : TableCollection α) (tr : Trace)
    (h : getModifiedTs E o t0 r = some (out, tr)) :
    tr = ⟨.skipped, .skipped⟩ ∧
    out.nodes.map (fun n => (n.frame, n.metadata)) = t0.nodes.map (fun n => (n.frame, n.metadata)) ∧
    out.nodesSchema = t0.nodesSchema := by
  obtain ⟨t3, t5, t8, h3, h5, h8, hout⟩ := getModifiedTs_some h
  have htr : tr = ⟨.skipped, .skipped⟩ := by
    simp [stageMd, hn, hm, setTimeMetadata] at h3
    exact h3.2.symm
  refine ⟨htr, ?_⟩
  have := Tsdate.Pipeline.stageMd_spec h3
  have hk : tr.nodeMd = .skipped ∨ tr.nodeMd = .warned := by rw [htr]; exact Or.inl rfl
  obtain ⟨hnodes, hsch⟩ := this.2.2.2.2 hk
  subst hout
  constructor
  · rw [(stageProv_fields E o t8).2.2, (stageTskit_fields hsort htimes h8).2.2.1, (stageCols_fields h5).2.2, hnodes]
  · rw [(stageProv_fields E o t8).2.1, (stageTskit_fields hsort htimes h8).2.1, (stageCols_fields h5).2.1, hsch]

/-! ### inside_outside: probabilities and their mean / variance -/

section Grid
set_option linter.unusedSectionVars false
variable {α : Type} [Field α] [LinearOrder α] [IsStrictOrderedRing α]

/-- `to_probabilities`: a row whose sum is not zero is normalised to sum one. -/
theorem toProb_sum_one (row : List α) (h : sum row ≠ 0) : sum (toProb row) = 1 := by
  unfold toProb
  rw [sum_map_div, div_self h]

/-- `to_probabilities` keeps rows non-negative (the code asserts the input has no negative entry;
a positive sum is "not all zero"). -/
theorem toProb_nonneg (row : List α) (h0 : ∀ x ∈ row, 0 ≤ x) (hs : 0 < sum row) :
    ∀ y ∈ toProb row, 0 ≤ y := by
  intro y hy
  unfold toProb at hy
  obtain ⟨x, hx, rfl⟩ := List.mem_map.mp hy
  exact div_nonneg (h0 x hx) hs.le

/-- **`mean_var` reports the mean and the variance of the normalised row**: with `q = row / Σrow`,
`mn = Σ qᵢ·tᵢ` and `vr = Σ qᵢ·(mn − tᵢ)²`; and `vr` is the familiar `Σ qᵢ·tᵢ² − mn²`. Holds for every
row with non-zero sum (normalised or not) and every grid of the same length. -/
theorem meanVar_eq_moments (times probs : List α) (hS : sum probs ≠ 0)
    (hlen : times.length = probs.length) :
    let q := toProb probs
    let mv := meanVarNode times (0 : α) (some probs)
    mv.1 = sum (List.zipWith (· * ·) q times) ∧
    mv.2 = sum (List.zipWith (fun qi t => qi * ((mv.1 - t) * (mv.1 - t))) q times) ∧
    mv.2 = sum (List.zipWith (fun qi t => qi * (t * t)) q times) - mv.1 * mv.1 := by
  intro q mv
  have hmv1 : mv.1 = gridMean probs times := rfl
  have hmean : mv.1 = sum (List.zipWith (· * ·) q times) := by
    rw [hmv1]
    unfold gridMean
    rw [show q = probs.map (· / sum probs) from rfl, zipWith_map_left]
    have e1 : sum (List.zipWith (fun p t => p / sum probs * t) probs times) =
        sum (List.zipWith (fun p t => (fun x y => x * y) p t / sum probs) probs times) :=
      sum_zipWith_congr _ _ (fun p t => by ring) _ _
    rw [e1, sum_zipWith_div]
  have hvar : mv.2 = sum (List.zipWith (fun qi t => qi * ((mv.1 - t) * (mv.1 - t))) q times) := by
    show gridVar (gridMean probs times) probs times = _
    rw [hmv1]
    unfold gridVar
    rw [show q = probs.map (· / sum probs) from rfl, zipWith_map_left]
    exact sum_zipWith_congr _ _ (fun p t => by ring) _ _
  refine ⟨hmean, hvar, ?_⟩
  -- Σ q (m - t)² = Σ q t² - 2 m Σ q t + m² Σ q = Σ q t² - m²   (Σ q = 1, Σ q t = m)
  have hq1 : sum (List.zipWith (fun qi _ => qi) q times) = 1 := by
    rw [sum_zipWith_left q times (by simp [q, toProb, hlen])]
    exact toProb_sum_one probs hS
  rw [hvar]
  have expand : ∀ qi t : α, qi * ((mv.1 - t) * (mv.1 - t)) =
      qi * (t * t) + ((-2 * mv.1) * (qi * t) + (mv.1 * mv.1) * qi) := by intro qi t; ring
  rw [sum_zipWith_congr _ _ expand, sum_zipWith_add, sum_zipWith_add,
    sum_zipWith_smul (-2 * mv.1) (fun qi t => qi * t), sum_zipWith_smul (mv.1 * mv.1) (fun qi _ => qi),
    hq1, ← hmean]
  ring

/-- The variance `mean_var` reports is never negative when the row is. -/
theorem meanVar_var_nonneg (times probs : List α) (h0 : ∀ x ∈ probs, 0 ≤ x) (hs : 0 < sum probs) :
    0 ≤ (meanVarNode times (0 : α) (some probs)).2 := by
  show 0 ≤ gridVar (gridMean probs times) probs times
  unfold gridVar
  apply sum_zipWith_nonneg
  intro p hp t
  exact mul_nonneg (mul_self_nonneg _) (div_nonneg (h0 p hp) hs.le)

/-- **Fixed (sample) nodes report their exact time and zero variance**, whatever the grid holds. -/
theorem meanVar_fixed (times : List α) (t : α) : meanVarNode times t none = (t, 0) := rfl

/-- …and this is what the node's entry in the output of `mean_var` is: entry `i` depends only on
node `i`'s own time and row. -/
theorem meanVar_entry (times nodesTime : List α) (rows : List (Option (List α))) (i : Nat)
    (hi : i < nodesTime.length) (hr : i < rows.length) :
    (meanVar times nodesTime rows)[i]? = some (meanVarNode times nodesTime[i] rows[i]) := by
  unfold meanVar
  simp [hi, hr]

end Grid

/-! ### Non-vacuity -/

/-- a row that is not normalised, on a three-point grid: mean 5/4, variance 11/16 -/
example : meanVarNode [0, 1, 2] (0 : Rat) (some [1, 1, 2]) = (5 / 4, 11 / 16) := by
  norm_num [meanVarNode, gridMean, gridVar, sum]

example : sum ([1, 1, 2] : List Rat) ≠ 0 ∧ ([0, 1, 2] : List Rat).length = [1, 1, 2].length := by
  norm_num [sum]

/-- a codec that round-trips exists, and `set_time_metadata` really writes under it -/
def exCodec : Codec Nat where
  hasSchema s := s ≠ ""
  encodeRow _ _ mn vr := some (s!"{mn},{vr}")
  readMnVr _ b := match b.splitOn "," with
    | [a, c] => (a.toNat?).bind fun x => (c.toNat?).map fun y => (x, y)
    | _ => none

example : (setTimeMetadata exCodec (some true) "D" ⟨["x", "y"], ""⟩ [3, 4] (some [1, 2])) =
    (.replaced, ⟨["3,1", "4,2"], "D"⟩) := by decide +kernel

end Tsdate.C04
