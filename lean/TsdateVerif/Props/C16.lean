/-
C16 — discretised prior grids hold the right probability masses.

Model: `Model/PriorGrid.lean` (`create_timepoints`, one row of `fill_priors` + `standardize`,
`nonfixed_nodes`, explicit timepoints for a constant population size).  The lognormal / gamma `cdf` and
`ppf` are uninterpreted parameters; the theorems use only what is stated as a hypothesis (monotone
cdf values along the grid, positive quantiles).  Everything is over an arbitrary ordered field.
-/
import TsdateVerif.Proofs.PriorGrid

namespace Tsdate.C16
open Tsdate Tsdate.PriorGrid
set_option linter.unusedSectionVars false

section Rows
variable {α : Type} [Field α] [LinearOrder α] [IsStrictOrderedRing α]

/-- The largest raw mass `max_i (F_i − F_{i−1}) / max F`, the divisor used by `standardize`. -/
def rowMax (F : List α) : α := maxOf ((diffs F).map (fun d => d / maxOf F))

/-- **Zero at time 0**: the first entry of every stored row is 0. -/
theorem row_zero_at_0 (F : List α) : (fillRow F).head? = some 0 := by
  rw [fillRow_eq]; rfl

/-- **Row masses**: the stored row is `0` followed by the increments of the cdf along the grid, all
multiplied by one positive constant `c = 1 / (max F · rowMax F)`: entry `i` is
`c · (F(tᵢ) − F(tᵢ₋₁))`, the prior mass of the `i`-th grid interval up to the row's scale. -/
theorem row_mass (F : List α) (hM : 0 < maxOf F) (hm : 0 < rowMax F) :
    ∃ c : α, 0 < c ∧ fillRow F = 0 :: (diffs F).map (fun d => c * d) ∧
      ∀ i, i + 1 < F.length → (fillRow F).getD (i + 1) 0 = c * (F.getD (i + 1) 0 - F.getD i 0) := by
  refine ⟨1 / (maxOf F * rowMax F), by positivity, ?_, ?_⟩
  · rw [fillRow_eq]
    congr 1
    apply List.map_congr_left
    intro d _
    unfold rowMax at hm ⊢
    field_simp
  · intro i hi
    rw [fillRow_eq, List.getD_cons_succ, List.getD_eq_getElem?_getD, List.getElem?_map]
    have hlen : i < (diffs F).length := by rw [diffs_length]; omega
    rw [List.getElem?_eq_getElem hlen]
    have := diffs_getD F i hi
    rw [List.getD_eq_getElem?_getD, List.getElem?_eq_getElem hlen] at this
    simp only [Option.map_some, Option.getD_some] at this ⊢
    rw [this]
    unfold rowMax at hm ⊢
    field_simp

/-- **Total mass**: the entries of a row add up to `c · (F(t_last) − F(t_0))` with the same constant
`c = 1 / (max F · rowMax F)` as in `row_mass` — the prior mass between the first and the last grid
point, nothing lost or counted twice. -/
theorem row_total_mass (a : α) (F : List α) (hM : 0 < maxOf (a :: F)) (hm : 0 < rowMax (a :: F)) :
    (fillRow (a :: F)).sum
      = 1 / (maxOf (a :: F) * rowMax (a :: F)) * ((a :: F).getLast (List.cons_ne_nil _ _) - a) := by
  have heq : fillRow (a :: F)
      = 0 :: (diffs (a :: F)).map (fun d => 1 / (maxOf (a :: F) * rowMax (a :: F)) * d) := by
    rw [fillRow_eq]
    congr 1
    apply List.map_congr_left
    intro d _
    unfold rowMax at hm ⊢
    field_simp
  rw [heq, List.sum_cons, zero_add, sum_map_mul_left', diffs_sum]

/-- **Non-negative**: if the cdf values are non-decreasing along the grid, every entry is ≥ 0. -/
theorem row_nonneg (F : List α) (hmono : F.Pairwise (· ≤ ·)) (hM : 0 < maxOf F) (hm : 0 < rowMax F) :
    ∀ x ∈ fillRow F, 0 ≤ x := by
  obtain ⟨c, hc, heq, _⟩ := row_mass F hM hm
  intro x hx
  rw [heq] at hx
  rcases List.mem_cons.mp hx with rfl | hx
  · exact le_rfl
  · obtain ⟨d, hd, rfl⟩ := List.mem_map.mp hx
    exact mul_nonneg hc.le (diffs_nonneg F hmono d hd)

/-- **Largest entry is 1** (over columns ≥ 1, and hence over the whole row since column 0 is 0):
after `standardize` the maximum of the row is exactly 1 and no entry exceeds 1. -/
theorem standardize_max_one (F : List α) (hm : 0 < rowMax F) :
    maxOf (fillRow F).tail = 1 ∧ (∀ x ∈ fillRow F, x ≤ 1) ∧ (1 : α) ∈ fillRow F := by
  have htail : (fillRow F).tail = ((diffs F).map (fun d => d / maxOf F)).map (fun x => x / rowMax F) := by
    rw [fillRow_eq]; simp [List.map_map, rowMax, Function.comp_def]
  have hmax : maxOf (fillRow F).tail = 1 := by
    rw [htail, maxOf_map_div _ hm]
    exact div_self (ne_of_gt hm)
  have hne : (fillRow F).tail ≠ [] := by
    intro h
    rw [h] at hmax
    simp [maxOf] at hmax
  refine ⟨hmax, ?_, ?_⟩
  · intro x hx
    rw [fillRow_eq] at hx
    rcases List.mem_cons.mp hx with rfl | hx
    · exact zero_le_one
    · have : x ∈ (fillRow F).tail := by rw [fillRow_eq]; exact hx
      rw [← hmax]
      exact maxOf_ge _ x this
  · have := maxOf_mem _ hne
    rw [hmax] at this
    exact List.mem_of_mem_tail this

/-- Why `standardize` must skip column 0 only if it is zero: it is, so the maximum over *all* columns
is also 1. -/
theorem row_max_all_columns (F : List α) (hm : 0 < rowMax F) :
    maxOf (fillRow F) = 1 := by
  obtain ⟨_, hle, hmem⟩ := standardize_max_one F hm
  have hne : fillRow F ≠ [] := by rw [fillRow_eq]; simp
  exact le_antisymm (hle _ (maxOf_mem _ hne)) (maxOf_ge _ 1 hmem)

end Rows

section Timepoints
variable {α : Type} [Field α] [LinearOrder α] [IsStrictOrderedRing α]

/-- The grid starts at 0. -/
theorem timepoints_head_zero (ppf cdf : Nat → α → α) (ps : List α) (sep : α) (maxTips : Nat) :
    (createTimepoints ppf cdf ps sep maxTips).head? = some 0 := rfl

/-- After the leading 0 the grid is exactly the chosen quantiles, rearranged. -/
theorem timepoints_perm (ppf cdf : Nat → α → α) (ps : List α) (sep : α) (maxTips : Nat) :
    (createTimepoints ppf cdf ps sep maxTips).tail.Perm (tpUnsorted ppf cdf ps sep maxTips) :=
  List.mergeSort_perm _ _

/-- **Sorted**: with non-negative quantiles the grid is non-decreasing. -/
theorem timepoints_sorted (ppf cdf : Nat → α → α) (ps : List α) (sep : α) (maxTips : Nat)
    (hpos : ∀ t ∈ tpUnsorted ppf cdf ps sep maxTips, 0 ≤ t) :
    (createTimepoints ppf cdf ps sep maxTips).Pairwise (· ≤ ·) := by
  unfold createTimepoints
  refine List.pairwise_cons.mpr ⟨?_, sorted_mergeSort_le _⟩
  intro t ht
  exact hpos t ((List.mergeSort_perm _ _).mem_iff.mp ht)

/-- **Strictly increasing from 0** exactly when the chosen quantiles are positive and pairwise
distinct (the thinning rule makes near-duplicates unlikely but does not exclude them; the harness
evaluates this hypothesis on every generated grid). -/
theorem timepoints_strict_iff (ppf cdf : Nat → α → α) (ps : List α) (sep : α) (maxTips : Nat) :
    (createTimepoints ppf cdf ps sep maxTips).Pairwise (· < ·) ↔
      (tpUnsorted ppf cdf ps sep maxTips).Nodup ∧ ∀ t ∈ tpUnsorted ppf cdf ps sep maxTips, 0 < t := by
  unfold createTimepoints
  have hperm := List.mergeSort_perm (tpUnsorted ppf cdf ps sep maxTips) (fun a b => decide (a ≤ b))
  rw [List.pairwise_cons]
  constructor
  · rintro ⟨h0, hs⟩
    refine ⟨hperm.nodup_iff.mp ?_, fun t ht => h0 t (hperm.mem_iff.mpr ht)⟩
    exact hs.imp (fun h => ne_of_lt h)
  · rintro ⟨hn, hp⟩
    refine ⟨fun t ht => hp t (hperm.mem_iff.mp ht), ?_⟩
    exact strict_of_sorted_nodup _ (sorted_mergeSort_le _) (hperm.nodup_iff.mpr hn)

/-- All `n_points − 1` quantiles of the `k = 2` row are always grid points; each later row only adds
quantiles of percentiles farther than `max_sep` from every existing point (`tpStep_mem`). -/
theorem timepoints_contains_base (ppf cdf : Nat → α → α) (ps : List α) (sep : α) (maxTips : Nat) :
    ∀ p ∈ ps, ppf 2 p ∈ createTimepoints ppf cdf ps sep maxTips := by
  intro p hp
  unfold createTimepoints
  refine List.mem_cons_of_mem _ ((List.mergeSort_perm _ _).mem_iff.mpr ?_)
  exact (foldl_tpStep_prefix ppf cdf ps sep _ _).subset (List.mem_map.mpr ⟨p, hp, rfl⟩)

theorem timepoints_step_rule (ppf cdf : Nat → α → α) (ps : List α) (sep : α) (tset : List α) (i : Nat)
    (t : α) : t ∈ tpStep ppf cdf ps sep tset i ↔
      t ∈ tset ∨ ∃ p ∈ ps, sep < minAbsDist p (tset.map (cdf i)) ∧ t = ppf i p :=
  tpStep_mem ppf cdf ps sep tset i t

/-- **Quantile coverage** ("no more than `max_sep` of a quantile apart"): if each row's `cdf` inverts
its `ppf` on the percentiles, then on the final grid every percentile of every row `3 ≤ i < max_tips`
is within `max_sep` (measured in that row's cdf) of some grid point. -/
theorem timepoints_coverage (ppf cdf : Nat → α → α) (ps : List α) (sep : α) (maxTips : Nat)
    (hsep : 0 ≤ sep) (hps : ps ≠ [])
    (hinv : ∀ i, 3 ≤ i → i < maxTips → ∀ p ∈ ps, cdf i (ppf i p) = p)
    (i : Nat) (hi3 : 3 ≤ i) (hi : i < maxTips) :
    ∀ p ∈ ps, minAbsDist p ((createTimepoints ppf cdf ps sep maxTips).map (cdf i)) ≤ sep := by
  intro p hp
  have hmem : i ∈ List.range' 3 (maxTips - 3) := by
    simp only [List.mem_range'_1]; omega
  have hne0 : ps.map (ppf 2) ≠ [] := by simpa using hps
  have hcov := foldl_tpStep_coverage ppf cdf ps sep hsep (List.range' 3 (maxTips - 3))
    (fun j hj => by
      have := List.mem_range'_1.mp hj
      exact hinv j (by omega) (by omega))
    (ps.map (ppf 2)) hne0 i hmem p hp
  have hne : (tpUnsorted ppf cdf ps sep maxTips).map (cdf i) ≠ [] := by
    intro h
    have h' : tpUnsorted ppf cdf ps sep maxTips = [] := by simpa using h
    have hpre := foldl_tpStep_prefix ppf cdf ps sep (List.range' 3 (maxTips - 3)) (ps.map (ppf 2))
    unfold tpUnsorted at h'
    rw [h'] at hpre
    exact hne0 (List.prefix_nil.mp hpre)
  refine le_trans (minAbsDist_mono p _ _ hne ?_) hcov
  intro x hx
  obtain ⟨t, ht, rfl⟩ := List.mem_map.mp hx
  refine List.mem_map.mpr ⟨t, ?_, rfl⟩
  unfold createTimepoints
  exact List.mem_cons_of_mem _ ((List.mergeSort_perm _ _).mem_iff.mpr ht)

end Timepoints

section Nodes

/-- **Sample nodes get no grid row**: the non-fixed nodes are exactly the node ids that are not
samples, each once; `row_lookup` gives a grid row to those and only those. -/
theorem nonfixed_only {τ : Type} [LinearOrder τ] (numNodes : Nat) (samples : List Nat) (time : Nat → τ) (u : Nat) :
    (u ∈ nonfixed numNodes samples time ↔ u < numNodes ∧ u ∉ samples) ∧
      (nonfixed numNodes samples time).Nodup ∧
      ((rowLookup (nonfixed numNodes samples time) u).isSome ↔ u < numNodes ∧ u ∉ samples) := by
  have hperm : (nonfixed numNodes samples time).Perm (datable numNodes samples) := List.mergeSort_perm _ _
  have hmem : u ∈ nonfixed numNodes samples time ↔ u < numNodes ∧ u ∉ samples := by
    rw [hperm.mem_iff]
    simp [datable, List.mem_filter]
  refine ⟨hmem, hperm.nodup_iff.mpr (List.nodup_range.filter _), ?_⟩
  rw [← hmem]
  unfold rowLookup
  simp only
  split_ifs with h
  · simp [List.idxOf_lt_length_iff.mp h]
  · simp only [Option.isSome_none, Bool.false_eq_true, false_iff]
    exact fun hm => h (List.idxOf_lt_length_iff.mpr hm)

/-- The same from the flags column: node `u` gets a grid row iff it exists and its `NODE_IS_SAMPLE` bit
is clear — wherever the samples sit in the node table (first, last, interleaved). -/
theorem nonfixed_by_flags {τ : Type} [LinearOrder τ] (flags : List Nat) (time : Nat → τ) (u : Nat) :
    (u ∈ nonfixedOfFlags flags time ↔ u < flags.length ∧ flags.getD u 0 % 2 = 0) ∧
      ((rowLookup (nonfixedOfFlags flags time) u).isSome ↔ u < flags.length ∧ flags.getD u 0 % 2 = 0) := by
  have h := nonfixed_only flags.length (sampleIds flags) time u
  have hs : u < flags.length → (u ∉ sampleIds flags ↔ flags.getD u 0 % 2 = 0) := by
    intro hu
    simp only [sampleIds, List.mem_filter, List.mem_range, hu, true_and, beq_iff_eq]
    omega
  unfold nonfixedOfFlags
  constructor
  · rw [h.1]
    exact ⟨fun ⟨a, b⟩ => ⟨a, (hs a).mp b⟩, fun ⟨a, b⟩ => ⟨a, (hs a).mpr b⟩⟩
  · rw [h.2.2]
    exact ⟨fun ⟨a, b⟩ => ⟨a, (hs a).mp b⟩, fun ⟨a, b⟩ => ⟨a, (hs a).mpr b⟩⟩

/-- Non-fixed nodes are listed by non-decreasing time. -/
theorem nonfixed_sorted {τ : Type} [LinearOrder τ] (numNodes : Nat) (samples : List Nat) (time : Nat → τ) :
    (nonfixed numNodes samples time).Pairwise (fun a b => time a ≤ time b) := by
  have := List.pairwise_mergeSort (le := fun a b => decide (time a ≤ time b))
    (fun a b c h1 h2 => by simp only [decide_eq_true_eq] at *; exact le_trans h1 h2)
    (fun a b => by rcases le_total (time a) (time b) with h | h <;> simp [h])
    (datable numNodes samples)
  exact this.imp (fun h => by simpa using h)

end Nodes

section UserGrid
variable {α : Type} [Field α] [LinearOrder α] [IsStrictOrderedRing α]

/-- **Explicit timepoints are returned exactly** (in exact arithmetic): for any pair of time
transforms that are mutually inverse on the user's points (C17 proves this for every
`PopulationSizeHistory`), the stored grid is the user's grid, sorted. -/
theorem user_grid_roundtrip (toCoal toNat : α → α) (user : List α)
    (hinv : ∀ t ∈ user, toNat (toCoal t) = t) :
    userGridStored toCoal toNat user = user.mergeSort (fun a b => decide (a ≤ b)) := by
  unfold userGridStored
  rw [List.map_map]
  conv_rhs => rw [← List.map_id (user.mergeSort _)]
  apply List.map_congr_left
  intro t ht
  exact hinv t ((List.mergeSort_perm _ _).mem_iff.mp ht)

/-- The constant-size transforms are mutually inverse. -/
theorem const_roundtrip (twoN : α) (h : twoN ≠ 0) (t : α) : toNatConst twoN (toCoalConst twoN t) = t := by
  unfold toNatConst toCoalConst
  field_simp
  ring

/-- Constant population size: stored grid = sorted user grid; strictly increasing when the user's
points are distinct (the code rejects duplicates), starting at 0 when the user's smallest point is 0. -/
theorem user_grid_const (twoN : α) (h : twoN ≠ 0) (user : List α) (hn : user.Nodup) :
    userGridStored (toCoalConst twoN) (toNatConst twoN) user = user.mergeSort (fun a b => decide (a ≤ b)) ∧
      (userGridStored (toCoalConst twoN) (toNatConst twoN) user).Pairwise (· < ·) := by
  have h1 := user_grid_roundtrip (toCoalConst twoN) (toNatConst twoN) user (fun t _ => const_roundtrip twoN h t)
  refine ⟨h1, ?_⟩
  rw [h1]
  exact strict_of_sorted_nodup _ (sorted_mergeSort_le _) ((List.mergeSort_perm _ _).nodup_iff.mpr hn)

end UserGrid

/-- On IEEE doubles the same round trip is *not* the identity: with `2N = 10000` the user's
timepoint `3.0` comes back as `2.9999999999999996` (bit patterns; evaluated by the kernel).  This is why
the implementation returns the user's grid only up to rounding (known finding
`explicit-timegrid-returned-up-to-rounding`), while `user_grid_roundtrip` is exact. -/
theorem float_roundtrip_moves_a_point :
    (toNatConst (Float.ofBits 0x40c3880000000000)
      (toCoalConst (Float.ofBits 0x40c3880000000000) (Float.ofBits 0x4008000000000000))).toBits
      = 0x4007ffffffffffff := by decide +kernel

/-! Non-vacuity. -/

/-- cdf values `0, 1/4, 3/4, 1` on a four-point grid: masses `1/4, 1/2, 1/4`, standardised to
`1/2, 1, 1/2`. -/
example : fillRow [(0 : ℚ), 1 / 4, 3 / 4, 1] = [0, 1 / 2, 1, 1 / 2] := by
  rw [fillRow_eq]
  norm_num [diffs, maxOf, maxL]

example : (0 : ℚ) < maxOf [(0 : ℚ), 1 / 4, 3 / 4, 1] ∧ (0 : ℚ) < rowMax [(0 : ℚ), 1 / 4, 3 / 4, 1] := by
  norm_num [rowMax, diffs, maxOf, maxL]

/-- Five nodes, samples 0,1,2: node 4 gets a row, node 0 does not. -/
example : 4 ∈ nonfixed 5 [0, 1, 2] (fun u => if u = 3 then (2 : ℕ) else 1)
    ∧ 0 ∉ nonfixed 5 [0, 1, 2] (fun u => if u = 3 then (2 : ℕ) else 1) :=
  ⟨(nonfixed_only 5 [0, 1, 2] _ 4).1.mpr ⟨by decide, by decide⟩,
   fun h => ((nonfixed_only 5 [0, 1, 2] _ 0).1.mp h).2 (by decide)⟩

/-- One thinning step (integers standing in for times): the percentile 1 is farther than `sep = 0`
from the projections `[2, 4]`, so its quantile under row 3 is appended; 2 is not. -/
example : tpUnsorted (fun i p => (i : Int) * p) (fun _ t => t) [1, 2] 0 4 = [2, 4, 3] := by decide +kernel

end Tsdate.C16
