/-
C19 — special-function and gamma-fitting helpers are accurate.

What is proved (for the code as it is now: `Gen/Consts.lean` and `Gen/Kernels.lean` are regenerated from the
source text on every run; the hand models of `Model/Special.lean` are executed at Float against numba, bit for bit):

* every literal coefficient of the asymptotic series of `_digamma` / `_trigamma` is the exact Bernoulli coefficient
  (Mathlib's `bernoulli`) up to 5·10⁻¹⁸ absolute (digamma) resp. 2⁻⁵³ relative (trigamma; those literals are printed
  doubles), also for the doubles Python actually parses; the leading coefficients are exact;
* the recursion `x → x + 1` of both helpers is exact: over any abstract `ψ` obeying the recurrence, the error at `x`
  is bounded by the error of the leaf formulas; the recursion terminates;
* the first omitted series term at the cut-off: ≤ 10⁻¹⁴ for `_digamma` (x ≥ 8.5) but ≥ 9·10⁻¹² for `_trigamma`
  (x ≥ 5) — the latter is why `_trigamma` is only accurate to ~3·10⁻¹¹ below x ≈ 7 (finding, see design note);
* `_betaln` is ln Γ(p) + ln Γ(q) − ln Γ(p+q) and symmetric; method of moments is exact or fails; the KL fit
  reproduces the mean exactly and exits only through the asymptotic shortcut or a Newton step passing the
  relative test; the Newton tolerance squared is machine epsilon; the quantile fit returns the capped shape or a
  shape ≤ cap with the lower quantile matched by construction, and exits by the same test.

NOT proved: that the truncated series / the small-x forms are within machine precision of the true ψ, ψ′
(analytic facts about asymptotic expansions), and that Newton converges.  `C19_statement` keeps the full claim.
-/
import TsdateVerif.Proofs.Bernoulli
import TsdateVerif.Proofs.Special
import TsdateVerif.Proofs.Kernels
import TsdateVerif.Gen.Consts

namespace Tsdate.C19
open Tsdate.Kernels Tsdate.Gen.Kernels Tsdate.Gen.Consts
set_option linter.unusedSectionVars false

/-! ## 1. The literals -/

/-- Exact coefficient of `x^(-2k)` in the asymptotic series of ψ: `−B₂ₖ / (2k)`. -/
def digammaExact (k : Nat) : ℚ := -(bernoulli (2 * k) / (2 * k))

/-- Exact coefficient of `x^(-2k-1)` in the asymptotic series of ψ′: `B₂ₖ`. -/
def trigammaExact (k : Nat) : ℚ := bernoulli (2 * k)

theorem digammaExact_values : digammaExact 1 = -1 / 12 ∧ digammaExact 2 = 1 / 120 ∧ digammaExact 3 = -1 / 252 ∧
    digammaExact 4 = 1 / 240 ∧ digammaExact 5 = -1 / 132 ∧ digammaExact 6 = 691 / 32760 := by
  simp only [digammaExact]
  norm_num [bernoulli_2, bernoulli_4, bernoulli_6, bernoulli_8, bernoulli_10, bernoulli_12]

theorem trigammaExact_values : trigammaExact 1 = 1 / 6 ∧ trigammaExact 2 = -1 / 30 ∧ trigammaExact 3 = 1 / 42 ∧
    trigammaExact 4 = -1 / 30 ∧ trigammaExact 5 = 5 / 66 ∧ trigammaExact 6 = -691 / 2730 ∧
    trigammaExact 7 = 7 / 6 := by
  simp only [trigammaExact]
  norm_num [bernoulli_2, bernoulli_4, bernoulli_6, bernoulli_8, bernoulli_10, bernoulli_12, bernoulli_14]

/-- **`_digamma` series literals**: six terms, each within 5·10⁻¹⁸ of `−B₂ₖ/(2k)`, `k = 1..6`. -/
theorem digamma_coeffs :
    hypergeo.digamma_series.length = 6 ∧
    ∀ k, k < 6 → |((hypergeo.digamma_series.getD k 0 : Rat) : ℚ) - digammaExact (k + 1)| ≤ 5 / 10 ^ 18 := by
  obtain ⟨e1, e2, e3, e4, e5, e6⟩ := digammaExact_values
  refine ⟨by simp [hypergeo.digamma_series], ?_⟩
  intro k hk
  interval_cases k <;> simp only [hypergeo.digamma_series, List.getD_cons_zero, List.getD_cons_succ, e1, e2, e3, e4, e5, e6] <;>
    rw [abs_le] <;> constructor <;> norm_num

/-- … and the doubles Python parses from them are within relative 2⁻⁵³ (half an ulp) of the exact values. -/
theorem digamma_coeffs_f64 :
    hypergeo.digamma_series_f64.length = 6 ∧
    ∀ k, k < 6 → |((hypergeo.digamma_series_f64.getD k 0 : Rat) : ℚ) - digammaExact (k + 1)|
      ≤ |digammaExact (k + 1)| / 2 ^ 53 := by
  obtain ⟨e1, e2, e3, e4, e5, e6⟩ := digammaExact_values
  refine ⟨by simp [hypergeo.digamma_series_f64], ?_⟩
  intro k hk
  interval_cases k <;> simp only [hypergeo.digamma_series_f64, List.getD_cons_zero, List.getD_cons_succ, e1, e2, e3, e4, e5, e6] <;>
    rw [abs_le] <;> constructor <;> norm_num [abs_of_pos, abs_of_neg]

/-- The `1/x` coefficient is exactly `−1/2`. -/
theorem digamma_inv_exact : hypergeo.digamma_inv = -1 / 2 ∧ hypergeo.digamma_inv_f64 = -1 / 2 := by
  constructor <;> norm_num [hypergeo.digamma_inv, hypergeo.digamma_inv_f64]

/-- **`_trigamma` series literals**: seven terms, each within relative 2⁻⁵³ of `B₂ₖ` (they are printed doubles). -/
theorem trigamma_coeffs :
    hypergeo.trigamma_series.length = 7 ∧
    ∀ k, k < 7 → |((hypergeo.trigamma_series.getD k 0 : Rat) : ℚ) - trigammaExact (k + 1)|
      ≤ |trigammaExact (k + 1)| / 2 ^ 53 := by
  obtain ⟨e1, e2, e3, e4, e5, e6, e7⟩ := trigammaExact_values
  refine ⟨by simp [hypergeo.trigamma_series], ?_⟩
  intro k hk
  interval_cases k <;> simp only [hypergeo.trigamma_series, List.getD_cons_zero, List.getD_cons_succ, e1, e2, e3, e4, e5, e6, e7] <;>
    rw [abs_le] <;> constructor <;> norm_num [abs_of_pos, abs_of_neg]

theorem trigamma_coeffs_f64 :
    hypergeo.trigamma_series_f64.length = 7 ∧
    ∀ k, k < 7 → |((hypergeo.trigamma_series_f64.getD k 0 : Rat) : ℚ) - trigammaExact (k + 1)|
      ≤ |trigammaExact (k + 1)| / 2 ^ 53 := by
  obtain ⟨e1, e2, e3, e4, e5, e6, e7⟩ := trigammaExact_values
  refine ⟨by simp [hypergeo.trigamma_series_f64], ?_⟩
  intro k hk
  interval_cases k <;> simp only [hypergeo.trigamma_series_f64, List.getD_cons_zero, List.getD_cons_succ, e1, e2, e3, e4, e5, e6, e7] <;>
    rw [abs_le] <;> constructor <;> norm_num [abs_of_pos, abs_of_neg]

theorem trigamma_lead_half : hypergeo.trigamma_lead = 1 ∧ hypergeo.trigamma_half = 1 / 2 ∧
    hypergeo.trigamma_lead_f64 = 1 ∧ hypergeo.trigamma_half_f64 = 1 / 2 := by
  refine ⟨?_, ?_, ?_, ?_⟩ <;>
    norm_num [hypergeo.trigamma_lead, hypergeo.trigamma_half, hypergeo.trigamma_lead_f64, hypergeo.trigamma_half_f64]

/-- Cut-off cascades: reflection at 0, a positive small-x cut-off below the recurrence cut-off. -/
theorem cutoffs_ordered :
    hypergeo.digamma_cutoffs.getD 0 1 = 0 ∧ 0 < hypergeo.digamma_cutoffs.getD 1 0 ∧
      hypergeo.digamma_cutoffs.getD 1 0 < hypergeo.digamma_cutoffs.getD 2 0 ∧
    hypergeo.trigamma_cutoffs.getD 0 1 = 0 ∧ 0 < hypergeo.trigamma_cutoffs.getD 1 0 ∧
      hypergeo.trigamma_cutoffs.getD 1 0 < hypergeo.trigamma_cutoffs.getD 2 0 := by
  simp only [hypergeo.digamma_cutoffs, hypergeo.trigamma_cutoffs, List.getD_cons_zero, List.getD_cons_succ]
  norm_num

/-- First omitted term of the `_digamma` series (`B₁₄/(14 x¹⁴)`) at the series cut-off: below 10⁻¹⁴. -/
theorem digamma_truncation_term_small :
    |(bernoulli 14 : ℚ) / 14| / ((hypergeo.digamma_cutoffs.getD 2 0 : Rat) : ℚ) ^ 14 ≤ 1 / 10 ^ 14 := by
  simp only [hypergeo.digamma_cutoffs, List.getD_cons_zero, List.getD_cons_succ, bernoulli_14]
  norm_num [abs_of_pos]

/-- First omitted term of the `_trigamma` series (`B₁₆/x¹⁷`) at ITS cut-off `x = 5`: at least 9·10⁻¹², i.e. about
4·10⁻¹¹ of ψ′(5) ≈ 0.221 — `_trigamma` cannot be "near machine precision" just above its cut-off. -/
theorem trigamma_truncation_term_not_small :
    9 / 10 ^ 12 ≤ |(bernoulli 16 : ℚ)| / ((hypergeo.trigamma_cutoffs.getD 2 0 : Rat) : ℚ) ^ 17 := by
  simp only [hypergeo.trigamma_cutoffs, List.getD_cons_zero, List.getD_cons_succ, bernoulli_16]
  norm_num [abs_of_neg]

/-- The Newton exit tolerance squared is machine epsilon (2⁻⁵²): one more quadratically convergent step would
not change a double.  At most 101 iterations.  Asymptotic shortcut for shapes above 10⁴, initial value `½/(…)`. -/
theorem newton_constants :
    approx._KLMIN_RELTOL ^ 2 = 1 / 2 ^ 52 ∧ 0 < approx._KLMIN_RELTOL ∧ approx._KLMIN_MAXITT = 100 ∧
    approx.approximate_gamma_kl.asym_cutoff = 1 / 10000 ∧ approx.approximate_gamma_kl.init_num = 1 / 2 := by
  refine ⟨?_, ?_, ?_, ?_, ?_⟩ <;>
    norm_num [approx._KLMIN_RELTOL, approx._KLMIN_MAXITT, approx.approximate_gamma_kl.asym_cutoff,
      approx.approximate_gamma_kl.init_num]

/-! ## 2. Recursion shape of `_digamma` / `_trigamma` (model: `Model/Special.lean`) -/

variable {α : Type} [Field α] [LinearOrder α] [IsStrictOrderedRing α]

/-- **`_digamma` recursion is exact.**  For ANY `ψ` with `ψ(x) = ψ(1+x) − 1/x` on `x > 0`: if the small-x form and
the series are within `ε` of `ψ` on their domains, every value `_digamma` returns at `x > 0` is within `ε` of `ψ(x)`. -/
theorem digamma_recurrence_shape (F : SpecFns α) (C : DigammaConsts α) (ψ : α → α) (ε : α) (hc0 : 0 ≤ C.c0)
    (hrec : ∀ x, 0 < x → ψ x = ψ (1 + x) - 1 / x)
    (hsmall : ∀ x, C.c0 < x → x ≤ C.c1 → |(-C.eulerGamma - 1 / x) - ψ x| ≤ ε)
    (hseries : ∀ x, C.c0 < x → C.c2 ≤ x → |digammaSeries F C x - ψ x| ≤ ε)
    (fuel : Nat) (x v : α) (hx : C.c0 < x) (h : digamma F C fuel x = some v) : |v - ψ x| ≤ ε :=
  digamma_error_transport F C ψ ε hc0 hrec hsmall hseries fuel x v hx h

/-- … and it returns a value once the recursion depth covers the distance to the series cut-off
(`x + n ≥ c2`; the code needs at most 9 steps). -/
theorem digamma_terminates (F : SpecFns α) (C : DigammaConsts α) (n : Nat) (x : α) (hx : C.c0 < x)
    (h : C.c2 ≤ x + n) : ∃ v, digamma F C (n + 1) x = some v :=
  digamma_defined F C n x hx h

/-- Same for `_trigamma` along `ψ′(x) = ψ′(1+x) + 1/x²`. -/
theorem trigamma_recurrence_shape (pw : α → Nat → α) (C : TrigammaConsts α) (ψ' : α → α) (ε : α) (hc0 : 0 ≤ C.c0)
    (hrec : ∀ x, 0 < x → ψ' x = ψ' (1 + x) + 1 / (x * x))
    (hsmall : ∀ x, C.c0 < x → x ≤ C.c1 → |1 / (x * x) - ψ' x| ≤ ε)
    (hseries : ∀ x, C.c0 < x → C.c2 ≤ x → |trigammaSeries pw C x - ψ' x| ≤ ε)
    (fuel : Nat) (x v : α) (hx : C.c0 < x) (h : trigamma pw C fuel x = some v) : |v - ψ' x| ≤ ε :=
  trigamma_error_transport pw C ψ' ε hc0 hrec hsmall hseries fuel x v hx h

theorem trigamma_terminates (pw : α → Nat → α) (C : TrigammaConsts α) (n : Nat) (x : α) (hx : C.c0 < x)
    (h : C.c2 ≤ x + n) : ∃ v, trigamma pw C (n + 1) x = some v :=
  trigamma_defined pw C n x hx h

/-! ## 3. `_betaln`, method of moments (generated definitions) -/

/-- `_betaln(p, q) = ln Γ(p) + ln Γ(q) − ln Γ(p + q)`, whatever `lgamma` is. -/
theorem betaln_def (F : SpecFns α) (p q : α) : _betaln F p q = F.lgamma p + F.lgamma q - F.lgamma (p + q) := by
  simp only [_betaln]

theorem betaln_symm (F : SpecFns α) (p q : α) : _betaln F p q = _betaln F q p := by
  simp only [_betaln, add_comm p q, add_comm (F.lgamma p)]

/-- **Method of moments is exact**: for positive mean and variance the returned `(shape − 1, rate)` is a proper
gamma with exactly that mean and variance … -/
theorem mom_fit_exact (F : SpecFns α) (m v : α) (hm : 0 < m) (hv : 0 < v) :
    IsGammaFit (approximate_gamma_mom F m v) m v := mom_fit F m v hm hv

/-- … and it raises `KLMinimizationFailedError` exactly otherwise. -/
theorem mom_fit_fails_iff (F : SpecFns α) (m v : α) :
    pre_approximate_gamma_mom F m v = false ↔ ¬ (0 < m ∧ 0 < v) := by
  rw [← pre_mom_iff F m v]; simp

/-! ## 4. KL fit and quantile fit (models in `Model/Special.lean`) -/

/-- **KL fit reproduces the mean exactly**: any returned `(shape − 1, rate)` has `shape / rate = x` with
`shape > 0` (and was only attempted for `x > 0`, `log x > logx`). -/
theorem kl_fit_mean_exact (K : KLFns α) (x logx s r : α) (h : approxGammaKL K x logx = .ok s r) :
    0 < x ∧ 0 < s + 1 ∧ (s + 1) / r = x := by
  obtain ⟨h1, _, h3, h4, _⟩ := approxGammaKL_ok K x logx s r h
  exact ⟨h1, h3, h4⟩

/-- **KL fit exit**: a returned shape is either the asymptotic shortcut `½ / (log x − logx)` taken when
`1/shape < asym`, or the result `a − d` of a Newton step `d = (ψ(a) − log a + log x − logx) / (ψ′(a) − 1/a)` that
passes `|d| ≤ |shape| · reltol`. -/
theorem kl_fit_exit (K : KLFns α) (x logx s r : α) (h : approxGammaKL K x logx = .ok s r) :
    (1 / (s + 1) < K.asym ∧ s + 1 = 1 / 2 / (K.log x - logx)) ∨
    ∃ a d, d = (K.digamma a - K.log a + K.log x - logx) / (K.trigamma a - 1 / a) ∧
      s + 1 = a - d ∧ |d| ≤ |s + 1| * K.reltol := by
  obtain ⟨_, _, _, _, h5⟩ := approxGammaKL_ok K x logx s r h
  rcases h5 with h5 | ⟨a, d, hd, hs, hle⟩
  · exact Or.inl h5
  · exact Or.inr ⟨a, d, by rw [hd]; simp only [klStep, Nat.cast_one], hs, hle⟩

/-- **Quantile fit, all normal returns**: the capped shape `max_shape` with rate `gammaincinv(max_shape, q1)/x1`,
or a shape in `(0, max_shape]` produced by a Newton step passing the exit test, with rate
`gammaincinv(shape, q1)/x1`. -/
theorem iqr_fit_cases (Q : IQRFns α) (q1 q2 x1 x2 maxShape s r : α)
    (h : approxGammaIQR Q q1 q2 x1 x2 maxShape = .ok s r) :
    (s + 1 = maxShape ∧ r = Q.gammaincInv maxShape q1 / x1) ∨
    (0 < s + 1 ∧ s + 1 ≤ maxShape ∧ r = Q.gammaincInv (s + 1) q1 / x1 ∧
      ∃ a d, d = iqrStep Q q1 q2 x1 x2 a ∧ s + 1 = a + d ∧ |d| ≤ |s + 1| * Q.reltol) :=
  approxGammaIQR_ok Q q1 q2 x1 x2 maxShape s r h

/-- **Lower quantile matched by construction** (capped or not): if `gammaincinv(a, ·)` inverts the regularised
incomplete gamma `P(a, ·)`, the returned gamma puts exactly mass `q1` below `x1`. -/
theorem iqr_lower_quantile_matched (Q : IQRFns α) (P : α → α → α) (hinv : ∀ a q, P a (Q.gammaincInv a q) = q)
    (q1 q2 x1 x2 maxShape s r : α) (hx1 : x1 ≠ 0)
    (h : approxGammaIQR Q q1 q2 x1 x2 maxShape = .ok s r) : P (s + 1) (r * x1) = q1 := by
  rcases approxGammaIQR_ok Q q1 q2 x1 x2 maxShape s r h with ⟨hs, hr⟩ | ⟨_, _, hr, _⟩
  · rw [hr, hs, div_mul_cancel₀ _ hx1]; exact hinv _ _
  · rw [hr, div_mul_cancel₀ _ hx1]; exact hinv _ _

/-! ## The full statement (partial) -/

/-- C19's accuracy clause for `_digamma` over the reals would read: for the true digamma `ψ` and every `x > 0`,
`|_digamma x − ψ x| ≤ tol · max 1 |ψ x|`.  Only the recursion part (`digamma_recurrence_shape`) and the literals
are proved; the leaf bounds are hypotheses there.  Stage C measures them against scipy/mpmath. -/
def C19_statement (F : SpecFns α) (C : DigammaConsts α) (ψ : α → α) (tol : α) : Prop :=
  ∀ fuel x v, 0 < x → digamma F C fuel x = some v → |v - ψ x| ≤ tol * max 1 |ψ x|

/-! ## Non-vacuity -/

/-- The recursion really descends to the series: with the code's cut-offs, `_digamma 7` (fuel 3) is the series
value at 9 minus `1/7 + 1/8` (Rat, `log := id`, no series terms). -/
example : digamma (α := Rat) ⟨id, id, id, id, fun _ => true⟩
    { c0 := 0, c1 := 1 / 100000, c2 := 17 / 2, eulerGamma := 0, inv := -1 / 2, cs := [] } 3 7
    = some (9 + (-1 / 2) / 9 - 1 / 8 - 1 / 7) := by
  norm_num [digamma, digammaSeries, seriesFrom]

/-- A KL fit that exits through the Newton test after one (zero) step: `ψ ≡ −1`, `log ≡ 0`, `logx = −1`. -/
example : approxGammaKL (α := Rat)
    { log := fun _ => 0, digamma := fun _ => -1, trigamma := fun a => 1 / a + 1, isFinite := fun _ => true,
      isInf := fun _ => false, reltol := 1 / 67108864, maxitt := 2, asym := 1 / 10000 } 3 (-1)
    = .ok (-1 / 2) (1 / 6) := by
  norm_num [approxGammaKL, klLoop, klStep, pyabs]

end Tsdate.C19
