/-
C36 — the precomputed prior cache is crash-safe and exact
(model: Model/CacheFS.lean of tsdate/prior.py `precalculate_priors_for_approximation` /
`read_precalc_cache` after commit ad54279).

Reading guide.  `final` is the cache file name, `tmp i` the temp name writer `i` got from `mkstemp`
(distinct names: that is `mkstemp`'s O_EXCL contract, checked on the traced names by the harness),
`chunks i` the byte chunks writer `i` hands to the OS.  A schedule is any list of writer names; a
crash is `CrashOf` (any prefix of the program, last write possibly partial).  `readCache … = none`
means "the reader ignores the file and the table is recomputed".
-/
import TsdateVerif.Proofs.CacheFS
import TsdateVerif.Proofs.CacheText

namespace Tsdate.C36
open Tsdate.CacheFS

/-- **Atomic protocol.**  Any number of writers, each running (a crash prefix of) the post-fix writer
`[createTemp tmp; append tmp …; flush tmp; rename tmp final]` or of `clear_precalculated_priors`
(`[remove final]`), interleaved by an arbitrary schedule from an arbitrary initial file system: at
every moment the cache name holds what it held initially, or nothing, or the *complete* content of
one writer.  No partial or interleaved content is ever visible under the cache name. -/
theorem atomic_protocol_safe {ι : Type} [DecidableEq ι] (final : Path) (tmp : ι → Path)
    (htmp : Function.Injective tmp) (hne : ∀ i, tmp i ≠ final)
    (chunks : ι → List Bytes) (prog : ι → List Op)
    (hprog : ∀ i, prog i = atomicWriter (tmp i) final (chunks i) ∨ prog i = clearer final)
    (rem0 : ι → List Op) (hcrash : ∀ i, CrashOf (prog i) (rem0 i))
    (fs0 : FS) (sched : List ι) :
    (runSched ⟨fs0, rem0⟩ sched).fs final = fs0 final ∨
    (runSched ⟨fs0, rem0⟩ sched).fs final = none ∨
    ∃ i, (runSched ⟨fs0, rem0⟩ sched).fs final = some (chunks i).flatten := by
  have h0 : Inv tmp final (fun i => (chunks i).flatten) (fs0 final) ⟨fs0, rem0⟩ := by
    constructor
    · intro i
      apply safe_crash (tmp i) final _ (hcrash i)
      rcases hprog i with h | h
      · rw [h]; exact safe_atomicWriter _ _ _ _
      · rw [h]; exact safe_clearer _ _ _ _
    · exact Or.inl rfl
  exact (inv_runSched tmp htmp final hne _ _ sched _ h0).good

/-- The same for any writers that pass the decidable discipline check `safeOps` (this is the form
the driver applies to the operation lists traced from the real code). -/
theorem safe_protocol_safe {ι : Type} [DecidableEq ι] (final : Path) (tmp : ι → Path)
    (htmp : Function.Injective tmp) (hne : ∀ i, tmp i ≠ final)
    (content : ι → Bytes) (rem0 : ι → List Op) (fs0 : FS)
    (hsafe : ∀ i, safeOps (tmp i) final (content i) (fs0 (tmp i)) (rem0 i) = true)
    (sched : List ι) :
    (runSched ⟨fs0, rem0⟩ sched).fs final = fs0 final ∨
    (runSched ⟨fs0, rem0⟩ sched).fs final = none ∨
    ∃ i, (runSched ⟨fs0, rem0⟩ sched).fs final = some (content i) :=
  (inv_runSched tmp htmp final hne content _ sched _ ⟨hsafe, Or.inl rfl⟩).good

/-- The driver's enumeration `crashCuts` contains every crash outcome. -/
theorem crash_enumeration_complete {w w' : List Op} (h : CrashOf w w') : w' ∈ crashCuts w :=
  mem_crashCuts h

section Reader
variable (nl hash : Nat) {ρ : Type}

/-- **Exactness.**  A complete cache file is read back as exactly the table that was written
(`parseRow (fmt r) = some r` is the `%.18e` round trip, checked bit-for-bit by the harness). -/
theorem reader_exact (footer : Bytes) (fmt : ρ → Bytes) (parseRow : Bytes → Option ρ)
    (valid : ρ → Bool) (rows : List ρ) (hf : FormatOK nl hash footer fmt rows)
    (hrt : ∀ r ∈ rows, parseRow (fmt r) = some r) (hn : 2 ≤ rows.length)
    (hv : rows.all valid = true) :
    reader nl hash footer parseRow valid rows.length (encode nl footer fmt rows) = some rows :=
  reader_complete nl hash footer fmt parseRow valid rows hf hrt hn hv _
    (lines_full nl hash footer fmt rows hf)

/-- **The reader validates.**  Every prefix of an encoding — every point at which a write of the
file can have been cut — is either rejected or read back as the exact table (the only accepted
strict prefix is the one lacking just the final line terminator).  Holds for *every* row syntax
`fmt`/`parseRow`: a truncation inside the last number is harmless because the footer line is
checked first. -/
theorem reader_validates (footer : Bytes) (fmt : ρ → Bytes) (parseRow : Bytes → Option ρ)
    (valid : ρ → Bool) (rows : List ρ) (hf : FormatOK nl hash footer fmt rows)
    (hrt : ∀ r ∈ rows, parseRow (fmt r) = some r) (hn : 2 ≤ rows.length)
    (hv : rows.all valid = true) (p : Bytes) (hp : p <+: encode nl footer fmt rows) :
    reader nl hash footer parseRow valid rows.length p = none ∨
    reader nl hash footer parseRow valid rows.length p = some rows :=
  reader_prefix nl hash footer fmt parseRow valid rows hf hrt hn hv p hp

/-- With no activity between its three looks the reader is `reader` applied to the file content. -/
theorem readCache_same (footer : Bytes) (parseRow : Bytes → Option ρ) (valid : ρ → Bool) (n : Nat)
    (t : Bytes) :
    readCache nl hash footer parseRow valid n (some t) (some t) (some t)
      = reader nl hash footer parseRow valid n t := rfl

/-- **Crash safety and exactness of the whole protocol.**  Writers as in `atomic_protocol_safe`, all
writing the encoding of the same table (the table is a function of `n` and the version, which are
part of the file name); the cache name initially absent or holding *any prefix* of that encoding
(e.g. left by a crashed pre-fix writer).  The reader looks at the cache name three times
(`isfile`, `read`, `genfromtxt`), with arbitrary writer activity `s0`, `s1`, `s2` before and between
the looks.  It returns the exact table or `none` (recompute) — never anything else. -/
theorem cache_crash_safe {ι : Type} [DecidableEq ι] (final : Path) (tmp : ι → Path)
    (htmp : Function.Injective tmp) (hne : ∀ i, tmp i ≠ final)
    (chunks : ι → List Bytes) (prog : ι → List Op)
    (hprog : ∀ i, prog i = atomicWriter (tmp i) final (chunks i) ∨ prog i = clearer final)
    (rem0 : ι → List Op) (hcrash : ∀ i, CrashOf (prog i) (rem0 i))
    (footer : Bytes) (fmt : ρ → Bytes) (parseRow : Bytes → Option ρ)
    (valid : ρ → Bool) (rows : List ρ) (hf : FormatOK nl hash footer fmt rows)
    (hrt : ∀ r ∈ rows, parseRow (fmt r) = some r) (hn : 2 ≤ rows.length)
    (hv : rows.all valid = true)
    (hchunks : ∀ i, (chunks i).flatten = encode nl footer fmt rows)
    (fs0 : FS) (hinit : fs0 final = none ∨ ∃ p, p <+: encode nl footer fmt rows ∧ fs0 final = some p)
    (s0 s1 s2 : List ι) :
    readCache nl hash footer parseRow valid rows.length
        ((runSched ⟨fs0, rem0⟩ s0).fs final)
        ((runSched ⟨fs0, rem0⟩ (s0 ++ s1)).fs final)
        ((runSched ⟨fs0, rem0⟩ (s0 ++ s1 ++ s2)).fs final) = none ∨
    readCache nl hash footer parseRow valid rows.length
        ((runSched ⟨fs0, rem0⟩ s0).fs final)
        ((runSched ⟨fs0, rem0⟩ (s0 ++ s1)).fs final)
        ((runSched ⟨fs0, rem0⟩ (s0 ++ s1 ++ s2)).fs final) = some rows := by
  have h0 : Inv tmp final (fun i => (chunks i).flatten) (fs0 final) ⟨fs0, rem0⟩ := by
    constructor
    · intro i
      apply safe_crash (tmp i) final _ (hcrash i)
      rcases hprog i with h | h
      · rw [h]; exact safe_atomicWriter _ _ _ _
      · rw [h]; exact safe_clearer _ _ _ _
    · exact Or.inl rfl
  have hA := inv_runSched tmp htmp final hne _ _ s0 _ h0
  -- restart the invariant with the current content as "initial" at each look
  have hB := inv_runSched tmp htmp final hne _ _ s1 _
    (⟨hA.safe, Or.inl rfl⟩ : Inv tmp final (fun i => (chunks i).flatten)
      ((runSched ⟨fs0, rem0⟩ s0).fs final) (runSched ⟨fs0, rem0⟩ s0))
  rw [← runSched_append] at hB
  have hC := inv_runSched tmp htmp final hne _ _ s2 _
    (⟨hB.safe, Or.inl rfl⟩ : Inv tmp final (fun i => (chunks i).flatten)
      ((runSched ⟨fs0, rem0⟩ (s0 ++ s1)).fs final) (runSched ⟨fs0, rem0⟩ (s0 ++ s1)))
  rw [← runSched_append] at hC
  have g0 := hA.good
  have g1 := hB.good
  have g2 := hC.good
  simp only [hchunks] at g0 g1 g2
  apply readCache_looks nl hash footer fmt parseRow valid rows hf hrt hn hv
  · rcases g0 with g | g | ⟨_, g⟩
    · rw [g]; exact hinit
    · exact Or.inl g
    · exact Or.inr ⟨_, List.prefix_refl _, g⟩
  · rcases g1 with g | g | ⟨_, g⟩
    · exact Or.inl g
    · exact Or.inr (Or.inl g)
    · exact Or.inr (Or.inr g)
  · rcases g2 with g | g | ⟨_, g⟩
    · exact Or.inl g
    · exact Or.inr (Or.inl g)
    · exact Or.inr (Or.inr g)

/-- **Why validation alone protects a single writer.**  Even the pre-fix *direct* writer, run alone and
killed anywhere, leaves under the cache name either what was there or a prefix of the encoding — which
the validating reader rejects or reads back exactly (`reader_validates`).  So after ad54279 a lone
crashing writer can never cause a wrong table even without the rename; the rename is what protects
against concurrent writers (`direct_write_unsafe_two_writers` vs `atomic_protocol_safe`). -/
theorem direct_single_writer_validated (final : Path) (chunks : List Bytes)
    (footer : Bytes) (fmt : ρ → Bytes) (parseRow : Bytes → Option ρ)
    (valid : ρ → Bool) (rows : List ρ) (hf : FormatOK nl hash footer fmt rows)
    (hrt : ∀ r ∈ rows, parseRow (fmt r) = some r) (hn : 2 ≤ rows.length)
    (hv : rows.all valid = true)
    (hchunks : chunks.flatten = encode nl footer fmt rows)
    (fs : FS) (w' : List Op) (hc : CrashOf (directWriter final chunks) w') :
    (runOps fs w') final = fs final ∨
    ∃ t, (runOps fs w') final = some t ∧
      (reader nl hash footer parseRow valid rows.length t = none ∨
       reader nl hash footer parseRow valid rows.length t = some rows) := by
  rcases direct_writer_crash final chunks fs w' hc with h | ⟨pre, hp, hr⟩
  · exact Or.inl h
  · right
    refine ⟨pre, hr, ?_⟩
    rw [hchunks] at hp
    exact reader_prefix nl hash footer fmt parseRow valid rows hf hrt hn hv pre hp

end Reader

/-! ### The pre-fix protocol, kept as the regression counter-example (finding F10, fixed by ad54279) -/

/-- Rows `1 2` / `3 45` as blank-separated tokens (ASCII codes). -/
def exRows : List (List Bytes) := [[[49], [50]], [[51], [52, 53]]]

/-- What the pre-fix writer hands to the OS: one chunk per row, no footer. -/
def exOldChunks : List Bytes := exRows.map (fun r => fmtTokens r ++ [10])

/-- **The pre-fix protocol is unsafe**: the direct writer (`np.savetxt(filename, …)`) has a crash
point that leaves under the cache name a partial file (`"1 2\n3 4"`) which the pre-fix reader
(`np.genfromtxt`, no validation) accepts as the *different* table `1 2 / 3 4`. -/
theorem direct_write_unsafe :
    ∃ w' part t', CrashOf (directWriter 0 exOldChunks) w' ∧
      (runOps FS.empty w') 0 = some part ∧
      part ≠ exOldChunks.flatten ∧
      oldReader 10 35 parseTokens part = some t' ∧ t' ≠ exRows :=
  ⟨[.openTrunc 0, .append 0 [49, 32, 50, 10], .append 0 [51, 32, 52]],
   [49, 32, 50, 10, 51, 32, 52], [[[49], [50]], [[51], [52]]],
   .cons _ (.cons _ (.part 0 _ _ _ ⟨[53, 10], rfl⟩)), by decide, by decide, by decide, by decide⟩

/-- The post-fix reader rejects that very file. -/
theorem direct_write_partial_now_rejected :
    reader 10 35 [35, 70] parseTokens (fun r => r.length == 2) 2 [49, 32, 50, 10, 51, 32, 52] = none := by
  decide

/-- Table `10 5 / 10 5` with footer `#F`. -/
def exRows2 : List (List Bytes) := [[[49, 48], [53]], [[49, 48], [53]]]
def exChunks2 : List Bytes := encodeChunks 10 [35, 70] fmtTokens exRows2

/-- **Validation alone is not enough**: two *direct* writers of the same table, one of which crashes
after delivering the single byte `1`, can leave the file `"110 5\n10 5\n#F\n"` under the cache name,
which has the footer, the right shape and finite entries, and is accepted by the *validating* reader
as the different table `110 5 / 10 5`.  (Both halves of the repair — atomic rename and validation —
are needed; the rename is what `atomic_protocol_safe` is about.) -/
theorem direct_write_unsafe_two_writers :
    ∃ (remA : List Op) (sched : List Bool) (t' : List (List Bytes)),
      CrashOf (directWriter 0 exChunks2) remA ∧
      reader 10 35 [35, 70] parseTokens (fun r => r.length == 2) 2
        (((runSched ⟨FS.empty, fun b => if b then remA else directWriter 0 exChunks2⟩ sched).fs 0).getD [])
        = some t' ∧ t' ≠ exRows2 :=
  ⟨[.openTrunc 0, .append 0 [49]], [false, true, true, false, false, false, false],
   [[[49, 49, 48], [53]], [[49, 48], [53]]],
   .cons _ (.part 0 _ _ _ ⟨[48, 32, 53, 10], rfl⟩), by decide, by decide⟩

/-! ### Non-vacuity -/

/-- The format hypotheses hold for a concrete table … -/
example : FormatOK 10 35 [35, 70] fmtTokens exRows2 :=
  ⟨by decide, by decide, by decide, by decide, by decide, by decide⟩

/-- … on which the reader returns the table for the full file, and for the file minus its last byte,
and rejects the file minus two bytes. -/
example : reader 10 35 [35, 70] parseTokens (fun r => r.length == 2) 2
    (encode 10 [35, 70] fmtTokens exRows2) = some exRows2 := by decide
example : reader 10 35 [35, 70] parseTokens (fun r => r.length == 2) 2
    ((encode 10 [35, 70] fmtTokens exRows2).take 12) = some exRows2 := by decide
example : reader 10 35 [35, 70] parseTokens (fun r => r.length == 2) 2
    ((encode 10 [35, 70] fmtTokens exRows2).take 11) = none := by decide

/-- Two atomic writers with distinct temp names, one killed in the middle of its second row: the
hypotheses of `atomic_protocol_safe` are met and the cache name ends up complete. -/
example :
    let wA := atomicWriter 1 0 exChunks2
    let wB := atomicWriter 2 0 exChunks2
    let remB : List Op := [.createTemp 2, .append 2 [49, 48, 32, 53, 10], .append 2 [49, 48]]
    CrashOf wB remB ∧
    (runSched ⟨FS.empty, fun b => if b then wA else remB⟩
      [false, true, true, false, true, true, false, true, true, true]).fs 0
      = some exChunks2.flatten :=
  ⟨.cons _ (.cons _ (.part 2 _ _ _ ⟨[32, 53, 10], rfl⟩)), by decide⟩

end Tsdate.C36
