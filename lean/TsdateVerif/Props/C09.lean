/-
C09 — results are deterministic and independent of thread count and prior reuse
(model: Model/LikCache.lean of `Likelihoods.precalculate_mutation_likelihoods` and
`NodeTimeValues.force_probability_space`).

Partial by nature: the theorems show that the *logic* is independent of the order in which the
process pool hands results back, and that the in-place probability-space switch presents the same
data again after LIN→LOG→LIN.  CPython set/dict iteration, OS scheduling, pickling across processes
and the reduction order inside numpy/BLAS are not modelled; they are covered only by the repeated
real executions of the harness.
-/
import Mathlib.Data.List.Basic
import Mathlib.Data.List.Perm.Basic
import Mathlib.Data.List.Nodup
import Mathlib.Tactic.SplitIfs
import TsdateVerif.Model.LikCache

namespace Tsdate.C09
open Tsdate.LikCache

section Cache
variable {κ υ : Type} [DecidableEq κ]

/-- The last result with key `k` (later results overwrite earlier ones). -/
def lastResult (rs : List (κ × υ)) (k : κ) : Option (κ × υ) := rs.reverse.find? (·.1 = k)

/-- What one entry of the cache looks like after the results `rs` have been stored. -/
def upd (rs : List (κ × υ)) (e : κ × Option υ) : κ × Option υ :=
  match lastResult rs e.1 with
  | some r => (e.1, some r.2)
  | none => e

theorem setKey_present (c : Cache κ υ) (k : κ) (v : υ) (h : c.any (·.1 = k) = true) :
    setKey c k v = c.map (fun e => if e.1 = k then (e.1, some v) else e) := by
  simp [setKey, h]

theorem setKey_keys (c : Cache κ υ) (k : κ) (v : υ) (h : c.any (·.1 = k) = true) :
    (setKey c k v).map (·.1) = c.map (·.1) := by
  rw [setKey_present c k v h, List.map_map]
  apply List.map_congr_left
  intro e _
  simp only [Function.comp]
  split_ifs <;> rfl

theorem any_key_iff (c : Cache κ υ) (k : κ) : c.any (·.1 = k) = true ↔ k ∈ c.map (·.1) := by
  constructor
  · intro h
    obtain ⟨e, he, hk⟩ := List.any_eq_true.mp h
    exact List.mem_map.mpr ⟨e, he, by simpa using hk⟩
  · intro h
    obtain ⟨e, he, hk⟩ := List.mem_map.mp h
    exact List.any_eq_true.mpr ⟨e, he, by simpa using hk⟩

/-- **Characterisation of the filled cache**: when every result's key is already in the cache (the
dict comprehension put it there), storing the results overwrites values in place: the key order is
untouched and each entry holds the last result for its key. -/
theorem fill_eq_map (rs : List (κ × υ)) : ∀ (c : Cache κ υ),
    (∀ r ∈ rs, r.1 ∈ c.map (·.1)) → fill c rs = c.map (upd rs) := by
  induction rs with
  | nil =>
    intro c _
    have : upd ([] : List (κ × υ)) = id := by funext e; simp [upd, lastResult]
    simp [fill, this]
  | cons r rs ih =>
    intro c h
    have hr : c.any (·.1 = r.1) = true := (any_key_iff c r.1).mpr (h r (List.mem_cons_self ..))
    have hkeys := setKey_keys c r.1 r.2 hr
    have h' : ∀ r' ∈ rs, r'.1 ∈ (setKey c r.1 r.2).map (·.1) := by
      intro r' hr'
      rw [hkeys]
      exact h r' (List.mem_cons_of_mem _ hr')
    show fill (setKey c r.1 r.2) rs = _
    rw [ih _ h', setKey_present c r.1 r.2 hr, List.map_map]
    apply List.map_congr_left
    intro e _
    simp only [Function.comp, upd, lastResult, List.reverse_cons, List.find?_append]
    by_cases hk : e.1 = r.1
    · simp only [hk, if_true]
      cases hf : List.find? (fun x => decide (x.1 = r.1)) rs.reverse with
      | some r' => simp [hk]
      | none => simp
    · simp only [hk, if_false]
      cases hf : List.find? (fun x => decide (x.1 = e.1)) rs.reverse with
      | some r' => simp
      | none =>
        have : ¬ r.1 = e.1 := fun h => hk h.symm
        simp [this]

theorem lastResult_some_iff (rs : List (κ × υ)) (hnd : (rs.map (·.1)).Nodup) (k : κ) (r : κ × υ) :
    lastResult rs k = some r ↔ r ∈ rs ∧ r.1 = k := by
  constructor
  · intro h
    have h1 := List.mem_of_find?_eq_some h
    have h2 := List.find?_some h
    exact ⟨List.mem_reverse.mp h1, by simpa using h2⟩
  · rintro ⟨hm, hk⟩
    cases hf : lastResult rs k with
    | none =>
      have := List.find?_eq_none.mp hf r (List.mem_reverse.mpr hm)
      simp [hk] at this
    | some r' =>
      have h1 := List.mem_reverse.mp (List.mem_of_find?_eq_some hf)
      have h2 : r'.1 = k := by simpa using List.find?_some hf
      have := List.inj_on_of_nodup_map hnd h1 hm (h2.trans hk.symm)
      rw [this]

theorem lastResult_perm {rs₁ rs₂ : List (κ × υ)} (hp : rs₁.Perm rs₂)
    (hnd : (rs₁.map (·.1)).Nodup) (k : κ) : lastResult rs₁ k = lastResult rs₂ k := by
  have hnd₂ : (rs₂.map (·.1)).Nodup := (hp.map _).nodup_iff.mp hnd
  cases h1 : lastResult rs₁ k with
  | some r =>
    have := (lastResult_some_iff rs₁ hnd k r).mp h1
    exact ((lastResult_some_iff rs₂ hnd₂ k r).mpr ⟨hp.mem_iff.mp this.1, this.2⟩).symm
  | none =>
    cases h2 : lastResult rs₂ k with
    | none => rfl
    | some r =>
      have := (lastResult_some_iff rs₂ hnd₂ k r).mp h2
      have := (lastResult_some_iff rs₁ hnd k r).mpr ⟨hp.mem_iff.mpr this.1, this.2⟩
      rw [h1] at this
      exact absurd this (by simp)

/-- **Order of arrival is irrelevant.**  Storing any permutation of a list of results with distinct
keys into a cache that already holds those keys yields the *same cache* — the same association list,
values and key order — so `imap_unordered`'s completion order cannot influence anything computed
from the cache, including anything that iterates over it. -/
theorem cache_fill_perm (c : Cache κ υ) (rs₁ rs₂ : List (κ × υ)) (hp : rs₁.Perm rs₂)
    (hnd : (rs₁.map (·.1)).Nodup) (hin : ∀ r ∈ rs₁, r.1 ∈ c.map (·.1)) :
    fill c rs₁ = fill c rs₂ := by
  have hin₂ : ∀ r ∈ rs₂, r.1 ∈ c.map (·.1) := fun r hr => hin r (hp.mem_iff.mpr hr)
  rw [fill_eq_map rs₁ c hin, fill_eq_map rs₂ c hin₂]
  apply List.map_congr_left
  intro e _
  simp only [upd, lastResult_perm hp hnd e.1]

/-- **The stored value depends on the key only.**  When every worker result is `(k, lik k)` for a pure
function `lik`, the filled cache is determined by the *set* of keys that were processed — whatever
the order, and even if a key is processed more than once. -/
theorem cache_value_pure (lik : κ → υ) (c : Cache κ υ) (order : List κ)
    (hin : ∀ k ∈ order, k ∈ c.map (·.1)) :
    fill c (order.map (fun k => (k, lik k)))
      = c.map (fun e => if e.1 ∈ order then (e.1, some (lik e.1)) else e) := by
  rw [fill_eq_map _ c (by
    intro r hr
    obtain ⟨k, hk, rfl⟩ := List.mem_map.mp hr
    exact hin k hk)]
  apply List.map_congr_left
  intro e _
  simp only [upd, lastResult]
  cases hf : List.find? (fun x => decide (x.1 = e.1)) (order.map (fun k => (k, lik k))).reverse with
  | some r =>
    have h1 := List.mem_reverse.mp (List.mem_of_find?_eq_some hf)
    have h2 : r.1 = e.1 := by simpa using List.find?_some hf
    obtain ⟨k, hk, rfl⟩ := List.mem_map.mp h1
    simp only at h2
    subst h2
    simp [hk]
  | none =>
    have : e.1 ∉ order := by
      intro hmem
      have := List.find?_eq_none.mp hf (e.1, lik e.1)
        (List.mem_reverse.mpr (List.mem_map.mpr ⟨e.1, hmem, rfl⟩))
      simp at this
    simp [this]

/-- The real mechanism end to end: two completion orders that process the same keys give the same
cache. -/
theorem precalculate_order_irrelevant (lik : κ → υ) (edges : List (κ × Bool)) (o₁ o₂ : List κ)
    (h₁ : ∀ k ∈ o₁, k ∈ (initCache (υ := υ) edges).map (·.1))
    (hsame : ∀ k, k ∈ o₁ ↔ k ∈ o₂) :
    precalculate lik edges o₁ = precalculate lik edges o₂ := by
  unfold precalculate
  rw [cache_value_pure lik _ o₁ h₁, cache_value_pure lik _ o₂ (fun k hk => h₁ k ((hsame k).mpr hk))]
  apply List.map_congr_left
  intro e _
  simp only [hsame e.1]

/-- … and when every key has been processed no entry is left at `None`: each holds `lik key`. -/
theorem precalculate_complete (lik : κ → υ) (edges : List (κ × Bool)) (order : List κ)
    (h₁ : ∀ k ∈ order, k ∈ (initCache (υ := υ) edges).map (·.1))
    (hall : ∀ k ∈ (initCache (υ := υ) edges).map (·.1), k ∈ order) :
    ∀ e ∈ precalculate lik edges order, e.2 = some (lik e.1) := by
  unfold precalculate
  rw [cache_value_pure lik _ order h₁]
  intro e he
  obtain ⟨e0, he0, rfl⟩ := List.mem_map.mp he
  have : e0.1 ∈ order := hall e0.1 (List.mem_map.mpr ⟨e0, he0, rfl⟩)
  simp [this]

/-- **Regression counter-example**: gathering the values *positionally* (i-th value to arrive goes to
the i-th key) is order dependent. -/
theorem positional_gather_order_dependent :
    ∃ (edges : List (Nat × Bool)) (o₁ o₂ : List Nat), o₁.Perm o₂ ∧
      precalculatePositional (fun k => 10 * k) edges o₁ ≠ precalculatePositional (fun k => 10 * k) edges o₂ :=
  ⟨[(1, false), (2, false)], [1, 2], [2, 1], by decide, by decide⟩

end Cache

/-! ### The probability-space switch -/

section Force
variable {α : Type} [OfNat α 0]

/-- Forcing twice is forcing once. -/
theorem force_idem (isZero : α → Bool) (lg ex : α → α) (t : Space) (g : Grid α) :
    force isZero lg ex t (force isZero lg ex t g) = force isZero lg ex t g := by
  obtain ⟨s, d⟩ := g
  cases s <;> cases t <;> rfl

/-- After forcing, the grid is in the requested space — whatever space it was in (this is what
`BeliefPropagation.__init__` relies on when it is handed a prior object left in the other space by a
previous run). -/
theorem force_space (isZero : α → Bool) (lg ex : α → α) (t : Space) (g : Grid α) :
    (force isZero lg ex t g).space = t := by
  obtain ⟨s, d⟩ := g
  cases s <;> cases t <;> rfl

/-- Forcing a space the grid is already in does nothing (the second and later calls with the same
`probability_space` do not touch the user's prior object). -/
theorem force_same (isZero : α → Bool) (lg ex : α → α) (g : Grid α) :
    force isZero lg ex g.space g = g := by
  obtain ⟨s, d⟩ := g
  cases s <;> rfl

/-- **LIN → LOG → LIN gives the data back**, for every grid of linear-space values (all present;
zeros allowed: `0 ↦ -inf ↦ 0`) and every `lg`/`ex` with `ex (lg x) = x` on the non-zero entries. -/
theorem force_roundtrip (isZero : α → Bool) (hz : ∀ x, isZero x = true ↔ x = 0) (lg ex : α → α)
    (g : Grid α) (hs : g.space = .lin) (hd : ∀ v ∈ g.data, ∃ x, v = some x)
    (hinv : ∀ x, some x ∈ g.data → x ≠ 0 → ex (lg x) = x) :
    force isZero lg ex .lin (force isZero lg ex .log g) = g := by
  obtain ⟨s, d⟩ := g
  simp only at hs
  subst hs
  simp only [force, List.map_map]
  congr 1
  conv_rhs => rw [← List.map_id d]
  apply List.map_congr_left
  intro v hv
  obtain ⟨x, rfl⟩ := hd v hv
  simp only [Function.comp, toLog, id]
  by_cases hx : x = 0
  · subst hx
    have hz0 : isZero (0 : α) = true := (hz 0).mpr rfl
    simp [hz0, toLin]
  · have : isZero x = false := by
      cases h : isZero x with
      | false => rfl
      | true => exact absurd ((hz x).mp h) hx
    simp [this, toLin, hinv x hv hx]

/-- LOG → LIN → LOG likewise, when `lg (ex y) = y` and `ex y ≠ 0` on the finite entries. -/
theorem force_roundtrip_log (isZero : α → Bool) (hz : ∀ x, isZero x = true ↔ x = 0) (lg ex : α → α)
    (g : Grid α) (hs : g.space = .log)
    (hinv : ∀ y, some y ∈ g.data → lg (ex y) = y ∧ ex y ≠ 0) :
    force isZero lg ex .log (force isZero lg ex .lin g) = g := by
  obtain ⟨s, d⟩ := g
  simp only at hs
  subst hs
  simp only [force, List.map_map]
  congr 1
  conv_rhs => rw [← List.map_id d]
  apply List.map_congr_left
  intro v hv
  cases v with
  | none =>
    have : isZero (0 : α) = true := (hz 0).mpr rfl
    simp [toLin, toLog, this]
  | some y =>
    obtain ⟨h1, h2⟩ := hinv y hv
    have : isZero (ex y) = false := by
      cases h : isZero (ex y) with
      | false => rfl
      | true => exact absurd ((hz _).mp h) h2
    simp [toLin, toLog, h1, this]

end Force

/-! ### Non-vacuity -/

example : precalculate (fun k => 10 * k) [(1, false), (2, false), (3, true), (2, false)] [2, 1]
    = [(1, some 10), (2, some 20)] := by decide
example : precalculate (fun k => 10 * k) [(1, false), (2, false), (3, true), (2, false)] [1, 2]
    = [(1, some 10), (2, some 20)] := by decide
/-- a `lg`/`ex` pair on `Int` with `ex (lg x) = x` (negation), zero handled by the `none` convention -/
example : force (· == 0) (fun x : Int => -x) (fun y => -y) .lin
    (force (· == 0) (fun x : Int => -x) (fun y => -y) .log ⟨.lin, [some 3, some 0, some 5]⟩)
    = ⟨.lin, [some 3, some 0, some 5]⟩ := by decide

end Tsdate.C09
