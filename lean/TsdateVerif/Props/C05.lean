/-
C05 — variational posteriors are proper, precision-capped gamma distributions
(model: `Model/EP.lean` of `tsdate/variational.py` — `_damp`, `_rescale`, `propagate_likelihood`,
`propagate_prior`, `iterate`, `node_moments`, the phase flip at the end of `infer` — plus the decision logic of
`approx.approximate_gamma_mom` / `approximate_gamma_iqr` and of the reprojection in
`rescaling.piecewise_scale_posterior`).

What is proved (exact arithmetic, all inputs, any projection functions):
* `rescale_range`, `damp_range`: what `_rescale` / `_damp` guarantee under their own asserts.
* `posterior_inv`: every stored node posterior is `(0,0)` (never updated) or proper with shape in
  `[1/max_shape, max_shape]`, after every update / iteration, **unless the real code raises an AssertionError**
  (`iterateNOk`: the asserts of `_damp`, `_rescale`, `propagate_prior` as Boolean conditions of the run).
* `likelihood_update_never_asserts` (one update) and `likelihood_sweeps_never_assert` / `C05_nodes_valid_or_skip` /
  `C05_nodes_current_source` (whole un-regularised runs): with valid-or-skip projections — in particular with the
  projection kernels regenerated from the current source — no assert of `_damp`/`_rescale` can fire.
* outputs: mean/variance of a proper posterior are positive with `mean²/variance = shape ≤ max_shape`;
  `approximate_gamma_mom` output is proper; phase flip lands in `[1/2, 1]`; IQR reprojection is capped.

What is NOT proved (kept as `C05_statement`): that every non-sample node *receives* a valid update — a node whose
every update is skipped keeps `(0,0)`, which is improper (mean `1/0`); that `propagate_prior`'s asserts (penalty > 0,
proper regularised posterior: its cavity is not damped) cannot fire — so with `regularise_roots=True` the invariant
stays conditional on "no AssertionError"; finiteness in floating point (overflow is not modelled).
-/
import TsdateVerif.Proofs.EPProper
import TsdateVerif.Proofs.EPGen
import TsdateVerif.Proofs.EPGenVOS

namespace Tsdate.C05
open Tsdate Tsdate.EP
set_option linter.unusedSectionVars false

variable {α : Type} [Inhabited α] [Field α] [LinearOrder α] [IsStrictOrderedRing α]

/-- **`_rescale`** (for `max_shape = s > 1`, under its own asserts `0 < x[0]+1`, `0 < x[1]`): the returned `η`
is in `(0, 1]`, the rescaled posterior `η·x` has shape `1 + η·x[0]` in `[1/s, s]` and a positive rate. -/
theorem rescale_range (x : α × α) (s : α) (hs : 1 < s) (hx0 : 0 < x.1 + 1) (hx1 : 0 < x.2) :
    0 < rescale x s ∧ rescale x s ≤ 1 ∧ 1 / s ≤ 1 + rescale x s * x.1 ∧ 1 + rescale x s * x.1 ≤ s ∧
      0 < rescale x s * x.2 :=
  EP.rescale_range x s hs hx0 hx1

/-- `rescale_range` for the kernel **regenerated from the current source** (`Gen/Kernels._rescale`, rewritten by
the translator on every run), under the regenerated assert predicate `pre__rescale` for a non-zero argument. -/
theorem rescale_range_generated (F : Tsdate.Kernels.SpecFns α) (x : α × α) (s : α) (hs : 1 < s)
    (hx : x ≠ 0) (hpre : Tsdate.Gen.Kernels.pre__rescale F x s = true) :
    0 < Tsdate.Gen.Kernels._rescale F x s ∧ Tsdate.Gen.Kernels._rescale F x s ≤ 1 ∧
      1 / s ≤ 1 + Tsdate.Gen.Kernels._rescale F x s * x.1 ∧ 1 + Tsdate.Gen.Kernels._rescale F x s * x.1 ≤ s ∧
      0 < Tsdate.Gen.Kernels._rescale F x s * x.2 := by
  rw [gen_pre_rescale_eq, rescaleOk_iff] at hpre
  rw [gen_rescale_eq]
  rcases hpre with h0 | hp
  · exact absurd h0 hx
  · exact EP.rescale_range x s hs hp.1 hp.2

/-- `damp_range` for the regenerated `_damp`: whenever its regenerated assert predicate `pre__damp` holds on a
non-zero posterior, the step is in `(0,1]` and the cavity keeps the fraction `s` of shape and rate. -/
theorem damp_range_generated (F : Tsdate.Kernels.SpecFns α) (x y : α × α) (s : α) (hx : x ≠ 0)
    (hpre : Tsdate.Gen.Kernels.pre__damp F x y s = true) :
    0 < Tsdate.Gen.Kernels._damp F x y s ∧ Tsdate.Gen.Kernels._damp F x y s ≤ 1 ∧
      (x.1 + 1) * s ≤ x.1 + 1 - Tsdate.Gen.Kernels._damp F x y s * y.1 ∧
      x.2 * s ≤ x.2 - Tsdate.Gen.Kernels._damp F x y s * y.2 := by
  rw [gen_pre_damp_eq] at hpre
  rw [gen_damp_eq]
  unfold dampOk at hpre
  rw [Bool.or_eq_true] at hpre
  rcases hpre with h | h
  · rw [Bool.and_eq_true] at h
    exact absurd ((pIsZero_iff x).1 h.2) hx
  · simp only [Bool.and_eq_true, decide_eq_true_iff] at h
    exact EP.damp_range x y s h.1.1.1.1.1 h.1.1.1.1.2 h.1.1.1.2 h.1.1.2

/-- The regenerated `approximate_gamma_mom` returns a proper gamma with exactly the requested moments. -/
theorem gamma_mom_exact_generated (F : Tsdate.Kernels.SpecFns α) (mn va : α) (hm : 0 < mn) (hv : 0 < va) :
    Proper (Tsdate.Gen.Kernels.approximate_gamma_mom F mn va) ∧
      momentsOf (Tsdate.Gen.Kernels.approximate_gamma_mom F mn va) = (mn, va) := by
  rw [gen_gamma_mom_eq]; exact gammaMom_proper mn va hm hv

/-- When the shape exceeds the cap the stored shape is exactly `max_shape` (the cap is met, not just respected). -/
theorem rescale_caps_exactly (x : α × α) (s : α) (hs : 1 < s) (h : s < 1 + x.1) :
    (scalePost x (rescale x s)).1 + 1 = s :=
  EP.rescale_caps_exactly x s hs h

/-- **`_damp`** (under its asserts `0 < s < 1`, `0 < x[0]+1`, `0 < x[1]`): the step `d` is in `(0, 1]` and the
cavity `x − d·y` keeps at least the fraction `s` of the shape and of the rate — in particular it is proper. -/
theorem damp_range (x y : α × α) (s : α) (hs0 : 0 < s) (hs1 : s < 1) (hx0 : 0 < x.1 + 1) (hx1 : 0 < x.2) :
    0 < damp x y s ∧ damp x y s ≤ 1 ∧
      (x.1 + 1) * s ≤ x.1 + 1 - damp x y s * y.1 ∧ x.2 * s ≤ x.2 - damp x y s * y.2 :=
  EP.damp_range x y s hs0 hs1 hx0 hx1

/-- One write `posterior[n] = proj * _rescale(proj)`: the stored value is zero or proper-and-capped as soon as
`_rescale`'s asserts pass — whatever the projection returned. -/
theorem stored_posterior_ok (proj : α × α) (maxShape : α) (hs : 1 < maxShape) (h : rescaleOk proj = true) :
    PostOK maxShape (scalePost proj (rescale proj maxShape)) :=
  postOK_of_rescaleOk proj maxShape hs h

/-- **Invariant of the EP loop** (`posterior_inv`): one `iterate` keeps every stored posterior `(0,0)` or proper
with shape in `[1/max_shape, max_shape]` — for any projection functions, phased or unphased, with or without
regularisation — provided no assert of the real code fires during it. -/
theorem posterior_inv (proj : Req α → Res α) (cfg : Cfg α) (net : Net α) (sch : Sched α) (N : Nat)
    (s : State α) (hsz : s.post.size = N) (hok : SchedOK net sch N) (hs : 1 < cfg.maxShape)
    (h : AllPostOK cfg s N) (hrun : iterateOk proj cfg net sch s = true) :
    AllPostOK cfg (iterate proj cfg net sch s) N :=
  (iterate_postOK proj cfg net sch N s hsz hok hs h hrun).1

/-- **C05, node clause (partial).**  After any number of EP iterations that the real code completes without an
`AssertionError`, every node's stored natural parameters are `(0, 0)` (never updated) or those of a proper gamma
whose shape is at most `max_shape` (and at least `1/max_shape`). -/
theorem C05_nodes_partial (proj : Req α → Res α) (cfg : Cfg α) (net : Net α) (sch : Sched α) (N : Nat)
    (hok : SchedOK net sch N) (hs : 1 < cfg.maxShape) (k : Nat)
    (hrun : iterateNOk proj cfg net sch k (initState N net.ep.size net.bj.size) = true) (n : Nat) (hn : n < N) :
    PostOK cfg.maxShape (aget (iterateN proj cfg net sch k (initState N net.ep.size net.bj.size)).post n) :=
  iterateN_postOK proj cfg net sch N k _ (by simp [initState]) hok hs (init_postOK cfg N _ _) hrun n hn

/-- What `fit.node_posteriors()` reports for a proper stored posterior: positive mean and variance, and
`mean²/variance` is the shape, hence at most `max_shape`. -/
theorem node_moments_proper (x : α × α) (maxShape : α) (h : PostOK maxShape x) (hne : x ≠ 0) :
    0 < (momentsOf x).1 ∧ 0 < (momentsOf x).2 ∧
      (momentsOf x).1 * (momentsOf x).1 / (momentsOf x).2 ≤ maxShape := by
  rcases h with h0 | ⟨hp, hcap, _⟩
  · exact absurd h0 hne
  · obtain ⟨h1, h2, h3⟩ := momentsOf_proper x hp
    exact ⟨h1, h2, by rw [h3]; exact hcap⟩

/-- **The asserts of one likelihood update cannot fire** when the posterior is proper (or posterior and message
are both still zero) and the projection is valid-or-skip (returns the cavity, or a proper gamma):
`_damp`'s asserts hold, the cavity is proper, and the value handed to `_rescale` passes its asserts. -/
theorem likelihood_update_never_asserts (x y r : α × α) (minStep : α) (hs0 : 0 < minStep) (hs1 : minStep < 1)
    (h : (x = 0 ∧ y = 0) ∨ Proper x) (hr : r = cavity x y (damp x y minStep) ∨ Proper r) :
    dampOk x y minStep = true ∧ rescaleOk r = true ∧ (Proper x → Proper (cavity x y (damp x y minStep))) :=
  ⟨dampOk_of_proper x y minStep hs0 hs1 h, valid_or_skip_passes x y r minStep hs0 hs1 h hr,
   cavity_proper x y minStep hs0 hs1⟩

/-- **`propagate_likelihood` never trips an assert** when the projections are valid-or-skip (`VOS`: every updated
end gets back its cavity or a proper gamma), from any state satisfying the invariant `Good` (stored posteriors
zero-or-proper-and-capped, and a still-zero node has only zero messages addressed to it) — and keeps `Good`. -/
theorem likelihood_sweeps_never_assert (proj : Req α → Res α) (hvos : VOS proj) (cfg : Cfg α) (net : Net α)
    (N : Nat) (unphased : Bool) (order : List Nat) (s : State α) (hg : Good cfg net s N) (hnet : NetOK net N)
    (hord : ∀ i ∈ order, i < (parOf unphased net).size) (hs0 : 0 < cfg.minStep) (hs1 : cfg.minStep < 1)
    (hms : 1 < cfg.maxShape) :
    sweepOk proj cfg net unphased order s = true ∧ Good cfg net (sweep proj cfg net unphased order s) N :=
  sweep_good proj hvos cfg net N unphased order s hg hnet hord hs0 hs1 hms

/-- **C05 node clause without the escape clause, for un-regularised runs**: with valid-or-skip projections, any
input, any orders, any number of iterations, `regularise = false`: the real code's asserts never fire and every
stored posterior is `(0,0)` or proper with shape in `[1/max_shape, max_shape]`. -/
theorem C05_nodes_valid_or_skip (proj : Req α → Res α) (hvos : VOS proj) (cfg : Cfg α) (net : Net α)
    (sch : Sched α) (N : Nat) (hok : SchedOK net sch N) (hreg : sch.regularise = false)
    (hs0 : 0 < cfg.minStep) (hs1 : cfg.minStep < 1) (hms : 1 < cfg.maxShape) (k : Nat) :
    iterateNOk proj cfg net sch k (initState N net.ep.size net.bj.size) = true ∧
      ∀ n, n < N →
        PostOK cfg.maxShape (aget (iterateN proj cfg net sch k (initState N net.ep.size net.bj.size)).post n) := by
  obtain ⟨h1, h2⟩ := iterateN_good proj hvos cfg net sch N k _ (init_good cfg net N) hok hreg hs0 hs1 hms
  exact ⟨h1, h2.ok⟩

/-- The same **for the projection kernels of the current source**: `genProj F` dispatches to the wrappers
regenerated from `tsdate/approx.py` (`Gen/Kernels.lean`), which are valid-or-skip for every interpretation `F` of
the special functions (kernels cluster, `Props/C18`). -/
theorem C05_nodes_current_source (F : Tsdate.Kernels.SpecFns α) (cfg : Cfg α) (net : Net α) (sch : Sched α)
    (N : Nat) (hok : SchedOK net sch N) (hreg : sch.regularise = false)
    (hs0 : 0 < cfg.minStep) (hs1 : cfg.minStep < 1) (hms : 1 < cfg.maxShape) (k : Nat) :
    iterateNOk (genProj F) cfg net sch k (initState N net.ep.size net.bj.size) = true ∧
      ∀ n, n < N →
        PostOK cfg.maxShape
          (aget (iterateN (genProj F) cfg net sch k (initState N net.ep.size net.bj.size)).post n) :=
  C05_nodes_valid_or_skip (genProj F) (genProj_vos F) cfg net sch N hok hreg hs0 hs1 hms k

/-- Mutation posteriors: the tail of every projection wrapper (`_valid_moments` then `approximate_gamma_mom`)
returns either the skip or a proper gamma whose mean and variance are the (positive) moments it was given. -/
theorem mutation_posterior_proper (m : Option (α × α)) (r : α × α) (h : wrapTail m = some r) :
    Proper r ∧ 0 < (momentsOf r).1 ∧ 0 < (momentsOf r).2 := by
  have hp := wrapTail_proper m r h
  exact ⟨hp, (momentsOf_proper r hp).1, (momentsOf_proper r hp).2.1⟩

theorem gamma_mom_exact (mn va : α) (hm : 0 < mn) (hv : 0 < va) :
    Proper (gammaMom mn va) ∧ momentsOf (gammaMom mn va) = (mn, va) :=
  gammaMom_proper mn va hm hv

/-- **Phase flip**: a defined phase probability in `[0,1]` (what the unphased projections return when they do not
skip; 1 for phased mutations) lies in `[1/2, 1]` after the flip at the end of `infer`; a skipped one stays
undefined. -/
theorem phase_flip_range (x y : α) (h0 : 0 ≤ x) (h1 : x ≤ 1) (h : flipPhase (some x) = some y) :
    1 / 2 ≤ y ∧ y ≤ 1 :=
  flipPhase_range x y h0 h1 h

theorem phase_flip_undefined : flipPhase (none : Option α) = none := rfl

/-- **IQR cap**: the reprojection of `piecewise_scale_posterior` returns shape in `(0, max_shape]` and, for a
positive rescaled mean, a positive rate — for any `gammainc_inv` and any outcome of the Newton iteration. -/
theorem iqr_cap (q1 q2 x1 x2 maxShape alpha0 : α) (newton : Option α) (ginv : α → α → α) (midpt : α)
    (hms : 0 < maxShape) (r : α × α)
    (h : reproject q1 q2 x1 x2 maxShape alpha0 newton ginv midpt = some r) :
    0 < r.1 + 1 ∧ r.1 + 1 ≤ maxShape ∧ (0 < midpt → 0 < r.2) :=
  reproject_capped q1 q2 x1 x2 maxShape alpha0 newton ginv midpt hms r h

/-- The full node clause of C05 as a statement about the model: after `k ≥ 1` completed iterations every
non-fixed node that has at least one edge is *proper* (not merely zero-or-proper).  This is NOT proved: it needs
that some update of every such node is not skipped, which depends on the projections (the Laplace approximations
of `tsdate/approx.py`), not on the bookkeeping. -/
def C05_statement : Prop :=
  ∀ (proj : Req Rat → Res Rat) (cfg : Cfg Rat) (net : Net Rat) (sch : Sched Rat) (N k : Nat),
    SchedOK net sch N → 1 < cfg.maxShape →
    iterateNOk proj cfg net sch (k + 1) (initState N net.ep.size net.bj.size) = true →
    ∀ n, n < N → aget net.fixed n = false →
      Proper (aget (iterateN proj cfg net sch (k + 1) (initState N net.ep.size net.bj.size)).post n) ∧
        (aget (iterateN proj cfg net sch (k + 1) (initState N net.ep.size net.bj.size)).post n).1 + 1
          ≤ cfg.maxShape

/-- The conjunction that *is* proved (see the individual theorems for readings). -/
theorem C05_partial (proj : Req α → Res α) (cfg : Cfg α) (net : Net α) (sch : Sched α) (N : Nat)
    (hok : SchedOK net sch N) (hs : 1 < cfg.maxShape) (k : Nat)
    (hrun : iterateNOk proj cfg net sch k (initState N net.ep.size net.bj.size) = true) :
    (∀ n, n < N →
      PostOK cfg.maxShape (aget (iterateN proj cfg net sch k (initState N net.ep.size net.bj.size)).post n)) ∧
    (∀ x : α × α, PostOK cfg.maxShape x → x ≠ 0 →
      0 < (momentsOf x).1 ∧ 0 < (momentsOf x).2 ∧
        (momentsOf x).1 * (momentsOf x).1 / (momentsOf x).2 ≤ cfg.maxShape) ∧
    (∀ (m : Option (α × α)) (r : α × α), wrapTail m = some r → 0 < (momentsOf r).1 ∧ 0 < (momentsOf r).2) ∧
    (∀ x y : α, 0 ≤ x → x ≤ 1 → flipPhase (some x) = some y → 1 / 2 ≤ y ∧ y ≤ 1) :=
  ⟨fun n hn => C05_nodes_partial proj cfg net sch N hok hs k hrun n hn,
   fun x hx hne => node_moments_proper x cfg.maxShape hx hne,
   fun m r h => (mutation_posterior_proper m r h).2,
   fun x y h0 h1 h => phase_flip_range x y h0 h1 h⟩

/-! Non-vacuity.  (1) the C21 example run passes every assert and ends proper and capped;
(2) the partial theorem really is partial: with a projection that always skips, the run completes without any
assert and every node keeps the improper `(0, 0)`. -/
section Example

def exNet : Net Rat :=
  { fixed := #[true, true, true, false, false], lower := #[0, 0, 0, 0, 0],
    ep := #[3, 3, 4, 4], ec := #[0, 1, 2, 3], bj := #[], bk := #[],
    elik := #[(2, 1), (0, 1), (3, 2), (1, 1)], blik := #[] }

def exSched : Sched Rat :=
  { blockOrder := [], edgeOrder := [0, 1, 2, 3, 2, 1, 0], regularise := true,
    free := #[false, false, false, false, true], cnt := 1, reltol := 1 / 100000000, maxitt := 10 }

def exCfg : Cfg Rat := { maxShape := 3, minStep := 1 / 10, tiny := 1 / 1000000 }

def exProj (rq : Req Rat) : Res Rat := ⟨padd rq.cavP rq.lik, padd rq.cavC rq.lik⟩
def skipProj (rq : Req Rat) : Res Rat := ⟨rq.cavP, rq.cavC⟩

example : iterateNOk exProj exCfg exNet exSched 2 (initState 5 4 0) = true := by decide +kernel

example :
    let x := aget (iterateN exProj exCfg exNet exSched 2 (initState 5 4 0)).post 3
    x ≠ 0 ∧ 0 < x.1 + 1 ∧ 0 < x.2 ∧ x.1 + 1 ≤ 3 := by decide +kernel

example : iterateNOk skipProj exCfg exNet { exSched with regularise := false } 2 (initState 5 4 0) = true ∧
    aget (iterateN skipProj exCfg exNet { exSched with regularise := false } 2 (initState 5 4 0)).post 3
      = (0, 0) := by decide +kernel

end Example

end Tsdate.C05
