/-
C26 — changepoint helpers meet their specification
(models: `_fixed_changepoints`, `_poisson_changepoints`, tsdate/rescaling.py; `Model/Changepoints.lean`).

Clause 1 (`_fixed_changepoints`) is proved of the model in exact arithmetic.  Clause 2 (the PELT helper
returns an optimal segmentation) is **false of the code**: `pelt_counterexample` proves the negation on the
model for a concrete input with minimum constraints (finding F6); what *is* true is proved instead —
the un-pruned recursion is optimal for every loss (`dp_optimal`) and the pruning step is sound whenever
the loss is superadditive (`pelt_sound_of_superadditive`), which minimum constraints destroy.
-/
import Mathlib.Algebra.Order.Monoid.WithTop
import Mathlib.Algebra.Order.Ring.Rat
import TsdateVerif.Proofs.Changepoints
import TsdateVerif.Proofs.FixedCp
import TsdateVerif.Proofs.Pelt
import TsdateVerif.Proofs.PoissonLoss
import TsdateVerif.Proofs.LogSumReal

namespace Tsdate.C26
open Tsdate.Changepoints
set_option linter.unusedSectionVars false

/-! ### `_fixed_changepoints` -/
section Fixed
variable {α : Type} [Inhabited α] [Field α] [LinearOrder α] [IsStrictOrderedRing α]

/-- the result has `epochs + 1` entries and entry `k` is `fixedAt … k` -/
theorem fixed_cp_entries (counts : List α) (epochs : Nat) :
    (fixedChangepoints (fun n : Nat => (n : α)) counts epochs).length = epochs + 1 ∧
    ∀ k (h : k < (fixedChangepoints (fun n : Nat => (n : α)) counts epochs).length),
      (fixedChangepoints (fun n : Nat => (n : α)) counts epochs)[k]
        = fixedAt (fun n : Nat => (n : α)) counts epochs k := by
  constructor
  · simp [fixedChangepoints]
  · intro k h
    simp [fixedChangepoints]

/-- **`_fixed_changepoints` meets its specification** (cross-multiplied form, as the code computes it since
fix 412a87a).  For non-negative counts and `epochs > 0` (`fixedPre`), with `Y = append(0, cumsum(counts))`
and `n = len(counts)`: the first boundary is 0, the last is `n`; every interior boundary `k` is *the last
index* `i ≤ n` with `Y[i] * epochs ≤ k * Y[n]` (and every later index is strictly above); the boundaries
are non-decreasing in `k`.  No rounding of `k/epochs` is involved, so for integer-valued masses the exact
ties are decided exactly also in floating point. -/
theorem fixed_cp_spec (counts : List α) (epochs : Nat) (hpre : fixedPre counts epochs = true) :
    fixedAt (fun n : Nat => (n : α)) counts epochs 0 = 0 ∧
    fixedAt (fun n : Nat => (n : α)) counts epochs epochs = counts.length ∧
    (∀ k, 0 < k → k < epochs →
      fixedAt (fun n : Nat => (n : α)) counts epochs k ≤ counts.length ∧
      lget (prefixFrom 0 counts) (fixedAt (fun n : Nat => (n : α)) counts epochs k) * (epochs : α)
        ≤ (k : α) * lget (prefixFrom 0 counts) counts.length ∧
      ∀ i', fixedAt (fun n : Nat => (n : α)) counts epochs k < i' → i' ≤ counts.length →
        (k : α) * lget (prefixFrom 0 counts) counts.length < lget (prefixFrom 0 counts) i' * (epochs : α)) ∧
    (∀ k k', k ≤ k' → k' ≤ epochs →
      fixedAt (fun n : Nat => (n : α)) counts epochs k
        ≤ fixedAt (fun n : Nat => (n : α)) counts epochs k') := by
  obtain ⟨he, hc⟩ := (fixedPre_iff counts epochs).mp hpre
  have hne : epochs ≠ 0 := Nat.pos_iff_ne_zero.mp he
  have hraw : ∀ k, let i := fixedRaw (fun n : Nat => (n : α)) counts epochs k
      i ≤ counts.length ∧
      lget (scaledSums (fun n : Nat => (n : α)) counts epochs) i ≤ target (fun n : Nat => (n : α)) counts k ∧
      ∀ i', i < i' → i' ≤ counts.length →
        target (fun n : Nat => (n : α)) counts k < lget (scaledSums (fun n : Nat => (n : α)) counts epochs) i' :=
    fun k => fixedRaw_last counts epochs _ (target_nonneg counts hc k) hc
  have hlast : fixedAt (fun n : Nat => (n : α)) counts epochs epochs = counts.length := by
    have hcount : searchRight (scaledSums (fun n : Nat => (n : α)) counts epochs)
        (target (fun n : Nat => (n : α)) counts epochs) = counts.length + 1 := by
      unfold searchRight
      rw [← scaledSums_length counts epochs, List.countP_eq_length]
      intro y hy
      simpa using scaledSums_le_last counts epochs hc y hy
    simp [fixedAt, fixedRaw, hne, hcount]
  have hinner : ∀ k, 0 < k → k < epochs →
      fixedAt (fun n : Nat => (n : α)) counts epochs k
        = fixedRaw (fun n : Nat => (n : α)) counts epochs k := by
    intro k h0 hk
    simp [fixedAt, Nat.pos_iff_ne_zero.mp h0, Nat.ne_of_lt hk]
  have hle : ∀ k, k ≤ epochs → fixedAt (fun n : Nat => (n : α)) counts epochs k ≤ counts.length := by
    intro k hk
    rcases Nat.eq_zero_or_pos k with h0 | h0
    · subst h0; simp [fixedAt]
    · rcases Nat.lt_or_ge k epochs with h1 | h1
      · rw [hinner k h0 h1]; exact (hraw k).1
      · have : k = epochs := by omega
        subst this; rw [hlast]
  refine ⟨by simp [fixedAt], hlast, ?_, ?_⟩
  · intro k h0 hk
    rw [hinner k h0 hk]
    obtain ⟨r1, r2, r3⟩ := hraw k
    refine ⟨r1, ?_, ?_⟩
    · rw [scaledSums_get counts epochs _ r1] at r2
      exact r2
    · intro i' hi hi'
      have := r3 i' hi hi'
      rw [scaledSums_get counts epochs _ hi'] at this
      exact this
  · intro k k' hkk' hk'
    rcases Nat.eq_zero_or_pos k with h0 | h0
    · subst h0; simp [fixedAt]
    · rcases Nat.lt_or_ge k' epochs with h1 | h1
      · rw [hinner k h0 (by omega), hinner k' (by omega) h1]
        unfold fixedRaw searchRight
        exact Nat.sub_le_sub_right (count_mono _ _ _ (target_mono counts hc k k' hkk')) 1
      · have : k' = epochs := by omega
        subst this
        rw [hlast]; exact hle k hkk'

/-- the same in the form of the statement: with a positive total, `Y[i] * epochs ≤ k * Y[n]` is
`Y[i] / Y[n] ≤ k / epochs` (cumulative mass fraction at most `k/epochs`) -/
theorem cross_multiplied_iff (y T : α) (k epochs : Nat) (hT : 0 < T) (he : 0 < epochs) :
    y * (epochs : α) ≤ (k : α) * T ↔ y / T ≤ (k : α) / (epochs : α) := by
  have he' : (0 : α) < (epochs : α) := by exact_mod_cast he
  rw [div_le_div_iff₀ hT he']

end Fixed

/-! ### `_poisson_changepoints` -/
section DP
variable {κ : Type} [Inhabited κ] [AddCommMonoid κ] [LinearOrder κ] [IsOrderedAddMonoid κ]

/-- **The un-pruned optimal-partitioning recursion is optimal**, for *every* segment loss `f`, penalty,
start value and length: it returns a valid segmentation `0 = s₀ < … < s_k = n` whose cost
`F0 + Σ (f(s_r, s_{r+1}) + penalty)` is at most that of every other segmentation of `0..n`.
(`top` is any element above every cost — `inf` in the code.) -/
theorem dp_optimal (f : Nat → Nat → κ) (pen top F0 : κ) (htop : ∀ x : κ, x ≤ top) (n : Nat) :
    ∃ seg, Changepoints.segment false f F0 pen top n = some seg ∧ IsSeg n seg ∧
      ∀ seg', IsSeg n seg' → segCost f pen F0 seg ≤ segCost f pen F0 seg' := by
  obtain ⟨s, e, h, l⟩ := dpInv_iter f pen top F0 htop n (init F0) (dpInv_init f pen F0)
  have hn : n < s.F.length := by rw [l]; simp [init]
  obtain ⟨a1, a2⟩ := h.attain n hn
  refine ⟨lget s.P n ++ [n], by simp [Changepoints.segment, e], a1, ?_⟩
  intro seg' hseg'
  rw [a2]
  exact h.lower n hn seg' hseg'

/-- **PELT pruning is sound for superadditive losses**: if splitting a segment never increases the loss
(`f i j + f j t ≤ f i t` for `i < j < t ≤ n`) — true of the Poisson deviance without minimum
constraints, false with them — the penalty is non-negative (asserted by the code) and every prefix
taken as one segment has a finite cost, then the code's pruned recursion does not raise `KeyError`
and returns a segmentation of minimum cost. -/
theorem pelt_sound_of_superadditive (f : Nat → Nat → κ) (pen top F0 : κ) (hpen : 0 ≤ pen)
    (n : Nat) (hsup : ∀ i j t, i < j → j < t → t ≤ n → f i j + f j t ≤ f i t)
    (hfin : ∀ t, 0 < t → t ≤ n → F0 + f 0 t + pen < top) :
    ∃ seg, Changepoints.segment true f F0 pen top n = some seg ∧ IsSeg n seg ∧
      ∀ seg', IsSeg n seg' → segCost f pen F0 seg ≤ segCost f pen F0 seg' :=
  pelt_optimal f pen top F0 hpen n hsup hfin

end DP

/-! ### the Poisson deviance of the code, without minimum constraints -/
section Poisson
variable {α : Type} [Inhabited α] [Field α] [LinearOrder α] [IsStrictOrderedRing α]

/-- **Clause 2 holds where it can: without minimum constraints and with positive counts and offsets the
code's pruned recursion returns a segmentation of minimum penalised Poisson deviance**, for every
`log` satisfying the log-sum inequality (`LogSum lg`, true of the real logarithm), every penalty `≥ 0`
and every length.  (`plainLoss` is `poissonLoss` with `min_counts = min_offset = 0` valued in
`WithTop α`; `F[0] = -penalty`.) -/
theorem pelt_optimal_unconstrained (lg : α → α) (hlg : LogSum lg) (counts offs : List α)
    (hc : ∀ x ∈ counts, 0 < x) (ho : ∀ x ∈ offs, 0 < x) (hlen : counts.length = offs.length)
    (pen : α) (hpen : 0 ≤ pen) :
    ∃ seg, Changepoints.segment true (plainLoss lg counts offs) ((-pen : α) : WithTop α) ((pen : α) : WithTop α) ⊤
        counts.length = some seg ∧ IsSeg counts.length seg ∧
      ∀ seg', IsSeg counts.length seg' →
        segCost (plainLoss lg counts offs) ((pen : α) : WithTop α) ((-pen : α) : WithTop α) seg ≤
        segCost (plainLoss lg counts offs) ((pen : α) : WithTop α) ((-pen : α) : WithTop α) seg' :=
  pelt_sound_of_superadditive (plainLoss lg counts offs) _ ⊤ _ (by exact_mod_cast hpen) counts.length
    (fun i j t hij hjt ht => plainLoss_superadditive lg hlg counts offs hc ho hlen i j t hij hjt ht)
    (fun t h0 ht => plainLoss_lt_top lg counts offs hc ho hlen pen t h0 ht)

end Poisson

/-- **With the real logarithm** (no hypothesis left on `log`): for positive real counts and offsets, no minimum
constraints and penalty `≥ 0`, the model of `_poisson_changepoints` returns a segmentation minimising the
penalised Poisson deviance among all segmentations. -/
theorem pelt_optimal_unconstrained_real (counts offs : List ℝ)
    (hc : ∀ x ∈ counts, 0 < x) (ho : ∀ x ∈ offs, 0 < x) (hlen : counts.length = offs.length)
    (pen : ℝ) (hpen : 0 ≤ pen) :
    ∃ seg, Changepoints.segment true (plainLoss Real.log counts offs) ((-pen : ℝ) : WithTop ℝ) ((pen : ℝ) : WithTop ℝ) ⊤
        counts.length = some seg ∧ IsSeg counts.length seg ∧
      ∀ seg', IsSeg counts.length seg' →
        segCost (plainLoss Real.log counts offs) ((pen : ℝ) : WithTop ℝ) ((-pen : ℝ) : WithTop ℝ) seg ≤
        segCost (plainLoss Real.log counts offs) ((pen : ℝ) : WithTop ℝ) ((-pen : ℝ) : WithTop ℝ) seg' :=
  pelt_optimal_unconstrained Real.log logSum_real counts offs hc ho hlen pen hpen

/-! ### Finding F6 on the model -/

/-- natural logarithms to six decimals at the segment sums occurring in the witness -/
def lgTable (x : Rat) : Rat :=
  if x = 4 then 1386294 / 1000000 else if x = 5 then 1609438 / 1000000
  else if x = 6 then 1791759 / 1000000 else if x = 8 then 2079442 / 1000000
  else if x = 9 then 2197225 / 1000000 else if x = 10 then 2302585 / 1000000
  else if x = 11 then 2397895 / 1000000 else if x = 14 then 2639057 / 1000000
  else if x = 16 then 2772589 / 1000000 else 0

/-- the code's loss on counts `[5,5,4,2]`, offsets `[4,1,3,2]`, `min_counts = 3`, `min_offset = 4` -/
def witnessLoss : Nat → Nat → WithTop Rat :=
  poissonLoss (fun x : Rat => (x : WithTop Rat)) ⊤ lgTable [5, 5, 4, 2] [4, 1, 3, 2] 3 4

/-- **Finding F6: with minimum count/offset constraints the pruned recursion is not optimal.**
On counts `[5,5,4,2]`, offsets `[4,1,3,2]`, penalty 0, `min_counts 3`, `min_offset 4` the model of the
code returns `[0,4]` while the un-pruned recursion returns `[0,2,4]`, which is strictly cheaper:
candidate 2 is infeasible for `j = 3` (cost `∞`), is popped, and is missing at `j = 4` where it is the
optimum. (`log` replaced by its 6-decimal values; the real code returns `[0,4]` too — checked by the harness.) -/
theorem pelt_counterexample :
    Changepoints.segment true witnessLoss 0 0 ⊤ 4 = some [0, 4] ∧
    Changepoints.segment false witnessLoss 0 0 ⊤ 4 = some [0, 2, 4] ∧
    segCost witnessLoss 0 0 [0, 2, 4] < segCost witnessLoss 0 0 [0, 4] := by
  decide +kernel

/-- the superadditivity hypothesis of `pelt_sound_of_superadditive` fails on the witness:
`f 2 3 = ∞` although `f 2 4` is finite -/
theorem witness_not_superadditive :
    ¬ (witnessLoss 2 3 + witnessLoss 3 4 ≤ witnessLoss 2 4) := by
  decide +kernel

/-! ### Non-vacuity -/

example : fixedPre ([1, 0, 3, 2] : List Rat) 3 = true := by decide +kernel

example : fixedChangepoints (fun n : Nat => (n : Rat)) [1, 0, 3, 2] 3 = [0, 2, 3, 4] := by
  decide +kernel

/-- equal masses are split equally (the case finding F13 broke before fix 412a87a) -/
example : fixedChangepoints (fun n : Nat => (n : Rat)) [1, 1, 1, 1, 1, 1] 6 = [0, 1, 2, 3, 4, 5, 6] := by
  decide +kernel

example : IsSeg 4 [0, 2, 4] :=
  IsSeg.snoc (IsSeg.snoc IsSeg.base (by decide : 0 < 2)) (by decide : 2 < 4)

example : ∀ x : WithTop Rat, x ≤ ⊤ := fun _ => le_top

/-- the hypothesis `LogSum` is satisfiable (degenerately by a constant; by the real logarithm in ℝ) -/
example : LogSum (fun _ : Rat => (0 : Rat)) := by
  intro a b c d _ _ _ _; simp

end Tsdate.C26
