/-
C28 — preprocessing removes only data-free regions and preserves genotypes
(model: `Preprocess.plan` = option handling + interval logic of `preprocess_ts`, tsdate/util.py).

`plan dflt sites L o` is either the `ValueError` the call raises or the interval list handed to
`tables.delete_intervals` together with the resolved options.  `sites` are the site positions in
table order (strictly increasing in every tree sequence), `L` the sequence length, `dflt = 1000000`.

What follows *from these theorems by the contracts of tskit and C29* and is not proved here:
`delete_intervals` removes exactly the edges/sites/mutations inside the listed intervals and
`simplify` keeps the samples in order, their genotypes at the remaining sites and all times of the
retained nodes; since no site lies in a computed interval (`intervals_avoid_sites`) every site
survives, and with user intervals exactly the sites inside them go; `split_disjoint_nodes` preserves
every local tree and makes non-sample ancestry contiguous (C29).  The oracle of
harness/props/c28.py checks all of this on the implementation's output.
-/
import Mathlib.Tactic.NormNum
import TsdateVerif.Proofs.Preprocess

namespace Tsdate.C28
open Tsdate Tsdate.Preprocess
set_option linter.unusedSectionVars false
set_option linter.unusedVariables false

variable {α : Type} [Field α] [LinearOrder α] [IsStrictOrderedRing α]

/-- **Where the computed intervals come from** (both directions): an interval is deleted iff it is
the left flank `[0, first-1)` or the right flank `[last+1, L)` (only with `erase_flanks`, only if
non-empty), or `[s+1, s'-1)` for two *adjacent* sites at least `minimum_gap` apart (only if
non-empty).  Nothing else is ever deleted. -/
theorem intervals_within_flanks_or_big_gaps (mg : α) (ef : Bool) (sites : List α) (L : α) (iv : α × α) :
    iv ∈ computedIntervals mg ef sites L ↔
      (ef = true ∧ ∃ s0, sites.head? = some s0 ∧ 0 < s0 - 1 ∧ iv = (0, s0 - 1)) ∨
      (ef = true ∧ ∃ sN, sites.getLast? = some sN ∧ sN + 1 < L ∧ iv = (sN + 1, L)) ∨
      (∃ s s', Adjacent sites s s' ∧ mg ≤ s' - s ∧ s + 1 < s' - 1 ∧ iv = (s + 1, s' - 1)) := by
  unfold computedIntervals
  rw [mem_sortByStart, List.mem_append, mem_gapIntervals]
  cases ef
  · simp
  · simp only [↓reduceIte, true_and]
    rw [mem_flankIntervals, or_assoc]

/-- **No site is deleted**: every site keeps a margin of one unit to every computed interval, in
particular it is not inside one. -/
theorem intervals_avoid_sites (mg : α) (ef : Bool) {sites : List α} (L : α)
    (hs : sites.Pairwise (· < ·)) (iv : α × α) (hiv : iv ∈ computedIntervals mg ef sites L)
    (s : α) (hsm : s ∈ sites) :
    (s + 1 ≤ iv.1 ∨ iv.2 ≤ s - 1) ∧ ¬ (iv.1 ≤ s ∧ s < iv.2) := by
  have key : s + 1 ≤ iv.1 ∨ iv.2 ≤ s - 1 := by
    rcases (intervals_within_flanks_or_big_gaps mg ef sites L iv).mp hiv with
      ⟨_, s0, h0, _, rfl⟩ | ⟨_, sN, hN, _, rfl⟩ | ⟨a, b, hadj, _, _, rfl⟩
    · right; have := head_le_of_sorted hs h0 hsm; show s0 - 1 ≤ s - 1; linarith
    · left; have := le_last_of_sorted hs hN hsm; show s + 1 ≤ sN + 1; linarith
    · rcases (adjacent_split hs hadj).2 s hsm with h | h
      · left; show s + 1 ≤ a + 1; linarith
      · right; show b - 1 ≤ s - 1; linarith
  refine ⟨key, ?_⟩
  rintro ⟨h1, h2⟩
  rcases key with h | h <;> linarith

/-- Corollary in the form of the property statement: filtering the site list by "not inside any
computed interval" (what tskit's `delete_intervals` does to the site table) keeps every site. -/
theorem all_sites_kept (mg : α) (ef : Bool) {sites : List α} (L : α) (hs : sites.Pairwise (· < ·)) :
    sites.filter (fun s => !(computedIntervals mg ef sites L).any (fun iv => decide (iv.1 ≤ s ∧ s < iv.2)))
      = sites := by
  rw [List.filter_eq_self]
  intro s hsm
  simp only [Bool.not_eq_eq_eq_not, Bool.not_true, List.any_eq_false, decide_eq_true_eq]
  intro iv hiv
  exact (intervals_avoid_sites mg ef L hs iv hiv s hsm).2

/-- **The list handed to tskit is sorted, the intervals are non-empty and pairwise disjoint** (with a
gap between consecutive ones), as `delete_intervals` requires. -/
theorem intervals_sorted_disjoint (mg : α) (ef : Bool) {sites : List α} (L : α)
    (hs : sites.Pairwise (· < ·)) :
    (computedIntervals mg ef sites L).Pairwise (fun i j => i.2 < j.1) ∧
    ∀ iv ∈ computedIntervals mg ef sites L, iv.1 < iv.2 := by
  have hne : ∀ iv ∈ computedIntervals mg ef sites L, iv.1 < iv.2 := by
    intro iv hiv
    rcases (intervals_within_flanks_or_big_gaps mg ef sites L iv).mp hiv with
      ⟨_, s0, _, h, rfl⟩ | ⟨_, sN, _, h, rfl⟩ | ⟨a, b, _, _, h, rfl⟩ <;> exact h
  refine ⟨?_, hne⟩
  have hsep : (computedIntervals mg ef sites L).Pairwise Sep := by
    unfold computedIntervals sortByStart
    refine (List.Perm.pairwise_iff (fun h => sep_symm h) (List.mergeSort_perm _ _)).mpr ?_
    cases ef
    · simpa using gapIntervals_pairwise mg hs
    · simpa using flank_gap_pairwise mg L hs
  have hsorted : (computedIntervals mg ef sites L).Pairwise (fun x y => x.1 ≤ y.1) :=
    sortByStart_sorted _
  refine (hsep.and hsorted).imp_of_mem ?_
  intro i j hi hj h
  rcases h.1 with h1 | h1
  · exact h1
  · have := hne j hj; have := h.2; linarith

/-- The intervals stay inside the genome `[0, L]` when the sites do. -/
theorem intervals_in_range (mg : α) (ef : Bool) {sites : List α} (L : α)
    (hs : sites.Pairwise (· < ·)) (hr : ∀ s ∈ sites, 0 ≤ s ∧ s < L) :
    ∀ iv ∈ computedIntervals mg ef sites L, 0 ≤ iv.1 ∧ iv.2 ≤ L := by
  intro iv hiv
  rcases (intervals_within_flanks_or_big_gaps mg ef sites L iv).mp hiv with
    ⟨_, s0, h0, h, rfl⟩ | ⟨_, sN, hN, h, rfl⟩ | ⟨a, b, hadj, _, h, rfl⟩
  · have := (hr s0 (List.mem_of_mem_head? h0)).2
    exact ⟨le_rfl, by show s0 - 1 ≤ L; linarith⟩
  · have := (hr sN (List.mem_of_mem_getLast? hN)).1
    exact ⟨by show 0 ≤ sN + 1; linarith, le_rfl⟩
  · have h1 := (hr a (adjacent_mem hadj).1).1
    have h2 := (hr b (adjacent_mem hadj).2).2
    exact ⟨by show 0 ≤ a + 1; linarith, by show b - 1 ≤ L; linarith⟩

/-- **User intervals pass through untouched**: with `delete_intervals` given (and none of the
options it excludes) exactly that list is handed to tskit — not sorted, not merged, the sites are
not consulted (so a tree sequence without sites is accepted). -/
theorem user_intervals_passthrough (dflt : α) (sites : List α) (L : α) (ivs : List (α × α))
    (sd rp : Option Bool) :
    plan dflt sites L { deleteIntervals := some ivs, splitDisjoint := sd, recordProvenance := rp } =
      .ok { intervals := ivs, splitDisjoint := sd.getD true, recordProvenance := rp.getD true,
            minimumGap := none, eraseFlanks := none } := rfl

/-- **Computed intervals, defaults and the deprecated alias.** Without `delete_intervals`, with at
least one site and not both of `erase_flanks`/`remove_telomeres`: the plan uses
`minimum_gap = 1000000` and `erase_flanks = True` when they are `None`, `remove_telomeres` acts exactly
as `erase_flanks`, `split_disjoint`/`record_provenance` default to `True`. -/
theorem computed_plan (dflt : α) (sites : List α) (L : α) (o : Opts α)
    (hiv : o.deleteIntervals = none) (hsites : sites ≠ [])
    (halias : o.removeTelomeres = none ∨ o.eraseFlanks = none) :
    plan dflt sites L o =
      .ok { intervals := computedIntervals (o.minimumGap.getD dflt)
              ((o.eraseFlanks.or o.removeTelomeres).getD true) sites L,
            splitDisjoint := o.splitDisjoint.getD true,
            recordProvenance := o.recordProvenance.getD true,
            minimumGap := some (o.minimumGap.getD dflt),
            eraseFlanks := some ((o.eraseFlanks.or o.removeTelomeres).getD true) } := by
  obtain ⟨mg, ef, di, sd, rp, rt⟩ := o
  simp only at hiv halias
  subst hiv
  have he : sites.isEmpty = false := by cases sites <;> simp_all
  rcases halias with h | h <;> subst h
  · cases ef <;> simp [plan, he]
  · cases rt <;> simp [plan, he]

/-- **Exactly when each `ValueError` is raised.** -/
theorem option_errors (dflt : α) (sites : List α) (L : α) (o : Opts α) :
    (plan dflt sites L o = .error .bothTelomeresAndFlanks ↔
      o.removeTelomeres.isSome ∧ o.eraseFlanks.isSome) ∧
    (plan dflt sites L o = .error .intervalsAndGapOrFlanks ↔
      ¬ (o.removeTelomeres.isSome ∧ o.eraseFlanks.isSome) ∧ o.deleteIntervals.isSome ∧
        (o.minimumGap.isSome ∨ o.eraseFlanks.isSome ∨ o.removeTelomeres.isSome)) ∧
    (plan dflt sites L o = .error .noSites ↔
      ¬ (o.removeTelomeres.isSome ∧ o.eraseFlanks.isSome) ∧ o.deleteIntervals = none ∧ sites = []) := by
  obtain ⟨mg, ef, di, sd, rp, rt⟩ := o
  have he : sites.isEmpty = true ↔ sites = [] := by cases sites <;> simp
  cases mg <;> cases ef <;> cases di <;> cases rt <;> cases hsi : sites.isEmpty <;>
    simp [plan, hsi, ← he]

/-! ### Non-vacuity: sites 5, 10, 100 on a genome of length 200, minimum_gap = 10 -/

example : ([5, 10, 100] : List Rat).Pairwise (· < ·) := by decide +kernel

example : ((11 : Rat), (99 : Rat)) ∈ computedIntervals 10 true [5, 10, 100] 200 :=
  (intervals_within_flanks_or_big_gaps 10 true [5, 10, 100] 200 (11, 99)).mpr
    (Or.inr (Or.inr ⟨10, 100, ⟨[5], [], rfl⟩, by norm_num, by norm_num, by norm_num⟩))

example : ((0 : Rat), (4 : Rat)) ∈ computedIntervals 10 true [5, 10, 100] 200 :=
  (intervals_within_flanks_or_big_gaps 10 true [5, 10, 100] 200 (0, 4)).mpr
    (Or.inl ⟨rfl, 5, rfl, by norm_num, by norm_num⟩)

/-- the gap 5 → 10 is below `minimum_gap`: not deleted -/
example : ((6 : Rat), (9 : Rat)) ∉ computedIntervals 10 true [5, 10, 100] 200 := by
  intro h
  rcases (intervals_within_flanks_or_big_gaps 10 true [5, 10, 100] 200 (6, 9)).mp h with
    ⟨_, s0, _, _, he⟩ | ⟨_, sN, hN, _, he⟩ | ⟨s, s', _, hmg, _, he⟩
  · have := (Prod.mk.inj he).1; norm_num at this
  · have := (Prod.mk.inj he).2; norm_num at this
  · obtain ⟨h1, h2⟩ := Prod.mk.inj he
    have e1 : s = 5 := by linarith
    have e2 : s' = 10 := by linarith
    subst e1; subst e2; norm_num at hmg

example : plan (1000000 : Rat) [5, 10, 100] 200 { eraseFlanks := some true, removeTelomeres := some false } =
    .error .bothTelomeresAndFlanks :=
  (option_errors _ _ _ _).1.mpr ⟨rfl, rfl⟩

example : plan (1000000 : Rat) [] 200 { deleteIntervals := some [(3, 7)], splitDisjoint := some false } =
    .ok { intervals := [(3, 7)], splitDisjoint := false, recordProvenance := true,
          minimumGap := none, eraseFlanks := none } := rfl

end Tsdate.C28
