/-
C18 — EP moment updates respect support and match the true tilted moments.

Every theorem here is about the definitions in `Gen/Kernels.lean`, which `translate/kernels.py` regenerates from
the source text of `tsdate/approx.py` / `tsdate/hypergeo.py` on every run of the check, and which are executed at
Float against the numba functions (bit-for-bit) by the correspondence stage.  `α` is any linear ordered field
(exact arithmetic); `F : SpecFns α` is an ARBITRARY interpretation of exp/log/sqrt/lgamma/isfinite — no theorem
in this file assumes anything about the special functions, so each holds in particular for the real ones.
`none` = the Python function returns NaN in that position.

What is NOT here (and cannot be, with special functions as parameters): that the Laplace approximations
`_hyp2f1_laplace`, `_hyp1f1_laplace`, `_hyperu_laplace` are within a few percent of the true hypergeometric
functions, and the support inequalities that depend on that accuracy (e.g. `t_j < E[t_i]` from
`mn_i = t_j (1 - d0)`).  Those are examined only by the quadrature oracle of `harness/props/c18.py`.
`C18_statement` below records the full claim; the theorems are its algebraic part (continued in
`Props/C18Closed.lean`: the exact closed-form cases).
-/
import TsdateVerif.Proofs.Kernels

namespace Tsdate.C18
open Tsdate.Kernels Tsdate.Gen.Kernels
set_option linter.unusedSectionVars false

variable {α : Type} [Field α] [LinearOrder α] [IsStrictOrderedRing α]

/-! ## 1. Every projection wrapper either skips explicitly or returns a proper gamma with the moments of its kernel -/

/-- `gamma_projection` (both ends free): explicit skip (`logl = NaN`, both parameter vectors returned unchanged)
or two proper gammas (shape > 0, rate > 0) whose mean and variance are exactly the `mn, va` computed by `moments`. -/
theorem gamma_projection_valid_or_skip (F : SpecFns α) (pi pj pij : α × α) :
    gamma_projection F pi pj pij = (none, pi, pj) ∨
    ∃ logl mn_i va_i mn_j va_j,
      moments F (pi.1 + 1) pi.2 (pj.1 + 1) pj.2 pij.1 pij.2 = some (logl, mn_i, va_i, mn_j, va_j) ∧
      ∃ qi qj, gamma_projection F pi pj pij = (some logl, qi, qj) ∧
        IsGammaFit qi mn_i va_i ∧ IsGammaFit qj mn_j va_j := by
  simp only [gamma_projection, Nat.cast_one]
  cases h : moments F (pi.1 + 1) pi.2 (pj.1 + 1) pj.2 pij.1 pij.2 with
  | none => left; rfl
  | some r =>
    obtain ⟨logl, mn_i, va_i, mn_j, va_j⟩ := r
    by_cases hv : (_valid_moments F mn_i va_i && _valid_moments F mn_j va_j) = true
    · right
      have hv' := hv
      rw [Bool.and_eq_true] at hv'
      exact ⟨logl, mn_i, va_i, mn_j, va_j, rfl, _, _, by simp [hv],
        mom_fit_of_valid F _ _ hv'.1, mom_fit_of_valid F _ _ hv'.2⟩
    · left; simp [hv]

/-- `unphased_projection` (two parents of an unphased singleton block): skip or two proper gammas. -/
theorem unphased_projection_valid_or_skip (F : SpecFns α) (pi pj pij : α × α) :
    unphased_projection F pi pj pij = (none, pi, pj) ∨
    ∃ logl mn_i va_i mn_j va_j,
      unphased_moments F (pi.1 + 1) pi.2 (pj.1 + 1) pj.2 pij.1 pij.2 = some (logl, mn_i, va_i, mn_j, va_j) ∧
      ∃ qi qj, unphased_projection F pi pj pij = (some logl, qi, qj) ∧
        IsGammaFit qi mn_i va_i ∧ IsGammaFit qj mn_j va_j := by
  simp only [unphased_projection, Nat.cast_one]
  cases h : unphased_moments F (pi.1 + 1) pi.2 (pj.1 + 1) pj.2 pij.1 pij.2 with
  | none => left; rfl
  | some r =>
    obtain ⟨logl, mn_i, va_i, mn_j, va_j⟩ := r
    by_cases h1 : _valid_moments F mn_i va_i = true
    · by_cases h2 : _valid_moments F mn_j va_j = true
      · right
        exact ⟨logl, mn_i, va_i, mn_j, va_j, rfl, _, _, by simp [h1, h2],
          mom_fit_of_valid F _ _ h1, mom_fit_of_valid F _ _ h2⟩
      · left; simp [h2]
    · left; simp [h1]

/-- `leafward_projection` (free child below a fixed parent at `t_i`). -/
theorem leafward_projection_valid_or_skip (F : SpecFns α) (t_i : α) (pj pij : α × α) :
    leafward_projection F t_i pj pij = (none, pj) ∨
    ∃ logl mn va, leafward_moments F t_i (pj.1 + 1) pj.2 pij.1 pij.2 = some (logl, mn, va) ∧
      ∃ q, leafward_projection F t_i pj pij = (some logl, q) ∧ IsGammaFit q mn va := by
  simp only [leafward_projection, Nat.cast_one]
  cases h : leafward_moments F t_i (pj.1 + 1) pj.2 pij.1 pij.2 with
  | none => left; rfl
  | some r =>
    obtain ⟨logl, mn, va⟩ := r
    by_cases hv : _valid_moments F mn va = true
    · right; exact ⟨logl, mn, va, rfl, _, by simp [hv], mom_fit_of_valid F _ _ hv⟩
    · left; simp [hv]

/-- `rootward_projection` (free parent above a fixed child at `t_j`). -/
theorem rootward_projection_valid_or_skip (F : SpecFns α) (t_j : α) (pi pij : α × α) :
    rootward_projection F t_j pi pij = (none, pi) ∨
    ∃ logl mn va, rootward_moments F t_j (pi.1 + 1) pi.2 pij.1 pij.2 = some (logl, mn, va) ∧
      ∃ q, rootward_projection F t_j pi pij = (some logl, q) ∧ IsGammaFit q mn va := by
  simp only [rootward_projection, Nat.cast_one]
  cases h : rootward_moments F t_j (pi.1 + 1) pi.2 pij.1 pij.2 with
  | none => left; rfl
  | some r =>
    obtain ⟨logl, mn, va⟩ := r
    by_cases hv : _valid_moments F mn va = true
    · right; exact ⟨logl, mn, va, rfl, _, by simp [hv], mom_fit_of_valid F _ _ hv⟩
    · left; simp [hv]

/-- `sideways_projection` (free parent of a block whose other parent is fixed at `t_i`). -/
theorem sideways_projection_valid_or_skip (F : SpecFns α) (t_i : α) (pj pij : α × α) :
    sideways_projection F t_i pj pij = (none, pj) ∨
    ∃ logl mn va, sideways_moments F t_i (pj.1 + 1) pj.2 pij.1 pij.2 = some (logl, mn, va) ∧
      ∃ q, sideways_projection F t_i pj pij = (some logl, q) ∧ IsGammaFit q mn va := by
  simp only [sideways_projection, Nat.cast_one]
  cases h : sideways_moments F t_i (pj.1 + 1) pj.2 pij.1 pij.2 with
  | none => left; rfl
  | some r =>
    obtain ⟨logl, mn, va⟩ := r
    by_cases hv : _valid_moments F mn va = true
    · right; exact ⟨logl, mn, va, rfl, _, by simp [hv], mom_fit_of_valid F _ _ hv⟩
    · left; simp [hv]

/-- `twin_projection` (both ends of the block are the same node). -/
theorem twin_projection_valid_or_skip (F : SpecFns α) (pi pij : α × α) :
    twin_projection F pi pij = (none, pi) ∨
    ∃ q, twin_projection F pi pij = (some (twin_moments F (pi.1 + 1) pi.2 pij.1 pij.2).1, q) ∧
      IsGammaFit q (twin_moments F (pi.1 + 1) pi.2 pij.1 pij.2).2.1 (twin_moments F (pi.1 + 1) pi.2 pij.1 pij.2).2.2 := by
  simp only [twin_projection, Nat.cast_one]
  by_cases hv : _valid_moments F (twin_moments F (pi.1 + 1) pi.2 pij.1 pij.2).2.1
      (twin_moments F (pi.1 + 1) pi.2 pij.1 pij.2).2.2 = true
  · right; exact ⟨_, by simp [hv], mom_fit_of_valid F _ _ hv⟩
  · left; simp [hv]

/-- Mutation on an edge with both ends free: skip (`none`) or phase probability 1 and a proper gamma. -/
theorem mutation_gamma_projection_valid_or_skip (F : SpecFns α) (pi pj pij : α × α) :
    mutation_gamma_projection F pi pj pij = none ∨
    ∃ mn va, mutation_moments F (pi.1 + 1) pi.2 (pj.1 + 1) pj.2 pij.1 pij.2 = some (mn, va) ∧
      ∃ q, mutation_gamma_projection F pi pj pij = some (1, q) ∧ IsGammaFit q mn va := by
  simp only [mutation_gamma_projection, Nat.cast_one]
  cases h : mutation_moments F (pi.1 + 1) pi.2 (pj.1 + 1) pj.2 pij.1 pij.2 with
  | none => left; rfl
  | some r =>
    obtain ⟨mn, va⟩ := r
    by_cases hv : _valid_moments F mn va = true
    · right; exact ⟨mn, va, rfl, _, by simp [hv], mom_fit_of_valid F _ _ hv⟩
    · left; simp [hv]

theorem mutation_leafward_projection_valid_or_skip (F : SpecFns α) (t_i : α) (pj pij : α × α) :
    mutation_leafward_projection F t_i pj pij = none ∨
    ∃ mn va, mutation_leafward_moments F t_i (pj.1 + 1) pj.2 pij.1 pij.2 = some (mn, va) ∧
      ∃ q, mutation_leafward_projection F t_i pj pij = some (1, q) ∧ IsGammaFit q mn va := by
  simp only [mutation_leafward_projection, Nat.cast_one]
  cases h : mutation_leafward_moments F t_i (pj.1 + 1) pj.2 pij.1 pij.2 with
  | none => left; rfl
  | some r =>
    obtain ⟨mn, va⟩ := r
    by_cases hv : _valid_moments F mn va = true
    · right; exact ⟨mn, va, rfl, _, by simp [hv], mom_fit_of_valid F _ _ hv⟩
    · left; simp [hv]

theorem mutation_rootward_projection_valid_or_skip (F : SpecFns α) (t_j : α) (pi pij : α × α) :
    mutation_rootward_projection F t_j pi pij = none ∨
    ∃ mn va, mutation_rootward_moments F t_j (pi.1 + 1) pi.2 pij.1 pij.2 = some (mn, va) ∧
      ∃ q, mutation_rootward_projection F t_j pi pij = some (1, q) ∧ IsGammaFit q mn va := by
  simp only [mutation_rootward_projection, Nat.cast_one]
  cases h : mutation_rootward_moments F t_j (pi.1 + 1) pi.2 pij.1 pij.2 with
  | none => left; rfl
  | some r =>
    obtain ⟨mn, va⟩ := r
    by_cases hv : _valid_moments F mn va = true
    · right; exact ⟨mn, va, rfl, _, by simp [hv], mom_fit_of_valid F _ _ hv⟩
    · left; simp [hv]

theorem mutation_edge_projection_valid_or_skip (F : SpecFns α) (t_i t_j : α) :
    mutation_edge_projection F t_i t_j = none ∨
    ∃ q, mutation_edge_projection F t_i t_j = some (1, q) ∧
      IsGammaFit q (mutation_edge_moments F t_i t_j).1 (mutation_edge_moments F t_i t_j).2 := by
  simp only [mutation_edge_projection, Nat.cast_one]
  by_cases hv : _valid_moments F (mutation_edge_moments F t_i t_j).1 (mutation_edge_moments F t_i t_j).2 = true
  · right; exact ⟨_, by simp [hv], mom_fit_of_valid F _ _ hv⟩
  · left; simp [hv]

/-- Unphased singleton: skip, or a phase probability in `[0, 1]` and a proper gamma. -/
theorem mutation_unphased_projection_valid_or_skip (F : SpecFns α) (pi pj pij : α × α) :
    mutation_unphased_projection F pi pj pij = none ∨
    ∃ pr mn va, mutation_unphased_moments F (pi.1 + 1) pi.2 (pj.1 + 1) pj.2 pij.1 pij.2 = some (pr, mn, va) ∧
      0 ≤ pr ∧ pr ≤ 1 ∧
      ∃ q, mutation_unphased_projection F pi pj pij = some (pr, q) ∧ IsGammaFit q mn va := by
  simp only [mutation_unphased_projection, Nat.cast_one, Nat.cast_zero]
  cases h : mutation_unphased_moments F (pi.1 + 1) pi.2 (pj.1 + 1) pj.2 pij.1 pij.2 with
  | none => left; rfl
  | some r =>
    obtain ⟨pr, mn, va⟩ := r
    by_cases hv : _valid_moments F mn va = true
    · by_cases hp : 0 ≤ pr ∧ pr ≤ 1
      · right; exact ⟨pr, mn, va, rfl, hp.1, hp.2, _, by simp [hv, hp.1, hp.2], mom_fit_of_valid F _ _ hv⟩
      · left
        have : (decide (0 ≤ pr) && decide (pr ≤ 1)) = false := by
          simpa [Bool.and_eq_false_iff, not_and_or] using hp
        simp [this]
    · left; simp [hv]

theorem mutation_sideways_projection_valid_or_skip (F : SpecFns α) (t_i : α) (pj pij : α × α) :
    mutation_sideways_projection F t_i pj pij = none ∨
    ∃ pr mn va, mutation_sideways_moments F t_i (pj.1 + 1) pj.2 pij.1 pij.2 = some (pr, mn, va) ∧
      0 ≤ pr ∧ pr ≤ 1 ∧
      ∃ q, mutation_sideways_projection F t_i pj pij = some (pr, q) ∧ IsGammaFit q mn va := by
  simp only [mutation_sideways_projection, Nat.cast_one, Nat.cast_zero]
  cases h : mutation_sideways_moments F t_i (pj.1 + 1) pj.2 pij.1 pij.2 with
  | none => left; rfl
  | some r =>
    obtain ⟨pr, mn, va⟩ := r
    by_cases hv : _valid_moments F mn va = true
    · by_cases hp : 0 ≤ pr ∧ pr ≤ 1
      · right; exact ⟨pr, mn, va, rfl, hp.1, hp.2, _, by simp [hv, hp.1, hp.2], mom_fit_of_valid F _ _ hv⟩
      · left
        have : (decide (0 ≤ pr) && decide (pr ≤ 1)) = false := by
          simpa [Bool.and_eq_false_iff, not_and_or] using hp
        simp [this]
    · left; simp [hv]

theorem mutation_twin_projection_valid_or_skip (F : SpecFns α) (pi pij : α × α) :
    mutation_twin_projection F pi pij = none ∨
    ∃ q, mutation_twin_projection F pi pij = some (1 / 2, q) ∧
      IsGammaFit q (mutation_twin_moments F (pi.1 + 1) pi.2 pij.1 pij.2).2.1
        (mutation_twin_moments F (pi.1 + 1) pi.2 pij.1 pij.2).2.2 := by
  have hpr : (mutation_twin_moments F (pi.1 + 1) pi.2 pij.1 pij.2).1 = 1 / 2 := by
    simp only [mutation_twin_moments, Nat.cast_one, Nat.cast_ofNat]
  simp only [mutation_twin_projection, Nat.cast_one, Nat.cast_zero, hpr]
  by_cases hv : _valid_moments F (mutation_twin_moments F (pi.1 + 1) pi.2 pij.1 pij.2).2.1
      (mutation_twin_moments F (pi.1 + 1) pi.2 pij.1 pij.2).2.2 = true
  · right
    have h0 : (0 : α) ≤ 1 / 2 := by norm_num
    have h1 : (1 / 2 : α) ≤ 1 := by norm_num
    have hdec : (decide ((0 : α) ≤ 1 / 2) && decide ((1 / 2 : α) ≤ 1)) = true := by
      rw [Bool.and_eq_true]; exact ⟨decide_eq_true h0, decide_eq_true h1⟩
    exact ⟨_, by simp only [hv, hdec, Bool.not_true, Bool.or_self, Bool.false_eq_true, if_false],
      mom_fit_of_valid F _ _ hv⟩
  · left; simp [hv]

theorem mutation_block_projection_valid_or_skip (F : SpecFns α) (t_i t_j : α) :
    mutation_block_projection F t_i t_j = none ∨
    ∃ q, mutation_block_projection F t_i t_j = some ((mutation_block_moments F t_i t_j).1, q) ∧
      0 ≤ (mutation_block_moments F t_i t_j).1 ∧ (mutation_block_moments F t_i t_j).1 ≤ 1 ∧
      IsGammaFit q (mutation_block_moments F t_i t_j).2.1 (mutation_block_moments F t_i t_j).2.2 := by
  simp only [mutation_block_projection, Nat.cast_one, Nat.cast_zero]
  by_cases hv : _valid_moments F (mutation_block_moments F t_i t_j).2.1 (mutation_block_moments F t_i t_j).2.2 = true
  · by_cases hp : 0 ≤ (mutation_block_moments F t_i t_j).1 ∧ (mutation_block_moments F t_i t_j).1 ≤ 1
    · right; exact ⟨_, by simp [hv, hp.1, hp.2], hp.1, hp.2, mom_fit_of_valid F _ _ hv⟩
    · left
      have : (decide (0 ≤ (mutation_block_moments F t_i t_j).1) && decide ((mutation_block_moments F t_i t_j).1 ≤ 1))
          = false := by
        simpa [Bool.and_eq_false_iff, not_and_or] using hp
      simp [this]
  · left; simp [hv]

/-! ## 3. The wrappers add no failure of their own; the hyperu / 1F1 kernels never trip an assert -/

/-- `approximate_gamma_mom` is only ever called on validated moments: the only way `gamma_projection` can raise
is an `assert` inside `moments` (i.e. inside `_hyp2f1_laplace`). -/
theorem gamma_projection_pre (F : SpecFns α) (pi pj pij : α × α) :
    pre_gamma_projection F pi pj pij = pre_moments F (pi.1 + 1) pi.2 (pj.1 + 1) pj.2 pij.1 pij.2 := by
  simp only [pre_gamma_projection, Nat.cast_one]
  cases h : moments F (pi.1 + 1) pi.2 (pj.1 + 1) pj.2 pij.1 pij.2 with
  | none => simp
  | some r =>
    by_cases hv : (_valid_moments F r.2.1 r.2.2.1 && _valid_moments F r.2.2.2.1 r.2.2.2.2) = true
    · have hv' := hv
      rw [Bool.and_eq_true] at hv'
      simp [hv, pre_mom_of_valid F _ _ hv'.1, pre_mom_of_valid F _ _ hv'.2]
    · simp [hv]

/-- The parent update above a fixed child never trips an assertion (as long as `t_j ≥ 0`): `_valid_hyperu`
implies the asserts `b ≥ a > 0`, `x > 0` of both `_hyperu_laplace` calls. -/
theorem rootward_never_asserts (F : SpecFns α) (t_j a_i b_i y mu : α) (ht : 0 ≤ t_j) :
    pre_rootward_moments F t_j a_i b_i y mu = true := by
  simp only [pre_rootward_moments, pre__hyperu_laplace, Nat.cast_zero, Nat.cast_one, add_zero]
  simp only [Bool.and_eq_true, decide_eq_true_eq]
  refine ⟨ht, ?_⟩
  split_ifs with h1 h2 h3 <;> try rfl
  have hv := (valid_hyperu_iff F _ _ _).1 (by simpa using h3)
  obtain ⟨-, hz, hab, ha⟩ := hv
  simp only [Bool.and_eq_true, decide_eq_true_eq]
  exact ⟨⟨⟨le_of_lt hab, ha⟩, hz⟩, ⟨by linarith, by linarith⟩, hz⟩

/-- Same for the free parent of a block whose other parent is fixed. -/
theorem sideways_never_asserts (F : SpecFns α) (t_i a_j b_j y mu : α) (ht : 0 < t_i) :
    pre_sideways_moments F t_i a_j b_j y mu = true := by
  simp only [pre_sideways_moments, pre__hyperu_laplace, Nat.cast_zero, Nat.cast_one, add_zero]
  simp only [Bool.and_eq_true, decide_eq_true_eq]
  refine ⟨ht, ?_⟩
  split_ifs with h3 <;> try rfl
  have hv := (valid_hyperu_iff F _ _ _).1 (by simpa using h3)
  obtain ⟨-, hz, hab, ha⟩ := hv
  simp only [Bool.and_eq_true, decide_eq_true_eq]
  exact ⟨⟨⟨le_of_lt hab, ha⟩, hz⟩, ⟨by linarith, by linarith⟩, hz⟩

/-- The child update below a fixed parent never trips the assert `b > a > 0` of `_hyp1f1_laplace`, given a
mutation count `y > −1` (real counts are ≥ 0).  NB `_valid_hyp1f1` itself only checks `b ≥ a`: with `y = −1`
the kernel would stop with an AssertionError instead of skipping. -/
theorem leafward_never_asserts (F : SpecFns α) (t_i a_j b_j y mu : α) (ht : 0 < t_i) (hy : -1 < y) :
    pre_leafward_moments F t_i a_j b_j y mu = true := by
  simp only [pre_leafward_moments, pre__hyp1f1_laplace, Nat.cast_zero, Nat.cast_one, Nat.cast_ofNat, add_zero]
  simp only [Bool.and_eq_true, decide_eq_true_eq]
  refine ⟨ht, ?_⟩
  split_ifs with h3 <;> try rfl
  have hv := (valid_hyp1f1_iff F _ _ _).1 (by simpa using h3)
  obtain ⟨-, hab, ha⟩ := hv
  simp only [Bool.and_eq_true, decide_eq_true_eq]
  exact ⟨⟨by linarith, ha⟩, ⟨by linarith, by linarith⟩, by linarith, by linarith⟩

/-- The mutation kernel of a block with one fixed parent calls `_hyperu_laplace(a+k, b+k−1, z)`, `k = 1,2,3`, whose
assert `b ≥ a` needs `y ≥ 0`: in exact arithmetic no assert fires for a non-negative mutation count … -/
theorem mutation_sideways_never_asserts (F : SpecFns α) (t_i a_j b_j y mu : α) (ht : 0 < t_i) (hy : 0 ≤ y) :
    pre_mutation_sideways_moments F t_i a_j b_j y mu = true := by
  simp only [pre_mutation_sideways_moments, pre__hyperu_laplace, Nat.cast_zero, Nat.cast_one, Nat.cast_ofNat, add_zero]
  simp only [Bool.and_eq_true, decide_eq_true_eq]
  refine ⟨ht, ?_⟩
  split_ifs with h3 <;> try rfl
  have hv := (valid_hyperu_iff F _ _ _).1 (by simpa using h3)
  obtain ⟨-, hz, hab, ha⟩ := hv
  simp only [Bool.and_eq_true, decide_eq_true_eq]
  refine ⟨⟨⟨le_of_lt hab, ha⟩, hz⟩, ⟨⟨by linarith, by linarith⟩, hz⟩, ⟨⟨by linarith, by linarith⟩, hz⟩,
    ⟨by linarith, by linarith⟩, hz⟩

/-- … **but not in floating point** (finding C18-a): for `y = 0` the asserted `b + 1 ≥ a + 2` reads
`((a + 0) + 1) + 1 ≥ a + 2`, which fails after rounding for about 1 % of shapes.  Kernel-checked witness at `Float`
(bit patterns of `t_i = 100`, `a_j = 0.2454364795427771`, `b_j = mu = 1e-3`, `y = 0`; the special functions do not
matter): the recorded precondition of the GENERATED kernel is `false`, i.e. the numba kernel raises
`AssertionError` instead of skipping — while with `y = 1` it is `true`. -/
theorem mutation_sideways_assert_gap_float :
    pre_mutation_sideways_moments (α := Float) ⟨fun x => x, fun x => x, fun x => x, fun x => x, fun _ => true⟩
      (Float.ofBits 0x4059000000000000) (Float.ofBits 0x3fcf6a766a70d84a) (Float.ofBits 0x3f50624dd2f1a9fc)
      (Float.ofBits 0) (Float.ofBits 0x3f50624dd2f1a9fc) = false ∧
    pre_mutation_sideways_moments (α := Float) ⟨fun x => x, fun x => x, fun x => x, fun x => x, fun _ => true⟩
      (Float.ofBits 0x4059000000000000) (Float.ofBits 0x3fcf6a766a70d84a) (Float.ofBits 0x3f50624dd2f1a9fc)
      (Float.ofBits 0x3ff0000000000000) (Float.ofBits 0x3f50624dd2f1a9fc) = true := by
  constructor <;> decide +kernel

/-! ## The full statement (partial: see the header) -/

/-- C18 in full for one kernel, as a statement about the real special functions: "the returned mean is within
`tol` (a few percent) of the mean of the tilted density".  `trueMean` is the quadrature value; nothing in this
development proves such a bound for the Laplace-approximated kernels — it is examined by the oracle only. -/
def C18_statement (F : SpecFns α) (tol : α)
    (trueMean : α → α → α → α → α → α) : Prop :=
  ∀ t_j a_i b_i y mu logl mn va, 0 < t_j → 0 < a_i → 0 < mu + b_i → 0 ≤ y →
    rootward_moments F t_j a_i b_i y mu = some (logl, mn, va) →
    t_j < mn ∧ 0 < va ∧ |mn - trueMean t_j a_i b_i y mu| ≤ tol * trueMean t_j a_i b_i y mu

/-! Non-vacuity examples for the closed forms are in `Props/C18Closed.lean`; the valid-or-skip theorems are total
(no hypotheses). -/

end Tsdate.C18
