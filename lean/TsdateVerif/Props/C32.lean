/-
C32 — time metadata writing follows the `set_metadata` policy
(model: `EstimationMethod.set_time_metadata`, tsdate/core.py; Model/Metadata.lean).

All theorems hold for **every** table (any number of rows, any row contents, any mixture of empty
and non-empty rows), every schema type `S`, every validator `admits` and every value type `V`.
Vocabulary (Spec/Metadata.lean):
* `canEncode admits t mean var` — "the existing schema can encode them": a schema is set and it
  validates every row once `mn`/`vr` are added;
* `blank t` — "the table has neither schema nor metadata";
* `mergedTable t mean var` — same schema, row `i` = old row `i` with `mn := mean[i]`, `vr := var[i]`;
* `replacedTable dflt t mean var` — default schema, row `i` = exactly `{mn: mean[i], vr: var[i]}`.
`hd` says the default schema validates a `{mn, vr}` object (schemas.py: two optional `number`
properties; checked against tskit on every run by the correspondence).
`var = none` models `var is None`: the method produced no variance for this table (mutations under
inside_outside, everything under maximization) — then nothing is written whatever `set_metadata` is.
-/
import TsdateVerif.Proofs.Metadata

namespace Tsdate.C32
open Tsdate.Metadata

variable {S V : Type}

/-- **set_metadata=False**: schema and every metadata row are left exactly as they were. -/
theorem policy_false (admits : S → Row V → Bool) (dflt : S) (t : Table S V) (mean : List V)
    (var : Option (List V)) :
    setTimeMetadata admits dflt .off t mean var = ⟨t, .untouched⟩ := by
  cases var <;> rfl

/-- No variance from the method (`var is None`) ⇒ nothing is written, for every `set_metadata`. -/
theorem no_variance_untouched (admits : S → Row V → Bool) (dflt : S) (sm : SetMd) (t : Table S V)
    (mean : List V) : setTimeMetadata admits dflt sm t mean none = ⟨t, .untouched⟩ := by
  cases sm <;> rfl

/-- **set_metadata=None**.  (1) If the existing schema can encode the rows with mn/vr added, they
are added to every row and nothing else changes.  (2) If not, and the table has neither schema nor
metadata, the default schema is installed and every row becomes `{mn, vr}`.  (3) Otherwise the table
is left untouched and the call takes the warning exit. -/
theorem policy_none (admits : S → Row V → Bool) (dflt : S) (t : Table S V) (mean var : List V)
    (hd : ∀ mn vr, admits dflt (mergeTime [] mn vr) = true) :
    (canEncode admits t mean var = true →
        setTimeMetadata admits dflt .auto t mean (some var) = ⟨mergedTable t mean var, .merged⟩) ∧
    (canEncode admits t mean var = false → blank t = true →
        setTimeMetadata admits dflt .auto t mean (some var)
          = ⟨replacedTable dflt t mean var, .replaced⟩) ∧
    (canEncode admits t mean var = false → blank t = false →
        setTimeMetadata admits dflt .auto t mean (some var) = ⟨t, .warned⟩) := by
  obtain ⟨h1, h2, h3⟩ := setTimeMetadata_some admits dflt .auto (by decide) t mean var hd
  exact ⟨h1, fun hc hb => h3 hc (Or.inl hb), fun hc hb => h2 hc hb rfl⟩

/-- **set_metadata=True**: mn/vr are always written — on top of the existing rows when the schema
can encode them, otherwise after clearing the metadata and installing the default schema. The
warning exit is never taken. -/
theorem policy_true (admits : S → Row V → Bool) (dflt : S) (t : Table S V) (mean var : List V)
    (hd : ∀ mn vr, admits dflt (mergeTime [] mn vr) = true) :
    (canEncode admits t mean var = true →
        setTimeMetadata admits dflt .force t mean (some var) = ⟨mergedTable t mean var, .merged⟩) ∧
    (canEncode admits t mean var = false →
        setTimeMetadata admits dflt .force t mean (some var)
          = ⟨replacedTable dflt t mean var, .replaced⟩) := by
  obtain ⟨h1, _, h3⟩ := setTimeMetadata_some admits dflt .force (by decide) t mean var hd
  exact ⟨h1, fun hc => h3 hc (Or.inr rfl)⟩

/-- **All or nothing**: for every input the result is one of exactly four things — the untouched
table (outcomes `untouched`, `warned`), the merged table, or the replaced table.  In particular a
validation failure in a late row never leaves earlier rows rewritten. -/
theorem all_or_nothing (admits : S → Row V → Bool) (dflt : S) (sm : SetMd) (t : Table S V)
    (mean : List V) (var : Option (List V))
    (hd : ∀ mn vr, admits dflt (mergeTime [] mn vr) = true) :
    let R := setTimeMetadata admits dflt sm t mean var
    (R.table = t ∧ (R.outcome = .untouched ∨ R.outcome = .warned)) ∨
    (∃ v, var = some v ∧ R = ⟨mergedTable t mean v, .merged⟩) ∨
    (∃ v, var = some v ∧ R = ⟨replacedTable dflt t mean v, .replaced⟩) := by
  intro R
  cases var with
  | none => left; simp [R, no_variance_untouched]
  | some v =>
    cases sm with
    | off => left; simp [R, policy_false]
    | auto =>
      obtain ⟨h1, h2, h3⟩ := policy_none admits dflt t mean v hd
      cases hc : canEncode admits t mean v with
      | true => right; left; exact ⟨v, rfl, h1 hc⟩
      | false =>
        cases hb : blank t with
        | true => right; right; exact ⟨v, rfl, h2 hc hb⟩
        | false => left; simp [R, h3 hc hb]
    | force =>
      obtain ⟨h1, h2⟩ := policy_true admits dflt t mean v hd
      cases hc : canEncode admits t mean v with
      | true => right; left; exact ⟨v, rfl, h1 hc⟩
      | false => right; right; exact ⟨v, rfl, h2 hc⟩

/-- **Merging keeps every other field**: adding mn/vr to a row leaves the value under every other
key unchanged, sets `mn` and `vr`, and invents no other key. -/
theorem merge_preserves_other_fields (r : Row V) (mn vr : V) :
    (∀ k, k ≠ "mn" → k ≠ "vr" → get k (mergeTime r mn vr) = get k r) ∧
    get "mn" (mergeTime r mn vr) = some mn ∧ get "vr" (mergeTime r mn vr) = some vr ∧
    (∀ k, k ∈ (mergeTime r mn vr).map Prod.fst → k ∈ r.map Prod.fst ∨ k = "mn" ∨ k = "vr") := by
  refine ⟨fun k h1 h2 => get_mergeTime_other r mn vr k h1 h2, get_mergeTime_mn r mn vr,
    get_mergeTime_vr r mn vr, ?_⟩
  intro k hk
  unfold mergeTime at hk
  rw [keys_upsert] at hk
  split at hk
  · rw [keys_upsert] at hk
    split at hk
    · exact Or.inl hk
    · rcases List.mem_append.mp hk with h | h
      · exact Or.inl h
      · exact Or.inr (Or.inl (by simpa using h))
  · rcases List.mem_append.mp hk with h | h
    · rw [keys_upsert] at h
      split at h
      · exact Or.inl h
      · rcases List.mem_append.mp h with h | h
        · exact Or.inl h
        · exact Or.inr (Or.inl (by simpa using h))
    · exact Or.inr (Or.inr (by simpa using h))

/-- **In the merged table every row keeps all its other fields**: row `i` of the merged table,
looked up under any key other than mn/vr, gives what row `i` of the input decoded to. -/
theorem merged_rows_keep_fields (t : Table S V) (mean var : List V)
    (hm : mean.length = t.cells.length) (hv : var.length = t.cells.length) (i : Nat)
    (hi : i < t.cells.length) :
    ∃ r old, (mergedTable t mean var).cells[i]? = some (some r) ∧ (decoded t)[i]? = some old ∧
      ∀ k, k ≠ "mn" → k ≠ "vr" → get k r = get k old := by
  have hd : i < (decoded t).length := by rw [length_decoded]; exact hi
  have h1 : (decoded t)[i]? = some (decoded t)[i] := List.getElem?_eq_getElem hd
  have h2 : mean[i]? = some (mean[i]'(by omega)) := List.getElem?_eq_getElem (by omega)
  have h3 : var[i]? = some (var[i]'(by omega)) := List.getElem?_eq_getElem (by omega)
  refine ⟨mergeTime (decoded t)[i] (mean[i]'(by omega)) (var[i]'(by omega)), (decoded t)[i], ?_, h1, ?_⟩
  · simp [mergedTable, getElem?_mergedRows _ _ _ i _ _ _ h1 h2 h3]
  · intro k hk1 hk2
    exact get_mergeTime_other _ _ _ k hk1 hk2

/-- **Whenever mn/vr are written, every row carries them**: if the outcome is `merged` or
`replaced` (and the code's own assertion `len(mean) == len(var) == num_rows` holds) the table has the
same number of rows and row `i` holds `mn = mean[i]` and `vr = var[i]`, for every `i`. -/
theorem written_everywhere (admits : S → Row V → Bool) (dflt : S) (sm : SetMd) (t : Table S V)
    (mean var : List V) (hd : ∀ mn vr, admits dflt (mergeTime [] mn vr) = true)
    (hm : mean.length = t.cells.length) (hv : var.length = t.cells.length)
    (hw : (setTimeMetadata admits dflt sm t mean (some var)).outcome = .merged ∨
          (setTimeMetadata admits dflt sm t mean (some var)).outcome = .replaced) :
    (setTimeMetadata admits dflt sm t mean (some var)).table.cells.length = t.cells.length ∧
    ∀ i (hi : i < t.cells.length), ∃ r,
      (setTimeMetadata admits dflt sm t mean (some var)).table.cells[i]? = some (some r) ∧
      get "mn" r = some (mean[i]'(by omega)) ∧ get "vr" r = some (var[i]'(by omega)) := by
  have key : ∀ (rows : List (Row V)), rows.length = t.cells.length →
      ((mergedRows rows mean var).map some).length = t.cells.length ∧
      ∀ i (hi : i < t.cells.length), ∃ r,
        ((mergedRows rows mean var).map some)[i]? = some (some r) ∧
        get "mn" r = some (mean[i]'(by omega)) ∧ get "vr" r = some (var[i]'(by omega)) := by
    intro rows hr
    refine ⟨by simp [length_mergedRows]; omega, ?_⟩
    intro i hi
    have h1 : rows[i]? = some (rows[i]'(by omega)) := List.getElem?_eq_getElem (by omega)
    have h2 : mean[i]? = some (mean[i]'(by omega)) := List.getElem?_eq_getElem (by omega)
    have h3 : var[i]? = some (var[i]'(by omega)) := List.getElem?_eq_getElem (by omega)
    refine ⟨mergeTime (rows[i]'(by omega)) (mean[i]'(by omega)) (var[i]'(by omega)), ?_,
      get_mergeTime_mn _ _ _, get_mergeTime_vr _ _ _⟩
    simp [getElem?_mergedRows _ _ _ i _ _ _ h1 h2 h3]
  rcases all_or_nothing admits dflt sm t mean (some var) hd with ⟨_, ho⟩ | ⟨v, hv', hR⟩ | ⟨v, hv', hR⟩
  · rcases ho with ho | ho <;> rcases hw with hw | hw <;> rw [ho] at hw <;> cases hw
  · cases hv'
    rw [hR]
    exact key (decoded t) (length_decoded t)
  · cases hv'
    rw [hR]
    exact key (t.cells.map (fun _ => [])) (by simp)

/-- Scope marker (not a defect of the policy itself): with `set_metadata=True` a method that
yields no variance still writes nothing — `maximization` on nodes, `inside_outside` on mutations. -/
theorem force_without_variance_writes_nothing :
    Method.nodeVar .maximization = false ∧ Method.mutVar .insideOutside = false ∧
    ∀ (admits : S → Row V → Bool) (dflt : S) (t : Table S V) (mean : List V),
      (setTimeMetadata admits dflt .force t mean none).table = t := by
  refine ⟨rfl, rfl, ?_⟩
  intro admits dflt t mean
  rw [no_variance_untouched]

/-! ### Non-vacuity: concrete tables on which each branch is taken (executable validator `Spec`). -/

private def permissive : Spec := ⟨"perm", none, [], []⟩
private def dfltSpec : Spec := ⟨"default", none, [], [("mn", 'n'), ("vr", 'n')]⟩
private def forbid : Spec := ⟨"forbid", some ["name"], [], [("name", 's')]⟩

private def n (b : String) : TV := ⟨'n', b⟩
private def str (b : String) : TV := ⟨'s', b⟩

/-- the hypothesis `hd` holds of the executable validator whenever mn/vr are numbers -/
example : ∀ mn vr : TV, mn.tag = 'n' → vr.tag = 'n' →
    dfltSpec.admits (mergeTime [] mn vr) = true := by
  intro mn vr h1 h2
  simp [Spec.admits, dfltSpec, mergeTime, upsert, Metadata.get, h1, h2]

-- merged: a permissive table with a stale `mn` and another field; the other field survives
example : (setTimeMetadata Spec.admits dfltSpec .auto
      ⟨some permissive, [some [("name", str "A"), ("mn", n "0")], none]⟩ [n "1", n "2"]
      (some [n "3", n "4"]))
    = ⟨⟨some permissive, [some [("name", str "A"), ("mn", n "1"), ("vr", n "3")],
                          some [("mn", n "2"), ("vr", n "4")]]⟩, .merged⟩ := by decide +kernel

-- warned: schema forbids extra fields, set_metadata=None
example : (setTimeMetadata Spec.admits dfltSpec .auto
      ⟨some forbid, [some [("name", str "A")]]⟩ [n "1"] (some [n "3"]))
    = ⟨⟨some forbid, [some [("name", str "A")]]⟩, .warned⟩ := by decide +kernel

-- replaced: same table, set_metadata=True
example : (setTimeMetadata Spec.admits dfltSpec .force
      ⟨some forbid, [some [("name", str "A")]]⟩ [n "1"] (some [n "3"]))
    = ⟨⟨some dfltSpec, [some [("mn", n "1"), ("vr", n "3")]]⟩, .replaced⟩ := by decide +kernel

-- replaced under None: no schema, no bytes
example : (setTimeMetadata Spec.admits dfltSpec .auto
      ⟨none, [none, none]⟩ [n "1", n "2"] (some [n "3", n "4"]))
    = ⟨⟨some dfltSpec, [some [("mn", n "1"), ("vr", n "3")], some [("mn", n "2"), ("vr", n "4")]]⟩,
        .replaced⟩ := by decide +kernel

-- all-or-nothing: the second row fails validation (required `name` missing) ⇒ first row NOT rewritten
example : (setTimeMetadata Spec.admits dfltSpec .auto
      ⟨some ⟨"req", none, ["name"], []⟩, [some [("name", str "A")], some [("x", str "B")]]⟩
      [n "1", n "2"] (some [n "3", n "4"])).table
    = ⟨some ⟨"req", none, ["name"], []⟩, [some [("name", str "A")], some [("x", str "B")]]⟩ := by
  decide +kernel

end Tsdate.C32
