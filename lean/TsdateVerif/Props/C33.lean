/-
C33 — provenance records each call exactly once.

`Gen/ProvParams.lean` is regenerated from tsdate/core.py, util.py, provenance.py on every run
(translate/provparams.py): the provenance-affecting call sites reachable from each public entry
point (`date`, `variational_gamma`, `inside_outside`, `maximization`, `preprocess_ts`,
`split_disjoint_nodes`), the number of static call chains reaching a `record_provenance(...)`
call, the signatures, and the keys actually put in the record.

Model (Model/Provenance.lean): the provenance table is a list; a run executes some of the entry's
sites, in some order (`path`); a site appends a row iff its flag fires.  The theorems hold for
every old table `prov` (any records, any number) and every row constructor `mk`.
-/
import TsdateVerif.Proofs.Provenance
import TsdateVerif.Gen.ProvParams

namespace Tsdate.C33
open Tsdate.Provenance Tsdate.Gen.ProvParams

/-- the sites of one entry point that act on the table -/
def entrySites (e : String) : List Site := opSites (sites.filter (fun s => s.entry == e))

/-- **Static facts, re-proved on every run from the regenerated site table**: for every public
entry point (1) every `record_provenance(...)` call is guarded by the caller's flag, every tskit call
that would record by default (`simplify`, `delete_intervals`, …) and every nested tsdate call is
given a literal `record_provenance=False`, and `provenances.add_row` occurs only inside
`provenance.record_provenance`; (2) exactly one static call chain leads from the entry point to a
`record_provenance(...)` call and it passes through no loop; (3) `record_provenance` performs a
single `add_row(record=json.dumps(record))`, `get_provenance_dict` builds
`dict(kwargs) + {"command": command}`, and `json.dumps` is given a `default=` hook turning numpy
scalars/arrays into plain values (commit 96bcc3b); (4) `self.provenance_params` is assigned only in
`__init__` (to `None`, and to the dict under `if record_provenance`), and `None` defaults to on. -/
theorem prov_static_once :
    (∀ e ∈ entries, sitesOk (sites.filter (fun s => s.entry == e)) = true) ∧
    (∀ e ∈ entries, (e, 1, false) ∈ recordChains) ∧
    (∀ e ∈ entries, ((entrySites e).filter Site.isRecord).length = 1) ∧
    singleAddRow = true ∧ provenanceDictShapeOk = true ∧ jsonNumpyHook = true ∧
    (paramsAssigns.map (fun a => (a.1, a.2.1)) =
      [("core.EstimationMethod.__init__", []), ("core.EstimationMethod.__init__", ["record_provenance"])]) ∧
    recordDefaultTrue = true := by
  refine ⟨?_, ?_, ?_, ?_, ?_, ?_, ?_, ?_⟩ <;> decide +kernel

/-- **`record_provenance=None` behaves as `True`**: the flag the sites see is `resolveFlag`, which maps
`None` (passed explicitly or left out) to on; together with `recordDefaultTrue` (the
`if record_provenance is None: record_provenance = True` line is present in `__init__`, part of
`prov_static_once`) a run with `None` appends exactly the record a run with `True` appends. -/
theorem prov_none_is_on {R : Type} (mk : Site → R) (prov : List R) (path : List Site) :
    resolveFlag none = true ∧ resolveFlag (some true) = true ∧ resolveFlag (some false) = false ∧
    execPath (resolveFlag none) mk prov path = execPath (resolveFlag (some true)) mk prov path :=
  ⟨rfl, rfl, rfl, rfl⟩

/-- **Earlier records are kept**: for any entry point, any set/order/multiplicity of executed
sites and either value of the flag, the old table is a prefix of the new one (identical rows, same
order).  Holds without any hypothesis on the sites. -/
theorem prov_prefix_kept {R : Type} (user : Bool) (mk : Site → R) (path : List Site) (prov out : List R)
    (h : execPath user mk prov path = some out) : ∃ suffix, out = prov ++ suffix :=
  execPath_prefix user mk path prov out h

/-- **Exactly one record is appended when recording is on**: on any run of a public entry point
that executes sites of that entry (any subset, any order) and passes through its
`record_provenance(...)` call once, the new table is the old table followed by exactly that one
record. -/
theorem prov_append_one {R : Type} (mk : Site → R) (e : String) (he : e ∈ entries) (path : List Site)
    (hp : ∀ s ∈ path, s ∈ entrySites e) (s0 : Site) (h1 : path.filter Site.isRecord = [s0])
    (prov : List R) : execPath true mk prov path = some (prov ++ [mk s0]) := by
  have hok := sitesOk_spec _ (prov_static_once.1 e he)
  have := execPath_wf true mk path prov (fun s hs hr => hok.1 s (hp s hs) hr)
    (fun s hs hr => hok.2 s (hp s hs) hr)
  simpa [h1] using this

/-- **With recording off the provenance table is unchanged**, whatever sites the run executes. -/
theorem prov_off_unchanged {R : Type} (mk : Site → R) (e : String) (he : e ∈ entries) (path : List Site)
    (hp : ∀ s ∈ path, s ∈ entrySites e) (prov : List R) : execPath false mk prov path = some prov := by
  have hok := sitesOk_spec _ (prov_static_once.1 e he)
  have := execPath_wf false mk path prov (fun s hs hr => hok.1 s (hp s hs) hr)
    (fun s hs hr => hok.2 s (hp s hs) hr)
  simpa using this

/-- **The record names the method and the parameters of `run()`**, for every method, every
passed-argument assignment and every normalisation of `population_size`: `parameters["command"]` is
the method name; every parameter of the method's `run()` is present with the value the method
function hands to `run` (the caller's value, or the documented default when the caller passed
`None`); the generic parameters recorded by `__init__` are present with the caller's value — and these
include every result-affecting keyword of `date()` other than `priors`: `mutation_rate`,
`recombination_rate`, `time_units`, `population_size`, and (since commit adc1393) `constr_iterations`,
`min_branch_length`, `allow_unary`, `set_metadata`.
The static side conditions (run() records its own `locals()` first thing; no key is called
`command`; init keys and run parameters are disjoint; every run parameter is fed by the public
parameter of the same name) are re-proved from the regenerated tables. -/
theorem prov_params_complete :
    (∀ mi ∈ methods, mi.runRecordsLocals = true ∧ "command" ∉ initRecorded ++ mi.runParams ∧
        (∀ k ∈ mi.runParams, k ∉ initRecorded ∧ (k, k) ∈ mi.runMap ∧ k ∈ mi.fnParams) ∧
        (∀ k ∈ initRecorded, k ∈ sigInit)) ∧
    (∀ k ∈ ["mutation_rate", "recombination_rate", "time_units", "population_size", "constr_iterations",
            "min_branch_length", "allow_unary", "set_metadata"], k ∈ initRecorded) ∧
    (∀ mi ∈ methods, ∀ (passed : String → PVal) (normPop : PVal → PVal),
        dget "command" (dateParameters initRecorded mi passed normPop) = some (PVal.str mi.name) ∧
        (∀ k ∈ mi.runParams, dget k (dateParameters initRecorded mi passed normPop)
            = some (resolve mi passed (lookupD k mi.runMap))) ∧
        (∀ k ∈ initRecorded, dget k (dateParameters initRecorded mi passed normPop)
            = some (if k = "population_size" then normPop (passed k) else passed k))) := by
  have hstat : ∀ mi ∈ methods, mi.runRecordsLocals = true ∧ "command" ∉ initRecorded ++ mi.runParams ∧
      (∀ k ∈ mi.runParams, k ∉ initRecorded ∧ (k, k) ∈ mi.runMap ∧ k ∈ mi.fnParams) ∧
      (∀ k ∈ initRecorded, k ∈ sigInit) := by decide +kernel
  refine ⟨hstat, by decide +kernel, ?_⟩
  intro mi hmi passed normPop
  obtain ⟨_, hcmd, hrun, _⟩ := hstat mi hmi
  have hcmd1 : "command" ∉ initRecorded := fun h => hcmd (List.mem_append_left _ h)
  have hcmd2 : "command" ∉ mi.runParams := fun h => hcmd (List.mem_append_right _ h)
  refine ⟨?_, ?_, ?_⟩
  · simp [dateParameters, dget_dset_same]
  · intro k hk
    have hne : k ≠ "command" := fun h => hcmd2 (h ▸ hk)
    simp only [dateParameters]
    rw [dget_dset_other _ _ _ _ hne]
    rw [dget_dupdate_map (fun k => resolve mi passed (lookupD k mi.runMap)) k mi.runParams]
    simp [hk]
  · intro k hk
    have hne : k ≠ "command" := fun h => hcmd1 (h ▸ hk)
    have hnr : k ∉ mi.runParams := fun h => (hrun k h).1 hk
    simp only [dateParameters]
    rw [dget_dset_other _ _ _ _ hne]
    rw [dget_dupdate_map (fun k => resolve mi passed (lookupD k mi.runMap)) k mi.runParams]
    rw [if_neg hnr]
    rw [dget_dupdate_map (fun k => if k = "population_size" then normPop (passed k) else passed k) k initRecorded]
    simp [hk]

/-- **The `preprocess_ts` record names the function and every parameter it used**, for every
passed-argument assignment, every computed interval list and every set of extra keywords:
`command` is `preprocess_ts`; each recorded keyword holds the value of the local of the same name
at that point (defaults resolved: `minimum_gap`, `erase_flanks`, `split_disjoint`; the
`remove_telomeres` alias; the computed `delete_intervals`); and (since commit adc1393) every extra
keyword handed on to `simplify` is recorded with the value passed, provided it does not collide
with a named key. -/
theorem prov_preprocess_params_complete (passed : String → PVal) (computed : PVal)
    (extraKeys : List String) (extraVal : String → PVal)
    (hx : ∀ k ∈ extraKeys, k ≠ "command" ∧ k ∉ preprocessRecorded.map Prod.fst) :
    preprocessRecordsVarKw = true ∧ preprocessCommand = "preprocess_ts" ∧
    dget "command" (preprocessParameters preprocessRecorded preprocessRecordsVarKw passed computed extraKeys extraVal)
      = some (PVal.str "preprocess_ts") ∧
    (∀ k ∈ preprocessRecorded.map Prod.fst, k ∉ extraKeys →
      dget k (preprocessParameters preprocessRecorded preprocessRecordsVarKw passed computed extraKeys extraVal)
        = some (preprocessLocal passed computed k)) ∧
    (∀ k ∈ extraKeys,
      dget k (preprocessParameters preprocessRecorded preprocessRecordsVarKw passed computed extraKeys extraVal)
        = some (extraVal k)) := by
  have hvar : preprocessRecordsVarKw = true := by decide +kernel
  have hid : ∀ kv ∈ preprocessRecorded, kv.1 = kv.2 := by decide +kernel
  have hcmd : "command" ∉ preprocessRecorded.map Prod.fst := by decide +kernel
  have hnamed : preprocessRecorded.map (fun kv => (kv.1, preprocessLocal passed computed kv.2))
      = (preprocessRecorded.map Prod.fst).map (fun k => (k, preprocessLocal passed computed k)) := by
    rw [List.map_map]
    apply List.map_congr_left
    intro kv hkv
    simp [hid kv hkv]
  refine ⟨hvar, by decide +kernel, ?_, ?_, ?_⟩
  · simp [preprocessParameters, dget_dset_same]
  · intro k hk hnx
    have hne : k ≠ "command" := fun h => hcmd (h ▸ hk)
    simp only [preprocessParameters, hvar, if_true]
    rw [dget_dset_other _ _ _ _ hne, dget_dupdate_map extraVal k extraKeys, if_neg hnx, hnamed,
      dget_dupdate_map (fun k => preprocessLocal passed computed k) k]
    simp [hk]
  · intro k hk
    have hne : k ≠ "command" := (hx k hk).1
    simp only [preprocessParameters, hvar, if_true]
    rw [dget_dset_other _ _ _ _ hne, dget_dupdate_map extraVal k extraKeys]
    simp [hk]

/-- **The record names exactly the parameters of this call — nothing foreign, nothing stale**: for
every method and every call, the keys of `parameters`, in order, are the generic keys recorded by
`__init__`, then the parameters of that method's `run()`, then `command`; for `preprocess_ts` they
are its recorded keywords, then the extra keywords of this call, then `command`.  So a key in the
record is always a parameter of the function called (or an option passed to it): no key of another
method or of an earlier call can appear. -/
theorem prov_params_exact :
    (∀ mi ∈ methods, ∀ (passed : String → PVal) (normPop : PVal → PVal),
        dkeys (dateParameters initRecorded mi passed normPop) = initRecorded ++ mi.runParams ++ ["command"]) ∧
    (∀ (passed : String → PVal) (computed : PVal) (extraKeys : List String) (extraVal : String → PVal),
        extraKeys.Nodup → (∀ k ∈ extraKeys, k ≠ "command" ∧ k ∉ preprocessRecorded.map Prod.fst) →
        dkeys (preprocessParameters preprocessRecorded preprocessRecordsVarKw passed computed extraKeys extraVal)
          = preprocessRecorded.map Prod.fst ++ extraKeys ++ ["command"]) := by
  constructor
  · intro mi hmi passed normPop
    have hnd : ∀ mi ∈ methods, (initRecorded ++ mi.runParams ++ ["command"]).Nodup := by decide +kernel
    have h := hnd mi hmi
    rw [List.nodup_append] at h
    obtain ⟨h12, _, hc⟩ := h
    rw [List.nodup_append] at h12
    obtain ⟨h1, h2, hdis⟩ := h12
    simp only [dateParameters]
    have e1 := dkeys_dupdate_map (fun k => if k = "population_size" then normPop (passed k) else passed k)
      initRecorded [] h1 (by simp [dkeys])
    have e2 := dkeys_dupdate_map (fun k => resolve mi passed (lookupD k mi.runMap)) mi.runParams
      (dupdate [] (initRecorded.map (fun k => (k, if k = "population_size" then normPop (passed k) else passed k))))
      h2 (by rw [e1]; intro k hk hm; exact hdis k (by simpa [dkeys] using hm) k hk rfl)
    rw [dkeys_dset_new, e2, e1]
    · simp [dkeys]
    · rw [e2, e1]
      intro hm
      exact hc "command" (by simpa [dkeys] using hm) "command" (by simp) rfl
  · intro passed computed extraKeys extraVal hnd hx
    have hvar : preprocessRecordsVarKw = true := by decide +kernel
    have hid : ∀ kv ∈ preprocessRecorded, kv.1 = kv.2 := by decide +kernel
    have hrn : (preprocessRecorded.map Prod.fst).Nodup := by decide +kernel
    have hcmd : "command" ∉ preprocessRecorded.map Prod.fst := by decide +kernel
    have hnamed : preprocessRecorded.map (fun kv => (kv.1, preprocessLocal passed computed kv.2))
        = (preprocessRecorded.map Prod.fst).map (fun k => (k, preprocessLocal passed computed k)) := by
      rw [List.map_map]
      apply List.map_congr_left
      intro kv hkv
      simp [hid kv hkv]
    simp only [preprocessParameters, hvar, if_true, hnamed]
    have e1 := dkeys_dupdate_map (fun k => preprocessLocal passed computed k) (preprocessRecorded.map Prod.fst) []
      hrn (by simp [dkeys])
    have e2 := dkeys_dupdate_map extraVal extraKeys
      (dupdate [] ((preprocessRecorded.map Prod.fst).map (fun k => (k, preprocessLocal passed computed k))))
      hnd (by rw [e1]; intro k hk hm; exact (hx k hk).2 (by simpa [dkeys] using hm))
    rw [dkeys_dset_new, e2, e1]
    · simp [dkeys]
    · rw [e2, e1]
      intro hm
      rcases List.mem_append.mp hm with h | h
      · exact hcmd (by simpa [dkeys] using h)
      · exact (hx "command" h).1 rfl

/-- **Which public keyword parameters never reach the record** (exact lists, regenerated).
Of `EstimationMethod.__init__` (the parameters `date()` forwards): `priors` (finding: a
user-supplied prior replaces `population_size` but leaves no trace), the return-shape switches
`return_likelihood`/`return_fit`, `record_provenance` itself and the deprecated `return_posteriors`.
Of the method functions' own parameters: `priors` and the deprecated aliases.  Of `preprocess_ts`:
`record_provenance` and the `remove_telomeres` alias (recorded as `erase_flanks`); its `**kwargs`
are recorded. -/
theorem prov_unrecorded_public_params :
    sigInit.filter (fun p => !initRecorded.contains p)
      = ["priors", "return_likelihood", "return_fit", "record_provenance", "return_posteriors"] ∧
    methods.map (fun mi => (mi.name, mi.fnParams.filter (fun p =>
        !initRecorded.contains p && !(mi.runMap.map Prod.snd).contains p)))
      = [("inside_outside", ["priors", "Ne"]), ("maximization", ["priors", "Ne"]), ("variational_gamma", ["eps"])] ∧
    preprocessParams.filter (fun p => !(preprocessRecorded.map Prod.snd).contains p)
      = ["record_provenance", "remove_telomeres"] ∧
    preprocessVarKw = true ∧ preprocessRecordsVarKw = true ∧
    (∀ p ∈ sigDate, p = "method" ∨ p ∈ dateForwarded) ∧ dateForwardsKwargs = true := by
  refine ⟨?_, ?_, ?_, ?_, ?_, ?_, ?_⟩ <;> decide +kernel

/-! ### Non-vacuity -/

-- every entry point has exactly one record site and (for preprocess_ts) several switched-off sites
example : (entrySites "preprocess_ts").length = 5 ∧ (entrySites "date").length ≥ 1 := by decide +kernel

-- a concrete run of preprocess_ts: delete_intervals, simplify, split_disjoint_nodes, then the record
example : execPath true (fun s => s.kind) ["old0", "old1"] (entrySites "preprocess_ts")
    = some ["old0", "old1", "record"] := by decide +kernel

-- if `simplify` were called without `record_provenance=False` the table would get two rows
example : execPath true (fun s => s.kind) ["old"]
      [⟨"preprocess_ts", "util.preprocess_ts", "lib:simplify", Flag.absent, []⟩,
       ⟨"preprocess_ts", "util.preprocess_ts", "record", Flag.user, ["record_provenance"]⟩]
    = some ["old", "lib:simplify", "record"] := by decide +kernel

-- the parameters of a variational_gamma record: defaults resolved, command last
example : dateParameters ["mutation_rate", "population_size"]
      { name := "vg", cls := "C", fnParams := ["mutation_rate", "max_iterations"], fnVarKw := true,
        runParams := ["max_iterations"], runRecordsLocals := true, runMap := [("max_iterations", "max_iterations")],
        ctorMap := [], ctorVarKw := true, defaults := [("max_iterations", PVal.int 25)] }
      (fun k => if k = "mutation_rate" then PVal.flt "0x1p-10" else PVal.none) id
    = [("mutation_rate", PVal.flt "0x1p-10"), ("population_size", PVal.none), ("max_iterations", PVal.int 25),
       ("command", PVal.str "vg")] := by decide +kernel

end Tsdate.C33
