/-
C29 — splitting disjoint nodes preserves every local tree
(models: `Split.splitDisjoint` = `_split_disjoint_nodes`, `Split.relabelMutations` =
`_relabel_mutations_node`, tsdate/util.py).

Reading guide.  `es` is the input edge table, `excl` the `node_excluded` mask (`NODE_IS_SAMPLE`),
`ord` is `np.argsort(edges_left)` — *any* enumeration of the edge ids sorted by left coordinate
(`Split.Valid`), so the theorems cover whatever tie-breaking numba's unstable sort performs.
`o := splitDisjoint N excl es ord` is what the kernel returns: `o.parent`, `o.child` (relabelled
edge columns), `o.order` (`nodes_order`), `o.split` (`split_nodes`).  `orig o v = nodes_order[v]`,
`oldNode es e r` / `newNode o e r` are the endpoints of edge `e` (r = false: parent, true: child)
before / after.  Coordinates live in any linear order `α`.

What is *not* here: the node-table copy (`_reorder_nodes`: column[order]), metadata, `tables.sort()`,
`compute_mutation_parents` are tskit/numpy by contract and checked on the implementation by the
oracle of harness/props/c29.py; "genotypes unchanged" is proved as `genotype_carriers_preserved` (the
set of samples below each mutation is unchanged); that tskit decodes alleles from these sets is its
contract, and the decoded genotypes are compared by the oracle.
-/
import Mathlib.Tactic.IntervalCases
import TsdateVerif.Proofs.SplitGeno
import TsdateVerif.Proofs.SplitMeta

namespace Tsdate.C29
open Tsdate Tsdate.Split
set_option linter.unusedSectionVars false
set_option linter.unusedVariables false

variable {α : Type} [Inhabited α] [LinearOrder α]
variable {N : Nat} (excl : Array Bool) {es : Array (SEdge α)} {ord : List Nat}

/-- **Shape of `nodes_order`.** It is `0 … N-1` followed by `split_nodes`; original ids map to
themselves; every new node is a copy of a non-sample input node. -/
theorem order_shape (hv : Valid N es ord) :
    (splitDisjoint N excl es ord).order = List.range N ++ (splitDisjoint N excl es ord).split ∧
    (∀ v, v < N → orig (splitDisjoint N excl es ord) v = v) ∧
    (∀ n ∈ (splitDisjoint N excl es ord).split, n < N ∧ aget excl n = false) := by
  refine ⟨rfl, ?_, split_mem excl hv⟩
  intro v hv'
  show (List.range N ++ _).getD v 0 = v
  rw [List.getD_eq_getElem?_getD, List.getElem?_append_left (by simpa using hv')]
  simp [hv']

/-- **Every relabelled endpoint maps back to the original endpoint**:
`nodes_order[new_parent[e]] = parent[e]`, `nodes_order[new_child[e]] = child[e]`. -/
theorem maps_back (hv : Valid N es ord) (e : Nat) (he : e < es.size) (r : Bool) :
    orig (splitDisjoint N excl es ord) (newNode (splitDisjoint N excl es ord) e r) = oldNode es e r :=
  orig_newNode excl hv e he r

/-- **Per-position tree isomorphism.**  At every position `x`, mapping every node of the output
local tree back through `nodes_order` gives exactly the input local tree (same parent→child pairs,
in the same order), and the map is injective on the nodes of that tree: two endpoints present at `x`
that come from the same input node are the same output node.  So the output tree at `x` is the input
tree at `x` with some nodes renamed. -/
theorem tree_iso (hv : Valid N es ord) (x : α) :
    (treeAt (outEdges es (splitDisjoint N excl es ord)) x).map
        (fun pc => (orig (splitDisjoint N excl es ord) pc.1, orig (splitDisjoint N excl es ord) pc.2))
      = treeAt es x ∧
    (∀ e e' r r', e < es.size → e' < es.size → covers es e x → covers es e' x →
      orig (splitDisjoint N excl es ord) (newNode (splitDisjoint N excl es ord) e r)
        = orig (splitDisjoint N excl es ord) (newNode (splitDisjoint N excl es ord) e' r') →
      newNode (splitDisjoint N excl es ord) e r = newNode (splitDisjoint N excl es ord) e' r') := by
  refine ⟨treeAt_out excl hv x, ?_⟩
  intro e e' r r' he he' hc hc' ho
  rw [orig_newNode excl hv e he r, orig_newNode excl hv e' he' r'] at ho
  exact same_piece_of_overlap excl hv e e' he he' r r' ho x hc hc'

/-- **Contiguity.**  In the output edge table every node that is not (a piece of) a sample is present
on an *interval* of positions: if `y` lies between the left end of one of its edges and the right
end of another (as parent or child), some edge of that node covers `y`. -/
theorem segments_contiguous (hv : Valid N es ord) :
    Contig (fun v => aget (exclOut excl (splitDisjoint N excl es ord)) v)
      (outEdges es (splitDisjoint N excl es ord)).toList :=
  out_contig excl hv

/-- **Pieces do not touch.** Two different output nodes that come from the same input node are
separated by a genuine gap (strict inequality), so no position sees both. -/
theorem pieces_disjoint (hv : Valid N es ord) (e e' : Nat) (he : e < es.size) (he' : e' < es.size)
    (r r' : Bool) (hsame : oldNode es e r = oldNode es e' r')
    (hne : newNode (splitDisjoint N excl es ord) e r ≠ newNode (splitDisjoint N excl es ord) e' r') :
    (aget es e).right < (aget es e').left ∨ (aget es e').right < (aget es e).left :=
  pieces_separated excl hv e e' he he' r r' hsame hne

/-- **The leftmost piece keeps the id.** If an endpoint was renumbered then, strictly to the left of
that edge, there is an edge of the same input node whose endpoint kept the original id. -/
theorem leftmost_keeps_id (hv : Valid N es ord) (e : Nat) (he : e < es.size) (r : Bool)
    (hne : newNode (splitDisjoint N excl es ord) e r ≠ oldNode es e r) :
    ∃ e0 r0, e0 < es.size ∧ oldNode es e0 r0 = oldNode es e r ∧
      newNode (splitDisjoint N excl es ord) e0 r0 = oldNode es e r ∧
      (aget es e0).right < (aget es e).left :=
  leftmost excl hv e he r hne

/-- **Samples are never split.** -/
theorem samples_keep_id (hv : Valid N es ord) (e : Nat) (he : e < es.size) (r : Bool)
    (hx : aget excl (oldNode es e r) = true) :
    newNode (splitDisjoint N excl es ord) e r = oldNode es e r :=
  newNode_of_excl excl hv e he r hx

/-- **Contiguous input is returned unchanged** (no new nodes, same edge columns). -/
theorem noop_on_contiguous (hv : Valid N es ord) (hc : Contig (fun n => aget excl n) es.toList) :
    splitDisjoint N excl es ord =
      { parent := (List.range es.size).map (fun e => (aget es e).parent),
        child := (List.range es.size).map (fun e => (aget es e).child),
        order := List.range N, split := [] } :=
  split_noop excl hv hc

/-- **Idempotence.**  Feed the output back — the relabelled edge rows in *any* row order `es'`
(`tables.sort()` permutes them), any admissible `argsort` `ord'`, the sample mask copied to the
pieces: nothing is split and every edge keeps its endpoints. -/
theorem idempotent (hv : Valid N es ord) (es' : Array (SEdge α)) (ord' : List Nat)
    (hperm : es'.toList.Perm (outEdges es (splitDisjoint N excl es ord)).toList)
    (hv' : Valid (splitDisjoint N excl es ord).order.length es' ord') :
    splitDisjoint (splitDisjoint N excl es ord).order.length
        (exclOut excl (splitDisjoint N excl es ord)) es' ord' =
      { parent := (List.range es'.size).map (fun e => (aget es' e).parent),
        child := (List.range es'.size).map (fun e => (aget es' e).child),
        order := List.range (splitDisjoint N excl es ord).order.length, split := [] } := by
  apply split_noop _ hv'
  intro v hx d hd d' hd' ht ht' y hy1 hy2
  obtain ⟨d'', hd'', h⟩ := out_contig excl hv v hx d (hperm.mem_iff.mp hd) d' (hperm.mem_iff.mp hd')
    ht ht' y hy1 hy2
  exact ⟨d'', hperm.mem_iff.mpr hd'', h⟩

/-- Idempotence without re-sorting: same rows, same `ord`. -/
theorem idempotent_same_order (hv : Valid N es ord) :
    splitDisjoint (splitDisjoint N excl es ord).order.length
        (exclOut excl (splitDisjoint N excl es ord))
        (outEdges es (splitDisjoint N excl es ord)) ord =
      { parent := (splitDisjoint N excl es ord).parent, child := (splitDisjoint N excl es ord).child,
        order := List.range (splitDisjoint N excl es ord).order.length, split := [] } := by
  rw [idempotent excl hv _ ord (List.Perm.refl _) (out_valid excl hv)]
  have hsz := outEdges_size es (splitDisjoint N excl es ord)
  have hP : (splitDisjoint N excl es ord).parent.length = es.size := by simp [splitDisjoint]
  have hC : (splitDisjoint N excl es ord).child.length = es.size := by simp [splitDisjoint]
  congr 1
  · apply List.ext_getElem
    · simp [hsz, hP]
    · intro e h1 h2
      have he : e < es.size := by simpa [hsz] using h1
      simp only [List.getElem_map, List.getElem_range]
      rw [outEdges_get es _ e he]
      simp [newNode, List.getD_eq_getElem?_getD, List.getElem?_eq_getElem h2]
  · apply List.ext_getElem
    · simp [hsz, hC]
    · intro e h1 h2
      have he : e < es.size := by simpa [hsz] using h1
      simp only [List.getElem_map, List.getElem_range]
      rw [outEdges_get es _ e he]
      simp [newNode, List.getD_eq_getElem?_getD, List.getElem?_eq_getElem h2]

/-! ### The node table of the pieces -/

/-- **Copies keep time, population, individual, metadata row …**: every column written as
`column[nodes_order]` has, in row `v`, the input value of the node `v` was copied from. -/
theorem node_columns_copied {β : Type} [Inhabited β] (col : Array β) (o : Out) (v : Nat)
    (hv : v < o.order.length) : (reorderCol col o.order)[v]? = some (aget col (orig o v)) :=
  reorderCol_get col o v hv

/-- **Flags**: row `v` carries the input flags of its original node, plus the split flag exactly when
that node was split (all of its pieces, the leftmost one included). -/
theorem split_flag_spec (bit : Nat) (flags : Array Nat) (hv : Valid N es ord) (hf : flags.size = N)
    (v : Nat) (hlt : v < (splitDisjoint N excl es ord).order.length) :
    (outFlags bit flags (splitDisjoint N excl es ord))[v]? =
      some (if orig (splitDisjoint N excl es ord) v ∈ (splitDisjoint N excl es ord).split
            then aget flags (orig (splitDisjoint N excl es ord) v) ||| bit
            else aget flags (orig (splitDisjoint N excl es ord) v)) := by
  unfold outFlags
  rw [reorderCol_get _ _ v hlt, markSplit_get bit flags _
    (fun j hj => by rw [hf]; exact (split_mem excl hv j hj).1)]

/-! ### Node metadata (`unsplit_node_id` "where possible")

`rows` = the raw metadata rows of the input node table, `enc u` = row `u` decoded, given the key
`unsplit_node_id = u` and re-encoded by the table's schema (`none` = the codec refuses: no schema, a
struct schema without that field, a JSON schema that forbids it), `isEmpty`/`empty` = the empty row.
The codec is tskit's and a parameter here; the harness supplies the real one. -/

/-- **Every piece of every split node carries `unsplit_node_id` = its original id whenever the schema
can store the key** (`enc` succeeds on all split nodes): the leftmost piece and all copies of a split
node get the re-encoded row, every other node keeps its row — also when all input rows are empty. -/
theorem split_nodes_carry_unsplit_id {β : Type} [Inhabited β] (isEmpty : β → Bool) (empty : β)
    (hE : ∀ b, isEmpty b = true → b = empty) (rows : Array β) (enc : Nat → Option β)
    (hv : Valid N es ord) (hrows : rows.size = N)
    (hok : ∀ u ∈ (splitDisjoint N excl es ord).split, (enc u).isSome = true)
    (v : Nat) (hlt : v < (splitDisjoint N excl es ord).order.length) :
    (orig (splitDisjoint N excl es ord) v ∈ (splitDisjoint N excl es ord).split →
      (outMetadata isEmpty empty rows (splitDisjoint N excl es ord).order
        (extraMd enc (splitDisjoint N excl es ord).split))[v]? = enc (orig (splitDisjoint N excl es ord) v)) ∧
    (orig (splitDisjoint N excl es ord) v ∉ (splitDisjoint N excl es ord).split →
      (outMetadata isEmpty empty rows (splitDisjoint N excl es ord).order
        (extraMd enc (splitDisjoint N excl es ord).split))[v]? =
        some (aget rows (orig (splitDisjoint N excl es ord) v))) := by
  have h := metadata_row excl isEmpty empty hE rows enc hv hrows v hlt
  rw [okPrefix_all enc _ hok] at h
  constructor
  · intro hm
    rw [h, if_pos hm]
    obtain ⟨b, hb⟩ := Option.isSome_iff_exists.mp (hok _ hm)
    rw [hb]; rfl
  · intro hm
    rw [h, if_neg hm]; rfl

/-- **Where it is impossible nothing is touched**: if the codec refuses the first split node (and
with no schema / a struct schema it refuses every node) the `try` ends at once and every output row
is the original row of the node it was copied from (the code logs its warning). -/
theorem metadata_kept_when_impossible {β : Type} [Inhabited β] (isEmpty : β → Bool) (empty : β)
    (hE : ∀ b, isEmpty b = true → b = empty) (rows : Array β) (enc : Nat → Option β)
    (hv : Valid N es ord) (hrows : rows.size = N)
    (hfail : ∀ u us, (splitDisjoint N excl es ord).split = u :: us → enc u = none)
    (v : Nat) (hlt : v < (splitDisjoint N excl es ord).order.length) :
    (outMetadata isEmpty empty rows (splitDisjoint N excl es ord).order
        (extraMd enc (splitDisjoint N excl es ord).split))[v]? =
      some (aget rows (orig (splitDisjoint N excl es ord) v)) := by
  have h := metadata_row excl isEmpty empty hE rows enc hv hrows v hlt
  have hp : okPrefix enc (splitDisjoint N excl es ord).split = [] := by
    cases hs : (splitDisjoint N excl es ord).split with
    | nil => rfl
    | cons u us => exact okPrefix_head_fail enc u us (hfail u us hs)
  rw [hp] at h
  rw [h]; simp

/-- The general case: exactly the split nodes that the `try` loop reaches *before its first failure*
(`okPrefix`) get the key. -/
theorem metadata_rows_general {β : Type} [Inhabited β] (isEmpty : β → Bool) (empty : β)
    (hE : ∀ b, isEmpty b = true → b = empty) (rows : Array β) (enc : Nat → Option β)
    (hv : Valid N es ord) (hrows : rows.size = N) (v : Nat)
    (hlt : v < (splitDisjoint N excl es ord).order.length) :
    (outMetadata isEmpty empty rows (splitDisjoint N excl es ord).order
        (extraMd enc (splitDisjoint N excl es ord).split))[v]? =
      some ((if orig (splitDisjoint N excl es ord) v ∈ okPrefix enc (splitDisjoint N excl es ord).split
              then enc (orig (splitDisjoint N excl es ord) v) else none).getD
            (aget rows (orig (splitDisjoint N excl es ord) v))) :=
  metadata_row excl isEmpty empty hE rows enc hv hrows v hlt

/-- Full-strength reading of "unsplit_node_id where possible": *every* piece of a split node whose
own row can take the key gets it. -/
def metadata_where_possible_statement : Prop :=
  ∀ (N : Nat) (excl : Array Bool) (es : Array (SEdge Nat)) (ord : List Nat) (rows : Array Nat)
    (enc : Nat → Option Nat), Valid N es ord → rows.size = N →
    ∀ v, v < (splitDisjoint N excl es ord).order.length →
      orig (splitDisjoint N excl es ord) v ∈ (splitDisjoint N excl es ord).split →
      (enc (orig (splitDisjoint N excl es ord) v)).isSome = true →
      (outMetadata (fun b => b == 0) 0 rows (splitDisjoint N excl es ord).order
        (extraMd enc (splitDisjoint N excl es ord).split))[v]? = enc (orig (splitDisjoint N excl es ord) v)

def exEdges2 : Array (SEdge Nat) := #[⟨0, 2, 2, 0⟩, ⟨0, 2, 3, 1⟩, ⟨5, 7, 2, 0⟩, ⟨5, 7, 3, 1⟩]

/-- **The full-strength statement is false of the code** (finding `unsplit-id-skipped-after-earlier-failure`):
the `try` encloses the whole loop, so after the first split node whose row cannot take the key, later
split nodes whose rows could take it are skipped too.  Witness: nodes 2 and 3 are both split, the
codec refuses node 2 and accepts node 3 (→ 9); node 3 keeps its old row 0. -/
theorem metadata_where_possible_false : ¬ metadata_where_possible_statement := by
  intro h
  have hval : Valid 4 exEdges2 [0, 1, 2, 3] := by
    refine ⟨by decide, by decide, ?_, by decide, ?_, ?_⟩ <;>
      (intro e he; have : e < 4 := he; interval_cases e <;> decide)
  have := h 4 #[true, true, false, false] exEdges2 [0, 1, 2, 3] #[0, 0, 0, 0]
    (fun u => if u = 3 then some 9 else none) hval rfl 3 (by decide +kernel) (by decide +kernel)
    (by decide +kernel)
  revert this
  decide +kernel

/-! ### Mutations (`_relabel_mutations_node`)

`insIdx` / `remIdx` are tskit's edge insertion / removal orders, `muts` the `(position, node)` pairs of
the mutation table in table order, `zero` the initial `left = 0.0` of the sweep. -/

/-- **The sweep computes its specification.** For sorted indexes the nested `while` loops of
`_relabel_mutations_node` terminate (the model's fuel suffices) and assign to every mutation
`nodes_map[node]` *as it is after inserting, in insertion order, exactly the edges whose left end is
`≤` the mutation's position* (falling back to the old id when that entry is still `NULL`).  In
particular a mutation exactly at a breakpoint sees the tree that starts there. -/
theorem mutation_sweep_spec (zero : α) (hv : Valid N es ord) (insIdx remIdx : List Nat)
    (muts : List (α × Nat)) (hvi : Valid N es insIdx) (hrem : RemOK es remIdx)
    (h0 : ∀ e, e < es.size → zero ≤ (aget es e).left)
    (hms : muts.Pairwise (fun a b => a.1 ≤ b.1)) (hm0 : ∀ m ∈ muts, zero ≤ m.1) :
    relabelMutations zero (splitDisjoint N excl es ord).order.toArray
        (insEvs es (splitDisjoint N excl es ord) insIdx)
        (remIdx.map (fun e => (aget es e).right)) muts =
      some (muts.map (fun m => assign (mapUpTo (splitDisjoint N excl es ord).order.toArray
        (insEvs es (splitDisjoint N excl es ord) insIdx) m.1) m.2)) :=
  relabel_refines zero _ _ _ muts
    (sweepOK_of_tables zero (splitDisjoint N excl es ord) insIdx remIdx muts hvi hrem h0 hms hm0)

/-- **Each mutation's new node maps back to its old node and is present at the mutation's position.**
For a mutation at `x` on node `u < N` the assigned output node `v` satisfies `nodes_order[v] = u`;
if `u` is in the local tree at `x` through edge `e` (as parent or child) then `v` is exactly the
output endpoint of `e`, i.e. the piece present at `x`; and if no edge of `u` starts at or left of `x`
(node not yet seen: isolated sample, site left of every edge of `u`) the mutation keeps the id `u`.
In between (node absent at `x` but seen before) it sits on the last piece that started left of `x` —
still a copy of `u` by the first clause. -/
theorem mutation_moves_to_present_piece (hv : Valid N es ord) (insIdx : List Nat)
    (hvi : Valid N es insIdx) (x : α) (u : Nat) (hu : u < N) :
    orig (splitDisjoint N excl es ord)
      (assign (mapUpTo (splitDisjoint N excl es ord).order.toArray
        (insEvs es (splitDisjoint N excl es ord) insIdx) x) u) = u ∧
    (∀ e r, e < es.size → oldNode es e r = u → covers es e x →
      assign (mapUpTo (splitDisjoint N excl es ord).order.toArray
        (insEvs es (splitDisjoint N excl es ord) insIdx) x) u = newNode (splitDisjoint N excl es ord) e r) ∧
    ((∀ e, e < es.size → ∀ r, oldNode es e r = u → x < (aget es e).left) →
      assign (mapUpTo (splitDisjoint N excl es ord).order.toArray
        (insEvs es (splitDisjoint N excl es ord) insIdx) x) u = u) := by
  refine ⟨assign_maps_back excl hv insIdx x u hu, ?_, assign_absent excl hv insIdx hvi x u⟩
  intro e r he hold hc
  rw [← hold]
  exact assign_present excl hv insIdx hvi x e he r hc

/-- **Ancestry inside every local tree is preserved.**  `Below es x a b` = in the tree at `x`, `a` is
`b` or a descendant of `b`.  For input nodes `a`, `b` that are in the tree at `x`, with `va`, `vb` the
output nodes they have there (`Piece`): `a` is below `b` iff `va` is below `vb` in the output tree. -/
theorem ancestry_preserved (hv : Valid N es ord) (x : α) (a b va vb : Nat)
    (ha : Piece excl N es ord x a va) (hb : Piece excl N es ord x b vb) :
    Below es x a b ↔ Below (outEdges es (splitDisjoint N excl es ord)) x va vb :=
  below_iff excl hv ha hb

/-- **Genotypes: the samples below a mutation are unchanged.**  For every sample `s`, every mutation
(position `x`, node `u`) and the node `v` the sweep moves it to — whether or not `s` or `u` is in the
tree at `x` (isolated samples, mutations above absent nodes, sites outside all edges included) — `s`
is at or below `u` in the input tree at `x` iff `s` is at or below `v` in the output tree at `x`.
(tskit decodes a sample's allele from exactly these carrier sets and the order of the mutation
rows.) -/
theorem genotype_carriers_preserved (hv : Valid N es ord) (insIdx : List Nat) (hvi : Valid N es insIdx)
    (x : α) (s u : Nat) (hs : s < N) (hu : u < N) (hsx : aget excl s = true) :
    Below es x s u ↔
      Below (outEdges es (splitDisjoint N excl es ord)) x s
        (assign (mapUpTo (splitDisjoint N excl es ord).order.toArray
          (insEvs es (splitDisjoint N excl es ord) insIdx) x) u) :=
  carriers_preserved excl hv insIdx hvi x s u hs hu hsx

/-! ### Non-vacuity: a node in two pieces

Nodes 0,1 are samples, node 2 is their parent on `[0,2)` and again on `[5,7)`; node 3 is a parent of
2 on `[1,2)` only.  The hypotheses hold, the second piece of node 2 becomes node 4. -/

def exEdges : Array (SEdge Nat) :=
  #[⟨0, 2, 2, 0⟩, ⟨0, 2, 2, 1⟩, ⟨1, 2, 3, 2⟩, ⟨5, 7, 2, 0⟩, ⟨5, 7, 2, 1⟩]

example : Valid 4 exEdges [0, 1, 2, 3, 4] := by
  refine ⟨by decide, by decide, ?_, by decide, ?_, ?_⟩ <;>
    (intro e he; have : e < 5 := he; interval_cases e <;> decide)

example : splitDisjoint 4 #[true, true, false, false] exEdges [0, 1, 2, 3, 4] =
    { parent := [2, 2, 3, 4, 4], child := [0, 1, 2, 0, 1], order := [0, 1, 2, 3, 2], split := [2] } := by
  decide +kernel

example : RemOK exEdges [0, 1, 2, 3, 4] := by
  refine ⟨by decide, ?_, by decide⟩
  intro e he; have : e < 5 := he; interval_cases e <;> decide

/-- Mutations on node 2 at positions 1 (first piece), 3 (in the gap: stale first piece), 5 (exactly at
the breakpoint where the second piece starts), 9 (right of the last edge: last piece), and one on the
isolated sample 0 at position 3. -/
example : relabelMutations 0 #[0, 1, 2, 3, 2]
    (insEvs exEdges { parent := [2, 2, 3, 4, 4], child := [0, 1, 2, 0, 1], order := [0, 1, 2, 3, 2], split := [2] }
      [0, 1, 2, 3, 4])
    [2, 2, 2, 7, 7] [(1, 2), (3, 2), (3, 0), (5, 2), (9, 2)] = some [2, 2, 0, 4, 4] := by
  decide +kernel

end Tsdate.C29
