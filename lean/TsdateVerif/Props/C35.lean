/-
C35 — invalid inputs are rejected cleanly and valid ones never crash
(model: Model/Validate.lean, the guard chain of `tsdate.date` / the three wrappers /
`EstimationMethod.__init__` / the `run` methods and the first checks of the objects they build).

What is proved is about the *parameter validation logic*: which abstract parameter classes are turned
into which exception, for all combinations.  "Valid inputs never crash" is a statement about the
whole numeric program; it is not proved here (see design_notes/C35.md) — the harness searches for
internal errors on pathological valid inputs and classifies what it finds (finding F5 and others).
-/
import Mathlib.Tactic.Cases
import Mathlib.Tactic.SplitIfs
import TsdateVerif.Model.Validate

namespace Tsdate.C35
open Tsdate.Validate

/-! ### The chain -/

theorem firstFail_of_fires {l : List (Bool × Outcome)} {c : Bool} {o : Outcome}
    (h : (c, o) ∈ l) (hc : c = true) : ∃ o', (true, o') ∈ l ∧ firstFail l = some o' := by
  induction l with
  | nil => simp at h
  | cons x rest ih =>
    obtain ⟨c0, o0⟩ := x
    cases hc0 : c0 with
    | true => exact ⟨o0, by simp [hc0], by simp [firstFail, hc0]⟩
    | false =>
      have hmem : (c, o) ∈ rest := by
        rcases List.mem_cons.mp h with heq | hr
        · have : c = c0 := (Prod.mk.inj heq).1
          rw [hc, hc0] at this
          exact absurd this (by decide)
        · exact hr
      obtain ⟨o', h1, h2⟩ := ih hmem
      exact ⟨o', List.mem_cons_of_mem _ h1, by simp [firstFail, hc0, h2]⟩

theorem firstFail_none {l : List (Bool × Outcome)} (h : ∀ x ∈ l, x.1 = false) : firstFail l = none := by
  induction l with
  | nil => rfl
  | cons x rest ih =>
    obtain ⟨c0, o0⟩ := x
    have : c0 = false := h (c0, o0) (List.mem_cons_self ..)
    subst this
    simp only [firstFail]
    exact ih (fun y hy => h y (List.mem_cons_of_mem _ hy))

/-- Every guard of the chain raises (none of them returns a result). -/
theorem checks_reject (p : Params) (i : Input) : ∀ x ∈ checks p i, x.2.rejected = true := by
  rw [← List.all_eq_true]
  unfold checks
  cases p.method <;> simp [initGuards, Outcome.rejected]

/-- **A guard that fires decides the outcome, and the outcome is an exception.**  For every parameter
combination and input: if any guard of the chain has its condition true, `outcome` is a rejection
(the first such guard's exception) — never a result, never "unvalidated". -/
theorem guard_fires_rejected (p : Params) (i : Input) (c : Bool) (o : Outcome)
    (h : (c, o) ∈ checks p i) (hc : c = true) : (outcome p i).rejected = true := by
  obtain ⟨o', h1, h2⟩ := firstFail_of_fires h hc
  unfold outcome
  rw [h2]
  exact checks_reject p i _ h1

/-! ### Invalid classes named in the property statement -/

theorem common_rejected (p : Params) (i : Input) (hm : p.method ≠ .unknown)
    (h : commonBad p = true) : (outcome p i).rejected = true := by
  simp only [commonBad, Bool.or_eq_true, beq_iff_eq] at h
  cases hmm : p.method
  case unknown => exact absurd hmm hm
  all_goals
    rcases h with ((h | h) | h) | h
    · exact guard_fires_rejected p i (p.minBranchLength == .bad) (.valueError .minBranchLength)
        (by simp [checks, hmm, initGuards]) (by simp [h])
    · exact guard_fires_rejected p i (p.constrIterations == .bad) (.valueError .constrIterations)
        (by simp [checks, hmm, initGuards]) (by simp [h])
    · exact guard_fires_rejected p i p.recombinationRate (.notImplemented .recombination)
        (by simp [checks, hmm, initGuards]) h
    · exact guard_fires_rejected p i p.returnPosteriors (.valueError .returnPosteriors)
        (by simp [checks, hmm, initGuards]) h

theorem vg_rejected (p : Params) (i : Input) (hm : p.method = .vg) (h : vgBad p i = true) :
    (outcome p i).rejected = true := by
  simp only [vgBad, Bool.or_eq_true, beq_iff_eq, bne_iff_ne, ne_eq] at h
  rcases h with (((((h | h) | h) | h) | h) | h) | h
  · exact guard_fires_rejected p i (p.maxIterations == .bad) (.valueError .maxIterations)
      (by simp [checks, hm, initGuards]) (by simp [h])
  · exact guard_fires_rejected p i (p.maxShape == .bad) (.valueError .maxShape)
      (by simp [checks, hm, initGuards]) (by simp [h])
  · exact guard_fires_rejected p i (p.populationSize != .absent) (.valueError .popUnused)
      (by simp [checks, hm, initGuards]) (by simp [h])
  · exact guard_fires_rejected p i p.priors (.valueError .priorsUnused)
      (by simp [checks, hm, initGuards]) h
  · exact guard_fires_rejected p i (p.eps != .absent) (.valueError .epsVariational)
      (by simp [checks, hm, initGuards]) (by simp [h])
  · exact guard_fires_rejected p i i.noMutations (.valueError .noMutations)
      (by simp [checks, hm, initGuards]) h
  · cases hr : p.mutationRate with
    | good => exact absurd hr h
    | absent =>
      exact guard_fires_rejected p i (p.mutationRate == .absent) (.valueError .rateMissing)
        (by simp [checks, hm, initGuards]) (by simp [hr])
    | bad =>
      exact guard_fires_rejected p i (p.mutationRate == .bad) (.valueError .rateNotPositive)
        (by simp [checks, hm, initGuards]) (by simp [hr])

theorem discrete_rejected (p : Params) (i : Input) (hm : p.method = .io ∨ p.method = .mx)
    (h : discreteBad p = true) : (outcome p i).rejected = true := by
  simp only [discreteBad, Bool.or_eq_true, Bool.and_eq_true, beq_iff_eq, bne_iff_ne, ne_eq,
    Bool.not_eq_true'] at h
  rcases hm with hm | hm
  all_goals
    rcases h with ((((((h | h) | h) | h) | h) | h) | h) | h
    · exact guard_fires_rejected p i (!p.priors && effPop p == .absent) (.valueError .popMissing)
        (by simp [checks, hm, initGuards]) (by simp [h.1, h.2])
    · exact guard_fires_rejected p i (p.priors && effPop p != .absent) (.valueError .popAndPriors)
        (by simp [checks, hm, initGuards]) (by simp [h.1, h.2])
    · by_cases hc : i.contemporaneous = true
      · by_cases hu : (i.unary && !p.allowUnary) = true
        · exact guard_fires_rejected p i (!p.priors && i.unary && !p.allowUnary)
            (.valueError .unaryNodes) (by simp [checks, hm, initGuards])
            (by simp only [Bool.and_assoc, hu, h.1]; rfl)
        · exact guard_fires_rejected p i (!p.priors && effPop p == .bad)
            (.valueError .popNotPositive) (by simp [checks, hm, initGuards]) (by simp [h.1, h.2])
      · exact guard_fires_rejected p i (!p.priors && !i.contemporaneous)
          (.valueError .nonContemporaneous) (by simp [checks, hm, initGuards]) (by simp [h.1, hc])
    · exact guard_fires_rejected p i (effPop p == .dictBad) (.valueError .popDictValues)
        (by simp [checks, hm, initGuards]) (by simp [h])
    · exact guard_fires_rejected p i (p.neDeprecated && p.populationSize != .absent)
        (.valueError .neAndPopulationSize) (by simp [checks, hm, initGuards]) (by simp [h.1, h.2])
    · exact guard_fires_rejected p i (p.probSpace == .bad) (.valueError .probabilitySpace)
        (by simp [checks, hm, initGuards]) (by simp [h])
    · exact guard_fires_rejected p i (p.numThreads == .bad && p.mutationRate != .absent)
        (.valueError .numThreads) (by simp [checks, hm, initGuards]) (by simp [h.1, h.2])
    · exact guard_fires_rejected p i (p.mutationRate == .bad) (.valueError .rateNotPositive)
        (by simp [checks, hm, initGuards]) (by simp [h])

/-- **Invalid parameters are rejected** — every combination of parameters and inputs in which one of
the guarded invalid classes occurs ends in an exception, whatever the other parameters are. -/
theorem invalid_rejected (p : Params) (i : Input) (h : invalidGuarded p i = true) :
    (outcome p i).rejected = true := by
  unfold invalidGuarded at h
  cases hm : p.method
  case unknown =>
    exact guard_fires_rejected p i true (.valueError .methodUnknown) (by simp [checks, hm]) rfl
  case vg =>
    simp only [hm, Bool.or_eq_true] at h
    rcases h with h | h
    · exact common_rejected p i (by simp [hm]) h
    · exact vg_rejected p i hm h
  case io =>
    simp only [hm, Bool.or_eq_true] at h
    rcases h with h | h
    · exact common_rejected p i (by simp [hm]) h
    · exact discrete_rejected p i (Or.inl hm) h
  case mx =>
    simp only [hm, Bool.or_eq_true, beq_iff_eq] at h
    rcases h with (h | h) | h
    · exact common_rejected p i (by simp [hm]) h
    · exact discrete_rejected p i (Or.inr hm) h
    · exact guard_fires_rejected p i (p.mutationRate == .absent) (.valueError .rateMissing)
        (by simp [checks, hm, initGuards]) (by simp [h])

/-- Contrapositive of `invalid_rejected`: a call that returns a result had none of the guarded invalid
classes. -/
theorem ok_not_invalid (p : Params) (i : Input) (s : Shape) (h : outcome p i = .ok s) :
    invalidGuarded p i = false := by
  cases hg : invalidGuarded p i with
  | false => rfl
  | true =>
    have := invalid_rejected p i hg
    rw [h] at this
    simp [Outcome.rejected] at this

/-- **Kernel preconditions under the callers' guarantees.**  Whenever `variational_gamma` gets past its
guards, the values handed to the numeric kernels satisfy what those kernels `assert`:
`min_branch_length > 0` and `constr_iterations` a non-negative int (`util.constrain_ages`:
`assert epsilon >= 0`, `assert max_iterations >= 0`), `max_shape > 1` (`variational.py`
`assert max_shape >= 1.0` in the EP kernels), `max_iterations > 0`, a positive mutation rate
(`ExpectationPropagation._check_valid_inputs`) and at least one mutation.  So these assertion sites
cannot be reached with an invalid value through the public entry points. -/
theorem ok_implies_kernel_preconditions (p : Params) (i : Input) (s : Shape)
    (h : outcome p i = .ok s) (hm : p.method = .vg) :
    p.minBranchLength ≠ .bad ∧ p.constrIterations ≠ .bad ∧ p.maxShape ≠ .bad ∧
    p.maxIterations ≠ .bad ∧ p.mutationRate = .good ∧ i.noMutations = false ∧
    p.populationSize = .absent ∧ p.priors = false := by
  have hg := ok_not_invalid p i s h
  simp only [invalidGuarded, hm, commonBad, vgBad, Bool.or_eq_false_iff, beq_eq_false_iff_ne,
    bne_eq_false_iff_eq, ne_eq] at hg
  obtain ⟨⟨⟨⟨h1, h2⟩, _⟩, _⟩, ⟨⟨⟨⟨⟨⟨h3, h4⟩, h5⟩, h6⟩, _⟩, h7⟩, h8⟩⟩ := hg
  exact ⟨h1, h2, h4, h3, h8, h7, h5, h6⟩

/-- The same for the discrete methods (`constrain_ages` preconditions, a usable population size or
prior, a known probability space, a rate that — if given — is positive). -/
theorem ok_implies_kernel_preconditions_discrete (p : Params) (i : Input) (s : Shape)
    (h : outcome p i = .ok s) (hm : p.method = .io ∨ p.method = .mx) :
    p.minBranchLength ≠ .bad ∧ p.constrIterations ≠ .bad ∧ p.probSpace ≠ .bad ∧
    p.mutationRate ≠ .bad := by
  have hg := ok_not_invalid p i s h
  rcases hm with hm | hm
  · simp only [invalidGuarded, hm, commonBad, discreteBad, Bool.or_eq_false_iff,
      beq_eq_false_iff_ne, ne_eq] at hg
    exact ⟨hg.1.1.1.1, hg.1.1.1.2, hg.2.1.1.2, hg.2.2⟩
  · simp only [invalidGuarded, hm, commonBad, discreteBad, Bool.or_eq_false_iff,
      beq_eq_false_iff_ne, ne_eq] at hg
    exact ⟨hg.1.1.1.1.1, hg.1.1.1.1.2, hg.1.2.1.1.2, hg.1.2.2⟩

/-- The only `TypeError`s of the chain are keyword errors: a keyword the method does not take, or a
population-size dict with foreign keys.  Without those, every rejection is a `ValueError` or a
`NotImplementedError` (the documented kinds). -/
theorem rejection_clean (p : Params) (i : Input) (hk : foreignKeyword p = false)
    (hd : p.populationSize ≠ .dictKeys) (hr : (outcome p i).rejected = true) :
    (outcome p i).clean = true := by
  have hd' : effPop p ≠ .dictKeys := by
    unfold effPop; split_ifs <;> simp_all
  unfold outcome at hr ⊢
  cases hf : firstFail (checks p i) with
  | none =>
    rw [hf] at hr
    simp only at hr
    split_ifs at hr <;> simp [Outcome.rejected] at hr
  | some o =>
    simp only
    -- `o` is the outcome of a guard that fired; no typeError guard can fire
    have key : ∀ l : List (Bool × Outcome), (∀ x ∈ l, x.1 = true → x.2.clean = true) →
        ∀ o, firstFail l = some o → o.clean = true := by
      intro l
      induction l with
      | nil => intro _ o h; simp [firstFail] at h
      | cons x rest ih =>
        intro hall o h
        obtain ⟨c0, o0⟩ := x
        cases hc0 : c0 with
        | true =>
          simp [firstFail, hc0] at h
          subst h
          exact hall (c0, o0) (List.mem_cons_self ..) hc0
        | false =>
          simp [firstFail, hc0] at h
          exact ih (fun y hy => hall y (List.mem_cons_of_mem _ hy)) o h
    apply key (checks p i) _ o hf
    intro x hx
    unfold checks at hx
    cases hm : p.method <;> simp only [hm] at hx <;>
      simp only [initGuards, List.mem_cons, List.mem_append, List.not_mem_nil, or_false,
        List.cons_append, List.nil_append] at hx <;>
      rcases hx with hx | hx | hx | hx | hx | hx | hx | hx | hx | hx | hx | hx | hx | hx | hx | hx | hx | hx | hx
        <;> (try subst hx) <;> simp_all [Outcome.clean]

/-! ### Results -/

/-- **Return shape**: when nothing is rejected the result is the tree sequence, followed by the fit
object iff `return_fit`, followed by the likelihood iff `return_likelihood` (`parse_result`). -/
theorem return_shape (p : Params) (i : Input) (s : Shape) (h : outcome p i = .ok s) :
    s = shape p := by
  unfold outcome at h
  cases hf : firstFail (checks p i) with
  | some o =>
    rw [hf] at h
    -- a guard fired: the outcome is a rejection, not a result
    have hmem : ∃ c, (c, o) ∈ checks p i := by
      clear h
      generalize checks p i = l at hf
      induction l with
      | nil => simp [firstFail] at hf
      | cons x rest ih =>
        obtain ⟨c0, o0⟩ := x
        cases hc0 : c0 with
        | true => simp [firstFail, hc0] at hf; exact ⟨true, by simp [hf, hc0]⟩
        | false =>
          simp [firstFail, hc0] at hf
          obtain ⟨c, hc⟩ := ih hf
          exact ⟨c, List.mem_cons_of_mem _ hc⟩
    obtain ⟨c, hc⟩ := hmem
    have := checks_reject p i _ hc
    simp only at h
    subst h
    simp [Outcome.rejected] at this
  | none =>
    rw [hf] at h
    simp only at h
    split_ifs at h
    exact (Outcome.ok.inj h).symm

theorem shape_spec (p : Params) :
    (shape p = .ts ↔ (p.returnFit = false ∧ p.returnLikelihood = false)) ∧
    (shape p = .tsFit ↔ (p.returnFit = true ∧ p.returnLikelihood = false)) ∧
    (shape p = .tsLik ↔ (p.returnFit = false ∧ p.returnLikelihood = true)) ∧
    (shape p = .tsFitLik ↔ (p.returnFit = true ∧ p.returnLikelihood = true)) := by
  unfold shape
  cases p.returnFit <;> cases p.returnLikelihood <;> simp

/-- All-default parameters on a benign input are accepted by each of the three methods. -/
theorem valid_accepted :
    outcome (validParams .vg) benignInput = .ok .ts ∧
    outcome (validParams .io) benignInput = .ok .ts ∧
    outcome (validParams .mx) benignInput = .ok .ts := by decide

/-! ### The full statement, and the pre-fix chain as regression counter-example -/

/-- The statement of the property for the parameter classes of the model: every parameter outside its
valid range (a guarded invalid class, or a mutation rate that is not positive — whatever the method)
is rejected. -/
def C35_invalid_statement : Prop :=
  ∀ p i, (invalidGuarded p i = true ∨ p.mutationRate = .bad) → (outcome p i).rejected = true

/-- A mutation rate that is not positive is one of the guarded classes, for every method (since
/repo a8b199f also for the discrete ones). -/
theorem rate_bad_guarded (p : Params) (i : Input) (h : p.mutationRate = .bad) :
    invalidGuarded p i = true := by
  unfold invalidGuarded
  cases hm : p.method <;> simp [commonBad, vgBad, discreteBad, h]

/-- **The full statement holds** of the present chain. -/
theorem C35_invalid_statement_holds : C35_invalid_statement := by
  intro p i h
  rcases h with h | h
  · exact invalid_rejected p i h
  · exact invalid_rejected p i (rate_bad_guarded p i h)

/-- Non-positive rates are rejected by the discrete methods with the documented `ValueError`
(concrete instance; the general fact is `C35_invalid_statement_holds`). -/
theorem discrete_nonpositive_rate_rejected :
    outcome { validParams .io with mutationRate := .bad } benignInput = .valueError .rateNotPositive ∧
    outcome { validParams .mx with mutationRate := .bad } benignInput = .valueError .rateNotPositive := by
  decide

/-- **Regression counter-example (finding fixed by a8b199f)**: in the chain *without* the
`mutation_rate > 0` guard of `DiscreteTimeMethod.main_algorithm`, `inside_outside` / `maximization`
with every parameter valid except a non-positive rate pass all guards; the value reached
`scipy.stats.poisson.pmf` (on the real pre-fix code: a dated tree sequence for `mutation_rate=0` on an
input without mutations, otherwise an unrelated `ValueError("… dangling nodes …")`). -/
theorem prefix_discrete_nonpositive_rate_unguarded :
    outcomePreFix { validParams .io with mutationRate := .bad } benignInput = .unvalidated ∧
    outcomePreFix { validParams .mx with mutationRate := .bad } benignInput = .unvalidated := by decide

/-- What is still not guarded: a negative (or NaN) `eps` of the discrete methods reaches the numeric
code (on the real code it is stopped only by the unrelated "dangling nodes" `ValueError`). It is not
among the invalid classes the property statement lists. -/
theorem discrete_negative_eps_unguarded :
    outcome { validParams .io with eps := .bad } benignInput = .unvalidated ∧
    outcome { validParams .mx with eps := .bad } benignInput = .unvalidated := by decide

/-! ### Non-vacuity -/

example : invalidGuarded { validParams .vg with minBranchLength := .bad } benignInput = true := by decide
example : outcome { validParams .vg with minBranchLength := .bad } benignInput
    = .valueError .minBranchLength := by decide
example : outcome { validParams .vg with eps := .good, maxIterations := .bad } benignInput
    = .valueError .epsVariational := by decide
example : outcome { validParams .io with returnFit := true, returnLikelihood := true } benignInput
    = .ok .tsFitLik := by decide
example : outcome { validParams .mx with numThreads := .good } benignInput = .ok .ts := by decide
example : outcome { validParams .vg with numThreads := .good } benignInput
    = .typeError .foreignKeyword := by decide

end Tsdate.C35
