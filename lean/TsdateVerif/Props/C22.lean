/-
C22 — unphased singleton handling only re-phases singletons and ignores input phase.

Model: `Model/Blocks.lean` — `blockSingletons` (`tsdate.phasing._block_singletons`, the sweep over the edges
above the nodes of unphased individuals) and `place` (the switch of `mutation_nodes` in
`ExpectationPropagation.infer`).  `inp` is the argument tuple of the numba kernel; `out` is what it returns
(`out.edges` = `blocks_edges`, `out.stats` = `blocks_stats`, `out.mblock` = `mutations_block`).  The theorems
hold for every input on which the model returns a result (`= some out`): `none` is "an assertion of the
kernel fails" (checked against the real kernel by the correspondence run).  They hold for any number type
(no arithmetic law is used): the sweep's control flow does not matter to them.

What is *not* in these theorems: that the EP iterations between `_block_singletons` and the switch read the
mutation nodes only through (`blocks_stats`, `blocks_edges`, `mutations_block`) — that is by inspection of
`ExpectationPropagation.__init__/infer` and is checked end to end by the oracle of the check (re-phasings of
real inputs give identical output); and tskit's `tables.sort()` in `get_modified_ts`.
-/
import TsdateVerif.Proofs.BlocksDistinct
import TsdateVerif.Proofs.Realloc

namespace Tsdate.C22
open Tsdate Tsdate.Blocks
set_option linter.unusedSectionVars false
set_option linter.unusedVariables false

variable {α : Type} [Inhabited α] [Sub α] [BEq α] [LT α] [DecidableLT α]

/-- Node `c` belongs to individual `i`, and `i` is flagged unphased. -/
def NodeOfUnphased (inp : Input α) (i c : Nat) : Prop :=
  aget inp.nodeInd c = some i ∧ aget inp.unphased i = true

theorem nodeOfUnphased_of_edgeOf {inp : Input α} {i e : Nat} (h : EdgeOf inp.toEdgeInput i e) :
    e < inp.child.size ∧ NodeOfUnphased inp i (aget inp.child e) := by
  obtain ⟨h1, h2, h3⟩ := h.spec
  exact ⟨h1, h2, h3⟩

/-- **Every block's two edges are edges above nodes of one unphased individual.**  Row `b` of
`blocks_edges` holds two edge ids in range whose children both belong to the same individual `i`, and
`individuals_unphased[i]` is set.  (`block_singletons` has checked that such an individual is diploid and
contemporary, so the two children are its two nodes.) -/
theorem blocks_edges_are_individual_edges (inp : Input α) (zero : α) (out : Output α)
    (h : blockSingletons inp zero = some out) :
    ∀ (b e0 e1 : Nat), out.edges[b]? = some (e0, e1) →
      ∃ i, e0 < inp.child.size ∧ e1 < inp.child.size ∧
        NodeOfUnphased inp i (aget inp.child e0) ∧ NodeOfUnphased inp i (aget inp.child e1) := by
  intro b e0 e1 hb
  obtain ⟨D, ⟨hA, _⟩, hf⟩ := blockSingletons_inv h
  obtain ⟨_, _, _, hrow⟩ := finish_spec hf
  obtain ⟨f, hmem, _, h0, h1⟩ := hrow b e0 e1 hb
  obtain ⟨i, hi0, hi1⟩ := hA.fl f hmem
  rw [h0] at hi0; rw [h1] at hi1
  exact ⟨i, (nodeOfUnphased_of_edgeOf hi0).1, (nodeOfUnphased_of_edgeOf hi1).1,
    (nodeOfUnphased_of_edgeOf hi0).2, (nodeOfUnphased_of_edgeOf hi1).2⟩

/-- **The two edges of a block are two different edges**, provided the edge insertion index lists no edge
twice (tskit's `indexes_edge_insertion_order` is a permutation of the edge ids; evaluated on every generated
input by the check).  Together with `blocks_edges_are_individual_edges`: in a tree sequence, where a node has at
most one edge above it at any position, the two edges are the edges above the individual's two *different*
nodes. -/
theorem block_edges_distinct (inp : Input α) (zero : α) (out : Output α)
    (h : blockSingletons inp zero = some out) (hinj : InsertionInjective inp.toEdgeInput) :
    ∀ (b e0 e1 : Nat), out.edges[b]? = some (e0, e1) → e0 ≠ e1 :=
  blockSingletons_edges_distinct h hinj

/-- **A mutation is only ever put in a block of its own individual.**  If `mutations_block[m] = b` then the
node of `m` belongs to an unphased individual `i`, row `b` of `blocks_edges` exists, and both its edges are
edges above nodes of that same `i`. -/
theorem mutation_block_is_block_of_its_individual (inp : Input α) (zero : α) (out : Output α)
    (h : blockSingletons inp zero = some out) :
    ∀ (m b : Nat), aget out.mblock m = some b →
      ∃ i e0 e1, NodeOfUnphased inp i (aget inp.mutNode m) ∧ out.edges[b]? = some (e0, e1) ∧
        e0 < inp.child.size ∧ e1 < inp.child.size ∧
        NodeOfUnphased inp i (aget inp.child e0) ∧ NodeOfUnphased inp i (aget inp.child e1) := by
  intro m b hm
  obtain ⟨D, ⟨hA, hB⟩, hf⟩ := blockSingletons_inv h
  obtain ⟨hmb, hlen, _, hrow⟩ := finish_spec hf
  rw [hmb] at hm
  obtain ⟨hlt, i, hmi, _, hfl⟩ := hB.muts m b hm
  have hb : b < out.edges.length := by omega
  obtain ⟨⟨e0, e1⟩, he⟩ : ∃ p, out.edges[b]? = some p := ⟨out.edges[b], List.getElem?_eq_getElem hb⟩
  obtain ⟨f, hmem, hid, h0, h1⟩ := hrow b e0 e1 he
  obtain ⟨hi0, hi1⟩ := hfl f hmem hid
  rw [h0] at hi0; rw [h1] at hi1
  exact ⟨i, e0, e1, unphInd_eq_some.mp hmi, he, (nodeOfUnphased_of_edgeOf hi0).1,
    (nodeOfUnphased_of_edgeOf hi1).1, (nodeOfUnphased_of_edgeOf hi0).2, (nodeOfUnphased_of_edgeOf hi1).2⟩

section Switch
variable {β : Type} [LT β] [DecidableLT β]

/-- **Output mutation nodes change only within an unphased individual.**  Take any state `f` of the fit
whose `mutation_nodes` are the input's mutation nodes, and apply the switch of `infer` (`place`) with the
blocks computed by `_block_singletons`, for *any* phases and any threshold.  Then entry `m` of the new
`mutation_nodes` is either the input node, or a node of the same individual `i` as the input node, and `i`
is an unphased individual. -/
theorem mutation_nodes_change_only (inp : Input α) (zero : α) (out : Output α)
    (h : blockSingletons inp zero = some out) (half : β) (f : Fit β)
    (hnodes : f.mutNode = inp.mutNode.toList) :
    ∀ (m new : Nat), (place half inp.child out.edges.toArray out.mblock.toList f).mutNode[m]? = some new →
      new = aget inp.mutNode m ∨
      ∃ i, NodeOfUnphased inp i (aget inp.mutNode m) ∧ NodeOfUnphased inp i new := by
  intro m new hnew
  obtain ⟨b, φ, olde, oldn, hb, _, _, holdn, hne, _⟩ := place_getElem? half _ _ _ f m new hnew
  have hold : oldn = aget inp.mutNode m := by
    rw [hnodes] at holdn
    simp only [Array.getElem?_toList] at holdn
    simp [aget, holdn]
  have hbm : aget out.mblock m = b := by
    simp only [Array.getElem?_toList] at hb
    simp [aget, hb]
  rcases placeOne_cases half inp.child out.edges.toArray b φ (olde, oldn) with ⟨_, hp⟩ | ⟨b', hb', hp⟩
  · left; rw [hne, hp]; exact hold
  · right
    rw [hb'] at hbm
    obtain ⟨i, e0, e1, hmi, he, _, _, hc0, hc1⟩ :=
      mutation_block_is_block_of_its_individual inp zero out h m b' hbm
    have hget : aget out.edges.toArray b' = (e0, e1) := by simp [aget, he]
    refine ⟨i, hmi, ?_⟩
    rcases hp with hp | hp
    · rw [hne, hp, hget]; exact hc0
    · rw [hne, hp, hget]; exact hc1

/-- … **and only by moving to that individual's other node**: if individual `i` has exactly the two nodes
`x` and `y` (what `block_singletons` demands of every unphased individual) and the node of mutation `m`
changed, then it went from `x` to `y` or from `y` to `x`. -/
theorem moved_to_the_other_node (inp : Input α) (zero : α) (out : Output α)
    (h : blockSingletons inp zero = some out) (half : β) (f : Fit β)
    (hnodes : f.mutNode = inp.mutNode.toList)
    (hdiploid : ∀ i, aget inp.unphased i = true → ∃ x y, ∀ c, aget inp.nodeInd c = some i → c = x ∨ c = y)
    (m new : Nat) (hnew : (place half inp.child out.edges.toArray out.mblock.toList f).mutNode[m]? = some new)
    (hchanged : new ≠ aget inp.mutNode m) :
    ∃ i x y, aget inp.unphased i = true ∧ (∀ c, aget inp.nodeInd c = some i → c = x ∨ c = y) ∧
      ((aget inp.mutNode m = x ∧ new = y) ∨ (aget inp.mutNode m = y ∧ new = x)) := by
  rcases mutation_nodes_change_only inp zero out h half f hnodes m new hnew with heq | ⟨i, ho, hn⟩
  · exact absurd heq hchanged
  · obtain ⟨x, y, hxy⟩ := hdiploid i ho.2
    refine ⟨i, x, y, ho.2, hxy, ?_⟩
    rcases hxy _ ho.1 with h1 | h1 <;> rcases hxy _ hn.1 with h2 | h2
    · exact absurd (h2.trans h1.symm) hchanged
    · exact Or.inl ⟨h1, h2⟩
    · exact Or.inr ⟨h1, h2⟩
    · exact absurd (h2.trans h1.symm) hchanged

/-- **The switch ignores the input phase too**: for a mutation in a block, the edge and node written by
`infer` are a function of (block edges, block of the mutation, fitted phase) only — the node (and edge) the
mutation had in the input do not enter.  With `blocks_phase_congr` (same blocks for every re-phasing) this
leaves the fitted phases as the only channel through which the input phase could reach the output placement;
the phases come from EP, which reads the mutations only through the blocks (by inspection; observed end to end
by the check's oracle). -/
theorem placement_ignores_input_node (half : β) (child : Array Nat) (bedges : Array (Nat × Nat))
    (mblock : List (Option Nat)) (f g : Fit β) (hphase : f.phase = g.phase)
    (m b : Nat) (φ : Option β) (olde olde' : Option Nat) (oldn oldn' : Nat)
    (hb : mblock[m]? = some (some b)) (hφ : f.phase[m]? = some φ)
    (he : f.mutEdge[m]? = some olde) (hn : f.mutNode[m]? = some oldn)
    (he' : g.mutEdge[m]? = some olde') (hn' : g.mutNode[m]? = some oldn') :
    (place half child bedges mblock f).mutNode[m]? = (place half child bedges mblock g).mutNode[m]? ∧
    (place half child bedges mblock f).mutEdge[m]? = (place half child bedges mblock g).mutEdge[m]? := by
  obtain ⟨h1, h2, _, _⟩ := place_forward half child bedges mblock f m (some b) φ olde oldn hb hφ he hn
  obtain ⟨h3, h4, _, _⟩ := place_forward half child bedges mblock g m (some b) φ olde' oldn' hb
    (by rw [← hphase]; exact hφ) he' hn'
  rw [h1, h2, h3, h4]
  exact ⟨rfl, rfl⟩

/-- **Mechanism of the known finding `stacked-singletons-order-follows-input-rows`** (tsdate's half of it):
the switch treats every blocked mutation on its own, so two singletons of one block — in particular two different
singletons of one individual at the *same site* — whose fitted phases lie on the same side of the threshold are
written to the *same* node.  Which of two mutations stacked on one node at one site is the older one is then
decided by their row order (`get_modified_ts` keeps it; tskit contract), and the canonical row order of the two
rows differs between re-phasings of the input. -/
theorem same_side_singletons_are_stacked (half : β) (child : Array Nat) (bedges : Array (Nat × Nat))
    (mblock : List (Option Nat)) (f : Fit β) (m m' b : Nat) (φ φ' : β) (olde olde' : Option Nat) (oldn oldn' : Nat)
    (hb : mblock[m]? = some (some b)) (hb' : mblock[m']? = some (some b))
    (hφ : f.phase[m]? = some (some φ)) (hφ' : f.phase[m']? = some (some φ'))
    (he : f.mutEdge[m]? = some olde) (hn : f.mutNode[m]? = some oldn)
    (he' : f.mutEdge[m']? = some olde') (hn' : f.mutNode[m']? = some oldn')
    (hside : (φ < half ↔ φ' < half)) :
    (place half child bedges mblock f).mutNode[m]? = (place half child bedges mblock f).mutNode[m']? := by
  obtain ⟨_, h2, _, _⟩ := place_forward half child bedges mblock f m (some b) (some φ) olde oldn hb hφ he hn
  obtain ⟨_, h4, _, _⟩ := place_forward half child bedges mblock f m' (some b) (some φ') olde' oldn' hb' hφ' he' hn'
  rw [h2, h4]
  simp only [placeOne, placedEdge]
  by_cases h : φ < half
  · rw [if_pos h, if_pos (hside.mp h)]
  · rw [if_neg h, if_neg (fun h' => h (hside.mpr h'))]

/-- **`singletons_phased=True` ⇒ no blocks.**  With no individual flagged unphased the kernel returns no
blocks and `mutations_block` is NULL everywhere. -/
theorem phased_no_blocks (inp : Input α) (zero : α) (out : Output α)
    (h : blockSingletons inp zero = some out) (hph : ∀ i, aget inp.unphased i = false) :
    out.edges = [] ∧ out.stats = [] ∧ ∀ m, aget out.mblock m = none := by
  refine ⟨?_, ?_, ?_⟩
  · cases he : out.edges with
    | nil => rfl
    | cons p rest =>
      obtain ⟨e0, e1⟩ := p
      obtain ⟨i, _, _, hc, _⟩ := blocks_edges_are_individual_edges inp zero out h 0 e0 e1 (by simp [he])
      have := hph i; rw [hc.2] at this; cases this
  · obtain ⟨D, _, hf⟩ := blockSingletons_inv h
    obtain ⟨_, hl1, hl2, _⟩ := finish_spec hf
    cases he : out.edges with
    | nil => rw [he] at hl1; simp at hl1; rw [← hl1] at hl2; exact List.length_eq_zero_iff.mp hl2
    | cons p rest =>
      obtain ⟨e0, e1⟩ := p
      obtain ⟨i, _, _, hc, _⟩ := blocks_edges_are_individual_edges inp zero out h 0 e0 e1 (by simp [he])
      have := hph i; rw [hc.2] at this; cases this
  · intro m
    cases hm : aget out.mblock m with
    | none => rfl
    | some b =>
      obtain ⟨i, _, _, hmi, _⟩ := mutation_block_is_block_of_its_individual inp zero out h m b hm
      have := hph i; rw [hmi.2] at this; cases this

/-- **`singletons_phased=True` ⇒ mutation nodes never change.** -/
theorem phased_nodes_unchanged (inp : Input α) (zero : α) (out : Output α)
    (h : blockSingletons inp zero = some out) (hph : ∀ i, aget inp.unphased i = false)
    (half : β) (f : Fit β) (hnodes : f.mutNode = inp.mutNode.toList) :
    ∀ (m new : Nat), (place half inp.child out.edges.toArray out.mblock.toList f).mutNode[m]? = some new →
      new = aget inp.mutNode m := by
  intro m new hnew
  rcases mutation_nodes_change_only inp zero out h half f hnodes m new hnew with heq | ⟨i, ho, _⟩
  · exact heq
  · have := hph i; rw [ho.2] at this; cases this

end Switch

/-- **The blocks ignore the input phase.**  Replace `mutations_node` by any other array that puts every
mutation on a node of the same unphased individual (or, like before, on a node of no unphased individual) —
in particular move any set of singletons between the two nodes of their individuals.  Then
`(blocks_stats, blocks_edges, mutations_block)` is unchanged. -/
theorem blocks_phase_congr (inp : Input α) (mutNode' : Array Nat) (zero : α)
    (hsize : mutNode'.size = inp.mutNode.size)
    (hsame : ∀ m, m < inp.mutNode.size →
      unphInd inp.unphased inp.nodeInd (aget mutNode' m) = unphInd inp.unphased inp.nodeInd (aget inp.mutNode m))
    (hwf : wellFormed inp = true) (hwf' : wellFormed { inp with mutNode := mutNode' } = true) :
    blockSingletons { inp with mutNode := mutNode' } zero = blockSingletons inp zero := by
  have hmi : mutInd { inp with mutNode := mutNode' } = mutInd inp := by
    funext m
    by_cases hm : m < inp.mutNode.size
    · exact hsame m hm
    · have h1 : aget mutNode' m = default := by
        simp [aget, Array.getElem?_eq_none (by omega : mutNode'.size ≤ m)]
      have h2 : aget inp.mutNode m = default := by
        simp [aget, Array.getElem?_eq_none (by omega : inp.mutNode.size ≤ m)]
      simp only [mutInd, h1, h2]
  simp only [blockSingletons, hwf, hwf', if_true, sweep, hmi, hsize]

/-! ## Non-vacuity: one diploid individual (nodes 0 and 1), two trees, three singletons.

Edges 0,1 (children 0,1) span [0,5), edges 2 (child 0) spans [5,10), edge 3 (child 1) spans [5,10); so the
individual has block 0 = edges (0,1) over [0,5) and block 1 = edges (2,3) over [5,10).  Mutations at
positions 1, 2 (block 0) and 7 (block 1). -/

def exInput (mn : Array Nat) : Input Rat :=
  { unphased := #[true], nodeInd := #[some 0, some 0, none, none], child := #[0, 1, 0, 1],
    left := #[0, 0, 5, 5], right := #[5, 5, 10, 10], insOrder := #[0, 1, 2, 3], remOrder := #[0, 1, 2, 3],
    seqLen := 10, mutNode := mn, mutPos := #[1, 2, 7] }

example : wellFormed (exInput #[0, 1, 0]) = true := by decide +kernel

example : InsertionInjective (exInput #[0, 1, 0]).toEdgeInput := by
  have key : ∀ k, k < 4 → ∀ k', k' < 4 →
      aget (#[0, 1, 2, 3] : Array Nat) k = aget (#[0, 1, 2, 3] : Array Nat) k' → k = k' := by decide
  intro k k' hk hk' h
  exact key k hk k' hk' h

example : (blockSingletons (exInput #[0, 1, 0]) 0).map (fun o => (o.edges, o.stats, o.mblock))
    = some ([(0, 1), (2, 3)], [(2, some 5), (1, some 5)], #[some 0, some 0, some 1]) := by decide +kernel

/-- the same blocks for a different input phase of the three singletons -/
example : (blockSingletons (exInput #[1, 1, 1]) 0).map (fun o => (o.edges, o.stats, o.mblock))
    = (blockSingletons (exInput #[0, 1, 0]) 0).map (fun o => (o.edges, o.stats, o.mblock)) := by decide +kernel

/-- the switch moves the first and third singleton (phase < 1/2) to node 1 and keeps the second on node 1 -/
example : (place (1/2 : Rat) #[0, 1, 0, 1] #[(0, 1), (2, 3)] [some 0, some 0, some 1]
    { mutEdge := [some 0, some 1, some 2], mutNode := [0, 1, 0], phase := [some (1/4), some (1/4), some (1/8)],
      lik := #[] }).mutNode = [1, 1, 1] := by decide +kernel

end Tsdate.C22
