/-
C31 — site-time estimates follow their documented definition
(models: `SiteTimes.sitesTimeFromTs` = `sites_time_from_ts` + `nodes_time_unconstrained`,
`SiteTimes.addSampledataTimes` = `add_sampledata_times` ∘ tsinfer `min_site_times`, tsdate/util.py).

`none` is NaN ("site without mutation") in site-time lists and `ValueError` at the top level.
`sqrt` is an arbitrary function: nothing below depends on what it computes.  Theorems are over any
linear order (no rounding assumptions are needed: only comparisons are involved once the per-mutation
ages are formed); the Float instance of the same definitions is tied bit-for-bit to the code.
Outside: JSON decoding of `mn`, tskit's tree traversal being "the edge with that child covering the
position" (by contract; `parent_above` states what the model computes), tsinfer's `SampleData` I/O.
-/
import TsdateVerif.Proofs.SiteTimes

namespace Tsdate.C31
open Tsdate Tsdate.SiteTimes
set_option linter.unusedSectionVars false
set_option linter.unusedVariables false

section Order
variable {α : Type} [LinearOrder α]

/-- **Site time = max over the site's mutations of the chosen summary, floored at `min_time`; NaN
iff the site has no mutation.**  `ages` is the list of per-mutation summaries in table order. -/
theorem site_time_spec (m : α) (ages : List α) :
    (siteFold m ages = none ↔ ages = []) ∧
    (∀ a as, ages = a :: as → siteFold m ages = some (max m (as.foldl max a))) := by
  unfold siteFold
  rw [foldl_upd_none]
  constructor
  · cases ages with
    | nil => simp [floorMin]
    | cons a as => simp [floorMin]
  · intro a as h; subst h; exact floorMin_some m _

/-- The same as an order-free characterisation: the value is an upper bound of `min_time` and of
every mutation's summary, and it is attained (by `min_time` or by one of the mutations).  Hence it
does not depend on the order of the mutations. -/
theorem site_time_is_max (m : α) (ages : List α) (v : α) (h : siteFold m ages = some v) :
    m ≤ v ∧ (∀ a ∈ ages, a ≤ v) ∧ (v = m ∨ v ∈ ages) := by
  cases ages with
  | nil => simp [siteFold, floorMin] at h
  | cons a as =>
    rw [(site_time_spec m (a :: as)).2 a as rfl] at h
    have hv := Option.some.inj h
    obtain ⟨h1, h2⟩ := le_foldl_max a as
    refine ⟨by rw [← hv]; exact le_max_left _ _, ?_, ?_⟩
    · intro b hb
      rw [← hv]
      rcases List.mem_cons.mp hb with rfl | hb
      · exact le_trans h1 (le_max_right _ _)
      · exact le_trans (h2 b hb) (le_max_right _ _)
    · rcases max_choice m (as.foldl max a) with hm | hm
      · left; rw [← hv, hm]
      · right; rw [← hv, hm]
        rcases foldl_max_mem a as with h | h
        · rw [h]; exact List.mem_cons_self ..
        · exact List.mem_cons_of_mem _ h

/-- `np.maximum(estimate, bound)`: **the larger of the estimate and the bound**, NaN stays NaN. -/
theorem add_sampledata_max [Zero α] (est : Option α) (carriers : List (α × Int)) :
    maxBound est (siteBound carriers) = est.map (fun v => max v (siteBound carriers)) := by
  unfold maxBound
  cases est with
  | none => rfl
  | some v =>
    simp only [Option.map_some]
    split_ifs with h
    · rw [max_eq_right (le_of_lt h)]
    · rw [max_eq_left (le_of_not_gt h)]

/-- The bound is **the oldest historical sample (time ≠ 0) carrying a derived allele (genotype > 0)**,
or 0 when there is none: an upper bound of all such carriers' times, non-negative, and attained. -/
theorem site_bound_spec [Zero α] (carriers : List (α × Int)) :
    (0 : α) ≤ siteBound carriers ∧
    (∀ c ∈ carriers, c.1 ≠ 0 → 0 < c.2 → c.1 ≤ siteBound carriers) ∧
    (siteBound carriers = 0 ∨ ∃ c ∈ carriers, c.1 ≠ 0 ∧ 0 < c.2 ∧ c.1 = siteBound carriers) := by
  unfold siteBound
  suffices key : ∀ (b0 : α) (cs : List (α × Int)),
      let b := cs.foldl (fun b c => if (c.1 < 0 ∨ 0 < c.1) ∧ 0 < c.2 ∧ b < c.1 then c.1 else b) b0
      b0 ≤ b ∧ (∀ c ∈ cs, c.1 ≠ 0 → 0 < c.2 → c.1 ≤ b) ∧
        (b = b0 ∨ ∃ c ∈ cs, c.1 ≠ 0 ∧ 0 < c.2 ∧ c.1 = b) by
    exact key 0 carriers
  intro b0 cs
  induction cs generalizing b0 with
  | nil => exact ⟨le_rfl, fun c h => by simp at h, Or.inl rfl⟩
  | cons c cs ih =>
    simp only [List.foldl_cons]
    by_cases hc : (c.1 < 0 ∨ 0 < c.1) ∧ 0 < c.2 ∧ b0 < c.1
    · rw [if_pos hc]
      obtain ⟨h1, h2, h3⟩ := ih c.1
      refine ⟨le_trans (le_of_lt hc.2.2) h1, ?_, ?_⟩
      · intro d hd hd0 hdg
        rcases List.mem_cons.mp hd with rfl | hd
        · exact h1
        · exact h2 d hd hd0 hdg
      · rcases h3 with h3 | ⟨d, hd, hd'⟩
        · right; exact ⟨c, List.mem_cons_self .., ne_of_lt_or_gt' hc.1, hc.2.1, h3.symm⟩
        · right; exact ⟨d, List.mem_cons_of_mem _ hd, hd'⟩
    · rw [if_neg hc]
      obtain ⟨h1, h2, h3⟩ := ih b0
      refine ⟨h1, ?_, ?_⟩
      · intro d hd hd0 hdg
        rcases List.mem_cons.mp hd with rfl | hd
        · have : ¬ b0 < d.1 := fun hlt => hc ⟨lt_or_gt_of_ne hd0, hdg, hlt⟩
          exact le_trans (le_of_not_gt this) h1
        · exact h2 d hd hd0 hdg
      · rcases h3 with h3 | ⟨d, hd, hd'⟩
        · left; exact h3
        · right; exact ⟨d, List.mem_cons_of_mem _ hd, hd'⟩
where
  ne_of_lt_or_gt' {α : Type} [LinearOrder α] [Zero α] {x : α} (h : x < 0 ∨ 0 < x) : x ≠ 0 := by
    rcases h with h | h
    · exact ne_of_lt h
    · exact (ne_of_lt h).symm

end Order

section Generic
variable {α : Type} [Inhabited α] [Add α] [Mul α] [Div α] [OfNat α 2] [LT α] [DecidableLT α]

/-- **The node-age summaries**: `child` uses the node below the mutation; above a root (no parent)
every selection uses the child's age; otherwise `parent`, arithmetic mean, geometric mean. -/
theorem mut_age_def (sqrt : α → α) (tn p : α) :
    (∀ tp, mutAge sqrt .child tn tp = tn) ∧
    (∀ sel, mutAge sqrt sel tn none = tn) ∧
    mutAge sqrt .parent tn (some p) = p ∧
    mutAge sqrt .arithmetic tn (some p) = (tn + p) / 2 ∧
    mutAge sqrt .geometric tn (some p) = sqrt (tn * p) := by
  refine ⟨fun tp => by cases tp <;> rfl, fun sel => by cases sel <;> rfl, rfl, rfl, rfl⟩

/-- Entry `i` of the result is the per-site fold over the summaries of exactly the mutations whose
site is `i`, evaluated with the node above taken at the site's position. -/
theorem sites_time_entry (sqrt : α → α) (sel : Sel) (m : α) (times : Array α) (es : List (TEdge α))
    (sites : List α) (muts : List (Nat × Nat)) (i : Nat) (hi : i < sites.length) :
    (sitesTime sqrt sel m times es sites muts)[i]? =
      some (siteFold m ((muts.filter (fun mu => mu.1 == i)).map (fun mu =>
        mutAge sqrt sel (aget times mu.2)
          ((parentAt es (aget sites.toArray i) mu.2).map (aget times))))) := by
  simp [sitesTime, agesOf, hi]

/-- The length of the result is the number of sites. -/
theorem sites_time_length (sqrt : α → α) (sel : Sel) (m : α) (times : Array α) (es : List (TEdge α))
    (sites : List α) (muts : List (Nat × Nat)) :
    (sitesTime sqrt sel m times es sites muts).length = sites.length := by
  simp [sitesTime]

/-- **unconstrained=True reads `mn`**: the node times used are the tree-sequence times for samples
and the `mn` metadata for every other node; it fails exactly when some non-sample node has no `mn`. -/
theorem unconstrained_uses_mn (isSample : Array Bool) (time : Array α) (mn : Array (Option α)) :
    (nodesTimeUnconstrained isSample time mn = none ↔
      ∃ i, i < time.size ∧ aget isSample i = false ∧ aget mn i = none) ∧
    (∀ out, nodesTimeUnconstrained isSample time mn = some out →
      out.size = time.size ∧ ∀ i, i < time.size →
        (aget isSample i = true → aget out i = aget time i) ∧
        (aget isSample i = false → aget mn i = some (aget out i))) := by
  unfold nodesTimeUnconstrained
  constructor
  · rw [Option.map_eq_none_iff, ntuGo_none]
    simp
  · intro out h
    rw [Option.map_eq_some_iff] at h
    obtain ⟨l, hl, rfl⟩ := h
    obtain ⟨hlen, hk⟩ := ntuGo_some isSample time mn _ l hl
    simp only [List.length_range] at hlen
    refine ⟨by simpa using hlen, ?_⟩
    intro i hi
    have := hk i (by simpa using hi) (by omega)
    simp only [List.getElem_range] at this
    have hg : aget l.toArray i = l[i]'(by omega) := by simp [aget, hlen, hi]
    rw [hg]; exact this

/-- **Which node times are used, and when the call fails** (`none` = `ValueError`): no sites, or
`unconstrained` and `mn` missing somewhere; `unconstrained=False` uses the tree-sequence times. -/
theorem sites_time_from_ts_cases (sqrt : α → α) (sel : Sel) (m : α) (isSample : Array Bool)
    (time : Array α) (mn : Array (Option α)) (es : List (TEdge α)) (sites : List α)
    (muts : List (Nat × Nat)) (hs : 1 ≤ sites.length) :
    sitesTimeFromTs sqrt false sel m isSample time mn es sites muts
      = some (sitesTime sqrt sel m time es sites muts) ∧
    sitesTimeFromTs sqrt true sel m isSample time mn es sites muts
      = (nodesTimeUnconstrained isSample time mn).map (fun t => sitesTime sqrt sel m t es sites muts) := by
  have h1 : ¬ sites.length < 1 := by omega
  simp [sitesTimeFromTs, h1]

end Generic

section Parent
variable {α : Type} [Inhabited α] [LinearOrder α]

/-- **The node above.** If at most one edge with child `u` covers `x` (true of every tree sequence),
`parentAt` returns the parent of that edge, and `none` exactly when `u` has no parent at `x`
(root or isolated) — then the child's age is used. -/
theorem parent_above (es : List (TEdge α)) (x : α) (u : Nat)
    (huniq : ∀ e ∈ es, ∀ e' ∈ es, e.child = u → e'.child = u → e.left ≤ x → x < e.right →
      e'.left ≤ x → x < e'.right → e.parent = e'.parent) :
    (∀ p, parentAt es x u = some p ↔
      ∃ e ∈ es, e.child = u ∧ e.parent = p ∧ e.left ≤ x ∧ x < e.right) ∧
    (parentAt es x u = none ↔ ∀ e ∈ es, e.child = u → ¬ (e.left ≤ x ∧ x < e.right)) := by
  unfold parentAt
  constructor
  · intro p
    rw [Option.map_eq_some_iff]
    constructor
    · rintro ⟨e, he, rfl⟩
      have hm := List.mem_of_find?_eq_some he
      have hp := List.find?_some he
      simp only [Bool.and_eq_true, beq_iff_eq, Bool.not_eq_eq_eq_not, Bool.not_true,
        decide_eq_false_iff_not, not_lt, decide_eq_true_eq] at hp
      exact ⟨e, hm, hp.1.1, rfl, hp.1.2, hp.2⟩
    · rintro ⟨e, hm, hc, rfl, hl, hr⟩
      cases hf : es.find? (fun e => e.child == u && !decide (x < e.left) && decide (x < e.right)) with
      | none =>
        have := List.find?_eq_none.mp hf e hm
        simp [hc, hl, hr] at this
      | some e' =>
        have hm' := List.mem_of_find?_eq_some hf
        have hp := List.find?_some hf
        simp only [Bool.and_eq_true, beq_iff_eq, Bool.not_eq_eq_eq_not, Bool.not_true,
          decide_eq_false_iff_not, not_lt, decide_eq_true_eq] at hp
        exact ⟨e', rfl, huniq e' hm' e hm hp.1.1 hc hp.1.2 hp.2 hl hr⟩
  · rw [Option.map_eq_none_iff, List.find?_eq_none]
    constructor
    · intro h e hm hc hcov
      have := h e hm
      simp [hc, hcov.1, hcov.2] at this
    · intro h e hm
      simp only [Bool.and_eq_true, beq_iff_eq, Bool.not_eq_eq_eq_not, Bool.not_true,
        decide_eq_false_iff_not, not_lt, decide_eq_true_eq, not_and]
      intro hcl
      by_contra hr
      exact h e hm hcl.1 ⟨hcl.2, lt_of_not_ge hr⟩

end Parent

/-! ### Non-vacuity: two samples (0, 1) under a root (2, age 10); three sites -/

example : sitesTime (fun x => x) .parent (1 : Nat) #[0, 0, 10]
    [⟨0, 10, 2, 0⟩, ⟨0, 10, 2, 1⟩] [2, 3, 4] [(0, 0), (1, 2), (1, 1)] = [some 10, some 10, none] := by
  decide +kernel

example : sitesTime (fun x => x) .child (1 : Nat) #[0, 0, 10]
    [⟨0, 10, 2, 0⟩, ⟨0, 10, 2, 1⟩] [2, 3, 4] [(0, 0), (1, 2), (1, 1)] = [some 1, some 10, none] := by
  decide +kernel

example : sitesTime (fun x => x) .arithmetic (1 : Nat) #[0, 0, 10]
    [⟨0, 10, 2, 0⟩, ⟨0, 10, 2, 1⟩] [2, 3, 4] [(0, 0), (1, 2), (1, 1)] = [some 5, some 10, none] := by
  decide +kernel

example : nodesTimeUnconstrained #[true, true, false] #[(0 : Nat), 0, 10] #[none, none, some 7]
    = some #[0, 0, 7] := by decide +kernel

example : nodesTimeUnconstrained #[true, true, false] #[(0 : Nat), 0, 10] #[none, none, none]
    = none := by decide +kernel

example : addSampledataTimes [some (3 : Int), none, some 9] [[(0, 1), (5, 1)], [(5, 1)], [(5, 0), (7, 1)]]
    = [some 5, none, some 9] := by decide +kernel

end Tsdate.C31
