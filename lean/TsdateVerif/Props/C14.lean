/-
C14 — conditional coalescent prior moments are exact.

Model: `Model/Coalescent.lean` (`_marginalize_over_ancestors`, `conditional_coalescent_variance`,
`tau_expect`, `tau_var_mrca`, `gamma_approx`, `lognorm_approx` of tsdate/prior.py; the log-space
recursion in multiplicative form).  Spec: `Spec/Coalescent.lean` (Wiuf–Donnelly closed form
`closedP`, hypoexponential moments, `specMean`, `specVar`).

All theorems are over an arbitrary field of characteristic 0 (ℚ and ℝ are instances), for *every*
`n` and `k` — no bound.  That `closedP` is the Kingman conditional law of the number of extant
ancestors, and that the waiting time given `a` ancestors is hypoexponential with the stated
moments, is cited mathematics (Wiuf & Donnelly 1999), not proved here.
-/
import TsdateVerif.Proofs.CoalescentTop
import Mathlib.Analysis.SpecialFunctions.Log.Basic
import Mathlib.Tactic.NormNum

namespace Tsdate.C14
open Tsdate.Coalescent Finset
set_option linter.unusedSectionVars false

section Field
variable {α : Type} [Field α] [CharZero α]

/-- **The code's downward recursion computes the closed form.**  At the start of iteration `k` of
`for k in range(n-1, 1, -1)` the list `exp(pr_a_ln[2:])` has `n-k` entries and entry `a`
(`2 ≤ a ≤ n-k+1`) is `C(a,2)·C(n-a-1,k-2)/C(n,k+1)`. -/
theorem recursion_eq_closed (n k a : ℕ) (hk : 2 ≤ k) (hkn : k < n) (ha : 2 ≤ a) (han : a ≤ n - k + 1) :
    (prAt (α := α) n k).length = n - k ∧ (prAt (α := α) n k).getD (a - 2) 0 = closedP n k a := by
  rw [prAt_eq n k hk hkn, closedList_length, closedList_getD _ _ _ _ _ (by omega)]
  exact ⟨rfl, by congr 1; omega⟩

/-- The loop body as the code runs it — read `pr[a]`, add to `out[k]`, then overwrite `pr[a]`, entry by
entry — equals the separated form (dot product over the old list, then the update) on which the other
theorems are proved. -/
theorem inner_loop_read_then_write (n : ℕ) (val : ℕ → α) (s : MState α) (k : ℕ) :
    margBody n val s k = margBodyRef n val s k :=
  margBody_eq_ref n val s k

/-- The closed form is a probability distribution on `a ∈ [2, n-k+1]`. -/
theorem closed_sums_to_one (n k : ℕ) (hk : 2 ≤ k) (hkn : k < n) :
    ∑ a ∈ Ico 2 (n - k + 2), closedP (α := α) n k a = 1 :=
  closed_sums_to_one' n k hk hkn

/-- **`_marginalize_over_ancestors` is exact**: for every input column `val`, output row `k`
(`2 ≤ k < n`) is the expectation of `val[a]` under the closed form, and row `n` is `val[1]`. -/
theorem marginalize_rows (n : ℕ) (hn : 2 ≤ n) (val : ℕ → α) :
    marginalize n val
      = (List.range' 2 (n - 2)).map (fun k => (k, ∑ a ∈ Ico 2 (n - k + 2), closedP n k a * val a))
        ++ [(n, val 1)] := by
  rw [marginalize_eq n hn val]
  congr 1
  apply List.map_congr_left
  intro k _
  rw [rowClosed_eq_sum]

/-- The arrays fed to the marginalisation are the hypoexponential moments: `mean[a] = Σ_{i=a+1}^n
2/(i(i-1)) = 2(1/a − 1/n)` and `variance[a] + mean[a]² ` with `variance[a] = Σ (2/(i(i-1)))²`. -/
theorem arrays_are_hypoexponential (n a : ℕ) (ha : 1 ≤ a) (han : a ≤ n) :
    val1 (α := α) n a = hypoMeanSpec n a ∧ hypoMeanSpec (α := α) n a = 2 * (1 / (a : α) - 1 / (n : α))
      ∧ val2 (α := α) n a = hypoVarSpec n a + hypoMeanSpec n a ^ 2 :=
  ⟨val1_eq_spec n a ha han, hypoMeanSpec_closed n a ha han, val2_eq_spec n a ha han⟩

/-- **Mean**: the first-moment column the code computes by recursion equals `tau_expect(k, n)` for
every `k = 2 … n` (`(k-1)/n` below the root, `2(1 − 1/n)` at the root). -/
theorem mean_eq_tau_expect (n : ℕ) (hn : 2 ≤ n) :
    condCoalMean (α := α) n = (List.range' 2 (n - 1)).map (fun k => (k, tauExpect k n)) := by
  rw [condCoalMean_eq n hn, show n - 1 = (n - 2) + 1 by omega, List.range'_concat, List.map_append]
  congr 1
  · apply List.map_congr_left
    intro k hk
    have := List.mem_range'_1.mp hk
    rw [rowClosed_val1 n k (by omega) (by omega), specMean_eq n k (by omega) (by omega), tauExpect,
      if_neg (by omega)]
  · simp only [List.map_cons, List.map_nil, Nat.one_mul]
    rw [show 2 + (n - 2) = n by omega, val1_eq_spec n 1 (by omega) (by omega),
      hypoMeanSpec_closed n 1 (by omega) (by omega), tauExpect, if_pos rfl]
    simp

/-- `tau_expect` is the mean of the node age under the closed form (spec side). -/
theorem tau_expect_is_spec_mean (n k : ℕ) (hk : 2 ≤ k) (hkn : k < n) :
    tauExpect (α := α) k n = specMean n k := by
  rw [specMean_eq n k hk hkn, tauExpect, if_neg (by omega)]

/-- **Variance**: `conditional_coalescent_variance(n)[k]` is the variance of the node age under the
closed form (second moment − mean², law of total variance) for `2 ≤ k < n`, and the hypoexponential
variance `Σ_{i=2}^{n} (2/(i(i-1)))²` of the time to the MRCA for `k = n`. -/
theorem variance_def (n : ℕ) (hn : 2 ≤ n) :
    condCoalVar (α := α) n
      = (List.range' 2 (n - 2)).map (fun k => (k, specVar n k)) ++ [(n, hypoVarSpec n 1)] := by
  rw [condCoalVar_eq n hn]
  congr 1
  · apply List.map_congr_left
    intro k hk
    have := List.mem_range'_1.mp hk
    rw [rowClosed_val1 n k (by omega) (by omega), rowClosed_val2 n k (by omega) (by omega), specVar, sq]
  · rw [val2_eq_spec n 1 (by omega) (by omega), val1_eq_spec n 1 (by omega) (by omega)]
    simp [sq]

/-- `gamma_approx`: the returned shape/rate reproduce the given mean and variance exactly. -/
theorem gamma_approx_moments (m v : α) (hm : m ≠ 0) (hv : v ≠ 0) :
    (gammaApprox m v).1 / (gammaApprox m v).2 = m ∧
      (gammaApprox m v).1 / (gammaApprox m v).2 ^ 2 = v := by
  unfold gammaApprox
  constructor <;> field_simp

end Field

section Ordered
variable {α : Type} [Field α] [LinearOrder α] [IsStrictOrderedRing α]

/-- `tau_var_mrca(n)` (the closed-form sum used on the approximate-prior path) equals the root row
of `conditional_coalescent_variance`. -/
theorem mrca_variance (n : ℕ) : tauVarMrca (α := α) n = hypoVarSpec n 1 := tauVarMrca_eq n

/-- `lognorm_approx`, for any `exp`/`log` pair with `exp (log x) = x` on positives and
`exp (x + y) = exp x · exp y`: the lognormal with the returned `(alpha, beta)` has mean
`exp(alpha + beta/2) = m` and variance `(exp beta − 1) · exp(2 alpha + beta) = v`. -/
theorem lognorm_approx_moments (exp log : α → α) (hel : ∀ x, 0 < x → exp (log x) = x)
    (hadd : ∀ x y, exp (x + y) = exp x * exp y) (m v : α) (hm : 0 < m) (hv : 0 < v) :
    exp ((lognormApprox log m v).1 + (lognormApprox log m v).2 / 2) = m ∧
      (exp (lognormApprox log m v).2 - 1) * exp (2 * (lognormApprox log m v).1 + (lognormApprox log m v).2)
        = v := by
  unfold lognormApprox
  simp only [Nat.cast_one, Nat.cast_ofNat]
  have hpos : 0 < v / (m * m) + 1 := by positivity
  constructor
  · rw [show log m - log (v / (m * m) + 1) / 2 + log (v / (m * m) + 1) / 2 = log m by ring]
    exact hel m hm
  · rw [show 2 * (log m - log (v / (m * m) + 1) / 2) + log (v / (m * m) + 1) = log m + log m by ring,
      hadd, hel m hm, hel _ hpos]
    field_simp
    ring

end Ordered

/-- The same over ℝ with the real `exp`/`log`. -/
theorem lognorm_approx_moments_real (m v : ℝ) (hm : 0 < m) (hv : 0 < v) :
    Real.exp ((lognormApprox Real.log m v).1 + (lognormApprox Real.log m v).2 / 2) = m ∧
      (Real.exp (lognormApprox Real.log m v).2 - 1)
          * Real.exp (2 * (lognormApprox Real.log m v).1 + (lognormApprox Real.log m v).2) = v :=
  lognorm_approx_moments Real.exp Real.log (fun _ hx => Real.exp_log hx) Real.exp_add m v hm hv

/-! Non-vacuity: concrete instances of the hypotheses and of the conclusions. -/

example : (2 : ℕ) ≤ 3 ∧ 3 < 7 ∧ 2 ≤ 4 ∧ 4 ≤ 7 - 3 + 1 := by decide

/-- `P(· | k=2, n=4) = (1/4, 3/4)`. -/
example : closedP (α := ℚ) 4 2 2 = 1 / 4 ∧ closedP (α := ℚ) 4 2 3 = 3 / 4 := by
  constructor <;> norm_num [closedP, Nat.choose]

/-- The model's first-moment column for `n = 5`. -/
example : condCoalMean (α := ℚ) 5 = [(2, 1 / 5), (3, 2 / 5), (4, 3 / 5), (5, 8 / 5)] := by
  rw [mean_eq_tau_expect 5 (by norm_num)]
  norm_num [tauExpect, List.range']

example : (gammaApprox (1 / 5 : ℚ) (1 / 18)).1 / (gammaApprox (1 / 5 : ℚ) (1 / 18)).2 = 1 / 5 :=
  (gamma_approx_moments (1 / 5 : ℚ) (1 / 18) (by norm_num) (by norm_num)).1

end Tsdate.C14
