/-
C27 — constraint enforcement is minimal and idempotent (model: `_constrain_ages`).
-/
import TsdateVerif.Proofs.Constrain

namespace Tsdate.C27
open Tsdate
set_option linter.unusedSectionVars false

variable {α : Type} [Inhabited α] [Field α] [LinearOrder α] [IsStrictOrderedRing α]

/-- With the least-squares phase off (`iters = 0`) and no absorption (test and assignment use the
same function — exact arithmetic, or any region where `x + eps` rounds above `x`), each output time
is the larger of its unconstrained value and `fadd` of each child's output time. -/
theorem forced_is_max (fadd : α → α) (fixed : Array Bool) (eps : α) (es : List Edge) (t : Array α)
    (hr : InRange t.size es) (htopo : TopoOrdered es) (p : Nat) :
    aget (constrainAges fadd fadd fixed eps es t 0) p =
      maxWith (aget t p) ((es.filter (fun e => e.p = p)).map
        (fun e => fadd (aget (constrainAges fadd fadd fixed eps es t 0) e.c))) :=
  forced_max_char fadd es t hr htopo p

/-- The general (rounded) form: input value bumped by each child's output value in edge order. -/
theorem forced_is_bump (ftest fadd : α → α) (fixed : Array Bool) (eps : α) (es : List Edge)
    (t : Array α) (hr : InRange t.size es) (htopo : TopoOrdered es) (p : Nat) :
    aget (constrainAges ftest fadd fixed eps es t 0) p =
      bumpWith ftest fadd (aget t p) ((es.filter (fun e => e.p = p)).map
        (fun e => aget (constrainAges ftest fadd fixed eps es t 0) e.c)) :=
  forced_char ftest fadd es t hr htopo p

/-- Times are never lowered by the forced pass … -/
theorem forced_raises_only (ftest fadd : α → α) (hle : ∀ x, ftest x ≤ fadd x) (fixed : Array Bool)
    (eps : α) (es : List Edge) (t : Array α) (hr : InRange t.size es) (i : Nat) :
    aget t i ≤ aget (constrainAges ftest fadd fixed eps es t 0) i :=
  forced_mono ftest fadd hle es t hr i

/-- … and raised only as much as needed: the output is below every vector that dominates the
input and satisfies all constraints `fadd (t' c) ≤ t' p` (for monotone `fadd`). -/
theorem forced_least (ftest fadd : α → α) (hmono : Monotone fadd) (fixed : Array Bool) (eps : α)
    (es : List Edge) (t t' : Array α) (hr : InRange t.size es)
    (hge : ∀ i, aget t i ≤ aget t' i) (hgood : ∀ e ∈ es, fadd (aget t' e.c) ≤ aget t' e.p) (i : Nat) :
    aget (constrainAges ftest fadd fixed eps es t 0) i ≤ aget t' i := by
  show aget (forced ftest fadd t es) i ≤ aget t' i
  induction es generalizing t with
  | nil => exact hge i
  | cons e es ih =>
    rw [forced_cons]
    have hp := hr.head.1
    apply ih _ (by rw [forcedStep_size]; exact hr.tail) _
      (fun e' he' => hgood e' (List.mem_cons_of_mem _ he'))
    intro j
    by_cases hj : j = e.p
    · subst hj
      rw [forcedStep_parent _ _ _ _ hp]
      split_ifs
      · exact le_trans (hmono (hge _)) (hgood e (List.mem_cons_self ..))
      · exact hge _
    · rw [forcedStep_other _ _ _ _ _ hj]; exact hge j

/-- Times that already satisfy every branch-length constraint strictly come back unchanged, for
every iteration count. -/
theorem unchanged_if_strict (fixed : Array Bool) (eps : α) (es : List Edge) (t : Array α)
    (iters : Nat) (h : ∀ e ∈ es, aget t e.c + eps < aget t e.p) :
    constrainAges (· + eps) (· + eps) fixed eps es t iters = t := by
  unfold constrainAges
  cases iters with
  | zero =>
    exact forced_noop (· + eps) (· + eps) (fun _ => le_rfl) es t (fun e he => Or.inl (h e he))
  | succ n =>
    unfold constrainGo
    have : allStrict eps es t = true := by
      apply List.all_eq_true.mpr
      intro e he
      have := h e he
      simp only [decide_eq_true_eq]
      linarith
    simp [this]

/-- **Idempotence**: constraining already-constrained times changes nothing (any iteration
count, any rounding with `x ≤ ftest x ≤ fadd x`). -/
theorem idempotent (ftest fadd : α → α) (hle : ∀ x, ftest x ≤ fadd x) (hge : ∀ x, x ≤ ftest x)
    (fixed : Array Bool) (eps : α)
    (es : List Edge) (t : Array α) (iters : Nat) (hr : InRange t.size es) (htopo : TopoOrdered es) :
    constrainAges ftest fadd fixed eps es (constrainAges ftest fadd fixed eps es t iters) iters
      = constrainAges ftest fadd fixed eps es t iters := by
  obtain ⟨s', hs', h⟩ := constrainGo_cases ftest fadd fixed eps es (LSInv fixed es t)
    (fun s hs => lsSweep_inv fixed es t hr s hs) iters _ (lsInv_init fixed es t)
  have hout : constrainAges ftest fadd fixed eps es t iters
      = constrainGo ftest fadd fixed eps es iters
          { t := t, cav := Array.replicate es.length (0, 0) } := rfl
  rcases h with ⟨h1, h2, h3⟩ | h
  · -- early exit: the strict test holds again at once
    rw [hout, h1]
    unfold constrainAges
    obtain ⟨n, rfl⟩ : ∃ n, iters = n + 1 := ⟨iters - 1, by omega⟩
    unfold constrainGo
    simp [h2]
  · rw [hout, h]
    unfold constrainAges
    apply constrainGo_fixpoint ftest fadd hle hge fixed eps es iters _ (by simp)
    · intro j hj
      have hj' : j < es.length := by simpa using hj
      simp [aget, hj']
    · exact forced_good ftest fadd hle es s'.t (by rw [hs'.tsize]; exact hr) htopo

/-! Non-vacuity: a DAG with a shared child and inverted unconstrained times meets the hypotheses,
and the forced pass acts on it. -/
example : InRange 4 [⟨2, 0⟩, ⟨2, 1⟩, ⟨3, 2⟩, ⟨3, 1⟩] ∧ TopoOrdered [⟨2, 0⟩, ⟨2, 1⟩, ⟨3, 2⟩, ⟨3, 1⟩] := by
  simp [InRange, TopoOrdered]

example : (constrainAges (· + (1 : Rat)) (· + (1 : Rat)) #[true, true, false, false] 1
    [⟨2, 0⟩, ⟨2, 1⟩, ⟨3, 2⟩, ⟨3, 1⟩] #[0, 0, 5, 2] 0) = #[0, 0, 5, 6] := by decide +kernel

end Tsdate.C27
