/-
C37 — standalone tree-sequence rescaling works
(model: `rescale_tree_sequence`, tsdate/rescaling.py; `Model/Rescale.lean`, section Standalone).

Since commit 89fa000 (repair of finding F2: the boolean fixed-node vector is passed to
`mutational_timescale`) the function runs, so the positive statement is the obligation.  The loop
`rescaleIter` returns `some t'` exactly when no assertion of the code fires; the theorems say what `t'`
is then.  Table validity, sort order and `compute_mutation_parents` are tskit contracts.
-/
import TsdateVerif.Proofs.RescaleIter
import TsdateVerif.Props.C25

namespace Tsdate.C37
open Tsdate.Rescale
set_option linter.unusedSectionVars false

variable {α : Type} [Inhabited α] [Field α] [LinearOrder α] [IsStrictOrderedRing α]

/-- **Sample (fixed) node times are unchanged**, whatever the number of iterations and intervals, and
the time vector keeps its length. -/
theorem samples_untouched (cast : Nat → α) (lik : List (α × α)) (edges : List Edge) (fixed : List Bool)
    (m n : Nat) (t t' : List α) (hf : fixed.length = t.length)
    (h : rescaleIter cast lik edges fixed m n t = some t') :
    t'.length = t.length ∧ ∀ i, i < t.length → lget fixed i = true → lget t' i = lget t i := by
  refine rescaleIter_induct cast lik edges fixed m
    (fun t0 t1 => fixed.length = t0.length → t1.length = t0.length ∧
      ∀ i, i < t0.length → lget fixed i = true → lget t1 i = lget t0 i)
    (fun _ _ => ⟨rfl, fun _ _ _ => rfl⟩) ?_ n t t t' (fun _ => ⟨rfl, fun _ _ _ => rfl⟩) h hf
  intro t0 t1 ob rb hP _ _ hf0
  obtain ⟨hl, hfix⟩ := hP hf0
  have hf1 : fixed.length = t1.length := by rw [hl]; exact hf0
  refine ⟨by rw [length_piecewiseScalePoint t1 fixed ob rb hf1, hl], ?_⟩
  intro i hi hfi
  rw [lget_piecewiseScalePoint t1 fixed ob rb i (by rw [hl]; exact hi) hf1, if_pos hfi]
  exact hfix i hi hfi

/-- **Non-sample times are transformed by a non-decreasing map**: two free nodes with
`0 ≤ t[i] ≤ t[j]` before satisfy `0 ≤ t'[i] ≤ t'[j]` after, for any number of iterations. -/
theorem nonsample_order_preserved (lik : List (α × α)) (edges : List Edge) (fixed : List Bool)
    (m n : Nat) (t t' : List α) (hf : fixed.length = t.length)
    (h : rescaleIter (fun k : Nat => (k : α)) lik edges fixed m n t = some t') (i j : Nat)
    (hi : i < t.length) (hj : j < t.length) (hfi : lget fixed i = false) (hfj : lget fixed j = false)
    (h0 : 0 ≤ lget t i) (hij : lget t i ≤ lget t j) :
    0 ≤ lget t' i ∧ lget t' i ≤ lget t' j := by
  have key := rescaleIter_induct (fun k : Nat => (k : α)) lik edges fixed m
    (fun t0 t1 => fixed.length = t0.length → t1.length = t0.length ∧
      ((0 ≤ lget t0 i ∧ lget t0 i ≤ lget t0 j) → (0 ≤ lget t1 i ∧ lget t1 i ≤ lget t1 j)))
    (fun _ _ => ⟨rfl, fun hh => hh⟩) ?_ n t t t' (fun _ => ⟨rfl, fun hh => hh⟩) h hf
  · exact key.2 ⟨h0, hij⟩
  · intro t0 t1 ob rb hP hts hpre hf0
    obtain ⟨hl, hord⟩ := hP hf0
    have hf1 : fixed.length = t1.length := by rw [hl]; exact hf0
    obtain ⟨hne, hob0, hrb0⟩ := timescale_zero _ t1 lik edges m ob rb hts
    refine ⟨by rw [length_piecewiseScalePoint t1 fixed ob rb hf1, hl], ?_⟩
    intro hh
    obtain ⟨g0, gij⟩ := hord hh
    have hi1 : i < t1.length := by rw [hl, ← hf0, hf]; exact hi
    have hj1 : j < t1.length := by rw [hl, ← hf0, hf]; exact hj
    rw [lget_piecewiseScalePoint t1 fixed ob rb i hi1 hf1, lget_piecewiseScalePoint t1 fixed ob rb j hj1 hf1,
      hfi, hfj]
    simp only [Bool.false_eq_true, if_false]
    have hhead : ob.head hne = 0 := by rw [head_eq_lget, hob0]
    have hz := C25.pwl_fix_zero ob rb hpre hne hob0 hrb0
    constructor
    · rw [← hz]
      exact C25.pwl_monotone ob rb hpre hne 0 _ (by rw [hhead]) g0
    · exact C25.pwl_monotone ob rb hpre hne _ _ (by rw [hhead]; exact g0) gij

/-- **One rescaling step is strictly increasing up to the last original break** (which is the oldest
node time), so a parent strictly older than its child stays strictly older: the output times are
valid for the unchanged edge table. -/
theorem rescale_step_strict (ob rb : List α) (h : pwlPre ob rb = true) (hne : ob ≠ []) (x y : α)
    (hx : ob.head hne ≤ x) (hxy : x < y) (hy : y ≤ ob.getLast hne) : pwlAt ob rb x < pwlAt ob rb y := by
  rw [C25.pwl_interpolant ob rb h hne x hx, C25.pwl_interpolant ob rb h hne y (le_trans hx hxy.le)]
  have hzne := zip_ne ob rb h hne
  have hlast : ((ob.zip rb).getLast hzne).1 = ob.getLast hne := by
    have : ((ob.zip rb).map (·.1)).getLast (by simpa using hzne) = ((ob.zip rb).getLast hzne).1 :=
      List.getLast_map _
    rw [← this]
    congr 1
    exact zip_fst ob rb h
  exact pwlRec_strictMono _ x y (zip_incZ ob rb h) hzne
    (by rw [zip_head ob rb h hne]; exact hx) hxy (by rw [hlast]; exact hy)

/-- **`mutation_midpoint`**: a mutation on an edge gets the midpoint of the edge's end times — between
child and parent, strictly inside when the parent is strictly older; a mutation above a root
(`edge = none`) gets its node's time. -/
theorem mutation_midpoint (t : List α) (e : Edge) (node : Nat) :
    mutationTime t (some e) node = (lget t e.p + lget t e.c) / 2 ∧
    (lget t e.c ≤ lget t e.p →
      lget t e.c ≤ mutationTime t (some e) node ∧ mutationTime t (some e) node ≤ lget t e.p) ∧
    (lget t e.c < lget t e.p →
      lget t e.c < mutationTime t (some e) node ∧ mutationTime t (some e) node < lget t e.p) ∧
    mutationTime t none node = lget t node := by
  refine ⟨rfl, ?_, ?_, rfl⟩
  · intro h
    simp only [mutationTime]
    constructor <;> linarith
  · intro h
    simp only [mutationTime]
    constructor <;> linarith

/-! ### Non-vacuity: a two-leaf tree with one internal node; one interval, one iteration. -/

example : rescaleIter (fun k : Nat => (k : Rat)) [(3, 10), (1, 10)] [⟨2, 0⟩, ⟨2, 1⟩] [true, true, false] 1 1
    [0, 0, 5] = some [0, 0, 1 / 5] := by decide +kernel

example : mutationTime ([0, 0, 1 / 5] : List Rat) (some ⟨2, 0⟩) 0 = 1 / 10 := by decide +kernel

end Tsdate.C37
