/-
C30 — unary-node detection is exact.

Models: `Unary.containsUnary` (the numba kernel `tsdate.util._contains_unary_nodes`, an instance of
the shared two-pointer sweep `Sweep.sweep`; `variational_gamma` calls it with the sample nodes
masked) and `Unary.hasLocallyUnary` (`tsdate.prior.has_locally_unary_nodes`, the detector of the
discrete-time methods, under tskit's contract for `trees()`/`edge_diffs()`/`num_children_array`).
`Unary.numChildrenAt T pos p` is the number of edges with parent `p` whose interval covers `pos`,
i.e. the number of children of `p` in the local tree at `pos`.

Hypotheses are the executable checks of Model/Sweep.lean (`validB`: both tskit indexes are
permutations of the edge ids sorted by left / right coordinate, `0 ≤ left < right ≤ L`;
`nodesBelowB`: node ids are below `num_nodes`); the harness evaluates them on every generated input.
Positions range over any linear order (so the statements hold for the real numbers and for the
finite doubles alike; there is no arithmetic on positions in this kernel).
-/
import TsdateVerif.Proofs.Unary

namespace Tsdate.C30
open Tsdate Tsdate.Sweep Tsdate.Unary
set_option linter.unusedSectionVars false

variable {α : Type} [Inhabited α] [LinearOrder α] [OfNat α 0]

/-- **The sweep detector is exact, for every mask.**  On valid tables `_contains_unary_nodes`
terminates, and it returns `True` exactly when at some position some unmasked node has exactly one
child in the local tree.  (With `mask` = the sample nodes this is the `variational_gamma` clause of
C30: rejected iff some non-sample node is locally unary.) -/
theorem contains_unary_spec (T : Tables α) (mask : Array Bool) (N : Nat)
    (hV : validB T = true) (hN : nodesBelowB T N = true) :
    ∃ b, containsUnary T mask N = some b ∧
      (b = true ↔ ∃ pos p, aget mask p = false ∧ numChildrenAt T pos p = 1) :=
  containsUnary_correct T mask N (valid_of_validB T hV) (parents_below T N hN)

/-- **The wrapper `contains_unary_nodes(ts, skip_samples=True)` looks at the sample bit only**
(what `variational_gamma` calls with `allow_unary=False`): it returns `True` exactly when some node
whose flags word has bit 0 (`NODE_IS_SAMPLE`) **clear** has exactly one child somewhere — whatever the
other bits of any node's flags are. -/
theorem wrapper_spec (T : Tables α) (flags : Array Nat)
    (hV : validB T = true) (hN : nodesBelowB T flags.size = true) :
    ∃ b, containsUnaryNodes T flags true = some b ∧
      (b = true ↔ ∃ pos p, aget flags p % 2 ≠ 1 ∧ numChildrenAt T pos p = 1) := by
  obtain ⟨b, hb, hiff⟩ := contains_unary_spec T (wrapperMask flags true) flags.size hV hN
  refine ⟨b, hb, ?_⟩
  rw [hiff]
  have hm : ∀ p, aget (wrapperMask flags true) p = false ↔ aget flags p % 2 ≠ 1 := by
    intro p
    simp only [wrapperMask, aget, Array.getElem?_map, Bool.true_and]
    by_cases hp : p < flags.size
    · simp [hp, sampleBit]
    · simp [hp]
  constructor
  · rintro ⟨pos, p, h1, h2⟩; exact ⟨pos, p, (hm p).mp h1, h2⟩
  · rintro ⟨pos, p, h1, h2⟩; exact ⟨pos, p, (hm p).mpr h1, h2⟩

/-- Flag bits other than bit 0 cannot change the wrapper's answer: two flags columns that agree on
the sample bit give the same result. -/
theorem wrapper_ignores_other_bits (T : Tables α) (flags flags' : Array Nat)
    (hsz : flags.size = flags'.size) (hbit : ∀ p, aget flags p % 2 = aget flags' p % 2)
    (hV : validB T = true) (hN : nodesBelowB T flags.size = true) :
    containsUnaryNodes T flags true = containsUnaryNodes T flags' true := by
  obtain ⟨b, hb, hiff⟩ := wrapper_spec T flags hV hN
  obtain ⟨b', hb', hiff'⟩ := wrapper_spec T flags' hV (hsz ▸ hN)
  rw [hb, hb']
  congr 1
  have : b = true ↔ b' = true := by
    rw [hiff, hiff']
    constructor
    · rintro ⟨pos, p, h1, h2⟩; exact ⟨pos, p, by rw [← hbit p]; exact h1, h2⟩
    · rintro ⟨pos, p, h1, h2⟩; exact ⟨pos, p, by rw [hbit p]; exact h1, h2⟩
  cases b <;> cases b' <;> simp_all

/-- **The tree-iterator detector is exact** (discrete-time clause of C30): testing, at the left end
of every tree, the parents of the edges that change there finds a node with exactly one child
whenever there is one at any position. -/
theorem has_locally_unary_spec (T : Tables α) (hV : validB T = true) :
    hasLocallyUnary T = true ↔ ∃ pos p, numChildrenAt T pos p = 1 :=
  hasLocallyUnary_iff T (fun e he => ((valid_of_validB T hV).geom e he).2.1)

/-- **The two independent detectors agree** when nothing is masked. -/
theorem detectors_agree (T : Tables α) (mask : Array Bool) (N : Nat)
    (hV : validB T = true) (hN : nodesBelowB T N = true) (hm : ∀ p, aget mask p = false) :
    containsUnary T mask N = some (hasLocallyUnary T) := by
  obtain ⟨b, hb, hiff⟩ := contains_unary_spec T mask N hV hN
  rw [hb]
  congr 1
  have h2 := has_locally_unary_spec T hV
  have : (b = true) ↔ (hasLocallyUnary T = true) := by
    rw [hiff, h2]
    constructor
    · rintro ⟨pos, p, _, h⟩; exact ⟨pos, p, h⟩
    · rintro ⟨pos, p, h⟩; exact ⟨pos, p, hm p, h⟩
  cases b <;> cases h : hasLocallyUnary T <;> simp_all

/-- With `skip_samples=False` nothing is masked: the wrapper is the unmasked detector. -/
theorem wrapper_noskip_spec (T : Tables α) (flags : Array Nat)
    (hV : validB T = true) (hN : nodesBelowB T flags.size = true) :
    containsUnaryNodes T flags false = some (hasLocallyUnary T) := by
  apply detectors_agree T _ _ hV hN
  intro p
  simp only [wrapperMask, aget, Array.getElem?_map, Bool.false_and]
  by_cases hp : p < flags.size <;> simp [hp]

/-- Masking only removes rejections: whatever `variational_gamma`'s detector rejects, the
discrete-time detector rejects too. -/
theorem masked_implies_unmasked (T : Tables α) (mask : Array Bool) (N : Nat)
    (hV : validB T = true) (hN : nodesBelowB T N = true)
    (h : containsUnary T mask N = some true) : hasLocallyUnary T = true := by
  obtain ⟨b, hb, hiff⟩ := contains_unary_spec T mask N hV hN
  rw [hb] at h
  have hb' : b = true := by simpa using h
  obtain ⟨pos, p, _, hp⟩ := hiff.mp hb'
  exact (has_locally_unary_spec T hV).mpr ⟨pos, p, hp⟩

/-- Unmasked nodes that are never unary do not cause a rejection: if every node that is unary
somewhere is masked, the sweep detector accepts. -/
theorem accepts_when_unary_nodes_masked (T : Tables α) (mask : Array Bool) (N : Nat)
    (hV : validB T = true) (hN : nodesBelowB T N = true)
    (h : ∀ pos p, numChildrenAt T pos p = 1 → aget mask p = true) :
    containsUnary T mask N = some false := by
  obtain ⟨b, hb, hiff⟩ := contains_unary_spec T mask N hV hN
  rw [hb]
  congr 1
  cases b
  · rfl
  · obtain ⟨pos, p, hm, hp⟩ := hiff.mp rfl
    rw [h pos p hp] at hm
    exact absurd hm (by simp)

/-! Non-vacuity (positions in `ℕ`): node 2 has children 0 and 1 on `[0,5)` and only child 0 on
`[5,10)`; the hypotheses hold, the unmasked sweep detector fires, masking node 2 silences it, and
the tree-iterator detector fires. -/

def exT : Tables Nat :=
  { edges := #[⟨0, 10, 2, 0⟩, ⟨0, 5, 2, 1⟩], ins := [0, 1], rem := [1, 0], seqLen := 10 }

example : validB exT = true ∧ nodesBelowB exT 3 = true := by decide
example : containsUnary exT #[false, false, false] 3 = some true := by decide
example : containsUnary exT #[true, true, true] 3 = some false := by decide
example : hasLocallyUnary exT = true := by decide
/-- the unary node 2 carries `NODE_IS_RE_EVENT` (`1 <<< 17`): still detected; as a sample (`… + 1`): masked -/
example : containsUnaryNodes exT #[1, 1, 131072] true = some true := by decide +kernel
example : containsUnaryNodes exT #[1, 1, 131073] true = some false := by decide +kernel
example : numChildrenAt exT 7 2 = 1 ∧ numChildrenAt exT 3 2 = 2 := by decide

end Tsdate.C30
