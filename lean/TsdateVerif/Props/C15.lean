/-
C15 — node span tables behind the mixture prior are exact.

Model: `Model/Spans.lean` (the run-length accumulator of `SpansBySamples.first_pass`: per node a
tracked start position, flushed into bucket `(T, k)`; `mixture_expect_and_var`).  Spec:
`Spec/Spans.lean` (direct per-tree tally; mixture moments).

The accumulator theorems hold over any additive commutative group (ℚ, ℝ, …), for every list of local
trees and **every** choice of flush sets that contains the nodes whose record `(presence, T, k)`
changes (`Adequate`).  The flush *rule* the code follows (walk up the previous tree from the changed
nodes; everything when the sample total changes) is proved adequate (`flush_rule_covers_changes`,
`accumulate_eq_tally_of_rule`, `rule_flush_complete`).  PARTIAL: that the code's bookkeeping with
`num_children` counters, `disappearing_nodes`, `visited_nodes` and the running `T` *implements* that
rule and the per-tree counts is not proved; it is tied by I/O correspondence (harness/spans_corr.py
compares the flush sets the real code is observed to use with `ruleFlush` run on the real trees, and
evaluates `Adequate` on them).  The full statement is `C15_statement` below.
-/
import TsdateVerif.Proofs.SpansClosure

namespace Tsdate.C15
open Tsdate Tsdate.Spans
set_option linter.unusedSectionVars false

section Acc
variable {α : Type} [AddCommGroup α]

/-- **Accumulated spans = direct tally.**  For every list of local trees (tiling the genome from 0)
and every admissible choice of flush sets, the bucket `_spans[u][T][k]` built by the run-length
accumulator is the total length of the trees with `T` samples in which `u` has `k` descendant
samples. -/
theorem accumulate_eq_tally (N : Nat) (first : TreeRec α) (rest : List (List Nat × TreeRec α))
    (h0 : first.left = 0) (had : Adequate N first rest) (u : Nat) (hu : u < N) (T k : Nat) :
    bucket (accumulate N first rest).log u T k = tally (first :: rest.map Prod.snd) u T k :=
  accumulate_spec _ N first rest h0 had u hu

/-- `node_spans[u]` is the total length of the trees that contain `u`. -/
theorem node_span_eq_present (N : Nat) (first : TreeRec α) (rest : List (List Nat × TreeRec α))
    (h0 : first.left = 0) (had : Adequate N first rest) (u : Nat) (hu : u < N) :
    nodeSpan (accumulate N first rest).log u = presentSpan (first :: rest.map Prod.snd) u :=
  accumulate_spec _ N first rest h0 had u hu

/-- **The spans of a node sum to its total span**: summing the buckets over any finite set of
`(T, k)` pairs that covers the node's records gives `node_spans[u]`. -/
theorem spans_sum_total (N : Nat) (first : TreeRec α) (rest : List (List Nat × TreeRec α))
    (h0 : first.left = 0) (had : Adequate N first rest) (u : Nat) (hu : u < N)
    (S : Finset (Nat × Nat))
    (hS : ∀ t ∈ first :: rest.map Prod.snd, ∀ k, aget t.desc u = some k → (t.total, k) ∈ S) :
    ∑ key ∈ S, bucket (accumulate N first rest).log u key.1 key.2
      = nodeSpan (accumulate N first rest).log u := by
  rw [node_span_eq_present N first rest h0 had u hu, ← tally_partition _ u S hS]
  apply Finset.sum_congr rfl
  intro key _
  exact accumulate_eq_tally N first rest h0 had u hu key.1 key.2

/-- A bucket that is never hit stays empty: if `u` never has record `(T, k)` the accumulated span is 0. -/
theorem bucket_zero_of_absent (N : Nat) (first : TreeRec α) (rest : List (List Nat × TreeRec α))
    (h0 : first.left = 0) (had : Adequate N first rest) (u : Nat) (hu : u < N) (T k : Nat)
    (hno : ∀ t ∈ first :: rest.map Prod.snd, aget t.desc u ≠ some k ∨ t.total ≠ T) :
    bucket (accumulate N first rest).log u T k = 0 := by
  rw [accumulate_eq_tally N first rest h0 had u hu]
  unfold tally
  generalize first :: rest.map Prod.snd = trees at hno
  induction trees with
  | nil => rfl
  | cons t ts ih =>
    rw [tallyC_cons, ih (fun t' ht' => hno t' (List.mem_cons_of_mem _ ht')), add_zero]
    have := hno t (List.mem_cons_self ..)
    rcases Option.eq_none_or_eq_some (aget t.desc u) with h | ⟨k', h⟩
    · simp [h]
    · simp only [h]
      rw [if_neg]
      intro hc
      simp only [Bool.and_eq_true, beq_iff_eq] at hc
      rcases this with h1 | h1
      · exact h1 (by rw [h, hc.2])
      · exact h1 hc.1

/-- The full statement of C15 for the accumulator *as run by the code*: with the flush sets
`codeFlush` the implementation actually uses on a tree sequence whose local trees are `first ::
rest`, the accumulated spans are the tally.  `accumulate_eq_tally` proves it under `Adequate`; the
missing link is `Adequate` for the code's own flush sets (checked per input by the harness). -/
def C15_statement (N : Nat) (first : TreeRec α) (codeRest : List (List Nat × TreeRec α)) : Prop :=
  first.left = 0 → (∀ u, u < N → ∀ T k,
    bucket (accumulate N first codeRest).log u T k = tally (first :: codeRest.map Prod.snd) u T k)

theorem C15_statement_partial (N : Nat) (first : TreeRec α) (codeRest : List (List Nat × TreeRec α))
    (had : Adequate N first codeRest) : C15_statement N first codeRest :=
  fun h0 u hu T k => accumulate_eq_tally N first codeRest h0 had u hu T k

/-- **The flush rule of `first_pass` is adequate.**  Trees given by parent functions; `Anc t c u` = `u`
is `c` or an ancestor of `c`.  If the record `(presence, T, k)` of `u` derived from the trees (`k` =
number of samples at or below `u`, absent iff `k = 0`) changes between `t` and `t'`, then `u` is reached
by walking up the *previous* tree from a node whose parent changes or from the new parent of such a
node, or the sample total changes and `u` is in the previous tree — exactly the nodes the code visits. -/
theorem flush_rule_covers_changes (t t' : Nat → Option Nat) (S : List Nat) (T T' : Nat) (u : Nat)
    (h : recFrom t S T u ≠ recFrom t' S T' u) :
    InClosure t t' u ∨ (T ≠ T' ∧ descCount t S u ≠ 0) :=
  rec_change_flush t t' S T T' u h

/-- **Accumulated spans = tally whenever the flush sets contain the rule's set** (`FollowsRule`: the
records are those of the parent functions, consecutive trees abut, and each flush set contains every
node named by the rule).  The adequacy hypothesis of `accumulate_eq_tally` is discharged. -/
theorem accumulate_eq_tally_of_rule (N : Nat) (S : List Nat)
    (first : TreeRec α × (Nat → Option Nat))
    (rest : List (List Nat × (TreeRec α × (Nat → Option Nat))))
    (h0 : first.1.left = 0) (hrule : FollowsRule N S first rest) (u : Nat) (hu : u < N) (T k : Nat) :
    bucket (accumulate N first.1 (rest.map (fun x => (x.1, x.2.1)))).log u T k
      = tally (first.1 :: (rest.map (fun x => (x.1, x.2.1))).map Prod.snd) u T k :=
  accumulate_eq_tally N first.1 _ h0 (adequate_of_rule N S first rest hrule) u hu T k

/-- The executable rule (`ruleFlush`, run by the driver on the parent arrays of the real trees) names
every node of the rule, provided parents have a larger rank (node time order) — so flush sets that
contain `ruleFlush` satisfy `FollowsRule`. -/
theorem rule_flush_complete (N : Nat) (par par' : Array (Option Nat)) (S : List Nat) (T T' : Nat)
    (inPrev : Nat → Bool) (rank : Nat → Nat) (hsz : par.size ≤ N ∧ par'.size ≤ N)
    (hrank : ∀ c p, aget par c = some p → rank c < rank p ∧ rank p < N)
    (hin : ∀ u, u < N → descCount (fun x => aget par x) S u ≠ 0 → inPrev u = true)
    (u : Nat) (hu : u < N)
    (h : FlushRule (fun x => aget par x) (fun x => aget par' x) S T T' u) :
    (ruleFlush N par par' T T' inPrev).contains u = true :=
  ruleFlush_complete N par par' S T T' inPrev rank hsz hrank hin u hu h

end Acc

section Mix
variable {α : Type} [Field α]

/-- **`mixture_expect_and_var` returns the mixture moments**: mean `Σ w m / Σ w` and variance
`Σ w (v + m²) / Σ w − mean²` over all components `(w, m, v)` of all total-tips groups. -/
theorem mixture_moments_spec (groups : List (List (α × α × α))) :
    mixtureMoments groups = (mixMean groups.flatten, mixVar groups.flatten) :=
  mixtureMoments_eq groups

/-- That variance is the variance of the mixture distribution (law of total variance):
`Σ p v + Σ p (m − mean)²` with `p = w / Σ w`. -/
theorem mixture_var_total_variance (l : List (α × α × α)) (hW : mixW l ≠ 0) :
    mixVar l = (l.map (fun x => x.1 / mixW l * x.2.2)).sum
      + (l.map (fun x => x.1 / mixW l * (x.2.1 - mixMean l) ^ 2)).sum :=
  mixVar_decomp l hW

/-- A node that is not a mixture (one component) keeps the coalescent prior's own moments. -/
theorem mixture_single (w m v : α) (hw : w ≠ 0) : mixtureMoments [[(w, m, v)]] = (m, v) := by
  rw [mixture_moments_spec]
  simp only [List.flatten_cons, List.flatten_nil, List.append_nil, mixMean, mixVar, mixW, List.map_cons,
    List.map_nil, List.sum_cons, List.sum_nil, add_zero]
  refine Prod.ext ?_ ?_ <;> field_simp <;> ring

end Mix

section ParamsStage
variable {α : Type} [Field α] [DecidableEq α]

/-- **A node's mixture prior depends only on its own `(T, k, span)` records**: the loop of
`get_mixture_prior_params` with its small-mixture cache (keyed by `(total_tips, record bytes)`) returns,
for every node, `paramsOf` of that node's records — whatever nodes were processed before it and in
whatever order.  (A cache key without `total_tips` would break the invariant `CacheOK` this rests on.) -/
theorem mixture_params_depend_only_on_own_records (approx : α → α → α × α) (table : Nat → Nat → α × α)
    (nodes : List (NodeRecs α)) :
    mixtureParams approx table nodes = nodes.map (paramsOf approx table) :=
  mixtureParams_eq approx table nodes

/-- Entry `i` of the result is determined by entry `i` of the input alone. -/
theorem mixture_params_pointwise (approx : α → α → α × α) (table : Nat → Nat → α × α)
    (nodes : List (NodeRecs α)) (i : Nat) :
    (mixtureParams approx table nodes)[i]? = (nodes[i]?).map (paramsOf approx table) := by
  rw [mixture_params_depend_only_on_own_records, List.getElem?_map]

/-- The shortcut for a non-mixture node (take the table row's own parameters) agrees with the general
rule (moment-match the mixture moments). -/
theorem params_single_consistent (approx : α → α → α × α) (table : Nat → Nat → α × α) (T k : Nat) (w : α)
    (hw : w ≠ 0) :
    paramsOf approx table [(T, [(k, w)])]
      = approx (mixtureMoments (groupsOf table [(T, [(k, w)])])).1
          (mixtureMoments (groupsOf table [(T, [(k, w)])])).2 := by
  have h := mixture_single w (table T k).1 (table T k).2 hw
  simp only [paramsOf, groupsOf, List.map_cons, List.map_nil]
  rw [h]

end ParamsStage

section MixOrd
variable {α : Type} [Field α] [LinearOrder α] [IsStrictOrderedRing α]

/-- With non-negative span weights (positive in total) and non-negative component variances the
mixture variance is non-negative. -/
theorem mixture_var_nonneg (l : List (α × α × α)) (hw : ∀ x ∈ l, 0 ≤ x.1) (hv : ∀ x ∈ l, 0 ≤ x.2.2)
    (hW : 0 < mixW l) : 0 ≤ mixVar l :=
  mixVar_nonneg l hw hv hW

end MixOrd

/-! Non-vacuity: two trees over three nodes; node 2 has 2 descendants of 2 samples in the first
tree and is absent from the second, node 3 is only in the second.  The minimal flush set `[2, 3]`
is adequate and the accumulator gives the tally. -/

def exFirst : TreeRec Int := { left := 0, right := 4, total := 2, desc := #[none, none, some 2, none] }
def exSecond : TreeRec Int := { left := 4, right := 10, total := 2, desc := #[none, none, none, some 2] }

example : Adequate 4 exFirst [([2, 3], exSecond)] := by
  refine ⟨rfl, ?_, trivial⟩
  intro u hu
  have : u = 0 ∨ u = 1 ∨ u = 2 ∨ u = 3 := by omega
  rcases this with rfl | rfl | rfl | rfl <;> decide

example : bucket (accumulate 4 exFirst [([2, 3], exSecond)]).log 2 2 2 = 4
    ∧ bucket (accumulate 4 exFirst [([2, 3], exSecond)]).log 3 2 2 = 6
    ∧ nodeSpan (accumulate 4 exFirst [([2, 3], exSecond)]).log 3 = 6 := by decide +kernel

/-- An inadequate flush set (node 3 enters but is not flushed, so never starts being tracked)
loses the span: the hypothesis of `accumulate_eq_tally` is not redundant. -/
example : bucket (accumulate 4 exFirst [([2], exSecond)]).log 3 2 2 = 0
    ∧ tally [exFirst, exSecond] 3 2 2 = 6 := by decide +kernel

/-- Same `(k, span)` records under different sample totals give different priors when the tables differ:
the reason `total_tips` belongs in the cache key. -/
example : paramsOf (fun m v => (m, v)) (fun T k => ((T : ℚ), (k : ℚ))) [(4, [(2, 1), (3, 1)])]
    ≠ paramsOf (fun m v => (m, v)) (fun T k => ((T : ℚ), (k : ℚ))) [(5, [(2, 1), (3, 1)])] := by
  simp only [paramsOf, mixture_moments_spec, groupsOf]
  norm_num [mixMean, mixVar, mixW]

example : mixtureMoments [[((1 : ℚ), 2, 3)], [(3, 4, 5)]] = (7 / 2, 21 / 4) := by
  rw [mixture_moments_spec]
  norm_num [mixMean, mixVar, mixW]

end Tsdate.C15
