/-
C34 — the command-line interface is faithful to the Python API.

`Gen/Cli.lean` is regenerated from tsdate/cli.py on every run: `dateOpts`/`preprocessOpts` by
introspecting the real argparse parser, `dateProg`/`preprocessProg` by flattening the ASTs of
`run_date`/`run_preprocess` into the decision-tree language of Model/Cli.lean.  The theorems below
are statements about `exec a prog` for **every** namespace `a : Args` (every combination of parsed
values, of any type); they are obtained from the soundness theorem `covered_sound`
(Proofs/Cli.lean, proved once for all programs) and a kernel-evaluated static check of the
regenerated program.

`Faithful prog a kw d`: the run either exits through `error_exit`, or the single API call receives
`args.d` under keyword `kw`, or `args.d` is `None` (option not given).
-/
import TsdateVerif.Proofs.Cli
import TsdateVerif.Spec.Cli
import TsdateVerif.Gen.Cli
import TsdateVerif.Gen.ProvParams

namespace Tsdate.C34
open Tsdate.Cli Tsdate.Gen.Cli

/-- The full obligation for `tsdate date`: every option that is not I/O or verbosity is faithful,
for every namespace.  FALSE of the current code (`epsilon_silently_ignored`). -/
def date_statement : Prop :=
  ∀ (a : Args), ∀ o ∈ dateOpts, o.dest ∉ ioDests → Faithful dateProg a (expectedKw o.dest) o.dest

/-- **`tsdate preprocess` is faithful** (full): for every namespace, every option of the
sub-command (`--minimum_gap`, `--erase-flanks`, `--split-disjoint`) reaches `preprocess_ts` under
its own name with the parsed value.  (Before commit 3834c95 `split_disjoint` was not passed.) -/
theorem cli_preprocess_faithful :
    ∀ (a : Args), ∀ o ∈ preprocessOpts, o.dest ∉ ioDests →
      Faithful preprocessProg a (expectedKw o.dest) o.dest := by
  intro a o ho hio
  have h : preprocessOpts.all (fun o => ioDests.contains o.dest ||
      covered preprocessProg [] [] (expectedKw o.dest) o.dest) = true := by decide +kernel
  have := List.all_eq_true.mp h o ho
  simp only [Bool.or_eq_true, List.contains_iff_mem] at this
  rcases this with h1 | h1
  · exact absurd h1 hio
  · exact covered_sound a _ _ _ [] [] (by simp) (by simp) h1

/-- **`tsdate date` is faithful, except for `-e` under variational_gamma** (partial; the missing
case is `epsilon_silently_ignored`).  (1) For every namespace and every option other than
`-e` (`--epsilon`): the run errors explicitly, or the value reaches `tsdate.date` under the documented
keyword, or the option was not given.  (2) The same for `-e` (keyword `eps`) whenever the method is
not variational_gamma. -/
theorem cli_date_faithful_partial :
    (∀ (a : Args), ∀ o ∈ dateOpts, o.dest ∉ ioDests → o.dest ≠ "epsilon" →
        Faithful dateProg a (expectedKw o.dest) o.dest) ∧
    (∀ (a : Args), a "method" ≠ Val.str "variational_gamma" → Faithful dateProg a "eps" "epsilon") := by
  constructor
  · intro a o ho hio hne
    have h : dateOpts.all (fun o => ioDests.contains o.dest || o.dest == "epsilon" ||
        covered dateProg [] [] (expectedKw o.dest) o.dest) = true := by decide +kernel
    have := List.all_eq_true.mp h o ho
    simp only [Bool.or_eq_true, List.contains_iff_mem, beq_iff_eq] at this
    rcases this with (h1 | h1) | h1
    · exact absurd h1 hio
    · exact absurd h1 hne
    · exact covered_sound a _ _ _ [] [] (by simp) (by simp) h1
  · intro a hm
    have h : covered dateProg [Cond.eqStr "method" "variational_gamma"] [] "eps" "epsilon" = true := by
      decide +kernel
    refine covered_sound a _ _ _ [Cond.eqStr "method" "variational_gamma"] [] ?_ (by simp) h
    intro c hc
    simp only [List.mem_singleton] at hc
    subst hc
    simpa [Cond.eval] using hm

/-- **Finding (part of F7 not repaired by 3834c95)**: the full statement is false — with
`--method variational_gamma -e 0.5` the parser accepts the option, no guard fires, and the value
reaches no keyword of the API call: it is silently ignored (the API call
`date(ts, method="variational_gamma", eps=0.5)` raises `ValueError`). -/
theorem epsilon_silently_ignored : ¬ date_statement := by
  intro h
  let a : Args := fun d =>
    if d = "method" then Val.str "variational_gamma"
    else if d = "epsilon" then Val.flt "0.5"
    else if d = "progress" then Val.bool false
    else if d = "min_branch_length" then Val.flt "1e-08"
    else Val.none
  have hex : ∃ o ∈ dateOpts, o.dest = "epsilon" ∧ o.dest ∉ ioDests := by decide +kernel
  obtain ⟨o, ho, hd, hio⟩ := hex
  have := h a o ho hio
  rw [hd] at this
  revert this
  decide +kernel

/-- **Successful runs read and write the files named on the command line and call the right
function**: every call leaf is `tsdate.date(load(args.tree_sequence), …).dump(args.output)`
(resp. `tsdate.preprocess_ts`); an error exit performs no call and no dump (it is a different
constructor of `Outcome`). -/
theorem cli_io_faithful (a : Args) :
    (match exec a dateProg with
      | .error _ => True
      | .call fn tsFrom _ dumpTo => fn = "tsdate.date" ∧ tsFrom = a "tree_sequence" ∧ dumpTo = a "output") ∧
    (match exec a preprocessProg with
      | .error _ => True
      | .call fn tsFrom _ dumpTo =>
          fn = "tsdate.preprocess_ts" ∧ tsFrom = a "tree_sequence" ∧ dumpTo = a "output") := by
  have h1 := ioOk_sound a "tree_sequence" "output" dateProg (by decide +kernel)
  have h2 := callsOnly_sound a "tsdate.date" dateProg (by decide +kernel)
  have h3 := ioOk_sound a "tree_sequence" "output" preprocessProg (by decide +kernel)
  have h4 := callsOnly_sound a "tsdate.preprocess_ts" preprocessProg (by decide +kernel)
  constructor
  · revert h1 h2
    cases exec a dateProg <;> simp
    intro h1 h1' h2; exact ⟨h2, h1, h1'⟩
  · revert h3 h4
    cases exec a preprocessProg <;> simp
    intro h1 h1' h2; exact ⟨h2, h1, h1'⟩

/-- **Boolean options can be switched off and on from the command line** (per the regenerated
parse table).  Every option whose converter is boolean maps the spellings False/false/0/no to
`False` and True/true/1/yes to `True` (Python's `bool("False")` is `True`: the pre-repair
`type=bool` fails this); every option with a boolean default is either such an option or a
`store_true` flag whose default is `False` (off by omission, on by the flag). -/
theorem cli_bool_off :
    (∀ o ∈ dateOpts ++ preprocessOpts, (o.ty = "bool" ∨ o.ty = "str_to_bool") →
        (∀ s ∈ offSpellings, convertBool strToBoolTrue strToBoolFalse o.ty s = some false) ∧
        (∀ s ∈ onSpellings, convertBool strToBoolTrue strToBoolFalse o.ty s = some true)) ∧
    (∀ o ∈ dateOpts ++ preprocessOpts, (o.default = Val.bool true ∨ o.default = Val.bool false) →
        (o.kind = Kind.storeTrue ∧ o.default = Val.bool false) ∨
        (o.kind = Kind.store ∧ o.ty = "str_to_bool")) := by
  constructor <;> decide +kernel

/-- **The runners only read options the parser defines, pass no keyword twice**, and every
non-I/O option of the parser is mentioned by its runner (nothing is parsed and then never looked at,
apart from what `tsdate_main`/`setup_logging` consume). -/
theorem cli_options_wellformed :
    (∀ d ∈ progDests dateProg, d ∈ dateOpts.map (·.dest)) ∧
    (∀ d ∈ progDests preprocessProg, d ∈ preprocessOpts.map (·.dest)) ∧
    noDupKw dateProg = true ∧ noDupKw preprocessProg = true ∧
    (∀ o ∈ dateOpts, o.dest ∈ progDests dateProg ∨ o.dest ∈ mainReads) ∧
    (∀ o ∈ preprocessOpts, o.dest ∈ progDests preprocessProg ∨ o.dest ∈ mainReads) := by
  refine ⟨?_, ?_, ?_, ?_, ?_, ?_⟩ <;> decide +kernel

/-- `apiAccepts m kw`: `kw` is a named parameter of `tsdate.date`, of `EstimationMethod.__init__`
(reached through `**kwargs`) or of the method function `m` — signatures regenerated from core.py by
translate/provparams.py. -/
def apiAccepts (m kw : String) : Bool :=
  Gen.ProvParams.sigDate.contains kw || Gen.ProvParams.sigInit.contains kw ||
  Gen.ProvParams.methods.any (fun mi => mi.name == m && mi.fnParams.contains kw)

/-- **Every keyword the CLI passes is a parameter of the API function it reaches**, for every
namespace: under variational_gamma all keywords of the call are accepted by
`date`/`variational_gamma`; otherwise by `date`/`inside_outside` *and* `date`/`maximization` (the two
other choices of `--method`); `tsdate preprocess` passes only parameters of `preprocess_ts`.  So no
successful parse can end in a `TypeError: unexpected keyword argument`. -/
theorem cli_keywords_are_api_parameters (a : Args) :
    (match exec a dateProg with
      | .error _ => True
      | .call _ _ kws _ =>
        (a "method" = Val.str "variational_gamma" →
          ∀ kv ∈ kws, apiAccepts "variational_gamma" kv.1 = true) ∧
        (a "method" ≠ Val.str "variational_gamma" →
          ∀ kv ∈ kws, apiAccepts "inside_outside" kv.1 = true ∧ apiAccepts "maximization" kv.1 = true)) ∧
    (match exec a preprocessProg with
      | .error _ => True
      | .call _ _ kws _ => ∀ kv ∈ kws, kv.1 ∈ Gen.ProvParams.preprocessParams) := by
  have hvg : (kwsWhen (Cond.eqStr "method" "variational_gamma") true dateProg).all
      (fun kw => apiAccepts "variational_gamma" kw) = true := by decide +kernel
  have hdisc : (kwsWhen (Cond.eqStr "method" "variational_gamma") false dateProg).all
      (fun kw => apiAccepts "inside_outside" kw && apiAccepts "maximization" kw) = true := by decide +kernel
  have hpre : (kwsWhen (Cond.eqStr "method" "variational_gamma") true preprocessProg).all
      (fun kw => Gen.ProvParams.preprocessParams.contains kw) = true := by decide +kernel
  constructor
  · have h1 := fun (h : (Cond.eqStr "method" "variational_gamma").eval a = true) =>
      kwsWhen_sound a _ true h dateProg
    have h2 := fun (h : (Cond.eqStr "method" "variational_gamma").eval a = false) =>
      kwsWhen_sound a _ false h dateProg
    revert h1 h2
    cases exec a dateProg with
    | error m => simp
    | call fn ts kws out =>
      intro h1 h2
      constructor
      · intro hm kv hkv
        have := h1 (by simp [Cond.eval, hm]) kv hkv
        exact List.all_eq_true.mp hvg _ this
      · intro hm kv hkv
        have := h2 (by simpa [Cond.eval] using hm) kv hkv
        have := List.all_eq_true.mp hdisc _ this
        simpa using this
  · cases hc : (Cond.eqStr "method" "variational_gamma").eval a with
    | true =>
      have h := kwsWhen_sound a _ true hc preprocessProg
      revert h
      cases exec a preprocessProg with
      | error m => simp
      | call fn ts kws out =>
        intro h kv hkv
        have := List.all_eq_true.mp hpre _ (h kv hkv)
        simpa using this
    | false =>
      have hpre' : (kwsWhen (Cond.eqStr "method" "variational_gamma") false preprocessProg).all
          (fun kw => Gen.ProvParams.preprocessParams.contains kw) = true := by decide +kernel
      have h := kwsWhen_sound a _ false hc preprocessProg
      revert h
      cases exec a preprocessProg with
      | error m => simp
      | call fn ts kws out =>
        intro h kv hkv
        have := List.all_eq_true.mp hpre' _ (h kv hkv)
        simpa using this

/-! ### Non-vacuity -/

-- there are boolean options, and options subject to the faithfulness theorems
example : (dateOpts ++ preprocessOpts).any (fun o => o.ty == "str_to_bool") = true := by decide +kernel
example : (preprocessOpts.filter (fun o => !ioDests.contains o.dest)).length = 3 := by decide +kernel
example : (dateOpts.filter (fun o => !ioDests.contains o.dest)).length = 12 := by decide +kernel

-- a concrete successful run: `tsdate preprocess in out --erase-flanks False --split-disjoint no`
example : exec (fun d => if d = "tree_sequence" then Val.str "in" else if d = "output" then Val.str "out"
      else if d = "minimum_gap" then Val.int 1000000 else if d = "erase_flanks" then Val.bool false
      else if d = "split_disjoint" then Val.bool false else Val.none) preprocessProg
    = Outcome.call "tsdate.preprocess_ts" (Val.str "in")
        [("minimum_gap", Val.int 1000000), ("erase_flanks", Val.bool false), ("split_disjoint", Val.bool false)]
        (Val.str "out") := by decide +kernel

-- a concrete guarded run: `tsdate date in out -n 100` (variational_gamma) exits with an error
example : (match exec (fun d => if d = "method" then Val.str "variational_gamma"
      else if d = "population_size" then Val.flt "100.0" else Val.none) dateProg with
    | Outcome.error _ => true | _ => false) = true := by decide +kernel

end Tsdate.C34
