/-
C23 — rescaling credits each unphased singleton to its two branches by phase probability.

Model: `Model/Blocks.lean` — `reallocate` (`tsdate.phasing.reallocate_unphased`, count column) and `inferTail`
(the end of `ExpectationPropagation.infer`: switch mutation edges/nodes by phase, rescale — which reallocates —
then flip the phases below 1/2).  `inferTailOld` is the order of these steps before repair 9280c6b (finding F8).
`credit bedges e (b, φ)` (Proofs/Realloc.lean) is what a mutation in block `b` with phase `φ` adds to edge `e`:
`φ` on the first edge of the block, `1 - φ` on the second.

Theorems are over any ordered field (exact arithmetic); `close` (the closing `np.isclose` assertion of the
kernel) is arbitrary: the statements are about every run in which the kernel does not raise.  Outside the
theorems: that the fitted phase is the posterior probability of the first branch (EP, C18/C21), what
`mutational_timescale` then does with the counts (C25), floating-point rounding of the additions.
-/
import TsdateVerif.Proofs.Realloc
import TsdateVerif.Proofs.BlocksDistinct

namespace Tsdate.C23
open Tsdate Tsdate.Blocks
set_option linter.unusedSectionVars false
set_option linter.unusedVariables false

variable {α : Type} [Inhabited α] [Field α] [LinearOrder α] [IsStrictOrderedRing α]

/-- **Counts on block edges are rebuilt from the phases alone.**  After `reallocate_unphased`, the count of
an edge that belongs to a block is exactly the sum over all mutations of their credit to that edge; the input
count of that edge (which reflects the arbitrary input phase) does not appear. -/
theorem reallocate_block_edge_counts (close : α → α → Bool) (lik out : Array α)
    (mblock : List (Option Nat)) (phase : List (Option α)) (bedges : Array (Nat × Nat))
    (h : reallocate close lik mblock phase bedges = some out) (e : Nat) (he : OnBlockEdge bedges e) :
    aget out e = ((mblock.zip phase).map (credit bedges e)).sum :=
  (reallocate_spec close lik out mblock phase bedges h).2.1 e he

/-- **Counts on all other branches are unchanged.** -/
theorem reallocate_others_unchanged (close : α → α → Bool) (lik out : Array α)
    (mblock : List (Option Nat)) (phase : List (Option α)) (bedges : Array (Nat × Nat))
    (h : reallocate close lik mblock phase bedges = some out) (e : Nat) (he : ¬ OnBlockEdge bedges e) :
    aget out e = aget lik e :=
  (reallocate_spec close lik out mblock phase bedges h).2.2.1 e he

/-- **The input phase is forgotten**: two count vectors that differ only on block edges (i.e. only in how the
input split the singletons between the two nodes of their individuals) give the same counts. -/
theorem reallocate_forgets_input_phase (close : α → α → Bool) (lik lik' out out' : Array α)
    (mblock : List (Option Nat)) (phase : List (Option α)) (bedges : Array (Nat × Nat))
    (hsame : ∀ e, ¬ OnBlockEdge bedges e → aget lik e = aget lik' e)
    (h : reallocate close lik mblock phase bedges = some out)
    (h' : reallocate close lik' mblock phase bedges = some out') :
    ∀ e, aget out e = aget out' e := by
  intro e
  by_cases he : OnBlockEdge bedges e
  · rw [reallocate_block_edge_counts close lik out mblock phase bedges h e he,
      reallocate_block_edge_counts close lik' out' mblock phase bedges h' e he]
  · rw [reallocate_others_unchanged close lik out mblock phase bedges h e he,
      reallocate_others_unchanged close lik' out' mblock phase bedges h' e he, hsame e he]

/-- **Each unphased singleton adds exactly one mutation in total**, `φ` to the first and `1 - φ` to the
second edge of its block and nothing anywhere else (`n` = number of edges). -/
theorem singleton_adds_exactly_one (bedges : Array (Nat × Nat)) (n b : Nat) (φ : α) (hb : b < bedges.size)
    (hr : BlocksInRange bedges n) (hne : (aget bedges b).1 ≠ (aget bedges b).2) :
    credit bedges (aget bedges b).1 (some b, some φ) = φ ∧
    credit bedges (aget bedges b).2 (some b, some φ) = 1 - φ ∧
    (∀ e, e ≠ (aget bedges b).1 → e ≠ (aget bedges b).2 → credit bedges e (some b, some φ) = 0) ∧
    (Finset.range n).sum (fun e => credit bedges e (some b, some φ)) = 1 :=
  ⟨credit_first bedges b φ hb hne, credit_second bedges b φ hb hne,
   fun e h1 h2 => credit_other bedges b φ e h1 h2, credit_total bedges n b φ hb hr⟩

/-- **In total the reallocation adds exactly one mutation per unphased singleton with a valid phase**: summed
over all edges, the amounts credited equal the number of blocked mutations whose phase is not NaN (what the
kernel's closing `np.isclose` assertion compares with the total it removed). -/
theorem reallocate_total_is_number_of_singletons (close : α → α → Bool) (lik out : Array α)
    (mblock : List (Option Nat)) (phase : List (Option α)) (bedges : Array (Nat × Nat))
    (h : reallocate close lik mblock phase bedges = some out) :
    (Finset.range lik.size).sum (fun e => ((mblock.zip phase).map (credit bedges e)).sum)
      = ((mblock.zip phase).map validOne).sum := by
  obtain ⟨_, _, _, hx, _, hbr⟩ := reallocate_spec close lik out mblock phase bedges h
  exact credits_total bedges lik.size hbr _ (fun b φ hm => (hx b φ hm).1)

/-- **The share formula the check's oracle uses**: with `p = max φ (1-φ)` the phase reported after `infer`,
a blocked singleton contributes `p` to the edge it is placed on and `1 - p` to the other edge of its block
(`φ < 1/2`: placed on the second edge, `p = 1 - φ`; otherwise on the first, `p = φ`). -/
theorem share_by_reported_phase (bedges : Array (Nat × Nat)) (b : Nat) (φ : α) (e : Nat)
    (hb : b < bedges.size) (hne : (aget bedges b).1 ≠ (aget bedges b).2) :
    credit bedges e (some b, some φ) =
      if φ < 1 / 2 then
        (if e = (aget bedges b).2 then 1 - φ else 0) + (if e = (aget bedges b).1 then 1 - (1 - φ) else 0)
      else
        (if e = (aget bedges b).1 then φ else 0) + (if e = (aget bedges b).2 then 1 - φ else 0) :=
  credit_by_reported_phase bedges b φ e hb hne

/-- Phases that reach the additions are probabilities, and every referenced block exists (the kernel's
assertions). -/
theorem reallocate_phases_valid (close : α → α → Bool) (lik out : Array α)
    (mblock : List (Option Nat)) (phase : List (Option α)) (bedges : Array (Nat × Nat))
    (h : reallocate close lik mblock phase bedges = some out) :
    ∀ b φ, (some b, some φ) ∈ mblock.zip phase → b < bedges.size ∧ 0 ≤ φ ∧ φ ≤ 1 :=
  (reallocate_spec close lik out mblock phase bedges h).2.2.2.1

/-- What the tail of `infer` (current order) leaves in the count column used by the rescaling: the
reallocation is done with the phases *before* the flip. -/
theorem pipeline_counts (close : α → α → Bool) (half : α) (child : Array Nat) (bedges : Array (Nat × Nat))
    (mblock : List (Option Nat)) (f f' : Fit α)
    (h : inferTail close half true child bedges mblock f = some f') :
    (∀ e, OnBlockEdge bedges e → aget f'.lik e = ((mblock.zip f.phase).map (credit bedges e)).sum) ∧
    (∀ e, ¬ OnBlockEdge bedges e → aget f'.lik e = aget f.lik e) ∧
    f'.phase = f.phase.map (flipPhase half) := by
  obtain ⟨out, hr, _, _, hph, hlik⟩ := inferTail_some h
  rw [hlik, hph]
  exact ⟨fun e he => reallocate_block_edge_counts close _ _ _ _ _ hr e he,
    fun e he => reallocate_others_unchanged close _ _ _ _ _ hr e he, rfl⟩

/-- **The branch a singleton is finally placed on gets the larger share** (current order of `infer`).
For mutation `m` in block `b` with fitted phase `φ`: the edge `e` written to `mutation_edges[m]` is one of the
two block edges, the share `credit … e …` of the singleton that the rescaling counts on `e` is at least 1/2,
and it is exactly the phase `mutation_phase[m]` reported after `infer`. -/
theorem placed_branch_gets_larger_share (close : α → α → Bool) (child : Array Nat)
    (bedges : Array (Nat × Nat)) (mblock : List (Option Nat)) (f f' : Fit α)
    (h : inferTail close (1 / 2 : α) true child bedges mblock f = some f')
    (m b : Nat) (φ : α) (olde : Option Nat) (oldn : Nat)
    (hb : mblock[m]? = some (some b)) (hφ : f.phase[m]? = some (some φ))
    (he : f.mutEdge[m]? = some olde) (hn : f.mutNode[m]? = some oldn)
    (hne : (aget bedges b).1 ≠ (aget bedges b).2) :
    ∃ e, f'.mutEdge[m]? = some (some e) ∧ f'.mutNode[m]? = some (aget child e) ∧
      (e = (aget bedges b).1 ∨ e = (aget bedges b).2) ∧
      1 / 2 ≤ credit bedges e (some b, some φ) ∧
      f'.phase[m]? = some (some (credit bedges e (some b, some φ))) := by
  have hmem : (some b, some φ) ∈ mblock.zip f.phase := by
    have : (mblock.zip f.phase)[m]? = some (some b, some φ) := by
      simp [List.getElem?_zip_eq_some, hb, hφ]
    exact List.mem_of_getElem? this
  obtain ⟨hpe, hpn, _, _⟩ := place_forward (1 / 2 : α) child bedges mblock f m (some b) (some φ) olde oldn hb hφ he hn
  rw [placeOne_some] at hpe hpn
  obtain ⟨out, hr, hme, hmn, hph, _⟩ := inferTail_some h
  obtain ⟨hbs, _, _⟩ := reallocate_phases_valid close _ _ _ _ _ hr b φ hmem
  have hph' : f'.phase[m]? = some (flipPhase (1 / 2 : α) (some φ)) := by
    rw [hph, List.getElem?_map, hφ]; rfl
  refine ⟨placedEdge (1 / 2 : α) (aget bedges b) (some φ), by rw [hme]; exact hpe, by rw [hmn]; exact hpn, ?_, ?_, ?_⟩
  · by_cases hlt : φ < 1 / 2
    · right; exact placedEdge_lt _ hlt
    · left; exact placedEdge_ge _ hlt
  · by_cases hlt : φ < 1 / 2
    · rw [placedEdge_lt _ hlt, credit_second bedges b φ hbs hne]; linarith
    · rw [placedEdge_ge _ hlt, credit_first bedges b φ hbs hne]; exact not_lt.mp hlt
  · rw [hph']
    by_cases hlt : φ < 1 / 2
    · rw [placedEdge_lt _ hlt, credit_second bedges b φ hbs hne, flipPhase_lt hlt]
    · rw [placedEdge_ge _ hlt, credit_first bedges b φ hbs hne, flipPhase_ge hlt]

/-- **The same, for the blocks `_block_singletons` computes**: the "two block edges are different" hypothesis
of `placed_branch_gets_larger_share` holds for every block the kernel returns, as soon as the edge insertion
index lists no edge twice (a tskit contract, evaluated on every generated input). -/
theorem placed_branch_gets_larger_share_of_computed_blocks {γ : Type} [Inhabited γ] [Sub γ] [BEq γ] [LT γ]
    [DecidableLT γ] (inp : Input γ) (zero : γ) (out : Output γ)
    (hblocks : blockSingletons inp zero = some out) (hinj : InsertionInjective inp.toEdgeInput)
    (close : α → α → Bool) (f f' : Fit α)
    (h : inferTail close (1 / 2 : α) true inp.child out.edges.toArray out.mblock.toList f = some f')
    (m b : Nat) (φ : α) (olde : Option Nat) (oldn : Nat)
    (hb : out.mblock.toList[m]? = some (some b)) (hφ : f.phase[m]? = some (some φ))
    (he : f.mutEdge[m]? = some olde) (hn : f.mutNode[m]? = some oldn) :
    ∃ e, f'.mutEdge[m]? = some (some e) ∧
      (e = (aget out.edges.toArray b).1 ∨ e = (aget out.edges.toArray b).2) ∧
      1 / 2 ≤ credit out.edges.toArray e (some b, some φ) ∧
      f'.phase[m]? = some (some (credit out.edges.toArray e (some b, some φ))) := by
  have hmem : (some b, some φ) ∈ out.mblock.toList.zip f.phase := by
    have : (out.mblock.toList.zip f.phase)[m]? = some (some b, some φ) := by
      simp [List.getElem?_zip_eq_some, hb, hφ]
    exact List.mem_of_getElem? this
  obtain ⟨outl, hr, _⟩ := inferTail_some h
  obtain ⟨hbs, _, _⟩ := reallocate_phases_valid close _ _ _ _ _ hr b φ hmem
  have hbs' : b < out.edges.length := by simpa using hbs
  have hne : (aget out.edges.toArray b).1 ≠ (aget out.edges.toArray b).2 := by
    have hget : out.edges[b]? = some (out.edges[b]) := List.getElem?_eq_getElem hbs'
    have hag : aget out.edges.toArray b = out.edges[b] := by simp [aget, hget]
    rw [hag]
    exact blockSingletons_edges_distinct hblocks hinj b _ _ hget
  obtain ⟨e, h1, _, h3, h4, h5⟩ := placed_branch_gets_larger_share close inp.child out.edges.toArray
    out.mblock.toList f f' h m b φ olde oldn hb hφ he hn hne
  exact ⟨e, h1, h3, h4, h5⟩

/-- **Regression guard (finding F8): the order before repair 9280c6b violates the property.**  With the flip
done *before* the rescaling, every singleton whose fitted phase is below 1/2 (so that it is moved to the
second edge of its block) is counted on the branch it is placed on with share `φ < 1/2` — the smaller one. -/
theorem old_order_placed_branch_gets_smaller_share (close : α → α → Bool) (child : Array Nat)
    (bedges : Array (Nat × Nat)) (mblock : List (Option Nat)) (f f' : Fit α)
    (h : inferTailOld close (1 / 2 : α) true child bedges mblock f = some f')
    (m b : Nat) (φ : α) (olde : Option Nat) (oldn : Nat)
    (hb : mblock[m]? = some (some b)) (hφ : f.phase[m]? = some (some φ))
    (he : f.mutEdge[m]? = some olde) (hn : f.mutNode[m]? = some oldn)
    (hne : (aget bedges b).1 ≠ (aget bedges b).2) (hlt : φ < 1 / 2) :
    f'.mutEdge[m]? = some (some (aget bedges b).2) ∧
    (∀ e, OnBlockEdge bedges e →
      aget f'.lik e = ((mblock.zip (f.phase.map (flipPhase (1 / 2 : α)))).map (credit bedges e)).sum) ∧
    (mblock.zip (f.phase.map (flipPhase (1 / 2 : α))))[m]? = some (some b, some (1 - φ)) ∧
    credit bedges (aget bedges b).2 (some b, some (1 - φ)) = φ ∧
    credit bedges (aget bedges b).2 (some b, some (1 - φ)) < 1 / 2 := by
  obtain ⟨hpe, _, _, _⟩ := place_forward (1 / 2 : α) child bedges mblock f m (some b) (some φ) olde oldn hb hφ he hn
  rw [placeOne_some, placedEdge_lt _ hlt] at hpe
  obtain ⟨out, hr, hme, _, _, hlik⟩ := inferTailOld_some h
  have hz : (mblock.zip (f.phase.map (flipPhase (1 / 2 : α))))[m]? = some (some b, some (1 - φ)) := by
    rw [List.getElem?_zip_eq_some]
    refine ⟨hb, ?_⟩
    rw [List.getElem?_map, hφ]
    show some (flipPhase (1 / 2 : α) (some φ)) = _
    rw [flipPhase_lt hlt]
  obtain ⟨hbs, _, _⟩ := reallocate_phases_valid close _ _ _ _ _ hr b (1 - φ) (List.mem_of_getElem? hz)
  have hc : credit bedges (aget bedges b).2 (some b, some (1 - φ)) = φ := by
    rw [credit_second bedges b (1 - φ) hbs hne]; ring
  refine ⟨by rw [hme]; exact hpe, ?_, hz, hc, by rw [hc]; exact hlt⟩
  intro e he'
  rw [hlik]
  exact reallocate_block_edge_counts close _ _ _ _ _ hr e he'

/-! ## Non-vacuity and the concrete counterexample

One block with edges (0, 1); edge 2 is an ordinary edge carrying 3 mutations.  Two singletons in the block
with fitted phases 1/4 and 3/4; the input had put both of them on edge 0 (count 2). -/

def exFit : Fit Rat :=
  { mutEdge := [some 0, some 0], mutNode := [10, 10], phase := [some (1/4), some (3/4)], lik := #[2, 0, 3] }

/-- current order: singleton 0 (phase 1/4) is placed on edge 1, singleton 1 on edge 0; edge 0 gets
1/4 + 3/4 = 1, edge 1 gets 3/4 + 1/4 = 1, edge 2 keeps its 3; reported phases are both 3/4. -/
example : (inferTail (fun a b => a == b) (1/2 : Rat) true #[10, 11, 12] #[(0, 1)] [some 0, some 0] exFit).map
    (fun f => (f.mutEdge, f.mutNode, f.phase, f.lik))
    = some ([some 1, some 0], [11, 10], [some (3/4), some (3/4)], #[1, 1, 3]) := by decide +kernel

/-- Two singletons both with phase 1/4: both are placed on edge 1, which must get the larger share
2 · 3/4 = 3/2.  The current order does that … -/
example : (inferTail (fun a b => a == b) (1/2 : Rat) true #[10, 11, 12] #[(0, 1)] [some 0, some 0]
    { exFit with phase := [some (1/4), some (1/4)] }).map (fun f => (f.mutEdge, f.lik))
    = some ([some 1, some 1], #[1/2, 3/2, 3]) := by decide +kernel

/-- … **the pre-repair order does not** (`C23_counterexample`): both singletons sit on edge 1 in the output,
but the rescaling counts only 1/2 of a mutation there and 3/2 on edge 0. -/
theorem C23_counterexample :
    (inferTailOld (fun a b => a == b) (1/2 : Rat) true #[10, 11, 12] #[(0, 1)] [some 0, some 0]
      { exFit with phase := [some (1/4), some (1/4)] }).map (fun f => (f.mutEdge, f.lik))
    = some ([some 1, some 1], #[3/2, 1/2, 3]) := by decide +kernel

end Tsdate.C23
