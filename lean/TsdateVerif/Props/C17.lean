/-
C17 — population-size time transforms are exact and mutually inverse
(model: `PopulationSizeHistory`, tsdate/demography.py; `Model/Demography.lean`).

`History.init ps tb` is `PopulationSizeHistory(population_size=ps, time_breaks=tb)`; the hypothesis
`initOk ps tb = true` is exactly the constructor's `ValueError` guard (sizes > 0, one break fewer than
sizes, breaks > 0 and strictly increasing), so the theorems hold for **every** history the class
accepts and every time `t ≥ 0` (the method's own assertion).  `α` is any linear ordered field: the
statements are about exact arithmetic; the same definitions are run at `Float` against numpy
bit-for-bit by the check.
-/
import TsdateVerif.Proofs.Demography

namespace Tsdate.C17
open Tsdate.Demography
set_option linter.unusedSectionVars false

variable {α : Type} [Inhabited α] [Field α] [LinearOrder α] [IsStrictOrderedRing α]

/-- **`to_coalescent_timescale` is the integral** `∫₀ᵗ dt'/(2N(t'))`, written out as the explicit
piecewise sum `integ` (Spec/Demography): the searchsorted index plus cumulative `step` of
`_change_time_measure` computes exactly that, for every accepted history and every `t ≥ 0`. -/
theorem toCoalescent_integral (ps tb : List α) (hok : initOk ps tb = true) (t : α) (ht : 0 ≤ t) :
    (History.init ps tb).toCoalescent t = integ (histSegs ps tb) t :=
  newTime_eq_integ _ t (histSegs_valid ps tb hok) (histSegs_ne ps tb hok) (histSegs_head ps tb hok) ht

/-- **The same, in the most literal form of the statement**: `to_coalescent_timescale(t)` is the sum over
epochs of (length of the part of the epoch below `t`) / `2N(epoch)`. -/
theorem toCoalescent_overlap_sum (ps tb : List α) (hok : initOk ps tb = true) (t : α) (ht : 0 ≤ t) :
    (History.init ps tb).toCoalescent t = overlapSum (histSegs ps tb) t := by
  rw [toCoalescent_integral ps tb hok t ht]
  unfold integ
  rw [integFrom_eq_overlapSum _ 0 t (histSegs_valid ps tb hok) (histSegs_ne ps tb hok)
    (by rw [histSegs_head ps tb hok]; exact ht)]
  simp

/-- `to_natural_timescale` is the same integral over the image history. -/
theorem toNatural_integral (ps tb : List α) (hok : initOk ps tb = true) (c : α) (hc : 0 ≤ c) :
    (History.init ps tb).toNatural c = integ (trFrom (histSegs ps tb) 0) c := by
  unfold History.toNatural
  rw [init_coal ps tb hok]
  exact newTime_eq_integ _ c (trFrom_valid _ 0 (histSegs_valid ps tb hok))
    (trFrom_ne_nil _ 0 (histSegs_ne ps tb hok)) (trFrom_head _ 0 (histSegs_ne ps tb hok)) hc

/-- coalescent times are non-negative -/
theorem toCoalescent_nonneg (ps tb : List α) (hok : initOk ps tb = true) (t : α) (ht : 0 ≤ t) :
    0 ≤ (History.init ps tb).toCoalescent t := by
  rw [toCoalescent_integral ps tb hok t ht]
  exact integFrom_ge _ 0 t (histSegs_valid ps tb hok) (histSegs_ne ps tb hok)
    (by rw [histSegs_head ps tb hok]; exact ht)

theorem toNatural_nonneg (ps tb : List α) (hok : initOk ps tb = true) (c : α) (hc : 0 ≤ c) :
    0 ≤ (History.init ps tb).toNatural c := by
  rw [toNatural_integral ps tb hok c hc]
  exact integFrom_ge _ 0 c (trFrom_valid _ 0 (histSegs_valid ps tb hok))
    (trFrom_ne_nil _ 0 (histSegs_ne ps tb hok))
    (by rw [trFrom_head _ 0 (histSegs_ne ps tb hok)]; exact hc)

/-- **Round trip generations → coalescent → generations recovers the input.** -/
theorem roundtrip_nat (ps tb : List α) (hok : initOk ps tb = true) (t : α) (ht : 0 ≤ t) :
    (History.init ps tb).toNatural ((History.init ps tb).toCoalescent t) = t := by
  rw [toNatural_integral ps tb hok _ (toCoalescent_nonneg ps tb hok t ht),
    toCoalescent_integral ps tb hok t ht]
  have := roundtrip_from (histSegs ps tb) 0 t (histSegs_valid ps tb hok) (histSegs_ne ps tb hok)
    (by rw [histSegs_head ps tb hok]; exact ht)
  rw [histSegs_head ps tb hok] at this
  exact this

/-- **Round trip coalescent → generations → coalescent recovers the input.** -/
theorem roundtrip_coal (ps tb : List α) (hok : initOk ps tb = true) (c : α) (hc : 0 ≤ c) :
    (History.init ps tb).toCoalescent ((History.init ps tb).toNatural c) = c := by
  rw [toCoalescent_integral ps tb hok _ (toNatural_nonneg ps tb hok c hc),
    toNatural_integral ps tb hok c hc]
  have hv := histSegs_valid ps tb hok
  have hne := histSegs_ne ps tb hok
  have := roundtrip_from (trFrom (histSegs ps tb) 0) 0 c (trFrom_valid _ 0 hv)
    (trFrom_ne_nil _ 0 hne) (by rw [trFrom_head _ 0 hne]; exact hc)
  rw [trFrom_head _ 0 hne] at this
  have e := trFrom_trFrom (histSegs ps tb) 0 hv hne
  rw [histSegs_head ps tb hok] at e
  rw [e] at this
  exact this

/-- **Strictly increasing** (generations → coalescent). -/
theorem toCoalescent_strictMono (ps tb : List α) (hok : initOk ps tb = true) (x y : α)
    (hx : 0 ≤ x) (hxy : x < y) :
    (History.init ps tb).toCoalescent x < (History.init ps tb).toCoalescent y := by
  rw [toCoalescent_integral ps tb hok x hx, toCoalescent_integral ps tb hok y (le_trans hx hxy.le)]
  exact integFrom_strictMono _ 0 x y (histSegs_valid ps tb hok) (histSegs_ne ps tb hok)
    (by rw [histSegs_head ps tb hok]; exact hx) hxy

/-- **Strictly increasing** (coalescent → generations). -/
theorem toNatural_strictMono (ps tb : List α) (hok : initOk ps tb = true) (x y : α)
    (hx : 0 ≤ x) (hxy : x < y) :
    (History.init ps tb).toNatural x < (History.init ps tb).toNatural y := by
  rw [toNatural_integral ps tb hok x hx, toNatural_integral ps tb hok y (le_trans hx hxy.le)]
  have hne := histSegs_ne ps tb hok
  exact integFrom_strictMono _ 0 x y (trFrom_valid _ 0 (histSegs_valid ps tb hok))
    (trFrom_ne_nil _ 0 hne) (by rw [trFrom_head _ 0 hne]; exact hx) hxy

/-- **Continuity, quantitatively**: the map is bi-Lipschitz. Between `0 ≤ x ≤ y` the coalescent time
grows by at least `(y-x)/M` and at most `(y-x)/μ` whenever every `2N` lies in `[μ, M]`, `μ > 0` —
so there is no jump anywhere, in particular not at an epoch boundary. -/
theorem toCoalescent_lipschitz (ps tb : List α) (hok : initOk ps tb = true) (x y μ M : α)
    (hx : 0 ≤ x) (hxy : x ≤ y) (hμ : 0 < μ) (hb : ∀ n ∈ ps, μ ≤ 2 * n ∧ 2 * n ≤ M) :
    (y - x) / M ≤ (History.init ps tb).toCoalescent y - (History.init ps tb).toCoalescent x ∧
    (History.init ps tb).toCoalescent y - (History.init ps tb).toCoalescent x ≤ (y - x) / μ := by
  rw [toCoalescent_integral ps tb hok x hx, toCoalescent_integral ps tb hok y (le_trans hx hxy)]
  refine integFrom_slope _ 0 x y μ M (histSegs_valid ps tb hok) (histSegs_ne ps tb hok)
    (by rw [histSegs_head ps tb hok]; exact hx) hxy hμ ?_
  intro s hs
  have h2 : s.2 ∈ ps.map (fun n => 2 * n) := (List.of_mem_zip hs).2
  obtain ⟨n, hn, he⟩ := List.mem_map.mp h2
  rw [← he]
  exact hb n hn

/-- **Continuity at the breaks, on the code's own formula**: at break `i+1` the expression used to
its left (`index = i`) and to its right (`index = i+1`) agree:
`b[i+1]/m[i] + step[i] = b[i+1]/m[i+1] + step[i+1]` for any positive measures. -/
theorem continuous_at_breaks (segs : List (α × α)) (acc : α) (hpos : ∀ s ∈ segs, s.2 ≠ 0) (i : Nat)
    (hi : i + 1 < segs.length) :
    lget (segs.map (·.1)) (i + 1) * 1 / lget (segs.map (·.2)) i + lget (stepsFrom segs acc) i =
    lget (segs.map (·.1)) (i + 1) * 1 / lget (segs.map (·.2)) (i + 1)
      + lget (stepsFrom segs acc) (i + 1) := by
  induction segs generalizing acc i with
  | nil => simp at hi
  | cons s rest ih =>
    obtain ⟨b, m⟩ := s
    match rest, hi with
    | (b', m') :: rest', hi =>
      have hm : m ≠ 0 := hpos (b, m) (by simp)
      have hm' : m' ≠ 0 := hpos (b', m') (by simp)
      cases i with
      | zero =>
        match rest' with
        | [] => simp [stepsFrom, lget]; field_simp; ring
        | _ :: _ => simp [stepsFrom, lget]; field_simp; ring
      | succ j =>
        have := ih (acc + b' * (1 / m - 1 / m')) (fun s hs => hpos s (List.mem_cons_of_mem _ hs)) j
          (by simpa using hi)
        simpa [stepsFrom, lget_cons_succ] using this

/-- **Both maps fix 0.** -/
theorem fix_zero (ps tb : List α) (hok : initOk ps tb = true) :
    (History.init ps tb).toCoalescent 0 = 0 ∧ (History.init ps tb).toNatural 0 = 0 := by
  have hv := histSegs_valid ps tb hok
  have hne := histSegs_ne ps tb hok
  constructor
  · rw [toCoalescent_integral ps tb hok 0 le_rfl]
    have := integFrom_head (histSegs ps tb) 0 hv hne
    rwa [histSegs_head ps tb hok] at this
  · rw [toNatural_integral ps tb hok 0 le_rfl]
    have := integFrom_head (trFrom (histSegs ps tb) 0) 0 (trFrom_valid _ 0 hv) (trFrom_ne_nil _ 0 hne)
    rwa [trFrom_head _ 0 hne] at this

/-- **`as_dict()` rebuilds an identical history**: feeding `as_dict()` to the constructor passes
its guard and yields the same four stored arrays. -/
theorem asDict_roundtrip (ps tb : List α) (hok : initOk ps tb = true) :
    initOk (History.init ps tb).asDict.1 (History.init ps tb).asDict.2 = true ∧
    History.init (History.init ps tb).asDict.1 (History.init ps tb).asDict.2 = History.init ps tb := by
  have h1 : (History.init ps tb).asDict.1 = ps := by
    simp only [History.asDict, History.init, List.map_map]
    conv_rhs => rw [← List.map_id ps]
    apply List.map_congr_left
    intro n _
    simp
  have h2 : (History.init ps tb).asDict.2 = tb := rfl
  rw [h1, h2]
  exact ⟨hok, rfl⟩

/-! ### `gamma_to_natural` -/

/-- The returned gamma has exactly the computed mean and variance:
`shape/rate = mn` and `shape/rate² = va` (the moment-matching step is algebraically exact). -/
theorem gammaToNatural_moments (F : GammaFns α) (h : History α) (rate : α)
    (hm : (gammaMoments F h rate).1 ≠ 0) (hv : (gammaMoments F h rate).2 ≠ 0) :
    (gammaToNatural F h rate).1 / (gammaToNatural F h rate).2 = (gammaMoments F h rate).1 ∧
    (gammaToNatural F h rate).1 / ((gammaToNatural F h rate).2 * (gammaToNatural F h rate).2)
      = (gammaMoments F h rate).2 := by
  simp only [gammaToNatural]
  constructor <;> field_simp

/-- **`gammaToNatural_depends_only_on_history_and_args`: no hidden state.**  In a sequence of queries to any number of
histories, the answer to the `i`-th query is the answer that query gets on its own — whatever was asked before, of
whichever history — and re-ordering the queries re-orders the answers the same way.  (Trivial for the model, which is a pure
function of (history, shape, rate); it is the statement the sequence test of the check ties to the real class, where a
shared cache would break it.) -/
theorem gammaToNatural_depends_only_on_history_and_args (qs : List (GammaFns α × History α × α)) :
    (∀ i (h : i < qs.length), (gammaSequence qs)[i]'(by simpa [gammaSequence] using h)
        = gammaToNatural qs[i].1 qs[i].2.1 qs[i].2.2) ∧
    (∀ qs' : List (GammaFns α × History α × α), qs.Perm qs' → (gammaSequence qs).Perm (gammaSequence qs')) := by
  refine ⟨fun i h => by simp [gammaSequence], fun qs' hp => ?_⟩
  exact hp.map _

/-- a constant-size history stores `time_breaks=[0]`, `population_size=[2N]`,
`coalescent_breaks=[0]`, `coalescent_rate=[1/(2N)]` -/
theorem init_const (n : α) (_hn : 0 < n) :
    History.init [n] [] =
      { timeBreaks := [0], popSize2 := [2 * n], coalBreaks := [0], coalRate := [1 / (2 * n)] } := by
  simp [History.init, changeTimeMeasure, newBreaks, newMeasure, steps, stepsFrom]

/-- **Constant size ⇒ the exact rescaled gamma**: `gamma_to_natural(shape, rate)` returns
`(shape, rate / (2N))`, using only these facts about the special functions (hypotheses, not axioms):
`C·Γ(s)/rateˢ = 1`, `Γ(s+1) = sΓ(s)`, `Γ(s+2) = (s+1)Γ(s+1)`, `rate^(s+k+1) = rate·rate^(s+k)`,
`P(a, 0) = 0`, `P(a, ∞) = 1`. -/
theorem gammaToNatural_const (F : GammaFns α) (n s rate : α) (hn : 0 < n) (hs : 0 < s)
    (hr : 0 < rate) (hp0 : F.pw 0 ≠ 0)
    (hC : F.C * F.gam 0 / F.pw 0 = 1)
    (hg1 : F.gam 1 = s * F.gam 0) (hg2 : F.gam 2 = (s + 1) * F.gam 1)
    (hp1 : F.pw 1 = rate * F.pw 0) (hp2 : F.pw 2 = rate * F.pw 1)
    (hP0 : ∀ k, F.P k 0 = 0) (hPinf : ∀ k, F.Pinf k = 1) :
    gammaToNatural F (History.init [n] []) rate = (s, rate / (2 * n)) := by
  rw [init_const n hn]
  have hC' : F.C * F.gam 0 = F.pw 0 := by
    have := hC; field_simp at this; exact this
  have c0 : F.C * F.gam 0 / F.pw 0 = 1 := hC
  have c1 : F.C * F.gam 1 / F.pw 1 = s / rate := by
    rw [hg1, hp1]; field_simp; rw [← hC']
  have c2 : F.C * F.gam 2 / F.pw 2 = s * (s + 1) / (rate * rate) := by
    rw [hg2, hp2, hg1, hp1]; field_simp; rw [← hC']
  simp only [gammaToNatural, gammaMoments, cdfK, diffs, lsum, List.map_cons, List.map_nil,
    List.cons_append, List.nil_append, mul_zero, hP0, hPinf, sub_zero, mul_one, c0, c1, c2,
    List.zip_cons_cons, List.zip_nil_right, List.zipWith_cons_cons, List.zipWith_nil_right,
    List.foldl_cons, List.foldl_nil, zero_add, sub_self, zero_mul, add_zero]
  have hn' : n ≠ 0 := ne_of_gt hn
  have hs' : s ≠ 0 := ne_of_gt hs
  have hr' : rate ≠ 0 := ne_of_gt hr
  refine Prod.ext ?_ ?_ <;> simp only <;> field_simp <;> ring

/-! ### Non-vacuity: a three-epoch history over `ℚ` passes the guard, and the theorems say
something on it (break points included). -/

example : initOk ([100, 5, 2000] : List Rat) [10, 250] = true := by decide +kernel

example : (History.init ([100, 5, 2000] : List Rat) [10, 250]).coalBreaks = [0, 1/20, 481/20] := by
  decide +kernel

example : (History.init ([100, 5, 2000] : List Rat) [10, 250]).toCoalescent 10 = 1/20 ∧
    (History.init ([100, 5, 2000] : List Rat) [10, 250]).toCoalescent 300 = 481/20 + 50/4000 := by
  decide +kernel

example : (History.init ([100, 5, 2000] : List Rat) [10, 250]).toNatural (481/20) = 250 := by
  decide +kernel

end Tsdate.C17
