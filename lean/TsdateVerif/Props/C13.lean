/-
C13 — maximization picks ordered grid timepoints by the documented rule
(model: `BeliefPropagation.outside_maximization`, tsdate/discrete.py; Model/Maximize.lean).

`maximize ops inp es` is the array `maximized_node_times` produced by the loop when the grouped
iterator yields the edges in the order `es`; `inp` carries the inside rows, the fixed-node test
and the edge likelihood `lik e k t` (edge `e`, parent at grid index `k`, child at index `t`);
`ops` is (`*`,`/`) in linear and (`+`,`-`) in logarithmic probability space.

Hypotheses on the edge order (`ValidOrder`), both decidable and evaluated on every generated input
by the driver (`validOrderB`, sound by `validOrder_of_test`): the edges of one child are adjacent,
and no edge's child is the parent of itself or of an earlier edge (parents are assigned before they
are read).  `Props/C11` proves that the sort
key of `edges_by_child_then_parent_desc` produces such an order for every valid tree sequence.
-/
import Mathlib.Algebra.Order.Field.Basic
import Mathlib.Algebra.Order.Group.Defs
import Mathlib.Tactic.Positivity
import TsdateVerif.Proofs.Maximize
import TsdateVerif.Proofs.MaximizeBot

namespace Tsdate.C13
open Tsdate Tsdate.Maximize
set_option linter.unusedSectionVars false

/-- what the theorems need of the order in which the grouped iterator yields the edges -/
structure ValidOrder (es : List MEdge) : Prop where
  /-- the edges of one child are adjacent (one `groupby` run per child) -/
  grouped : ((Order.runsBy (·.c) es).map gchild).Nodup
  /-- no edge's child is the parent of that edge or of an earlier one -/
  parentsFirst : Order.FlatDone (·.c) (·.p) es

section General
variable {α : Type} [Inhabited α] [LinearOrder α]

theorem groupsOK_of_valid (es : List MEdge) (hv : ValidOrder es) :
    GroupsOK (Order.runsBy (·.c) es) :=
  ⟨Order.runsBy_ne_nil _ es, hv.grouped⟩

theorem parentsFirst_of_valid (es : List MEdge) (hv : ValidOrder es) :
    ParentsFirst (Order.runsBy (·.c) es) :=
  parentsFirst_of_srcDone _ (Order.srcDone_runsBy _ _ es hv.parentsFirst)

theorem mem_runs (es : List MEdge) (e : MEdge) (he : e ∈ es) :
    ∃ e0 rest, (e0 :: rest) ∈ Order.runsBy (·.c) es ∧ e ∈ e0 :: rest ∧ e.c = e0.c := by
  rw [← Order.runsBy_flatten (·.c) es] at he
  obtain ⟨g, hg, heg⟩ := List.mem_flatten.mp he
  obtain ⟨e0, rest, rfl⟩ := List.exists_cons_of_ne_nil (Order.runsBy_ne_nil _ es g hg)
  exact ⟨e0, rest, hg, heg, Order.runsBy_homog (·.c) es _ hg e heg⟩

theorem gchild_lt (inp : Inp α) (es : List MEdge) (hr : ∀ e ∈ es, e.c < inp.n) :
    ∀ g ∈ Order.runsBy (·.c) es, gchild g < (initRoots inp (Order.runsBy (·.c) es)).size := by
  intro g hg
  rw [initRoots_size]
  obtain ⟨e0, rest, rfl⟩ := List.exists_cons_of_ne_nil (Order.runsBy_ne_nil _ es g hg)
  apply hr
  rw [← Order.runsBy_flatten (·.c) es]
  exact List.mem_flatten.mpr ⟨_, hg, List.mem_cons_self ..⟩

/-- **No node gets a later timepoint than any of its parents** (before the branch-length
constraint): for every edge, the grid index assigned to the child is at most the index assigned to
the parent.  Holds for any numbers, any likelihoods, any probability space. -/
theorem max_le_parents (ops : Ops α) (inp : Inp α) (es : List MEdge) (hv : ValidOrder es)
    (hr : ∀ e ∈ es, e.c < inp.n) :
    ∀ e ∈ es, aget (maximize ops inp es) e.c ≤ aget (maximize ops inp es) e.p := by
  intro e he
  by_cases hfix : inp.fixed e.c = true
  · have h0 : aget (maximize ops inp es) e.c = 0 := by
      unfold maximize maximizeGroups
      rw [fixed_untouched ops inp _ _ _ hfix, initRoots_get inp _ _ (hr e he)]
      simp [hfix]
    rw [h0]; exact Nat.zero_le _
  · obtain ⟨e0, rest, hg, heg, hc⟩ := mem_runs es e he
    have hfix0 : inp.fixed e0.c = false := by rw [← hc]; simpa using hfix
    have := foldl_char ops inp _ (initRoots inp (Order.runsBy (·.c) es)) (groupsOK_of_valid es hv)
      (parentsFirst_of_valid es hv) (gchild_lt inp es hr) e0 rest hg hfix0
    unfold maximize maximizeGroups
    rw [hc, this]
    exact groupChoice_le ops inp _ e0 rest e heg

/-- **Every node is assigned one of the prior's timepoints**: all entries are grid indices `< G`
(`G` = number of timepoints = length of every inside row). -/
theorem max_in_grid (ops : Ops α) (inp : Inp α) (es : List MEdge) (G : Nat) (hG : 0 < G)
    (hins : ∀ u, (inp.inside u).length = G) :
    ∀ u, aget (maximize ops inp es) u < G := by
  unfold maximize maximizeGroups
  apply foldl_in_grid
  intro u
  by_cases hu : u < inp.n
  · rw [initRoots_get inp _ u hu]
    split_ifs
    · have hne : inp.inside u ≠ [] := by
        intro h0; have := hins u; rw [h0] at this; simp at this; omega
      have := argmax_lt_length (inp.inside u) hne
      rw [hins u] at this; exact this
    · exact hG
  · have : aget (initRoots inp (Order.runsBy (·.c) es)) u = 0 := by
      simp only [aget]
      rw [Array.getElem?_eq_none (by rw [initRoots_size]; omega)]
      rfl
    rw [this]; exact hG

/-- value of a node that is never a child (no condition on its inside row) -/
theorem max_root_value (ops : Ops α) (inp : Inp α) (es : List MEdge) (u : Nat) (hu : u < inp.n)
    (hroot : ∀ e ∈ es, e.c ≠ u) (hfix : inp.fixed u = false) :
    aget (maximize ops inp es) u = argmax (inp.inside u) := by
  have hch : isChild (Order.runsBy (·.c) es) u = false := by
    by_contra hcon
    have hcon' : isChild (Order.runsBy (·.c) es) u = true := by simpa using hcon
    simp only [isChild, List.any_eq_true] at hcon'
    obtain ⟨g, hg, e, he, hec⟩ := hcon'
    have hmem : e ∈ es := by
      rw [← Order.runsBy_flatten (·.c) es]; exact List.mem_flatten.mpr ⟨g, hg, he⟩
    exact hroot e hmem (by simpa using hec)
  unfold maximize maximizeGroups
  rw [root_untouched ops inp _ _ u hch, initRoots_get inp _ u hu]
  simp [hch, hfix]

/-- **Each node that is never a child takes the timepoint maximising its inside value**
(first maximum, as `np.argmax`). -/
theorem max_root_rule (ops : Ops α) (inp : Inp α) (es : List MEdge) (u : Nat) (hu : u < inp.n)
    (hroot : ∀ e ∈ es, e.c ≠ u) (hfix : inp.fixed u = false) (hne : inp.inside u ≠ []) :
    aget (maximize ops inp es) u = argmax (inp.inside u) ∧
    IsFirstArgmax (inp.inside u) (aget (maximize ops inp es) u) := by
  have h1 := max_root_value ops inp es u hu hroot hfix
  exact ⟨h1, by rw [h1]; exact argmax_isFirst _ hne⟩

/-- value of a fixed node: the first grid index -/
theorem max_fixed_value (ops : Ops α) (inp : Inp α) (es : List MEdge) (u : Nat) (hu : u < inp.n)
    (hfix : inp.fixed u = true) : aget (maximize ops inp es) u = 0 := by
  unfold maximize maximizeGroups
  rw [fixed_untouched ops inp _ _ _ hfix, initRoots_get inp _ _ hu]
  simp [hfix]

theorem maximize_size (ops : Ops α) (inp : Inp α) (es : List MEdge) :
    (maximize ops inp es).size = inp.n := by
  unfold maximize maximizeGroups
  rw [foldl_size, initRoots_size]

/-- **The documented rule** (abstract form): every other non-fixed node takes the first argmax,
over the grid indices `0 .. min parent index`, of `combine (Π_edges lik_e(parent index, ·)) inside`,
the edges being evaluated at their parents' *final* indices.  The standardising constants the loop
divides by do not matter, as long as each is `Scalable`. -/
theorem max_rule (ops : Ops α) (hl : OpsLaws ops) (inp : Inp α) (es : List MEdge)
    (hv : ValidOrder es) (hr : ∀ e ∈ es, e.c < inp.n)
    (e0 : MEdge) (rest : List MEdge) (hg : (e0 :: rest) ∈ Order.runsBy (·.c) es)
    (hfix : inp.fixed e0.c = false)
    (hsc : ∀ m ∈ groupConsts inp (aget (maximize ops inp es)) e0 rest, Scalable ops m) :
    aget (maximize ops inp es) e0.c
      = argmax (specScores ops inp (aget (maximize ops inp es)) e0 rest) := by
  have := foldl_char ops inp _ (initRoots inp (Order.runsBy (·.c) es)) (groupsOK_of_valid es hv)
    (parentsFirst_of_valid es hv) (gchild_lt inp es hr) e0 rest hg hfix
  have hm : maximize ops inp es
      = (Order.runsBy (·.c) es).foldl (processGroup ops inp) (initRoots inp (Order.runsBy (·.c) es)) := rfl
  rw [hm] at hsc ⊢
  rw [this]
  exact groupChoice_rule ops hl inp _ e0 rest hsc

end General

/-! ### the two probability spaces -/

section Linear
variable {α : Type} [Inhabited α] [Field α] [LinearOrder α] [IsStrictOrderedRing α]

theorem linOps_laws : OpsLaws (linOps : Ops α) :=
  ⟨fun a b => mul_comm a b, fun a b c => mul_assoc a b c⟩

/-- **Positive standardising constants do not change the argmax** (linear space). -/
theorem argmax_scale_invariant (c : α) (hc : 0 < c) (l : List α) :
    argmax (l.map (fun x => x * c)) = argmax l :=
  argmax_map _ (fun _ _ h => mul_lt_mul_of_pos_right h hc) l

theorem scalable_of_pos (m : α) (hm : 0 < m) : Scalable (linOps : Ops α) m :=
  ⟨m⁻¹, fun x => div_eq_mul_inv x m, fun _ _ h => mul_lt_mul_of_pos_right h (inv_pos.mpr hm)⟩

/-- **The documented rule, linear space**: the assigned index is the first maximum over
`t ≤ min parent index` of `(Π_edges lik_e(parent index, t)) * inside[child][t]`, provided each
standardising constant (a maximum of likelihood values) is positive. -/
theorem max_rule_linear (inp : Inp α) (es : List MEdge)
    (hv : ValidOrder es) (hr : ∀ e ∈ es, e.c < inp.n)
    (e0 : MEdge) (rest : List MEdge) (hg : (e0 :: rest) ∈ Order.runsBy (·.c) es)
    (hfix : inp.fixed e0.c = false)
    (hpos : ∀ m ∈ groupConsts inp (aget (maximize linOps inp es)) e0 rest, 0 < m)
    (hne : specScores linOps inp (aget (maximize linOps inp es)) e0 rest ≠ []) :
    IsFirstArgmax (specScores linOps inp (aget (maximize linOps inp es)) e0 rest)
      (aget (maximize linOps inp es) e0.c) := by
  rw [max_rule linOps linOps_laws inp es hv hr e0 rest hg hfix
    (fun m hm => scalable_of_pos m (hpos m hm))]
  exact argmax_isFirst _ hne

end Linear

section Log
variable {α : Type} [Inhabited α] [AddCommGroup α] [LinearOrder α] [IsOrderedAddMonoid α]

theorem logOps_laws : OpsLaws (logOps : Ops α) :=
  ⟨fun a b => add_comm a b, fun a b c => add_assoc a b c⟩

theorem scalable_log (m : α) : Scalable (logOps : Ops α) m :=
  ⟨-m, fun x => sub_eq_add_neg x m, fun _ _ h => by simpa [logOps] using h⟩

/-- **The documented rule, logarithmic space** (finite log-values): first maximum of
`Σ_edges loglik_e(parent index, t) + inside[child][t]`; no condition on the constants. -/
theorem max_rule_log (inp : Inp α) (es : List MEdge)
    (hv : ValidOrder es) (hr : ∀ e ∈ es, e.c < inp.n)
    (e0 : MEdge) (rest : List MEdge) (hg : (e0 :: rest) ∈ Order.runsBy (·.c) es)
    (hfix : inp.fixed e0.c = false)
    (hne : specScores logOps inp (aget (maximize logOps inp es)) e0 rest ≠ []) :
    IsFirstArgmax (specScores logOps inp (aget (maximize logOps inp es)) e0 rest)
      (aget (maximize logOps inp es) e0.c) := by
  rw [max_rule logOps logOps_laws inp es hv hr e0 rest hg hfix (fun m _ => scalable_log m)]
  exact argmax_isFirst _ hne

end Log

/-- the decidable test the driver evaluates on every real input implies the hypothesis of the
theorems -/
theorem validOrder_of_test (es : List MEdge) (h : validOrderB es = true) : ValidOrder es :=
  ⟨(validOrderB_sound es h).1, (validOrderB_sound es h).2⟩

section LogBot
variable {β : Type} [AddCommGroup β] [LinearOrder β] [IsOrderedAddMonoid β]

/-- **The documented rule, logarithmic space with `-inf`** (`⊥ : WithBot β` is `log 0`; inside rows
and likelihoods may contain it): the assigned index is the first maximum of
`Σ_edges loglik_e(parent index, t) + inside[child][t]` over `t ≤ min parent index`, provided no
standardising constant is `-inf` (every slice of every edge has a finite log-likelihood). -/
theorem max_rule_log_bot (inp : Inp (WithBot β)) (es : List MEdge)
    (hv : ValidOrder es) (hr : ∀ e ∈ es, e.c < inp.n)
    (e0 : MEdge) (rest : List MEdge) (hg : (e0 :: rest) ∈ Order.runsBy (·.c) es)
    (hfix : inp.fixed e0.c = false)
    (hfin : ∀ m ∈ groupConsts inp (aget (maximize logOpsBot inp es)) e0 rest, m ≠ ⊥)
    (hne : specScores logOpsBot inp (aget (maximize logOpsBot inp es)) e0 rest ≠ []) :
    IsFirstArgmax (specScores logOpsBot inp (aget (maximize logOpsBot inp es)) e0 rest)
      (aget (maximize logOpsBot inp es) e0.c) := by
  rw [max_rule logOpsBot logOpsBot_laws inp es hv hr e0 rest hg hfix
    (fun m hm => scalable_bot m (hfin m hm))]
  exact argmax_isFirst _ hne

end LogBot

/-! ### Non-vacuity: two trees, child 2 has the two parents 3 and 4 (4 is also 3's parent);
grid of 3 timepoints; the hypotheses hold and the model assigns 4 ↦ 2, 3 ↦ 1, 2 ↦ 0. -/

def exEdges : List MEdge := [⟨4, 3, 0⟩, ⟨3, 2, 1⟩, ⟨4, 2, 2⟩]

def exInp : Inp Rat where
  n := 5
  fixed := fun u => decide (u < 2)
  inside := fun u => if u = 4 then [1, 2, 3] else if u = 3 then [1, 3, 3] else [5, 4, 1]
  lik := fun e k t => if t ≤ k then (1 + e.id + k - t : Nat) else 0

example : ValidOrder exEdges := by
  refine ⟨by decide, ?_, by decide⟩
  simp [exEdges]

example : maximize linOps exInp exEdges = #[0, 0, 0, 1, 2] := by decide +kernel

example : groupConsts exInp (aget (maximize linOps exInp exEdges)) ⟨3, 2, 1⟩ [⟨4, 2, 2⟩] = [3, 5] := by
  decide +kernel

end Tsdate.C13
