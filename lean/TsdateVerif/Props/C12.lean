/-
C12 — linear and logarithmic probability spaces agree (model: `LogLikelihoods` of tsdate/discrete.py
as an instance `logOps` of the same generic passes that `Likelihoods` instantiates with `linOps`).

`E` is `exp` extended by `E (-∞) = 0`; its laws (`LogLaws`) are hypotheses, satisfied by the
concrete carrier `LogReal` (ℝ plus `-∞`) with `Real.exp` / `Real.log` (`logLaws_real`).  Overflow and
underflow of IEEE doubles are outside the theorems (the property's own escape clause).
-/
import Mathlib.Analysis.SpecialFunctions.Log.Basic
import Mathlib.Analysis.SpecialFunctions.Pow.Real
import TsdateVerif.Proofs.DiscreteLogHom
import TsdateVerif.Proofs.DiscreteGuardsDec
import TsdateVerif.Proofs.DiscreteMutPrior

namespace Tsdate.C12
open Tsdate Tsdate.Discrete
set_option linter.unusedSectionVars false

section
variable {α β : Type} [Field α] [LinearOrder α] [IsStrictOrderedRing α] [BEq α] [LawfulBEq α]
  [Add β] [Sub β] [LE β] [DecidableLE β] [BEq β] [LawfulBEq β]
  {E : β → α} {log : α → β} {negInf : β}

/-- **`LogLikelihoods.logsumexp` is log-sum-exp.**  For every input list (any length, any mixture
of `-∞` and finite entries, any order) `exp` of the value returned by the one-pass running-maximum
loop equals `Σ exp xᵢ`.  This is the reduction used by the log-space `rowsum_lower_tri`,
`rowsum_upper_tri` and `marginalize`, so each of them is `log` of its linear counterpart. -/
theorem logsumexp_stream (h : LogLaws E log negInf) (xs : List β) :
    E (logsumexp E log negInf xs) = (xs.map E).sum :=
  logsumexp_exp h xs

/-- The streaming result is `-∞` exactly when all inputs are `-∞` (linear sum `0` iff all terms `0`). -/
theorem logsumexp_bot_iff (h : LogLaws E log negInf) (xs : List β) :
    logsumexp E log negInf xs = negInf ↔ ∀ x ∈ xs, x = negInf := by
  constructor
  · intro hb x hx
    have hs : (xs.map E).sum = 0 := by rw [← logsumexp_exp h xs, hb, h.bot]
    have hnn : ∀ y ∈ xs.map E, 0 ≤ y := by
      intro y hy; obtain ⟨z, _, rfl⟩ := List.mem_map.mp hy; exact h.nonneg z
    have := list_sum_eq_zero_nonneg _ hnn hs (E x) (List.mem_map.mpr ⟨x, hx, rfl⟩)
    exact h.eq_bot_of_zero x this
  · intro hall
    apply h.eq_bot_of_zero
    rw [logsumexp_exp h xs]
    apply List.sum_eq_zero
    intro y hy
    obtain ⟨z, hz, rfl⟩ := List.mem_map.mp hy
    rw [hall z hz, h.bot]

/-- **`combine`**: log-space `+` is linear-space `*` (including `-∞ ↔ 0`). -/
theorem combine_log_eq_lin (h : LogLaws E log negInf) (x y : β) : E (x + y) = E x * E y := h.add x y

/-- **`ratio`**: log-space `-` is linear-space `/` whenever the divisor is non-zero. -/
theorem ratio_log_eq_lin (h : LogLaws E log negInf) (x y : β) (hy : y ≠ negInf) :
    E (x - y) = E x / E y := ratio_exp h x y hy

/-- **`ratio(..., div_0_null=True)`**: the log-space convention `-∞ - (-∞) ↦ -∞` is the image of the
linear-space convention `0/0 ↦ 0`.  The only excluded case is a non-zero numerator over a zero
divisor (`+∞` in both classes), which the passes never produce (`g_i = 0 ⇒ inside = 0`). -/
theorem ratio0_log_eq_lin (h : LogLaws E log negInf) (x y : β) (hdef : y = negInf → x = negInf) :
    E (if x == negInf && y == negInf then negInf else x - y)
      = (if E x == 0 && E y == 0 then 0 else E x / E y) := ratio0_exp h x y hdef

end


/-! ### The passes -/

section
variable {α β : Type} [Field α] [LinearOrder α] [IsStrictOrderedRing α] [BEq α] [LawfulBEq α]
  [Inhabited α] [Inhabited β]
  [Add β] [Sub β] [Mul β] [OfNat β 0] [LE β] [DecidableLE β] [LT β] [DecidableLT β] [BEq β] [LawfulBEq β]
  {E : β → α} {log : α → β} {negInf : β}

/-- **Every step of the log-space inside and outside passes is the image of the linear-space step.**
Run the *same* generic pass definitions with `logOps` (what `LogLikelihoods` provides) on an input and
with `linOps` (`Likelihoods`) on the `exp`-image of that input (tables and priors through `E`, span
fractions through `F`).  Then: every inside row, denominator and cached message, the marginal
likelihood, and every outside row of the linear run are `E` of those of the log run — hence identical
posteriors after `exp`.  Hypotheses: the laws of `exp`/`log` (`LogLaws`), `E 0 = 1`, `E` strictly
monotone, `E (f * v) = (E v) ** (F f)` for admissible span fractions, the conversions of the initial
outside values agree, and the guards `insideGuards`/`outsideGuards` hold **on the linear run**: span
fractions admissible, no denominator or standardiser is 0, and `0/0` is the only division by zero
(these are exactly the situations in which the two implementations would produce `nan`/`inf`; the code
asserts the denominator condition itself). -/
theorem pass_log_eq_lin (h : LogLaws E log negInf) (logB : β → β) (pow : α → α → α) (F : β → α)
    (Pn : α → Prop) (hzero : E (0 : β) = 1) (hlt : ∀ x y : β, x < y ↔ E x < E y)
    (hscale : ∀ f v, Pn (F f) → E (f * v) = pow (F f) (E v))
    (hE : E default = default) (hF : F default = default)
    (inp : Input β) (stdIn stdOut ign : Bool) (order : List DEdge) (zL : β) (zN : α)
    (hz : E (logB zL) = zN)
    (hr : ∀ r ∈ inp.roots, E (logB r.2) = F r.2 ∧ Pn (F r.2))
    (hgi : insideGuards Pn (linOps pow) (inp.mapE E F) stdIn (groupRuns (·.p) inp.edges)
      ((insideInit (logOps E log logB negInf) inp).mapE E))
    (hgo : outsideGuards Pn (linOps pow) (inp.mapE E F)
      ((insidePass (logOps E log logB negInf) inp stdIn).1.mapE E) stdOut ign
      (groupRuns (·.c) order) (outsideInit (linOps pow) (inp.mapE E F) zN)) :
    (insidePass (logOps E log logB negInf) inp stdIn).1.mapE E
        = (insidePass (linOps pow) (inp.mapE E F) stdIn).1 ∧
    E (insidePass (logOps E log logB negInf) inp stdIn).2
        = (insidePass (linOps pow) (inp.mapE E F) stdIn).2 ∧
    (outsidePass (logOps E log logB negInf) inp (insidePass (logOps E log logB negInf) inp stdIn).1
        stdOut ign order zL).map (fun r : Array β => r.map E)
      = outsidePass (linOps pow) (inp.mapE E F) (insidePass (linOps pow) (inp.mapE E F) stdIn).1
          stdOut ign order zN :=
  pass_hom (logOps_hom h logB pow F Pn hzero hlt hscale) hE hF inp stdIn stdOut ign order zL zN hz hr
    hgi hgo

/-- **`np.argmax` commutes with `exp`** (the selection step of `outside_maximization`): the first
index of a maximal entry is the same for a list of log-space scores and for its `exp`-image, because
`exp` is strictly monotone (ties are ties in both spaces).  The maximization *pass* itself is not
modelled in this cluster (C13); this is the only place where it compares numbers. -/
theorem argmax_log_eq_lin (hlt : ∀ x y : β, x < y ↔ E x < E y) (l : List β) :
    npArgmax (l.map E) = npArgmax l := by
  cases l with
  | nil => rfl
  | cons x xs => exact npArgmaxFrom_hom hlt xs x 0 1

/-- `posterior_grid = combine(inside, outside)` is preserved as well. -/
theorem posterior_log_eq_lin (h : LogLaws E log negInf) (x y : List β) :
    (List.zipWith (· + ·) x y).map E = List.zipWith (· * ·) (x.map E) (y.map E) :=
  map_zipWith_hom (· + ·) (· * ·) E h.add x y

end


/-! ### The shared prior object across runs in different spaces -/

/-- **`run_sees_prior_in_its_space`**: whatever probability-space tag a prior object carries (fresh,
or left behind by an earlier run in either space), the first thing a run in space `s` does
(`BeliefPropagation.__init__` → `force_probability_space`) leaves the object tagged `s`; so the passes
of a linear run read linear numbers and those of a log run read logarithms. -/
theorem run_sees_prior_in_its_space {γ : Type} (toLog toLin : γ → γ) (s : Space) (p : PriorObj γ) :
    (runPrior toLog toLin s p).space = s :=
  forceSpace_space toLog toLin s p

/-- Along any sequence of runs on one shared prior object, the k-th run sees the object tagged with
its own space (log→linear, linear→log, log→log→linear, …). -/
theorem run_sequence_spaces {γ : Type} (toLog toLin : γ → γ) (ss : List Space) (p : PriorObj γ) :
    (runSeq toLog toLin ss p).map (·.space) = ss :=
  runSeq_spaces toLog toLin ss p

/-- A run in the space the object is already in does not touch the data. -/
theorem run_same_space_keeps_data {γ : Type} (toLog toLin : γ → γ) (s : Space) (p : PriorObj γ)
    (h : p.space = s) : runPrior toLog toLin s p = p :=
  forceSpace_same toLog toLin s p h

/-- **log → linear on a shared object gives back the linear data** (so the later linear run computes
what a fresh linear run computes), provided `exp (log x) = x` on the entries (`x ≥ 0`, `log 0 = -∞`). -/
theorem run_log_then_lin_restores {γ : Type} (toLog toLin : γ → γ) (p : PriorObj γ)
    (hp : p.space = Space.lin)
    (h : ∀ row ∈ p.grid.toList, ∀ x ∈ row.toList, toLin (toLog x) = x) :
    runPrior toLog toLin Space.lin (runPrior toLog toLin Space.log p) = p :=
  forceSpace_roundtrip toLog toLin p hp h

example : (runSeq (fun x : Int => x + 100) (fun x => x - 100) [Space.log, Space.log, Space.lin]
    ⟨Space.lin, #[#[0, 1]]⟩).map (fun q => (q.space, q.grid))
    = [(Space.log, #[#[100, 101]]), (Space.log, #[#[100, 101]]), (Space.lin, #[#[0, 1]])] := by decide +kernel

/-! ### The laws are satisfiable: ℝ ∪ {-∞} with the real exponential -/

/-- Concrete log carrier. -/
inductive LogReal
  | bot
  | fin (r : ℝ)

namespace LogReal
noncomputable instance : DecidableEq LogReal := Classical.decEq _
noncomputable instance : Add LogReal :=
  ⟨fun x y => match x, y with | fin a, fin b => fin (a + b) | _, _ => bot⟩
noncomputable instance : Sub LogReal :=
  ⟨fun x y => match x, y with | fin a, fin b => fin (a - b) | _, _ => bot⟩
instance : LE LogReal :=
  ⟨fun x y => match x, y with | bot, _ => True | fin _, bot => False | fin a, fin b => a ≤ b⟩
noncomputable instance : DecidableLE LogReal := fun _ _ => Classical.dec _
noncomputable instance : Mul LogReal :=
  ⟨fun x y => match x, y with | fin a, fin b => fin (a * b) | _, _ => bot⟩
noncomputable instance : OfNat LogReal 0 := ⟨fin 0⟩
instance : LT LogReal :=
  ⟨fun x y => match x, y with | _, bot => False | bot, fin _ => True | fin a, fin b => a < b⟩
noncomputable instance : DecidableLT LogReal := fun _ _ => Classical.dec _
instance : Inhabited LogReal := ⟨bot⟩
/-- a span fraction stored in the log carrier, read as a real number -/
noncomputable def F : LogReal → ℝ
  | bot => 0
  | fin a => a
/-- `np.log` of a linear-space number stored in the carrier (`log 0 = -∞`) -/
noncomputable def logB : LogReal → LogReal
  | bot => bot
  | fin a => if a = 0 then bot else fin (Real.log a)
/-- `exp`, with `exp (-∞) = 0` -/
noncomputable def E : LogReal → ℝ
  | bot => 0
  | fin a => Real.exp a
noncomputable def log (r : ℝ) : LogReal := fin (Real.log r)
end LogReal

open LogReal in
/-- The hypotheses of the theorems above hold for the real exponential and logarithm. -/
theorem logLaws_real : LogLaws LogReal.E LogReal.log LogReal.bot where
  pos := by
    intro x hx
    cases x with
    | bot => exact absurd rfl hx
    | fin a => exact Real.exp_pos a
  bot := rfl
  sub := by
    intro x a hx ha
    cases x with
    | bot => exact absurd rfl hx
    | fin u =>
      cases a with
      | bot => exact absurd rfl ha
      | fin v => show Real.exp (u - v) * Real.exp v = Real.exp u; rw [← Real.exp_add]; congr 1; ring
  bot_sub := by intro x _; cases x <;> rfl
  log_add := by
    intro r a hr ha
    cases a with
    | bot => exact absurd rfl ha
    | fin v => show Real.exp (Real.log r + v) = r * Real.exp v; rw [Real.exp_add, Real.exp_log hr]
  not_le_bot := by
    intro x hx
    cases x with
    | bot => exact absurd rfl hx
    | fin a => exact fun h => h
  add := by
    intro x y
    cases x with
    | bot => cases y <;> simp [E]
    | fin u =>
      cases y with
      | bot => simp [E]
      | fin v => show Real.exp (u + v) = Real.exp u * Real.exp v; exact Real.exp_add u v


open LogReal in
/-- The additional laws of `pass_log_eq_lin` hold for the real exponential with
`pow f v = v ^ f` (`Real.rpow`) and admissible fractions `0 < f`. -/
theorem passLaws_real :
    LogReal.E (0 : LogReal) = 1 ∧ (∀ x y : LogReal, x < y ↔ LogReal.E x < LogReal.E y) ∧
    (∀ f v : LogReal, 0 < LogReal.F f → LogReal.E (f * v) = (LogReal.E v) ^ (LogReal.F f)) ∧
    LogReal.E default = default ∧ LogReal.F default = default ∧
    (∀ r : LogReal, 0 < LogReal.F r → LogReal.E (LogReal.logB r) = LogReal.F r) ∧
    LogReal.E (LogReal.logB (LogReal.fin 0)) = 0 := by
  refine ⟨Real.exp_zero, ?_, ?_, rfl, rfl, ?_, ?_⟩
  · intro x y
    cases x with
    | bot =>
      cases y with
      | bot => exact ⟨fun h => h.elim, fun h => absurd h (lt_irrefl _)⟩
      | fin b => exact ⟨fun _ => Real.exp_pos b, fun _ => trivial⟩
    | fin a =>
      cases y with
      | bot => exact ⟨fun h => h.elim, fun h => absurd h (not_lt.mpr (le_of_lt (Real.exp_pos a)))⟩
      | fin b => exact Real.exp_lt_exp.symm
  · intro f v hf
    cases f with
    | bot => exact absurd hf (lt_irrefl _)
    | fin r =>
      cases v with
      | bot =>
        have hr' : (0 : ℝ) < r := hf
        show (0 : ℝ) = (0 : ℝ) ^ r
        rw [Real.zero_rpow (ne_of_gt hr')]
      | fin w => show Real.exp (r * w) = (Real.exp w) ^ r; rw [mul_comm, Real.exp_mul]
  · intro r hr
    cases r with
    | bot => exact absurd hr (lt_irrefl _)
    | fin a =>
      show LogReal.E (if a = 0 then bot else fin (Real.log a)) = a
      have hr' : (0 : ℝ) < a := hr
      rw [if_neg (ne_of_gt hr')]
      exact Real.exp_log hr'
  · show LogReal.E (if (0 : ℝ) = 0 then bot else fin (Real.log 0)) = 0
    rw [if_pos rfl]; rfl

/-! Non-vacuity of the guards of `pass_log_eq_lin`: on a three-leaf tree ((0,1)3,2)4 with a 2-point
grid (tables and priors with zeros) the guards hold on the linear run, standardised and not
(kernel-evaluated over `Rat`). -/

def exampleLin : Input Rat where
  G := 2
  numNodes := 5
  fixed := #[true, true, true, false, false]
  edges := [⟨0, 3, 0⟩, ⟨1, 3, 1⟩, ⟨2, 4, 2⟩, ⟨3, 4, 3⟩]
  frac := #[1, 1, 1, 1]
  lik := #[#[1, 2], #[1, 3], #[2, 1], #[1, 2, 0]]
  prior := #[#[], #[], #[], #[1, 1], #[0, 1]]
  roots := [(4, 1)]

example :
    insideGuards (fun f : Rat => 0 < f) (linOps (fun _ v => v)) exampleLin true
      (groupRuns (·.p) exampleLin.edges) (insideInit (linOps (fun _ v => v)) exampleLin) ∧
    outsideGuards (fun f : Rat => 0 < f) (linOps (fun _ v => v)) exampleLin
      (insidePass (linOps (fun _ v => v)) exampleLin true).1 true false
      (groupRuns (·.c) [⟨3, 4, 3⟩, ⟨2, 4, 2⟩, ⟨0, 3, 0⟩, ⟨1, 3, 1⟩])
      (outsideInit (linOps (fun _ v => v)) exampleLin 0) ∧
    outsideGuards (fun f : Rat => 0 < f) (linOps (fun _ v => v)) exampleLin
      (insidePass (linOps (fun _ v => v)) exampleLin true).1 false false
      (groupRuns (·.c) [⟨3, 4, 3⟩, ⟨2, 4, 2⟩, ⟨0, 3, 0⟩, ⟨1, 3, 1⟩])
      (outsideInit (linOps (fun _ v => v)) exampleLin 0) := by
  decide +kernel

/-! Non-vacuity: the streaming loop on a concrete list with `-∞` entries, a new maximum in the
middle and a repeated value. -/
example : LogReal.E (logsumexp LogReal.E LogReal.log LogReal.bot
      [LogReal.bot, LogReal.fin 0, LogReal.fin 1, LogReal.bot, LogReal.fin 0])
    = 0 + (Real.exp 0 + (Real.exp 1 + (0 + (Real.exp 0 + 0)))) := by
  rw [logsumexp_stream logLaws_real]; rfl

example : logsumexp LogReal.E LogReal.log LogReal.bot [LogReal.bot, LogReal.bot] = LogReal.bot :=
  (logsumexp_bot_iff logLaws_real _).mpr (by simp)

end Tsdate.C12
