/-
C12 — linear and logarithmic probability spaces agree (model: `LogLikelihoods` of tsdate/discrete.py
as an instance `logOps` of the same generic passes that `Likelihoods` instantiates with `linOps`).

`E` is `exp` extended by `E (-∞) = 0`; its laws (`LogLaws`) are hypotheses, satisfied by the
concrete carrier `LogReal` (ℝ plus `-∞`) with `Real.exp` / `Real.log` (`logLaws_real`).  Overflow and
underflow of IEEE doubles are outside the theorems (the property's own escape clause).
-/
import Mathlib.Analysis.SpecialFunctions.Log.Basic
import TsdateVerif.Proofs.DiscreteLog

namespace Tsdate.C12
open Tsdate Tsdate.Discrete
set_option linter.unusedSectionVars false

section
variable {α β : Type} [Field α] [LinearOrder α] [IsStrictOrderedRing α] [BEq α] [LawfulBEq α]
  [Add β] [Sub β] [LE β] [DecidableLE β] [BEq β] [LawfulBEq β]
  {E : β → α} {log : α → β} {negInf : β}

/-- **`LogLikelihoods.logsumexp` is log-sum-exp.**  For every input list (any length, any mixture
of `-∞` and finite entries, any order) `exp` of the value returned by the one-pass running-maximum
loop equals `Σ exp xᵢ`.  This is the reduction used by the log-space `rowsum_lower_tri`,
`rowsum_upper_tri` and `marginalize`, so each of them is `log` of its linear counterpart. -/
theorem logsumexp_stream (h : LogLaws E log negInf) (xs : List β) :
    E (logsumexp E log negInf xs) = (xs.map E).sum :=
  logsumexp_exp h xs

/-- The streaming result is `-∞` exactly when all inputs are `-∞` (linear sum `0` iff all terms `0`). -/
theorem logsumexp_bot_iff (h : LogLaws E log negInf) (xs : List β) :
    logsumexp E log negInf xs = negInf ↔ ∀ x ∈ xs, x = negInf := by
  constructor
  · intro hb x hx
    have hs : (xs.map E).sum = 0 := by rw [← logsumexp_exp h xs, hb, h.bot]
    have hnn : ∀ y ∈ xs.map E, 0 ≤ y := by
      intro y hy; obtain ⟨z, _, rfl⟩ := List.mem_map.mp hy; exact h.nonneg z
    have := list_sum_eq_zero_nonneg _ hnn hs (E x) (List.mem_map.mpr ⟨x, hx, rfl⟩)
    exact h.eq_bot_of_zero x this
  · intro hall
    apply h.eq_bot_of_zero
    rw [logsumexp_exp h xs]
    apply List.sum_eq_zero
    intro y hy
    obtain ⟨z, hz, rfl⟩ := List.mem_map.mp hy
    rw [hall z hz, h.bot]

/-- **`combine`**: log-space `+` is linear-space `*` (including `-∞ ↔ 0`). -/
theorem combine_log_eq_lin (h : LogLaws E log negInf) (x y : β) : E (x + y) = E x * E y := h.add x y

/-- **`ratio`**: log-space `-` is linear-space `/` whenever the divisor is non-zero. -/
theorem ratio_log_eq_lin (h : LogLaws E log negInf) (x y : β) (hy : y ≠ negInf) :
    E (x - y) = E x / E y := ratio_exp h x y hy

/-- **`ratio(..., div_0_null=True)`**: the log-space convention `-∞ - (-∞) ↦ -∞` is the image of the
linear-space convention `0/0 ↦ 0`.  The only excluded case is a non-zero numerator over a zero
divisor (`+∞` in both classes), which the passes never produce (`g_i = 0 ⇒ inside = 0`). -/
theorem ratio0_log_eq_lin (h : LogLaws E log negInf) (x y : β) (hdef : y = negInf → x = negInf) :
    E (if x == negInf && y == negInf then negInf else x - y)
      = (if E x == 0 && E y == 0 then 0 else E x / E y) := ratio0_exp h x y hdef

end

/-! ### The laws are satisfiable: ℝ ∪ {-∞} with the real exponential -/

/-- Concrete log carrier. -/
inductive LogReal
  | bot
  | fin (r : ℝ)

namespace LogReal
noncomputable instance : DecidableEq LogReal := Classical.decEq _
noncomputable instance : Add LogReal :=
  ⟨fun x y => match x, y with | fin a, fin b => fin (a + b) | _, _ => bot⟩
noncomputable instance : Sub LogReal :=
  ⟨fun x y => match x, y with | fin a, fin b => fin (a - b) | _, _ => bot⟩
instance : LE LogReal :=
  ⟨fun x y => match x, y with | bot, _ => True | fin _, bot => False | fin a, fin b => a ≤ b⟩
noncomputable instance : DecidableLE LogReal := fun _ _ => Classical.dec _
/-- `exp`, with `exp (-∞) = 0` -/
noncomputable def E : LogReal → ℝ
  | bot => 0
  | fin a => Real.exp a
noncomputable def log (r : ℝ) : LogReal := fin (Real.log r)
end LogReal

open LogReal in
/-- The hypotheses of the theorems above hold for the real exponential and logarithm. -/
theorem logLaws_real : LogLaws LogReal.E LogReal.log LogReal.bot where
  pos := by
    intro x hx
    cases x with
    | bot => exact absurd rfl hx
    | fin a => exact Real.exp_pos a
  bot := rfl
  sub := by
    intro x a hx ha
    cases x with
    | bot => exact absurd rfl hx
    | fin u =>
      cases a with
      | bot => exact absurd rfl ha
      | fin v => show Real.exp (u - v) * Real.exp v = Real.exp u; rw [← Real.exp_add]; congr 1; ring
  bot_sub := by intro x _; cases x <;> rfl
  log_add := by
    intro r a hr ha
    cases a with
    | bot => exact absurd rfl ha
    | fin v => show Real.exp (Real.log r + v) = r * Real.exp v; rw [Real.exp_add, Real.exp_log hr]
  not_le_bot := by
    intro x hx
    cases x with
    | bot => exact absurd rfl hx
    | fin a => exact fun h => h
  add := by
    intro x y
    cases x with
    | bot => cases y <;> simp [E]
    | fin u =>
      cases y with
      | bot => simp [E]
      | fin v => show Real.exp (u + v) = Real.exp u * Real.exp v; exact Real.exp_add u v

/-! Non-vacuity: the streaming loop on a concrete list with `-∞` entries, a new maximum in the
middle and a repeated value. -/
example : LogReal.E (logsumexp LogReal.E LogReal.log LogReal.bot
      [LogReal.bot, LogReal.fin 0, LogReal.fin 1, LogReal.bot, LogReal.fin 0])
    = 0 + (Real.exp 0 + (Real.exp 1 + (0 + (Real.exp 0 + 0)))) := by
  rw [logsumexp_stream logLaws_real]; rfl

example : logsumexp LogReal.E LogReal.log LogReal.bot [LogReal.bot, LogReal.bot] = LogReal.bot :=
  (logsumexp_bot_iff logLaws_real _).mpr (by simp)

end Tsdate.C12
