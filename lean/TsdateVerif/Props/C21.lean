/-
C21 — EP message bookkeeping is consistent after every iteration
(model: `Model/EP.lean` of `tsdate/variational.py`: `EPFactors`, `_rescale_factors`, `_assemble_factors`,
`propagate_likelihood`, `propagate_prior`, `iterate`).

The projection functions of `tsdate/approx.py` are arbitrary parameters: every theorem below holds whatever they
return (valid moments, a skipped update that hands back the cavity, or anything else), for every damping factor,
and for every `max_shape > 1` (the API rejects `max_shape ≤ 1`).  `assemble` is the model of the repository's own
`_assemble_factors` (sum of all edge/block messages addressed to a node plus its prior and constraint factors).
Arithmetic is exact (ordered field); the Float instance of the same definitions is compared bit-for-bit with the
numba code by the check.
-/
import TsdateVerif.Proofs.EPIter
import TsdateVerif.Proofs.EPMonad

namespace Tsdate.C21
open Tsdate Tsdate.EP
set_option linter.unusedSectionVars false

variable {α : Type} [Inhabited α] [Field α] [LinearOrder α] [IsStrictOrderedRing α]

/-- The state built by `ExpectationPropagation.__init__` (all factors 0, scales 1, posteriors 0) satisfies the
bookkeeping identity. -/
theorem assembled_initially (net : Net α) (N : Nat) :
    Inv net (initState N net.ep.size net.bj.size) N :=
  init_inv net N

/-- **One end of one edge update, fully general**: if `posterior[n] = scale[n]·Σ messages` before, then after
replacing the message by `message·(1−δ) + (proj − cavity)/scale[n]`, the posterior by `proj·η` and the scale by
`scale[n]·η` it holds again — for *every* damping `δ`, every `η ≠ 0` and every projection result `proj`. -/
theorem update_any_damping_any_rescaling (net : Net α) (N : Nat) (unphased : Bool) (i : Nat) (leafward : Bool)
    (n : Nat) (δ η : α) (proj : α × α) (s : State α) (hinv : Inv net s N)
    (hi : i < (facOf unphased s).size) (hn : n < N) (hη : η ≠ 0)
    (haddr : (if leafward then aget (chiOf unphased net) i else aget (parOf unphased net) i) = n) :
    let f := aget (facOf unphased s) i
    let sc := aget s.scale n
    let old := if leafward then f.l else f.r
    let cav := cavity (aget s.post n) (message old sc) δ
    let f' : Msg α :=
      if leafward then ⟨f.r, newFactor f.l δ proj cav sc⟩ else ⟨newFactor f.r δ proj cav sc, f.l⟩
    Inv net (writeEnd unphased i f' n (scalePost proj η) (sc * η) s) N :=
  writeEnd_update_inv net N unphased i leafward n δ η proj s hinv hi hn hη haddr

/-- `_rescale` (the `η` actually used) is never 0 when `max_shape > 1`, whatever posterior it is given. -/
theorem rescale_ne_zero (x : α × α) (maxShape : α) (h : 1 < maxShape) : rescale x maxShape ≠ 0 :=
  ne_of_gt (rescale_pos x maxShape h)

/-- **Every branch of the loop body of `propagate_likelihood`** (both-fixed, fixed parent, fixed child, twin
block, two free ends; phased edges or unphased blocks) preserves the identity for an arbitrary projection result. -/
theorem every_branch_preserves (cfg : Cfg α) (net : Net α) (N : Nat) (unphased : Bool) (i : Nat) (s : State α)
    (hinv : Inv net s N) (hnet : NetOK net N) (hi : i < (parOf unphased net).size)
    (hs : 1 < cfg.maxShape) (r : Res α) :
    Inv net (stepApply cfg (prep cfg net unphased i s) i r s) N :=
  stepApply_inv cfg net N unphased i s hinv hnet hi hs r

/-- The NaN-skip (`return nan, pars_i`): the wrapper hands back the cavity; the identity is preserved (the damped
part of the old message is dropped from message and posterior alike). -/
theorem skip_preserves (cfg : Cfg α) (net : Net α) (N : Nat) (unphased : Bool) (i : Nat) (s : State α)
    (hinv : Inv net s N) (hnet : NetOK net N) (hi : i < (parOf unphased net).size)
    (hs : 1 < cfg.maxShape) :
    Inv net (stepApply cfg (prep cfg net unphased i s) i
      ⟨(prep cfg net unphased i s).cavP, (prep cfg net unphased i s).cavC⟩ s) N :=
  stepApply_inv cfg net N unphased i s hinv hnet hi hs _

/-- `propagate_likelihood` over any edge order (indices in range), any projection function. -/
theorem propagate_likelihood_preserves (proj : Req α → Res α) (cfg : Cfg α) (net : Net α) (N : Nat)
    (unphased : Bool) (order : List Nat) (s : State α) (hinv : Inv net s N) (hnet : NetOK net N)
    (hord : ∀ i ∈ order, i < (parOf unphased net).size) (hs : 1 < cfg.maxShape) :
    Inv net (sweep proj cfg net unphased order s) N :=
  sweep_inv proj cfg net N unphased order s hinv hnet hord hs

/-- `propagate_prior` preserves the identity, whatever penalty its EM loop finds. -/
theorem propagate_prior_preserves (cfg : Cfg α) (net : Net α) (N : Nat) (free : Array Bool)
    (cnt reltol : α) (maxitt : Nat) (s : State α) (hinv : Inv net s N) (hfree : free.size ≤ N)
    (hs : 1 < cfg.maxShape) : Inv net (prior cfg free cnt reltol maxitt s) N :=
  prior_inv cfg net N free cnt reltol maxitt s hinv hfree hs

/-- **Internal rescaling of messages never changes posteriors**: `_rescale_factors` leaves `node_posterior`
untouched, sets every scale to 1, and afterwards the messages sum to the posterior. -/
theorem rescale_factors_preserves (net : Net α) (s : State α) (N : Nat) (hinv : Inv net s N) :
    (rescaleFactors net s).post = s.post ∧
      (∀ n, n < N → aget (rescaleFactors net s).scale n = 1) ∧
      (∀ n, n < N → assemble net (rescaleFactors net s) n = aget s.post n) ∧
      Inv net (rescaleFactors net s) N :=
  let h := rescaleFactors_spec net s N hinv
  ⟨h.2.1, h.2.2.1, h.2.2.2, h.1⟩

/-- **Sample (fixed) nodes are never written**: an iteration leaves their posterior entry untouched, for any
projections (the prior is only applied to `unconstrained_roots`, which excludes fixed nodes). -/
theorem fixed_untouched (proj : Req α → Res α) (cfg : Cfg α) (net : Net α) (sch : Sched α) (s : State α)
    (m : Nat) (hm : aget net.fixed m = true) (hfree : aget sch.free m = false) :
    aget (iterate proj cfg net sch s).post m = aget s.post m :=
  iterate_post_fixed proj cfg net sch s m hm hfree

/-- **C21.** After every iteration of EP (any number `k ≥ 1`, any projection functions, any edge/block orders
with valid indices, with or without root regularisation, phased or unphased), each node's posterior natural
parameters equal `_assemble_factors`: the sum of its prior and constraint factors and all edge and block messages
addressed to it; all scales are 1. -/
theorem bookkeeping_after_every_iteration (proj : Req α → Res α) (cfg : Cfg α) (net : Net α) (sch : Sched α) (N : Nat)
    (hok : SchedOK net sch N) (hs : 1 < cfg.maxShape) (k : Nat) :
    (∀ n, n < N →
      aget (iterateN proj cfg net sch (k + 1) (initState N net.ep.size net.bj.size)).post n =
        assemble net (iterateN proj cfg net sch (k + 1) (initState N net.ep.size net.bj.size)) n) ∧
    (∀ n, n < N →
      aget (iterateN proj cfg net sch (k + 1) (initState N net.ep.size net.bj.size)).scale n = 1) := by
  rw [iterateN_succ]
  have h := iterate_spec proj cfg net sch N _
    (iterateN_inv proj cfg net sch N k _ (init_inv net N) hok hs) hok hs
  exact ⟨fun n hn => (h.2.2 n hn).symm, h.2.1⟩

/-- Between the rescalings, i.e. at every point inside an iteration, the scaled identity holds (`k` may be 0). -/
theorem C21_scaled (proj : Req α → Res α) (cfg : Cfg α) (net : Net α) (sch : Sched α) (N : Nat)
    (hok : SchedOK net sch N) (hs : 1 < cfg.maxShape) (k : Nat) :
    Inv net (iterateN proj cfg net sch k (initState N net.ep.size net.bj.size)) N :=
  iterateN_inv proj cfg net sch N k _ (init_inv net N) hok hs

/-- Fixed nodes keep the all-zero posterior entry they start with through any number of iterations. -/
theorem C21_fixed (proj : Req α → Res α) (cfg : Cfg α) (net : Net α) (sch : Sched α) (N : Nat)
    (m : Nat) (hmN : m < N) (hm : aget net.fixed m = true) (hfree : aget sch.free m = false) (k : Nat) :
    aget (iterateN proj cfg net sch k (initState N net.ep.size net.bj.size)).post m = pzero := by
  induction k with
  | zero => exact aget_replicate _ _ _ hmN
  | succ k ih => rw [iterateN_succ, iterate_post_fixed proj cfg net sch _ m hm hfree, ih]

/-- **What the correspondence driver executes is the model the theorems are about**: the driver runs `iterateM`
(Model/EPM.lean) with an effectful projection oracle (the real `tsdate.approx` wrappers over the line protocol);
with a pure oracle and no-op handlers `iterateM` is exactly `iterate`. -/
theorem driver_iteration_is_model (proj : Req α → Res α) (cfg : Cfg α) (net : Net α) (sch : Sched α)
    (s : State α) :
    iterateM (m := Id) (fun rq => pure (proj rq)) (fun _ => pure ()) (fun _ => pure ()) cfg net sch s =
      pure (iterate proj cfg net sch s) :=
  iterateM_id proj cfg net sch s

/-! Non-vacuity: a three-sample tree `((0,1)3,2)4` with an unphased block on the edges above 0 and 1; the
hypotheses hold, and with a toy projection (cavity + likelihood) one iteration at `Rat` produces a non-zero
posterior that equals the assembled messages. -/
section Example

def exNet : Net Rat :=
  { fixed := #[true, true, true, false, false], lower := #[0, 0, 0, 0, 0],
    ep := #[3, 3, 4, 4], ec := #[0, 1, 2, 3], bj := #[3], bk := #[3],
    elik := #[(2, 1), (0, 1), (3, 2), (1, 1)], blik := #[(1, 2)] }

def exSched : Sched Rat :=
  { blockOrder := [0], edgeOrder := [0, 1, 2, 3, 2, 1, 0], regularise := true,
    free := #[false, false, false, false, true], cnt := 1, reltol := 1 / 100000000, maxitt := 10 }

def exCfg : Cfg Rat := { maxShape := 3, minStep := 1 / 10, tiny := 1 / 1000000 }

def exProj (rq : Req Rat) : Res Rat := ⟨padd rq.cavP rq.lik, padd rq.cavC rq.lik⟩

example : SchedOK exNet exSched 5 :=
  ⟨⟨by decide, by decide, by decide, by decide⟩, by decide, by decide, by decide⟩

example : (1 : Rat) < exCfg.maxShape := by decide +kernel

example :
    let s := iterateN exProj exCfg exNet exSched 2 (initState 5 4 1)
    aget s.post 3 = assemble exNet s 3 ∧ aget s.post 4 = assemble exNet s 4 ∧
      aget s.post 3 ≠ pzero ∧ aget s.post 4 ≠ pzero ∧ aget s.post 0 = pzero := by
  decide +kernel

end Example

end Tsdate.C21
