/-
C38 — `ignore_oldest_root` ignores exactly the oldest root
(model: the `ignore_oldest_root` branch of `BeliefPropagation.outside_pass`, tsdate/discrete.py:

            for edge in edges:
                if ignore_oldest_root:
                    if edge.parent == self.ts.num_nodes - 1:
                        continue
)

The outside pass is `pass (withIgnore ops ign)` (Model/Order.lean, Model/Passes.lean): a grouped
fold in which the messages of the edges whose parent satisfies `ign` are skipped.

* The code's rule is `ignCode n = fun p => p == n - 1`: the node with the HIGHEST ID.  It is not the
  specified rule: `code_rule_not_invariant` exhibits two isomorphic inputs (one tree, the two
  non-sample nodes swapped) on which the concrete linear-space model gives different results
  (finding F11; reproduced on the real code by the check).
* The specified rule is `ignOldest time roots` (the roots of greatest input time).  For it the
  property holds: `ignore_root_spec` says exactly which messages are dropped,
  `oldest_root_rule_invariant` that renumbering the nodes (and traversing the renumbered input in any
  valid order) does not change any result of the abstract pass, and
  `insideOutside_oldest_root_invariant` the same for the concrete linear-space inside–outside model
  that the check runs against the real code.
* `code_rule_agrees_when_last_is_oldest`: on inputs whose unique oldest root has the highest id
  (msprime and tsinfer output — every input of the repository's tests) the two rules coincide.
-/
import TsdateVerif.Proofs.Passes
import TsdateVerif.Proofs.PassesRelabel

namespace Tsdate.C38
open Tsdate Tsdate.Order
set_option linter.unusedSectionVars false

section Spec
variable {β : Type} [Inhabited β]

/-- **Exactly the messages from the ignored set are dropped.**  Along any valid grouped order,
the value of every non-fixed node `c` after the pass is the normalised fold, from the start value,
of the messages of precisely those edges into `c` whose parent is *not* ignored, each message
computed from the parent's final value. -/
theorem ignore_root_spec (ops : PassOps β) (ign : Nat → Bool) (gs : List (List DEdge))
    (st : Array β) (hv : ValidGroups gs st.size) (g : List DEdge) (hg : g ∈ gs)
    (hskip : ops.skip (gkey g) = false) :
    aget (passGroups (withIgnore ops ign) st gs) (gkey g)
      = ops.finish (gkey g)
          ((g.filter (fun e => !ign e.src)).foldl
            (fun v e => ops.step e (aget (passGroups (withIgnore ops ign) st gs) e.src) v)
            (ops.init (gkey g))) := by
  rw [passGroups_char (withIgnore ops ign) gs st hv.ok hv.srcDone hv.inRange g hg hskip]
  unfold groupVal
  rw [withIgnore_fold]
  rfl

/-- **Renumbering invariance for any ignored set that is carried along by the renumbering.**
`π` renumbers the nodes `< n` (injective, into `< n`), `σ` the edge rows; `ops'`, `ign'`, `st'` are
the transported operations, ignored set and start state; `gs'` is ANY valid grouped order of the
renumbered edges (the iterators re-sort by time and id, so it is in general not the image of `gs`).
Then every node's result is unchanged. -/
theorem renumbering_invariant {α : Type} [LinearOrder α] (π σ : Nat → Nat) (n : Nat)
    (hinj : ∀ u v, u < n → v < n → π u = π v → u = v) (hlt : ∀ u, u < n → π u < n)
    (ops ops' : PassOps β) (hrel : OpsRelabel π σ n ops ops') (hcomm : StepComm ops')
    (ign ign' : Nat → Bool) (hign : ∀ u, u < n → ign' (π u) = ign u)
    (gs : List (List DEdge)) (hv : ValidGroups gs n)
    (hr : ∀ g ∈ gs, ∀ e ∈ g, e.src < n ∧ e.dst < n)
    (gs' : List (List DEdge)) (hv' : ValidGroups gs' n)
    (hperm : gs'.flatten.Perm (gs.map (List.map (relabelE π σ))).flatten)
    (time' : Nat → α) (hval' : ∀ e ∈ gs'.flatten, time' e.src < time' e.dst)
    (st st' : Array β) (hsz : st.size = n) (hsz' : st'.size = n)
    (hst : ∀ u, u < n → aget st' (π u) = aget st u) :
    ∀ u, u < n → aget (passGroups (withIgnore ops' ign') st' gs') (π u)
      = aget (passGroups (withIgnore ops ign) st gs) u := by
  intro u hu
  obtain ⟨rank, hrank⟩ := exists_rank time' gs'.flatten hval'
  have hv1 := validGroups_relabel π σ n hinj hlt gs hv hr
  rw [passGroups_perm (withIgnore ops' ign') (withIgnore_comm ops' ign' hcomm) gs'
    (gs.map (List.map (relabelE π σ))) st' (by rw [hsz']; exact hv') (by rw [hsz']; exact hv1)
    hperm rank hrank (π u)]
  exact passGroups_relabel π σ n hinj hlt _ _ (withIgnore_relabel π σ n ops ops' ign ign' hrel hign)
    gs hr st st' hsz hsz' hst u hu

/-- **The specified rule is renumbering invariant**: with the ignored set defined by time (the
roots of greatest input time) the result of the outside pass does not depend on the numbering. -/
theorem oldest_root_rule_invariant {α : Type} [LinearOrder α] (π σ : Nat → Nat) (n : Nat)
    (hinj : Function.Injective π) (hlt : ∀ u, u < n → π u < n)
    (ops ops' : PassOps β) (hrel : OpsRelabel π σ n ops ops') (hcomm : StepComm ops')
    (time time' : Nat → α) (roots roots' : List Nat) (htime : ∀ u, time' (π u) = time u)
    (hroots : ∀ v, v ∈ roots' ↔ v ∈ roots.map π)
    (gs : List (List DEdge)) (hv : ValidGroups gs n)
    (hr : ∀ g ∈ gs, ∀ e ∈ g, e.src < n ∧ e.dst < n)
    (gs' : List (List DEdge)) (hv' : ValidGroups gs' n)
    (hperm : gs'.flatten.Perm (gs.map (List.map (relabelE π σ))).flatten)
    (hval' : ∀ e ∈ gs'.flatten, time' e.src < time' e.dst)
    (st st' : Array β) (hsz : st.size = n) (hsz' : st'.size = n)
    (hst : ∀ u, u < n → aget st' (π u) = aget st u) :
    ∀ u, u < n →
      aget (passGroups (withIgnore ops' (ignOldest time' roots')) st' gs') (π u)
        = aget (passGroups (withIgnore ops (ignOldest time roots)) st gs) u :=
  renumbering_invariant π σ n (fun _ _ _ _ h => hinj h) hlt ops ops' hrel hcomm _ _
    (fun p _ => ignOldest_relabel π hinj time time' roots roots' htime hroots p)
    gs hv hr gs' hv' hperm time' hval' st st' hsz hsz' hst

end Spec

section Concrete
variable {α : Type} [Inhabited α] [Field α] [LinearOrder α] [IsStrictOrderedRing α]

/-- **The specified rule on the concrete model.**  The linear-space inside–outside computation that
the check runs against the real code (`insideOutside`, Model/Passes.lean), with the ignored set
defined by time (`ignOldest`: the roots of greatest input time), gives the same outside rows under
any renumbering of the nodes (`π`, with the node times and the root list carried along), any
renumbering of the edge rows (`σ`), and any valid traversal orders of the renumbered input. -/
theorem insideOutside_oldest_root_invariant (π σ : Nat → Nat) (n : Nat)
    (hinj : Function.Injective π) (hlt : ∀ u, u < n → π u < n)
    (d d' : GridData α) (h : DataRelabel π σ n d d')
    (rootfrac rootfrac' : Nat → α) (hrf : ∀ u, u < n → rootfrac' (π u) = rootfrac u)
    (time time' : Nat → α) (roots roots' : List Nat) (htime : ∀ u, time' (π u) = time u)
    (hroots : ∀ v, v ∈ roots' ↔ v ∈ roots.map π) (std : Bool)
    (insO outO insO' outO' : List DEdge)
    (hvi : ValidFlat insO n) (hvo : ValidFlat outO n)
    (hvi' : ValidFlat insO' n) (hvo' : ValidFlat outO' n)
    (hpi : insO'.Perm (insO.map (relabelE π σ))) (hpo : outO'.Perm (outO.map (relabelE π σ)))
    (hti : ∀ e ∈ insO', time' e.src < time' e.dst)
    (hto : ∀ e ∈ outO', time' e.dst < time' e.src) :
    ∀ u, u < n →
      aget (insideOutside d' n rootfrac' (ignOldest time' roots') std insO' outO').2 (π u)
        = aget (insideOutside d n rootfrac (ignOldest time roots) std insO outO).2 u :=
  insideOutside_renumber π σ n (fun _ _ _ _ hh => hinj hh) hlt d d' h rootfrac rootfrac' hrf _ _
    (fun p _ => ignOldest_relabel π hinj time time' roots roots' htime hroots p) std
    insO outO insO' outO' hvi hvo hvi' hvo' hpi hpo time' hti hto

end Concrete

/-- On inputs whose unique oldest root has the highest node id the code's rule *is* the specified
rule (why the repository's tests, which use msprime/tsinfer output, cannot see the defect). -/
theorem code_rule_agrees_when_last_is_oldest {α : Type} [LinearOrder α] (n : Nat)
    (time : Nat → α) (roots : List Nat) (hlast : n - 1 ∈ roots)
    (hold : ∀ r ∈ roots, r ≠ n - 1 → time r < time (n - 1)) (p : Nat) :
    ignCode n p = ignOldest time roots p :=
  ignCode_eq_ignOldest n time roots hlast hold p

/-! ### Finding F11: the code's rule is not renumbering invariant

One tree over the samples 0,1,2: `a = parent(0,1)`, `root = parent(a,2)`.
Input A numbers `a = 3, root = 4`; input B swaps the two ids (`root = 3, a = 4`); they are
isomorphic.  All span fractions are 1, so `value ** fraction` is the identity; grid of 2 points.
Edge rows (child, parent): A: 0:(0,3) 1:(1,3) 2:(2,4) 3:(3,4);  B: 0:(2,3) 1:(4,3) 2:(0,4) 3:(1,4)
(`tables.sort()` puts the edges of the younger parent first). -/

def cexData (aNode : Nat) (rowOf : Nat → Nat) : GridData Rat where
  G := 2
  fixed := fun u => decide (u < 3)
  prior := fun u => if u = aNode then [1, 2] else [1, 3]
  likLower := fun e t s => match rowOf e, t, s with
    | 3, 0, 0 => 1 | 3, 1, 0 => 2 | 3, 1, 1 => 3 | _, _, _ => 0
  likFixed := fun e t => match rowOf e, t with
    | 0, 0 => 1 | 0, 1 => 2 | 1, 0 => 2 | 1, 1 => 1 | 2, 0 => 1 | 2, 1 => 3 | _, _ => 0
  spanfrac := fun _ => 1
  pow := fun _ v => v

/-- input A: `a = 3`, `root = 4` -/
def dataA : GridData Rat := cexData 3 id
def insA : List DEdge := [⟨0, 3, 0⟩, ⟨1, 3, 1⟩, ⟨2, 4, 2⟩, ⟨3, 4, 3⟩]
def outA : List DEdge := [⟨4, 3, 3⟩, ⟨3, 0, 0⟩, ⟨3, 1, 1⟩, ⟨4, 2, 2⟩]
/-- input B: the same tree with `a = 4`, `root = 3`; B's edge row `e` is A's row `rowB e` -/
def rowB : Nat → Nat := fun e => match e with | 0 => 2 | 1 => 3 | 2 => 0 | 3 => 1 | e => e
def dataB : GridData Rat := cexData 4 rowB
def insB : List DEdge := [⟨0, 4, 2⟩, ⟨1, 4, 3⟩, ⟨2, 3, 0⟩, ⟨4, 3, 1⟩]
def outB : List DEdge := [⟨3, 4, 1⟩, ⟨3, 2, 0⟩, ⟨4, 0, 2⟩, ⟨4, 1, 3⟩]

def rootfracA : Nat → Rat := fun u => if u = 4 then 1 else 0
def rootfracB : Nat → Rat := fun u => if u = 3 then 1 else 0

/-- outside row of the internal node `a` under the code's rule, input A (root has the highest id:
its message is ignored) -/
def outsideA_code : List Rat := aget (insideOutside dataA 5 rootfracA (ignCode 5) false insA outA).2 3
/-- the same node in input B (now `a` itself has the highest id: nothing is ignored) -/
def outsideB_code : List Rat := aget (insideOutside dataB 5 rootfracB (ignCode 5) false insB outB).2 4

/-- **F11.**  Two isomorphic inputs, different result: the code ignores node id `num_nodes - 1`,
not the oldest root. -/
theorem code_rule_not_invariant : outsideA_code ≠ outsideB_code := by decide +kernel

/-- With the specified rule the two inputs agree (times: samples 0, `a` 1, root 2). -/
theorem spec_rule_agrees_on_witness :
    aget (insideOutside dataA 5 rootfracA
        (ignOldest (fun u => if u = 4 then (2 : Rat) else if u = 3 then 1 else 0) [4]) false insA outA).2 3
      = aget (insideOutside dataB 5 rootfracB
        (ignOldest (fun u => if u = 3 then (2 : Rat) else if u = 4 then 1 else 0) [3]) false insB outB).2 4 := by
  decide +kernel

/-- … and on input A, where the root has the highest id, code and specification coincide. -/
theorem code_eq_spec_on_A :
    outsideA_code = aget (insideOutside dataA 5 rootfracA
        (ignOldest (fun u => if u = 4 then (2 : Rat) else if u = 3 then 1 else 0) [4]) false insA outA).2 3 := by
  decide +kernel

/-! Non-vacuity of the positive theorems: the outside order of input A is a valid grouped order. -/
example : ValidGroups (runsBy (·.dst) outA) 5 := by
  refine ⟨⟨runsBy_ne_nil _ _, by decide⟩,
    fun g hg e he => by rw [gkey_eq]; exact runsBy_homog (·.dst) outA g hg e he, ?_, by decide⟩
  simp [runsBy, outA, SrcDone, ghead]

end Tsdate.C38
