/-
C10 — inside-outside is exact on a single tree (model: `Likelihoods` packing and
`BeliefPropagation.inside_pass / outside_pass` of tsdate/discrete.py, `Model/Discrete.lean`).

Part 1: the packed triangular representation.  For every grid size `G`: the lower and upper
packings are bijections between the triangle and `[0, G(G+1)/2)`, the `reduceat` row sums are the
row sums of the unpacked matrices, and the `row_indices` gather is the transpose.
Part 2: the inside pass (a fold over `groupby` groups that threads arrays) satisfies the order-free
recursive equations, in any probability space.
Part 3: on a single tree, in linear space, the returned marginal likelihood is the exhaustive sum
`Spec/BruteForce.bruteZ` over all assignments of grid indices to the non-sample nodes.
-/
import Mathlib.Algebra.Order.Field.Basic
import TsdateVerif.Proofs.DiscreteFinal

namespace Tsdate.C10
open Tsdate Tsdate.Discrete

/-- **The packings are bijections** between `{(n,t) | t ≤ n < G}` and `[0, G(G+1)/2)`:
`lowerIdx n t = n(n+1)/2 + t` (row-major lower triangle, used by `get_inside`) and
`upperIdx i j = col_indices[i] + (j - i)` (row-major upper triangle, used by `get_outside`) both
land inside the packed array and have two-sided inverses there. -/
theorem tri_bijection (G : Nat) :
    (∀ n t, t ≤ n → n < G → lowerIdx n t < triSize G ∧ unLower (lowerIdx n t) = (n, t)) ∧
    (∀ k, k < triSize G → (unLower k).2 ≤ (unLower k).1 ∧ (unLower k).1 < G ∧
        lowerIdx (unLower k).1 (unLower k).2 = k) ∧
    (∀ i j, i ≤ j → j < G → upperIdx G i j < triSize G ∧ unUpper G (upperIdx G i j) = (i, j)) ∧
    (∀ k, k < triSize G → (unUpper G k).1 ≤ (unUpper G k).2 ∧ (unUpper G k).2 < G ∧
        upperIdx G (unUpper G k).1 (unUpper G k).2 = k) :=
  ⟨fun n t ht hn => ⟨lowerIdx_lt G n t ht hn, unLower_lowerIdx n t ht⟩,
   fun k hk => ⟨(lowerIdx_unLower k).1, unLower_row_lt G k hk, (lowerIdx_unLower k).2⟩,
   fun i j hij hj => ⟨upperIdx_lt G i j hij hj, unUpper_upperIdx G i j hij hj⟩,
   fun k hk => upperIdx_unUpper G k hk⟩

/-- **`rowsum_lower_tri` after `make_lower_tri` is the lower-triangular matrix–vector product.**
For any probability space `o` (linear or logarithmic), any span fraction, child row and packed table
of the right size, entry `n` of `get_inside(scale_geometric(frac, make_lower_tri(v)), edge)` is the
reduction over `s ≤ n` of `combine (scale frac v[s]) L[n,s]`. -/
theorem rowsumLower_spec {α : Type} [Inhabited α] (o : Ops α) (G : Nat) (frac : α)
    (v lik : Array α) (hlik : lik.size = triSize G) :
    msgLower o G frac v lik
      = (List.range G).map (fun n => o.sum ((List.range (n + 1)).map
          (fun s => o.combine (o.scale frac (aget v s)) (aget lik (lowerIdx n s))))) :=
  msgLower_spec o G frac v lik hlik

/-- **`rowsum_upper_tri` after `make_upper_tri` is the transposed product.**  Entry `i` of
`get_outside(f(make_upper_tri(v)), edge)` is the reduction over `j = i … G-1` of
`combine (f v[j]) L[j,i]`: the *same* table entry `lowerIdx j i` that the inside pass pairs with
(parent time `j`, child time `i`). -/
theorem rowsumUpper_spec {α : Type} [Inhabited α] (o : Ops α) (G : Nat) (f : α → α)
    (v lik : Array α) :
    msgUpper o G ((gather v (toUpperTri G)).map f) lik
      = (List.range G).map (fun i => o.sum ((List.range' i (G - i)).map
          (fun j => o.combine (f (aget v j)) (aget lik (lowerIdx j i))))) :=
  msgUpper_spec o G f v lik

/-- **`concatenate(row_indices)` is the transpose permutation**: position `upperIdx i j` of the
upper-packed table reads position `lowerIdx j i` of the lower-packed one; the index arrays
`to_lower_tri`, `to_upper_tri` hold the column index of each packed position; all three have length
`G(G+1)/2`. -/
theorem upper_of_lower (G : Nat) :
    (∀ i j, i ≤ j → j < G → (upperPerm G)[upperIdx G i j]? = some (lowerIdx j i)) ∧
    (∀ n t, t ≤ n → n < G → (toLowerTri G)[lowerIdx n t]? = some t) ∧
    (∀ i j, i ≤ j → j < G → (toUpperTri G)[upperIdx G i j]? = some j) ∧
    (upperPerm G).length = triSize G ∧ (toLowerTri G).length = triSize G ∧
    (toUpperTri G).length = triSize G :=
  ⟨upperPerm_get G, toLowerTri_get G, toUpperTri_get G, upperPerm_length G, toLowerTri_length G,
   toUpperTri_length G⟩

/-! Non-vacuity: the index arrays of a 4-point grid are the ones numpy builds. -/
example : rowIndices 4 1 = [2, 4, 7] ∧ colIndices 4 = [0, 4, 7, 9] ∧
    toLowerTri 3 = [0, 0, 1, 0, 1, 2] ∧ toUpperTri 3 = [0, 1, 2, 1, 2, 2] ∧
    upperPerm 3 = [0, 1, 3, 2, 4, 5] := by decide

example : msgLower (linOps (fun _ v => v)) 3 (1 : Rat) #[1, 2, 3] #[1, 1, 1, 1, 1, 1] = [1, 3, 6] := by
  decide +kernel

/-! ## Part 2 — the inside pass satisfies the recursive equations -/

/-- **`inside_pass` computes the recursive matrix definition, for every child-before-parent edge
order** and every probability space.  For the model's final state and every non-fixed parent `u`
with edge group `g`: `denominator[u]` is `max(val)` (standardised) or the identity, and
`inside[u] = ratio(val, denominator[u])`, where `val = prior[u] ⊗ ⨂_{e ∈ g} message_e` and the messages are
computed from the *final* inside rows of the children.  The processing order no longer appears, so
any two orders satisfying `groupsOK` give the same result. -/
theorem inside_spec {α : Type} [Inhabited α] (o : Ops α) (inp : Input α) (std : Bool)
    (hok : groupsOK inp.fixed inp.numNodes (groupRuns (·.p) inp.edges) = true) :
    ∀ g ∈ groupRuns (·.p) inp.edges, aget inp.fixed g.1 = false →
      aget (insideLoop o inp std).denom g.1
        = (if std then o.maxl (groupVal o inp (insideLoop o inp std).inside g) else o.one) ∧
      aget (insideLoop o inp std).inside g.1
        = ((groupVal o inp (insideLoop o inp std).inside g).map
            (fun v => o.ratio v (aget (insideLoop o inp std).denom g.1))).toArray :=
  insideFold_spec o inp std _ (insideInit o inp) (by simp [insideInit])
    (by simpa [insideInit] using hok)

/-- Each message in `val` is the triangular matrix–vector product of Part 1 (non-fixed child, table
of the right size), so Part 2 is literally `inside[u][t] = prior[u][t] · Π_e Σ_{s ≤ t} inside[c_e][s] L_e[t,s] / d_u`
in linear space. -/
theorem inside_message_spec {α : Type} [Inhabited α] (o : Ops α) (inp : Input α)
    (inside : Array (Array α)) (e : DEdge) (hf : aget inp.fixed e.c = false)
    (hsz : (aget inp.lik e.id).size = triSize inp.G) :
    edgeMsg o inp inside e
      = (List.range inp.G).map (fun n => o.sum ((List.range (n + 1)).map
          (fun s => o.combine (o.scale (aget inp.frac e.id) (aget (aget inside e.c) s))
            (aget (aget inp.lik e.id) (lowerIdx n s))))) := by
  unfold edgeMsg
  rw [if_neg (by simp [hf])]
  exact msgLower_spec o inp.G _ _ _ hsz

/-! ## Part 3 — the marginal likelihood is the exact normaliser -/

section
variable {α : Type} [Field α] [LinearOrder α] [IsStrictOrderedRing α] [Inhabited α]

theorem linOps_isLin (pow : α → α → α) (hpow : ∀ v, pow 1 v = v) : IsLinOps (linOps pow) where
  one := rfl
  combine := fun _ _ => rfl
  ratio := fun _ _ => rfl
  sum := fun l => List.sum_eq_foldl.symm
  scale_one := hpow

/-- **`inside_marginal`: the likelihood returned by the inside pass is the exact normalising
constant of the discretised model.**  For every single-tree input (`singleTreeOK`: any shape incl.
polytomies, any grid size, any node numbering whose edge order puts children first), any priors and
likelihood tables, standardised or not, with all span fractions 1 (`v ** 1 = v`) and non-zero
denominators (the code asserts this in the outside pass):
`inside_pass(...)` = `Σ_x Π_u prior_u(x_u) · Π_e L_e(x_p, x_c)·[x_c ≤ x_p]`. -/
theorem inside_marginal (pow : α → α → α) (hpow : ∀ v, pow 1 v = v) (inp : Input α) (std : Bool)
    (hok : singleTreeOK inp = true)
    (hfrac : ∀ e ∈ inp.edges, aget inp.frac e.id = 1)
    (hroots : inp.roots = [(rootOf inp, 1)])
    (hd : ∀ g ∈ groupRuns (·.p) inp.edges, aget (insidePass (linOps pow) inp std).1.denom g.1 ≠ 0) :
    (insidePass (linOps pow) inp std).2 = bruteZ inp.toTreeModel :=
  inside_marginal_lin (linOps pow) (linOps_isLin pow hpow) inp std hok hfrac hroots hd

end

/-! Non-vacuity: a three-leaf tree ((0,1)3,2)4 on a 2-point grid, tskit edge order. -/

def exampleInput : Input Rat where
  G := 2
  numNodes := 5
  fixed := #[true, true, true, false, false]
  edges := [⟨0, 3, 0⟩, ⟨1, 3, 1⟩, ⟨2, 4, 2⟩, ⟨3, 4, 3⟩]
  frac := #[1, 1, 1, 1]
  lik := #[#[1, 2], #[1, 3], #[2, 1], #[1, 2, 3]]
  prior := #[#[], #[], #[], #[1, 1], #[0, 1]]
  roots := [(4, 1)]

example : singleTreeOK exampleInput = true ∧ rootOf exampleInput = 4 ∧
    groupRuns (·.p) exampleInput.edges
      = [(3, [⟨0, 3, 0⟩, ⟨1, 3, 1⟩]), (4, [⟨2, 4, 2⟩, ⟨3, 4, 3⟩])] := by decide +kernel

/-- the brute-force normaliser of the example (4 assignments, 1 excluded by the prior, 0 by order) -/
example : bruteZ exampleInput.toTreeModel = 20 := by decide +kernel

end Tsdate.C10
