/-
C10 — inside-outside is exact on a single tree (model: `Likelihoods` packing and
`BeliefPropagation.inside_pass / outside_pass` of tsdate/discrete.py, `Model/Discrete.lean`).

Part 1 (this section): the packed triangular representation.  For every grid size `G`:
the lower and upper packings are bijections between the triangle and `[0, G(G+1)/2)`, the
`reduceat` row sums are the row sums of the unpacked matrices, and the `row_indices` gather is
the transpose.
-/
import TsdateVerif.Proofs.DiscreteRows

namespace Tsdate.C10
open Tsdate Tsdate.Discrete

/-- **The packings are bijections** between `{(n,t) | t ≤ n < G}` and `[0, G(G+1)/2)`:
`lowerIdx n t = n(n+1)/2 + t` (row-major lower triangle, used by `get_inside`) and
`upperIdx i j = col_indices[i] + (j - i)` (row-major upper triangle, used by `get_outside`) both
land inside the packed array and have two-sided inverses there. -/
theorem tri_bijection (G : Nat) :
    (∀ n t, t ≤ n → n < G → lowerIdx n t < triSize G ∧ unLower (lowerIdx n t) = (n, t)) ∧
    (∀ k, k < triSize G → (unLower k).2 ≤ (unLower k).1 ∧ (unLower k).1 < G ∧
        lowerIdx (unLower k).1 (unLower k).2 = k) ∧
    (∀ i j, i ≤ j → j < G → upperIdx G i j < triSize G ∧ unUpper G (upperIdx G i j) = (i, j)) ∧
    (∀ k, k < triSize G → (unUpper G k).1 ≤ (unUpper G k).2 ∧ (unUpper G k).2 < G ∧
        upperIdx G (unUpper G k).1 (unUpper G k).2 = k) :=
  ⟨fun n t ht hn => ⟨lowerIdx_lt G n t ht hn, unLower_lowerIdx n t ht⟩,
   fun k hk => ⟨(lowerIdx_unLower k).1, unLower_row_lt G k hk, (lowerIdx_unLower k).2⟩,
   fun i j hij hj => ⟨upperIdx_lt G i j hij hj, unUpper_upperIdx G i j hij hj⟩,
   fun k hk => upperIdx_unUpper G k hk⟩

/-- **`rowsum_lower_tri` after `make_lower_tri` is the lower-triangular matrix–vector product.**
For any probability space `o` (linear or logarithmic), any span fraction, child row and packed table
of the right size, entry `n` of `get_inside(scale_geometric(frac, make_lower_tri(v)), edge)` is the
reduction over `s ≤ n` of `combine (scale frac v[s]) L[n,s]`. -/
theorem rowsumLower_spec {α : Type} [Inhabited α] (o : Ops α) (G : Nat) (frac : α)
    (v lik : Array α) (hlik : lik.size = triSize G) :
    msgLower o G frac v lik
      = (List.range G).map (fun n => o.sum ((List.range (n + 1)).map
          (fun s => o.combine (o.scale frac (aget v s)) (aget lik (lowerIdx n s))))) :=
  msgLower_spec o G frac v lik hlik

/-- **`rowsum_upper_tri` after `make_upper_tri` is the transposed product.**  Entry `i` of
`get_outside(f(make_upper_tri(v)), edge)` is the reduction over `j = i … G-1` of
`combine (f v[j]) L[j,i]`: the *same* table entry `lowerIdx j i` that the inside pass pairs with
(parent time `j`, child time `i`). -/
theorem rowsumUpper_spec {α : Type} [Inhabited α] (o : Ops α) (G : Nat) (f : α → α)
    (v lik : Array α) :
    msgUpper o G ((gather v (toUpperTri G)).map f) lik
      = (List.range G).map (fun i => o.sum ((List.range' i (G - i)).map
          (fun j => o.combine (f (aget v j)) (aget lik (lowerIdx j i))))) :=
  msgUpper_spec o G f v lik

/-- **`concatenate(row_indices)` is the transpose permutation**: position `upperIdx i j` of the
upper-packed table reads position `lowerIdx j i` of the lower-packed one; the index arrays
`to_lower_tri`, `to_upper_tri` hold the column index of each packed position; all three have length
`G(G+1)/2`. -/
theorem upper_of_lower (G : Nat) :
    (∀ i j, i ≤ j → j < G → (upperPerm G)[upperIdx G i j]? = some (lowerIdx j i)) ∧
    (∀ n t, t ≤ n → n < G → (toLowerTri G)[lowerIdx n t]? = some t) ∧
    (∀ i j, i ≤ j → j < G → (toUpperTri G)[upperIdx G i j]? = some j) ∧
    (upperPerm G).length = triSize G ∧ (toLowerTri G).length = triSize G ∧
    (toUpperTri G).length = triSize G :=
  ⟨upperPerm_get G, toLowerTri_get G, toUpperTri_get G, upperPerm_length G, toLowerTri_length G,
   toUpperTri_length G⟩

/-! Non-vacuity: the index arrays of a 4-point grid are the ones numpy builds. -/
example : rowIndices 4 1 = [2, 4, 7] ∧ colIndices 4 = [0, 4, 7, 9] ∧
    toLowerTri 3 = [0, 0, 1, 0, 1, 2] ∧ toUpperTri 3 = [0, 1, 2, 1, 2, 2] ∧
    upperPerm 3 = [0, 1, 3, 2, 4, 5] := by decide

example : msgLower (linOps (fun _ v => v)) 3 (1 : Rat) #[1, 2, 3] #[1, 1, 1, 1, 1, 1] = [1, 3, 6] := by
  decide +kernel

end Tsdate.C10
