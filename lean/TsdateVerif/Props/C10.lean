/-
C10 — inside-outside is exact on a single tree (model: `Likelihoods` packing and
`BeliefPropagation.inside_pass / outside_pass` of tsdate/discrete.py, `Model/Discrete.lean`).

Part 1: the packed triangular representation.  For every grid size `G`: the lower and upper
packings are bijections between the triangle and `[0, G(G+1)/2)`, the `reduceat` row sums are the
row sums of the unpacked matrices, and the `row_indices` gather is the transpose.
Part 2: the inside pass (a fold over `groupby` groups that threads arrays) satisfies the order-free
recursive equations, in any probability space.
Part 3: on a single tree, in linear space, the returned marginal likelihood is the exhaustive sum
`Spec/BruteForce.bruteZ` over all assignments of grid indices to the non-sample nodes.
Part 4: `posterior_exact` — inside × outside of every non-sample node is a non-zero multiple of the
exhaustive marginal `Spec/BruteForce.bruteMarginal` (hence equal after normalisation), with or
without standardisation in either pass; transfer to log space through C12's homomorphism.
Part 5: the post-processing of `core.py` (`standardize` on columns `1:`, `to_probabilities`)
normalises the row when the maximum over columns `1:` is non-zero, and does NOT when all posterior
mass sits at the first timepoint (defect, reproduced on the real code: `inside_outside` raises
`TSK_ERR_TIME_NONFINITE`).
-/
import Mathlib.Algebra.Order.Field.Basic
import TsdateVerif.Proofs.DiscreteFinal
import TsdateVerif.Proofs.DiscretePostExact
import TsdateVerif.Proofs.DiscreteHomPass
import TsdateVerif.Proofs.DiscreteNonneg
import TsdateVerif.Proofs.DiscreteMutPrior

namespace Tsdate.C10
open Tsdate Tsdate.Discrete


/-! ## Part 0 — which mutations enter the likelihood tables (`Likelihoods.get_mut_edges`) -/

section
variable {β : Type} [LE β] [LT β] [DecidableLE β] [DecidableLT β]

/-- **`get_mut_edges` counts on every edge exactly the mutations that lie on it**: entry `i` is the number
of mutations whose node is the child of edge `i` at the mutation's position (the model recomputes
`mutation.edge` from the edge table). -/
theorem mutEdges_spec (n : Nat) (es : List (SpanEdge β)) (muts : List (β × Nat)) (i : Nat) (hi : i < n) :
    aget (mutEdges n es muts) i
      = (muts.filter (fun m => decide (edgeOfMut es m.1 m.2 = some i))).length :=
  mutEdges_get n es muts i hi

/-- **A mutation above a root is counted nowhere.**  If no edge has the mutation's node as its child at
the mutation's position (`mutation.edge == tskit.NULL`: every sample below carries the derived allele),
the counts of all edges are what they are without that mutation — in particular it is *not* added to
the last edge row (index `-1`). -/
theorem root_mutation_counts_nowhere (n : Nat) (es : List (SpanEdge β)) (pos : β) (node : Nat)
    (ms : List (β × Nat))
    (h : ∀ e ∈ es, ¬ (e.c = node ∧ e.left ≤ pos ∧ pos < e.right)) :
    mutEdges n es ((pos, node) :: ms) = mutEdges n es ms :=
  mutEdges_skip_null n es (pos, node) ms (edgeOfMut_none es pos node h)

end

/-! Non-vacuity: tree ((0,1)3,2)4 on [0,10): two mutations above node 3, one above the root 4 (counted
nowhere), one above sample 2. -/
example : mutEdges 4 [⟨0, 0, 10, 3, 0⟩, ⟨1, 0, 10, 3, 1⟩, ⟨2, 0, 10, 4, 2⟩, ⟨3, 0, 10, 4, 3⟩]
    [((1 : Nat), 3), (2, 4), (5, 3), (7, 2)] = #[0, 0, 1, 2] := by decide

/-- **The packings are bijections** between `{(n,t) | t ≤ n < G}` and `[0, G(G+1)/2)`:
`lowerIdx n t = n(n+1)/2 + t` (row-major lower triangle, used by `get_inside`) and
`upperIdx i j = col_indices[i] + (j - i)` (row-major upper triangle, used by `get_outside`) both
land inside the packed array and have two-sided inverses there. -/
theorem tri_bijection (G : Nat) :
    (∀ n t, t ≤ n → n < G → lowerIdx n t < triSize G ∧ unLower (lowerIdx n t) = (n, t)) ∧
    (∀ k, k < triSize G → (unLower k).2 ≤ (unLower k).1 ∧ (unLower k).1 < G ∧
        lowerIdx (unLower k).1 (unLower k).2 = k) ∧
    (∀ i j, i ≤ j → j < G → upperIdx G i j < triSize G ∧ unUpper G (upperIdx G i j) = (i, j)) ∧
    (∀ k, k < triSize G → (unUpper G k).1 ≤ (unUpper G k).2 ∧ (unUpper G k).2 < G ∧
        upperIdx G (unUpper G k).1 (unUpper G k).2 = k) :=
  ⟨fun n t ht hn => ⟨lowerIdx_lt G n t ht hn, unLower_lowerIdx n t ht⟩,
   fun k hk => ⟨(lowerIdx_unLower k).1, unLower_row_lt G k hk, (lowerIdx_unLower k).2⟩,
   fun i j hij hj => ⟨upperIdx_lt G i j hij hj, unUpper_upperIdx G i j hij hj⟩,
   fun k hk => upperIdx_unUpper G k hk⟩

/-- **`rowsum_lower_tri` after `make_lower_tri` is the lower-triangular matrix–vector product.**
For any probability space `o` (linear or logarithmic), any span fraction, child row and packed table
of the right size, entry `n` of `get_inside(scale_geometric(frac, make_lower_tri(v)), edge)` is the
reduction over `s ≤ n` of `combine (scale frac v[s]) L[n,s]`. -/
theorem rowsumLower_spec {α : Type} [Inhabited α] (o : Ops α) (G : Nat) (frac : α)
    (v lik : Array α) (hlik : lik.size = triSize G) :
    msgLower o G frac v lik
      = (List.range G).map (fun n => o.sum ((List.range (n + 1)).map
          (fun s => o.combine (o.scale frac (aget v s)) (aget lik (lowerIdx n s))))) :=
  msgLower_spec o G frac v lik hlik

/-- **`rowsum_upper_tri` after `make_upper_tri` is the transposed product.**  Entry `i` of
`get_outside(f(make_upper_tri(v)), edge)` is the reduction over `j = i … G-1` of
`combine (f v[j]) L[j,i]`: the *same* table entry `lowerIdx j i` that the inside pass pairs with
(parent time `j`, child time `i`). -/
theorem rowsumUpper_spec {α : Type} [Inhabited α] (o : Ops α) (G : Nat) (f : α → α)
    (v lik : Array α) :
    msgUpper o G ((gather v (toUpperTri G)).map f) lik
      = (List.range G).map (fun i => o.sum ((List.range' i (G - i)).map
          (fun j => o.combine (f (aget v j)) (aget lik (lowerIdx j i))))) :=
  msgUpper_spec o G f v lik

/-- **`concatenate(row_indices)` is the transpose permutation**: position `upperIdx i j` of the
upper-packed table reads position `lowerIdx j i` of the lower-packed one; the index arrays
`to_lower_tri`, `to_upper_tri` hold the column index of each packed position; all three have length
`G(G+1)/2`. -/
theorem upper_of_lower (G : Nat) :
    (∀ i j, i ≤ j → j < G → (upperPerm G)[upperIdx G i j]? = some (lowerIdx j i)) ∧
    (∀ n t, t ≤ n → n < G → (toLowerTri G)[lowerIdx n t]? = some t) ∧
    (∀ i j, i ≤ j → j < G → (toUpperTri G)[upperIdx G i j]? = some j) ∧
    (upperPerm G).length = triSize G ∧ (toLowerTri G).length = triSize G ∧
    (toUpperTri G).length = triSize G :=
  ⟨upperPerm_get G, toLowerTri_get G, toUpperTri_get G, upperPerm_length G, toLowerTri_length G,
   toUpperTri_length G⟩

/-! Non-vacuity: the index arrays of a 4-point grid are the ones numpy builds. -/
example : rowIndices 4 1 = [2, 4, 7] ∧ colIndices 4 = [0, 4, 7, 9] ∧
    toLowerTri 3 = [0, 0, 1, 0, 1, 2] ∧ toUpperTri 3 = [0, 1, 2, 1, 2, 2] ∧
    upperPerm 3 = [0, 1, 3, 2, 4, 5] := by decide

example : msgLower (linOps (fun _ v => v)) 3 (1 : Rat) #[1, 2, 3] #[1, 1, 1, 1, 1, 1] = [1, 3, 6] := by
  decide +kernel

/-! ## Part 2 — the inside pass satisfies the recursive equations -/

/-- **`inside_pass` computes the recursive matrix definition, for every child-before-parent edge
order** and every probability space.  For the model's final state and every non-fixed parent `u`
with edge group `g`: `denominator[u]` is `max(val)` (standardised) or the identity, and
`inside[u] = ratio(val, denominator[u])`, where `val = prior[u] ⊗ ⨂_{e ∈ g} message_e` and the messages are
computed from the *final* inside rows of the children.  The processing order no longer appears, so
any two orders satisfying `groupsOK` give the same result. -/
theorem inside_spec {α : Type} [Inhabited α] (o : Ops α) (inp : Input α) (std : Bool)
    (hok : groupsOK inp.fixed inp.numNodes (groupRuns (·.p) inp.edges) = true) :
    ∀ g ∈ groupRuns (·.p) inp.edges, aget inp.fixed g.1 = false →
      aget (insideLoop o inp std).denom g.1
        = (if std then o.maxl (groupVal o inp (insideLoop o inp std).inside g) else o.one) ∧
      aget (insideLoop o inp std).inside g.1
        = ((groupVal o inp (insideLoop o inp std).inside g).map
            (fun v => o.ratio v (aget (insideLoop o inp std).denom g.1))).toArray :=
  insideFold_spec o inp std _ (insideInit o inp) (by simp [insideInit])
    (by simpa [insideInit] using hok)

/-- Each message in `val` is the triangular matrix–vector product of Part 1 (non-fixed child, table
of the right size), so Part 2 is literally `inside[u][t] = prior[u][t] · Π_e Σ_{s ≤ t} inside[c_e][s] L_e[t,s] / d_u`
in linear space. -/
theorem inside_message_spec {α : Type} [Inhabited α] (o : Ops α) (inp : Input α)
    (inside : Array (Array α)) (e : DEdge) (hf : aget inp.fixed e.c = false)
    (hsz : (aget inp.lik e.id).size = triSize inp.G) :
    edgeMsg o inp inside e
      = (List.range inp.G).map (fun n => o.sum ((List.range (n + 1)).map
          (fun s => o.combine (o.scale (aget inp.frac e.id) (aget (aget inside e.c) s))
            (aget (aget inp.lik e.id) (lowerIdx n s))))) := by
  unfold edgeMsg
  rw [if_neg (by simp [hf])]
  exact msgLower_spec o inp.G _ _ _ hsz

/-! ## Part 3 — the marginal likelihood is the exact normaliser -/

section
variable {α : Type} [Field α] [LinearOrder α] [IsStrictOrderedRing α] [Inhabited α]

theorem linOps_isLin (pow : α → α → α) (hpow : ∀ v, pow 1 v = v) : IsLinOps (linOps pow) where
  one := rfl
  combine := fun _ _ => rfl
  ratio := fun _ _ => rfl
  sum := fun l => List.sum_eq_foldl.symm
  scale_one := hpow

/-- **`inside_marginal`: the likelihood returned by the inside pass is the exact normalising
constant of the discretised model.**  For every single-tree input (`singleTreeOK`: any shape incl.
polytomies, any grid size, any node numbering whose edge order puts children first), any priors and
likelihood tables, standardised or not, with all span fractions 1 (`v ** 1 = v`) and non-zero
denominators (the code asserts this in the outside pass):
`inside_pass(...)` = `Σ_x Π_u prior_u(x_u) · Π_e L_e(x_p, x_c)·[x_c ≤ x_p]`. -/
theorem inside_marginal (pow : α → α → α) (hpow : ∀ v, pow 1 v = v) (inp : Input α) (std : Bool)
    (hok : singleTreeOK inp = true)
    (hfrac : ∀ e ∈ inp.edges, aget inp.frac e.id = 1)
    (hroots : inp.roots = [(rootOf inp, 1)])
    (hd : ∀ g ∈ groupRuns (·.p) inp.edges, aget (insidePass (linOps pow) inp std).1.denom g.1 ≠ 0) :
    (insidePass (linOps pow) inp std).2 = bruteZ inp.toTreeModel :=
  inside_marginal_lin (linOps pow) (linOps_isLin pow hpow) inp std hok hfrac hroots hd

end

/-! Non-vacuity: a three-leaf tree ((0,1)3,2)4 on a 2-point grid, tskit edge order. -/

def exampleInput : Input Rat where
  G := 2
  numNodes := 5
  fixed := #[true, true, true, false, false]
  edges := [⟨0, 3, 0⟩, ⟨1, 3, 1⟩, ⟨2, 4, 2⟩, ⟨3, 4, 3⟩]
  frac := #[1, 1, 1, 1]
  lik := #[#[1, 2], #[1, 3], #[2, 1], #[1, 2, 3]]
  prior := #[#[], #[], #[], #[1, 1], #[0, 1]]
  roots := [(4, 1)]

example : singleTreeOK exampleInput = true ∧ rootOf exampleInput = 4 ∧
    groupRuns (·.p) exampleInput.edges
      = [(3, [⟨0, 3, 0⟩, ⟨1, 3, 1⟩]), (4, [⟨2, 4, 2⟩, ⟨3, 4, 3⟩])] := by decide +kernel

/-- the brute-force normaliser of the example (4 assignments, 1 excluded by the prior, 0 by order) -/
example : bruteZ exampleInput.toTreeModel = 20 := by decide +kernel

/-! ## Part 4 — the posterior is exact -/

section
variable {α : Type} [Field α] [LinearOrder α] [IsStrictOrderedRing α] [Inhabited α]

theorem linOps_isLinOut (pow : α → α → α) (hpow : ∀ v, pow 1 v = v) : IsLinOpsOut (linOps pow) where
  toIsLinOps := linOps_isLin pow hpow
  ratio0_ne := fun x y hy => by
    show (if (x == 0 && y == 0) = true then 0 else x / y) = x / y
    rw [if_neg (by simp [hy])]
  ofLin_one := rfl

/-- **`posterior_exact`: inside × outside is the exact marginal, up to a non-zero constant per node.**
For every single-tree input (`singleTreeOK`, any shape incl. polytomies, any grid size), every
parents-first outside order made of single-edge groups (`outsideOK`; `edges_by_child_desc` on a tree),
all span fractions 1, any priors and likelihood tables with non-negative inside rows and tables,
inside standardised or not, outside standardised or not (with non-zero denominators and
standardisers — otherwise the real code produces `nan`):
for every non-sample node `v` there is `κ ≠ 0` with
`inside[v][t] · outside[v][t] = κ · Σ_{x : x_v = t} Π_u prior_u(x_u) Π_e L_e(x_p, x_c)[x_c ≤ x_p]` for all `t < G`.
The `0/0 := 0` convention of `ratio(..., div_0_null=True)` is *not* assumed to be anything in
particular where the divisor vanishes: the proof shows those terms contribute 0 to the posterior
(a vanishing message forces `inside[child][s] · L[a,s] = 0` by non-negativity). -/
theorem posterior_exact (pow : α → α → α) (hpow : ∀ v, pow 1 v = v) (inp : Input α)
    (stdIn stdOut : Bool) (order : List DEdge) (zero : α)
    (hok : singleTreeOK inp = true) (hoo : outsideOK inp order = true)
    (hfrac : ∀ e ∈ inp.edges, aget inp.frac e.id = 1)
    (hroots : inp.roots = [(rootOf inp, 1)])
    (hd : ∀ g ∈ groupRuns (·.p) inp.edges, aget (insidePass (linOps pow) inp stdIn).1.denom g.1 ≠ 0)
    (hInn : ∀ g ∈ groupRuns (·.p) inp.edges, ∀ b, b < inp.G →
      0 ≤ aget (aget (insidePass (linOps pow) inp stdIn).1.inside g.1) b)
    (hLnn : ∀ e ∈ inp.edges, ∀ a b, a < inp.G → b ≤ a → 0 ≤ inp.toTreeModel.lik e a b)
    (hnorm : stdOut = true → ∀ e ∈ inp.edges, aget inp.fixed e.c = false →
      (linOps pow).maxl ((gather (List.zipWith (linOps pow).combine
          (aget (outsidePass (linOps pow) inp (insidePass (linOps pow) inp stdIn).1 stdOut false order zero) e.p).toList
          (List.zipWith (linOps pow).ratio0 (aget (insidePass (linOps pow) inp stdIn).1.inside e.p).toList
            ((edgeMsg (linOps pow) inp (insidePass (linOps pow) inp stdIn).1.inside e).map
              (fun v => (linOps pow).ratio v (aget (insidePass (linOps pow) inp stdIn).1.denom e.c))))).toArray
          (toUpperTri inp.G)).map ((linOps pow).scale (aget inp.frac e.id))) ≠ 0 ∧
      (linOps pow).maxl (outVal (linOps pow) inp (insidePass (linOps pow) inp stdIn).1 stdOut false
        (outsidePass (linOps pow) inp (insidePass (linOps pow) inp stdIn).1 stdOut false order zero)
        (e.c, [e])) ≠ 0) :
    ∀ g ∈ groupRuns (·.p) inp.edges, ∃ κ : α, κ ≠ 0 ∧ ∀ t, t < inp.G →
      aget (aget (insidePass (linOps pow) inp stdIn).1.inside g.1) t
        * aget (aget (outsidePass (linOps pow) inp (insidePass (linOps pow) inp stdIn).1 stdOut false
            order zero) g.1) t
      = κ * bruteMarginal inp.toTreeModel g.1 t :=
  posterior_exact_lin (linOps pow) (linOps_isLinOut pow hpow) inp stdIn stdOut order zero hok hoo hfrac
    hroots hd hInn hLnn hnorm



/-- **The non-negativity hypothesis of `posterior_exact` follows from the inputs**: with non-negative
prior rows and likelihood tables and positive denominators, every inside row is non-negative. -/
theorem inside_rows_nonneg (pow : α → α → α) (hpow : ∀ v, pow 1 v = v) (inp : Input α) (std : Bool)
    (hok : singleTreeOK inp = true)
    (hfrac : ∀ e ∈ inp.edges, aget inp.frac e.id = 1)
    (hd : ∀ g ∈ groupRuns (·.p) inp.edges, 0 < aget (insidePass (linOps pow) inp std).1.denom g.1)
    (hp : ∀ g ∈ groupRuns (·.p) inp.edges, ∀ t, t < inp.G → 0 ≤ inp.toTreeModel.prior g.1 t)
    (hLnn : ∀ e ∈ inp.edges, ∀ a b, a < inp.G → b ≤ a → 0 ≤ inp.toTreeModel.lik e a b) :
    ∀ g ∈ groupRuns (·.p) inp.edges, ∀ b, b < inp.G →
      0 ≤ aget (aget (insidePass (linOps pow) inp std).1.inside g.1) b := by
  obtain ⟨_, _, hflat, hedge, tree, _, _⟩ :=
    single_tree_facts (linOps pow) (linOps_isLin pow hpow) inp std hok hfrac
      (fun g hg => ne_of_gt (hd g hg))
  exact inside_nonneg inp.G _ _ _ _ _ _ tree hd hp (by rw [hflat]; exact hLnn)
    (by
      intro e he
      rw [hflat] at he
      by_cases hf : aget inp.fixed e.c = true
      · exact Or.inl hf
      · exact Or.inr (hedge e he (by simpa using hf)).2)

/-- **Both probability spaces.**  Let `ol` be any operation record carried to `linOps pow` by `E`
(C12: `logOps` with `E = exp`).  Running the passes with `ol` on `inp` and mapping the results through
`E` gives, for every non-sample node, a non-zero multiple of the exact marginal of the `E`-image of
the input, and `E` of the returned likelihood is the exact normaliser — i.e. the log-space posterior
and `exp` of the log-space likelihood are exact as well.  Hypotheses: those of `posterior_exact` /
`inside_marginal` on the image input, and the guards of C12's `pass_log_eq_lin` on the linear run. -/
theorem posterior_exact_hom {β : Type} [Inhabited β] (ol : Ops β) (E F : β → α) (Pn : α → Prop)
    (pow : α → α → α) (hpow : ∀ v, pow 1 v = v) (h : OpsHom ol (linOps pow) E F Pn)
    (hE : E default = default) (hF : F default = default)
    (inp : Input β) (stdIn stdOut : Bool) (order : List DEdge) (zL : β) (zN : α)
    (hz : E (ol.ofLin zL) = (linOps pow).ofLin zN)
    (hr : ∀ r ∈ inp.roots, E (ol.ofLin r.2) = (linOps pow).ofLin (F r.2) ∧ Pn (F r.2))
    (hgi : insideGuards Pn (linOps pow) (inp.mapE E F) stdIn (groupRuns (·.p) inp.edges)
      ((insideInit ol inp).mapE E))
    (hgo : outsideGuards Pn (linOps pow) (inp.mapE E F) ((insidePass ol inp stdIn).1.mapE E) stdOut false
      (groupRuns (·.c) order) (outsideInit (linOps pow) (inp.mapE E F) zN))
    (hlin : ∀ g ∈ groupRuns (·.p) inp.edges, ∃ κ : α, κ ≠ 0 ∧ ∀ t, t < inp.G →
      aget (aget (insidePass (linOps pow) (inp.mapE E F) stdIn).1.inside g.1) t
        * aget (aget (outsidePass (linOps pow) (inp.mapE E F)
            (insidePass (linOps pow) (inp.mapE E F) stdIn).1 stdOut false order zN) g.1) t
      = κ * bruteMarginal (inp.mapE E F).toTreeModel g.1 t)
    (hZ : (insidePass (linOps pow) (inp.mapE E F) stdIn).2 = bruteZ (inp.mapE E F).toTreeModel) :
    (∀ g ∈ groupRuns (·.p) inp.edges, ∃ κ : α, κ ≠ 0 ∧ ∀ t, t < inp.G →
      E (aget (aget (insidePass ol inp stdIn).1.inside g.1) t)
        * E (aget (aget (outsidePass ol inp (insidePass ol inp stdIn).1 stdOut false order zL) g.1) t)
      = κ * bruteMarginal (inp.mapE E F).toTreeModel g.1 t) ∧
    E (insidePass ol inp stdIn).2 = bruteZ (inp.mapE E F).toTreeModel := by
  obtain ⟨h1, h2, h3⟩ := pass_hom h hE hF inp stdIn stdOut false order zL zN hz hr hgi hgo
  refine ⟨?_, h2.trans hZ⟩
  intro g hg
  obtain ⟨κ, hκ, hk⟩ := hlin g hg
  refine ⟨κ, hκ, fun t ht => ?_⟩
  rw [← hk t ht, ← h3, ← h1]
  show _ = aget (aget ((insidePass ol inp stdIn).1.inside.map (fun r : Array β => r.map E)) g.1) t * _
  rw [aget_map_rows, aget_map E hE, aget_map_rows, aget_map E hE]

/-- Consequently the normalised posterior is the exact marginal posterior: a row proportional to
the marginals normalises to the normalised marginals. -/
theorem posterior_normalised (G : Nat) (P M : Nat → α) (κ : α) (hκ : κ ≠ 0)
    (h : ∀ t, t < G → P t = κ * M t) (t : Nat) (ht : t < G) :
    P t / sumR G P = M t / sumR G M := by
  have hs : sumR G P = κ * sumR G M := by
    rw [← sumR_mul_left]; exact sumR_congr G _ _ h
  rw [h t ht, hs, mul_div_mul_left _ _ hκ]

end

/-! ## Part 5 — the post-processing in `core.py` -/

section
variable {α : Type} [Field α] [Inhabited α]

/-- **`standardize()` then `to_probabilities()` normalises the row** whenever the maximum taken over
columns `1:` (`grid_data[:, 1:].max`) is non-zero. -/
theorem posteriorProbs_eq_normalise (o : Ops α) (ho : IsLinOps o) (row : List α)
    (hm : o.maxl (row.drop 1) ≠ 0) : posteriorProbs o (id : α → α) row = normalise row := by
  unfold posteriorProbs normalise
  simp only [List.map_map, lsum_eq_sum]
  have hdiv : ∀ (l : List α) (m : α), (l.map (fun v => v / m)).sum = l.sum / m := by
    intro l m
    induction l with
    | nil => simp
    | cons y ys ih => simp only [List.map_cons, List.sum_cons, add_div, ih]
  have hsum : ((row.map ((id : α → α) ∘ fun v => o.ratio v (o.maxl (row.drop 1)))).sum)
      = row.sum / o.maxl (row.drop 1) := by
    rw [← hdiv]
    congr 1
    apply List.map_congr_left
    intro v _
    simp only [Function.comp, id, ho.ratio]
  rw [hsum]
  apply List.map_congr_left
  intro v _
  simp only [Function.comp, id, ho.ratio]
  rw [div_div_div_cancel_right₀ hm]


end

section
variable {α : Type} [Field α] [LinearOrder α] [IsStrictOrderedRing α] [Inhabited α]

/-- **`fit.node_posteriors()` is the exact marginal posterior.**  Chain of `posterior_exact`,
`posteriorProbs_eq_normalise` and `posterior_normalised`: the row the model returns for node `v` after
`posterior_grid = inside × outside`, `standardize()`, `to_probabilities()` equals
`bruteMarginal v t / Σ_s bruteMarginal v s`, provided the maximum over columns `1:` is non-zero (the
defect F-C10-a is exactly the failure of this proviso). -/
theorem node_posteriors_exact (o : Ops α) (ho : IsLinOps o) (G : Nat) (ins out : Array α)
    (hins : ins.size = G) (hout : out.size = G) (M : Nat → α) (κ : α) (hκ : κ ≠ 0)
    (hprop : ∀ t, t < G → aget ins t * aget out t = κ * M t)
    (hmax : o.maxl ((List.zipWith o.combine ins.toList out.toList).drop 1) ≠ 0) (t : Nat) (ht : t < G) :
    (posteriorProbs o (id : α → α) (List.zipWith o.combine ins.toList out.toList)).getD t default
      = M t / sumR G M := by
  rw [posteriorProbs_eq_normalise o ho _ hmax]
  set row := List.zipWith o.combine ins.toList out.toList with hrow
  have hlen : row.length = G := by simp [hrow, hins, hout]
  have hrt : ∀ s, s < G → row.getD s default = aget ins s * aget out s := by
    intro s hs
    rw [hrow, getD_zipWith _ _ _ _ (by simp [hins]; exact hs) (by simp [hout]; exact hs), ho.combine,
      getD_toList, getD_toList]
  unfold normalise
  rw [getD_map' _ _ _ (by rw [hlen]; exact ht), lsum_eq_sum, sum_eq_sumR row, hlen]
  exact posterior_normalised G (fun s => row.getD s default) M κ hκ
    (fun s hs => by rw [hrt s hs]; exact hprop s hs) t ht

end

/-- **Defect witness (F-C10-a).**  If all posterior mass is at the first timepoint, the maximum over
columns `1:` is 0 and the post-processing does not return the normalised row (in exact arithmetic
with `x/0 = 0` it returns all zeros; in IEEE arithmetic `nan`, after which `inside_outside` raises
`TSK_ERR_TIME_NONFINITE`).  The exact posterior `[1, 0, 0]` is a legitimate answer: the normaliser is
positive. -/
theorem standardize_loses_point_mass_at_first_timepoint :
    posteriorProbs (linOps (fun (_ : Rat) v => v)) (id : Rat → Rat) [1, 0, 0] = [0, 0, 0] ∧
    normalise ([1, 0, 0] : List Rat) = [1, 0, 0] := by
  constructor <;> decide +kernel

/-! Non-vacuity of `posterior_exact`: the structural hypotheses on the example tree with the real
`edges_by_child_desc` order, and the exact marginals it talks about. -/
example : outsideOK exampleInput [⟨3, 4, 3⟩, ⟨2, 4, 2⟩, ⟨0, 3, 0⟩, ⟨1, 3, 1⟩] = true := by decide +kernel

example : (List.range 2).map (bruteMarginal exampleInput.toTreeModel 3) = [2, 18] ∧
    (List.range 2).map (bruteMarginal exampleInput.toTreeModel 4) = [0, 20] := by decide +kernel

end Tsdate.C10
