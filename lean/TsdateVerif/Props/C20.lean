/-
C20 — EP is exact in the conjugate (star) case
(model: `Model/EP.lean` of `tsdate/variational.py` specialised to star inputs, with the `t_j == 0` path of
`approx.rootward_projection` hand-modelled as `rootwardT0`, and `_damp`, `_rescale` as `damp`, `rescale`; all three
are compared with the real functions bit-for-bit / to rounding by the check).

Star input (`StarNet`): no singleton blocks; every edge joins a non-fixed parent to a fixed child of age 0.
`likSum net p E = (Σ y, Σ μ·span)` over the edges whose parent is `p`; the gamma posterior with these natural
parameters has shape `1 + Σ y` and rate `μ·Σ span`.

Uncapped clause: proved for all star inputs, edge orders, iteration counts, damping (`C20_uncapped`).
Capped clause ("both natural parameters are scaled by one factor"): FALSE of the code — finding F9 — see
`C20_capped_counterexample` / `C20_capped_statement_false`.
-/
import TsdateVerif.Proofs.EPStarStep
import TsdateVerif.Proofs.EPGen
import TsdateVerif.Proofs.EPGenStar

namespace Tsdate.C20
open Tsdate Tsdate.EP
set_option linter.unusedSectionVars false

variable {α : Type} [Inhabited α] [Field α] [LinearOrder α] [IsStrictOrderedRing α]

/-- **One conjugate update**: with cavity `(a, b)` and damped likelihood `δ·(y, μ)` the projection at child age 0
returns `(a + δy, b + δμ)` (whenever the resulting gamma is proper; otherwise the real code skips). -/
theorem star_update (cav lik : α × α) (δ : α) (hs : 0 < cav.1 + 1 + δ * lik.1) (hr : 0 < δ * lik.2 + cav.2) :
    rootwardT0 cav (dampLik δ lik) = some (cav.1 + δ * lik.1, cav.2 + δ * lik.2) :=
  rootwardT0_conj cav (dampLik δ lik) hs hr

/-- The same for the kernel **regenerated from the current source** (`Gen/Kernels.rootward_projection`, rewritten
by the translator on every run): at child age 0 it returns `(a + δy, b + δμ)` and does not skip.  (`hfin`: every
number is finite, as in exact arithmetic.) -/
theorem star_update_generated (F : Tsdate.Kernels.SpecFns α) (hfin : ∀ v, F.isFinite v = true)
    (cav lik : α × α) (δ : α) (hs : 0 < cav.1 + 1 + δ * lik.1) (hr : 0 < δ * lik.2 + cav.2) :
    (Tsdate.Gen.Kernels.rootward_projection F ((0 : Nat) : α) cav (dampLik δ lik)).2 =
        (cav.1 + δ * lik.1, cav.2 + δ * lik.2) ∧
      (Tsdate.Gen.Kernels.rootward_projection F ((0 : Nat) : α) cav (dampLik δ lik)).1.isNone = false := by
  obtain ⟨h1, h2⟩ := gen_rootward_t0 F hfin cav (dampLik δ lik)
  have h3 := star_update cav lik δ hs hr
  rw [h3] at h1 h2
  refine ⟨h1, ?_⟩
  cases h : (Tsdate.Gen.Kernels.rootward_projection F ((0 : Nat) : α) cav (dampLik δ lik)).1.isNone
  · rfl
  · exact absurd (h2.1 h) (by simp)

/-- The hand-written `damp`, `rescale` and conjugate projection used in the star theorems are the regenerated
kernels `_damp`, `_rescale`, `rootward_projection(0, ·, ·)`. -/
theorem model_is_generated (F : Tsdate.Kernels.SpecFns α) (hfin : ∀ v, F.isFinite v = true) :
    (∀ x y s, Tsdate.Gen.Kernels._damp F x y s = damp x y s) ∧
    (∀ x s, Tsdate.Gen.Kernels._rescale F x s = rescale x s) ∧
    (∀ cav lik, (Tsdate.Gen.Kernels.rootward_projection F ((0 : Nat) : α) cav lik).2 =
      (rootwardT0 cav lik).getD cav) :=
  ⟨gen_damp_eq F, gen_rescale_eq F, fun cav lik => (gen_rootward_t0 F hfin cav lik).1⟩

/-- First visit of an edge whose parent has posterior `x` (zero, or proper with shape ≥ 1): `_damp` returns 1,
the projection returns `x + (y, μ)` and the new message is `(y, μ)`. -/
theorem star_first_visit (x lik : α × α) (minStep : α) (hs0 : 0 < minStep) (hs1 : minStep < 1)
    (hx : x = 0 ∨ (0 ≤ x.1 ∧ 0 < x.2)) (hy : 0 ≤ lik.1) (hmu : 0 < lik.2) :
    damp x (message (0 : α × α) 1) minStep = 1 ∧
      (rootwardT0 (cavity x (message (0 : α × α) 1) 1) (dampLik 1 lik)).getD
          (cavity x (message (0 : α × α) 1) 1) = x + lik ∧
      newFactor (0 : α × α) 1 (x + lik) (cavity x (message (0 : α × α) 1) 1) 1 = lik :=
  star_update_fresh x lik minStep hs0 hs1 hx hy hmu

/-- Revisit of an edge whose message already is `(y, μ)`: for **any** damping `δ` the projection returns the
posterior unchanged and the message stays `(y, μ)`. -/
theorem star_revisit (x lik : α × α) (δ : α) (hx1 : 0 ≤ x.1) (hx2 : 0 < x.2) :
    (rootwardT0 (cavity x (message lik 1) δ) (dampLik δ lik)).getD (cavity x (message lik 1) δ) = x ∧
      newFactor lik δ x (cavity x (message lik 1) δ) 1 = lik :=
  star_update_again x lik δ hx1 hx2

/-- **Star invariant** (uncapped): a sweep over any edge order keeps all scales at 1, leaves every message either
0 or equal to its edge's `(y, μ·span)`, makes it equal to `(y, μ·span)` for every edge of the order, and keeps
posterior = Σ messages — whatever damping `_damp` applies. -/
theorem star_invariant (other : Req α → Res α) (cfg : Cfg α) (net : Net α) (N : Nat) (V : Nat → Prop)
    (order : List Nat) (s : State α) (hnet : StarNet net N) (hcfg : StarCfg cfg)
    (hcap : ∀ p, p < N → 1 + (likSum net p net.ep.size).1 ≤ cfg.maxShape)
    (h : StarInv net s N V) (hord : ∀ i ∈ order, i < net.ep.size) :
    StarInv net (sweep (starProj other) cfg net false order s) N (fun k => k ∈ order ∨ V k) :=
  star_sweep other cfg net N V order s hnet hcfg hcap h hord

/-- **C20, uncapped clause.**  For every star input, every edge order that contains every edge (tsdate's
`edges[:-1] ++ reversed(edges)` does), every `0 < min_step < 1`, every number `k+1 ≥ 1` of iterations, without
root regularisation: if `1 + Σ y ≤ max_shape` at every parent, then every node `p` ends with natural parameters
exactly `(Σ y, Σ μ·span)` over its child edges, i.e. the gamma posterior with shape `1 + Σ y` and rate `μ·Σ span`. -/
theorem C20_uncapped (other : Req α → Res α) (cfg : Cfg α) (net : Net α) (sch : Sched α) (N : Nat)
    (hnet : StarNet net N) (hcfg : StarCfg cfg) (hsch : StarSched net sch)
    (hall : ∀ i, i < net.ep.size → i ∈ sch.edgeOrder)
    (hcap : ∀ p, p < N → 1 + (likSum net p net.ep.size).1 ≤ cfg.maxShape) (k : Nat) (p : Nat) (hp : p < N) :
    aget (iterateN (starProj other) cfg net sch (k + 1) (initState N net.ep.size net.bj.size)).post p =
      likSum net p net.ep.size := by
  have h := star_iterateN other cfg net sch N hnet hcfg hsch hcap k
  rw [star_post net _ N _ hnet h p hp]
  obtain ⟨_, _, _, _, h5⟩ := starRows_sum net N hnet _ _ h.rows p net.ep.size le_rfl
  exact h5 (fun i hi _ => (h.rows i hi).2.2 (hall i hi))

/-- **C20, uncapped clause, for the projection kernels of the current source.**  The same closed form for the EP
model whose projection oracle is `genProj F`: the dispatch of `propagate_likelihood` over the wrappers regenerated
from `tsdate/approx.py` on every run (`Gen/Kernels.lean`), for every interpretation `F` of exp/log/sqrt/lgamma under
which all numbers are finite (`hfin`; exact arithmetic has no overflow). -/
theorem C20_uncapped_current_source (F : Tsdate.Kernels.SpecFns α) (hfin : ∀ v, F.isFinite v = true)
    (cfg : Cfg α) (net : Net α) (sch : Sched α) (N : Nat)
    (hnet : StarNet net N) (hcfg : StarCfg cfg) (hsch : StarSched net sch)
    (hall : ∀ i, i < net.ep.size → i ∈ sch.edgeOrder)
    (hcap : ∀ p, p < N → 1 + (likSum net p net.ep.size).1 ≤ cfg.maxShape) (k : Nat) (p : Nat) (hp : p < N) :
    aget (iterateN (genProj F) cfg net sch (k + 1) (initState N net.ep.size net.bj.size)).post p =
      likSum net p net.ep.size := by
  have h := C20_uncapped (genProj F) cfg net sch N hnet hcfg hsch hall hcap k p hp
  rw [starProj_genProj F hfin] at h
  exact h

/-- In the uncapped star case all scales are 1 after every iteration (nothing was ever capped). -/
theorem C20_uncapped_scales (other : Req α → Res α) (cfg : Cfg α) (net : Net α) (sch : Sched α) (N : Nat)
    (hnet : StarNet net N) (hcfg : StarCfg cfg) (hsch : StarSched net sch)
    (hcap : ∀ p, p < N → 1 + (likSum net p net.ep.size).1 ≤ cfg.maxShape) (k : Nat) (n : Nat) (hn : n < N) :
    aget (iterateN (starProj other) cfg net sch (k + 1) (initState N net.ep.size net.bj.size)).scale n = 1 :=
  (star_iterateN other cfg net sch N hnet hcfg hsch hcap k).scale1 n hn

/-! ### The capped clause is false of the code (finding F9)

One parent (node 2) over two samples, counts `(2, 1)`, `μ·span = 1` on both edges, `max_shape = 2`,
`min_step = 1/10`, tsdate's edge order `[0] ++ [1, 0]`, one iteration, exact rational arithmetic. -/

def cexNet : Net Rat :=
  { fixed := #[true, true, false], lower := #[0, 0, 0], ep := #[2, 2], ec := #[0, 1], bj := #[], bk := #[],
    elik := #[(2, 1), (1, 1)], blik := #[] }

def cexSched : Sched Rat :=
  { blockOrder := [], edgeOrder := [0, 1, 0], regularise := false, free := #[false, false, true],
    cnt := 1, reltol := 1 / 100000000, maxitt := 10 }

def cexCfg : Cfg Rat := { maxShape := 2, minStep := 1 / 10, tiny := 1 / 1000000 }

def cexOther (rq : Req Rat) : Res Rat := ⟨rq.cavP, rq.cavC⟩

/-- The counterexample is a star input in the sense of the theorems above, and it is capped (`1 + Σy = 4 > 2`). -/
theorem cex_is_star : StarNet cexNet 3 ∧ StarCfg cexCfg ∧ StarSched cexNet cexSched ∧
    (∀ i, i < cexNet.ep.size → i ∈ cexSched.edgeOrder) ∧ likSum cexNet 2 2 = (3, 2) := by
  refine ⟨⟨by decide, by decide, by decide, by decide, by decide, by decide +kernel, by decide +kernel⟩,
    ⟨by decide +kernel, by decide +kernel, by decide +kernel, by decide +kernel⟩,
    ⟨rfl, rfl, by decide⟩, by decide, by decide +kernel⟩

/-- What the algorithm computes on it: natural parameters `(1, 3/5)` — shape 2 = `max_shape`, rate 3/5. -/
theorem cex_value :
    aget (iterateN (starProj cexOther) cexCfg cexNet cexSched 1 (initState 3 2 0)).post 2 = (1, 3 / 5) := by
  decide +kernel

/-- **Finding F9**: the capped posterior is *not* `(Σy, Σμ) = (3, 2)` scaled by one factor (that would be
`(1, 2/3)`): there is no `η` with `(1, 3/5) = (3η, 2η)`. -/
theorem C20_capped_counterexample :
    ¬ ∃ η : Rat,
      aget (iterateN (starProj cexOther) cexCfg cexNet cexSched 1 (initState 3 2 0)).post 2 =
        (η * (likSum cexNet 2 2).1, η * (likSum cexNet 2 2).2) := by
  rw [cex_value, cex_is_star.2.2.2.2]
  rintro ⟨η, h⟩
  have h1 : (1 : Rat) = η * 3 := congrArg Prod.fst h
  have h2 : (3 / 5 : Rat) = η * 2 := congrArg Prod.snd h
  linarith

/-- The capped clause of C20 as a statement about the model (over ℚ). -/
def C20_capped_statement : Prop :=
  ∀ (other : Req Rat → Res Rat) (cfg : Cfg Rat) (net : Net Rat) (sch : Sched Rat) (N : Nat),
    StarNet net N → StarCfg cfg → StarSched net sch → (∀ i, i < net.ep.size → i ∈ sch.edgeOrder) →
    ∀ (k p : Nat), p < N → cfg.maxShape < 1 + (likSum net p net.ep.size).1 →
      ∃ η : Rat,
        aget (iterateN (starProj other) cfg net sch (k + 1) (initState N net.ep.size net.bj.size)).post p =
          (η * (likSum net p net.ep.size).1, η * (likSum net p net.ep.size).2)

/-- The capped clause does not hold for the algorithm as written. -/
theorem C20_capped_statement_false : ¬ C20_capped_statement := by
  intro h
  obtain ⟨h1, h2, h3, h4, h5⟩ := cex_is_star
  have := h cexOther cexCfg cexNet cexSched 3 h1 h2 h3 h4 0 2 (by decide)
    (by show cexCfg.maxShape < 1 + (likSum cexNet 2 2).1; rw [h5]; decide +kernel)
  exact C20_capped_counterexample this

/-! Non-vacuity of the uncapped theorem: the same tree with `max_shape = 10` satisfies every hypothesis of
`C20_uncapped`, and the model indeed returns `(3, 2)` (shape 4 = 1 + 3 mutations, rate 2). -/
def okCfg : Cfg Rat := { maxShape := 10, minStep := 1 / 10, tiny := 1 / 1000000 }

example : StarCfg okCfg ∧ (∀ p, p < 3 → 1 + (likSum cexNet p cexNet.ep.size).1 ≤ okCfg.maxShape) := by
  refine ⟨⟨by decide +kernel, by decide +kernel, by decide +kernel, by decide +kernel⟩, ?_⟩
  decide +kernel

example : aget (iterateN (starProj cexOther) okCfg cexNet cexSched 3 (initState 3 2 0)).post 2 = (3, 2) := by
  decide +kernel

end Tsdate.C20
