/-
C07 — rescaling genome coordinates and mutation rate together leaves dates unchanged.

Statement (properties.jsonl): multiply every genomic coordinate (sequence length, edge endpoints, site
positions) by c > 0 and divide the mutation rate by c.  Output node times, mutation times and posterior
moments are then unchanged, up to floating-point tolerance, for every method.

Second grading of the degree discipline: spans have coordinate degree +1, the mutation rate −1, so every
product `μ·span` and every span *ratio* has degree 0.  Theorems: exact arithmetic, every c ≠ 0 (c > 0
where positions are compared), models of `Model/Scale.lean` run against the real code in stage B.
-/
import TsdateVerif.Proofs.ScaleDiscrete
import TsdateVerif.Proofs.ScaleCount
import TsdateVerif.Proofs.ScaleSpans

namespace Tsdate.C07
open Tsdate Tsdate.Scale
set_option linter.unusedSectionVars false
set_option linter.unusedVariables false

variable {α : Type} [Field α] [LinearOrder α] [IsStrictOrderedRing α]

/-- **Likelihood argument** (`Likelihoods._lik`): `Δt·(μ/c)·(c·span) = Δt·μ·span` for every time
difference, so the Poisson table of an edge is unchanged whatever the pmf. -/
theorem lik_arg_invariant {β : Type} (pmf : Nat → α → β) (c : α) (hc : c ≠ 0) (muts : Nat)
    (dts : List α) (mu span : α) :
    likTable pmf muts dts (mu / c) (c * span) = likTable pmf muts dts mu span := by
  simp only [likTable, likArgs_coord_invariant c hc]

/-- **Mutational target sizes of the variational method** (`edge_likelihoods[:,1] *= mutation_rate`,
variational.py 293-296): `(c·span)·(μ/c) = span·μ` on every edge; mutation counts untouched. -/
theorem edge_likelihoods_invariant (c : α) (hc : c ≠ 0) (stats : List (α × α)) (mu : α) :
    edgeLikelihoods (stats.map (fun s => (s.1, c * s.2))) (mu / c) = edgeLikelihoods stats mu := by
  simp only [edgeLikelihoods, List.map_map]
  apply List.map_congr_left
  intro s _
  simp only [Function.comp]
  congr 1
  field_simp

/-- **C07 for `variational_gamma`**, given that `count_mutations` returns the same counts and spans
`c` times larger (its sweep only *compares* positions; checked against the real function in stage B and
by the oracle): every function of the edge likelihoods — the whole EP fit, rescaling and constraint —
returns the same value. -/
theorem C07_vgamma {Out : Type} (ep : List (α × α) → Out) (c : α) (hc : c ≠ 0)
    (stats : List (α × α)) (mu : α) :
    ep (edgeLikelihoods (stats.map (fun s => (s.1, c * s.2))) (mu / c)) = ep (edgeLikelihoods stats mu) := by
  rw [edge_likelihoods_invariant c hc]

/-- **`_count_mutations` (plain variant) under a change of genome unit**, from the committed correctness
theorem of the sweep (`CountMut.countWith_correct`, C24): on valid tables (`Static`: tskit's index and
geometry invariants, no node with two parents at one position) and a valid mutation table, with every
coordinate (edge ends, sequence length, site positions) multiplied by `c > 0` the kernel still returns
normally, maps every mutation to the same edge, counts the same mutations on every edge and returns every
span multiplied by `c` — the hypothesis of `C07_vgamma`.  The sweep only compares positions. -/
theorem count_mutations_span_scaled [Inhabited α] (c : α) (hc : 0 < c) (T : Tsdate.Sweep.Tables α)
    (M : Tsdate.CountMut.Muts α) (mask : Array Bool) (order : List Nat) (time : Nat → α)
    (hS : Tsdate.CountMut.Static T mask.size false time) (hsz : M.pos.size = M.node.size)
    (hM : Tsdate.CountMut.MutsValid M mask.size order) :
    ∃ s s', Tsdate.CountMut.countWith T M mask false order = some s ∧
      Tsdate.CountMut.countWith (scaleTables c T) (scaleMuts c M) mask false order = some s' ∧
      s.err = false ∧ s'.err = false ∧
      (∀ m, m < M.node.size → aget s'.mutEdge m = aget s.mutEdge m) ∧
      (∀ e, e < T.numEdges → aget s'.edgeMuts e = aget s.edgeMuts e ∧
        aget s'.edgeSpan e = c * aget s.edgeSpan e) :=
  countMutations_coord c hc T M mask order time hS hsz hM

/-- **Span fractions** (`edge.span / self.spans[edge.child]`, root-span fractions): node spans scale with
the coordinates, fractions do not change. -/
theorem span_fractions_invariant (c : α) (hc : c ≠ 0) (es : List (Nat × Nat × α)) (rs : List (Nat × α))
    (u : Nat) (span : α) :
    spanFrac (c * span) (nodeSpan (es.map (fun e => (e.1, e.2.1, c * e.2.2))) (rs.map (fun r => (r.1, c * r.2))) u)
      = spanFrac span (nodeSpan es rs u) := by
  rw [nodeSpan_scaleCoord, spanFrac_invariant c hc]

/-- **Span-weighted mixture prior** (`mixture_expect_and_var`, prior.py 359-394): mean and variance of
the mixture depend on span ratios only. -/
theorem mixture_prior_invariant (c : α) (hc : c ≠ 0) (means vars weights : List α) :
    mixtureMeanVar means vars (smul c weights) = mixtureMeanVar means vars weights :=
  mixtureMeanVar_invariant c hc means vars weights

/-- **Second pass of `SpansBySamples`** (prior.py, unary nodes above the topmost coalescence, `allow_unary=True`):
a skipped unary node borrows `tree.span · (v / node_spans[n]) / 2` for every span entry `v` of its first dated
ancestor `n`, plus `tree.span / 2` for the local tree.  With every coordinate multiplied by `c` (entries and node
spans of the table before the pass, the span of every visited tree) every entry of the table after the pass is
multiplied by `c` — the borrowed weights are span *fractions* times a span — for any sequence of visits. -/
theorem second_pass_spans_scaled (c two : α) (hc : c ≠ 0) (nodeSpans : List α)
    (st : List (Nat × List ((Nat × Nat) × α))) (visits : List (Visit α)) :
    secondPass two (smul c nodeSpans) (scaleTable c st) (visits.map (scaleVisit c))
      = scaleTable c (secondPass two nodeSpans st visits) :=
  secondPass_scale c two hc nodeSpans st visits

/-- **…hence the mixture prior of every node after the second pass is unchanged**: whatever the
conditional-coalescent mean and variance attached to an entry `(total tips, descendant tips)` are, the
span-weighted mixture mean and variance of node `u` are the same at both coordinate scales. -/
theorem second_pass_weights_invariant (c two : α) (hc : c ≠ 0) (meanOf varOf : Nat × Nat → α)
    (nodeSpans : List α) (st : List (Nat × List ((Nat × Nat) × α))) (visits : List (Visit α)) (u : Nat) :
    mixtureKeyed meanOf varOf
        (spansOf (secondPass two (smul c nodeSpans) (scaleTable c st) (visits.map (scaleVisit c))) u)
      = mixtureKeyed meanOf varOf (spansOf (secondPass two nodeSpans st visits) u) := by
  rw [secondPass_scale c two hc, spansOf_scale, mixtureKeyed_scale c hc]

/-- **The whole unit-carrying view of a discrete run is unchanged**: time grid, prior rows, both
likelihood tables of every edge, span fractions, root fractions, maximization Poisson values. -/
theorem discrete_view_invariant {β : Type} (two c : α) (hc : c ≠ 0) (pmf : Nat → α → β)
    (cdfs : List (α → α)) (inp : DiscreteIn α) :
    (discreteView two pmf cdfs (inp.scaleCoord c)).grid = (discreteView two pmf cdfs inp).grid ∧
    (discreteView two pmf cdfs (inp.scaleCoord c)).free = (discreteView two pmf cdfs inp).free :=
  ⟨rfl, viewOf_coord c hc pmf cdfs _ _ _ _ _ _⟩

/-- **C07 for `inside_outside`**: identical posterior means and variances, whatever the inside/outside
passes compute from the view. -/
theorem C07_discrete {β : Type} (two c : α) (hc : c ≠ 0) (pmf : Nat → α → β) (cdfs : List (α → α))
    (core : DiscreteFree α β → List (List α)) (inp : DiscreteIn α) :
    insideOutsideOut core (discreteView two pmf cdfs (inp.scaleCoord c))
      = insideOutsideOut core (discreteView two pmf cdfs inp) := by
  obtain ⟨hg, hf⟩ := discrete_view_invariant two c hc pmf cdfs inp
  simp only [insideOutsideOut, hf, hg]

/-- **C07 for `maximization`**. -/
theorem C07_maximization {β : Type} (two c : α) (hc : c ≠ 0) (pmf : Nat → α → β) (cdfs : List (α → α))
    (core : DiscreteFree α β → List Nat) (inp : DiscreteIn α) :
    maximizationOut core (discreteView two pmf cdfs (inp.scaleCoord c))
      = maximizationOut core (discreteView two pmf cdfs inp) := by
  obtain ⟨hg, hf⟩ := discrete_view_invariant two c hc pmf cdfs inp
  simp only [maximizationOut, hf, hg]

/-- **The full statement of C07** for a dating function of (coordinate-carrying input): the outputs are
equal.  Proved above for the modelled pieces; checked on `tsdate.date` by the oracle of stage C. -/
def C07_statement {I O : Type} (scaleIn : α → I → I) (date : I → O) : Prop :=
  ∀ c : α, 0 < c → ∀ inp : I, date (scaleIn c inp) = date inp

/-! ### non-vacuity -/

example : edgeLikelihoods [((2 : Rat), 100), (0, 50)] 3 = [(2, 300), (0, 150)] := by decide +kernel
example : nodeSpan [(1, 4, (10 : Rat)), (0, 4, 5), (2, 5, 7)] [(4, 3)] 4 = 18 := by decide +kernel
example : nodeSpan [(1, 4, (40 : Rat)), (0, 4, 20), (2, 5, 28)] [(4, 12)] 4 = 4 * 18 := by decide +kernel

-- the demo shape of seeded change C07-a: node 7 (no spans yet) borrows from node 8, coalescent with 3 of 4
-- tips over a span of 4, in a tree of span 6 with 4 tips of which 4 are below node 7
example : secondPass (2 : Rat) [0, 0, 0, 0, 0, 0, 0, 0, 4] [(8, [((4, 3), 4)])] [⟨7, 8, 6, 4, 4⟩]
    = [(8, [((4, 3), 4)]), (7, [((4, 3), 3), ((4, 4), 3)])] := by decide +kernel
example : secondPass (2 : Rat) [0, 0, 0, 0, 0, 0, 0, 0, 40] [(8, [((4, 3), 40)])] [⟨7, 8, 60, 4, 4⟩]
    = [(8, [((4, 3), 40)]), (7, [((4, 3), 30), ((4, 4), 30)])] := by decide +kernel

end Tsdate.C07
