/-
C24 — per-edge mutation, span and singleton-block tallies are exact.

Model: `CountMut.countMutations` (the numba kernel `tsdate.rescaling._count_mutations`, an instance of
the shared two-pointer sweep `Sweep.sweep`; `count_mutations(ts, node_is_sample, size_biased)` feeds it
tskit's edge table, insertion/removal indexes, mutation nodes and site positions) and
`CountMut.tally`/`spanColumn` (`tsdate.util.mutation_span_array`).

`Above T M m e` ("edge `e` is the edge above mutation `m`") unfolds to
`e < num_edges ∧ child e = node m ∧ left e ≤ position m ∧ position m < right e`.

Hypotheses are the executable checks of the models, evaluated by the harness on every input:
`validB` (both tskit indexes are permutations of the edge ids sorted by left/right coordinate, and
`0 ≤ left < right ≤ L`), `noOverlapB` (edges with the same child do not overlap: a node has at most
one parent at each position), `nodesBelowB` / `mutsOkB` (node ids below `num_nodes`, mutation
positions `≥ 0`), and for the size-biased variant `timesOkB` (every edge's parent strictly older than
its child) and `partitionB` (the break points used to state the span integral).  Numbers range over an arbitrary linearly ordered field (exact arithmetic); the
Float instance of the same definitions is compared bit-for-bit with numba by the harness.

What is proved: the plain tally in full (every mutation on the edge above its node at its position,
none above roots; per-edge counts; spans `right - left`; independence of the sample mask and of the
order in which mutations at the same position are visited; agreement with `mutation_span_array`), and
the size-biased variant in full (`count_sizebiased_spec`: `mutations_edge`; each mutation weighted by
the number of `mask` nodes at or below its node in the local tree at its position; each unit of span
weighted by the number of `mask` nodes below the edge's child in that local tree — for whatever mask is
passed, i.e. the custom sample-set clause; the walk towards the root never reaches an impossible
state).  The singleton blocks (`phasing._block_singletons`) are NOT covered by a theorem here (other
cluster); the harness checks them against a naive per-tree tally.
-/
import TsdateVerif.Proofs.CountMutMain
import TsdateVerif.Model.Blocks

namespace Tsdate.C24
open Tsdate Tsdate.Sweep Tsdate.CountMut
set_option linter.unusedSectionVars false

variable {α : Type} [Inhabited α] [Field α] [LinearOrder α] [IsStrictOrderedRing α]

/-- **The plain tally is exact** (`count_plain_spec` + `span_plain` of the design).  On valid tables
`_count_mutations(size_biased=False)` terminates without reaching an impossible state and
* `mutations_edge[m] = e` exactly when `e` is the edge whose child is the mutation's node and which
  covers the mutation's position — so it is `NULL` exactly when there is no such edge (mutation above
  a root, on an isolated node, in a gap, beyond the last edge);
* `edges_mutations[e]` is the number of mutations whose edge is `e`;
* `edges_span[e] = right[e] - left[e]`. -/
theorem count_plain_spec (T : Tables α) (M : Muts α) (isSample : Array Bool)
    (hV : validB T = true) (hO : noOverlapB T = true)
    (hN : nodesBelowB T isSample.size = true) (hM : mutsOkB M isSample.size = true) :
    ∃ s, countMutations T M isSample false = some s ∧ s.err = false ∧
      (∀ m, m < M.node.size → ∀ e, aget s.mutEdge m = some e ↔ Above T M m e) ∧
      (∀ e, e < T.numEdges →
        aget s.edgeMuts e =
          (((List.range M.node.size).countP fun m => decide (Above T M m e) : Nat) : α) ∧
        aget s.edgeSpan e = T.r e - T.l e) := by
  obtain ⟨s, hs, _, herr, h1, h2, h3⟩ := countWith_correct T M isSample false (argsort M) _ []
    (static_plain T _ hV hO hN) (argsort_valid M _ hM)
  refine ⟨s, hs, herr, h1, fun e he => ⟨?_, h3 rfl e he⟩⟩
  rw [h2 e he]
  simp only [wt, Bool.false_eq_true, if_false]
  exact sum_indicator _ _

/-- **The frequency-weighted tally is exact, for whatever sample set is passed**
(`count_sizebiased_spec`).  With `size_biased=True` and any mask `node_is_sample` (the default one or a
custom one), on valid tables whose node times make every parent older than its child:
* the kernel terminates and the walk towards the root never reaches an impossible state
  (`err = false`: it neither runs out of its `N + 1` steps nor meets a parent without an edge);
* `mutations_edge` is the same exact map as in the plain variant;
* `edges_mutations[e]` is the sum, over the mutations whose edge is `e`, of the number of `mask` nodes
  at or below the mutation's node in the local tree at the mutation's position
  (`samplesBelow T mask pos u`: nodes `v` with `mask[v]` from which `u` is reached by following the
  parent pointers of the tree at `pos`);
* `edges_span[e]` is the integral over the edge of the number of `mask` nodes at or below the edge's
  child in the local tree: for **any** list of break points `bs` (increasing, from `0`, containing `L`
  and every edge end point — e.g. tskit's tree breakpoints) it is
  `Σ_i Wspec(e, bs_i) * (bs_{i+1} - bs_i)` with `Wspec(e, a) = samplesBelow T mask a (child e)` if the
  edge covers `a` and `0` otherwise (`integ f [b0,…,bk] = Σ f(b_i) * (b_{i+1} - b_i)`). -/
theorem count_sizebiased_spec (T : Tables α) (M : Muts α) (mask : Array Bool) (times : Array α)
    (bs : List α)
    (hV : validB T = true) (hO : noOverlapB T = true)
    (hN : nodesBelowB T mask.size = true) (hM : mutsOkB M mask.size = true)
    (hT : timesOkB T times = true) (hP : partitionB T bs = true) :
    ∃ s, countMutations T M mask true = some s ∧ s.err = false ∧
      (∀ m, m < M.node.size → ∀ e, aget s.mutEdge m = some e ↔ Above T M m e) ∧
      (∀ e, e < T.numEdges →
        aget s.edgeMuts e =
          ((List.range M.node.size).map fun m =>
            if Above T M m e then (samplesBelow T mask (aget M.pos m) (aget M.node m) : α) else 0).sum ∧
        aget s.edgeSpan e = integ (Wspec T mask e) bs) := by
  obtain ⟨s, hs, hsp, herr, h1, h2, _⟩ := countWith_correct T M mask true (argsort M) _ bs
    (static_sized T _ true times hV hO hN hT) (argsort_valid M _ hM)
  refine ⟨s, hs, herr, h1, fun e he => ⟨?_, hsp rfl (partition_of_B T bs hP) e he⟩⟩
  rw [h2 e he]
  simp only [wt, if_true]

/-- **`mutations_edge` is the same exact map in both variants** (and for any sample mask): the
frequency weighting changes weights, never which edge a mutation is counted on. -/
theorem mutations_edge_spec (T : Tables α) (M : Muts α) (isSample : Array Bool) (sb : Bool)
    (times : Array α)
    (hV : validB T = true) (hO : noOverlapB T = true)
    (hN : nodesBelowB T isSample.size = true) (hM : mutsOkB M isSample.size = true)
    (hT : timesOkB T times = true) :
    ∃ s, countMutations T M isSample sb = some s ∧
      (∀ m, m < M.node.size → ∀ e, aget s.mutEdge m = some e ↔ Above T M m e) := by
  obtain ⟨s, hs, _, _, h1, _⟩ := countWith_correct T M isSample sb (argsort M) _ []
    (static_sized T _ sb times hV hO hN hT) (argsort_valid M _ hM)
  exact ⟨s, hs, h1⟩

/-- **Mutations above roots count on no edge**: if no edge covers the mutation's position with the
mutation's node as child, `mutations_edge[m]` is `NULL` (both variants). -/
theorem root_mutation_null (T : Tables α) (M : Muts α) (isSample : Array Bool) (sb : Bool)
    (times : Array α)
    (hV : validB T = true) (hO : noOverlapB T = true)
    (hN : nodesBelowB T isSample.size = true) (hM : mutsOkB M isSample.size = true)
    (hT : timesOkB T times = true)
    (m : Nat) (hm : m < M.node.size) (hroot : ∀ e, ¬ Above T M m e) :
    ∃ s, countMutations T M isSample sb = some s ∧ aget s.mutEdge m = none := by
  obtain ⟨s, hs, h1⟩ := mutations_edge_spec T M isSample sb times hV hO hN hM hT
  refine ⟨s, hs, ?_⟩
  cases h : aget s.mutEdge m with
  | none => rfl
  | some e => exact absurd ((h1 m hm e).mp h) (hroot e)

/-- **The visiting order of mutations at the same position is irrelevant** (numba's `argsort` is not
stable): any order that is a permutation sorted by position gives the same plain result. -/
theorem order_irrelevant (T : Tables α) (M : Muts α) (isSample : Array Bool) (o1 o2 : List Nat)
    (hV : validB T = true) (hO : noOverlapB T = true)
    (hN : nodesBelowB T isSample.size = true)
    (h1 : MutsValid M isSample.size o1) (h2 : MutsValid M isSample.size o2) :
    ∃ s1 s2, countWith T M isSample false o1 = some s1 ∧ countWith T M isSample false o2 = some s2 ∧
      (∀ m, m < M.node.size → aget s1.mutEdge m = aget s2.mutEdge m) ∧
      (∀ e, e < T.numEdges → aget s1.edgeMuts e = aget s2.edgeMuts e ∧
        aget s1.edgeSpan e = aget s2.edgeSpan e) := by
  obtain ⟨s1, hs1, _, _, a1, c1, b1⟩ := countWith_correct T M isSample false o1 _ []
    (static_plain T _ hV hO hN) h1
  obtain ⟨s2, hs2, _, _, a2, c2, b2⟩ := countWith_correct T M isSample false o2 _ []
    (static_plain T _ hV hO hN) h2
  refine ⟨s1, s2, hs1, hs2, ?_, ?_⟩
  · intro m hm
    cases h : aget s1.mutEdge m with
    | some e => exact ((a2 m hm e).mpr ((a1 m hm e).mp h)).symm
    | none =>
      cases h' : aget s2.mutEdge m with
      | none => rfl
      | some e =>
        have := (a1 m hm e).mpr ((a2 m hm e).mp h')
        rw [h] at this; exact absurd this (by simp)
  · intro e he
    exact ⟨by rw [c1 e he, c2 e he], by rw [b1 rfl e he, b2 rfl e he]⟩

/-- **The plain tally does not depend on the sample set passed** (`node_is_sample` only matters for
the frequency weights). -/
theorem plain_ignores_sample_set (T : Tables α) (M : Muts α) (mask1 mask2 : Array Bool)
    (hsz : mask1.size = mask2.size)
    (hV : validB T = true) (hO : noOverlapB T = true)
    (hN : nodesBelowB T mask1.size = true) (hM : mutsOkB M mask1.size = true) :
    ∃ s1 s2, countMutations T M mask1 false = some s1 ∧ countMutations T M mask2 false = some s2 ∧
      (∀ m, m < M.node.size → ∀ e, aget s1.mutEdge m = some e ↔ aget s2.mutEdge m = some e) ∧
      (∀ e, e < T.numEdges → aget s1.edgeMuts e = aget s2.edgeMuts e ∧
        aget s1.edgeSpan e = aget s2.edgeSpan e) := by
  obtain ⟨s1, hs1, _, a1, b1⟩ := count_plain_spec T M mask1 hV hO hN hM
  obtain ⟨s2, hs2, _, a2, b2⟩ := count_plain_spec T M mask2 hV hO (hsz ▸ hN) (hsz ▸ hM)
  refine ⟨s1, s2, hs1, hs2, fun m hm e => by rw [a1 m hm e, a2 m hm e], fun e he => ?_⟩
  exact ⟨by rw [(b1 e he).1, (b2 e he).1], by rw [(b1 e he).2, (b2 e he).2]⟩

/-- The executable specification printed by the driver (`specEdge`, first matching edge) is the
edge above the mutation: there is at most one. -/
theorem specEdge_iff (T : Tables α) (M : Muts α) (hO : noOverlapB T = true) (m e : Nat) :
    specEdge T M m = some e ↔ Above T M m e :=
  findEdge_iff T (noOverlap_of_B T hO) (aget M.node m) (aget M.pos m) e

/-! ### `mutation_span_array` -/

/-- **`mutation_span_array` is the same direct tally**: its first column counts, per edge, the
mutations whose `mut.edge` is that edge; its second column is `right - left` (definitionally). -/
theorem tally_spec (E : Nat) (mutEdge : List (Option Nat)) (hl : ∀ e, some e ∈ mutEdge → e < E)
    (e : Nat) (he : e < E) :
    aget (tally (α := α) E mutEdge) e = (mutEdge.count (some e) : α) := by
  unfold tally
  rw [tally_fold E mutEdge hl _ (by simp) e he]
  simp [aget, he]

/-- **The two tallies agree**: if tskit's `mut.edge` is the edge above each mutation (its documented
contract), `mutation_span_array(ts)` equals the plain `count_mutations(ts)` on every edge. -/
theorem span_array_agrees (T : Tables α) (M : Muts α) (isSample : Array Bool)
    (tskitEdge : List (Option Nat)) (hlen : tskitEdge.length = M.node.size)
    (hcontract : ∀ m, m < M.node.size → ∀ e, tskitEdge[m]? = some (some e) ↔ Above T M m e)
    (hV : validB T = true) (hO : noOverlapB T = true)
    (hN : nodesBelowB T isSample.size = true) (hM : mutsOkB M isSample.size = true) :
    ∃ s, countMutations T M isSample false = some s ∧
      ∀ e, e < T.numEdges →
        aget s.edgeMuts e = aget (tally (α := α) T.numEdges tskitEdge) e ∧
        aget s.edgeSpan e = (spanColumn T)[e]?.getD 0 := by
  obtain ⟨s, hs, _, a, b⟩ := count_plain_spec T M isSample hV hO hN hM
  refine ⟨s, hs, fun e he => ⟨?_, ?_⟩⟩
  · have hl : ∀ e, some e ∈ tskitEdge → e < T.numEdges := by
      intro e' hmem
      obtain ⟨m, hm, hget⟩ := List.mem_iff_getElem.mp hmem
      have : tskitEdge[m]? = some (some e') := by rw [List.getElem?_eq_getElem hm, hget]
      exact ((hcontract m (hlen ▸ hm) e').mp this).1
    rw [(b e he).1, tally_spec T.numEdges tskitEdge hl e he]
    congr 1
    -- count of `some e` in tskit's column = number of mutations whose edge is `e`
    rw [List.count_eq_countP]
    have hrange : tskitEdge = (List.range M.node.size).map (fun m => tskitEdge[m]?.getD none) := by
      apply List.ext_getElem
      · simp [hlen]
      · intro i h1 h2
        simp [List.getElem?_eq_getElem h1]
    conv_rhs => rw [hrange, List.countP_map]
    apply List.countP_congr
    intro m hm
    have hm' := List.mem_range.mp hm
    have hlt : m < tskitEdge.length := hlen ▸ hm'
    have hc := hcontract m hm' e
    simp only [List.getElem?_eq_getElem hlt, Option.some.injEq] at hc
    simp only [Function.comp, List.getElem?_eq_getElem hlt, Option.getD_some, beq_iff_eq,
      decide_eq_true_eq]
    exact hc.symm
  · rw [(b e he).2]
    unfold spanColumn
    simp [he]

/-! ### Scope, and the singleton-block clause

`count_plain_spec` and `count_sizebiased_spec` together are the full C24 statement for the kernel
`_count_mutations` (mutations, spans, frequency weights, custom sample sets).

The singleton-block clause ("blocks hold exactly the span over which the individual's two leaf branches
stay the same and the number of singletons in it") is about `phasing._block_singletons`, whose model
`Blocks.blockSingletons` belongs to the C22/C23 cluster (tied there bit-for-bit to the numba kernel).
This check covers the clause by the per-tree oracle, which found that it is **false when one of the two
leaf nodes of an unphased individual is isolated over part of the sequence** (missing data on one
haplotype).  The two theorems below are the negation on concrete witnesses, serialised from the tskit
tables of the two replays in `known_findings.d/C24.json` (edge table in tskit order with tskit's own
indexes; positions in `ℕ`). -/

/-- Individual 0 = nodes 0, 1; node 1 has no edge on `[0,4)`.  Mutations on node 0 at 2 and at 6. -/
def blkW1 : Blocks.Input Nat :=
  { unphased := #[true, true], nodeInd := #[some 0, some 0, some 1, some 1, none],
    child := #[0, 1, 2, 3], left := #[0, 4, 0, 0], right := #[10, 10, 10, 10],
    insOrder := #[0, 2, 3, 1], remOrder := #[3, 2, 1, 0], seqLen := 10,
    mutNode := #[0, 2, 0, 3], mutPos := #[2, 3, 6, 7] }

/-- **Counter-example to the count clause.**  The block of individual 0 is reported with span 6 (its
two leaf edges coexist on `[4,10)`: correct) and **2** singletons, although only **one** mutation of
the individual lies in `[4,10)`: the mutation at position 2, where the individual has a single leaf
branch, is counted into (and assigned to) the block that starts at 4. -/
theorem block_count_counterexample :
    (Blocks.blockSingletons blkW1 0).map (fun o => (o.stats, o.edges, o.mblock)) =
        some ([(2, some 6), (2, some 10)], [(1, 0), (3, 2)], #[some 0, some 1, some 0, some 1]) ∧
    ((List.range 4).countP fun m =>
        aget blkW1.nodeInd (aget blkW1.mutNode m) == some 0 &&
        decide (4 ≤ aget blkW1.mutPos m) && decide (aget blkW1.mutPos m < 10)) = 1 := by
  decide +kernel

/-- Individual 0 = nodes 0, 1; node 1 has an edge on `[0,4)` only; node 0 changes parent at 6. -/
def blkW2 : Blocks.Input Nat :=
  { unphased := #[true, true], nodeInd := #[some 0, some 0, some 1, some 1, none, none],
    child := #[0, 1, 2, 3, 0, 4], left := #[0, 0, 0, 0, 6, 6], right := #[6, 4, 10, 10, 10, 10],
    insOrder := #[0, 1, 2, 3, 4, 5], remOrder := #[1, 0, 5, 4, 3, 2], seqLen := 10,
    mutNode := #[0, 2, 0, 3], mutPos := #[2, 3, 7, 8] }

/-- **Counter-example to "every input".**  On this well-formed input the kernel's closing assertion
`num_blocks == blocks_edges.shape[0]` fails (the model returns `none`; numba raises a bare
`AssertionError`, also through `tsdate.date(ts, singletons_phased=False)`): a block id is handed out when
node 0's new edge is inserted at 6 while its partner has no edge, and that block is never flushed. -/
theorem block_assertion_counterexample :
    Blocks.wellFormed blkW2 = true ∧ (Blocks.blockSingletons blkW2 0).isNone = true := by
  decide +kernel

/-! ### Non-vacuity (exact rationals)

Two samples 0, 1 under node 2 on `[0,5)`, under node 3 on `[5,10)`; node 2 under node 3 on `[0,5)`.
Mutations: on node 0 at 2 (edge 0), on node 0 at 7 (edge 3), on node 3 at 4 (above the root);
`[0, 2, 1]` is their order by position (`countMutations` computes it with a merge sort, which the
kernel cannot unfold; `countWith` takes it as an argument). -/

def exT : Tables Rat :=
  { edges := #[⟨0, 5, 2, 0⟩, ⟨0, 5, 2, 1⟩, ⟨0, 5, 3, 2⟩, ⟨5, 10, 3, 0⟩, ⟨5, 10, 3, 1⟩],
    ins := [0, 1, 2, 3, 4], rem := [0, 1, 2, 3, 4], seqLen := 10 }
def exM : Muts Rat := { node := #[0, 0, 3], pos := #[2, 7, 4] }
def exS : Array Bool := #[true, true, false, false]

example : validB exT = true ∧ noOverlapB exT = true ∧ nodesBelowB exT exS.size = true ∧
    mutsOkB exM exS.size = true := by decide +kernel

example : ((countWith exT exM exS false [0, 2, 1]).map fun s =>
    (s.mutEdge, s.edgeMuts, s.edgeSpan, s.err)) =
    some (#[some 0, some 3, none], #[1, 0, 0, 1, 0], #[5, 5, 5, 5, 5], false) := by decide +kernel

/-- `[0, 5, 10]` is a partition for the example: edges 0, 1 carry one sample each over `[0,5)`
(span 5), edge 2 carries two (span 10). -/
example : partitionB exT [0, 5, 10] = true := by decide +kernel

example : (integ (Wspec exT exS 2) [0, 5, 10], integ (Wspec exT exS 0) [0, 5, 10]) = (10, 5) := by
  simp only [integ, Wspec]
  decide +kernel

example : ((countWith exT exM exS true [0, 2, 1]).map fun s =>
    (s.mutEdge, s.edgeMuts, s.edgeSpan, s.err)) =
    some (#[some 0, some 3, none], #[1, 0, 0, 1, 0], #[5, 5, 10, 5, 5], false) := by decide +kernel

end Tsdate.C24
