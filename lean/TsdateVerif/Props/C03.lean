/-
C03 — sample (fixed) nodes keep their times, except for the minimal push above dated children.
Model: `_constrain_ages` with `fixed` = the sample flags.
-/
import TsdateVerif.Proofs.Constrain

namespace Tsdate.C03
open Tsdate
set_option linter.unusedSectionVars false

variable {α : Type} [Inhabited α] [Field α] [LinearOrder α] [IsStrictOrderedRing α]

/-- A fixed node that is never an edge parent keeps its exact input time: any `fadd`, any
iteration count, any input times. -/
theorem fixed_without_children (ftest fadd : α → α) (fixed : Array Bool) (eps : α) (es : List Edge)
    (t : Array α) (iters : Nat) (hr : InRange t.size es) (x : Nat)
    (hx : aget fixed x = true) (hleaf : ∀ e ∈ es, e.p ≠ x) :
    aget (constrainAges ftest fadd fixed eps es t iters) x = aget t x := by
  obtain ⟨s', hs', h⟩ := constrainGo_cases ftest fadd fixed eps es (LSInv fixed es t)
    (fun s hs => lsSweep_inv fixed es t hr s hs) iters _ (lsInv_init fixed es t)
  unfold constrainAges
  rcases h with ⟨h1, _, _⟩ | h
  · rw [h1]; exact hs'.fixedSame x hx
  · rw [h, forced_unchanged ftest fadd es _ x hleaf]; exact hs'.fixedSame x hx

/-- The least-squares phase never moves a fixed node (the sweep invariant, exported). -/
theorem ls_phase_keeps_fixed (fixed : Array Bool) (es : List Edge) (t : Array α)
    (hr : InRange t.size es) (s : LSState α) (hs : LSInv fixed es t s) (x : Nat)
    (hx : aget fixed x = true) : aget (lsSweep fixed es s).t x = aget t x :=
  (lsSweep_inv fixed es t hr s hs).fixedSame x hx

theorem maxWith_eq_left {β : Type} [LinearOrder β] (x : β) (l : List β) (h : ∀ y ∈ l, y ≤ x) :
    maxWith x l = x := by
  induction l with
  | nil => rfl
  | cons y l ih =>
    rw [maxWith_cons, max_eq_left (h y (List.mem_cons_self ..))]
    exact ih (fun z hz => h z (List.mem_cons_of_mem _ hz))

/-- **Exactly as far as needed and no further.**  In exact arithmetic a fixed node ends at the
larger of its input time and `child output + eps` over its child edges — for every iteration
count (the early-exit branch leaves it at its input time, which then already dominates). -/
theorem fixed_with_children (fixed : Array Bool) (eps : α) (es : List Edge)
    (t : Array α) (iters : Nat) (hr : InRange t.size es) (htopo : TopoOrdered es) (x : Nat)
    (hx : aget fixed x = true) :
    aget (constrainAges (· + eps) (· + eps) fixed eps es t iters) x =
      maxWith (aget t x) ((es.filter (fun e => e.p = x)).map
        (fun e => aget (constrainAges (· + eps) (· + eps) fixed eps es t iters) e.c + eps)) := by
  obtain ⟨s', hs', h⟩ := constrainGo_cases (· + eps) (· + eps) fixed eps es (LSInv fixed es t)
    (fun s hs => lsSweep_inv fixed es t hr s hs) iters _ (lsInv_init fixed es t)
  unfold constrainAges
  rcases h with ⟨h1, h2, _⟩ | h
  · rw [h1, hs'.fixedSame x hx]
    symm
    apply maxWith_eq_left
    intro y hy
    obtain ⟨e, he, rfl⟩ := List.mem_map.mp hy
    obtain ⟨he1, he2⟩ := List.mem_filter.mp he
    have hpx : e.p = x := by simpa using he2
    have := List.all_eq_true.mp h2 e he1
    have hlt : eps < aget s'.t e.p - aget s'.t e.c := by simpa using this
    rw [← hs'.fixedSame x hx, ← hpx]
    linarith
  · rw [h, forced_max_char (· + eps) es s'.t (by rw [hs'.tsize]; exact hr) htopo x,
      hs'.fixedSame x hx]

/-- The same with arbitrary rounding, for the default configuration (`iters = 0`, the forced pass
only): the node ends at its input time bumped by each child's output time, in edge order
(`bumpWith`: if not above `ftest child` then `fadd child`). -/
theorem fixed_with_children_rounded (ftest fadd : α → α) (fixed : Array Bool) (eps : α)
    (es : List Edge) (t : Array α) (hr : InRange t.size es) (htopo : TopoOrdered es) (x : Nat) :
    aget (constrainAges ftest fadd fixed eps es t 0) x =
      bumpWith ftest fadd (aget t x) ((es.filter (fun e => e.p = x)).map
        (fun e => aget (constrainAges ftest fadd fixed eps es t 0) e.c)) :=
  forced_char ftest fadd es t hr htopo x

/-! Non-vacuity: node 2 is a sample at time 1 with children 0 and 1; an internal sample. -/
example : (constrainAges (· + (1/10 : Rat)) (· + (1/10 : Rat)) #[true, true, true, false] (1/10)
    [⟨2, 0⟩, ⟨2, 1⟩, ⟨3, 2⟩] #[0, 0, 1, 1/2] 3) = #[0, 0, 1, 11/10] := by decide +kernel

end Tsdate.C03
