/-
C03 — sample (fixed) nodes keep their times, except for the minimal push above dated children.
Model: `_constrain_ages` with `fixed` = the sample flags.
-/
import TsdateVerif.Proofs.Constrain

namespace Tsdate.C03
open Tsdate
set_option linter.unusedSectionVars false

variable {α : Type} [Inhabited α] [Field α] [LinearOrder α] [IsStrictOrderedRing α]

/-- A fixed node that is never an edge parent keeps its exact input time: any `fadd`, any
iteration count, any input times. -/
theorem fixed_without_children (ftest fadd : α → α) (fixed : Array Bool) (eps : α) (es : List Edge)
    (t : Array α) (iters : Nat) (hr : InRange t.size es) (x : Nat)
    (hx : aget fixed x = true) (hleaf : ∀ e ∈ es, e.p ≠ x) :
    aget (constrainAges ftest fadd fixed eps es t iters) x = aget t x := by
  obtain ⟨s', hs', h⟩ := constrainGo_cases ftest fadd fixed eps es (LSInv fixed es t)
    (fun s hs => lsSweep_inv fixed es t hr s hs) iters _ (lsInv_init fixed es t)
  unfold constrainAges
  rcases h with ⟨h1, _, _⟩ | h
  · rw [h1]; exact hs'.fixedSame x hx
  · rw [h, forced_unchanged ftest fadd es _ x hleaf]; exact hs'.fixedSame x hx

/-- The least-squares phase never moves a fixed node (the sweep invariant, exported). -/
theorem ls_phase_keeps_fixed (fixed : Array Bool) (es : List Edge) (t : Array α)
    (hr : InRange t.size es) (s : LSState α) (hs : LSInv fixed es t s) (x : Nat)
    (hx : aget fixed x = true) : aget (lsSweep fixed es s).t x = aget t x :=
  (lsSweep_inv fixed es t hr s hs).fixedSame x hx

theorem maxWith_eq_left {β : Type} [LinearOrder β] (x : β) (l : List β) (h : ∀ y ∈ l, y ≤ x) :
    maxWith x l = x := by
  induction l with
  | nil => rfl
  | cons y l ih =>
    rw [maxWith_cons, max_eq_left (h y (List.mem_cons_self ..))]
    exact ih (fun z hz => h z (List.mem_cons_of_mem _ hz))

/-- **Exactly as far as needed and no further.**  In exact arithmetic a fixed node ends at the
larger of its input time and `child output + eps` over its child edges — for every iteration
count (the early-exit branch leaves it at its input time, which then already dominates). -/
theorem fixed_with_children (fixed : Array Bool) (eps : α) (es : List Edge)
    (t : Array α) (iters : Nat) (hr : InRange t.size es) (htopo : TopoOrdered es) (x : Nat)
    (hx : aget fixed x = true) :
    aget (constrainAges (· + eps) (· + eps) fixed eps es t iters) x =
      maxWith (aget t x) ((es.filter (fun e => e.p = x)).map
        (fun e => aget (constrainAges (· + eps) (· + eps) fixed eps es t iters) e.c + eps)) := by
  obtain ⟨s', hs', h⟩ := constrainGo_cases (· + eps) (· + eps) fixed eps es (LSInv fixed es t)
    (fun s hs => lsSweep_inv fixed es t hr s hs) iters _ (lsInv_init fixed es t)
  unfold constrainAges
  rcases h with ⟨h1, h2, _⟩ | h
  · rw [h1, hs'.fixedSame x hx]
    symm
    apply maxWith_eq_left
    intro y hy
    obtain ⟨e, he, rfl⟩ := List.mem_map.mp hy
    obtain ⟨he1, he2⟩ := List.mem_filter.mp he
    have hpx : e.p = x := by simpa using he2
    have := List.all_eq_true.mp h2 e he1
    have hlt : eps < aget s'.t e.p - aget s'.t e.c := by simpa using this
    rw [← hs'.fixedSame x hx, ← hpx]
    linarith
  · rw [h, forced_max_char (· + eps) es s'.t (by rw [hs'.tsize]; exact hr) htopo x,
      hs'.fixedSame x hx]

/-- The same with arbitrary rounding, for the default configuration (`iters = 0`, the forced pass
only): the node ends at its input time bumped by each child's output time, in edge order
(`bumpWith`: if not above `ftest child` then `fadd child`). -/
theorem fixed_with_children_rounded (ftest fadd : α → α) (fixed : Array Bool) (eps : α)
    (es : List Edge) (t : Array α) (hr : InRange t.size es) (htopo : TopoOrdered es) (x : Nat) :
    aget (constrainAges ftest fadd fixed eps es t 0) x =
      bumpWith ftest fadd (aget t x) ((es.filter (fun e => e.p = x)).map
        (fun e => aget (constrainAges ftest fadd fixed eps es t 0) e.c)) :=
  forced_char ftest fadd es t hr htopo x

/-- `aget` of the fixed vector derived from the flags column is the sample bit of that node's flags. -/
theorem aget_fixedOfFlags (flags : Array Nat) (x : Nat) (hx : x < flags.size) :
    aget (fixedOfFlags flags) x = isSampleFlag (aget flags x) := by
  simp [aget, fixedOfFlags, hx]

/-- **At the level of `util.constrain_ages` (flags column, not a pre-computed mask):** a node whose flags
word has the sample bit set — *whatever its other flag bits are* (historical-sample, split-by-preprocess,
user bits) — and that is never an edge parent keeps its exact input time. -/
theorem sample_without_children_kept (ftest fadd : α → α) (flags : Array Nat) (eps : α)
    (es : List Edge) (t : Array α) (iters : Nat) (hr : InRange t.size es) (x : Nat)
    (hxs : x < flags.size) (hx : aget flags x % 2 = 1) (hleaf : ∀ e ∈ es, e.p ≠ x) :
    aget (constrainAgesTs ftest fadd flags eps es t iters) x = aget t x := by
  unfold constrainAgesTs
  apply fixed_without_children ftest fadd _ eps es t iters hr x _ hleaf
  rw [aget_fixedOfFlags flags x hxs]
  simp [isSampleFlag, hx]

/-- The same for samples with children, exact arithmetic: a sample (any extra flag bits) ends at the
larger of its input time and `child output + eps`. -/
theorem sample_with_children_minimal (flags : Array Nat) (eps : α) (es : List Edge)
    (t : Array α) (iters : Nat) (hr : InRange t.size es) (htopo : TopoOrdered es) (x : Nat)
    (hxs : x < flags.size) (hx : aget flags x % 2 = 1) :
    aget (constrainAgesTs (· + eps) (· + eps) flags eps es t iters) x =
      maxWith (aget t x) ((es.filter (fun e => e.p = x)).map
        (fun e => aget (constrainAgesTs (· + eps) (· + eps) flags eps es t iters) e.c + eps)) := by
  unfold constrainAgesTs
  apply fixed_with_children _ eps es t iters hr htopo x
  rw [aget_fixedOfFlags flags x hxs]
  simp [isSampleFlag, hx]

/-! Non-vacuity: flags 1 + 2^20 (tsinfer historical sample) and 1 + 2^30 are samples, 2^20 alone is not. -/
example : fixedOfFlags #[1, 1048577, 1073741825, 1048576, 0, 2] = #[true, true, true, false, false, false] := by
  decide +kernel

/-! Non-vacuity: node 2 is a sample at time 1 with children 0 and 1; an internal sample. -/
example : (constrainAges (· + (1/10 : Rat)) (· + (1/10 : Rat)) #[true, true, true, false] (1/10)
    [⟨2, 0⟩, ⟨2, 1⟩, ⟨3, 2⟩] #[0, 0, 1, 1/2] 3) = #[0, 0, 1, 11/10] := by decide +kernel

end Tsdate.C03
