/-
C01 — dated output has enforced branch lengths (model: `_constrain_ages`, tsdate/util.py).

`ftest x` is the rounded `x + min_branch_length` tested by the forced pass and `fadd x` the value
it assigns (`max (x + eps) (nextafter x)` since the repair of finding F1).  No law is assumed about
either unless stated.  `out` is the time vector written to `nodes.time` by `get_modified_ts`.
The tskit part of the statement (table validity, `compute_mutation_times` placing each mutation
between its node and the node above) is a contract of tskit, not proved here.
-/
import TsdateVerif.Proofs.Constrain

namespace Tsdate.C01
open Tsdate
set_option linter.unusedSectionVars false

variable {α : Type} [Inhabited α] [Field α] [LinearOrder α] [IsStrictOrderedRing α]

/-- tskit's edge-table order (sorted by parent time, every parent strictly older than its child in
the *input*) is topological in the sense the forced pass needs. -/
theorem edge_order_topological {β : Type} [Preorder β] (time : Nat → β) (es : List Edge)
    (hsorted : es.Pairwise (fun a b => time a.p ≤ time b.p))
    (hval : ∀ e ∈ es, time e.c < time e.p) : TopoOrdered es :=
  topo_of_sorted time es hsorted hval

/-- **Every output branch meets the minimum length**: after `_constrain_ages`, for every edge either
the parent is at least the tested `ftest (child)` (forced pass) or, when the loop exited early, the
exact difference already exceeds `eps`.  Any rounding, any iteration count, any input. -/
theorem branch_lengths_enforced (ftest fadd : α → α) (hle : ∀ x, ftest x ≤ fadd x)
    (fixed : Array Bool) (eps : α) (es : List Edge)
    (t : Array α) (iters : Nat) (hr : InRange t.size es) (htopo : TopoOrdered es) :
    ∀ e ∈ es,
      ftest (aget (constrainAges ftest fadd fixed eps es t iters) e.c)
          ≤ aget (constrainAges ftest fadd fixed eps es t iters) e.p ∨
      eps < aget (constrainAges ftest fadd fixed eps es t iters) e.p
          - aget (constrainAges ftest fadd fixed eps es t iters) e.c := by
  intro e he
  obtain ⟨s', hs', h⟩ := constrainGo_cases ftest fadd fixed eps es (LSInv fixed es t)
    (fun s hs => lsSweep_inv fixed es t hr s hs) iters _ (lsInv_init fixed es t)
  unfold constrainAges
  rcases h with ⟨h1, h2, _⟩ | h
  · right
    rw [h1]
    have := List.all_eq_true.mp h2 e he
    simpa using this
  · left
    rw [h]
    exact forced_constraint ftest fadd hle es s'.t (by rw [hs'.tsize]; exact hr) htopo e he

/-- With exact addition the statement is the familiar one: `out[c] + eps ≤ out[p]`. -/
theorem branch_lengths_exact (fixed : Array Bool) (eps : α) (es : List Edge)
    (t : Array α) (iters : Nat) (hr : InRange t.size es) (htopo : TopoOrdered es) :
    ∀ e ∈ es, aget (constrainAges (· + eps) (· + eps) fixed eps es t iters) e.c + eps
      ≤ aget (constrainAges (· + eps) (· + eps) fixed eps es t iters) e.p := by
  intro e he
  rcases branch_lengths_enforced (· + eps) (· + eps) (fun _ => le_rfl) fixed eps es t iters hr htopo
    e he with h | h
  · exact h
  · linarith

/-- **Strictly older parents.**  Holds whenever the assigned value is strictly above the child
(`x < fadd x`), the tested value is not below it (`x ≤ ftest x ≤ fadd x`) and `eps ≥ 0`. -/
theorem parents_strictly_older (ftest fadd : α → α) (hle : ∀ x, ftest x ≤ fadd x)
    (hge : ∀ x, x ≤ ftest x) (hinc : ∀ x, x < fadd x) (fixed : Array Bool) (eps : α)
    (heps : 0 ≤ eps) (es : List Edge) (t : Array α) (iters : Nat) (hr : InRange t.size es)
    (htopo : TopoOrdered es) :
    ∀ e ∈ es, aget (constrainAges ftest fadd fixed eps es t iters) e.c
      < aget (constrainAges ftest fadd fixed eps es t iters) e.p := by
  intro e he
  obtain ⟨s', hs', h⟩ := constrainGo_cases ftest fadd fixed eps es (LSInv fixed es t)
    (fun s hs => lsSweep_inv fixed es t hr s hs) iters _ (lsInv_init fixed es t)
  unfold constrainAges
  rcases h with ⟨h1, h2, _⟩ | h
  · rw [h1]
    have := List.all_eq_true.mp h2 e he
    have hlt : eps < aget s'.t e.p - aget s'.t e.c := by simpa using this
    linarith
  · rw [h]
    exact forced_strict ftest fadd hle hge hinc es s'.t (by rw [hs'.tsize]; exact hr) htopo e he

/-- The repaired assignment `max (add x) (next x)` satisfies the hypotheses of
`parents_strictly_older` for **any** rounded addition `add`, as soon as `next x` is above `x`
(IEEE `nextafter(x, +inf)` for finite `x`). Absorption in `add` no longer matters. -/
theorem repaired_assignment_ok {β : Type} [LinearOrder β] (add next : β → β)
    (hnext : ∀ x, x < next x) :
    (∀ x, add x ≤ max (add x) (next x)) ∧ (∀ x, x < max (add x) (next x)) :=
  ⟨fun _ => le_max_left _ _, fun x => lt_of_lt_of_le (hnext x) (le_max_right _ _)⟩

/-- Why the repair was needed: if the assigned value absorbs (`fadd x = x`) on an edge where the
forced pass fires, parent and child end up *equal* (the pre-repair code had `fadd = ftest`). -/
theorem not_strict_when_absorbed {β : Type} [Inhabited β] [LinearOrder β] (ftest fadd : β → β)
    (t : Array β) (e : Edge) (hp : e.p < t.size) (hne : e.p ≠ e.c)
    (hfire : aget t e.p ≤ ftest (aget t e.c)) (habs : fadd (aget t e.c) = aget t e.c) :
    aget (forced ftest fadd t [e]) e.p = aget (forced ftest fadd t [e]) e.c := by
  show aget (forcedStep ftest fadd t e) e.p = aget (forcedStep ftest fadd t e) e.c
  rw [forcedStep_parent _ _ _ _ hp, forcedStep_other _ _ _ _ _ (Ne.symm hne), if_pos hfire, habs]

/-- Absorption happens in IEEE double precision: 2^28 + 1e-8 = 2^28 (bit patterns; checked by the
kernel, which evaluates `Float` addition). -/
theorem float_absorbs :
    (Float.ofBits 0x41b0000000000000 + Float.ofBits 0x3e45798ee2308c3a).toBits
      = 0x41b0000000000000 := by decide +kernel

/-! Non-vacuity: a three-leaf tree (edges in tskit order) meets the hypotheses, and the theorem
says something on it. -/
example : InRange 5 [⟨3, 0⟩, ⟨3, 1⟩, ⟨4, 2⟩, ⟨4, 3⟩] ∧ TopoOrdered [⟨3, 0⟩, ⟨3, 1⟩, ⟨4, 2⟩, ⟨4, 3⟩] := by
  simp [InRange, TopoOrdered]

example : (constrainAges (· + (1/10 : Rat)) (fun x => max (x + 1/10) (x + 1/1000))
    #[true, true, true, false, false] (1/10)
    [⟨3, 0⟩, ⟨3, 1⟩, ⟨4, 2⟩, ⟨4, 3⟩] #[0, 0, 0, 5, 2] 0) = #[0, 0, 0, 5, 51/10] := by decide +kernel

end Tsdate.C01
