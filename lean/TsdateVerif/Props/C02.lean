/-
C02 — dating changes only times, time metadata and unphased singleton placement
(model: `EstimationMethod.get_modified_ts` / `set_time_metadata`, tsdate/core.py;
`provenance.record_provenance`; write-set regenerated from the source by translate/writeset.py).

Two routes to the same statement `Frame input output` (Model/Tables.lean):

* over the **regenerated write-set**: every statement of the real code that can touch a table is
  one of `Gen.WriteSet.writes`; all of them are permitted kinds (`writeSet_allowed`, re-proved on
  every run), and any finite sequence of permitted writes, writing any values, stays in the frame
  (`frame_of_writes`);
* over the **executable model** `Pipeline.getModifiedTs` (run against the real `date()` by the
  harness): `frame_getModifiedTs`, plus the value-dependent clauses the write-set cannot see —
  mutation nodes are kept when the result's `mutation_node` is the input column (always, unless
  `singletons_phased=False`), whole rows are kept when no metadata is written.

tskit's `sort` enters as the contract `SortRel` (edges / migrations permuted, mutation rows permuted
within their site, the rest untouched); `compute_mutation_parents` as "replace that one column";
`compute_mutation_times` as `TimesRel` (new `time` column and, as tskit documents and as was
observed, possibly another permutation of the rows inside a site).  These contracts are assumed, not proved (they are checked on every generated input by
the harness).
-/
import TsdateVerif.Proofs.Pipeline
import TsdateVerif.Gen.WriteSet
import Mathlib.Data.List.Sort

namespace Tsdate.C02
open Tsdate.Tables Tsdate.Pipeline

variable {α : Type}

/-- **Every table write in the current source is of a permitted kind.** Fails to check as soon as
`get_modified_ts` (or anything it hands the tables to) gains e.g. `tables.nodes.flags = …`,
`tables.simplify()`, `tables.edges.set_columns(…)`, or passes the tables to unknown code. -/
theorem writeSet_allowed : ∀ op ∈ Gen.WriteSet.writeSet, op ∈ allowed := by decide

/-- The model performs no kind of write that the source does not contain (model ⊆ code). -/
theorem allowed_in_writeSet : ∀ op ∈ allowed, op ∈ Gen.WriteSet.writeSet := by decide

/-- **Frame theorem over the write-set.** Whatever values the statements found by the translator
write, in whatever order and however often they run, the output differs from the input only inside
the frame: node flags/population/individual row by row, sites, individuals, populations, sequence
length, reference sequence, top-level metadata and all untouched schemas are equal; edges and
migrations are the same multiset of rows; mutations keep their site column and their multiset of
(site, derived state); provenance only grows at the end. -/
theorem frame_of_writes {a b : TableCollection α} (h : Reach Gen.WriteSet.writeSet a b) : Frame a b :=
  reach_frame writeSet_allowed h

/-- **Frame theorem for the executable model of `get_modified_ts`**, for every input table
collection, every `Results`, every option set and every environment whose `sort` meets tskit's
contract. -/
theorem frame_getModifiedTs (E : Env α) (hsort : ∀ t, SortRel t (E.sort t))
    (htimes : ∀ t, TimesRel t (E.computeTimes t)) (o : Options)
    (t0 : TableCollection α) (r : Results α) (out : TableCollection α) (tr : Trace)
    (h : getModifiedTs E o t0 r = some (out, tr)) : Frame t0 out := by
  obtain ⟨t3, t5, t8, h3, h5, h8, rfl⟩ := getModifiedTs_some h
  exact frame_trans (frame_trans (frame_trans (stageMd_spec h3).1 (stageCols_frame h5))
    (stageTskit_frame hsort htimes h8)) (stageProv_frame E o t8).1

/-- **Mutation nodes are kept unless singletons are unphased.** If the `mutation_node` array of the
result is the input's node column (what `run` returns for inside_outside and maximization, and what
`mutation_mapping()` returns when no mutation belongs to an unphased block — `mapping_phased`), the
output has the same multiset of (site, node, derived state). -/
theorem mutation_nodes_kept (E : Env α) (hsort : ∀ t, SortRel t (E.sort t))
    (htimes : ∀ t, TimesRel t (E.computeTimes t)) (o : Options)
    (t0 : TableCollection α) (r : Results α) (out : TableCollection α) (tr : Trace)
    (h : getModifiedTs E o t0 r = some (out, tr))
    (hnode : r.mutationNode = t0.mutations.map (·.node)) :
    (out.mutations.map MutRow.key1).Perm (t0.mutations.map MutRow.key1) := by
  obtain ⟨t3, t5, t8, h3, h5, h8, rfl⟩ := getModifiedTs_some h
  have s3 := stageMd_spec h3
  rw [(stageProv_frame E o t8).2]
  refine (stageTskit_key _ keyOK_key1 hsort htimes h8).trans ?_
  rw [stageCols_key _ keyOK_key1 h5 (by rw [hnode, s3.2.2.1]), s3.2.1]

/-- **In general (also for unphased singletons) the output's mutation nodes are exactly
`result.mutation_node`, mutation by mutation**: the multiset of (site, node, derived state) of the
output is the input's mutations with the node of mutation `i` replaced by `mutation_node[i]`. -/
theorem mutation_nodes_are_result (E : Env α) (hsort : ∀ t, SortRel t (E.sort t))
    (htimes : ∀ t, TimesRel t (E.computeTimes t)) (o : Options)
    (t0 : TableCollection α) (r : Results α) (out : TableCollection α) (tr : Trace)
    (h : getModifiedTs E o t0 r = some (out, tr)) :
    (out.mutations.map MutRow.key1).Perm
      (List.zipWith (fun (m : MutRow α) n => (m.site, n, m.derivedState)) t0.mutations r.mutationNode) := by
  obtain ⟨t3, t5, t8, h3, h5, h8, rfl⟩ := getModifiedTs_some h
  have s3 := stageMd_spec h3
  rw [(stageProv_frame E o t8).2]
  refine (stageTskit_key _ keyOK_key1 hsort htimes h8).trans ?_
  unfold stageCols at h5
  simp only [Option.bind_eq_some_iff] at h5
  obtain ⟨ns, hns, ms, hms, h5⟩ := h5
  obtain ⟨lm, rfl⟩ := setCol?_some _ _ _ _ hms
  simp only [Option.some.injEq] at h5
  subst h5
  show (List.map MutRow.key1 (List.map _ (setCol MutRow.setNode t3.mutations r.mutationNode))).Perm _
  rw [List.map_map]
  have hz : ∀ (rows rows0 : List (MutRow α)) (vals : List Nat),
      rows.map MutRow.key1 = rows0.map MutRow.key1 →
      List.map (MutRow.key1 ∘ fun row : MutRow α => (row.setTime E.unknownTime).setParent (-1))
        (setCol MutRow.setNode rows vals) =
      List.zipWith (fun (m : MutRow α) n => (m.site, n, m.derivedState)) rows0 vals := by
    intro rows
    induction rows with
    | nil => intro rows0 vals h; cases rows0 <;> simp_all [setCol]
    | cons x xs ih =>
      intro rows0 vals h
      cases rows0 with
      | nil => simp at h
      | cons y ys =>
        cases vals with
        | nil => simp [setCol]
        | cons v vs =>
          simp only [List.map_cons, List.cons.injEq] at h
          have := ih ys vs h.2
          simp only [setCol, List.zipWith_cons_cons, List.map_cons] at this ⊢
          rw [this]
          have hx : x.site = y.site ∧ x.derivedState = y.derivedState := by
            have := h.1; simp only [MutRow.key1, Prod.mk.injEq] at this; exact ⟨this.1, this.2.2⟩
          simp [MutRow.key1, MutRow.setNode, MutRow.setTime, MutRow.setParent, hx.1, hx.2]
  rw [hz _ _ _ s3.2.1]

/-- The same, site by site: at every site the mutations carry the same multiset of
(site, node, derived state) before and after (mutation *ids* within a site may be permuted). -/
theorem mutation_nodes_kept_per_site (E : Env α) (hsort : ∀ t, SortRel t (E.sort t))
    (htimes : ∀ t, TimesRel t (E.computeTimes t)) (o : Options)
    (t0 : TableCollection α) (r : Results α) (out : TableCollection α) (tr : Trace)
    (h : getModifiedTs E o t0 r = some (out, tr))
    (hnode : r.mutationNode = t0.mutations.map (·.node)) (s : Nat) :
    ((out.mutations.filter (fun m => m.site == s)).map MutRow.key1).Perm
      ((t0.mutations.filter (fun m => m.site == s)).map MutRow.key1) := by
  have hp := (mutation_nodes_kept E hsort htimes o t0 r out tr h hnode).filter (fun k => k.1 == s)
  rw [List.filter_map, List.filter_map] at hp
  exact hp

/-- When no mutation metadata is written (`set_metadata=False`, a method without mutation
posteriors, or the warn-and-keep path), whole mutation rows — site, node, derived state *and
metadata* — survive as a multiset and the schema is kept. -/
theorem mutation_rows_kept (E : Env α) (hsort : ∀ t, SortRel t (E.sort t))
    (htimes : ∀ t, TimesRel t (E.computeTimes t)) (o : Options)
    (t0 : TableCollection α) (r : Results α) (out : TableCollection α) (tr : Trace)
    (h : getModifiedTs E o t0 r = some (out, tr))
    (hnode : r.mutationNode = t0.mutations.map (·.node))
    (hmd : tr.mutMd = .skipped ∨ tr.mutMd = .warned) :
    (out.mutations.map MutRow.key2).Perm (t0.mutations.map MutRow.key2) ∧
    out.mutationsSchema = t0.mutationsSchema := by
  obtain ⟨t3, t5, t8, h3, h5, h8, rfl⟩ := getModifiedTs_some h
  have s3 := stageMd_spec h3
  obtain ⟨hm, hs⟩ := s3.2.2.2.1 hmd
  constructor
  · rw [(stageProv_frame E o t8).2]
    refine (stageTskit_key _ keyOK_key2 hsort htimes h8).trans ?_
    rw [stageCols_key _ keyOK_key2 h5 (by rw [hnode, hm]), hm]
  · rw [(stageProv_fields E o t8).1, (stageTskit_fields hsort htimes h8).1, (stageCols_fields h5).1, hs]

/-- When no node metadata is written (maximization, `set_metadata=False`, warn-and-keep), node
flags, population, individual *and metadata* are kept row by row, and so is the schema. -/
theorem node_rows_kept (E : Env α) (hsort : ∀ t, SortRel t (E.sort t))
    (htimes : ∀ t, TimesRel t (E.computeTimes t)) (o : Options)
    (t0 : TableCollection α) (r : Results α) (out : TableCollection α) (tr : Trace)
    (h : getModifiedTs E o t0 r = some (out, tr))
    (hmd : tr.nodeMd = .skipped ∨ tr.nodeMd = .warned) :
    out.nodes.map (fun n => (n.frame, n.metadata)) = t0.nodes.map (fun n => (n.frame, n.metadata)) ∧
    out.nodesSchema = t0.nodesSchema := by
  obtain ⟨t3, t5, t8, h3, h5, h8, rfl⟩ := getModifiedTs_some h
  obtain ⟨hn, hs⟩ := (stageMd_spec h3).2.2.2.2 hmd
  constructor
  · rw [(stageProv_fields E o t8).2.2, (stageTskit_fields hsort htimes h8).2.2.1, (stageCols_fields h5).2.2, hn]
  · rw [(stageProv_fields E o t8).2.1, (stageTskit_fields hsort htimes h8).2.1, (stageCols_fields h5).2.1, hs]

/-- **The executable model is a program over the write-set found in the source**: its output is
reached from the input by a sequence of statements each of whose kinds occurs in the current
`get_modified_ts` / `set_time_metadata` / `record_provenance` (model ⊆ code, statement by
statement; together with `writeSet_allowed` the kinds coincide). -/
theorem model_within_writeSet (E : Env α) (hsort : ∀ t, SortRel t (E.sort t))
    (htimes : ∀ t, TimesRel t (E.computeTimes t)) (o : Options)
    (t0 : TableCollection α) (r : Results α) (out : TableCollection α) (tr : Trace)
    (h : getModifiedTs E o t0 r = some (out, tr)) : Reach Gen.WriteSet.writeSet t0 out :=
  reach_mono allowed_in_writeSet (reach_getModifiedTs hsort htimes h)

/-- `time_units` of the output is the requested one, and provenance is the input's rows followed by
exactly one new row when provenance is recorded, by nothing otherwise. -/
theorem time_units_and_provenance (E : Env α) (hsort : ∀ t, SortRel t (E.sort t))
    (htimes : ∀ t, TimesRel t (E.computeTimes t)) (o : Options)
    (t0 : TableCollection α) (r : Results α) (out : TableCollection α) (tr : Trace)
    (h : getModifiedTs E o t0 r = some (out, tr)) :
    out.timeUnits = o.timeUnits ∧
    ∃ row, out.provenances = t0.provenances ++ (if o.recordProvenance = true then [row] else []) :=
  provenance_and_units hsort htimes h

/-- The part of `SortRel` that says "the site column stays as it was" follows from two more basic
facts: `sort` returns whole rows in a permuted order, ordered by site, and the mutations of a valid
tree sequence are already ordered by site. -/
theorem sort_site_column (a b : List (MutRow α))
    (hperm : (b.map MutRow.noParent).Perm (a.map MutRow.noParent))
    (ha : (a.map (·.site)).Pairwise (· ≤ ·)) (hb : (b.map (·.site)).Pairwise (· ≤ ·)) :
    b.map (·.site) = a.map (·.site) := by
  have hp : (b.map (·.site)).Perm (a.map (·.site)) := by
    have := hperm.map (fun m : MutRow α => m.site)
    simpa [List.map_map, Function.comp_def, MutRow.noParent] using this
  exact List.Perm.eq_of_pairwise (fun _ _ _ _ h1 h2 => Nat.le_antisymm h1 h2) hb ha hp

/-- `mutation_mapping()` is the input's node column when no mutation belongs to a block of
unphased singletons (`mutation_blocks` all `NULL`, which is what `block_singletons` returns when
no individual is unphased). -/
theorem mapping_phased : ∀ (inputNode : List Nat) (block : List Int) (switched : List Nat),
    block.length = inputNode.length → switched.length = inputNode.length →
    (∀ b ∈ block, b = -1) → mutationMapping inputNode block switched = inputNode
  | [], _, _, _, _, _ => by simp [mutationMapping]
  | n :: ns, [], _, h, _, _ => by simp at h
  | n :: ns, _ :: _, [], _, h, _ => by simp at h
  | n :: ns, b :: bs, s :: ss, h1, h2, hb => by
    have ih := mapping_phased ns bs ss (by simpa using h1) (by simpa using h2)
      (fun x hx => hb x (List.mem_cons_of_mem _ hx))
    have hb0 : b = -1 := hb b (List.mem_cons_self ..)
    simp only [mutationMapping, List.zip_cons_cons, List.zipWith_cons_cons] at ih ⊢
    rw [ih]; simp [hb0]

/-! ### Non-vacuity: a concrete input on which the model runs, `sort` really permutes rows,
the hypotheses hold and the conclusions say something. -/

namespace Example

def codec : Codec Nat where
  hasSchema s := s ≠ ""
  encodeRow _ old _ _ := some (old.getD "" ++ "+mn,vr")
  readMnVr _ _ := none

def swap2 {β : Type} : List β → List β
  | x :: y :: r => y :: x :: r
  | l => l

def swapIf {β : Type} (p : β → β → Bool) : List β → List β
  | x :: y :: r => if p x y then y :: x :: r else x :: y :: r
  | l => l

/-- a `sort` that exchanges the first two edge rows, and the first two mutation rows when they are
at the same site -/
def swapSort (t : TableCollection Nat) : TableCollection Nat :=
  { t with mutations := swapIf (fun x y => x.site == y.site) t.mutations, edges := swap2 t.edges }

def env : Env Nat where
  codec := codec
  nodeDefaultSchema := "json:node"
  mutDefaultSchema := "json:mutation"
  constrain _ m := m.map (· + 1)
  unknownTime := 0
  sort := swapSort
  computeParents t := t.mutations.map (fun _ => -1)
  computeTimes t := { t with mutations := t.mutations.map (·.setTime 7) }
  provRow _ := ⟨"now", "tsdate"⟩

def input : TableCollection Nat where
  sequenceLength := 100
  timeUnits := "unknown"
  metadata := "top"
  metadataSchema := ""
  refseq := ""
  nodes := [⟨1, 0, 0, 0, "a"⟩, ⟨1, 0, 0, 0, "b"⟩, ⟨0, 3, 0, -1, "c"⟩]
  nodesSchema := ""
  edges := [⟨0, 100, 2, 0, ""⟩, ⟨0, 100, 2, 1, ""⟩]
  edgesSchema := ""
  sites := [⟨5, "A", ""⟩]
  sitesSchema := ""
  mutations := [⟨0, 0, 1, "T", -1, ""⟩, ⟨0, 1, 1, "G", -1, ""⟩]
  mutationsSchema := ""
  individuals := [⟨0, [], [], "i"⟩]
  individualsSchema := ""
  populations := [⟨"p"⟩]
  populationsSchema := ""
  migrations := []
  migrationsSchema := ""
  provenances := [⟨"then", "msprime"⟩]

def res : Results Nat := ⟨[0, 0, 4], some [0, 0, 2], some [2, 3], some [1, 1], [0, 1]⟩
def opts : Options := ⟨"generations", some true, true⟩

theorem swap2_perm {β : Type} : ∀ l : List β, (swap2 l).Perm l
  | [] => List.Perm.refl _
  | [_] => List.Perm.refl _
  | _ :: _ :: _ => List.Perm.swap _ _ _

theorem swapIf_perm {β : Type} (p : β → β → Bool) : ∀ l : List β, (swapIf p l).Perm l
  | [] => List.Perm.refl _
  | [_] => List.Perm.refl _
  | x :: y :: r => by
    simp only [swapIf]
    split_ifs
    · exact List.Perm.swap _ _ _
    · exact List.Perm.refl _

theorem swapIf_sites : ∀ l : List (MutRow Nat),
    (swapIf (fun x y => x.site == y.site) l).map (·.site) = l.map (·.site)
  | [] => rfl
  | [_] => rfl
  | x :: y :: r => by
    simp only [swapIf]
    split_ifs with hs
    · have : x.site = y.site := by simpa using hs
      simp [this]
    · rfl

theorem times_ok : ∀ t, TimesRel t (env.computeTimes t) := fun t =>
  ⟨by show (List.map MutRow.key2 (t.mutations.map (·.setTime 7))).Perm _
      rw [List.map_map]; exact List.Perm.refl _,
   by show List.map (·.site) (t.mutations.map (·.setTime 7)) = _
      rw [List.map_map]; rfl,
   by cases t; rfl⟩

theorem swapSort_ok : ∀ t, SortRel t (swapSort t) := fun t =>
  ⟨swap2_perm _, (swapIf_perm _ _).map _, swapIf_sites _, List.Perm.refl _, by cases t; rfl⟩

/-- the model runs on this input, writes metadata under the default schemas, and `sort` has
really exchanged the two mutations (ids are not stable) -/
example : (getModifiedTs env opts input res).map (fun x => (x.1.mutations.map MutRow.key1, x.2)) =
    some ([(0, 1, "G"), (0, 0, "T")], ⟨.replaced, .replaced⟩) := by decide +kernel

example : res.mutationNode = input.mutations.map (·.node) := by decide

/-- so the theorems apply and give: same frame, same (site, node, derived state) multiset -/
example : ∃ out tr, getModifiedTs env opts input res = some (out, tr) ∧ Frame input out ∧
    (out.mutations.map MutRow.key1).Perm (input.mutations.map MutRow.key1) := by
  cases h : getModifiedTs env opts input res with
  | none => exact absurd h (by decide +kernel)
  | some x =>
    exact ⟨x.1, x.2, rfl, frame_getModifiedTs env swapSort_ok times_ok opts input res x.1 x.2 h,
      mutation_nodes_kept env swapSort_ok times_ok opts input res x.1 x.2 h (by decide)⟩

end Example

/-- tskit's contract does **not** give row-by-row equality of the migration table: a `sort` that
meets `SortRel` may exchange two migration rows (the real one does, for rows of equal time that are
not in (source, dest, left, node) order). The property's "migration table unchanged" therefore holds
as a multiset of rows only; see `known_findings.d/C02.json`. -/
theorem migration_order_not_guaranteed :
    ∃ (a b : TableCollection Nat), SortRel a b ∧ b.migrations ≠ a.migrations := by
  let m1 : MigRow Nat := ⟨0, 10, 0, 1, 0, 5, ""⟩
  let m2 : MigRow Nat := ⟨0, 10, 1, 0, 1, 5, ""⟩
  let a : TableCollection Nat :=
    ⟨10, "", "", "", "", [], "", [], "", [], "", [], "", [], "", [], "", [m1, m2], "", []⟩
  refine ⟨a, { a with migrations := [m2, m1] }, ⟨List.Perm.refl _, List.Perm.refl _, rfl,
    List.Perm.swap _ _ _, rfl⟩, by decide⟩

end Tsdate.C02
