/-
C06 — changing time units rescales all outputs exactly.

Statement (properties.jsonl): divide the mutation rate by c > 0, multiply min_branch_length by c; for
the discrete-time methods also multiply population_size, eps and any user timepoints by c (and, for
the variational method, the ages of historical samples, which are inputs in time units).  Then every
output node time, mutation time and posterior mean is multiplied by c and every posterior variance by
c², up to floating-point tolerance.

The theorems are over an arbitrary linear ordered field (exact arithmetic), for EVERY c > 0, for the
executable models of `Model/Scale.lean` (and the committed `_constrain_ages` model), which stage B runs
against the real functions.  Special functions (Poisson pmf, prior cdf) and the inside / outside /
maximization recursions are *arbitrary functions* of arguments that are proved unchanged.
-/
import TsdateVerif.Proofs.ScaleDiscrete
import TsdateVerif.Proofs.ScaleConstrain
import TsdateVerif.Proofs.ScaleEP
import TsdateVerif.Proofs.ScaleKernels

namespace Tsdate.C06
open Tsdate Tsdate.Scale
set_option linter.unusedSectionVars false
set_option linter.unusedVariables false

variable {α : Type} [Field α] [LinearOrder α] [IsStrictOrderedRing α]

/-! ### the degree discipline -/

/-- A quantity of degree +1 (a time) and one of degree −1 (a rate) multiply to a quantity of degree 0:
the Poisson parameter `Δt·μ·span` does not see the unit of time. -/
theorem scaled_time_mul_rate (c : α) (hc : c ≠ 0) (dt dt' mu mu' span : α)
    (h1 : Scaled c 1 dt dt') (h2 : Scaled c (-1) mu mu') : dt' * mu' * span = dt * mu * span := by
  unfold Scaled at h1 h2
  rw [h1, h2, zpow_one, zpow_neg, zpow_one]
  field_simp

/-- comparisons between quantities of the same degree are unchanged (all thresholds in the code compare
like with like) -/
theorem scaled_lt_iff (c : α) (hc : 0 < c) (d : Int) (x x' y y' : α)
    (hx : Scaled c d x x') (hy : Scaled c d y y') : x' < y' ↔ x < y := by
  unfold Scaled at hx hy
  rw [hx, hy]
  exact mul_lt_mul_iff_right₀ (zpow_pos hc d)

/-! ### discrete-time methods -/

/-- **Likelihood argument** (`Likelihoods._lik`, discrete.py): for every time difference of the grid,
`(c·Δt)·(μ/c)·span = Δt·μ·span`, so whatever the pmf is, the likelihood table is the same. -/
theorem lik_arg_invariant {β : Type} (pmf : Nat → α → β) (c : α) (hc : c ≠ 0) (muts : Nat)
    (tp : List α) (eps mu span : α) :
    likTable pmf muts (timediffLowerTri (smul c tp) (c * eps)) (mu / c) span
      = likTable pmf muts (timediffLowerTri tp eps) mu span := by
  simp only [likTable, timediffLowerTri_smul, likArgs_time_invariant c hc]

/-- **Prior grid** (`fill_priors`, `PopulationSizeHistory`): population sizes, epoch breaks and user
timepoints in a unit `c` times smaller give the same timepoints on the coalescent scale — the arguments
of every prior cdf are unchanged — and a generational time grid `c` times the original. -/
theorem prior_grid_invariant (two c : α) (hc : 0 < c) (inp : DiscreteIn α) :
    coalTimepoints two (inp.scaleTime c) = coalTimepoints two inp ∧
    gridOf two (inp.scaleTime c) = smul c (gridOf two inp) :=
  ⟨coalTimepoints_scaleTime two c hc inp, gridOf_scaleTime two c hc inp⟩

/-- **Everything else the discrete algorithms see is unchanged**: prior rows, both likelihood tables of
every edge, the Poisson values of the maximization step, span fractions — for every pmf and cdf. -/
theorem discrete_view_invariant {β : Type} (two c : α) (hc : 0 < c) (pmf : Nat → α → β)
    (cdfs : List (α → α)) (inp : DiscreteIn α) :
    (discreteView two pmf cdfs (inp.scaleTime c)).free = (discreteView two pmf cdfs inp).free := by
  unfold discreteView
  rw [gridOf_scaleTime two c hc, coalTimepoints_scaleTime two c hc]
  exact viewOf_time c (ne_of_gt hc) pmf cdfs _ _ _ _ _ _

/-- **Posterior mean and variance from a grid** (`DiscreteTimeMethod.mean_var`). -/
theorem meanVar_equivariant (c : α) (probs times : List α) :
    meanVar probs (smul c times) = (c * (meanVar probs times).1, c * c * (meanVar probs times).2) :=
  Scale.meanVar_equivariant c probs times

/-- **C06 for `inside_outside`**: whatever function of the unit-free view the inside and outside passes
compute, every posterior mean is multiplied by `c` and every posterior variance by `c²`. -/
theorem C06_discrete {β : Type} (two c : α) (hc : 0 < c) (pmf : Nat → α → β) (cdfs : List (α → α))
    (core : DiscreteFree α β → List (List α)) (inp : DiscreteIn α) :
    insideOutsideOut core (discreteView two pmf cdfs (inp.scaleTime c))
      = (insideOutsideOut core (discreteView two pmf cdfs inp)).map (fun mv => (c * mv.1, c * c * mv.2)) := by
  have hf := discrete_view_invariant two c hc pmf cdfs inp
  have hg : (discreteView two pmf cdfs (inp.scaleTime c)).grid
      = smul c (discreteView two pmf cdfs inp).grid := gridOf_scaleTime two c hc inp
  simp only [insideOutsideOut, hf, hg, List.map_map]
  apply List.map_congr_left
  intro probs _
  exact Scale.meanVar_equivariant c probs _

/-- **C06 for `maximization`**: the argmax indices are unchanged, the times read off the grid scale. -/
theorem C06_maximization {β : Type} (two c : α) (hc : 0 < c) (pmf : Nat → α → β) (cdfs : List (α → α))
    (core : DiscreteFree α β → List Nat) (inp : DiscreteIn α) :
    maximizationOut core (discreteView two pmf cdfs (inp.scaleTime c))
      = smul c (maximizationOut core (discreteView two pmf cdfs inp)) := by
  have hf := discrete_view_invariant two c hc pmf cdfs inp
  have hg : (discreteView two pmf cdfs (inp.scaleTime c)).grid
      = smul c (discreteView two pmf cdfs inp).grid := gridOf_scaleTime two c hc inp
  simp only [maximizationOut, hf, hg, smul, List.map_map]
  apply List.map_congr_left
  intro i _
  exact nth_smul c _ i

/-! ### the constraint step (all methods) -/

/-- **`_constrain_ages` is equivariant** (`min_branch_length` has degree +1): unconstrained times and
`eps` in a unit `c` times smaller ⇒ the same early exit, the same forced assignments, and every output
node time is `c` times the original.  `ftest`/`fadd` are the rounded additions of the forced pass; they
must commute with the change of unit, which `x ↦ x + eps` does (`forced_additions_commute`). -/
theorem C06_constrain [Inhabited α] (c : α) (hc : 0 < c) (ftest fadd ftest' fadd' : α → α)
    (hft : ∀ x, ftest' (c * x) = c * ftest x) (hfa : ∀ x, fadd' (c * x) = c * fadd x)
    (fixed : Array Bool) (eps : α) (es : List Edge) (t t' : Array α) (iters : Nat)
    (h : ARel c t t') (hr : InRange t.size es) :
    ARel c (constrainAges ftest fadd fixed eps es t iters)
      (constrainAges ftest' fadd' fixed (c * eps) es t' iters) :=
  constrainAges_rel c hc ftest fadd ftest' fadd' hft hfa fixed eps es t t' iters h hr

/-- exact addition of `eps`, and the repaired `max (x + eps) (next x)` for any `next` that commutes with
the change of unit, satisfy the hypotheses of `C06_constrain`. -/
theorem forced_additions_commute (c : α) (hc : 0 < c) (eps : α) (next next' : α → α)
    (hn : ∀ x, next' (c * x) = c * next x) :
    (∀ x, (fun y => y + c * eps) (c * x) = c * (fun y => y + eps) x) ∧
    (∀ x, (fun y => max (y + c * eps) (next' y)) (c * x) = c * (fun y => max (y + eps) (next y)) x) := by
  refine ⟨fun x => by ring, fun x => ?_⟩
  show max (c * x + c * eps) (next' (c * x)) = c * max (x + eps) (next x)
  rw [hn, ← mul_add, mul_max_of_nonneg _ _ (le_of_lt hc)]

/-! ### time rescaling of the variational method (tsdate/rescaling.py) -/

/-- **`mutational_area` is graded**: node times in a unit `c` times smaller, mutational target sizes
`μ·span` as rates (`k·m`, `c·k = 1`) ⇒ `counts` and `offset` are rates, `duration` is a time, the epoch
index of every node is the same (it is found by sorting and comparing times). -/
theorem mutational_area_graded (c k : α) (hc : 0 < c) (hk : c * k = 1) (t : List α) (lik : List (α × α))
    (edges : List (Nat × Nat)) :
    mutArea (smul c t) (rateRows k lik) edges =
      (smul k (mutArea t lik edges).1, smul k (mutArea t lik edges).2.1,
        smul c (mutArea t lik edges).2.2.1, (mutArea t lik edges).2.2.2) :=
  mutArea_smul c k hc hk t lik edges

/-- **`mutational_timescale` is equivariant** (`adjust = z·y/n` is time·rate/rate): the weights given to
`_fixed_changepoints` are unchanged, so the same changepoints are chosen; both returned breakpoint
vectors are multiplied by `c`. -/
theorem mutational_timescale_equivariant (ofNat : Nat → α) (c k : α) (hc : 0 < c) (hk : c * k = 1)
    (t : List α) (lik : List (α × α)) (edges : List (Nat × Nat)) (maxIntervals : Nat) :
    mutTimescale ofNat (smul c t) (rateRows k lik) edges maxIntervals =
      (smul c (mutTimescale ofNat t lik edges maxIntervals).1,
        smul c (mutTimescale ofNat t lik edges maxIntervals).2) :=
  mutTimescale_smul ofNat c k hc hk t lik edges maxIntervals

/-- **`piecewise_scale_point_estimate` is equivariant**: breakpoints scale, slopes are unchanged, each
point falls in the same interval, mapped times scale. -/
theorem piecewise_equivariant (c : α) (hc : 0 < c) (x : List α) (fixed : List Bool) (orig resc : List α) :
    piecewisePoint (smul c x) fixed (smul c orig) (smul c resc) = smul c (piecewisePoint x fixed orig resc) :=
  piecewisePoint_smul c hc x fixed orig resc

/-- **The rescaling loop** (`rescale_iterations` rounds of timescale + piecewise map) is equivariant. -/
theorem rescale_loop_equivariant (ofNat : Nat → α) (c k : α) (hc : 0 < c) (hk : c * k = 1)
    (lik : List (α × α)) (edges : List (Nat × Nat)) (fixed : List Bool) (maxIntervals n : Nat) (t : List α) :
    rescaleLoop ofNat (rateRows k lik) edges fixed maxIntervals n (smul c t)
      = smul c (rescaleLoop ofNat lik edges fixed maxIntervals n t) :=
  rescaleLoop_smul ofNat c k hc hk lik edges fixed maxIntervals n t

/-! ### expectation propagation (tsdate/variational.py) -/

/-- `_damp` does not see the unit of time. -/
theorem damp_invariant (k : α) (hk : 0 < k) (x y : α × α) (s : α) :
    damp (rmul k x) (rmul k y) s = damp x y s := Scale.damp_invariant k hk x y s

/-- `_rescale` does not see the unit of time. -/
theorem rescale_invariant (k : α) (hk : 0 < k) (x : α × α) (s : α) :
    rescaleEta (rmul k x) s = rescaleEta x s := rescaleEta_invariant k hk x s

/-- **One edge update** of `propagate_likelihood` (skip / leafward / rootward / joint case), GIVEN
projection kernels that map rates to rates (`ProjEquivariant`; to be discharged for the translated
kernels): posterior and factor rates are multiplied by `k = 1/c`, shapes and the node scales unchanged,
the same damping and the same `max_shape` capping are applied. -/
theorem ep_edge_update_equivariant (c k : α) (hc : 0 < c) (hk : 0 < k) (P : Projections α)
    (hP : ProjEquivariant c k P) (edges : List (Nat × Nat)) (lik : List (α × α))
    (fixedAge : List (Option α)) (maxShape minStep tiny : α) (s : EPState α) (ei : Nat) :
    edgeUpdate P edges (lik.map (rmul k)) (fixedAge.map (Option.map (fun t => c * t))) maxShape minStep tiny
        (s.rate k) ei
      = (edgeUpdate P edges lik fixedAge maxShape minStep tiny s ei).rate k :=
  edgeUpdate_rate c k hc hk P hP edges lik fixedAge maxShape minStep tiny s ei

/-- The model's edge update is `edgePost ∘ edgePre`: stage B runs the two halves at `Float` with the REAL
projection kernel (approx.py) called in between on exactly the arguments `edgePre` computed, and compares the
resulting posterior, edge factor and scale bit-for-bit with a single-edge `propagate_likelihood`. -/
theorem ep_edge_update_split (P : Projections α) (edges : List (Nat × Nat)) (lik : List (α × α))
    (fixedAge : List (Option α)) (maxShape minStep tiny : α) (s : EPState α) (ei : Nat) :
    edgeUpdate P edges lik fixedAge maxShape minStep tiny s ei
      = edgePost P maxShape ei (edgePre edges lik fixedAge minStep tiny s ei) :=
  edgeUpdate_eq_post_pre P edges lik fixedAge maxShape minStep tiny s ei

/-- **`propagate_prior`**: the exponential regularisation penalty is a rate, the EM stopping rule
compares rates with rates, so the same number of EM steps is taken. -/
theorem propagate_prior_equivariant (ofNat : Nat → α) (k : α) (hk : 0 < k) (free : List Bool)
    (maxShape reltol : α) (maxitt : Nat) (s : EPState α) :
    propagatePrior ofNat free maxShape reltol maxitt (s.rate k)
      = (propagatePrior ofNat free maxShape reltol maxitt s).rate k :=
  propagatePrior_rate ofNat k hk free maxShape reltol maxitt s

/-- **Any number of full EP iterations** (likelihood pass over the edge order, `propagate_prior`,
`_rescale_factors`), by induction over edges and iterations, given equivariant projections. -/
theorem ep_iterate_equivariant (c k : α) (hc : 0 < c) (hk : 0 < k) (P : Projections α)
    (hP : ProjEquivariant c k P) (ofNat : Nat → α) (edges : List (Nat × Nat)) (lik : List (α × α))
    (fixedAge : List (Option α)) (roots : List Bool) (regularise : Bool)
    (maxShape minStep tiny reltol : α) (maxitt : Nat) (order : List Nat) (n : Nat) (s : EPState α) :
    epRun P ofNat edges (lik.map (rmul k)) (fixedAge.map (Option.map (fun t => c * t))) roots regularise
        maxShape minStep tiny reltol maxitt order n (s.rate k)
      = (epRun P ofNat edges lik fixedAge roots regularise maxShape minStep tiny reltol maxitt order n s).rate k :=
  epRun_rate c k hc hk P hP ofNat edges lik fixedAge roots regularise maxShape minStep tiny reltol maxitt order n s

/-- **C06 for `variational_gamma`, partial** (`rescaling_intervals = 0`): the posterior means and variances
returned by `node_moments` after any number of EP iterations from the all-zero state are multiplied by
`c` and `c²`.  Hypothesis: equivariant projection kernels.  Outside: mutation posteriors,
`piecewise_scale_posterior` (its point-estimate loop is `rescale_loop_equivariant`), unphased singletons. -/
theorem C06_vgamma_partial (c k : α) (hc : 0 < c) (hk : 0 < k) (hck : c * k = 1) (P : Projections α)
    (hP : ProjEquivariant c k P) (ofNat : Nat → α) (edges : List (Nat × Nat)) (lik : List (α × α))
    (fixedAge : List (Option α)) (roots : List Bool) (regularise : Bool)
    (maxShape minStep tiny reltol : α) (maxitt : Nat) (order : List Nat) (n : Nat) (s : EPState α) :
    nodeMoments (fixedAge.map (Option.map (fun t => c * t)))
        (epRun P ofNat edges (lik.map (rmul k)) (fixedAge.map (Option.map (fun t => c * t))) roots regularise
          maxShape minStep tiny reltol maxitt order n (s.rate k)).post
      = (nodeMoments fixedAge
          (epRun P ofNat edges lik fixedAge roots regularise maxShape minStep tiny reltol maxitt order n s).post).map
          (fun mv => (c * mv.1, c * c * mv.2)) := by
  rw [epRun_rate c k hc hk P hP]
  exact nodeMoments_rate c k hck fixedAge _

/-- **C06 for `variational_gamma` with the translated kernels, no hypothesis on the projections**
(`rescaling_intervals = 0`): with the projection kernels regenerated from approx.py/hypergeo.py on every run
(`Gen/Kernels.lean`) and proved scale-equivariant by the kernels cluster, for every interpretation `F` of
exp/log/sqrt/lgamma (`isFinite` value-independent), after any number of EP iterations the posterior means returned
by `node_moments` are multiplied by `c` and the variances by `c²`. -/
theorem C06_vgamma (F : Tsdate.Kernels.SpecFns α) (hfin : ∀ x, F.isFinite x = true) (c : α) (hc : 0 < c)
    (ofNat : Nat → α) (edges : List (Nat × Nat)) (lik : List (α × α))
    (fixedAge : List (Option α)) (roots : List Bool) (regularise : Bool)
    (maxShape minStep tiny reltol : α) (maxitt : Nat) (order : List Nat) (n : Nat) (s : EPState α) :
    nodeMoments (fixedAge.map (Option.map (fun t => c * t)))
        (epRun (genProjections F) ofNat edges (lik.map (rmul (1 / c))) (fixedAge.map (Option.map (fun t => c * t)))
          roots regularise maxShape minStep tiny reltol maxitt order n (s.rate (1 / c))).post
      = (nodeMoments fixedAge
          (epRun (genProjections F) ofNat edges lik fixedAge roots regularise maxShape minStep tiny reltol maxitt
            order n s).post).map (fun mv => (c * mv.1, c * c * mv.2)) :=
  C06_vgamma_partial c (1 / c) hc (one_div_pos.mpr hc) (mul_one_div_cancel (ne_of_gt hc)) (genProjections F)
    (genProjections_equivariant F c hc hfin) ofNat edges lik fixedAge roots regularise maxShape minStep tiny reltol
    maxitt order n s

/-- the all-zero initial state of `ExpectationPropagation.__init__` is its own rescaling -/
theorem initial_state_rate (k : α) (n m : Nat) :
    ({ post := List.replicate n (0, 0), edgeFac := List.replicate m ((0, 0), (0, 0)),
       nodeFac := List.replicate n (0, 0), scale := List.replicate n 1 } : EPState α).rate k
      = { post := List.replicate n (0, 0), edgeFac := List.replicate m ((0, 0), (0, 0)),
          nodeFac := List.replicate n (0, 0), scale := List.replicate n 1 } := by
  simp [EPState.rate, rmul, rmul2]

/-- **Posterior means through the constraint step**: means that scale by `c` (any method) give node times
that scale by `c` after `_constrain_ages` with `min_branch_length` × c. -/
theorem C06_means_to_node_times [Inhabited α] (c : α) (hc : 0 < c) (fixed : Array Bool) (eps : α)
    (es : List Edge) (means : List α) (iters : Nat) (hr : InRange means.length es) :
    ARel c (constrainAges (· + eps) (· + eps) fixed eps es means.toArray iters)
      (constrainAges (· + c * eps) (· + c * eps) fixed (c * eps) es (smul c means).toArray iters) := by
  apply constrainAges_rel c hc (· + eps) (· + eps) (· + c * eps) (· + c * eps)
    (fun x => by ring) (fun x => by ring)
  · refine ⟨by simp, ?_⟩
    intro i hi
    have hi' : i < means.length := by simpa using hi
    simp [aget, smul, hi']
  · simpa using hr

/-! ### finding F13: the interval estimate of `mutational_timescale` is discontinuous at ties of node times

In exact arithmetic ties are preserved by a change of unit (`mutational_timescale_equivariant` above: the epoch
index of every node is unchanged).  In floating point the posterior means of two symmetric nodes may differ by an
ulp in one run and coincide in an equivalent run; `mutational_timescale` then sees one more (almost empty) epoch,
and because `adjust[k+1] = z*y/n` sums the per-epoch *instantaneous* rates `counts`, `offset` without weighting
them by the epoch durations, that epoch counts as much as any other: the rescaled dates jump by percents.
Reproduced on the real code (corpus/C06/f13_near_tie.json, corpus/C07/f13_near_tie.json). -/

/-- The estimator of `mutTimescale` on one interval: two epochs of duration 1 with count rates 1, 3 and target
rates 1, 1 give `2·4/2 = 4`; if a node time splits the first epoch into pieces of duration `1 − ε` and `ε` (both
carrying the same rates), the estimate is `2·5/3 = 10/3` for EVERY `ε`, however small: the estimate does not
converge to the tied value as `ε → 0`. -/
theorem F13_timescale_estimate_discontinuous :
    sumRange [(1 : Rat), 1] 0 2 * sumRange [(1 : Rat), 3] 0 2 / sumRange [(1 : Rat), 1] 0 2 = 4 ∧
    ∀ ε : Rat, sumRange [1 - ε, ε, 1] 0 3 * sumRange [(1 : Rat), 1, 3] 0 3 / sumRange [(1 : Rat), 1, 1] 0 3
      = 10 / 3 := by
  refine ⟨by norm_num [sumRange, sumL], fun ε => ?_⟩
  simp only [sumRange, sumL, List.drop_zero, List.take, List.foldl_cons, List.foldl_nil]
  ring_nf

/-! ### tie of the hand-written damping functions to the translated source -/

/-- the translator-generated `_damp` (Gen/Kernels.lean, regenerated from variational.py on every run) is
the model's `damp`, hence scale-free: an absolute threshold introduced in the source breaks this proof -/
theorem generated_damp_invariant (F : Tsdate.Kernels.SpecFns α) (k : α) (hk : 0 < k) (x y : α × α) (s : α) :
    Tsdate.Gen.Kernels._damp F (rmul k x) (rmul k y) s = Tsdate.Gen.Kernels._damp F x y s :=
  gen_damp_invariant F k hk x y s

/-- the same for the translator-generated `_rescale` -/
theorem generated_rescale_invariant (F : Tsdate.Kernels.SpecFns α) (k : α) (hk : 0 < k) (x : α × α) (s : α) :
    Tsdate.Gen.Kernels._rescale F (rmul k x) s = Tsdate.Gen.Kernels._rescale F x s :=
  gen_rescale_invariant F k hk x s

/-! ### the whole statement -/

/-- `r'` is `r` in a unit of time `c` times smaller -/
def RunOut.ScaledBy (c : α) (r r' : RunOut α) : Prop :=
  r'.nodesTime = smul c r.nodesTime ∧ r'.mean = smul c r.mean ∧ r'.var = smul (c * c) r.var

/-- **The full statement of C06** for a dating function `date` of the unit-carrying inputs and the
transformation `scaleIn c` of the property text (mutation rate ÷ c; min_branch_length, population sizes,
epoch breaks, eps, user timepoints, sample ages × c).  Proved below for the Lean model of a whole
`inside_outside` run (`C06_inside_outside_run`); for the variational method the proved chain is
`C06_vgamma_partial` + `rescale_loop_equivariant` + `C06_means_to_node_times`; for the real `tsdate.date`
the statement is checked by the metamorphic oracle of stage C. -/
def C06_statement {I : Type} (scaleIn : α → I → I) (date : I → RunOut α) : Prop :=
  ∀ c : α, 0 < c → ∀ inp : I, RunOut.ScaledBy c (date inp) (date (scaleIn c inp))

/-- the transformation of the statement on the inputs of `inside_outside` -/
def scaleRunIn (c : α) (inp : RunIn α) : RunIn α :=
  { disc := inp.disc.scaleTime c, minBranch := c * inp.minBranch }

theorem scatter_rel [Inhabited α] (c : α) (idx : List Nat) (vals : List α) (a a' : Array α) (h : ARel c a a') :
    ARel c (scatter a idx vals) (scatter a' idx (smul c vals)) := by
  unfold scatter
  induction idx generalizing vals a a' with
  | nil => exact h
  | cons i is ih =>
    cases vals with
    | nil => exact h
    | cons v vs =>
      simp only [smul_cons, List.zip_cons_cons, List.foldl_cons]
      exact ih vs _ _ (h.aset i v)

theorem scatter_size [Inhabited α] (idx : List Nat) (vals : List α) (a : Array α) :
    (scatter a idx vals).size = a.size := by
  unfold scatter
  induction idx generalizing vals a with
  | nil => rfl
  | cons i is ih =>
    cases vals with
    | nil => rfl
    | cons v vs =>
      simp only [List.zip_cons_cons, List.foldl_cons]
      rw [ih, size_aset]

theorem toList_of_rel [Inhabited α] (c : α) (a a' : Array α) (h : ARel c a a') :
    a'.toList = smul c a.toList := by
  apply List.ext_getElem
  · simp [h.1]
  · intro i h1 h2
    have hi : i < a.size := by simpa using h2
    have := h.2 i hi
    simp only [aget] at this
    simp only [smul, List.getElem_map, Array.getElem_toList]
    have e1 : a'[i]? = some a'[i] := by simp [h.1, hi]
    have e2 : a[i]? = some a[i] := by simp [hi]
    simpa [e1, e2] using this

/-- **C06 holds for a whole `inside_outside` run of the model** (any Poisson pmf, any prior cdfs, any
inside/outside recursion that reads the unit-free view, any edge table in range, any iteration count):
node times and posterior means × c, posterior variances × c². -/
theorem C06_inside_outside_run [Inhabited α] {β : Type} (two : α) (pmf : Nat → α → β) (cdfs : List (α → α))
    (core : DiscreteFree α β → List (List α)) (nNodes : Nat) (nonfixed : List Nat) (fixed : Array Bool)
    (es : List Edge) (iters : Nat) (hr : InRange nNodes es) :
    C06_statement scaleRunIn (insideOutsideRun two pmf cdfs core nNodes nonfixed fixed es iters) := by
  intro c hc inp
  have hmv := C06_discrete two c hc pmf cdfs core inp.disc
  have h1 : (insideOutsideOut core (discreteView two pmf cdfs (inp.disc.scaleTime c))).map (fun x => x.1)
      = smul c ((insideOutsideOut core (discreteView two pmf cdfs inp.disc)).map (fun x => x.1)) := by
    rw [hmv]; simp [smul, List.map_map, Function.comp]
  have h2 : (insideOutsideOut core (discreteView two pmf cdfs (inp.disc.scaleTime c))).map (fun x => x.2)
      = smul (c * c) ((insideOutsideOut core (discreteView two pmf cdfs inp.disc)).map (fun x => x.2)) := by
    rw [hmv]; simp [smul, List.map_map, Function.comp]
  refine ⟨?_, h1, h2⟩
  simp only [insideOutsideRun, scaleRunIn, h1]
  apply toList_of_rel c
  have hbase : ARel c (Array.replicate nNodes (0 : α)) (Array.replicate nNodes (0 : α)) := by
    refine ⟨rfl, fun i hi => ?_⟩
    have hi' : i < nNodes := by simpa using hi
    simp [aget, hi']
  apply constrainAges_rel c hc (· + inp.minBranch) (· + inp.minBranch) (· + c * inp.minBranch)
    (· + c * inp.minBranch) (fun x => by ring) (fun x => by ring)
  · exact scatter_rel c nonfixed _ _ _ hbase
  · rw [scatter_size]; simpa using hr

/-! ### non-vacuity -/

example : timediffLowerTri [0, 1, 3] (1 : Rat) = [1, 2, 1, 4, 3, 1] := by decide +kernel
example : timediffLowerTri (smul 10 [0, 1, 3]) (10 * 1 : Rat) = smul 10 [1, 2, 1, 4, 3, 1] := by
  decide +kernel
example : likArgs [10, 20, 10, 40, 30, 10] (3 : Rat) 7 = [210, 420, 210, 840, 630, 210] := by
  decide +kernel
example : (meanVar [1, 2, 1] [0, 10, 30] : Rat × Rat) = (25 / 2, 475 / 4) := by
  simp [meanVar, sumL]; norm_num
example : InRange 5 [⟨3, 0⟩, ⟨3, 1⟩, ⟨4, 2⟩, ⟨4, 3⟩] := by simp [InRange]
-- a two-leaf tree with root 2 (nodes sorted by time): one epoch [0, 2); edge (2,0) with 4 mutations
example : epochIndex 3 [((0 : Rat), 0), (0, 1), (2, 2)] = ([0, 2], [0, 0, 1]) := by decide +kernel
example : areaEdge [0, 0, (2 : Rat)] [0, 0, 1] 1 [(0, 0)] ((2, 0), (4, 3)) = [(2, 3)] := by decide +kernel
example : piecewisePoint [(1 : Rat), 2] [false, false] [0, 2, 10] [0, 1, 10] = [1 / 2, 1] := by
  decide +kernel
example : damp ((1 : Rat), 4) (3 / 2, 1) (1 / 10) = damp ((1 : Rat), 4 * 7) (3 / 2, 1 * 7) (1 / 10) := by
  decide +kernel
-- a projection that satisfies `ProjEquivariant`: method of moments on (mean, variance) of given degree
example (c k : Rat) : ProjEquivariant c k
    { gamma := fun pi pj _ => (pi, pj), rootward := fun _ pi _ => pi, leafward := fun _ pj _ => pj } :=
  ⟨fun _ _ _ => rfl, fun _ _ _ => rfl, fun _ _ _ => rfl⟩
example : ARel (10 : Rat) #[0, 0, 0, 5, 2] #[0, 0, 0, 50, 20] := by
  refine ⟨rfl, fun i hi => ?_⟩
  have : i = 0 ∨ i = 1 ∨ i = 2 ∨ i = 3 ∨ i = 4 := by
    have : i < 5 := hi
    omega
  rcases this with rfl | rfl | rfl | rfl | rfl <;> simp [aget] <;> norm_num

end Tsdate.C06
