/-
Specification vocabulary for C34: which API keyword each command-line option is documented to feed,
which parsed values are consumed outside the API call, and the spellings a user may expect to work
for boolean options.
-/
import TsdateVerif.Model.Cli

namespace Tsdate.Cli

/-- The API parameter an option's `dest` stands for (tsdate.date / preprocess_ts signatures): the
same name, except `-e` (`--epsilon`) which is the discrete methods' `eps`. -/
def expectedKw (d : String) : String := if d = "epsilon" then "eps" else d

/-- Parsed values that are not API parameters: the input path (loaded and passed positionally),
the output path (dump target) and the verbosity (consumed by `setup_logging` in `tsdate_main`). -/
def ioDests : List String := ["tree_sequence", "output", "verbosity"]

def offSpellings : List String := ["False", "false", "0", "no"]
def onSpellings : List String := ["True", "true", "1", "yes"]

end Tsdate.Cli
