/-
Specification for C10: the discretised dating model on a single tree, by exhaustive enumeration.

    weight(x) = Π_{u non-fixed} prior_u(x_u)
              · Π_{edges e = (p, c)}  L_e(x_p, x_c) · [x_c ≤ x_p]        (fixed children sit at grid index 0)
    Z         = Σ_x weight(x)                       (x ranges over all maps non-fixed nodes → {0,…,G-1})
    marginal_u(t) = Σ_{x : x_u = t} weight(x)

Core Lean only, executable for small inputs (used by the driver at `Rat`).
-/
import TsdateVerif.Model.Discrete

namespace Tsdate.Discrete

/-- The discretised model: grid size, non-fixed nodes, edges, which nodes are fixed, prior rows and
per-edge likelihood `lik e a b` for parent index `a` and child index `b ≤ a`. -/
structure TreeModel (α : Type) where
  G : Nat
  nodes : List Nat
  edges : List DEdge
  fixed : Nat → Bool
  prior : Nat → Nat → α
  lik : DEdge → Nat → Nat → α

/-- `x[u := t]` -/
def upd (x : Nat → Nat) (u t : Nat) : Nat → Nat := fun v => if v = u then t else x v

section
variable {α : Type} [Add α] [Mul α] [OfNat α 0] [OfNat α 1]

def lprod (xs : List α) : α := xs.foldl (· * ·) 1

/-- Likelihood factor of one edge under a full assignment `x` of grid indices: a fixed child sits
at index 0; otherwise the child must not be older than the parent. -/
def edgeFactor (M : TreeModel α) (x : Nat → Nat) (e : DEdge) : α :=
  if M.fixed e.c then M.lik e (x e.p) 0
  else if x e.c ≤ x e.p then M.lik e (x e.p) (x e.c) else 0

/-- Joint weight of an assignment. -/
def weight (M : TreeModel α) (x : Nat → Nat) : α :=
  lprod (M.nodes.map (fun u => M.prior u (x u))) * lprod (M.edges.map (edgeFactor M x))

/-- Sum of `f` over all assignments of `{0,…,G-1}` to the listed nodes (others keep `x`). -/
def sumAssign (G : Nat) : List Nat → (Nat → Nat) → ((Nat → Nat) → α) → α
  | [], x, f => f x
  | u :: us, x, f => lsum ((List.range G).map (fun t => sumAssign G us (upd x u t) f))

/-- The exact normalising constant. -/
def bruteZ (M : TreeModel α) : α := sumAssign M.G M.nodes (fun _ => 0) (weight M)

/-- The exact (unnormalised) marginal of node `u` at grid index `t`. -/
def bruteMarginal (M : TreeModel α) (u t : Nat) : α :=
  sumAssign M.G M.nodes (fun _ => 0) (fun x => if x u = t then weight M x else 0)

end

/-- The model input read as a `TreeModel`: the non-fixed parents in processing order, all edges
below non-fixed parents, table entry `(a, b)` of a non-fixed child at packed position
`lowerIdx a b`, entry `a` of the vector of a fixed child. -/
def Input.toTreeModel {α : Type} [Inhabited α] (inp : Input α) : TreeModel α where
  G := inp.G
  nodes := ((groupRuns (·.p) inp.edges).filter (fun g => !aget inp.fixed g.1)).map (·.1)
  edges := ((groupRuns (·.p) inp.edges).filter (fun g => !aget inp.fixed g.1)).flatMap (·.2)
  fixed := fun u => aget inp.fixed u
  prior := fun u t => aget (aget inp.prior u) t
  lik := fun e a b =>
    if aget inp.fixed e.c then aget (aget inp.lik e.id) a else aget (aget inp.lik e.id) (lowerIdx a b)

end Tsdate.Discrete
