/-
Specification for C14: the closed form of the law of the number of extant ancestors when a subtree
of `k` of `n` tips coalesces (Wiuf & Donnelly 1999), and the moments of the coalescence time derived
from it.  That this *is* the Kingman conditional law is cited mathematics (trusted base); the
theorems compare the code's recursion with this closed form.
-/
import Mathlib.Data.Nat.Choose.Basic
import Mathlib.Algebra.BigOperators.Group.Finset.Basic
import Mathlib.Algebra.Field.Defs
import Mathlib.Order.Interval.Finset.Nat

namespace Tsdate.Coalescent
open Finset

variable {α : Type} [Field α]

/-- `P(a | k, n) = C(a,2) · C(n-a-1, k-2) / C(n, k+1)`, `2 ≤ a ≤ n-k+1`. -/
def closedP (n k a : ℕ) : α :=
  (a.choose 2 : α) * ((n - a - 1).choose (k - 2) : α) / (n.choose (k + 1) : α)

/-- Expected time (in units of 2N generations) while the whole sample has `a` … `n` lineages left,
i.e. the time back to the event that leaves `a` extant ancestors: `Σ_{i=a+1}^{n} 2/(i(i-1))`. -/
def hypoMeanSpec (n a : ℕ) : α := ∑ i ∈ Ico (a + 1) (n + 1), (2 : α) / ((i : α) * ((i : α) - 1))

/-- Variance of the same sum of independent exponentials: `Σ_{i=a+1}^{n} (2/(i(i-1)))²`. -/
def hypoVarSpec (n a : ℕ) : α := ∑ i ∈ Ico (a + 1) (n + 1), ((2 : α) / ((i : α) * ((i : α) - 1))) ^ 2

/-- Mean age of a node with `k < n` of `n` descendant tips under the closed form. -/
def specMean (n k : ℕ) : α := ∑ a ∈ Ico 2 (n - k + 2), closedP n k a * hypoMeanSpec n a

/-- Second moment. -/
def specSecond (n k : ℕ) : α :=
  ∑ a ∈ Ico 2 (n - k + 2), closedP n k a * (hypoVarSpec n a + hypoMeanSpec n a ^ 2)

/-- Variance of the age of a node with `k < n` of `n` descendant tips (law of total variance). -/
def specVar (n k : ℕ) : α := specSecond n k - specMean n k ^ 2

end Tsdate.Coalescent
