/-
Specification side of C17 (core Lean only): the time transform as the explicit piecewise integral
of `1 / measure`, and the transformed segment list.

A history is a list of segments `(start, measure)`; segment `k` covers `[start k, start (k+1))`, the
last one is unbounded.
-/

namespace Tsdate.Demography

section
variable {α : Type} [Add α] [Sub α] [Div α] [OfNat α 0] [OfNat α 1] [LT α] [DecidableLT α]

/-- `integFrom segs acc t = acc + ∫_{start 0}^{t} dt' / measure(t')`, written out piece by piece:
whole segments contribute `(b' - b) / m`, the segment containing `t` contributes `(t - b) / m`. -/
def integFrom : List (α × α) → α → α → α
  | [], acc, _ => acc
  | [(b, m)], acc, t => acc + (t - b) / m
  | (b, m) :: (b', m') :: rest, acc, t =>
      if t < b' then acc + (t - b) / m else integFrom ((b', m') :: rest) (acc + (b' - b) / m) t

/-- `∫_0^t 1/measure` for a history starting at 0 -/
def integ (segs : List (α × α)) (t : α) : α := integFrom segs 0 t

/-- The image history: segment starts are the accumulated integrals, measures are inverted. -/
def trFrom : List (α × α) → α → List (α × α)
  | [], _ => []
  | [(_, m)], acc => [(acc, 1 / m)]
  | (b, m) :: (b', m') :: rest, acc => (acc, 1 / m) :: trFrom ((b', m') :: rest) (acc + (b' - b) / m)

end

section
variable {α : Type} [Add α] [Sub α] [Div α] [OfNat α 0] [Max α] [Min α]

/-- `Σ_k |[b_k, b_{k+1}) ∩ [0, t)| / m_k`: the integral of `1/measure` over `[0, t)` as the sum over epochs of
(length of the overlap of the epoch with `[0, t)`) / measure; the last epoch is unbounded. This is the
statement of the property in its most literal form. -/
def overlapSum : List (α × α) → α → α
  | [], _ => 0
  | [(b, m)], t => max 0 (t - b) / m
  | (b, m) :: (b', m') :: rest, t => max 0 (min t b' - b) / m + overlapSum ((b', m') :: rest) t

end

end Tsdate.Demography
