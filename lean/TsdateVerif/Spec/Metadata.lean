/-
Readable specification vocabulary for C32 (what the theorems compare the model of
`set_time_metadata` to).
-/
import TsdateVerif.Model.Metadata

namespace Tsdate.Metadata

/-- Row `i` of the result when time metadata is written on top of existing rows:
`rows[i]` with `mn := mean[i]`, `vr := var[i]` (all three lists cut to the shortest). -/
def mergedRows {V : Type} : List (Row V) → List V → List V → List (Row V)
  | r :: rs, mn :: mns, vr :: vrs => mergeTime r mn vr :: mergedRows rs mns vrs
  | _, _, _ => []

/-- "The existing schema can encode them": there is a schema and it validates every row once
`mn`/`vr` are added. -/
def canEncode {S V : Type} (admits : S → Row V → Bool) (t : Table S V) (mean var : List V) : Bool :=
  match t.schema with
  | none => false
  | some s => (mergedRows (decoded t) mean var).all (admits s)

/-- The table after a successful in-place write: same schema, every row = old row + mn/vr. -/
def mergedTable {S V : Type} (t : Table S V) (mean var : List V) : Table S V :=
  { schema := t.schema, cells := (mergedRows (decoded t) mean var).map some }

/-- The table after clearing: default schema, every row exactly `{mn, vr}`. -/
def replacedTable {S V : Type} (dflt : S) (t : Table S V) (mean var : List V) : Table S V :=
  { schema := some dflt,
    cells := (mergedRows (t.cells.map (fun _ => ([] : Row V))) mean var).map some }

/-- "The table has neither schema nor metadata". -/
def blank {S V : Type} (t : Table S V) : Bool := !(hasBytes t || t.schema.isSome)

end Tsdate.Metadata
