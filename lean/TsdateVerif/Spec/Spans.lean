/-
Specification for C15: the direct per-tree tally of node spans, and the moments of a finite mixture.
-/
import TsdateVerif.Model.Spans
import Mathlib.Algebra.BigOperators.Group.List.Basic
import Mathlib.Algebra.Field.Defs

namespace Tsdate.Spans

section Tally
variable {α : Type} [Add α] [Sub α] [OfNat α 0]

/-- Total length of the trees in which node `u` is present with a `(T, k)` satisfying `cls`. -/
def tallyC (cls : Nat → Nat → Bool) (u : Nat) : List (TreeRec α) → α
  | [] => 0
  | t :: ts =>
    (match aget t.desc u with
      | some k => if cls t.total k = true then t.right - t.left else 0
      | none => 0) + tallyC cls u ts

/-- Total length of the local trees with `T` samples in which `u` has exactly `k` descendant samples. -/
def tally (trees : List (TreeRec α)) (u T k : Nat) : α :=
  tallyC (fun T' k' => T' == T && k' == k) u trees

/-- Total length of the local trees that contain `u`. -/
def presentSpan (trees : List (TreeRec α)) (u : Nat) : α := tallyC (fun _ _ => true) u trees

end Tally

section Mix
variable {α : Type} [Field α]

/-- Total weight of a list of components `(w, m, v)`. -/
def mixW (l : List (α × α × α)) : α := (l.map (fun x => x.1)).sum

/-- Mixture mean `Σ w m / Σ w`. -/
def mixMean (l : List (α × α × α)) : α := (l.map (fun x => x.1 * x.2.1)).sum / mixW l

/-- Mixture variance `Σ w (v + m²) / Σ w − mean²`. -/
def mixVar (l : List (α × α × α)) : α :=
  (l.map (fun x => x.1 * (x.2.2 + x.2.1 ^ 2))).sum / mixW l - mixMean l ^ 2

end Mix

end Tsdate.Spans
