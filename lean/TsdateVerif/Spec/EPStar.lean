/-
Specification side of C20: what a star input is and the closed-form posterior it should get.
-/
import Mathlib.Algebra.Order.Field.Basic
import Mathlib.Algebra.Group.Prod
import TsdateVerif.Model.EP

namespace Tsdate.EP

variable {α : Type} [Inhabited α] [Field α] [LinearOrder α] [IsStrictOrderedRing α]

/-- `(Σ mutation count, Σ mutation_rate·span)` over those of the first `K` edges whose parent is `p`:
the conjugate gamma posterior of `p` has natural parameters `likSum net p E`, i.e. shape `1 + Σ y` and rate
`μ·Σ span`. -/
def likSum (net : Net α) (p : Nat) : Nat → α × α
  | 0 => 0
  | k + 1 => likSum net p k + (if aget net.ep k = p then aget net.elik k else 0)

/-- Star-like input: no singleton blocks; every edge joins a non-fixed parent to a fixed child of age 0; counts are
non-negative and rate·span positive; all node ids in range. (All decidable; evaluated by the harness.) -/
structure StarNet (net : Net α) (N : Nat) : Prop where
  inRange : ∀ i, i < net.ep.size → aget net.ep i < N ∧ aget net.ec i < N
  noBlocks : net.bj.size = 0
  childFixed : ∀ i, i < net.ep.size → aget net.fixed (aget net.ec i) = true
  parentFree : ∀ i, i < net.ep.size → aget net.fixed (aget net.ep i) = false
  age0 : ∀ i, i < net.ep.size → aget net.lower (aget net.ec i) = 0
  yNonneg : ∀ i, i < net.ep.size → 0 ≤ (aget net.elik i).1
  muPos : ∀ i, i < net.ep.size → 0 < (aget net.elik i).2

end Tsdate.EP
