/-
Model of the discretised prior grid of `tsdate/prior.py` (C16): `create_timepoints`, one row of
`fill_priors` followed by `NodeTimeValues.standardize`, the set of non-fixed nodes, and the
explicit-timepoints path for a constant population size.

Python being modelled (abbreviated):

    def create_timepoints(base_priors, n_points):
        prior_params = base_priors.prior_with_max_total_tips()         # rows k = 2 .. max_tips-1
        percentiles = np.linspace(0, 1, n_points + 1)[1:-1]
        t_set = ppf(percentiles, *prior_params[2])
        max_sep = 1.0 / (n_points - 1)
        for i in np.arange(3, max_tips):
            proj = cdf(t_set, *prior_params[i])
            tmp = np.asarray([min(abs(val - proj)) for val in percentiles])
            wd = np.where(tmp > max_sep)
            if len(wd[0]) > 0:
                t_set = np.concatenate([t_set, ppf(percentiles[wd], *prior_params[i])])
        t_set = sorted(t_set)
        return np.insert(t_set, 0, 0)

    # fill_priors, per non-sample node
        prior_node = cdf_func(timepoints, main_param[node], scale=scale_param[node])
        prior_node = np.divide(prior_node, np.max(prior_node))
        prior_times[node] = np.concatenate([np.array([0]), np.diff(prior_node)])
    prior_times.standardize()      # grid_data / grid_data[:, 1:].max(axis=1)[:, newaxis]

    datable_nodes = all nodes except ts.samples(); nonfixed_nodes = datable_nodes[argsort(time[datable_nodes])]

The distribution functions (`ppf`, `cdf` of the lognormal / gamma with a row's parameters) are
*parameters* of the model; the driver answers them from tables of oracle values computed by scipy.
All arithmetic is elementwise IEEE (`-`, `/`, comparisons), so the model is run at `Float` and compared
bit for bit.
-/

namespace Tsdate.PriorGrid

section Row
variable {α : Type} [Sub α] [Div α] [LT α] [DecidableLT α] [OfNat α 0]

/-- Running maximum (`np.max`; no NaN in the inputs the model is run on). -/
def maxL : List α → α → α
  | [], m => m
  | x :: xs, m => maxL xs (if m < x then x else m)

/-- `np.max(xs)` (0 for the empty list, which the code never passes). -/
def maxOf : List α → α
  | [] => 0
  | x :: xs => maxL xs x

/-- `np.diff`. -/
def diffs : List α → List α
  | a :: b :: rest => (b - a) :: diffs (b :: rest)
  | _ => []

/-- One row before standardisation: `[0] ++ diff(F / max F)`; `F` = cdf at the timepoints. -/
def rawRow (F : List α) : List α :=
  let M := maxOf F
  0 :: diffs (F.map (fun x => x / M))

/-- `standardize` on one row: divide by the maximum over columns `1 …`. -/
def standardizeRow (row : List α) : List α :=
  let m := maxOf row.tail
  row.map (fun x => x / m)

/-- The stored row `prior[u]`. -/
def fillRow (F : List α) : List α := standardizeRow (rawRow F)

end Row

section Timepoints
variable {α : Type} [Sub α] [Neg α] [LT α] [DecidableLT α] [LE α] [DecidableLE α] [OfNat α 0]

/-- `abs(a - b)`. -/
def absSub (a b : α) : α :=
  let d := a - b
  if d < 0 then -d else d

/-- Python `min(xs)` with first element `m`. -/
def minL : List α → α → α
  | [], m => m
  | x :: xs, m => minL xs (if x < m then x else m)

/-- `min(abs(val - proj))`. -/
def minAbsDist (val : α) : List α → α
  | [] => 0
  | p :: ps => minL (ps.map (absSub val)) (absSub val p)

/-- `percentiles[wd]`: the percentiles farther than `maxSep` from every projected timepoint. -/
def selected (cdf : Nat → α → α) (percentiles : List α) (maxSep : α) (tset : List α) (i : Nat) : List α :=
  let proj := tset.map (cdf i)
  percentiles.filter (fun p => decide (maxSep < minAbsDist p proj))

/-- Loop body for row `i`. -/
def tpStep (ppf cdf : Nat → α → α) (percentiles : List α) (maxSep : α) (tset : List α) (i : Nat) : List α :=
  let wd := selected cdf percentiles maxSep tset i
  if wd.isEmpty then tset else tset ++ wd.map (ppf i)

/-- `t_set` before sorting: rows `3 … maxTips - 1` processed in order. -/
def tpUnsorted (ppf cdf : Nat → α → α) (percentiles : List α) (maxSep : α) (maxTips : Nat) : List α :=
  (List.range' 3 (maxTips - 3)).foldl (tpStep ppf cdf percentiles maxSep) (percentiles.map (ppf 2))

/-- `create_timepoints`: sorted, with 0 prepended. -/
def createTimepoints (ppf cdf : Nat → α → α) (percentiles : List α) (maxSep : α) (maxTips : Nat) : List α :=
  0 :: (tpUnsorted ppf cdf percentiles maxSep maxTips).mergeSort (fun a b => decide (a ≤ b))

end Timepoints

section Nodes

/-- `ts.samples()`: the ids whose flags have `NODE_IS_SAMPLE` (bit 0) set — taken from the flags
column, not from node positions. -/
def sampleIds (flags : List Nat) : List Nat :=
  (List.range flags.length).filter (fun u => flags.getD u 0 % 2 == 1)

/-- `datable_nodes`: every node id that is not a sample. -/
def datable (numNodes : Nat) (samples : List Nat) : List Nat :=
  (List.range numNodes).filter (fun u => !samples.contains u)

/-- `nonfixed_nodes = datable_nodes[argsort(time[datable_nodes])]` (a stable sort by time; numpy's
default argsort does not promise an order among ties, the harness compares up to ties). -/
def nonfixed {τ : Type} [LE τ] [DecidableLE τ] (numNodes : Nat) (samples : List Nat) (time : Nat → τ) : List Nat :=
  (datable numNodes samples).mergeSort (fun a b => decide (time a ≤ time b))

/-- `nonfixed_nodes` of a tree sequence given by its node flags and times. -/
def nonfixedOfFlags {τ : Type} [LE τ] [DecidableLE τ] (flags : List Nat) (time : Nat → τ) : List Nat :=
  nonfixed flags.length (sampleIds flags) time

/-- `row_lookup[u]`: `some r` = row `r` of `grid_data`; `none` = a fixed node (scalar slot). -/
def rowLookup (nonfixedNodes : List Nat) (u : Nat) : Option Nat :=
  let r := nonfixedNodes.idxOf u
  if r < nonfixedNodes.length then some r else none

end Nodes

section UserGrid
variable {α : Type} [Add α] [Mul α] [Div α] [LE α] [DecidableLE α] [OfNat α 0] [OfNat α 1]

/-- `to_coalescent_timescale` for a single epoch of diploid size `N` (`twoN = 2 N`):
`time_ago * 1.0 / time_measure[0] + step[0]`. -/
def toCoalConst (twoN : α) (t : α) : α := t * 1 / twoN + 0

/-- `to_natural_timescale` for a single epoch: the time measure is the coalescent rate `1.0 / (2N)`. -/
def toNatConst (twoN : α) (t : α) : α := t * 1 / (1 / twoN) + 0

/-- Explicit timepoints: `np.sort`, conversion to the coalescent scale (the grid the prior is evaluated
on) and back (the grid stored in the returned object). -/
def userGridStored (toCoal toNat : α → α) (user : List α) : List α :=
  ((user.mergeSort (fun a b => decide (a ≤ b))).map toCoal).map toNat

end UserGrid

end Tsdate.PriorGrid
