/-
Traversal orders of the discrete-time algorithms (tsdate/discrete.py, class `BeliefPropagation`)
and a generic model of a "pass" along such an order.

Python being modelled (abbreviated):

    def edges_by_parent_asc(self):        # the edge table order (tskit: nondecreasing parent time)
        return itertools.groupby(self.ts.edges(), operator.attrgetter("parent"))

    def edges_by_child_desc(self):
        it = (self.ts.edge(u) for u in np.lexsort(
                 (self.ts.edges_child, -self.ts.nodes_time[self.ts.edges_child])))
        return itertools.groupby(it, operator.attrgetter("child"))

    def edges_by_child_then_parent_desc(self):
        w["child_age"] = nodes_time[edges_child]; w["child_node"] = edges_child
        w["parent_age"] = -nodes_time[edges_parent]
        sorted_child_parent = (self.ts.edge(i) for i in reversed(
                 np.argsort(w, order=("child_age", "child_node", "parent_age"))))
        return itertools.groupby(sorted_child_parent, operator.attrgetter("child"))

`np.lexsort` is a stable sort on the keys read from last to first; `np.argsort` on a structured
array sorts lexicographically on the listed fields (ties on *all* fields are in no specified order);
`itertools.groupby` yields the maximal runs of consecutive items with equal key.

The passes (`inside_pass`, `outside_pass`) have the common shape

    for dst, edges in <grouped iterator>:
        if dst in fixednodes: continue
        val = <start value of dst>
        for edge in edges:
            [if ignore_oldest_root and edge.parent == num_nodes - 1: continue]
            val = combine(val, message(edge, state[src of edge]))
        state[dst] = normalise(val)

which is `pass` below: `step e x v` is `combine(v, message(e, x))` (or `v` for an ignored edge),
`finish` the normalisation, `skip` the fixed-node test.

Everything is generic in the number type (only `LT` is used by the sort keys).
-/
import TsdateVerif.Model.Arr

namespace Tsdate.Order

/-! ### `itertools.groupby` -/

/-- Maximal runs of consecutive elements with equal key (`itertools.groupby`). -/
def runsBy {ε : Type} (key : ε → Nat) : List ε → List (List ε)
  | [] => []
  | e :: es =>
    match runsBy key es with
    | [] => [[e]]
    | [] :: gs => [e] :: gs      -- unreachable: runs are never empty
    | (e' :: g) :: gs => if key e = key e' then (e :: e' :: g) :: gs else [e] :: (e' :: g) :: gs

/-! ### sort keys of the three iterators

Edges are referred to by their row number; `child`/`parent` are the edge table columns and `time`
the node times. -/

section Keys
variable {α : Type} [Inhabited α] [LT α] [DecidableLT α]

/-- `edges_by_parent_asc`: the edge table order. -/
def byParentAsc (numEdges : Nat) : List Nat := List.range numEdges

/-- comparison used by `np.lexsort((child, -time[child]))`: primary key `-time[child]` ascending,
then `child` ascending. -/
def childDescLe (time : Array α) (child : Array Nat) (i j : Nat) : Bool :=
  let ti := aget time (aget child i)
  let tj := aget time (aget child j)
  if tj < ti then true
  else if ti < tj then false
  else decide (aget child i ≤ aget child j)

/-- `edges_by_child_desc`: stable sort by `(-time[child], child)`. -/
def byChildDesc (time : Array α) (child : Array Nat) : List Nat :=
  (List.range child.size).mergeSort (childDescLe time child)

/-- ascending comparison on the structured key `(child_age, child_node, -parent_age)`. -/
def childParentLe (time : Array α) (child parent : Array Nat) (i j : Nat) : Bool :=
  let ci := aget child i
  let cj := aget child j
  let ti := aget time ci
  let tj := aget time cj
  if ti < tj then true
  else if tj < ti then false
  else if ci < cj then true
  else if cj < ci then false
  else
    -- third field is `-time[parent]`, ascending
    let pi := aget time (aget parent i)
    let pj := aget time (aget parent j)
    if pj < pi then true else if pi < pj then false else true

/-- `edges_by_child_then_parent_desc`: ascending sort on `(child_age, child_node, -parent_age)`,
reversed. (Where all three fields tie numpy's order is unspecified; the model keeps row order.) -/
def byChildThenParentDesc (time : Array α) (child parent : Array Nat) : List Nat :=
  ((List.range child.size).mergeSort (childParentLe time child parent)).reverse

end Keys

/-! ### a pass along a grouped edge order -/

/-- A directed edge of a pass: information flows from `src` to `dst`
(inside pass: child → parent; outside pass and maximization: parent → child). -/
structure DEdge where
  src : Nat
  dst : Nat
  id : Nat
deriving DecidableEq, Repr, Inhabited

/-- The node-level operations of a pass. -/
structure PassOps (β : Type) where
  /-- value a group starts from -/
  init : Nat → β
  /-- `step e x v`: fold the message of edge `e`, computed from the state `x` of its source, into `v` -/
  step : DEdge → β → β → β
  /-- normalisation applied when the group is complete -/
  finish : Nat → β → β
  /-- groups skipped entirely (`if dst in fixednodes: continue`) -/
  skip : Nat → Bool

/-- key of a group (`itertools.groupby` key) -/
def gkey : List DEdge → Nat
  | [] => 0
  | e :: _ => e.dst

section Pass
variable {β : Type} [Inhabited β]

/-- value computed for a group from the current state -/
def groupVal (ops : PassOps β) (look : Nat → β) (g : List DEdge) : β :=
  ops.finish (gkey g) (g.foldl (fun v e => ops.step e (look e.src) v) (ops.init (gkey g)))

/-- one group of the loop -/
def passGroup (ops : PassOps β) (st : Array β) (g : List DEdge) : Array β :=
  match g with
  | [] => st
  | e0 :: _ => if ops.skip e0.dst then st else aset st e0.dst (groupVal ops (aget st) g)

/-- the loop over groups -/
def passGroups (ops : PassOps β) (st : Array β) (gs : List (List DEdge)) : Array β :=
  gs.foldl (passGroup ops) st

/-- a whole pass along the edge order `es` -/
def pass (ops : PassOps β) (st : Array β) (es : List DEdge) : Array β :=
  passGroups ops st (runsBy (·.dst) es)

end Pass

end Tsdate.Order
