/-
Model of `tsdate.util.sites_time_from_ts`, `nodes_time_unconstrained` and `add_sampledata_times`
(tsdate/util.py).

Python source, abbreviated:

    def nodes_time_unconstrained(ts):
        nodes_time = ts.nodes_time.copy()
        for index, met in enumerate(unpack_bytes(metadata, metadata_offset)):
            if index not in ts.samples():
                try: nodes_time[index] = json.loads(met.decode())["mn"]
                except (KeyError, JSONDecodeError): raise ValueError(...)
        return nodes_time

    def sites_time_from_ts(ts, *, unconstrained=True, node_selection="child", min_time=1):
        if ts.num_sites < 1: raise ValueError
        if node_selection not in [...]: raise ValueError
        nodes_time = nodes_time_unconstrained(ts) if unconstrained else ts.nodes_time
        sites_time = np.full(ts.num_sites, np.nan)
        for tree in ts.trees():
            for site in tree.sites():
                for mutation in site.mutations:
                    parent_node = tree.parent(mutation.node)
                    if node_selection == "child" or parent_node == NULL: age = nodes_time[mutation.node]
                    else:
                        parent_age = nodes_time[parent_node]
                        if   node_selection == "parent":     age = parent_age
                        elif node_selection == "arithmetic": age = (nodes_time[mutation.node] + parent_age) / 2
                        elif node_selection == "geometric":  age = np.sqrt(nodes_time[mutation.node] * parent_age)
                    if np.isnan(sites_time[site.id]) or sites_time[site.id] < age: sites_time[site.id] = age
                if sites_time[site.id] < min_time: sites_time[site.id] = min_time
        return sites_time

    def add_sampledata_times(samples, sites_time):
        sites_bound = samples.min_site_times(individuals_only=True)     # tsinfer
        sites_time = np.maximum(sites_time, sites_bound); copy.sites_time[:] = sites_time

    tsinfer.SampleData.min_site_times(individuals_only=True):
        sites_bound = zeros; for each variant: derived = genotypes[historical] > 0
            if any(derived): b = max(historical_times[derived]); if b > sites_bound[s]: sites_bound[s] = b

Modelling choices.  NaN ("no mutation at this site") is `none`.  The node above a mutation is
computed by the model from the edge table (`parentAt`: the edge with that child covering the site's
position), so tskit's tree iteration is inside the model; that a valid tree sequence has at most one
such edge is tskit's invariant.  `sqrt` is a parameter (IEEE `sqrt` at Float).  The number type is
generic: bit-exact at `Float`, proved over any linear order.  JSON decoding of the `mn` field is done
by the harness (contract of `json`); the model sees `Option α` per node.
-/
import TsdateVerif.Model.Arr

namespace Tsdate.SiteTimes

inductive Sel where
  | child | parent | arithmetic | geometric
deriving DecidableEq, Repr, Inhabited

structure TEdge (α : Type) where
  left : α
  right : α
  parent : Nat
  child : Nat
deriving Repr, Inhabited

section
variable {α : Type} [Inhabited α] [Add α] [Mul α] [Div α] [OfNat α 2] [LT α] [DecidableLT α]

/-- `tree.parent(u)` in the tree covering position `x` (`none` = `tskit.NULL`). -/
def parentAt (es : List (TEdge α)) (x : α) (u : Nat) : Option Nat :=
  (es.find? (fun e => e.child == u && !decide (x < e.left) && decide (x < e.right))).map (·.parent)

/-- The `age` of one mutation: `tn` the age of its node, `tp` the age of the node above. -/
def mutAge (sqrt : α → α) (sel : Sel) (tn : α) (tp : Option α) : α :=
  match sel, tp with
  | .child, _ => tn
  | _, none => tn
  | .parent, some p => p
  | .arithmetic, some p => (tn + p) / 2
  | .geometric, some p => sqrt (tn * p)

/-- `if isnan(s) or s < age: s = age`. -/
def upd (s : Option α) (age : α) : Option α :=
  match s with
  | none => some age
  | some v => if v < age then some age else some v

/-- `if s < min_time: s = min_time` (false for NaN). -/
def floorMin (minTime : α) (s : Option α) : Option α :=
  s.map (fun v => if v < minTime then minTime else v)

/-- The per-site loop over an age list. -/
def siteFold (minTime : α) (ages : List α) : Option α :=
  floorMin minTime (ages.foldl upd none)

/-- Ages of the mutations of site number `i` at position `x`, in table order. -/
def agesOf (sqrt : α → α) (sel : Sel) (times : Array α) (es : List (TEdge α)) (muts : List (Nat × Nat))
    (i : Nat) (x : α) : List α :=
  (muts.filter (fun m => m.1 == i)).map (fun m =>
    mutAge sqrt sel (aget times m.2) ((parentAt es x m.2).map (aget times)))

/-- `sites_time_from_ts` given the node times to use. `sites` = positions, `muts` = (site, node). -/
def sitesTime (sqrt : α → α) (sel : Sel) (minTime : α) (times : Array α) (es : List (TEdge α))
    (sites : List α) (muts : List (Nat × Nat)) : List (Option α) :=
  (List.range sites.length).map (fun i =>
    siteFold minTime (agesOf sqrt sel times es muts i (aget sites.toArray i)))

/-- The loop of `nodes_time_unconstrained` over the node indices `is`; `none` = the `ValueError`
raised at the first non-sample node without an `mn` field. -/
def ntuGo (isSample : Array Bool) (time : Array α) (mn : Array (Option α)) : List Nat → Option (List α)
  | [] => some []
  | i :: is =>
    match (if aget isSample i then some (aget time i) else aget mn i) with
    | none => none
    | some t => (ntuGo isSample time mn is).map (t :: ·)

/-- `nodes_time_unconstrained`: `none` = ValueError (a non-sample node without an `mn` field). -/
def nodesTimeUnconstrained (isSample : Array Bool) (time : Array α) (mn : Array (Option α)) :
    Option (Array α) :=
  (ntuGo isSample time mn (List.range time.size)).map List.toArray

/-- `sites_time_from_ts` with the `unconstrained` switch; `none` = ValueError. -/
def sitesTimeFromTs (sqrt : α → α) (unconstrained : Bool) (sel : Sel) (minTime : α)
    (isSample : Array Bool) (time : Array α) (mn : Array (Option α)) (es : List (TEdge α))
    (sites : List α) (muts : List (Nat × Nat)) : Option (List (Option α)) :=
  if sites.length < 1 then none else
  if unconstrained then
    (nodesTimeUnconstrained isSample time mn).map (fun t => sitesTime sqrt sel minTime t es sites muts)
  else some (sitesTime sqrt sel minTime time es sites muts)

end

section Sampledata
variable {α : Type} [OfNat α 0] [LT α] [DecidableLT α]

/-- tsinfer's `min_site_times(individuals_only=True)` for one site: `carriers` = (sample time,
genotype) of every sample.  `time != 0` is written `time < 0 ∨ 0 < time` (the same for non-NaN
numbers; `Float` has no decidable equality). -/
def siteBound (carriers : List (α × Int)) : α :=
  carriers.foldl (fun b c => if (c.1 < 0 ∨ 0 < c.1) ∧ 0 < c.2 ∧ b < c.1 then c.1 else b) 0

/-- `np.maximum(est, bound)` with NaN = `none` propagating. -/
def maxBound (est : Option α) (bound : α) : Option α :=
  est.map (fun v => if v < bound then bound else v)

/-- `add_sampledata_times`: new site times. -/
def addSampledataTimes (est : List (Option α)) (carriers : List (List (α × Int))) : List (Option α) :=
  List.zipWith (fun e c => maxBound e (siteBound c)) est carriers

end Sampledata

end Tsdate.SiteTimes
