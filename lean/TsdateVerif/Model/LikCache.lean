/-
Model of the two mechanisms behind C09 (determinism / independence of thread count / prior reuse).

1. The unfixed-likelihood cache of `tsdate/discrete.py` `Likelihoods.precalculate_mutation_likelihoods`:

       self.unfixed_likelihood_cache = {(muts, e.span): None
            for muts, e in zip(self.mut_edges, self.ts.edges()) if e.child not in self.fixednodes}
       if num_threads:
           f = functools.partial(self._lik_wrapper, dt=…, mutation_rate=…, standardize=…)
           if num_threads == 1:
               for key in cache.keys():  returned_key, lik = f(key); cache[returned_key] = lik
           else:
               with multiprocessing.Pool(processes=num_threads) as pool:
                   for key, pmf in pool.imap_unordered(f, cache.keys()):   # ARBITRARY completion order
                       cache[key] = pmf
       else:
           for muts, span in cache.keys(): cache[muts, span] = self._lik(muts, span, …)

   The cache is a finite map; it is created with every key of a non-fixed-child edge mapped to `None`
   and then filled from `(key, value)` results arriving in an order chosen by the OS scheduler.
   `_lik` (a Poisson pmf vector) is a *parameter* of the model.

2. `tsdate/node_time_class.py` `NodeTimeValues.force_probability_space`, which
   `BeliefPropagation.__init__` applies *in place* to the user's prior object:

       LIN → LOG:  grid_data = np.log(grid_data)      (log 0 = -inf)
       LOG → LIN:  grid_data = np.exp(grid_data)      (exp -inf = 0)
       same space: nothing

   Values are modelled as `Option α`: in linear space `some x` with `x ≥ 0`; in log space `none` is
   `-inf`.  `lg`/`ex` are parameters (any pair of functions; the theorems state the law they need).

Core Lean only; executable (Driver/LikCache.lean).
-/

namespace Tsdate.LikCache

/-! ### 1. the cache -/

section Cache
variable {κ υ : Type} [DecidableEq κ]

/-- A cache is an association list with distinct keys, in insertion order (a Python dict). -/
abbrev Cache (κ υ : Type) := List (κ × Option υ)

def dedup : List κ → List κ
  | [] => []
  | k :: ks => k :: (dedup ks).filter (· ≠ k)

/-- The dict comprehension: one entry per distinct key of an edge whose child is not fixed. -/
def initCache (edges : List (κ × Bool)) : Cache κ υ :=
  (dedup ((edges.filter (fun e => !e.2)).map (·.1))).map (fun k => (k, none))

/-- `cache[k] = v`: overwrite in place if present, else append. -/
def setKey (c : Cache κ υ) (k : κ) (v : υ) : Cache κ υ :=
  if c.any (·.1 = k) then c.map (fun e => if e.1 = k then (e.1, some v) else e) else c ++ [(k, some v)]

/-- Results arrive as `(key, value)` pairs in some order and are stored one by one. -/
def fill (c : Cache κ υ) (results : List (κ × υ)) : Cache κ υ :=
  results.foldl (fun c r => setKey c r.1 r.2) c

def lookup (c : Cache κ υ) (k : κ) : Option (Option υ) :=
  (c.find? (·.1 = k)).map (·.2)

/-- The whole mechanism: keys from the edges, values from the workers, in `order` (a list of keys —
the order in which the pool hands results back). -/
def precalculate (lik : κ → υ) (edges : List (κ × Bool)) (order : List κ) : Cache κ υ :=
  fill (initCache edges) (order.map (fun k => (k, lik k)))

/-- A *wrong* way to gather (the seeded-change example): results taken positionally, i.e. the i-th
value to arrive is stored under the i-th key. -/
def precalculatePositional (lik : κ → υ) (edges : List (κ × Bool)) (order : List κ) : Cache κ υ :=
  let keys := (initCache (υ := υ) edges).map (·.1)
  fill (initCache edges) (keys.zip (order.map lik))

end Cache

/-! ### 2. the probability-space switch -/

inductive Space where
  | lin | log
deriving DecidableEq, Repr, Inhabited

structure Grid (α : Type) where
  space : Space
  data : List (Option α)
deriving Repr, DecidableEq

section Force
variable {α : Type} [OfNat α 0]

/-- `np.log` on one linear-space entry (`log 0 = -inf = none`).  `isZero` is the test `x == 0`
(a parameter so that the same definition runs at `Float`, which has no decidable equality). -/
def toLog (isZero : α → Bool) (lg : α → α) : Option α → Option α
  | some x => if isZero x then none else some (lg x)
  | none => none          -- not a linear-space value; kept

/-- `np.exp` on one log-space entry (`exp -inf = 0`). -/
def toLin (ex : α → α) : Option α → Option α
  | some y => some (ex y)
  | none => some 0

/-- `force_probability_space`. -/
def force (isZero : α → Bool) (lg ex : α → α) (target : Space) (g : Grid α) : Grid α :=
  match g.space, target with
  | .lin, .lin => g
  | .log, .log => g
  | .lin, .log => { space := .log, data := g.data.map (toLog isZero lg) }
  | .log, .lin => { space := .lin, data := g.data.map (toLin ex) }

end Force

end Tsdate.LikCache
