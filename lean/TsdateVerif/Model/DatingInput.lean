/-
The data the dating algorithms can see.

`translate/readset.py` lists every tskit attribute read on the dating path (`Gen/ReadSet.lean`):
topology (`edges_*`, tree traversal), `nodes_time`, `nodes_flags` / `samples()`, mutation placement
(`mutations_node`, `sites_position[mutations_site]`, `Mutation.edge`), counts, `sequence_length` and —
only behind the `individuals_unphased[...]` guard — `nodes_individual` / `Individual.nodes`.
`DatingInput` is the record of exactly these; `project` extracts it from a `TableCollection`.
Everything a dating method computes is modelled as a function of `DatingInput` (`datingOf`), so
that "the dates do not depend on X" is the statement "`project` does not depend on X".
-/
import TsdateVerif.Model.Pipeline

namespace Tsdate.Pipeline
open Tsdate.Tables

structure DatingInput (α : Type) where
  sequenceLength : α
  /-- `nodes_time` -/
  nodesTime : List α
  /-- `nodes_flags & NODE_IS_SAMPLE` -/
  nodesSample : List Bool
  /-- (left, right, parent, child) in table order -/
  edges : List (α × α × Nat × Nat)
  /-- per mutation, in table order: position of its site (`none` if the site id is out of range) and node -/
  mutations : List (Option α × Nat)
  /-- `nodes_individual` and each individual's number of rows in the table — present only when
  singletons are treated as unphased -/
  individuals : Option (List Int × Nat)
deriving DecidableEq, Repr

/-- sample bit of a node's flags (`tskit.NODE_IS_SAMPLE = 1`) -/
def isSample (flags : Nat) : Bool := flags % 2 == 1

def project {α : Type} (phased : Bool) (t : TableCollection α) : DatingInput α :=
  { sequenceLength := t.sequenceLength
    nodesTime := t.nodes.map (·.time)
    nodesSample := t.nodes.map (fun n => isSample n.flags)
    edges := t.edges.map (fun e => (e.left, e.right, e.parent, e.child))
    mutations := t.mutations.map (fun m => ((t.sites[m.site]?).map (·.position), m.node))
    individuals := if phased then none else some (t.nodes.map (·.individual), t.individuals.length) }

/-- A dating method, abstractly: any function of the projected input. -/
def datingOf {α β : Type} (f : DatingInput α → β) (phased : Bool) (t : TableCollection α) : β :=
  f (project phased t)

/-- Insert a site without mutations in front of site number `k` and renumber the mutations' site
ids accordingly (what adding a monomorphic site to a tree sequence does to the tables). -/
def insertSite {α : Type} (t : TableCollection α) (k : Nat) (s : SiteRow α) : TableCollection α :=
  { t with sites := t.sites.take k ++ s :: t.sites.drop k,
           mutations := t.mutations.map (fun m => if k ≤ m.site then { m with site := m.site + 1 } else m) }

/-- The state `_block_singletons` keeps per individual is only touched through `guarded`; a whole run
is a fold of guarded steps over the individuals met along the genome. -/
def guardedRun {σ : Type} (unphased : Nat → Bool) (steps : List (Int × (σ → σ))) (s : σ) : σ :=
  steps.foldl (fun acc st => guarded unphased st.1 st.2 acc) s

end Tsdate.Pipeline
