/-
Model of tsdate's output stage (tsdate/core.py) and of the posterior summaries it reports.

Python being modelled (abbreviated):

    def get_modified_ts(self, result):
        ts = self.ts
        node_mean_t, node_var_t = result.posterior_mean, result.posterior_var
        mut_mean_t, mut_var_t, mut_node = result.mutation_mean, result.mutation_var, result.mutation_node
        tables = ts.dump_tables(); nodes = tables.nodes; mutations = tables.mutations
        tables.time_units = self.time_units
        self.set_time_metadata(nodes, node_mean_t, node_var_t, schemas.default_node_schema)
        self.set_time_metadata(mutations, mut_mean_t, mut_var_t, schemas.default_mutation_schema)
        nodes.time = util.constrain_ages(ts, node_mean_t, self.min_branch_length, self.constr_iterations)
        mutations.node = mut_node
        mutations.time = np.full_like(mutations.time, tskit.UNKNOWN_TIME)
        mutations.parent = np.full_like(mutations.parent, tskit.NULL)
        tables.sort(); tables.build_index()
        tables.compute_mutation_parents(); tables.compute_mutation_times()
        if self.provenance_params is not None:
            provenance.record_provenance(tables, ...)        # tables.provenances.add_row(...)
        return tables.tree_sequence()

    def set_time_metadata(self, table, mean, var, default_schema):
        def _time_md_array(table, mean, var):
            schema = table.metadata_schema
            if schema.schema is None: raise MetadataEncodingError
            md_iter = (row.metadata for row in table) if len(table.metadata) > 0 else ({} for _ in rows)
            for metadata_dict, mn, vr in zip(md_iter, mean, var):
                metadata_dict.update((("mn", mn), ("vr", vr)))
                metadata_array.append(schema.validate_and_encode_row(metadata_dict))
        if self.set_metadata is False or var is None: return
        assert len(mean) == len(var) == table.num_rows
        try: table.packset_metadata(_time_md_array(table, mean, var))
        except (MetadataEncodingError, MetadataValidationError):
            if len(table.metadata) > 0 or table.metadata_schema.schema is not None:
                if not self.set_metadata: warn; return
                else: table.drop_metadata()
            table.metadata_schema = default_schema
            table.packset_metadata(_time_md_array(table, mean, var))

    DiscreteTimeMethod.mean_var(ts, posterior):
        mn[fixed] = ts.nodes_time[fixed]; va[fixed] = 0
        for u in nonfixed: probs = posterior[u]; times = posterior.timepoints
            mn[u] = sum(probs*times)/sum(probs); va[u] = sum((mn[u]-times)**2 * (probs/sum(probs)))

    NodeTimeValues.to_probabilities():  grid_data = grid_data / grid_data.sum(axis=1)[:, None]

    ExpectationPropagation.infer (end):  singletons = mutation_blocks != NULL
        mutation_nodes[singletons] = edge_children[switched_edges]        # mutation_nodes = ts.mutations_node.copy()

External behaviour (tskit's metadata codecs, `sort`, `compute_mutation_*`, `constrain_ages`, the
provenance record) enters through the parameter record `Env`; nothing about it is assumed here.
-/
import TsdateVerif.Model.Tables

namespace Tsdate.Pipeline
open Tsdate.Tables

/-! ### `set_time_metadata` -/

/-- tskit's metadata machinery, as far as `set_time_metadata` uses it. -/
structure Codec (α : Type) where
  /-- `schema.schema is not None` -/
  hasSchema : Bytes → Bool
  /-- decode `old` under the schema (`none` = start from `{}`), `update(mn=…, vr=…)`,
  `validate_and_encode_row`; `none` = `MetadataEncodingError` / `MetadataValidationError`. -/
  encodeRow : Bytes → Option Bytes → α → α → Option Bytes
  /-- read `mn`/`vr` back from an encoded row (used by the statements, not by the code). -/
  readMnVr : Bytes → Bytes → Option (α × α)

/-- The metadata column and schema of one table. -/
structure MdTable where
  mds : List Bytes
  schema : Bytes
deriving DecidableEq, Repr

/-- `len(table.metadata) > 0`: some row has non-empty metadata. -/
def anyMd (mds : List Bytes) : Bool := mds.any (fun m => m ≠ "")

/-- Encode the rows one by one; `none` as soon as one row fails. -/
def encodeAll {α : Type} (C : Codec α) (schema : Bytes) (useOld : Bool) :
    List Bytes → List α → List α → Option (List Bytes)
  | m :: ms, mn :: mns, vr :: vrs =>
    match C.encodeRow schema (if useOld then some m else none) mn vr with
    | none => none
    | some b => (encodeAll C schema useOld ms mns vrs).map (b :: ·)
  | _, _, _ => some []

/-- `_time_md_array`: `none` = raises. -/
def timeMdArray {α : Type} (C : Codec α) (t : MdTable) (mean var : List α) : Option (List Bytes) :=
  if C.hasSchema t.schema then encodeAll C t.schema (anyMd t.mds) t.mds mean var else none

inductive MdOutcome
  | skipped      -- `set_metadata is False` or no variance: nothing touched
  | written      -- first attempt succeeded, schema kept
  | warned       -- incompatible existing metadata and `set_metadata=None`: nothing touched
  | replaced     -- metadata dropped (if any), default schema set, rows written
  | raised       -- assertion failed or the default schema rejected the rows
deriving DecidableEq, Repr

/-- `set_time_metadata(table, mean, var, default_schema)`; `policy` is `self.set_metadata`. -/
def setTimeMetadata {α : Type} (C : Codec α) (policy : Option Bool) (dflt : Bytes) (t : MdTable)
    (mean : List α) (var : Option (List α)) : MdOutcome × MdTable :=
  match var with
  | none => (.skipped, t)
  | some var =>
    if policy = some false then (.skipped, t)
    else if ¬ (mean.length = var.length ∧ var.length = t.mds.length) then (.raised, t)
    else
      match timeMdArray C t mean var with
      | some md => (.written, { t with mds := md })
      | none =>
        let nonEmpty := anyMd t.mds || C.hasSchema t.schema
        if nonEmpty && policy ≠ some true then (.warned, t)
        else
          let t' : MdTable :=
            { mds := if nonEmpty then t.mds.map (fun _ => "") else t.mds, schema := dflt }
          match timeMdArray C t' mean var with
          | some md => (.replaced, { t' with mds := md })
          | none => (.raised, t')

/-! ### `get_modified_ts` -/

/-- The fields of `core.Results` that `get_modified_ts` uses. -/
structure Results (α : Type) where
  posteriorMean : List α
  posteriorVar : Option (List α)
  mutationMean : Option (List α)
  mutationVar : Option (List α)
  mutationNode : List Nat

structure Options where
  timeUnits : Bytes
  setMetadata : Option Bool
  recordProvenance : Bool

/-- Everything `get_modified_ts` obtains from outside. -/
structure Env (α : Type) where
  codec : Codec α
  nodeDefaultSchema : Bytes
  mutDefaultSchema : Bytes
  /-- `util.constrain_ages(ts, posterior_mean, eps, iters)` -/
  constrain : TableCollection α → List α → List α
  unknownTime : α
  sort : TableCollection α → TableCollection α
  computeParents : TableCollection α → List Int
  /-- `tables.compute_mutation_times()` (may re-sort the mutations of a site, see `TimesRel`) -/
  computeTimes : TableCollection α → TableCollection α
  provRow : TableCollection α → ProvRow

def nodeMd {α : Type} (t : TableCollection α) : MdTable := ⟨t.nodes.map (·.metadata), t.nodesSchema⟩
def mutMd {α : Type} (t : TableCollection α) : MdTable := ⟨t.mutations.map (·.metadata), t.mutationsSchema⟩

def putNodeMd {α : Type} (t : TableCollection α) (m : MdTable) : TableCollection α :=
  { t with nodes := setCol NodeRow.setMetadata t.nodes m.mds,
           nodesSchema := m.schema }
def putMutMd {α : Type} (t : TableCollection α) (m : MdTable) : TableCollection α :=
  { t with mutations := setCol MutRow.setMetadata t.mutations m.mds,
           mutationsSchema := m.schema }

/-- What `get_modified_ts` reports besides the tables (for the statements and the driver). -/
structure Trace where
  nodeMd : MdOutcome
  mutMd : MdOutcome
deriving DecidableEq, Repr

/-- First part: `tables.time_units = …` and the two `set_time_metadata` calls.
`none` = an assertion failed or the default schema rejected the rows. -/
def stageMd {α : Type} (E : Env α) (o : Options) (t0 : TableCollection α) (r : Results α) :
    Option (TableCollection α × Trace) :=
  let t1 := { t0 with timeUnits := o.timeUnits }
  let sn := setTimeMetadata E.codec o.setMetadata E.nodeDefaultSchema (nodeMd t1)
    r.posteriorMean r.posteriorVar
  if sn.1 = .raised then none else
  let t2 := putNodeMd t1 sn.2
  let sm := setTimeMetadata E.codec o.setMetadata E.mutDefaultSchema (mutMd t2)
    (r.mutationMean.getD []) r.mutationVar
  if sm.1 = .raised then none else
  some (putMutMd t2 sm.2, ⟨sn.1, sm.1⟩)

/-- Second part: `nodes.time = constrain_ages(…)`, `mutations.node = mut_node`,
`mutations.time = UNKNOWN`, `mutations.parent = NULL`. `none` = a column of the wrong length. -/
def stageCols {α : Type} (E : Env α) (t0 t3 : TableCollection α) (r : Results α) :
    Option (TableCollection α) :=
  (setCol? NodeRow.setTime t3.nodes (E.constrain t0 r.posteriorMean)).bind
  fun ns =>
  (setCol? MutRow.setNode t3.mutations r.mutationNode).bind
  fun ms =>
  some { t3 with nodes := ns,
                 mutations := ms.map (fun row => (row.setTime E.unknownTime).setParent (-1)) }

/-- Third part: `sort`, `build_index`, `compute_mutation_parents`, `compute_mutation_times`. -/
def stageTskit {α : Type} (E : Env α) (t5 : TableCollection α) : Option (TableCollection α) :=
  let t6 := E.sort t5
  (setCol? MutRow.setParent t6.mutations (E.computeParents t6)).bind
  fun ms7 =>
  some (E.computeTimes { t6 with mutations := ms7 })

/-- Last part: `provenance.record_provenance(tables, …)` when provenance is recorded. -/
def stageProv {α : Type} (E : Env α) (o : Options) (t8 : TableCollection α) : TableCollection α :=
  if o.recordProvenance then { t8 with provenances := t8.provenances ++ [E.provRow t8] } else t8

/-- `get_modified_ts(result)` on the dumped tables `t0`. `none` = an exception leaves the function
(an assertion in `set_time_metadata`, a rejected default schema, or a column of the wrong length). -/
def getModifiedTs {α : Type} (E : Env α) (o : Options) (t0 : TableCollection α) (r : Results α) :
    Option (TableCollection α × Trace) :=
  (stageMd E o t0 r).bind fun t3 =>
  (stageCols E t0 t3.1 r).bind fun t5 =>
  (stageTskit E t5).bind fun t8 =>
  some (stageProv E o t8, t3.2)

/-- Vocabulary of translator T5: where a value handed to `Results(...)` comes from. -/
inductive Src
  | none
  /-- an attribute path such as `self.ts.mutations_node` or `fit_obj.posterior_mean` -/
  | attr (path : String)
  /-- element `idx` of what the call `callee(args…)` returns (0 when it is not unpacked) -/
  | call (callee : String) (idx : Nat) (args : List String)
  | other (text : String)
deriving DecidableEq, Repr

/-- The `Results(...)` of one method's `run`, argument by argument, plus the methods called on
`fit_obj.posterior_grid` before `mean_var` is evaluated. -/
structure RunWiring where
  method : String
  posteriorMean : Src
  posteriorVar : Src
  mutationMean : Src
  mutationVar : Src
  mutationLik : Src
  mutationNode : Src
  fitObject : Src
  prep : List String
deriving DecidableEq, Repr

/-- The wiring of `get_modified_ts` in the vocabulary of translator T5 (`Gen/Results.lean`):
which field of `Results` reaches which consumer. Compared with the regenerated table by `decide`. -/
def modelMdCalls : List (Tbl × String × String × String) :=
  [(.nodes, "posterior_mean", "posterior_var", "default_node_schema"),
   (.mutations, "mutation_mean", "mutation_var", "default_mutation_schema")]
def modelTimeSource : String × String := ("constrain_ages", "posterior_mean")
def modelMutNodeSource : String := "mutation_node"
def modelMdKeys : List (String × String) := [("mn", "mean"), ("vr", "var")]

/-! ### `ExpectationPropagation.infer`: where `Results.mutation_node` comes from -/

/-- `mutation_nodes[singletons] = switched` with `singletons = mutation_blocks != NULL`:
a mutation keeps its input node unless it belongs to a block of unphased singletons. -/
def mutationMapping (inputNode : List Nat) (block : List Int) (switched : List Nat) : List Nat :=
  List.zipWith (fun (nb : Nat × Int) s => if nb.2 ≠ -1 then s else nb.1) (inputNode.zip block) switched

/-- `_block_singletons` touches its per-individual state only under
`if i != tskit.NULL and individuals_unphased[i]:` (every occurrence; checked by translator T4). -/
def guarded {σ : Type} (unphased : Nat → Bool) (ind : Int) (body : σ → σ) (s : σ) : σ :=
  if ind ≠ -1 ∧ unphased ind.toNat = true then body s else s

/-! ### Discrete posteriors: `to_probabilities`, `mean_var` -/

section Numeric
variable {α : Type} [Add α] [Sub α] [Mul α] [Div α] [OfNat α 0]

def sum (xs : List α) : α := xs.foldl (· + ·) 0

/-- `row / row.sum()` -/
def toProb (row : List α) : List α := row.map (· / sum row)

/-- `np.sum(probs * times) / np.sum(probs)` -/
def gridMean (probs times : List α) : α :=
  sum (List.zipWith (· * ·) probs times) / sum probs

/-- `np.sum((mn - times)**2 * (probs / np.sum(probs)))` -/
def gridVar (mn : α) (probs times : List α) : α :=
  sum (List.zipWith (fun p t => ((mn - t) * (mn - t)) * (p / sum probs)) probs times)

/-- One node of `DiscreteTimeMethod.mean_var`: `row = none` for a fixed node (reports its own
time and zero variance), otherwise the posterior grid row of the node. -/
def meanVarNode (times : List α) (nodeTime : α) (row : Option (List α)) : α × α :=
  match row with
  | none => (nodeTime, 0)
  | some probs => (gridMean probs times, gridVar (gridMean probs times) probs times)

/-- `mean_var(ts, posterior)`: one entry per node. -/
def meanVar (times : List α) (nodesTime : List α) (rows : List (Option (List α))) : List (α × α) :=
  List.zipWith (meanVarNode times) nodesTime rows

end Numeric

end Tsdate.Pipeline
