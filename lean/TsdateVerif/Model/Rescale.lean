/-
Model of the time-rescaling step of tsdate (tsdate/rescaling.py, `ExpectationPropagation.rescale` in
tsdate/variational.py).

    def mutational_area(nodes_time, likelihoods, edges_parent, edges_child):
        nodes_order = np.argsort(nodes_time); nodes_index = zeros; epoch_breaks = [0.0]; k = 0
        for i, j in zip(nodes_order[1:], nodes_order[:-1]):
            if nodes_time[i] > nodes_time[j]: epoch_breaks.append(nodes_time[i]); k += 1
            nodes_index[i] = k                              # dense rank of the node's time
        num_epochs = epoch_breaks.size - 1
        edges_length = nodes_time[edges_parent] - nodes_time[edges_child]
        edges_subset = edges_length > 0
        edges_counts = likelihoods.copy(); edges_counts[edges_subset, 0] /= edges_length[edges_subset]
        epoch_counts = np.zeros((num_epochs, 2))
        for e in np.flatnonzero(edges_subset):               # difference array
            a, b = nodes_index[c], nodes_index[p]
            if a < num_epochs: epoch_counts[a] += edges_counts[e]
            if b < num_epochs: epoch_counts[b] -= edges_counts[e]
        counts = np.cumsum(epoch_counts[:, 0]); offset = np.cumsum(epoch_counts[:, 1])
        duration = np.diff(epoch_breaks)
        return counts, offset, duration, nodes_index

    def mutational_timescale(nodes_time, likelihoods, nodes_fixed, edges_parent, edges_child, max_intervals):
        counts, offset, duration, indexes = mutational_area(...)
        epoch_breaks = np.append(0.0, np.cumsum(duration))
        changepoints = np.unique(_fixed_changepoints(offset * duration, max_intervals))
        adjust = np.zeros(changepoints.size); k = 0
        for i, j in zip(changepoints[:-1], changepoints[1:]):
            n = np.sum(offset[i:j]); y = np.sum(counts[i:j]); z = np.sum(duration[i:j])
            assert n > 0, "Zero edge span in interval"
            adjust[k + 1] = z * y / n; k += 1
        adjust = np.cumsum(adjust); origin = epoch_breaks[changepoints]
        # (since fix fa21a50, repair of finding F5) merge intervals that do not strictly increase both vectors
        keep = np.full(origin.size, False); keep[0] = True; last = 0; prev = 0
        for k in range(1, origin.size):
            if origin[k] > origin[last] and adjust[k] > adjust[last]:
                keep[k] = True; prev = last; last = k
        end = origin.size - 1
        if last == 0: return origin[[0, end]], origin[[0, end]]              # no information: identity time scale
        if last != end:                                                         # merge trailing intervals backwards
            keep[last] = False; keep[end] = True
            if not (origin[end] > origin[prev] and adjust[end] > adjust[prev]):
                return origin[[0, end]], origin[[0, end]]
        return origin[keep], adjust[keep]

    def piecewise_scale_point_estimate(point_estimate, point_fixed, original_breaks, rescaled_breaks):
        assert np.all(np.diff(rescaled_breaks) > 0), "Use fewer rescaling intervals"
        assert np.all(np.diff(original_breaks) > 0), "Use fewer rescaling intervals"
        scalings = np.append(np.diff(rescaled_breaks) / np.diff(original_breaks), 0)
        idx = np.searchsorted(original_breaks, point_estimate, "right") - 1
        rescaled_estimate = rescaled_breaks[idx] + scalings[idx] * (point_estimate - original_breaks[idx])
        rescaled_estimate[point_fixed] = point_estimate[point_fixed]

    piecewise_scale_posterior: the same map applied to midpt=(alpha+1)/beta and to two quantiles
        gammainc_inv(alpha+1, q)/beta of every free posterior; then
        alpha', _ = approximate_gamma_iqr(q_lo, q_hi, lower', upper', max_shape); beta' = (alpha'+1)/midpt'

    rescale(): iterate (mutational_timescale; piecewise_scale_point_estimate) `rescale_iterations` times on the
        posterior means, then recover the breaks on the original scale:
        _, unique = np.unique(rescaled_nodes_time[~nodes_fixed], return_index=True)
        original_breaks = piecewise_scale_point_estimate(rescaled_breaks, all-False,
            np.append(0, rescaled_nodes_time[~nodes_fixed][unique]), np.append(0, nodes_time[~nodes_fixed][unique]))

Generic in the number type; the special functions of the posterior step (`gammainc_inv`,
`approximate_gamma_iqr`) are inputs/outputs of the model, never axioms.
-/
import TsdateVerif.Model.Changepoints

namespace Tsdate.Rescale

@[inline] def lget {α : Type} [Inhabited α] (l : List α) (i : Nat) : α := (l[i]?).getD default

structure Edge where
  p : Nat
  c : Nat
deriving Repr, DecidableEq, Inhabited

/-- `np.diff` -/
def diffs {α : Type} [Sub α] : List α → List α
  | a :: b :: rest => (b - a) :: diffs (b :: rest)
  | _ => []

/-- running sums after the first element: `acc + x₁, acc + x₁ + x₂, …` -/
def cumsumFrom {α : Type} [Add α] : α → List α → List α
  | _, [] => []
  | acc, x :: xs => (acc + x) :: cumsumFrom (acc + x) xs

/-- `np.cumsum` (sequential running sum; the first entry is the first element itself) -/
def cumsum {α : Type} [Add α] : List α → List α
  | [] => []
  | x :: xs => x :: cumsumFrom x xs

/-- sequential `np.sum` as numba does it: start from 0 -/
def lsum {α : Type} [Add α] [OfNat α 0] (l : List α) : α := l.foldl (· + ·) 0

/-- `a[i:j]` -/
def slice {α : Type} (l : List α) (i j : Nat) : List α := (l.drop i).take (j - i)

/-! ### dense ranks of node times -/
section Rank
variable {α : Type} [LT α] [DecidableLT α]

/-- insert into a strictly increasing list keeping it strictly increasing (an equal entry is kept once) -/
def insertDistinct (x : α) : List α → List α
  | [] => [x]
  | y :: ys => if x < y then x :: y :: ys else if y < x then y :: insertDistinct x ys else y :: ys

/-- the distinct values of a list, strictly increasing -/
def distinctSorted (ts : List α) : List α := ts.foldr insertDistinct []

/-- `nodes_index`: the number of distinct node times strictly below `t` -/
def nodeIndex (d : List α) (t : α) : Nat := d.countP (fun x => decide (x < t))

end Rank

/-! ### `mutational_area` -/
section Area
variable {α : Type} [Inhabited α] [Add α] [Sub α] [Div α] [OfNat α 0] [LT α] [DecidableLT α]

/-- `arr[i] += v` -/
def addAt (arr : List α) (i : Nat) (v : α) : List α :=
  if i < arr.length then arr.set i (lget arr i + v) else arr

/-- `arr[i] -= v` -/
def subAt (arr : List α) (i : Nat) (v : α) : List α :=
  if i < arr.length then arr.set i (lget arr i - v) else arr

/-- one edge of the difference-array pass on one column: `if a < n: col[a] += v; if b < n: col[b] -= v` -/
def diffUpdate (n : Nat) (col : List α) (a b : Nat) (v : α) : List α :=
  let col1 := if a < n then addAt col a v else col
  if b < n then subAt col1 b v else col1

/-- the (child index, parent index, mutation rate, span) contributions of the edges with positive
length, in edge order -/
def edgeUpdates (times : List α) (idx : List Nat) (edges : List Edge) (lik : List (α × α)) :
    List (Nat × Nat × α × α) :=
  (edges.zip lik).filterMap (fun (e, l) =>
    let len := lget times e.p - lget times e.c
    if 0 < len then some (lget idx e.c, lget idx e.p, l.1 / len, l.2) else none)

/-- the difference array of one column after all updates -/
def diffArray (n : Nat) (ups : List (Nat × Nat × α)) : List α :=
  ups.foldl (fun col u => diffUpdate n col u.1 u.2.1 u.2.2) (List.replicate n 0)

/-- `epoch_breaks = [0.0] + [later distinct node times]` -/
def epochBreaks (d : List α) : List α := 0 :: d.tail

structure Area (α : Type) where
  counts : List α
  offset : List α
  duration : List α
  index : List Nat

/-- `mutational_area(nodes_time, likelihoods, edges_parent, edges_child)` -/
def mutationalArea (times : List α) (lik : List (α × α)) (edges : List Edge) : Area α :=
  let d := distinctSorted times
  let idx := times.map (nodeIndex d)
  let breaks := epochBreaks d
  let n := breaks.length - 1
  let ups := edgeUpdates times idx edges lik
  { counts := cumsum (diffArray n (ups.map (fun u => (u.1, u.2.1, u.2.2.1)))),
    offset := cumsum (diffArray n (ups.map (fun u => (u.1, u.2.1, u.2.2.2)))),
    duration := diffs breaks,
    index := idx }

end Area

/-! ### `mutational_timescale` -/
section Timescale
variable {α : Type} [Inhabited α] [Add α] [Sub α] [Mul α] [Div α] [OfNat α 0] [OfNat α 1]
  [LT α] [DecidableLT α] [LE α] [DecidableLE α]

/-- `np.unique` of a list of indices -/
def uniqueNat (l : List Nat) : List Nat := distinctSorted l

/-- the increments `z*y/n` per consecutive pair of changepoints; `none` = `assert n > 0` fails -/
def adjustSteps (counts offset duration : List α) : List Nat → Option (List α)
  | i :: j :: rest =>
    let n := lsum (slice offset i j)
    let y := lsum (slice counts i j)
    let z := lsum (slice duration i j)
    if 0 < n then (adjustSteps counts offset duration (j :: rest)).map (fun t => z * y / n :: t) else none
  | _ => some []

/-- the part of `mutational_timescale` before the merging step: `(origin, adjust)` as computed from the
changepoints, `none` when an assertion of the code fails -/
def mutationalTimescaleRaw (cast : Nat → α) (times : List α) (lik : List (α × α)) (edges : List Edge)
    (maxIntervals : Nat) : Option (List α × List α) :=
  let A := mutationalArea times lik edges
  let epochBreaks := Changepoints.prefixFrom 0 A.duration
  let mass := List.zipWith (· * ·) A.offset A.duration
  -- `_fixed_changepoints` asserts `epochs > 0`
  if !(decide (0 < maxIntervals)) then none else
  let cps := uniqueNat (Changepoints.fixedChangepoints cast mass maxIntervals)
  (adjustSteps A.counts A.offset A.duration cps).map (fun steps =>
    (cps.map (lget epochBreaks), cumsum (0 :: steps)))

/-- state of the scan over the breakpoints: the indices kept so far (in order), `last`, `prev` -/
structure Scan where
  kept : List Nat
  last : Nat
  prev : Nat

/-- `if origin[k] > origin[last] and adjust[k] > adjust[last]: keep[k] = True; prev = last; last = k` -/
def scanStep (origin adjust : List α) (s : Scan) (k : Nat) : Scan :=
  if lget origin s.last < lget origin k ∧ lget adjust s.last < lget adjust k then
    { kept := s.kept ++ [k], last := k, prev := s.last }
  else s

/-- the loop `for k in range(1, origin.size)` -/
def scan (origin adjust : List α) : Scan :=
  (List.range' 1 (origin.length - 1)).foldl (scanStep origin adjust) { kept := [0], last := 0, prev := 0 }

/-- the merging step appended by fix fa21a50: drop every breakpoint that does not strictly increase both
vectors, merge trailing ones backwards, identity time scale when nothing is informative -/
def mergeBreaks (origin adjust : List α) : List α × List α :=
  let s := scan origin adjust
  let e := origin.length - 1
  let ident := ([lget origin 0, lget origin e], [lget origin 0, lget origin e])
  if s.last = 0 then ident
  else if s.last ≠ e then
    if lget origin s.prev < lget origin e ∧ lget adjust s.prev < lget adjust e then
      ((s.kept.dropLast ++ [e]).map (lget origin), (s.kept.dropLast ++ [e]).map (lget adjust))
    else ident
  else (s.kept.map (lget origin), s.kept.map (lget adjust))

/-- `mutational_timescale(...)`: the merged `(origin, adjust)`, `none` when an assertion of the code fails -/
def mutationalTimescale (cast : Nat → α) (times : List α) (lik : List (α × α)) (edges : List Edge)
    (maxIntervals : Nat) : Option (List α × List α) :=
  (mutationalTimescaleRaw cast times lik edges maxIntervals).map (fun oa => mergeBreaks oa.1 oa.2)

end Timescale

/-! ### the piecewise-linear map -/
section Pwl
variable {α : Type} [Inhabited α] [Add α] [Sub α] [Mul α] [Div α] [OfNat α 0]
  [LT α] [DecidableLT α] [LE α] [DecidableLE α]

/-- `scalings = np.append(np.diff(rescaled_breaks) / np.diff(original_breaks), 0)` -/
def scalings (ob rb : List α) : List α := List.zipWith (· / ·) (diffs rb) (diffs ob) ++ [0]

/-- `np.searchsorted(breaks, x, "right")` -/
def searchRight (bs : List α) (x : α) : Nat := bs.countP (fun b => decide (b ≤ x))

/-- the map `x ↦ rescaled_breaks[i] + scalings[i] * (x - original_breaks[i])`, `i = searchsorted(...) - 1` -/
def pwlAt (ob rb : List α) (x : α) : α :=
  let i := searchRight ob x - 1
  lget rb i + lget (scalings ob rb) i * (x - lget ob i)

/-- `np.all(np.diff(l) > 0)` -/
def strictlyIncreasing (l : List α) : Bool := (diffs l).all (fun d => decide (0 < d))

/-- the two assertions "Use fewer rescaling intervals" and the size check -/
def pwlPre (ob rb : List α) : Bool :=
  ob.length == rb.length && strictlyIncreasing ob && strictlyIncreasing rb

/-- `piecewise_scale_point_estimate` -/
def piecewiseScalePoint (xs : List α) (fixed : List Bool) (ob rb : List α) : List α :=
  List.zipWith (fun x f => if f then x else pwlAt ob rb x) xs fixed

/-- the part of `piecewise_scale_posterior` before `approximate_gamma_iqr`: for a free posterior
`(alpha, beta)` with quantile values `qlo = gammainc_inv(alpha+1, q_lo)`, `qhi` likewise, the rescaled
`(midpt, lower, upper)` -/
def posteriorPoints [OfNat α 1] (ob rb : List α) (alpha beta qlo qhi : α) : α × α × α :=
  (pwlAt ob rb ((alpha + 1) / beta), pwlAt ob rb (qlo / beta), pwlAt ob rb (qhi / beta))

/-- the part after it: `beta' = (alpha' + 1) / midpt'` -/
def posteriorFromShape [OfNat α 1] (alphaNew midNew : α) : α × α := (alphaNew, (alphaNew + 1) / midNew)

end Pwl

/-! ### breakpoint recovery in `ExpectationPropagation.rescale` -/
section Recover
variable {α : Type} [Inhabited α] [Add α] [Sub α] [Mul α] [Div α] [OfNat α 0]
  [LT α] [DecidableLT α] [LE α] [DecidableLE α]

/-- insert a `(key, value)` pair into a list strictly increasing in the key; an existing key keeps its
(earlier) value — `np.unique(keys, return_index=True)` returns the first occurrence -/
def insertKey (kv : α × α) : List (α × α) → List (α × α)
  | [] => [kv]
  | y :: ys => if kv.1 < y.1 then kv :: y :: ys else if y.1 < kv.1 then y :: insertKey kv ys else kv :: ys

/-- pairs `(rescaled time, original time)` of the free nodes, distinct and increasing in the rescaled time;
folding from the right makes the *first* occurrence of a key win -/
def uniquePairs (pairs : List (α × α)) : List (α × α) := pairs.foldr insertKey []

/-- `original_breaks` recovered from the final `rescaled_breaks` -/
def recoverBreaks (rescaledBreaks : List α) (rescaledTimes times : List α) (fixed : List Bool) :
    List α × List α × List α :=
  let free := ((rescaledTimes.zip times).zip fixed).filterMap (fun (p, f) => if f then none else some p)
  let u := uniquePairs free
  let ob' := 0 :: u.map (·.1)
  let rb' := 0 :: u.map (·.2)
  (rescaledBreaks.map (pwlAt ob' rb'), ob', rb')

end Recover

/-! ### standalone `rescale_tree_sequence`

    fixed_nodes = (samples);  nodes_time = ts.nodes_time.copy()
    for _ in np.arange(num_iterations):
        original_breaks, rescaled_breaks = mutational_timescale(nodes_time, mutations_span, fixed_nodes, parent, child, num_intervals)
        nodes_time = piecewise_scale_point_estimate(nodes_time, fixed_nodes, original_breaks, rescaled_breaks)
    mutations_time = (nodes_time[mutations_parent] + nodes_time[mutations_child]) / 2
    mutations_time[above_root] = nodes_time[ts.mutations_node[above_root]]
-/
section Standalone
variable {α : Type} [Inhabited α] [Add α] [Sub α] [Mul α] [Div α] [OfNat α 0] [OfNat α 1] [OfNat α 2]
  [LT α] [DecidableLT α] [LE α] [DecidableLE α]

/-- the iteration loop; `none` = an assertion of `mutational_timescale` / `piecewise_scale_point_estimate` fails -/
def rescaleIter (cast : Nat → α) (lik : List (α × α)) (edges : List Edge) (fixed : List Bool)
    (numIntervals : Nat) : Nat → List α → Option (List α)
  | 0, t => some t
  | n + 1, t =>
    match mutationalTimescale cast t lik edges numIntervals with
    | none => none
    | some (ob, rb) =>
      if pwlPre ob rb then
        rescaleIter cast lik edges fixed numIntervals n (piecewiseScalePoint t fixed ob rb)
      else none

/-- time given to a mutation: midpoint of its edge, or the node's time for a mutation above a root
(`edge = none`) -/
def mutationTime (t : List α) (edge : Option Edge) (node : Nat) : α :=
  match edge with
  | some e => (lget t e.p + lget t e.c) / 2
  | none => lget t node

end Standalone

end Tsdate.Rescale
