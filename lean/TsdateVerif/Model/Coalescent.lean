/-
Model of the conditional-coalescent prior moments of `tsdate/prior.py` (C14).

Python being modelled (abbreviated):

    def _marginalize_over_ancestors(val):            # val[a] = moments given `a` extant ancestors
        n, N = val.shape
        pr_a_ln = [nan, nan, 0.0]                    # log Pr(a | k, n),  a = 2 ..
        out = zeros((n + 1, N))
        for k in range(n - 1, 1, -1):
            const = log(n - k) + log(k - 2) - log(k + 1)
            for a in range(2, n - k + 2):
                out[k] += exp(pr_a_ln[a]) * val[a]
                if k > 2:  pr_a_ln[a] += const - log(n - a - k + 2)
            if k > 2:  pr_a_ln.append(pr_a_ln[-1] + log(n - k + 2) - log(k + 1) - const)
        out[n] = val[1]
        return out

    def conditional_coalescent_variance(num_tips):
        coal_rates = [2 / (i * (i - 1)) if i > 1 else 0.0 for i in range(1, num_tips + 1)]
        mean = coal_rates.copy(); variance = coal_rates.copy() ** 2
        for i in range(coal_rates.size - 2, 0, -1):
            mean[i] += mean[i + 1]; variance[i] += variance[i + 1]
        moments = _marginalize_over_ancestors(stack((mean, variance + mean**2), 1))
        return moments[:, 1] - moments[:, 0] ** 2

    tau_expect(i, n)   = 2 * (1 - 1 / n) if i == n else (i - 1) / n
    tau_var_mrca(n)    = abs(4 * sum(1 / (v**2 * (v - 1)**2) for v in 2..n))
    gamma_approx(m, v) = (m**2 / v, m / v)
    lognorm_approx(m, v): beta = log(v / m**2 + 1); alpha = log(m) - 0.5 * beta

Modelling decisions (all stated in design_notes/C14.md):
* The code works with `log Pr`; the model is the same recursion in *multiplicative* form
  (`+ log x` ↦ `* x`, `- log x` ↦ `/ x`, `exp(pr_a_ln[a])` ↦ `pr[a]`), in the same order of
  operations, over a generic number type (run at `Rat`, proved over any field of characteristic 0).
* `pr` is the list `pr_a_ln[2:]`; list position `i` is `a = i + 2`.
* `n - a - k + 2` is evaluated by Python on signed integers; `a ≤ n - k + 1` makes it ≥ 1.  The model
  writes it as the natural number `n + 2 - a - k` (same value, no truncation).
* Inside one `k` iteration the code reads `pr_a_ln[a]` for the dot product and then updates the same
  entry; `innerLoop`/`margBody` do exactly that; the proofs use the separated form `margBodyRef` (dot
  product over the old list, then the update), shown equal in `Proofs/Coalescent.margBody_eq_ref`.
* The two moment columns share `pr_a_ln`; the model runs the recursion once per column.
* `log`/`exp` of `lognorm_approx` are parameters.
-/

namespace Tsdate.Coalescent

section Marg
variable {α : Type} [Add α] [Sub α] [Mul α] [Div α] [NatCast α]

/-- `exp(const)` of iteration `k`: `(n - k) * (k - 2) / (k + 1)`. -/
def stepConst (n k : Nat) : α :=
  ((n - k : Nat) : α) * ((k - 2 : Nat) : α) / ((k + 1 : Nat) : α)

/-- Inner-loop update `pr_a_ln[a] += const - log(n - a - k + 2)` for `a = a0, a0 + 1, …`. -/
def updFrom (n k : Nat) (c : α) : Nat → List α → List α
  | _, [] => []
  | a, p :: ps => p * c / ((n + 2 - a - k : Nat) : α) :: updFrom n k c (a + 1) ps

/-- `xs[-1]` (with a default for the empty list, which never occurs). -/
def lastD : List α → α → α
  | [], d => d
  | x :: xs, _ => lastD xs x

/-- One `k > 2` iteration on the probabilities: `Pr(· | k, n)` ↦ `Pr(· | k - 1, n)`; the appended
entry is `pr_a_ln[-1] + log(n - k + 2) - log(k + 1) - const` (using the *updated* last entry). -/
def margStep (n k : Nat) (pr : List α) : List α :=
  let c : α := stepConst n k
  let pr' := updFrom n k c 2 pr
  pr' ++ [lastD pr' ((1 : Nat) : α) * ((n - k + 2 : Nat) : α) / ((k + 1 : Nat) : α) / c]

/-- `Σ_a exp(pr_a_ln[a]) * val[a]` over the list, first entry being `a = a0`. -/
def dotFrom (val : Nat → α) : Nat → List α → α
  | _, [] => ((0 : Nat) : α)
  | a, p :: ps => p * val a + dotFrom val (a + 1) ps

/-- Loop state: the probabilities and the rows `out[k]` written so far (most recent first). -/
structure MState (α : Type) where
  pr : List α
  out : List (Nat × α)

/-- The inner loop `for a in range(2, n - k + 2)`, statement by statement: `out[k] += exp(pr_a_ln[a]) *
val[a]`, then (if `k > 2`) `pr_a_ln[a] += const - log(n - a - k + 2)`.  Returns the updated list and the
accumulated `out[k]`. -/
def innerLoop (n k : Nat) (c : α) (upd : Bool) (val : Nat → α) : Nat → List α → α → List α × α
  | _, [], acc => ([], acc)
  | a, p :: ps, acc =>
    let acc' := acc + p * val a
    let p' := if upd then p * c / ((n + 2 - a - k : Nat) : α) else p
    let r := innerLoop n k c upd val (a + 1) ps acc'
    (p' :: r.1, r.2)

/-- Body of `for k in range(n - 1, 1, -1)`, as the code runs it. -/
def margBody (n : Nat) (val : Nat → α) (s : MState α) (k : Nat) : MState α :=
  let c : α := stepConst n k
  let r := innerLoop n k c (decide (2 < k)) val 2 s.pr ((0 : Nat) : α)
  { out := (k, r.2) :: s.out
    pr := if 2 < k then
        r.1 ++ [lastD r.1 ((1 : Nat) : α) * ((n - k + 2 : Nat) : α) / ((k + 1 : Nat) : α) / c]
      else r.1 }

/-- The same body with the read and the write of the inner loop separated (`dotFrom`, then `margStep`);
equal to `margBody` in exact arithmetic (`Proofs/Coalescent.margBody_eq_ref`), used by the proofs. -/
def margBodyRef (n : Nat) (val : Nat → α) (s : MState α) (k : Nat) : MState α :=
  { out := (k, dotFrom val 2 s.pr) :: s.out
    pr := if 2 < k then margStep n k s.pr else s.pr }

/-- `fuel` iterations `k, k - 1, …`. -/
def margLoop (n : Nat) (val : Nat → α) : Nat → Nat → MState α → MState α
  | 0, _, s => s
  | f + 1, k, s => margLoop n val f (k - 1) (margBody n val s k)

/-- `_marginalize_over_ancestors` for one moment column: the rows `(k, out[k])` for `k = 2 … n`
(rows 0 and 1 of the code's output are never written and stay 0). -/
def marginalize (n : Nat) (val : Nat → α) : List (Nat × α) :=
  (margLoop n val (n - 2) (n - 1) { pr := [((1 : Nat) : α)], out := [] }).out ++ [(n, val 1)]

/-- The list `exp(pr_a_ln[2:])` at the start of iteration `k` (after the iterations `n-1, …, k+1`). -/
def prAt (n k : Nat) : List α :=
  (margLoop n (fun _ => ((0 : Nat) : α)) (n - 1 - k) (n - 1) { pr := [((1 : Nat) : α)], out := [] }).pr

end Marg

section Moments
variable {α : Type} [Add α] [Sub α] [Mul α] [Div α] [NatCast α]

/-- `2 / (i * (i - 1)) if i > 1 else 0.0` (`i * (i - 1)` is integer arithmetic in the code). -/
def coalRate (i : Nat) : α :=
  if 1 < i then ((2 : Nat) : α) / ((i * (i - 1) : Nat) : α) else ((0 : Nat) : α)

/-- `coal_rates`, entry `j` is `coalRate (j + 1)`. -/
def coalRates (n : Nat) : List α := (List.range n).map (fun j => coalRate (j + 1))

/-- Suffix sums: result`[i] = xs[i] + xs[i+1] + …` (the loop `x[i] += x[i+1]`, `i` descending). -/
def sufSums : List α → List α
  | [] => []
  | x :: xs =>
    match sufSums xs with
    | [] => [x]
    | s :: ss => (x + s) :: s :: ss

/-- `for i in range(size - 2, 0, -1): x[i] += x[i + 1]` — index 0 is left alone. -/
def cumFrom1 : List α → List α
  | [] => []
  | x :: xs => x :: sufSums xs

/-- The array `mean` after the loop. -/
def hypoMean (n : Nat) : List α := cumFrom1 (coalRates n)

/-- The array `variance` after the loop (`coal_rates ** 2`, then suffix sums). -/
def hypoVar (n : Nat) : List α := cumFrom1 ((coalRates n).map (fun r => r * r))

/-- First column of `np.stack((mean, variance + mean**2), 1)`. -/
def val1 (n : Nat) (a : Nat) : α := (hypoMean n).getD a ((0 : Nat) : α)

/-- Second column. -/
def val2 (n : Nat) (a : Nat) : α :=
  (hypoVar n).getD a ((0 : Nat) : α) + val1 n a * val1 n a

/-- `moments[k, 1] - moments[k, 0] ** 2`, rows `k = 2 … n`.  (`let`: the two arrays are computed
once, as in the code; `fun a => hm.getD a 0` is `val1 n`, the other one `val2 n`.) -/
def condCoalVar (n : Nat) : List (Nat × α) :=
  let hm : List α := hypoMean n
  let hv : List α := hypoVar n
  let v1 : Nat → α := fun a => hm.getD a ((0 : Nat) : α)
  let v2 : Nat → α := fun a => hv.getD a ((0 : Nat) : α) + v1 a * v1 a
  List.zipWith (fun m1 m2 => (m1.1, m2.2 - m1.2 * m1.2)) (marginalize n v1) (marginalize n v2)

/-- `moments[k, 0]`, rows `k = 2 … n` (not returned by the code; compared with `tau_expect`). -/
def condCoalMean (n : Nat) : List (Nat × α) :=
  let hm : List α := hypoMean n
  marginalize n (fun a => hm.getD a ((0 : Nat) : α))

/-- `ConditionalCoalescentTimes.tau_expect(i, n)`. -/
def tauExpect (i n : Nat) : α :=
  if i = n then ((2 : Nat) : α) * (((1 : Nat) : α) - ((1 : Nat) : α) / (n : α))
  else ((i - 1 : Nat) : α) / (n : α)

/-- `Σ_{v=2}^{n} 1 / (v**2 * (v - 1)**2)` as a left-to-right sum. -/
def mrcaSum : Nat → α
  | 0 => ((0 : Nat) : α)
  | 1 => ((0 : Nat) : α)
  | (v + 1) => mrcaSum v + ((1 : Nat) : α) / ((((v + 1) * (v + 1)) * (v * v) : Nat) : α)

/-- `gamma_approx(mean, variance)` = (shape, rate). -/
def gammaApprox (m v : α) : α × α := (m * m / v, m / v)

/-- `lognorm_approx(mean, var)` = (alpha, beta), with `log` a parameter. -/
def lognormApprox (log : α → α) (m v : α) : α × α :=
  let beta := log (v / (m * m) + ((1 : Nat) : α))
  (log m - beta / ((2 : Nat) : α), beta)

end Moments

section Abs
variable {α : Type} [Add α] [Sub α] [Mul α] [Div α] [Neg α] [NatCast α] [LT α] [DecidableLT α]

/-- `ConditionalCoalescentTimes.tau_var_mrca(n)` = `np.abs(4 * var)`. -/
def tauVarMrca (n : Nat) : α :=
  let x : α := ((4 : Nat) : α) * mrcaSum n
  if x < ((0 : Nat) : α) then -x else x

end Abs

end Tsdate.Coalescent
