/-
Model of a tskit `TableCollection` and of the table-writing operations that tsdate's output stage
(`EstimationMethod.get_modified_ts`, `set_time_metadata`, `provenance.record_provenance`;
tsdate/core.py, tsdate/provenance.py) performs on it.

Everything that is not a number is an opaque byte string (`Bytes`): flags are naturals, ids are
integers (`-1` = `tskit.NULL`), metadata / schemas / allele states / provenance records are `Bytes`.
The number type `α` (times, coordinates) is a parameter: the models never compute with it, so the
driver runs them with `α := String` (the 64-bit pattern in hex) and the theorems hold for every `α`.

`WOp` is the vocabulary of the write-set translator (translate/writeset.py → Gen/WriteSet.lean):
one constructor per *kind of statement that can change a table*.  `Step op a b` is the contract of
one such statement: what `b` may differ from `a` in (the value written is arbitrary).  For tskit's
own methods (`sort`, `build_index`, `compute_mutation_parents`, `compute_mutation_times`) the
contract is tskit's documented behaviour and is *assumed* (trusted base; `sort` and
`compute_mutation_times` are checked on every call the harness observes); for column assignments it is the meaning of the assignment.
-/

namespace Tsdate.Tables

abbrev Bytes := String

structure NodeRow (α : Type) where
  flags : Nat
  time : α
  population : Int
  individual : Int
  metadata : Bytes
deriving DecidableEq, Repr

structure EdgeRow (α : Type) where
  left : α
  right : α
  parent : Nat
  child : Nat
  metadata : Bytes
deriving DecidableEq, Repr

structure SiteRow (α : Type) where
  position : α
  ancestralState : Bytes
  metadata : Bytes
deriving DecidableEq, Repr

structure MutRow (α : Type) where
  site : Nat
  node : Nat
  time : α
  derivedState : Bytes
  parent : Int
  metadata : Bytes
deriving DecidableEq, Repr

structure IndRow (α : Type) where
  flags : Nat
  location : List α
  parents : List Int
  metadata : Bytes
deriving DecidableEq, Repr

structure PopRow where
  metadata : Bytes
deriving DecidableEq, Repr

structure MigRow (α : Type) where
  left : α
  right : α
  node : Nat
  source : Int
  dest : Int
  time : α
  metadata : Bytes
deriving DecidableEq, Repr

structure ProvRow where
  timestamp : Bytes
  record : Bytes
deriving DecidableEq, Repr

structure TableCollection (α : Type) where
  sequenceLength : α
  timeUnits : Bytes
  metadata : Bytes
  metadataSchema : Bytes
  refseq : Bytes
  nodes : List (NodeRow α)
  nodesSchema : Bytes
  edges : List (EdgeRow α)
  edgesSchema : Bytes
  sites : List (SiteRow α)
  sitesSchema : Bytes
  mutations : List (MutRow α)
  mutationsSchema : Bytes
  individuals : List (IndRow α)
  individualsSchema : Bytes
  populations : List PopRow
  populationsSchema : Bytes
  migrations : List (MigRow α)
  migrationsSchema : Bytes
  provenances : List ProvRow
deriving DecidableEq, Repr

/-! ### What the property speaks about: the part of a row that dating must not change -/

/-- flags, population, individual of a node (its id is its position in the list). -/
def NodeRow.frame {α : Type} (r : NodeRow α) : Nat × Int × Int := (r.flags, r.population, r.individual)

/-- site and derived state of a mutation. -/
def MutRow.key0 {α : Type} (r : MutRow α) : Nat × Bytes := (r.site, r.derivedState)
/-- site, node and derived state of a mutation. -/
def MutRow.key1 {α : Type} (r : MutRow α) : Nat × Nat × Bytes := (r.site, r.node, r.derivedState)
/-- site, node, derived state and metadata of a mutation. -/
def MutRow.key2 {α : Type} (r : MutRow α) : Nat × Nat × Bytes × Bytes :=
  (r.site, r.node, r.derivedState, r.metadata)
/-- A mutation row without its `parent` column (`sort` renumbers parents). -/
def MutRow.noParent {α : Type} (r : MutRow α) : MutRow α := { r with parent := -1 }

/-! ### Column assignment `table.col = values` (tskit raises when the length differs) -/

def NodeRow.setTime {α : Type} (r : NodeRow α) (t : α) : NodeRow α := { r with time := t }
def NodeRow.setMetadata {α : Type} (r : NodeRow α) (m : Bytes) : NodeRow α := { r with metadata := m }
def MutRow.setNode {α : Type} (r : MutRow α) (n : Nat) : MutRow α := { r with node := n }
def MutRow.setTime {α : Type} (r : MutRow α) (t : α) : MutRow α := { r with time := t }
def MutRow.setParent {α : Type} (r : MutRow α) (p : Int) : MutRow α := { r with parent := p }
def MutRow.setMetadata {α : Type} (r : MutRow α) (m : Bytes) : MutRow α := { r with metadata := m }

def setCol {ρ β : Type} (upd : ρ → β → ρ) (rows : List ρ) (vals : List β) : List ρ :=
  List.zipWith upd rows vals

def setCol? {ρ β : Type} (upd : ρ → β → ρ) (rows : List ρ) (vals : List β) : Option (List ρ) :=
  if vals.length = rows.length then some (setCol upd rows vals) else none

/-! ### The vocabulary of table writes -/

inductive Tbl
  | nodes | edges | sites | mutations | individuals | populations | migrations | provenances
  | collection
deriving DecidableEq, Repr

inductive WOp
  /-- `tables.<t>.<col> = …` (any column other than `metadata_schema`) -/
  | setColumn (t : Tbl) (col : String)
  /-- `tables.<t>.packset_metadata(…)` -/
  | packsetMetadata (t : Tbl)
  /-- `tables.<t>.metadata_schema = …` -/
  | setSchema (t : Tbl)
  /-- `tables.<t>.drop_metadata()` -/
  | dropMetadata (t : Tbl)
  /-- `tables.<t>.add_row(…)` / `append` -/
  | addRow (t : Tbl)
  /-- `tables.time_units = …` -/
  | setTimeUnits
  /-- any other method call on the `TableCollection` (`sort`, `build_index`, `simplify`, `subset`, …) -/
  | call (name : String)
  /-- any other method call on a single table (`set_columns`, `clear`, `truncate`, `keep_rows`, …) -/
  | tableCall (t : Tbl) (name : String)
  /-- a table or the collection is handed to code the analysis cannot see -/
  | escape (what : String)
deriving DecidableEq, Repr

/-- The writes the property permits `get_modified_ts` to make. -/
def allowed : List WOp := [
  .setTimeUnits,
  .setColumn .nodes "time",
  .packsetMetadata .nodes, .setSchema .nodes, .dropMetadata .nodes,
  .setColumn .mutations "node", .setColumn .mutations "time", .setColumn .mutations "parent",
  .packsetMetadata .mutations, .setSchema .mutations, .dropMetadata .mutations,
  .call "sort", .call "build_index", .call "compute_mutation_parents", .call "compute_mutation_times",
  .addRow .provenances]

section Contracts
variable {α : Type}

/-- tskit `TableCollection.sort()` on tables dumped from a valid tree sequence (sites already in
position order, mutations grouped by site): edge rows are permuted; mutation rows are permuted as
whole rows (their `parent` column is renumbered) and the site column stays as it was, so the
permutation acts within each site; migration rows are permuted (tskit sorts them by
(time, source, dest, left, node)); nothing else changes. -/
structure SortRel (a b : TableCollection α) : Prop where
  edges : b.edges.Perm a.edges
  muts : (b.mutations.map MutRow.noParent).Perm (a.mutations.map MutRow.noParent)
  mutSites : b.mutations.map (·.site) = a.mutations.map (·.site)
  migs : b.migrations.Perm a.migrations
  rest : { b with edges := a.edges, mutations := a.mutations, migrations := a.migrations } = a

/-- tskit `compute_mutation_times()`: assigns the `time` column and — as its documentation says —
"the mutation table will be sorted if the new times mean that the original order is no longer
valid": rows may again be permuted inside their site (measured: it happens), with the `parent`
column renumbered.  Everything except `time`/`parent` and the row order is kept. -/
structure TimesRel (a b : TableCollection α) : Prop where
  muts : (b.mutations.map MutRow.key2).Perm (a.mutations.map MutRow.key2)
  mutSites : b.mutations.map (·.site) = a.mutations.map (·.site)
  rest : { b with mutations := a.mutations } = a

/-- `b`'s mutation table is `a`'s with one column replaced. -/
def MutColSet {β : Type} (upd : MutRow α → β → MutRow α) (a b : TableCollection α) : Prop :=
  ∃ vals : List β, vals.length = a.mutations.length ∧ b = { a with mutations := setCol upd a.mutations vals }

def NodeColSet {β : Type} (upd : NodeRow α → β → NodeRow α) (a b : TableCollection α) : Prop :=
  ∃ vals : List β, vals.length = a.nodes.length ∧ b = { a with nodes := setCol upd a.nodes vals }

/-- Contract of one table-writing statement. For operations outside `allowed` nothing is promised. -/
def Step : WOp → TableCollection α → TableCollection α → Prop
  | .setTimeUnits, a, b => ∃ u, b = { a with timeUnits := u }
  | .setColumn .nodes "time", a, b => NodeColSet NodeRow.setTime a b
  | .packsetMetadata .nodes, a, b => NodeColSet NodeRow.setMetadata a b
  | .setSchema .nodes, a, b => ∃ s, b = { a with nodesSchema := s }
  | .dropMetadata .nodes, a, b =>
      b = { a with nodes := a.nodes.map (·.setMetadata ""), nodesSchema := "" }
  | .setColumn .mutations "node", a, b => MutColSet MutRow.setNode a b
  | .setColumn .mutations "time", a, b => MutColSet MutRow.setTime a b
  | .setColumn .mutations "parent", a, b => MutColSet MutRow.setParent a b
  | .packsetMetadata .mutations, a, b => MutColSet MutRow.setMetadata a b
  | .setSchema .mutations, a, b => ∃ s, b = { a with mutationsSchema := s }
  | .dropMetadata .mutations, a, b =>
      b = { a with mutations := a.mutations.map (·.setMetadata ""), mutationsSchema := "" }
  | .call "sort", a, b => SortRel a b
  | .call "build_index", a, b => b = a
  | .call "compute_mutation_parents", a, b => MutColSet MutRow.setParent a b
  | .call "compute_mutation_times", a, b => TimesRel a b
  | .addRow .provenances, a, b => ∃ r, b = { a with provenances := a.provenances ++ [r] }
  | _, _, _ => True

/-- `b` is reachable from `a` by a finite sequence of statements whose kinds are all in `W`. -/
inductive Reach (W : List WOp) : TableCollection α → TableCollection α → Prop
  | refl (a) : Reach W a a
  | step {a b c} (op : WOp) : op ∈ W → Step op a b → Reach W b c → Reach W a c

/-- **The statement of C02 on a pair (input tables, output tables).** Everything outside
`nodes.time`, `nodes.metadata(+schema)`, `mutations.time/parent/metadata(+schema)/node`,
`time_units` and appended provenance rows is the same: node rows one by one, sites, individuals,
populations, top-level metadata, reference sequence, sequence length and all other schemas exactly;
edges and migrations as multisets of rows; mutations as a multiset of (site, derived state) with
the site column (hence the number of mutations at each site) unchanged; old provenance rows are a
prefix of the new ones. -/
structure Frame (a b : TableCollection α) : Prop where
  nodes : b.nodes.map NodeRow.frame = a.nodes.map NodeRow.frame
  edges : b.edges.Perm a.edges
  migs : b.migrations.Perm a.migrations
  mutSites : b.mutations.map (·.site) = a.mutations.map (·.site)
  mutKeys : (b.mutations.map MutRow.key0).Perm (a.mutations.map MutRow.key0)
  prov : ∃ extra, b.provenances = a.provenances ++ extra
  rest : { b with nodes := a.nodes, nodesSchema := a.nodesSchema, edges := a.edges,
                  mutations := a.mutations, mutationsSchema := a.mutationsSchema,
                  migrations := a.migrations, provenances := a.provenances,
                  timeUnits := a.timeUnits } = a

end Contracts

end Tsdate.Tables
