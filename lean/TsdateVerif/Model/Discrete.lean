/-
Model of the discrete-time belief propagation of `tsdate/discrete.py`
(`Likelihoods`, `LogLikelihoods`, `BeliefPropagation.inside_pass / outside_pass`) and of the
posterior post-processing in `tsdate/core.py` (`InsideOutsideMethod.run`, `mean_var`).

The model is written on the code's own *packed* representation.  Python being modelled:

    # Likelihoods.__init__  (G = grid_size)
    row_indices[t] = (((n * (n + 1)) // 2) + t)[t:]          for n = arange(G)
    col_indices[i] = running_sum;  running_sum += G - i       (start of row i of the upper triangle)
    to_lower_tri   = concatenate([arange(i + 1) for i in arange(G)])
    to_upper_tri   = concatenate([arange(i, G) for i in arange(G + 1)])
    get_mut_lik_upper_tri(edge) = get_mut_lik_lower_tri(edge)[concatenate(row_indices)]
    rowsum_lower_tri(x) = np.add.reduceat(x, row_indices[0])  # log space: logsumexp per segment
    rowsum_upper_tri(x) = np.add.reduceat(x, col_indices)
    get_inside(arr, e)  = rowsum_lower_tri(arr * lower_lik[e])
    get_outside(arr, e) = rowsum_upper_tri(arr * upper_lik[e])
    get_fixed(arr, e)   = arr * fixed_lik[e]
    combine = * | + ;  ratio = / | - (div_0_null: nan -> null_constant);  scale_geometric = ** | *

    # inside_pass(standardize, cache_inside)
    for parent, edges in groupby(ts.edges(), parent):
        if parent in fixednodes: continue
        val = priors[parent].copy()
        for edge in edges:
            spanfrac = edge.span / spans[edge.child]
            if edge.child in fixednodes:
                edge_lik = get_fixed(scale_geometric(spanfrac, inside[edge.child]), edge)
            else:
                edge_lik = get_inside(scale_geometric(spanfrac, make_lower_tri(inside[edge.child])), edge)
            val = combine(val, edge_lik);  g_i[edge.id] = edge_lik
        denominator[parent] = max(val) if standardize else identity
        inside[parent] = ratio(val, denominator[parent])
        if standardize: marginal_lik = combine(marginal_lik, denominator[parent])
    g_i = ratio(g_i, denominator[edges_child, None])
    for root, span_when_root in root_spans.items():
        marginal_lik = combine(marginal_lik, marginalize(scale_geometric(span_when_root / spans[root], inside[root])))

    # outside_pass(standardize, ignore_oldest_root)
    outside = 0;  outside[root] = span_when_root / spans[root];  outside -> probability space
    for child, edges in groupby(edges_by_child_desc, child):
        if child in fixednodes: continue
        val = full(G, identity)
        for edge in edges:
            if ignore_oldest_root and edge.parent == num_nodes - 1: continue
            cur_g_i = ratio(<edge_lik as in the inside pass>, denominator[child])       # == g_i[edge.id]
            inside_div_gi = ratio(inside[edge.parent], cur_g_i, div_0_null=True)
            parent_val = scale_geometric(spanfrac, make_upper_tri(combine(outside[edge.parent], inside_div_gi)))
            if standardize: parent_val = ratio(parent_val, max(parent_val))
            val = combine(val, get_outside(parent_val, edge))
        outside[child] = ratio(val, denominator[child])
        if standardize: outside[child] = ratio(val, max(val))
    posterior_grid = combine(inside.grid_data, outside.grid_data)

Everything numeric goes through a record `Ops α` (the "semiring" of the probability space), so the
very same pass definitions are the linear-space algorithm (`linOps`: 1, 0, *, /, Σ, **) and the
log-space one (`logOps`: 0, -∞, +, -, streaming log-sum-exp, *).  They run at `Float` and `Rat`
and are proved over an arbitrary field.  Likelihood tables, prior rows, span fractions and the
edge orders are *inputs* (the harness passes the implementation's own arrays through).

API used by other clusters (keep stable): `lowerIdx`, `triSize`, `rowIndices`, `colStart`,
`colIndices`, `toLowerTri`, `toUpperTri`, `upperPerm`, `reduceat`, `Ops`, `linOps`, `logOps`,
`logsumexp`, `DEdge`, `Input`, `groupRuns`, `edgeMsg`, `InsideState`, `insidePass`, `outsidePass`,
`posteriorGrid`, `SpanEdge`, `edgeOfMut`, `mutEdges`, `Space`, `PriorObj`, `forceSpace`, `runPrior`, `runSeq`.
-/
import TsdateVerif.Model.Arr

namespace Tsdate.Discrete
open Tsdate

/-! ## Packed triangular indexing -/

/-- Position of entry (row `n`, column `t ≤ n`) in the flattened lower-triangular matrix. -/
def lowerIdx (n t : Nat) : Nat := n * (n + 1) / 2 + t

/-- `tri_size = G (G+1) / 2`. -/
def triSize (G : Nat) : Nat := G * (G + 1) / 2

/-- `row_indices[t] = (((n*(n+1))//2) + t)[t:]` for `n = arange(G)`: the positions, in the packed
lower triangle, of column `t` (rows `t … G-1`). -/
def rowIndices (G t : Nat) : List Nat :=
  ((List.range G).map (fun n => n * (n + 1) / 2 + t)).drop t

/-- The `running_sum` of the `col_indices` loop: start of row `i` of the packed upper triangle. -/
def colStart (G : Nat) : Nat → Nat
  | 0 => 0
  | i + 1 => colStart G i + (G - i)

/-- `col_indices`. -/
def colIndices (G : Nat) : List Nat := (List.range G).map (colStart G)

/-- Position of entry (row `i`, column `j ≥ i`) in the flattened upper-triangular matrix. -/
def upperIdx (G i j : Nat) : Nat := colStart G i + (j - i)

/-- `to_lower_tri = concatenate([arange(i+1) for i in arange(G)])`. -/
def toLowerTri (G : Nat) : List Nat := (List.range G).flatMap (fun i => List.range (i + 1))

/-- `to_upper_tri = concatenate([arange(i, G) for i in arange(G+1)])`. -/
def toUpperTri (G : Nat) : List Nat := (List.range (G + 1)).flatMap (fun i => List.range' i (G - i))

/-- `concatenate(row_indices)`: the gather that turns a packed lower triangle into the packed upper
triangle of its transpose (`get_mut_lik_upper_tri`). -/
def upperPerm (G : Nat) : List Nat := (List.range G).flatMap (rowIndices G)

/-- `ufunc.reduceat(xs, starts)` for strictly increasing `starts`: segment `k` is
`xs[starts[k] : starts[k+1]]`, the last one runs to the end.  The reduction itself is a parameter
(`np.add.reduce` in linear space, the streaming log-sum-exp in log space). -/
def reduceat {α : Type} (sum : List α → α) (xs : List α) : List Nat → List α
  | [] => []
  | [i] => [sum (xs.drop i)]
  | i :: j :: rest => sum ((xs.drop i).take (j - i)) :: reduceat sum xs (j :: rest)

/-- `arr[idx]` (numpy fancy indexing by an index list). -/
def gather {α : Type} [Inhabited α] (a : Array α) (idx : List Nat) : List α := idx.map (aget a)

/-! ## The operations of a probability space -/

/-- What `Likelihoods` / `LogLikelihoods` provide: `identity_constant`, `null_constant`, `combine`,
`ratio` (plain and with `div_0_null=True`), the reduction used by `rowsum_*`/`marginalize`, `np.max`,
`scale_geometric(fraction, value)`, and the conversion of a linear-space number into the space
(`force_probability_space` on the initial outside values). -/
structure Ops (α : Type) where
  one : α
  null : α
  combine : α → α → α
  ratio : α → α → α
  ratio0 : α → α → α
  sum : List α → α
  maxl : List α → α
  scale : α → α → α
  ofLin : α → α

/-- `np.max` of a non-empty list (first element wins ties; NaN is outside the model). -/
def listMax {α : Type} [LT α] [DecidableLT α] (dflt : α) : List α → α
  | [] => dflt
  | x :: xs => xs.foldl (fun m y => if m < y then y else m) x

section Lin
variable {α : Type} [Add α] [Mul α] [Div α] [OfNat α 0] [OfNat α 1] [BEq α] [LT α] [DecidableLT α]

/-- Linear space (`Likelihoods`).  `pow f v` is `v ** f`.  `ratio0` is `x / y` with `0/0 ↦ 0`. -/
def linOps (pow : α → α → α) : Ops α where
  one := 1
  null := 0
  combine := (· * ·)
  ratio := (· / ·)
  ratio0 := fun x y => if x == 0 && y == 0 then 0 else x / y
  sum := fun xs => xs.foldl (· + ·) 0
  maxl := listMax 0
  scale := pow
  ofLin := id

end Lin

section Log

/-- `LogLikelihoods.logsumexp`: one pass with running maximum `alpha` and scaled sum `r`.

    alpha = -inf; r = 0.0
    for x in X:
        if x != -inf:
            if x <= alpha: r += exp(x - alpha)
            else:          r *= exp(alpha - x); r += 1.0; alpha = x
    return -inf if r == 0 else log(r) + alpha

`r` lives in the linear carrier `α`, `alpha` and the `x` in the log carrier `β` (both are `Float`
when executed). -/
def logsumexpStep {α β : Type} [Add α] [Mul α] [OfNat α 1] [Sub β] [BEq β] [LE β] [DecidableLE β]
    (exp : β → α) (negInf : β) (st : β × α) (x : β) : β × α :=
  if x == negInf then st
  else if x ≤ st.1 then (st.1, st.2 + exp (x - st.1))
  else (x, st.2 * exp (st.1 - x) + 1)

def logsumexp {α β : Type} [Add α] [Mul α] [OfNat α 0] [OfNat α 1] [BEq α] [Sub β] [Add β] [BEq β]
    [LE β] [DecidableLE β] (exp : β → α) (log : α → β) (negInf : β) (xs : List β) : β :=
  let st := xs.foldl (logsumexpStep exp negInf) (negInf, 0)
  if st.2 == 0 then negInf else log st.2 + st.1

variable {α β : Type} [Add α] [Mul α] [OfNat α 0] [OfNat α 1] [BEq α]
  [Add β] [Sub β] [Mul β] [OfNat β 0] [BEq β] [LE β] [DecidableLE β] [LT β] [DecidableLT β]

/-- Logarithmic space (`LogLikelihoods`).  `ratio0` is `x - y` with `-∞ - -∞ ↦ -∞`;
`scale f v = f * v`; `ofLin` is `np.log`. -/
def logOps (exp : β → α) (log : α → β) (logB : β → β) (negInf : β) : Ops β where
  one := 0
  null := negInf
  combine := (· + ·)
  ratio := (· - ·)
  ratio0 := fun x y => if x == negInf && y == negInf then negInf else x - y
  sum := logsumexp exp log negInf
  maxl := listMax negInf
  scale := (· * ·)
  ofLin := logB

end Log

/-! ## Inputs -/

structure DEdge where
  id : Nat
  p : Nat
  c : Nat
deriving DecidableEq, Repr, Inhabited

/-- Everything the passes read.  `lik[e]` is the packed lower-triangular table of edge `e`
(`unfixed_likelihood_cache[muts, span]`) when `e.c` is not fixed, and the length-`G` vector of
`get_mut_lik_fixed_node` when it is.  `frac[e] = edge.span / spans[edge.child]`.
`roots = [(root, span_when_root / spans[root])]` in `root_spans` order. -/
structure Input (α : Type) where
  G : Nat
  numNodes : Nat
  fixed : Array Bool
  edges : List DEdge
  frac : Array α
  lik : Array (Array α)
  prior : Array (Array α)
  roots : List (Nat × α)

/-- `itertools.groupby(edges, key)`: maximal runs of consecutive equal keys. -/
def groupRuns (key : DEdge → Nat) : List DEdge → List (Nat × List DEdge)
  | [] => []
  | e :: es =>
    match groupRuns key es with
    | (k, g) :: rest => if key e = k then (k, e :: g) :: rest else (key e, [e]) :: (k, g) :: rest
    | [] => [(key e, [e])]

/-! ## Edge messages -/

section Pass
variable {α : Type} [Inhabited α]

/-- `get_fixed(scale_geometric(spanfrac, inside[child]), edge)` for a fixed child, whose inside value
is the scalar `identity_constant`. -/
def msgFixed (o : Ops α) (G : Nat) (frac : α) (lik : Array α) : List α :=
  (List.range G).map (fun t => o.combine (o.scale frac o.one) (aget lik t))

/-- `get_inside(scale_geometric(spanfrac, make_lower_tri(inside[child])), edge)`:
gather by `to_lower_tri`, scale, multiply by the packed table, `reduceat` at `row_indices[0]`. -/
def msgLower (o : Ops α) (G : Nat) (frac : α) (insC : Array α) (lik : Array α) : List α :=
  let dv := (gather insC (toLowerTri G)).map (o.scale frac)
  reduceat o.sum (List.zipWith o.combine dv lik.toList) (rowIndices G 0)

/-- The `edge_lik` of the inside pass for one edge, given the inside rows computed so far. -/
def edgeMsg (o : Ops α) (inp : Input α) (inside : Array (Array α)) (e : DEdge) : List α :=
  if aget inp.fixed e.c then msgFixed o inp.G (aget inp.frac e.id) (aget inp.lik e.id)
  else msgLower o inp.G (aget inp.frac e.id) (aget inside e.c) (aget inp.lik e.id)

/-- `get_outside(parent_val, edge)`: `parent_val` is already in packed upper-triangular layout;
the table is gathered by `concatenate(row_indices)`; `reduceat` at `col_indices`. -/
def msgUpper (o : Ops α) (G : Nat) (parentVal : List α) (lik : Array α) : List α :=
  reduceat o.sum (List.zipWith o.combine parentVal (gather lik (upperPerm G))) (colIndices G)

/-! ## Inside pass -/

structure InsideState (α : Type) where
  inside : Array (Array α)     -- per node; fixed nodes and unvisited nodes hold `#[]`
  denom : Array α              -- per node
  gi : Array (Array α)         -- per edge id: the *unnormalised* `edge_lik` (cache_inside)
  marg : α

/-- The body of the `for edge in edges` loop: `val = combine(val, edge_lik)`. -/
def insideEdge (o : Ops α) (inp : Input α) (inside : Array (Array α))
    (acc : List α × Array (Array α)) (e : DEdge) : List α × Array (Array α) :=
  let m := edgeMsg o inp inside e
  (List.zipWith o.combine acc.1 m, aset acc.2 e.id m.toArray)

/-- One `parent, edges` group of the inside pass. -/
def insideGroup (o : Ops α) (inp : Input α) (std : Bool) (s : InsideState α)
    (g : Nat × List DEdge) : InsideState α :=
  if aget inp.fixed g.1 then s else
  let r := g.2.foldl (insideEdge o inp s.inside) ((aget inp.prior g.1).toList, s.gi)
  let d := if std then o.maxl r.1 else o.one
  { inside := aset s.inside g.1 (r.1.map (fun v => o.ratio v d)).toArray
    denom := aset s.denom g.1 d
    gi := r.2
    marg := if std then o.combine s.marg d else s.marg }

def insideInit (o : Ops α) (inp : Input α) : InsideState α :=
  { inside := Array.replicate inp.numNodes #[]
    denom := Array.replicate inp.numNodes o.one
    gi := Array.replicate inp.edges.length #[]
    marg := o.one }

/-- The main loop of `inside_pass`. -/
def insideLoop (o : Ops α) (inp : Input α) (std : Bool) : InsideState α :=
  (groupRuns (·.p) inp.edges).foldl (insideGroup o inp std) (insideInit o inp)

/-- The marginal-likelihood epilogue over `root_spans`. -/
def rootTerm (o : Ops α) (inside : Array (Array α)) (acc : α) (r : Nat × α) : α :=
  o.combine acc (o.sum ((aget inside r.1).toList.map (o.scale r.2)))

/-- `inside_pass`: final state and the returned marginal likelihood. -/
def insidePass (o : Ops α) (inp : Input α) (std : Bool) : InsideState α × α :=
  let s := insideLoop o inp std
  (s, inp.roots.foldl (rootTerm o s.inside) s.marg)

/-- `self.g_i` after `ratio(g_i, denominator[edges_child, None])` for edge `e` (child not fixed). -/
def giOf (o : Ops α) (s : InsideState α) (e : DEdge) : List α :=
  (aget s.gi e.id).toList.map (fun v => o.ratio v (aget s.denom e.c))

/-! ## Outside pass -/

/-- Initial outside rows: `0` everywhere, the root-span fraction on the rows of `root_spans`,
then `force_probability_space`. -/
def outsideInit (o : Ops α) (inp : Input α) (zero : α) : Array (Array α) :=
  let base : Array (Array α) := (Array.range inp.numNodes).map (fun u =>
    if aget inp.fixed u then #[] else Array.replicate inp.G zero)
  let withRoots := inp.roots.foldl (fun acc r =>
    if aget inp.fixed r.1 then acc else aset acc r.1 (Array.replicate inp.G r.2)) base
  withRoots.map (fun row => row.map o.ofLin)

/-- Body of the `for edge in edges` loop of the outside pass. -/
def outsideEdge (o : Ops α) (inp : Input α) (s : InsideState α) (std ignoreOldest : Bool)
    (outside : Array (Array α)) (val : List α) (e : DEdge) : List α :=
  if ignoreOldest && e.p + 1 == inp.numNodes then val else
  let curGi := (edgeMsg o inp s.inside e).map (fun v => o.ratio v (aget s.denom e.c))
  let insDivGi := List.zipWith o.ratio0 (aget s.inside e.p).toList curGi
  let comb := (List.zipWith o.combine (aget outside e.p).toList insDivGi).toArray
  let pv0 := (gather comb (toUpperTri inp.G)).map (o.scale (aget inp.frac e.id))
  let pv := if std then (let m := o.maxl pv0; pv0.map (fun v => o.ratio v m)) else pv0
  List.zipWith o.combine val (msgUpper o inp.G pv (aget inp.lik e.id))

/-- One `child, edges` group of the outside pass. -/
def outsideGroup (o : Ops α) (inp : Input α) (s : InsideState α) (std ignoreOldest : Bool)
    (outside : Array (Array α)) (g : Nat × List DEdge) : Array (Array α) :=
  if aget inp.fixed g.1 then outside else
  let val := g.2.foldl (outsideEdge o inp s std ignoreOldest outside) (List.replicate inp.G o.one)
  let row := if std then (let m := o.maxl val; val.map (fun v => o.ratio v m))
             else val.map (fun v => o.ratio v (aget s.denom g.1))
  aset outside g.1 row.toArray

/-- `outside_pass`.  `order` is the edge list in `edges_by_child_desc` order (an input: the harness
passes the implementation's own order; the theorems hold for every parents-first order).
`zero` is the linear-space 0 the outside grid is initialised with. -/
def outsidePass (o : Ops α) (inp : Input α) (s : InsideState α) (std ignoreOldest : Bool)
    (order : List DEdge) (zero : α) : Array (Array α) :=
  (groupRuns (·.c) order).foldl (outsideGroup o inp s std ignoreOldest) (outsideInit o inp zero)

/-- `posterior_grid = combine(inside.grid_data, outside.grid_data)` (per node row). -/
def posteriorGrid (o : Ops α) (inside outside : Array (Array α)) : Array (Array α) :=
  (Array.range inside.size).map (fun u =>
    (List.zipWith o.combine (aget inside u).toList (aget outside u).toList).toArray)

end Pass

/-! ## Post-processing in `core.py` (linear arithmetic on linear-space numbers) -/

section Post
variable {α : Type} [Add α] [Sub α] [Mul α] [Div α] [OfNat α 0]

def lsum (xs : List α) : α := xs.foldl (· + ·) 0

/-- `to_probabilities`: divide a row by its sum. -/
def normalise (row : List α) : List α := row.map (· / lsum row)

/-- `mean_var` for one node: `mn = Σ p t / Σ p`, `va = Σ (mn - t)² (p / Σ p)`. -/
def meanVar (probs times : List α) : α × α :=
  let tot := lsum probs
  let mn := lsum (List.zipWith (· * ·) probs times) / tot
  (mn, lsum (List.zipWith (fun p t => ((mn - t) * (mn - t)) * (p / tot)) probs times))

end Post

/-- `posterior_grid.standardize()` (divide/subtract the maximum of columns `1:`), then
`force_probability_space(LIN)` (`toLin` = `exp` or the identity), then `to_probabilities()`. -/
def posteriorProbs {α β : Type} [Add α] [Sub α] [Mul α] [Div α] [OfNat α 0]
    (o : Ops β) (toLin : β → α) (row : List β) : List α :=
  let m := o.maxl (row.drop 1)
  normalise ((row.map (fun v => o.ratio v m)).map toLin)

/-! ## Mutation counts per edge (`Likelihoods.get_mut_edges`)

    mut_edges = np.zeros(ts.num_edges, dtype=np.int64)
    for m in ts.mutations():
        if m.edge != tskit.NULL:
            mut_edges[m.edge] += 1

`m.edge` is tskit's "the edge whose child is the mutation's node at the site's position" (NULL when the
node has no parent there: a mutation above a root).  The model recomputes it from the edge table, so
the counts that select the likelihood tables are tied to the tree itself. -/

/-- an edge with its genomic interval -/
structure SpanEdge (α : Type) where
  id : Nat
  left : α
  right : α
  p : Nat
  c : Nat

section Mut
variable {α : Type} [LE α] [LT α] [DecidableLE α] [DecidableLT α]

/-- `mutation.edge`: the edge above `node` at position `pos`, `none` for `tskit.NULL`. -/
def edgeOfMut (es : List (SpanEdge α)) (pos : α) (node : Nat) : Option Nat :=
  (es.find? (fun e => e.c == node && decide (e.left ≤ pos) && decide (pos < e.right))).map (·.id)

/-- one iteration of the loop of `get_mut_edges` -/
def mutEdgesStep (es : List (SpanEdge α)) (acc : Array Nat) (m : α × Nat) : Array Nat :=
  match edgeOfMut es m.1 m.2 with
  | some i => aset acc i (aget acc i + 1)
  | none => acc

/-- `Likelihoods.get_mut_edges`: mutations given as (site position, node). -/
def mutEdges (numEdges : Nat) (es : List (SpanEdge α)) (muts : List (α × Nat)) : Array Nat :=
  muts.foldl (mutEdgesStep es) (Array.replicate numEdges 0)

end Mut

/-! ## The prior object and its probability-space tag (`NodeTimeValues.force_probability_space`,
called by `BeliefPropagation.__init__` on the *user's* prior object, in place)

    self.priors.force_probability_space(lik.probability_space)

    def force_probability_space(self, probability_space):
        if probability_space == LIN_GRID:
            if self.probability_space == LOG_GRID:
                self.grid_data = np.exp(self.grid_data); self.probability_space = LIN_GRID
        elif probability_space == LOG_GRID:
            if self.probability_space == LIN_GRID:
                self.grid_data = np.log(self.grid_data); self.probability_space = LOG_GRID
-/

inductive Space
  | lin
  | log
deriving DecidableEq, Repr, Inhabited

/-- a prior grid object: the tag and the data it currently holds -/
structure PriorObj (α : Type) where
  space : Space
  grid : Array (Array α)

/-- `force_probability_space` (`toLog = np.log`, `toLin = np.exp`). -/
def forceSpace {α : Type} (toLog toLin : α → α) (s : Space) (p : PriorObj α) : PriorObj α :=
  match p.space, s with
  | Space.lin, Space.log => { space := Space.log, grid := p.grid.map (·.map toLog) }
  | Space.log, Space.lin => { space := Space.lin, grid := p.grid.map (·.map toLin) }
  | _, _ => p

/-- What a run in space `s` does to the shared prior object before anything else
(`BeliefPropagation.__init__`): the passes then read `(runPrior … s p).grid`. -/
def runPrior {α : Type} (toLog toLin : α → α) (s : Space) (p : PriorObj α) : PriorObj α :=
  forceSpace toLog toLin s p

/-- a sequence of runs on one shared prior object; returns the object seen by every run -/
def runSeq {α : Type} (toLog toLin : α → α) : List Space → PriorObj α → List (PriorObj α)
  | [], _ => []
  | s :: rest, p => runPrior toLog toLin s p :: runSeq toLog toLin rest (runPrior toLog toLin s p)

end Tsdate.Discrete
