/-
Model of the parameter validation of `tsdate.date` and the three method wrappers
(tsdate/core.py `date`, `variational_gamma`, `inside_outside`, `maximization`,
`EstimationMethod.__init__`, the `run` methods, and the first checks of the objects they build:
`variational.ExpectationPropagation._check_valid_inputs`, `prior.MixturePrior.__init__`,
`prior.SpansBySamples.__init__`, `demography.PopulationSizeHistory.__init__`,
`DiscreteTimeMethod.main_algorithm`, `multiprocessing.Pool`).

The code is a chain of guards executed in a fixed order; the first one that fires decides the
exception.  The model is that chain: `checks m p i` lists, in execution order, each guard's condition
on abstract parameter classes together with the exception it raises; `outcome` returns the first one
that fires.  Python source of the guards, in order, for `variational_gamma`:

    date:        if method not in estimation_methods: raise ValueError
    wrapper:     if eps is not None: raise ValueError
                 if tree_sequence.num_mutations == 0: raise ValueError
    __init__:    (unexpected keyword → TypeError from the call itself)
                 if return_posteriors is not None: raise ValueError
                 if recombination_rate is not None: raise NotImplementedError
                 if isinstance(Ne, dict): Ne = PopulationSizeHistory(**Ne)     # ValueError / TypeError
                 if not (isinstance(constr_iterations, int) and constr_iterations >= 0): raise ValueError
                 if not min_branch_length > 0.0: raise ValueError
                 if priors is not None: raise ValueError ; if Ne is not None: raise ValueError
    run:         if not max_iterations > 0: raise ValueError
                 if not max_shape > 1: raise ValueError
                 if self.mutation_rate is None: raise ValueError
    EP.__init__: if not mutation_rate > 0.0: raise ValueError
                 if not allow_unary and contains_unary_nodes(ts): raise ValueError

and for the discrete methods (`inside_outside`, `maximization`):

    wrapper:     if Ne is not None and population_size is not None: raise ValueError
    __init__:    as above up to min_branch_length, then
                 priors None:  Ne None → ValueError;
                               MixturePrior: noncontemporaneous samples → ValueError; unary nodes → ValueError;
                               PopulationSizeHistory(number): not > 0 / not finite → ValueError
                 priors given: Ne given → ValueError
    run:         inside_outside: mutation_rate None and num_trees > 1 → NotImplementedError
                 maximization:   mutation_rate None → ValueError
    main_algorithm: mutation_rate given and not > 0 → ValueError        (since /repo a8b199f)
                    probability_space not in {linear, logarithmic} → ValueError
    precalculate:   num_threads < 0 → multiprocessing.Pool raises ValueError
    (no guard on `eps >= 0`: the value reaches scipy.stats.poisson; before a8b199f the same was
     true of `mutation_rate` — `checksPreFix` keeps that chain as the regression counter-example)

Core Lean only; executable; run by Driver/Validate.lean against the real functions.
-/

namespace Tsdate.Validate

inductive Method where
  | vg | io | mx | unknown
deriving DecidableEq, Repr, Inhabited

/-- A parameter that is absent (`None`), present and inside its valid range, or present and outside. -/
inductive Tri where
  | absent | good | bad
deriving DecidableEq, Repr, Inhabited

/-- `population_size`: absent; a positive finite number or a `PopulationSizeHistory` object (`good`);
a number that is not `> 0` or not finite (`bad`); a parameter dict (valid / invalid values / foreign keys). -/
inductive PopSize where
  | absent | good | bad | dictGood | dictBad | dictKeys
deriving DecidableEq, Repr, Inhabited

structure Params where
  method : Method
  mutationRate : Tri        -- None / `> 0` / not `> 0` (zero, negative, NaN)
  populationSize : PopSize
  priors : Bool             -- a prior object built for this tree sequence is passed
  neDeprecated : Bool       -- the deprecated `Ne=` keyword is passed (a positive number)
  recombinationRate : Bool  -- given
  returnPosteriors : Bool   -- given
  constrIterations : Tri    -- None / non-negative int / anything else
  minBranchLength : Tri     -- None / `> 0` / not `> 0`
  maxIterations : Tri       -- None / `> 0` / not `> 0`
  maxShape : Tri            -- None / `> 1` / not `> 1`
  vgOther : Bool            -- another variational-only keyword (rescaling_intervals, rescaling_iterations, …)
  eps : Tri                 -- None / `>= 0` / negative or NaN
  probSpace : Tri           -- None / "linear" | "logarithmic" / other string
  numThreads : Tri          -- None / `>= 0` / negative
  ioOther : Bool            -- an inside_outside-only keyword (outside_standardize, ignore_oldest_root)
  allowUnary : Bool
  returnFit : Bool
  returnLikelihood : Bool
deriving DecidableEq, Repr, Inhabited

/-- What the check needs to know about the tree sequence. -/
structure Input where
  noMutations : Bool
  multiTree : Bool          -- more than one tree
  unary : Bool              -- has locally unary non-sample nodes
  contemporaneous : Bool    -- all samples at time 0
deriving DecidableEq, Repr, Inhabited

/-- Where a guard lives (for messages and for comparing with the real exception text). -/
inductive Site where
  | methodUnknown | epsVariational | noMutations | foreignKeyword | returnPosteriors | recombination
  | popDictValues | popDictKeys | constrIterations | minBranchLength | priorsUnused | popUnused
  | maxIterations | maxShape | rateMissing | rateNotPositive | unaryNodes | neAndPopulationSize
  | popMissing | popAndPriors | nonContemporaneous | popNotPositive | topologyOnlyClock
  | probabilitySpace | numThreads
deriving DecidableEq, Repr, Inhabited

inductive Shape where
  | ts | tsFit | tsLik | tsFitLik
deriving DecidableEq, Repr, Inhabited

inductive Outcome where
  | ok (s : Shape)
  | valueError (site : Site)
  | notImplemented (site : Site)
  | typeError (site : Site)
  /-- No guard fired although a parameter is outside its valid range: the value reaches the numeric
  code, and what happens depends on the data. -/
  | unvalidated
deriving DecidableEq, Repr, Inhabited

def Outcome.rejected : Outcome → Bool
  | .valueError _ | .notImplemented _ | .typeError _ => true
  | _ => false

/-- The documented kinds of rejection. -/
def Outcome.clean : Outcome → Bool
  | .valueError _ | .notImplemented _ => true
  | _ => false

/-- `parse_result`. -/
def shape (p : Params) : Shape :=
  match p.returnFit, p.returnLikelihood with
  | false, false => .ts
  | true, false => .tsFit
  | false, true => .tsLik
  | true, true => .tsFitLik

def vgKeyword (p : Params) : Bool :=
  p.maxIterations != .absent || p.maxShape != .absent || p.vgOther

def discreteKeyword (p : Params) : Bool :=
  p.probSpace != .absent || p.numThreads != .absent || p.neDeprecated

/-- A keyword that neither the chosen wrapper nor `EstimationMethod.__init__` accepts. -/
def foreignKeyword (p : Params) : Bool :=
  match p.method with
  | .vg => discreteKeyword p || p.ioOther
  | .io => vgKeyword p
  | .mx => vgKeyword p || p.ioOther
  | .unknown => false

/-- Population size as the discrete wrappers hand it on (`Ne=` replaces an absent `population_size`). -/
def effPop (p : Params) : PopSize :=
  if p.neDeprecated && p.populationSize == .absent then .good else p.populationSize

/-- Guards common to all methods inside `EstimationMethod.__init__`, up to `min_branch_length`. -/
def initGuards (p : Params) (pop : PopSize) : List (Bool × Outcome) :=
  [ (foreignKeyword p, .typeError .foreignKeyword),
    (p.returnPosteriors, .valueError .returnPosteriors),
    (p.recombinationRate, .notImplemented .recombination),
    (pop == .dictBad, .valueError .popDictValues),
    (pop == .dictKeys, .typeError .popDictKeys),
    (p.constrIterations == .bad, .valueError .constrIterations),
    (p.minBranchLength == .bad, .valueError .minBranchLength) ]

/-- The guard chain, in execution order. -/
def checks (p : Params) (i : Input) : List (Bool × Outcome) :=
  match p.method with
  | .unknown => [(true, .valueError .methodUnknown)]
  | .vg =>
    [ (p.eps != .absent, .valueError .epsVariational),
      (i.noMutations, .valueError .noMutations) ]
    ++ initGuards p p.populationSize ++
    [ (p.priors, .valueError .priorsUnused),
      (p.populationSize != .absent, .valueError .popUnused),
      (p.maxIterations == .bad, .valueError .maxIterations),
      (p.maxShape == .bad, .valueError .maxShape),
      (p.mutationRate == .absent, .valueError .rateMissing),
      (p.mutationRate == .bad, .valueError .rateNotPositive),
      (i.unary && !p.allowUnary, .valueError .unaryNodes) ]
  | m =>
    [ (p.neDeprecated && p.populationSize != .absent, .valueError .neAndPopulationSize) ]
    ++ initGuards p (effPop p) ++
    [ (!p.priors && effPop p == .absent, .valueError .popMissing),
      (!p.priors && !i.contemporaneous, .valueError .nonContemporaneous),
      (!p.priors && i.unary && !p.allowUnary, .valueError .unaryNodes),
      (!p.priors && effPop p == .bad, .valueError .popNotPositive),
      (p.priors && effPop p != .absent, .valueError .popAndPriors),
      (m == .io && p.mutationRate == .absent && i.multiTree, .notImplemented .topologyOnlyClock),
      (m == .mx && p.mutationRate == .absent, .valueError .rateMissing),
      (p.mutationRate == .bad, .valueError .rateNotPositive),
      (p.probSpace == .bad, .valueError .probabilitySpace),
      (p.numThreads == .bad && p.mutationRate != .absent, .valueError .numThreads) ]

/-- First guard that fires. -/
def firstFail : List (Bool × Outcome) → Option Outcome
  | [] => none
  | (c, o) :: rest => if c then some o else firstFail rest

/-- Parameters outside their range for which the method has no guard. -/
def unguarded (p : Params) : Bool :=
  match p.method with
  | .io | .mx => p.eps == .bad
  | _ => false

/-- The decision: the exception of the first guard that fires, else the return shape. -/
def outcome (p : Params) (i : Input) : Outcome :=
  match firstFail (checks p i) with
  | some o => o
  | none => if unguarded p then .unvalidated else .ok (shape p)

/-! ### The chain before /repo commit a8b199f (regression counter-example) -/

def isDiscrete : Method → Bool
  | .io | .mx => true
  | _ => false

/-- The discrete methods' chain without the `mutation_rate > 0` guard of `main_algorithm`. -/
def checksPreFix (p : Params) (i : Input) : List (Bool × Outcome) :=
  (checks p i).filter (fun x => !(isDiscrete p.method && x.2 == .valueError .rateNotPositive))

def outcomePreFix (p : Params) (i : Input) : Outcome :=
  match firstFail (checksPreFix p i) with
  | some o => o
  | none =>
    if isDiscrete p.method && (p.mutationRate == .bad || p.eps == .bad) then .unvalidated
    else .ok (shape p)

/-- All parameters at their defaults / inside their ranges for the given method. -/
def validParams (m : Method) : Params :=
  { method := m, mutationRate := .good,
    populationSize := if m == .vg then .absent else .good,
    priors := false, neDeprecated := false, recombinationRate := false, returnPosteriors := false,
    constrIterations := .absent, minBranchLength := .absent, maxIterations := .absent,
    maxShape := .absent, vgOther := false, eps := .absent, probSpace := .absent,
    numThreads := .absent, ioOther := false, allowUnary := false, returnFit := false,
    returnLikelihood := false }

/-! ### The invalid classes of the property statement that the code guards (used by Props/C35) -/

/-- Invalid values of the parameters every method takes: `min_branch_length` not positive,
`constr_iterations` not a non-negative int, `recombination_rate` given, `return_posteriors` given. -/
def commonBad (p : Params) : Bool :=
  p.minBranchLength == .bad || p.constrIterations == .bad || p.recombinationRate || p.returnPosteriors

/-- Invalid for `variational_gamma`: `max_iterations` not positive, `max_shape` not above 1,
population size or priors given, `eps` given, no mutations, mutation rate missing or not positive. -/
def vgBad (p : Params) (i : Input) : Bool :=
  p.maxIterations == .bad || p.maxShape == .bad || p.populationSize != .absent || p.priors ||
  p.eps != .absent || i.noMutations || p.mutationRate != .good

/-- Invalid for the discrete methods: neither population size nor priors, both, a population size
that is not positive and finite, `Ne` together with `population_size`, an unknown probability space,
a negative thread count (when a mutation rate is given), a mutation rate that is not positive. -/
def discreteBad (p : Params) : Bool :=
  (!p.priors && effPop p == .absent) || (p.priors && effPop p != .absent) ||
  (!p.priors && effPop p == .bad) || effPop p == .dictBad ||
  (p.neDeprecated && p.populationSize != .absent) || p.probSpace == .bad ||
  (p.numThreads == .bad && p.mutationRate != .absent) || p.mutationRate == .bad

/-- The invalid classes of the statement that the code guards, as a decidable predicate. -/
def invalidGuarded (p : Params) (i : Input) : Bool :=
  match p.method with
  | .unknown => true
  | .vg => commonBad p || vgBad p i
  | .io => commonBad p || discreteBad p
  | .mx => commonBad p || discreteBad p || p.mutationRate == .absent

def benignInput : Input :=
  { noMutations := false, multiTree := true, unary := false, contemporaneous := true }

end Tsdate.Validate
