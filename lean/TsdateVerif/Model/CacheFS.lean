/-
Model of the on-disk cache protocol of the precomputed prior table
(tsdate/prior.py `ConditionalCoalescentTimes`, tsdate/cache.py).

Writer (`precalculate_priors_for_approximation`, after commit ad54279):

    filename = self.get_precalc_cache(n)
    fd, tmp_filename = tempfile.mkstemp(dir=os.path.dirname(filename),
                                        prefix=os.path.basename(filename) + ".")
    try:
        with os.fdopen(fd, "w") as f:
            np.savetxt(f, prior_lookup_table, footer=PRECALC_CACHE_FOOTER)   # one f.write per row, then the footer
        os.replace(tmp_filename, filename)
    except BaseException:
        if os.path.isfile(tmp_filename): os.remove(tmp_filename)
        raise

Reader (`read_precalc_cache(filename, n)`):

    if not os.path.isfile(filename): return None
    try:
        with open(filename) as f: lines = f.read().splitlines()
        complete = len(lines) > 0 and lines[-1] == "# " + PRECALC_CACHE_FOOTER
        table = np.genfromtxt(filename) if complete else None
    except (OSError, ValueError): table = None
    if table is None or table.shape != (n, 2) or not np.all(np.isfinite(table)): return None
    return table

Pre-fix writer: `np.savetxt(filename, table)` (open final for writing, truncating; append rows);
pre-fix reader: `np.genfromtxt(filename)` with no validation.

The file system is a map path → optional content.  A *writer* is a list of operations; several
writers run interleaved under an arbitrary schedule; a crash keeps any prefix of a writer's list and
any prefix of the chunk being written.  Simplification (stated in design_notes/C36.md): a write goes
to the *path* the descriptor was opened on (no inode layer).  Under the hypotheses of the safety
theorem no descriptor outlives its path, so both readings coincide there.

Core Lean only; everything here is executable and is run by Driver/CacheFS.lean on the traced
operations of the real writer and on the bytes of real cache files.
-/

namespace Tsdate.CacheFS

abbrev Path := Nat
abbrev Bytes := List Nat

/-- A file system: path ↦ content, `none` = no such file. -/
def FS := Path → Option Bytes

def FS.empty : FS := fun _ => none

def FS.set (fs : FS) (p : Path) (v : Option Bytes) : FS := fun q => if q = p then v else fs q

inductive Op where
  /-- `mkstemp`: `open(p, O_CREAT|O_EXCL|O_RDWR)` on a fresh unique name → empty file. -/
  | createTemp (p : Path)
  /-- `open(p, "w")`: create or truncate. -/
  | openTrunc (p : Path)
  /-- bytes reaching the file opened at `p`. -/
  | append (p : Path) (chunk : Bytes)
  /-- flush / close of the handle on `p` (all appends before it are already in the model's file). -/
  | flush (p : Path)
  /-- `os.replace(src, dst)`: atomic rename. -/
  | rename (src dst : Path)
  /-- `os.remove(p)`. -/
  | remove (p : Path)
deriving DecidableEq, Repr, Inhabited

/-- Effect of one operation. -/
def step (fs : FS) : Op → FS
  | .createTemp p => fs.set p (some [])
  | .openTrunc p => fs.set p (some [])
  | .append p ch =>
    match fs p with
    | some d => fs.set p (some (d ++ ch))
    | none => fs
  | .flush _ => fs
  | .rename s d =>
    match fs s with
    | some c => (fs.set d (some c)).set s none
    | none => fs            -- ENOENT: the call raises, nothing changes
  | .remove p => fs.set p none

/-- Run an operation list (one writer alone). -/
def runOps (fs : FS) (ops : List Op) : FS := ops.foldl step fs

/-! ### Writers -/

/-- The post-fix writer: temp file, the chunks, close, rename over the cache name. -/
def atomicWriter (tmp final : Path) (chunks : List Bytes) : List Op :=
  .createTemp tmp :: (chunks.map (Op.append tmp) ++ [.flush tmp, .rename tmp final])

/-- The pre-fix writer: open the cache name itself and write into it. -/
def directWriter (final : Path) (chunks : List Bytes) : List Op :=
  .openTrunc final :: (chunks.map (Op.append final) ++ [.flush final])

/-- `clear_precalculated_priors`. -/
def clearer (final : Path) : List Op := [.remove final]

/-- Does a traced operation list have the atomic shape `[createTemp t; append t …; flush t; rename t final]`?
Returns the concatenated content on success. -/
def atomicShape (tmp final : Path) : List Op → Option Bytes
  | .createTemp p :: rest => if p = tmp then go [] rest else none
  | _ => none
where
  go (acc : Bytes) : List Op → Option Bytes
    | .append p ch :: rest => if p = tmp then go (acc ++ ch) rest else none
    | [.flush p, .rename s d] => if p = tmp ∧ s = tmp ∧ d = final then some acc else none
    | [.rename s d] => if s = tmp ∧ d = final then some acc else none
    | _ => none

/-- The safety discipline of one writer, as a decidable check on an operation list: the writer
touches only its own temp file and the cache name, and it renames the temp file over the cache
name only at a moment when the temp file holds exactly `c`.  `d` is the current content of `tmp`. -/
def safeOps (tmp final : Path) (c : Bytes) : Option Bytes → List Op → Bool
  | _, [] => true
  | _, .createTemp p :: r => p == tmp && safeOps tmp final c (some []) r
  | _, .openTrunc p :: r => p == tmp && safeOps tmp final c (some []) r
  | d, .append p x :: r => p == tmp && safeOps tmp final c (d.map (· ++ x)) r
  | d, .flush _ :: r => safeOps tmp final c d r
  | d, .rename s t :: r => s == tmp && t == final && d == some c && safeOps tmp final c none r
  | d, .remove p :: r => (p == final && safeOps tmp final c d r) || (p == tmp && safeOps tmp final c none r)

/-! ### Crashes -/

/-- `CrashOf w w'`: `w'` is what a writer with program `w` has executed when it is killed: a prefix
of `w`, whose last executed write may have delivered only a prefix of its chunk. -/
inductive CrashOf : List Op → List Op → Prop
  | stop (w : List Op) : CrashOf w []
  | cons (op : Op) {w w' : List Op} : CrashOf w w' → CrashOf (op :: w) (op :: w')
  | part (p : Path) (ch pre : Bytes) (w : List Op) : pre <+: ch → CrashOf (.append p ch :: w) [.append p pre]

/-- All prefixes of a byte string. -/
def prefixes : Bytes → List Bytes
  | [] => [[]]
  | b :: bs => [] :: (prefixes bs).map (b :: ·)

/-- Executable enumeration of every crash outcome of a writer. -/
def crashCuts : List Op → List (List Op)
  | [] => [[]]
  | op :: rest =>
    [] :: ((match op with
            | .append p ch => (prefixes ch).map (fun pre => [Op.append p pre])
            | _ => []) ++ (crashCuts rest).map (op :: ·))

/-! ### Interleaved execution -/

/-- Global state: the file system and what each writer still has to do. -/
structure State (ι : Type) where
  fs : FS
  rem : ι → List Op

/-- Writer `i` performs its next operation (nothing happens if it has finished). -/
def stepW {ι : Type} [DecidableEq ι] (s : State ι) (i : ι) : State ι :=
  match s.rem i with
  | [] => s
  | op :: rest => { fs := step s.fs op, rem := fun j => if j = i then rest else s.rem j }

/-- Run a schedule (a list of writer names; need not be fair or complete). -/
def runSched {ι : Type} [DecidableEq ι] (s : State ι) (sched : List ι) : State ι :=
  sched.foldl stepW s

/-- All interleavings of two lists (used by the driver to enumerate schedules). -/
def interleavings {α : Type} : List α → List α → List (List α)
  | [], ys => [ys]
  | xs, [] => [xs]
  | x :: xs, y :: ys =>
    (interleavings xs (y :: ys)).map (x :: ·) ++ (interleavings (x :: xs) ys).map (y :: ·)

/-! ### The text format and the reader -/

section Text
variable (nl hash : Nat)

/-- `str.splitlines()` for a text whose only line terminator is `nl`. -/
def lines : Bytes → List Bytes
  | [] => []
  | c :: cs =>
    if c = nl then [] :: lines cs
    else match lines cs with
      | [] => [[c]]
      | l :: ls => (c :: l) :: ls

def lastLine (t : Bytes) : Option Bytes := (lines nl t).getLast?

/-- genfromtxt: everything from the comment character on is dropped … -/
def stripComment (l : Bytes) : Bytes := l.takeWhile (· ≠ hash)

/-- … and lines that are then empty are skipped. -/
def dataLines (t : Bytes) : List Bytes := ((lines nl t).map (stripComment hash)).filter (· ≠ [])

def mapAll {α β : Type} (f : α → Option β) : List α → Option (List β)
  | [] => some []
  | x :: xs => match f x, mapAll f xs with
    | some y, some ys => some (y :: ys)
    | _, _ => none

variable {ρ : Type}

/-- `np.genfromtxt(file)`: parse every data line (`parseRow` = split on blanks and `float()` each
field; a parameter of the model) — any failure is the `ValueError` the reader catches. -/
def readTable (parseRow : Bytes → Option ρ) (t : Bytes) : Option (List ρ) :=
  mapAll parseRow (dataLines nl hash t)

/-- The validating reader applied to file content `t`: footer line last, parse, `shape == (n, 2)`
(a single data row comes back from genfromtxt as shape `(2,)`, no data rows as `(0,)`; both fail the
shape test, hence `2 ≤ n`), every entry finite (`valid`, which also carries "two columns"). -/
def reader (footer : Bytes) (parseRow : Bytes → Option ρ) (valid : ρ → Bool) (n : Nat) (t : Bytes) :
    Option (List ρ) :=
  if lastLine nl t = some footer then
    match readTable nl hash parseRow t with
    | some rows => if rows.length = n ∧ 2 ≤ n ∧ rows.all valid then some rows else none
    | none => none
  else none

/-- The pre-fix reader: `np.genfromtxt(filename)`, nothing else. -/
def oldReader (parseRow : Bytes → Option ρ) (t : Bytes) : Option (List ρ) :=
  readTable nl hash parseRow t

/-- `read_precalc_cache` with its three separate looks at the cache name: `os.path.isfile` (`v0`),
`open().read()` (`v1`), `np.genfromtxt` (`v2`).  Other processes may act between the looks.
`none` = "recompute". -/
def readCache (footer : Bytes) (parseRow : Bytes → Option ρ) (valid : ρ → Bool) (n : Nat)
    (v0 v1 v2 : Option Bytes) : Option (List ρ) :=
  match v0, v1, v2 with
  | some _, some t1, some t2 =>
    if lastLine nl t1 = some footer then
      match readTable nl hash parseRow t2 with
      | some rows => if rows.length = n ∧ 2 ≤ n ∧ rows.all valid then some rows else none
      | none => none
    else none
  | _, _, _ => none     -- not a file / OSError

/-- `np.savetxt(f, table, footer=…)`: each row formatted (`fmt`) and terminated by `nl`, then the
footer line. -/
def encodeChunks (footer : Bytes) (fmt : ρ → Bytes) (rows : List ρ) : List Bytes :=
  rows.map (fun r => fmt r ++ [nl]) ++ [footer ++ [nl]]

def encode (footer : Bytes) (fmt : ρ → Bytes) (rows : List ρ) : Bytes :=
  (encodeChunks nl footer fmt rows).flatten

end Text

/-! ### Concrete row syntax used by the driver and by the examples: blank-separated tokens -/

/-- Split a line on blanks (space = 32, tab = 9). -/
def tokens (l : Bytes) : List Bytes :=
  let rec go (cur : Bytes) (acc : List Bytes) : Bytes → List Bytes
    | [] => (if cur = [] then acc else cur.reverse :: acc).reverse
    | c :: cs =>
      if c = 32 ∨ c = 9 then go [] (if cur = [] then acc else cur.reverse :: acc) cs
      else go (c :: cur) acc cs
  go [] [] l

/-- A row as its list of field texts; the numeric reading of a field is the harness's `float()`. -/
def parseTokens (l : Bytes) : Option (List Bytes) := some (tokens l)

def fmtTokens (r : List Bytes) : Bytes := (r.intersperse [32]).flatten

end Tsdate.CacheFS
