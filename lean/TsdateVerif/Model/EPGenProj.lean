/-
The projection function `propagate_likelihood` actually uses, assembled from the kernels regenerated from the source
(`Gen/Kernels.lean`): the dispatch of its local closures

    def leafward_projection(x, y, z): return approx.sideways_projection(x, y, z) if unphased else approx.leafward_projection(x, y, z)
    def rootward_projection(x, y, z): return approx.sideways_projection(x, y, z) if unphased else approx.rootward_projection(x, y, z)
    def gamma_projection(x, y, z):    return approx.unphased_projection(x, y, z) if unphased else approx.gamma_projection(x, y, z)
    def twin_projection(x, y):        return approx.twin_projection(x, y)

applied to the request built by `prep` (branch `leaf` calls the first with the parent's age and the child cavity,
`root` the second with the child's age and the parent cavity, `twin` the fourth, `both` the third).
-/
import TsdateVerif.Model.EP
import TsdateVerif.Gen.Kernels

namespace Tsdate.EP
open Tsdate.Kernels

variable {α : Type} [Add α] [Sub α] [Mul α] [Div α] [Neg α] [LT α] [LE α]
  [DecidableLT α] [DecidableLE α] [NatCast α]

/-- The projection oracle of `propagate_likelihood`, from the regenerated kernels. -/
def genProj (F : SpecFns α) (rq : Req α) : Res α :=
  match rq.branch with
  | .skip => ⟨rq.cavP, rq.cavC⟩
  | .leaf =>
    ⟨rq.cavP, (if rq.unphased then Tsdate.Gen.Kernels.sideways_projection F rq.age rq.cavC rq.lik
               else Tsdate.Gen.Kernels.leafward_projection F rq.age rq.cavC rq.lik).2⟩
  | .root =>
    ⟨(if rq.unphased then Tsdate.Gen.Kernels.sideways_projection F rq.age rq.cavP rq.lik
      else Tsdate.Gen.Kernels.rootward_projection F rq.age rq.cavP rq.lik).2, rq.cavC⟩
  | .twin => ⟨(Tsdate.Gen.Kernels.twin_projection F rq.cavP rq.lik).2, rq.cavC⟩
  | .both =>
    ⟨(if rq.unphased then Tsdate.Gen.Kernels.unphased_projection F rq.cavP rq.cavC rq.lik
      else Tsdate.Gen.Kernels.gamma_projection F rq.cavP rq.cavC rq.lik).2.1,
     (if rq.unphased then Tsdate.Gen.Kernels.unphased_projection F rq.cavP rq.cavC rq.lik
      else Tsdate.Gen.Kernels.gamma_projection F rq.cavP rq.cavC rq.lik).2.2⟩

end Tsdate.EP
