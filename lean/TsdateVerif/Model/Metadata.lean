/-
Model of `EstimationMethod.set_time_metadata` (tsdate/core.py) — property C32.

Python source being modelled:

    def set_time_metadata(self, table, mean, var, default_schema):
        def _time_md_array(table, mean, var):
            schema = table.metadata_schema
            if schema.schema is None:
                raise tskit.MetadataEncodingError("No schema set")
            if len(table.metadata) > 0:
                md_iter = (row.metadata for row in table)
            else:
                md_iter = ({} for _ in range(table.num_rows))  # no decoding needed
            metadata_array = []
            for metadata_dict, mn, vr in zip(md_iter, mean, var):
                metadata_dict.update((("mn", mn), ("vr", vr)))
                metadata_array.append(schema.validate_and_encode_row(metadata_dict))
            return metadata_array

        if self.set_metadata is False or var is None:
            return  # no md to set (e.g. outside maximization method)
        assert len(mean) == len(var) == table.num_rows
        try:
            table.packset_metadata(_time_md_array(table, mean, var))
        except (tskit.MetadataEncodingError, tskit.MetadataValidationError) as e:
            if len(table.metadata) > 0 or table.metadata_schema.schema is not None:
                if not self.set_metadata:
                    logger.warning(...); return
                else:
                    table.drop_metadata()
            table.metadata_schema = default_schema
            table.packset_metadata(_time_md_array(table, mean, var))

Abstraction.
* A metadata row that decodes to a JSON/struct *object* is an association list `Row V`
  (`List (String × V)`, Python dict order); the value type `V` is opaque.
* A table is `schema : Option S` (`none` = `MetadataSchema(None)`) plus one cell per row:
  `none` = zero bytes, `some r` = non-empty bytes that decode to `r` under the schema (for a table
  without schema the cell content is the raw bytes, wrapped in a one-field row by the harness; the
  model never looks inside it because `_time_md_array` raises first).
* The schema type `S` and the validator `admits : S → Row V → Bool`
  (`validate_and_encode_row` succeeds) are *parameters*: every theorem holds for every validator.
  The driver instantiates them with a small executable model of JSON-schema object validation
  (`properties`/`required`/`additionalProperties`/value type), tied to tskit by the exhaustive
  correspondence run.
* `dict.update` is `upsert` (replace in place, else append).  `packset_metadata` of encoded rows
  makes every cell non-empty.  `drop_metadata` empties every cell and removes the schema.
-/

namespace Tsdate.Metadata

/-- A decoded metadata object: Python `dict` as an association list in insertion order. -/
abbrev Row (V : Type) := List (String × V)

/-- `d.get(k)` -/
def get {V : Type} (k : String) : Row V → Option V
  | [] => none
  | (k', v) :: r => if k' = k then some v else get k r

/-- `d[k] = v` (the effect of `dict.update` for one pair): overwrite in place or append. -/
def upsert {V : Type} (k : String) (v : V) : Row V → Row V
  | [] => [(k, v)]
  | (k', v') :: r => if k' = k then (k, v) :: r else (k', v') :: upsert k v r

/-- `metadata_dict.update((("mn", mn), ("vr", vr)))` -/
def mergeTime {V : Type} (r : Row V) (mn vr : V) : Row V :=
  upsert "vr" vr (upsert "mn" mn r)

/-- `set_metadata` ∈ {False, None, True}. -/
inductive SetMd where
  | off | auto | force
deriving DecidableEq, Repr

/-- What happened to the table. `failed` = the second `packset_metadata` raised (the exception
propagates out of `date()`; it cannot happen when the default schema admits `{mn, vr}`). -/
inductive Outcome where
  | untouched | merged | replaced | warned | failed
deriving DecidableEq, Repr

structure Table (S V : Type) where
  schema : Option S
  cells : List (Option (Row V))
deriving DecidableEq, Repr

/-- `len(table.metadata) > 0` -/
def hasBytes {S V : Type} (t : Table S V) : Bool := t.cells.any Option.isSome

/-- The dicts iterated by `md_iter`. -/
def decoded {S V : Type} (t : Table S V) : List (Row V) :=
  if hasBytes t then t.cells.map (fun c => c.getD []) else t.cells.map (fun _ => [])

/-- The loop of `_time_md_array`: `zip` stops at the shortest list; the first row that does not
validate aborts the whole array (`none` = `MetadataValidationError`). -/
def timeRows {V : Type} (ok : Row V → Bool) : List (Row V) → List V → List V → Option (List (Row V))
  | r :: rs, mn :: mns, vr :: vrs =>
    if ok (mergeTime r mn vr) then (timeRows ok rs mns vrs).map (mergeTime r mn vr :: ·) else none
  | _, _, _ => some []

/-- `_time_md_array(table, mean, var)`; `none` = raised Metadata{Encoding,Validation}Error. -/
def timeMdArray {S V : Type} (admits : S → Row V → Bool) (t : Table S V) (mean var : List V) :
    Option (List (Row V)) :=
  match t.schema with
  | none => none
  | some s => timeRows (admits s) (decoded t) mean var

/-- `table.packset_metadata(rows)` (every encoded row is non-empty). -/
def packset {S V : Type} (t : Table S V) (rows : List (Row V)) : Table S V :=
  { t with cells := rows.map some }

/-- `table.drop_metadata()` -/
def dropMetadata {S V : Type} (t : Table S V) : Table S V :=
  { schema := none, cells := t.cells.map (fun _ => none) }

structure Res (S V : Type) where
  table : Table S V
  outcome : Outcome
deriving DecidableEq, Repr

/-- The tail of the `except` branch once the warn-and-return exit has not been taken:
`drop_metadata()` if there was a schema or bytes, install the default schema, write again. -/
def clearAndWrite {S V : Type} (admits : S → Row V → Bool) (dflt : S)
    (t : Table S V) (mean var : List V) : Res S V :=
  let t0 := if hasBytes t || t.schema.isSome then dropMetadata t else t
  let t1 : Table S V := { schema := some dflt, cells := t0.cells }
  match timeMdArray admits t1 mean var with
  | some rows => ⟨packset t1 rows, .replaced⟩
  | none => ⟨t1, .failed⟩

/-- `set_time_metadata(table, mean, var, default_schema)` with `self.set_metadata = sm`. -/
def setTimeMetadata {S V : Type} (admits : S → Row V → Bool) (dflt : S) (sm : SetMd)
    (t : Table S V) (mean : List V) (var : Option (List V)) : Res S V :=
  match sm, var with
  | .off, _ => ⟨t, .untouched⟩
  | _, none => ⟨t, .untouched⟩
  | sm, some var =>
    match timeMdArray admits t mean var with
    | some rows => ⟨packset t rows, .merged⟩
    | none =>
      if (hasBytes t || t.schema.isSome) && sm == .auto then ⟨t, .warned⟩
      else clearAndWrite admits dflt t mean var

/-- Which tables receive a posterior variance from each method's `Results(...)`:
variational_gamma → nodes and mutations; inside_outside → nodes only (mutation_var = None);
maximization → neither (posterior_var = None). -/
inductive Method where
  | variationalGamma | insideOutside | maximization
deriving DecidableEq, Repr

def Method.nodeVar : Method → Bool
  | .variationalGamma => true | .insideOutside => true | .maximization => false

def Method.mutVar : Method → Bool
  | .variationalGamma => true | .insideOutside => false | .maximization => false

/-! ### A small executable validator used by the driver (tied to tskit by correspondence) -/

/-- A JSON value as the validator sees it: a type tag (`n` number, `s` string, `o` anything else)
and an opaque body (the harness puts the canonical encoding there). -/
structure TV where
  tag : Char
  body : String
deriving DecidableEq, Repr

/-- JSON-schema fragment for objects: `additionalProperties`, `required`, per-key value type. -/
structure Spec where
  id : String
  allowed : Option (List String)      -- `none` = additional properties allowed
  required : List String
  types : List (String × Char)
deriving DecidableEq, Repr

def Spec.admits (s : Spec) (r : Row TV) : Bool :=
  (match s.allowed with
    | none => true
    | some ks => r.all (fun kv => ks.contains kv.1)) &&
  s.required.all (fun k => (get k r).isSome) &&
  s.types.all (fun kt => match get kt.1 r with
    | none => true
    | some v => v.tag == kt.2)

end Tsdate.Metadata
