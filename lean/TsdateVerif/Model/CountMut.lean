/-
Model of `tsdate.rescaling._count_mutations` (plain and size-biased) and of
`tsdate.util.mutation_span_array`.

Python (numba), the kernel-specific parts of the shared sweep (see Model/Sweep.lean for the skeleton):

    indexes_mutation = np.argsort(mutations_position)
    position_mutation = mutations_position[indexes_mutation]
    nodes_samples = zeros(N); nodes_samples[node_is_sample] = 1.0
    nodes_edge = full(N, NULL); nodes_parent = full(N, NULL); mutations_edge = full(M, NULL)
    edges_mutations = zeros(E); edges_span = zeros(E)
    ...
        remainder = sequence_length - left
        # edges out, edge e = (p, c)
            nodes_edge[c] = NULL; nodes_parent[c] = NULL
            if size_biased:
                while p != NULL:
                    edges_span[e] -= nodes_samples[c] * remainder
                    nodes_samples[p] -= nodes_samples[c]
                    e, p = nodes_edge[p], nodes_parent[p]
            else:
                edges_span[e] -= remainder
        # edges in, edge e = (p, c)
            nodes_edge[c] = e; nodes_parent[c] = p
            if size_biased:
                while p != NULL:
                    edges_span[e] += nodes_samples[c] * remainder
                    nodes_samples[p] += nodes_samples[c]
                    e, p = nodes_edge[p], nodes_parent[p]
            else:
                edges_span[e] += remainder
        ... left = right
        while d < M and position_mutation[d] < right:
            m = indexes_mutation[d]; c = mutations_node[m]; e = nodes_edge[c]
            if e != NULL:
                mutations_edge[m] = e
                edges_mutations[e] += nodes_samples[c] if size_biased else 1.0
            d += 1
    return column_stack((edges_mutations, edges_span)), mutations_edge

`tskit.NULL` (-1) is `none`.  The walk towards the root has fuel `N + 1`; running out of it, or meeting
a parent without an edge, sets `err` (the Python would loop forever / index with -1; neither is
reachable on valid tables).  The mutation order is an input of the hooks (`countMutations` supplies a
stable merge sort of the positions; the result does not depend on how ties are ordered).

    def mutation_span_array(ts):
        for mut in ts.mutations():
            mutation_edges[mut.id] = mut.edge
            if mut.edge != NULL: mutation_spans[mut.edge, 0] += 1
        for edge in ts.edges(): mutation_spans[edge.id, 1] = edge.span
-/
import TsdateVerif.Model.Sweep

namespace Tsdate.CountMut
open Tsdate Tsdate.Sweep

/-- The mutation table as the kernel sees it. -/
structure Muts (α : Type) where
  node : Array Nat        -- `mutations_node`
  pos : Array α           -- `sites_position[mutations_site]`

/-- Mutable state of `_count_mutations`. -/
structure St (α : Type) where
  nodeSamples : Array α
  nodeEdge : Array (Option Nat)
  nodeParent : Array (Option Nat)
  mutEdge : Array (Option Nat)
  edgeMuts : Array α
  edgeSpan : Array α
  mutR : List Nat            -- the not yet visited part of `indexes_mutation` (pointer `d`)
  err : Bool

section Kernel
variable {α : Type} [Inhabited α] [Add α] [Sub α] [Mul α] [OfNat α 0] [OfNat α 1]
  [LT α] [DecidableLT α]

/-- `while p != NULL: edges_span[e] ±= nodes_samples[c]*remainder; nodes_samples[p] ±= nodes_samples[c];
e, p = nodes_edge[p], nodes_parent[p]`. -/
def walk (op : α → α → α) (c : Nat) (remainder : α) : Nat → Option Nat → Option Nat → St α → St α
  | _, _, none, s => s
  | 0, _, some _, s => { s with err := true }
  | _ + 1, none, some _, s => { s with err := true }
  | n + 1, some e, some p, s =>
    let span := aset s.edgeSpan e (op (aget s.edgeSpan e) (aget s.nodeSamples c * remainder))
    let ns := aset s.nodeSamples p (op (aget s.nodeSamples p) (aget s.nodeSamples c))
    walk op c remainder n (aget s.nodeEdge p) (aget s.nodeParent p)
      { s with edgeSpan := span, nodeSamples := ns }

/-- body of the "edges out" loop -/
def removeEdge (T : Tables α) (sb : Bool) (x : α) (s : St α) (e : Nat) : St α :=
  let p := T.par e
  let c := T.chi e
  let remainder := T.seqLen - x
  let s1 := { s with nodeEdge := aset s.nodeEdge c none, nodeParent := aset s.nodeParent c none }
  if sb then walk (· - ·) c remainder (s1.nodeSamples.size + 1) (some e) (some p) s1
  else { s1 with edgeSpan := aset s1.edgeSpan e (aget s1.edgeSpan e - remainder) }

/-- body of the "edges in" loop -/
def insertEdge (T : Tables α) (sb : Bool) (x : α) (s : St α) (e : Nat) : St α :=
  let p := T.par e
  let c := T.chi e
  let remainder := T.seqLen - x
  let s1 := { s with nodeEdge := aset s.nodeEdge c (some e), nodeParent := aset s.nodeParent c (some p) }
  if sb then walk (· + ·) c remainder (s1.nodeSamples.size + 1) (some e) (some p) s1
  else { s1 with edgeSpan := aset s1.edgeSpan e (aget s1.edgeSpan e + remainder) }

/-- body of the mutation loop -/
def mutStep (M : Muts α) (sb : Bool) (s : St α) (m : Nat) : St α :=
  let c := aget M.node m
  match aget s.nodeEdge c with
  | none => s
  | some e =>
    { s with mutEdge := aset s.mutEdge m (some e),
             edgeMuts := aset s.edgeMuts e
               (aget s.edgeMuts e + (if sb then aget s.nodeSamples c else 1)) }

/-- `while d < M and position_mutation[d] < right: …` -/
def mutLoop (M : Muts α) (sb : Bool) (right : α) (s : St α) : St α :=
  let r := drainWhile (fun m => decide (aget M.pos m < right)) (mutStep M sb) s.mutR s
  { r.2 with mutR := r.1 }

def hooks (T : Tables α) (M : Muts α) (sb : Bool) : Hooks α (St α) where
  head := fun _ s => s
  remove := removeEdge T sb
  insert := insertEdge T sb
  mid := fun _ s => s
  stop := fun _ => false
  tail := mutLoop M sb

/-- the arrays before the loop -/
def init (numEdges : Nat) (M : Muts α) (isSample : Array Bool) (order : List Nat) : St α where
  nodeSamples := isSample.map (fun b => if b then 1 else 0)
  nodeEdge := Array.replicate isSample.size none
  nodeParent := Array.replicate isSample.size none
  mutEdge := Array.replicate M.node.size none
  edgeMuts := Array.replicate numEdges 0
  edgeSpan := Array.replicate numEdges 0
  mutR := order
  err := false

/-- `_count_mutations` with the mutation order given. -/
def countWith [BEq α] [Min α] (T : Tables α) (M : Muts α) (isSample : Array Bool) (sb : Bool)
    (order : List Nat) : Option (St α) :=
  sweep T (hooks T M sb) (init T.numEdges M isSample order)

/-- `np.argsort(mutations_position)` (any stable or unstable sort: ties do not matter). -/
def argsort [LE α] [DecidableLE α] (M : Muts α) : List Nat :=
  (List.range M.node.size).mergeSort (fun i j => decide (aget M.pos i ≤ aget M.pos j))

/-- `_count_mutations`. -/
def countMutations [BEq α] [Min α] [LE α] [DecidableLE α] (T : Tables α) (M : Muts α)
    (isSample : Array Bool) (sb : Bool) : Option (St α) :=
  countWith T M isSample sb (argsort M)

end Kernel

/-! ### The specification the kernel is compared to (a direct per-mutation / per-edge tally) -/

section Spec
variable {α : Type} [Inhabited α] [LT α] [LE α] [DecidableLT α] [DecidableLE α] [OfNat α 0]

/-- edge `e` is in the local tree at `pos` -/
def activeAt (T : Tables α) (pos : α) (e : Nat) : Bool :=
  decide (T.l e ≤ pos) && decide (pos < T.r e)

/-- The edge above mutation `m`: the first edge whose child is the mutation's node and which covers
the mutation's position (`none` above a root / in a gap). -/
def specEdge (T : Tables α) (M : Muts α) (m : Nat) : Option Nat :=
  (List.range T.numEdges).find? fun e => T.chi e == aget M.node m && activeAt T (aget M.pos m) e

/-- every mutation sits on a node id `< n` at a position `≥ 0` -/
def mutsOkB (M : Muts α) (n : Nat) : Bool :=
  M.pos.size == M.node.size &&
  (List.range M.node.size).all fun m => decide (aget M.node m < n) && decide (0 ≤ aget M.pos m)

/-- parent of node `c` in the local tree at `pos` (`none` for a root / a node not in the tree) -/
def parentAt (T : Tables α) (pos : α) (c : Nat) : Option Nat :=
  ((List.range T.numEdges).find? fun e => T.chi e == c && activeAt T pos e).map T.par

/-- `u` is reached from `v` by following at most `fuel` parent pointers (`u = v` included) -/
def reaches (par : Nat → Option Nat) (u : Nat) : Nat → Nat → Bool
  | 0, v => v == u
  | k + 1, v => v == u || match par v with
    | none => false
    | some p => reaches par u k p

/-- Number of `mask` nodes at or below `u` in the local tree at `pos` (a path in a forest on `n`
nodes has fewer than `n` edges). -/
def samplesBelow (T : Tables α) (mask : Array Bool) (pos : α) (u : Nat) : Nat :=
  (List.range mask.size).countP fun v => aget mask v && reaches (parentAt T pos) u mask.size v

/-- consecutive break points strictly increase -/
def strictSorted : List α → Bool
  | [] => true
  | [_] => true
  | a :: b :: r => decide (a < b) && strictSorted (b :: r)

/-- `x` occurs in `l` (equality through the order, so that it also runs at `Float`) -/
def memB (x : α) (l : List α) : Bool := l.any fun b => !decide (b < x) && !decide (x < b)

/-- `bs` is a list of break points of `[0, L]`: strictly increasing, starting at `0`, containing `L`
and every edge end point (tskit's `ts.breakpoints()`). -/
def partitionB (T : Tables α) (bs : List α) : Bool :=
  strictSorted bs &&
  (match bs with
   | [] => false
   | b :: _ => !decide (b < 0) && !decide (0 < b)) &&
  memB T.seqLen bs &&
  (List.range T.numEdges).all fun e => memB (T.l e) bs && memB (T.r e) bs

/-- the table of specified span weights: for edge `e` and break point `b`, the number of `mask` nodes
at or below the edge's child in the local tree at `b` if the edge covers `b`, else `0` -/
def spanWeights (T : Tables α) (mask : Array Bool) (bs : List α) : List (List Nat) :=
  (List.range T.numEdges).map fun e => bs.map fun b =>
    if activeAt T b e then samplesBelow T mask b (T.chi e) else 0

/-- every edge's parent is strictly older than its child (`times` = `nodes_time`): no cycles -/
def timesOkB (T : Tables α) (times : Array α) : Bool :=
  (List.range T.numEdges).all fun e => decide (aget times (T.chi e) < aget times (T.par e))

end Spec

/-! ### `mutation_span_array` -/

section SpanArray
variable {α : Type} [Inhabited α] [Add α] [Sub α] [OfNat α 0] [OfNat α 1]

/-- `if mut.edge != NULL: spans[mut.edge, 0] += 1` -/
def tallyStep (acc : Array α) : Option Nat → Array α
  | none => acc
  | some e => aset acc e (aget acc e + 1)

/-- first column: `for mut: if mut.edge != NULL: spans[mut.edge, 0] += 1` (`mut.edge` from tskit) -/
def tally (numEdges : Nat) (mutEdge : List (Option Nat)) : Array α :=
  mutEdge.foldl tallyStep (Array.replicate numEdges 0)

/-- second column: `edge.span` = `right - left` -/
def spanColumn (T : Tables α) : List α := (List.range T.numEdges).map fun e => T.r e - T.l e

end SpanArray

end Tsdate.CountMut
