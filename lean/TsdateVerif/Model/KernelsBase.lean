/-
Prelude of the translated scalar kernels (`Gen/Kernels.lean`, written by `translate/kernels.py`).
Core Lean only.

* `SpecFns α`: the special functions the numba kernels call (`math.exp/log/sqrt/lgamma`) and the
  finiteness test `np.isfinite`, as *parameters*.  No law is assumed about any of them; theorems about
  translated kernels either hold for every instance or carry the law they need as a hypothesis.
    Float : `exp/log/sqrt := Float.exp/log/sqrt`, `isFinite := Float.isFinite` (driver)
    Rat / ordered field : `isFinite := fun _ => true` is the natural choice, but nothing forces it.
* the few Python/numpy primitives with a fixed arithmetic meaning (`abs`, `min`, `==`, `np.isclose`).

Numeric literals of the Python source are emitted as casts of naturals (`((12 : Nat) : α)`), so the
generated definitions need one class `NatCast α` instead of one `OfNat α k` per literal; decimal
literals `m·10^-k` are emitted as the quotient of two such casts (the IEEE quotient of two exactly
representable integers is the correctly rounded value, i.e. the same double as the Python literal).
-/

namespace Tsdate.Kernels

/-- Special functions used by the scalar kernels, as parameters of the model. -/
structure SpecFns (α : Type) where
  exp : α → α
  log : α → α
  sqrt : α → α
  lgamma : α → α
  /-- `np.isfinite` (false on NaN and ±inf at `Float`). -/
  isFinite : α → Bool

/-- `Float.ofNat` as the cast used for literals at `Float` (exact below 2^53). -/
scoped instance instNatCastFloat : NatCast Float := ⟨Float.ofNat⟩

section
variable {α : Type} [Add α] [Sub α] [Mul α] [Div α] [Neg α] [LT α] [LE α]
  [DecidableLT α] [DecidableLE α] [NatCast α]

/-- IEEE `x == y` (`false` when either side is NaN, `-0 == 0`): both `≤` hold. -/
def feq (x y : α) : Bool := decide (x ≤ y) && decide (y ≤ x)

/-- Python/numba `abs` on a float. -/
def pyabs (x : α) : α := if x < ((0 : Nat) : α) then -x else x

/-- Python `min(a, b)`: `b` if `b < a` else `a`. -/
def pymin (a b : α) : α := if b < a then b else a

/-- numba's scalar `np.isclose(x, y)` with the default `rtol = 1e-5`, `atol = 1e-8`, for finite `y`:
`abs(x - y) <= atol + rtol * abs(y)` (false for NaN or infinite `x`, as in numba). -/
def isclose (x y : α) : Bool :=
  decide (pyabs (x - y) ≤ ((1 : Nat) : α) / ((100000000 : Nat) : α)
    + ((1 : Nat) : α) / ((100000 : Nat) : α) * pyabs y)

end

end Tsdate.Kernels
