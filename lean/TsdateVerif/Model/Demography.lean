/-
Model of `tsdate.demography.PopulationSizeHistory` (tsdate/demography.py).

Python being modelled:

    @staticmethod
    def _change_time_measure(time_ago, breakpoints, time_measure):
        assert np.all(np.diff(breakpoints) > 0.0); assert np.min(breakpoints) == 0.0
        assert np.all(time_ago >= 0.0);           assert np.all(time_measure > 0.0)
        assert breakpoints.size == time_measure.size
        index = np.searchsorted(breakpoints, time_ago, side="right") - 1
        step = np.concatenate([[0.0],
            np.cumsum(breakpoints[1:] * (1.0 / time_measure[:-1] - 1.0 / time_measure[1:]))])
        new_time_ago = time_ago * 1.0 / time_measure[index] + step[index]
        new_breakpoints = breakpoints * 1.0 / time_measure + step
        new_time_measure = 1.0 / time_measure
        return new_time_ago, new_breakpoints, new_time_measure

    def __init__(self, population_size, time_breaks=None):
        ... (ValueError unless sizes > 0, len(breaks) == len(sizes) - 1, breaks > 0 and increasing)
        self.time_breaks = np.append([0.0], time_breaks.flatten())
        self.population_size = 2 * population_size.flatten()
        _, self.coalescent_breaks, self.coalescent_rate = self._change_time_measure(
            self.time_breaks, self.time_breaks, self.population_size)

    def as_dict(self):
        ret_val = {"population_size": list(self.population_size / 2)}
        if len(self.time_breaks) > 1: ret_val["time_breaks"] = list(self.time_breaks[1:])

    def to_natural_timescale(self, c):   self._change_time_measure(c, self.coalescent_breaks, self.coalescent_rate)[0]
    def to_coalescent_timescale(self, t): self._change_time_measure(t, self.time_breaks, self.population_size)[0]

    def gamma_to_natural(self, shape=1, rate=1):
        C = np.exp(shape * np.log(rate) - scipy.special.loggamma(shape))
        cdf_breaks = np.append(self.coalescent_breaks, [np.inf])
        cdf_k = C * gamma(shape + k) / rate ** (shape + k) * np.diff(gammainc(shape + k, rate * cdf_breaks))   k = 0,1,2
        mn_coef_0 = self.time_breaks - self.population_size * self.coalescent_breaks
        va_coef_0 = mn_coef_0**2;  mn_coef_1 = self.population_size
        va_coef_1 = mn_coef_0 * mn_coef_1 * 2;  va_coef_2 = mn_coef_1**2
        mn = np.sum(mn_coef_1 * cdf_1 + mn_coef_0 * cdf_0)
        va = np.sum(va_coef_2 * cdf_2 + va_coef_1 * cdf_1 + va_coef_0 * cdf_0);  va -= mn**2
        return np.array([mn**2 / va, mn / va])

Generic in the number type (core operator classes only): run at `Float` (same IEEE operations in the
same order as numpy: bit-for-bit), at `Rat` (exact), proved over a linear ordered field.
The special functions of `gamma_to_natural` are *parameters* (`GammaFns`), never axioms.
-/

namespace Tsdate.Demography

/-- total list read (`default` outside the range; theorems carry the range facts) -/
@[inline] def lget {α : Type} [Inhabited α] (l : List α) (i : Nat) : α := (l[i]?).getD default

section Core
variable {α : Type} [Inhabited α] [Add α] [Sub α] [Mul α] [Div α] [OfNat α 0] [OfNat α 1]
  [LE α] [DecidableLE α] [LT α] [DecidableLT α]

/-- `np.searchsorted(bs, t, side="right")` on a sorted array: the number of entries `≤ t`. -/
def searchRight (bs : List α) (t : α) : Nat := bs.countP (fun b => decide (b ≤ t))

/-- `step = concatenate([[0.0], cumsum(b[1:] * (1/m[:-1] - 1/m[1:]))])`, on the zipped
`(breakpoint, measure)` list, starting the running sum at `acc`. -/
def stepsFrom : List (α × α) → α → List α
  | [], _ => []
  | [_], acc => [acc]
  | (_, m0) :: (b1, m1) :: rest, acc =>
      acc :: stepsFrom ((b1, m1) :: rest) (acc + b1 * (1 / m0 - 1 / m1))

/-- the `step` vector of `_change_time_measure` -/
def steps (segs : List (α × α)) : List α := stepsFrom segs 0

/-- `new_time_ago` for one time point: `t * 1.0 / m[index] + step[index]`. -/
def newTime (segs : List (α × α)) (t : α) : α :=
  let idx := searchRight (segs.map (·.1)) t - 1
  t * 1 / lget (segs.map (·.2)) idx + lget (steps segs) idx

/-- `new_breakpoints = breakpoints * 1.0 / time_measure + step` -/
def newBreaks (segs : List (α × α)) : List α :=
  List.zipWith (fun (s : α × α) (st : α) => s.1 * 1 / s.2 + st) segs (steps segs)

/-- `new_time_measure = 1.0 / time_measure` -/
def newMeasure (segs : List (α × α)) : List α := segs.map (fun s => 1 / s.2)

/-- `a < l[0] < l[1] < …` -/
def increasingFrom : α → List α → Bool
  | _, [] => true
  | a, b :: rest => decide (a < b) && increasingFrom b rest

/-- The preconditions asserted by `_change_time_measure` (decidable; the driver answers `bad-op`
when they fail, the real code raises `AssertionError`): breakpoints start at 0 and increase
strictly, measures are positive, times are non-negative, sizes agree. -/
def ctmPre (bs ms ts : List α) : Bool :=
  bs.length == ms.length &&
  (match bs with
   | [] => false
   | b0 :: rest => decide (b0 ≤ 0) && decide (0 ≤ b0) && increasingFrom b0 rest) &&
  ts.all (fun t => decide (0 ≤ t)) && ms.all (fun m => decide (0 < m))

/-- `_change_time_measure(time_ago, breakpoints, time_measure)` -/
def changeTimeMeasure (ts bs ms : List α) : List α × List α × List α :=
  let segs := bs.zip ms
  (ts.map (newTime segs), newBreaks segs, newMeasure segs)

end Core

section History
variable {α : Type} [Inhabited α] [Add α] [Sub α] [Mul α] [Div α] [OfNat α 0] [OfNat α 1] [OfNat α 2]
  [LE α] [DecidableLE α] [LT α] [DecidableLT α]

/-- the four arrays a `PopulationSizeHistory` object stores -/
structure History (α : Type) where
  timeBreaks : List α        -- `self.time_breaks` (leading 0)
  popSize2 : List α          -- `self.population_size` (= 2N per epoch)
  coalBreaks : List α        -- `self.coalescent_breaks`
  coalRate : List α          -- `self.coalescent_rate`
deriving Repr, DecidableEq

/-- the `ValueError` guards of `__init__` -/
def initOk (popSize timeBreaks : List α) : Bool :=
  popSize.all (fun n => decide (0 < n)) && (timeBreaks.length + 1 == popSize.length) &&
  increasingFrom 0 timeBreaks

/-- `PopulationSizeHistory.__init__(population_size, time_breaks)` -/
def History.init (popSize timeBreaks : List α) : History α :=
  let tb := (0 : α) :: timeBreaks
  let ps := popSize.map (fun n => 2 * n)
  let r := changeTimeMeasure tb tb ps
  { timeBreaks := tb, popSize2 := ps, coalBreaks := r.2.1, coalRate := r.2.2 }

/-- `to_coalescent_timescale` (one time point) -/
def History.toCoalescent (h : History α) (t : α) : α := newTime (h.timeBreaks.zip h.popSize2) t

/-- `to_natural_timescale` (one time point) -/
def History.toNatural (h : History α) (c : α) : α := newTime (h.coalBreaks.zip h.coalRate) c

/-- `as_dict()`: `(population_size, time_breaks)` as accepted by `__init__` -/
def History.asDict (h : History α) : List α × List α :=
  (h.popSize2.map (fun n => n / 2), h.timeBreaks.tail)

end History

section Gamma
variable {α : Type} [Inhabited α] [Add α] [Sub α] [Mul α] [Div α] [OfNat α 0] [OfNat α 2]

/-- The special-function values `gamma_to_natural` uses, as parameters. `k` ranges over 0, 1, 2. -/
structure GammaFns (α : Type) where
  C : α                    -- `exp(shape * log(rate) - loggamma(shape))`
  gam : Nat → α            -- `scipy.special.gamma(shape + k)`
  pw : Nat → α             -- `rate ** (shape + k)`
  P : Nat → α → α          -- `scipy.special.gammainc(shape + k, x)` at finite `x`
  Pinf : Nat → α           -- `scipy.special.gammainc(shape + k, inf)`

/-- `np.diff` -/
def diffs : List α → List α
  | a :: b :: rest => (b - a) :: diffs (b :: rest)
  | _ => []

/-- sequential sum (numpy's `sum` is sequential below 8 elements) -/
def lsum (l : List α) : α := l.foldl (· + ·) 0

/-- `cdf_k = C * gamma(shape+k) / rate**(shape+k) * diff(gammainc(shape+k, rate * cdf_breaks))` -/
def cdfK (F : GammaFns α) (rate : α) (coalBreaks : List α) (k : Nat) : List α :=
  (diffs (coalBreaks.map (fun x => F.P k (rate * x)) ++ [F.Pinf k])).map
    (fun d => F.C * F.gam k / F.pw k * d)

/-- `(mn, va)` of `gamma_to_natural` before the final division -/
def gammaMoments (F : GammaFns α) (h : History α) (rate : α) : α × α :=
  let c0 := cdfK F rate h.coalBreaks 0
  let c1 := cdfK F rate h.coalBreaks 1
  let c2 := cdfK F rate h.coalBreaks 2
  let mn0 := List.zipWith (fun (tb : α) (pc : α × α) => tb - pc.1 * pc.2) h.timeBreaks
    (h.popSize2.zip h.coalBreaks)
  let va0 := mn0.map (fun x => x * x)
  let mn1 := h.popSize2
  let va1 := List.zipWith (fun a b => a * b * 2) mn0 mn1
  let va2 := mn1.map (fun x => x * x)
  let mn := lsum (List.zipWith (· + ·) (List.zipWith (· * ·) mn1 c1) (List.zipWith (· * ·) mn0 c0))
  let va := lsum (List.zipWith (· + ·)
      (List.zipWith (· + ·) (List.zipWith (· * ·) va2 c2) (List.zipWith (· * ·) va1 c1))
      (List.zipWith (· * ·) va0 c0))
  (mn, va - mn * mn)

/-- `gamma_to_natural(shape, rate)`: `(new_shape, new_rate)` -/
def gammaToNatural (F : GammaFns α) (h : History α) (rate : α) : α × α :=
  let m := gammaMoments F h rate
  (m.1 * m.1 / m.2, m.1 / m.2)

/-- a sequence of `gamma_to_natural` queries — (history, special-function values for that query, rate) — answered one after
the other: the class keeps no state between calls, so the answers are the pointwise answers -/
def gammaSequence (qs : List (GammaFns α × History α × α)) : List (α × α) :=
  qs.map (fun q => gammaToNatural q.1 q.2.1 q.2.2)

end Gamma

end Tsdate.Demography
