/-
Line-protocol driver of the EP bookkeeping model (library module so that it is compiled once by `lake build`;
`Driver/EP.lean` only calls `Tsdate.EP.Run.main`).  Run as `lake env lean --run Driver/EP.lean` (interactive).

One block per case:
  case <id> / mode float|rat / cfg <maxShape> <minStep> <tiny> / fixed <0|1>... / lower <num>... /
  ep <nat>... / ec <nat>... / bj <nat>... / bk <nat>... / elik <y mu y mu ...> / blik <...> /
  border <nat>... / eorder <nat>... / reg <0|1> / free <0|1>... / cnt <num> / reltol <num> / maxitt <nat> /
  iters <nat> / [star 1] / end
Numbers are 64-bit patterns in hex (mode float) or `num/den` (mode rat).

For every edge update the driver prints
  CALL <branch> <unphased 0|1> <age> <cavP.1> <cavP.2> <cavC.1> <cavC.2> <lik.1> <lik.2>
flushes, and reads one line `<postP.1> <postP.2> <postC.1> <postC.2>` (the answer of the real
`approx.*_projection`; a skipped update is answered with the cavities, as the real wrappers do).
With `star 1` the `root`/age-0 requests are answered by the model's own `rootwardT0` instead (no CALL).
After each iteration:  STATE <id> <iter> post <2N> scale <N> edge <4E> block <4B> node <4N> asm <2N> exact <0|1> tiny <count>
(`asm` = the model's `assemble`, `exact` = whether `post = scale * assemble` holds exactly — meaningful in
mode rat).  Finally `DONE <id>`; if an assert of the real code fires: `BAD <id> <which>` and the case ends.
-/
import TsdateVerif.Model.EPM
import TsdateVerif.Model.Proto

namespace Tsdate.EP.Run
open Tsdate Tsdate.EP Tsdate.Proto

structure Carrier (α : Type) where
  parse : String → Option α
  render : α → String

def floatCarrier : Carrier Float := ⟨hexToFloat, floatToHex⟩
def ratCarrier : Carrier Rat := ⟨parseRat, ratToString⟩

def pairs {α : Type} : List α → Option (List (α × α))
  | [] => some []
  | a :: b :: rest => (pairs rest).map (fun ps => (a, b) :: ps)
  | _ => none

def parseBool (s : String) : Option Bool :=
  if s = "1" then some true else if s = "0" then some false else none

def branchName : Branch → String
  | .skip => "skip" | .leaf => "leaf" | .root => "root" | .twin => "twin" | .both => "both"

section
variable {α : Type} [Add α] [Sub α] [Mul α] [Div α] [Neg α] [OfNat α 0] [OfNat α 1] [OfNat α 2]
  [LT α] [LE α] [DecidableLT α] [DecidableLE α] [Inhabited α] [BEq α]

def renderPairs (C : Carrier α) (xs : List (α × α)) : String :=
  " ".intercalate (xs.map (fun x => C.render x.1 ++ " " ++ C.render x.2))

def renderMsgs (C : Carrier α) (xs : List (Msg α)) : String :=
  " ".intercalate (xs.map (fun m =>
    C.render m.r.1 ++ " " ++ C.render m.r.2 ++ " " ++ C.render m.l.1 ++ " " ++ C.render m.l.2))

/-- Ask the harness for a projection. -/
def callProj (C : Carrier α) (rq : Req α) : IO (Option (Res α)) := do
  let out ← IO.getStdout
  out.putStrLn ("CALL " ++ branchName rq.branch ++ " " ++ (if rq.unphased then "1" else "0") ++ " " ++
    C.render rq.age ++ " " ++ renderPairs C [rq.cavP, rq.cavC, rq.lik])
  out.flush
  let line ← (← IO.getStdin).getLine
  match mapAll C.parse (words line.trimAscii.toString) with
  | some [a, b, c, d] => return some ⟨(a, b), (c, d)⟩
  | _ => return none

/-- The driver's monad: a counter of TINY renormalisations, an error channel for failed asserts, IO. -/
abbrev DM := StateT Nat (ExceptT String IO)

/-- The projection oracle handed to `iterateM`: checks the asserts of `_damp` (before) and of `_rescale` (after),
and answers through the protocol — or, with `star`, with the model's own conjugate projection. -/
def projIO (C : Carrier α) (star : Bool) (rq : Req α) : DM (Res α) := do
  if !rq.ok then throw "damp-assert"
  if rq.branch = .skip then return ⟨rq.cavP, rq.cavC⟩
  let r ← (if star && rq.branch = .root && isZero rq.age && !rq.unphased then
             pure (some (starProj (fun q => ⟨q.cavP, q.cavC⟩) rq))
           else (callProj C rq : IO _))
  match r with
  | none => throw "protocol"
  | some r => if !resOk rq r then throw "rescale-assert" else return r

def noteIO (b : Bool) : DM Unit := if b then modify (· + 1) else pure ()
def guardIO (b : Bool) : DM Unit := if b then pure () else throw "prior-assert"

def assembledExact (net : Net α) (s : State α) : Bool :=
  (List.range s.post.size).all (fun n =>
    let a := assemble net s n
    let sc := aget s.scale n
    let p := aget s.post n
    (p.1 == sc * a.1) && (p.2 == sc * a.2))

/-- Scalar kernels, one per block: `op damp` / `args x0 x1 y0 y1 s` → `<id> <d> <ok>`;
`op rescale` / `args x0 x1 s` → `<id> <eta> <ok>`; `op rootward0` / `args c0 c1 l0 l1` → `<id> <p0> <p1> <skip>`;
`op gammamom` / `args mn va`; `op moments` / `args a b`; `op flip` / `args x`;
`op iqr` / `args q1 q2 x1 x2 maxShape alpha0 newton gcap ga midpt` (NaN newton = no convergence). -/
def runOp (C : Carrier α) (id op : String) (blk : List (List String)) : IO Unit := do
  let b (x : Bool) : String := if x then "1" else "0"
  let res : Option String := do
    let a ← mapAll C.parse (← field blk "args")
    match op, a with
    | "damp", [x0, x1, y0, y1, s] =>
      some (C.render (damp (x0, x1) (y0, y1) s) ++ " " ++ b (dampOk (x0, x1) (y0, y1) s))
    | "rescale", [x0, x1, s] => some (C.render (rescale (x0, x1) s) ++ " " ++ b (rescaleOk (x0, x1)))
    | "rootward0", [c0, c1, l0, l1] =>
      match rootwardT0 (c0, c1) (l0, l1) with
      | some p => some (C.render p.1 ++ " " ++ C.render p.2 ++ " 0")
      | none => some (C.render c0 ++ " " ++ C.render c1 ++ " 1")
    | "gammamom", [mn, va] => some (C.render (gammaMom mn va).1 ++ " " ++ C.render (gammaMom mn va).2)
    | "moments", [a, b] => some (C.render (momentsOf (a, b)).1 ++ " " ++ C.render (momentsOf (a, b)).2)
    | "flip", [x] =>
      -- a NaN (not ≤ itself) stands for the undefined phase
      match flipPhase (if x ≤ x then some x else none) with
      | some y => some (C.render y)
      | none => some "nan"
    | "iqr", [q1, q2, x1, x2, ms, alpha0, nwt, gcap, ga, midpt] =>
      let newton : Option α := if nwt ≤ nwt then some nwt else none
      match reproject q1 q2 x1 x2 ms alpha0 newton (fun a _ => if a ≤ ms ∧ ms ≤ a then gcap else ga) midpt with
      | some r => some (C.render r.1 ++ " " ++ C.render r.2)
      | none => some "raise"
    | _, _ => none
  match res with
  | some r => IO.println s!"{id} {r}"
  | none => IO.println s!"{id} bad-op"

def runCase (C : Carrier α) (blk : List (List String)) : IO Unit := do
  let id := (((field blk "case").bind List.head?).getD "?")
  if let some op := (field blk "op").bind List.head? then
    runOp C id op blk
    return
  let parsed : Option (Cfg α × Net α × Sched α × Nat × Bool) := do
    let cfgl ← mapAll C.parse (← field blk "cfg")
    let cfg : Cfg α ← match cfgl with
      | [a, b, c] => some ⟨a, b, c⟩
      | _ => none
    let fixed ← mapAll parseBool (← field blk "fixed")
    let lower ← mapAll C.parse (← field blk "lower")
    let ep ← mapAll String.toNat? (← field blk "ep")
    let ec ← mapAll String.toNat? (← field blk "ec")
    let bj ← mapAll String.toNat? (← field blk "bj")
    let bk ← mapAll String.toNat? (← field blk "bk")
    let elik ← pairs (← mapAll C.parse (← field blk "elik"))
    let blik ← pairs (← mapAll C.parse (← field blk "blik"))
    let border ← mapAll String.toNat? (← field blk "border")
    let eorder ← mapAll String.toNat? (← field blk "eorder")
    let reg ← parseBool (← (← field blk "reg").head?)
    let free ← mapAll parseBool (← field blk "free")
    let cnt ← C.parse (← (← field blk "cnt").head?)
    let reltol ← C.parse (← (← field blk "reltol").head?)
    let maxitt ← (← (← field blk "maxitt").head?).toNat?
    let iters ← (← (← field blk "iters").head?).toNat?
    let star := ((field blk "star").bind List.head?) = some "1"
    let n := fixed.length
    if lower.length ≠ n ∨ free.length ≠ n then none
    if ep.length ≠ ec.length ∨ elik.length ≠ ep.length then none
    if bj.length ≠ bk.length ∨ blik.length ≠ bj.length then none
    if (ep ++ ec ++ bj ++ bk).any (fun x => x ≥ n) then none
    if eorder.any (fun i => i ≥ ep.length) ∨ border.any (fun i => i ≥ bj.length) then none
    let net : Net α := ⟨fixed.toArray, lower.toArray, ep.toArray, ec.toArray, bj.toArray, bk.toArray,
      elik.toArray, blik.toArray⟩
    let sch : Sched α := ⟨border, eorder, reg, free.toArray, cnt, reltol, maxitt⟩
    pure (cfg, net, sch, iters, star)
  match parsed with
  | none => IO.println s!"BAD {id} bad-op"
  | some (cfg, net, sch, iters, star) =>
    let n := net.fixed.size
    let mut s : State α := initState n net.ep.size net.bj.size
    for it in List.range iters do
      -- `iterateM` of Model/EPM.lean: at `Id` it is `iterate` (Proofs/EPMonad.iterateM_id)
      match ← ((iterateM (projIO C star) noteIO guardIO cfg net sch s).run 0).run with
      | .error e => IO.println s!"BAD {id} {e}"; return
      | .ok (s', fired) =>
      s := s'
      let asm := (List.range n).map (assemble net s)
      IO.println (s!"STATE {id} {it} post " ++ renderPairs C s.post.toList ++ " scale " ++
        " ".intercalate (s.scale.toList.map C.render) ++ " edge " ++ renderMsgs C s.edge.toList ++
        " block " ++ renderMsgs C s.block.toList ++ " node " ++ renderMsgs C s.node.toList ++
        " asm " ++ renderPairs C asm ++ " exact " ++ (if assembledExact net s then "1" else "0") ++
        s!" tiny {fired}")
    IO.println s!"DONE {id}"
    (← IO.getStdout).flush

end

partial def loop (h : IO.FS.Stream) : IO Unit := do
  match ← readBlock h with
  | none => return ()
  | some blk =>
    let mode := ((field blk "mode").bind List.head?).getD "float"
    if mode = "rat" then runCase ratCarrier blk else runCase floatCarrier blk
    (← IO.getStdout).flush
    loop h

def main : IO Unit := do loop (← IO.getStdin)

end Tsdate.EP.Run
