/-
Model of the span accumulator of `tsdate.prior.SpansBySamples.first_pass` and of
`ConditionalCoalescentTimes.mixture_expect_and_var` (C15).

Python being modelled (abbreviated to the part that runs on inputs without unary nodes):

    stored_pos = full(num_nodes, nan)                  # nan = not tracked
    for node in ts.first().nodes(): stored_pos[node] = 0
    def save_to_spans(prev_tree, node, T):
        if isnan(stored_pos[node]): return
        k = prev_tree.num_tracked_samples(node)
        coverage = prev_tree.interval[1] - stored_pos[node]
        node_spans[node] += coverage
        self._spans[node][T][k] += coverage
    for prev_tree in ts.trees():
        (edge diffs -> sets changed_nodes / disappearing_nodes, new T)
        for node in <nodes to flush, each once (visited_nodes)>:
            save_to_spans(prev_tree, node, T)
            stored_pos[node] = nan if node in disappearing_nodes else prev_tree.interval[1]
        # last tree: save_to_spans for every node of the tree

Modelling decisions (design_notes/C15.md):
* Input is the list of local trees as *records*: interval, `total` = T (number of non-isolated sample
  nodes in the tree) and `desc[u] = some k` (node `u` is in the tree and has `k` descendant samples) or
  `none` (absent).  The records are extracted from the real tree sequence with tskit by the harness.
* The *flush set* of each transition (the nodes on which `save_to_spans` is called) is an input as well:
  the theorem holds for every choice that contains all nodes whose record changes.  That the code's
  edge-diff bookkeeping produces such a set is tied by I/O correspondence only (the harness also records
  the code's actual flush sets and evaluates the adequacy hypothesis on them).
* "disappearing" is modelled as "absent from the next tree".
* `self._spans[node][T][k] += coverage` and `node_spans[node] += coverage` are modelled by a log of
  entries `(node, T, k, coverage)`; a bucket's value is the sum of its entries.
* `get_mixture_prior_params`: `paramsOf` is the per-node computation, `mixtureParams` the loop with the
  `seen_mixtures` cache keyed by `(total_tips, span_arr.tobytes())`; the bytes of the `(uint64, float64)`
  records are modelled as the list of `(k, span)` pairs (equal bytes = equal pairs for positive spans).
* A flush set is a set: the loop visits every node once (`visited_nodes`); the model walks the node ids
  `0 … N-1` and flushes those contained in the given list.
-/
import TsdateVerif.Model.Arr

namespace Tsdate.Spans

/-- One local tree. -/
structure TreeRec (α : Type) where
  left : α
  right : α
  total : Nat
  desc : Array (Option Nat)

/-- One executed `+= coverage`. -/
structure Entry (α : Type) where
  node : Nat
  total : Nat
  k : Nat
  cov : α

/-- `stored_pos` (`none` = NaN) and everything added so far (most recent first). -/
structure State (α : Type) where
  start : Array (Option α)
  log : List (Entry α)

section Acc
variable {α : Type} [Sub α] [OfNat α 0]

/-- Is node `u` in tree `t`? -/
def present (t : TreeRec α) (u : Nat) : Bool := (aget t.desc u).isSome

/-- `save_to_spans(prev_tree, u, T)` followed by the update of `stored_pos[u]`. -/
def flushNode (t : TreeRec α) (next : Option (TreeRec α)) (s : State α) (u : Nat) : State α :=
  let log' := match aget s.start u, aget t.desc u with
    | some p, some k => { node := u, total := t.total, k := k, cov := t.right - p } :: s.log
    | _, _ => s.log
  let stays := match next with
    | some t' => present t' u
    | none => false
  { start := aset s.start u (if stays then some t.right else none), log := log' }

/-- Flush the nodes of `us` that belong to the flush set `F`. -/
def flushList (t : TreeRec α) (next : Option (TreeRec α)) (F : List Nat) (s : State α) (us : List Nat) :
    State α :=
  us.foldl (fun s u => if F.contains u then flushNode t next s u else s) s

/-- The transition after tree `t`: every node `0 … N-1` in the flush set is flushed once. -/
def transition (N : Nat) (t : TreeRec α) (next : Option (TreeRec α)) (F : List Nat) (s : State α) :
    State α :=
  flushList t next F s (List.range N)

/-- The loop over trees; after the last tree everything is flushed. -/
def go (N : Nat) : State α → TreeRec α → List (List Nat × TreeRec α) → State α
  | s, t, [] => transition N t none (List.range N) s
  | s, t, (F, t') :: rest => go N (transition N t (some t') F s) t' rest

/-- `stored_pos` after `for node in ts.first().nodes(): stored_pos[node] = 0`. -/
def initStart (N : Nat) (first : TreeRec α) : Array (Option α) :=
  ((List.range N).map (fun u => if present first u then some (0 : α) else none)).toArray

/-- `first_pass` on `first :: rest.map snd`, with the flush set of each transition. -/
def accumulate (N : Nat) (first : TreeRec α) (rest : List (List Nat × TreeRec α)) : State α :=
  go N { start := initStart N first, log := [] } first rest

end Acc

section Rule

/-- Walk up the previous tree from `u` (at most `fuel` steps): `while node != NULL: …; node = parent(node)`. -/
def upPath (par : Array (Option Nat)) : Nat → Nat → List Nat
  | 0, u => [u]
  | f + 1, u => u :: (match aget par u with
    | some p => upPath par f p
    | none => [])

/-- `changed_nodes`: children of edges going out or coming in (parent differs) and parents of edges coming in. -/
def changedNodes (N : Nat) (par par' : Array (Option Nat)) : List Nat :=
  let ch := (List.range N).filter (fun c => aget par c != aget par' c)
  ch ++ ch.filterMap (fun c => aget par' c)

/-- The flush rule of `first_pass`: the upward closure of the changed nodes in the previous tree, plus
every node of the previous tree when the number of samples in the tree changes. -/
def ruleFlush (N : Nat) (par par' : Array (Option Nat)) (T T' : Nat) (inPrev : Nat → Bool) : List Nat :=
  (changedNodes N par par').flatMap (upPath par N) ++ (if T != T' then (List.range N).filter inPrev else [])

end Rule

section Read
variable {α : Type} [Add α] [OfNat α 0]

/-- Sum of the coverages of the entries of node `u` whose `(T, k)` satisfies `cls`. -/
def bucketC (cls : Nat → Nat → Bool) (u : Nat) : List (Entry α) → α
  | [] => 0
  | e :: es => (if e.node = u ∧ cls e.total e.k = true then e.cov else 0) + bucketC cls u es

/-- `self._spans[u][T][k]`. -/
def bucket (log : List (Entry α)) (u T k : Nat) : α :=
  bucketC (fun T' k' => T' == T && k' == k) u log

/-- `node_spans[u]`. -/
def nodeSpan (log : List (Entry α)) (u : Nat) : α := bucketC (fun _ _ => true) u log

end Read

section Mixture
variable {α : Type} [Add α] [Sub α] [Mul α] [Div α] [OfNat α 0]

/-- `np.sum(f(component))` over one `mixture[N]` group; a component is `(w, m, v)` =
(span weight, mean, variance of the coalescent prior for that `(N, k)`). -/
def sumBy (f : α × α × α → α) (g : List (α × α × α)) : α := g.foldl (fun acc x => acc + f x) 0

/-- The four running sums of `mixture_expect_and_var`. -/
structure MixAcc (α : Type) where
  e : α
  f : α
  s : α
  w : α

def mixStep (a : MixAcc α) (g : List (α × α × α)) : MixAcc α :=
  { e := a.e + sumBy (fun x => x.2.1 * x.1) g            -- expectation += sum(mean_time * w)
    f := a.f + sumBy (fun x => x.2.2 * x.1) g            -- first += sum(var_time * w)
    s := a.s + sumBy (fun x => x.2.1 * x.2.1 * x.1) g    -- secnd += sum(mean_time**2 * w)
    w := a.w + sumBy (fun x => x.1) g }                  -- weight_sum += sum(w)

/-- `mixture_expect_and_var(mixture)` = (mean, var); one list per total-tips group. -/
def mixtureMoments (groups : List (List (α × α × α))) : α × α :=
  let a : MixAcc α := groups.foldl mixStep { e := (0 : α), f := (0 : α), s := (0 : α), w := (0 : α) }
  let mean := a.e / a.w
  (mean, (a.f + a.s) / a.w - mean * mean)

end Mixture

section Params
variable {α : Type} [Add α] [Sub α] [Mul α] [Div α] [OfNat α 0] [DecidableEq α]

/-- The span table of one node as `get_spans(node)` returns it: per total-tips value `T` the list of
`(descendant tips k, span)` records. -/
abbrev NodeRecs (α : Type) := List (Nat × List (Nat × α))

/-- `mixture` → components `(w, m, v)`: `m, v` are the `mean`/`var` columns of `self[T][k]`. -/
def groupsOf (table : Nat → Nat → α × α) (r : NodeRecs α) : List (List (α × α × α)) :=
  r.map (fun g => g.2.map (fun c => (c.2, (table g.1 c.1).1, (table g.1 c.1).2)))

/-- What `get_mixture_prior_params` assigns to a node **without** the cache: a function of the node's
own records (and the coalescent tables) only.  `approx` is `func_approx` (gamma or lognormal moment
matching); a non-mixture node takes the table row's own parameters `approx (mean, var)`. -/
def paramsOf (approx : α → α → α × α) (table : Nat → Nat → α × α) (r : NodeRecs α) : α × α :=
  match r with
  | [(T, [(k, _)])] => approx (table T k).1 (table T k).2
  | _ => let mv := mixtureMoments (groupsOf table r); approx mv.1 mv.2

/-- `seen_mixtures`: keys `(total_tips, span_arr.tobytes())`, i.e. `(T, records)`. -/
abbrev Cache (α : Type) := List ((Nat × List (Nat × α)) × (α × α))

/-- One iteration of the loop over `nodes_to_date`, with the small-mixture cache. -/
def paramsStep (approx : α → α → α × α) (table : Nat → Nat → α × α)
    (st : Cache α × List (α × α)) (r : NodeRecs α) : Cache α × List (α × α) :=
  match r with
  | [(T, comps)] =>
    if comps.length = 1 then (st.1, st.2 ++ [paramsOf approx table r])
    else if comps.length ≤ 5 then
      match st.1.lookup (T, comps) with
      | some v => (st.1, st.2 ++ [v])
      | none =>
        let v := paramsOf approx table r
        (((T, comps), v) :: st.1, st.2 ++ [v])
    else (st.1, st.2 ++ [paramsOf approx table r])
  | _ => (st.1, st.2 ++ [paramsOf approx table r])

/-- `get_mixture_prior_params`: the parameters of every node, in loop order. -/
def mixtureParams (approx : α → α → α × α) (table : Nat → Nat → α × α) (nodes : List (NodeRecs α)) :
    List (α × α) :=
  (nodes.foldl (paramsStep approx table) ([], [])).2

end Params

end Tsdate.Spans
