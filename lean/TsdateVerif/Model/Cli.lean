/-
Generic part of the CLI model (property C34): the little language `run_date` / `run_preprocess`
(tsdate/cli.py) are translated into by `translate/cli.py`, and its interpreter.

The runners have this shape (Python):

    def run_date(args):
        if args.deprecated_population_size is not None:
            error_exit(...)
        try: ts = tskit.load(args.tree_sequence)
        except tskit.FileFormatError as ffe: error_exit(...)
        if args.method == "variational_gamma":
            if args.population_size is not None: error_exit(...)
            ...
            params = dict(recombination_rate=args.recombination_rate, method=args.method, ...)
        else:
            if args.rescaling_intervals is not None: error_exit(...)
            ...
            params = dict(population_size=args.population_size, ...)
        dated_ts = tsdate.date(ts, mutation_rate=args.mutation_rate, **params)
        dated_ts.dump(args.output)

i.e. a decision tree over conditions `args.x is not None` / `args.x == "literal"` whose leaves are
`error_exit(msg)` or one API call `fn(load(args.f), kw=args.x, ...)` followed by `.dump(args.out)`.
The translator performs the (purely syntactic) flattening — sequencing, the `params` dictionary,
the common tail duplicated into both branches — and fails loudly on anything else.

`Args` is the argparse `Namespace` seen as a function from `dest` to parsed value.
-/

namespace Tsdate.Cli

/-- A parsed command-line value. Floats are carried as opaque text (the plumbing never computes). -/
inductive Val where
  | none
  | bool (b : Bool)
  | int (i : Int)
  | flt (repr : String)
  | str (s : String)
deriving DecidableEq, Repr, Inhabited

abbrev Args := String → Val

inductive Cond where
  | notNone (dest : String)              -- `args.dest is not None`
  | eqStr (dest : String) (s : String)   -- `args.dest == "s"`
deriving DecidableEq, Repr

def Cond.eval (a : Args) : Cond → Bool
  | .notNone d => a d != Val.none
  | .eqStr d s => a d == Val.str s

/-- The flattened runner. `call fn tsFrom kwargs dumpTo`:
`fn(tskit.load(args.tsFrom), **{kw: args.dest for (kw, dest) in kwargs}).dump(args.dumpTo)`. -/
inductive Prog where
  | error (msg : String)
  | call (fn : String) (tsFrom : String) (kwargs : List (String × String)) (dumpTo : String)
  | ite (c : Cond) (thn els : Prog)
deriving DecidableEq, Repr

inductive Outcome where
  | error (msg : String)
  | call (fn : String) (tsFrom : Val) (kwargs : List (String × Val)) (dumpTo : Val)
deriving DecidableEq, Repr

def exec (a : Args) : Prog → Outcome
  | .error m => .error m
  | .call fn f kws out => .call fn (a f) (kws.map (fun kd => (kd.1, a kd.2))) (a out)
  | .ite c t e => if c.eval a then exec a t else exec a e

/-! ### Static faithfulness check (decidable on a generated program) -/

/-- `covered p neg nones kw d`: on every path of `p` that is not ruled out by the assumptions
`neg` (conditions assumed false), either the path ends in an error, or the leaf passes `args.d`
under keyword `kw`, or the path has established `args.d is None` (it went through the else-side of
a guard `args.d is not None`). -/
def covered : Prog → List Cond → List String → String → String → Bool
  | .error _, _, _, _, _ => true
  | .call _ _ kws _, _, nones, kw, d => kws.contains (kw, d) || nones.contains d
  | .ite c t e, neg, nones, kw, d =>
    let nones' := match c with
      | .notNone x => x :: nones
      | _ => nones
    if neg.contains c then covered e neg nones' kw d
    else covered t neg nones kw d && covered e neg nones' kw d

/-- What faithfulness means for one run: the run errors explicitly, or the API call receives the
parsed value of option `d` under keyword `kw`, or the option was not given (`None`). -/
def Faithful (p : Prog) (a : Args) (kw d : String) : Prop :=
  match exec a p with
  | .error _ => True
  | .call _ _ kws _ => (kw, a d) ∈ kws ∨ a d = Val.none

/-- Every call leaf loads from `args.f` and dumps to `args.out`. -/
def ioOk (f out : String) : Prog → Bool
  | .error _ => true
  | .call _ f' _ out' => f' == f && out' == out
  | .ite _ t e => ioOk f out t && ioOk f out e

/-- Every call leaf calls `fn`. -/
def callsOnly (fn : String) : Prog → Bool
  | .error _ => true
  | .call fn' _ _ _ => fn' == fn
  | .ite _ t e => callsOnly fn t && callsOnly fn e

/-- No keyword is passed twice at a call leaf (Python would raise `TypeError`). -/
def noDupKw : Prog → Bool
  | .error _ => true
  | .call _ _ kws _ => decide (kws.map Prod.fst).Nodup
  | .ite _ t e => noDupKw t && noDupKw e

/-- All `dest`s a program reads (conditions, load, keyword values, dump target). -/
def progDests : Prog → List String
  | .error _ => []
  | .call _ f kws out => f :: out :: kws.map Prod.snd
  | .ite (.notNone d) t e => d :: (progDests t ++ progDests e)
  | .ite (.eqStr d _) t e => d :: (progDests t ++ progDests e)

/-- Keywords passed at the call leaves that are reachable when condition `c` has truth value `pol`. -/
def kwsWhen (c : Cond) (pol : Bool) : Prog → List String
  | .error _ => []
  | .call _ _ kws _ => kws.map Prod.fst
  | .ite c' t e =>
    if c' = c then (if pol then kwsWhen c pol t else kwsWhen c pol e)
    else kwsWhen c pol t ++ kwsWhen c pol e

/-- `type(s)` for the boolean-valued `type=` callables.  `bool` is Python's `bool(str)` (true iff the
string is non-empty — the pre-repair parser used it); `str_to_bool` is tsdate's own converter, given
by the two literal tuples the translator extracts from its source. -/
def convertBool (tt ff : List String) (ty : String) (s : String) : Option Bool :=
  if ty = "str_to_bool" then
    (if tt.contains s.toLower then some true else if ff.contains s.toLower then some false else none)
  else if ty = "bool" then some (s != "")
  else none

/-! ### Parse table entries (filled in by the translator from the real `argparse` parser) -/

inductive Kind where
  | positional | store | storeTrue | storeFalse | count
deriving DecidableEq, Repr

structure Opt where
  flags : List String
  dest : String
  kind : Kind
  ty : String          -- name of the `type=` callable: float | int | str | str_to_bool | bool | none
  default : Val
  nargs : String       -- "1" (one value), "?" (optional positional), "0" (flag)
  choices : List String
deriving DecidableEq, Repr

end Tsdate.Cli
