/-
Monadic form of the EP sweeps: the same `tinyCheck` / `prep` / `stepApply` / `prior` / `rescaleFactors` as
`Model/EP.lean`, with the projection an *effectful* oracle `proj : Req α → m (Res α)`.

* at `m = Id` these are the pure `sweep` / `iterate` the theorems are about (`Proofs/EPMonad.lean` proves it);
* at `m = StateT Nat (ExceptT String IO)` they are what the driver runs: `proj` asks the harness for the answer of
  the real `tsdate.approx.*_projection`, `note` counts TINY renormalisations, `guard` stops at a failed assert.

So the driver executes the very definitions the theorems quantify over; only the three effect handlers are its own.
-/
import TsdateVerif.Model.EP

namespace Tsdate.EP

section
variable {α : Type} [Add α] [Sub α] [Mul α] [Div α] [Neg α] [OfNat α 0] [OfNat α 1]
  [LT α] [LE α] [DecidableLT α] [DecidableLE α] [Inhabited α]
variable {m : Type → Type} [Monad m]

/-- Whether `if scale[p] < TINY or scale[c] < TINY` fires for edge `i`. -/
def tinyFires (cfg : Cfg α) (net : Net α) (u : Bool) (i : Nat) (s : State α) : Bool :=
  decide (aget s.scale (aget (parOf u net) i) < cfg.tiny ∨ aget s.scale (aget (chiOf u net) i) < cfg.tiny)

/-- One pass of the loop body with an effectful projection. -/
def stepM (proj : Req α → m (Res α)) (note : Bool → m Unit) (cfg : Cfg α) (net : Net α) (u : Bool)
    (s : State α) (i : Nat) : m (State α) := do
  note (tinyFires cfg net u i s)
  let s1 := tinyCheck cfg net u i s
  let rq := prep cfg net u i s1
  let r ← proj rq
  pure (stepApply cfg rq i r s1)

/-- `propagate_likelihood` with an effectful projection. -/
def sweepM (proj : Req α → m (Res α)) (note : Bool → m Unit) (cfg : Cfg α) (net : Net α) (u : Bool) :
    List Nat → State α → m (State α)
  | [], s => pure s
  | i :: rest, s => do
    let s' ← stepM proj note cfg net u s i
    sweepM proj note cfg net u rest s'

/-- `iterate` with an effectful projection; `guard b` is told whether the asserts of `propagate_prior` hold. -/
def iterateM (proj : Req α → m (Res α)) (note : Bool → m Unit) (guard : Bool → m Unit) (cfg : Cfg α)
    (net : Net α) (sch : Sched α) (s : State α) : m (State α) := do
  let s1 ← sweepM proj note cfg net true sch.blockOrder s
  let s2 ← sweepM proj note cfg net false sch.edgeOrder s1
  guard (!sch.regularise || priorOk cfg sch.free sch.cnt sch.reltol sch.maxitt s2)
  let s3 := if sch.regularise then prior cfg sch.free sch.cnt sch.reltol sch.maxitt s2 else s2
  pure (rescaleFactors net s3)

end

end Tsdate.EP
