/-
Model of the two-pointer edge-insertion / edge-removal sweep that the numba kernels
`tsdate.rescaling._count_mutations` and `tsdate.util._contains_unary_nodes` share (the loop skeleton is
copied verbatim between them in the Python source):

    position_insert = edges_left[indexes_insert]
    position_remove = edges_right[indexes_remove]
    left = 0.0
    a, b = 0, 0
    while a < num_edges or b < num_edges:
        <head>                                              # e.g. `check = set()`
        while b < num_edges and position_remove[b] == left:  # edges out
            e = indexes_remove[b]; <remove e>; b += 1
        while a < num_edges and position_insert[a] == left:  # edges in
            e = indexes_insert[a]; <insert e>; a += 1
        <mid>                                               # e.g. the unary test, may `return True`
        right = sequence_length
        if b < num_edges: right = min(right, position_remove[b])
        if a < num_edges: right = min(right, position_insert[a])
        left = right
        <tail>                                              # e.g. the mutation loop (uses `right`)

The pointers `a`, `b` into the index arrays are modelled by the not-yet-consumed suffixes `insR`,
`remR` of the index lists (pointer `a` <-> `ins.drop a`).  The kernel-specific bodies are the `Hooks`.
The Python loop does not terminate when the indexes are not sorted (it keeps `left = sequence_length`
with edges outstanding); the model has fuel `|ins| + |rem| + 1` and returns `none` in that case
(`Proofs/Sweep.lean` shows that on valid tables the fuel always suffices).

Generic in the number type (core operator classes only): runs at `Float` bit-for-bit like numba, and
is proved over any linearly ordered field.
-/
import TsdateVerif.Model.Arr

namespace Tsdate.Sweep

/-- One row of the edge table. -/
structure Edge (α : Type) where
  left : α
  right : α
  parent : Nat
  child : Nat
deriving Inhabited, Repr

/-- What the sweep reads: the edge table, the two tskit indexes and the sequence length. -/
structure Tables (α : Type) where
  edges : Array (Edge α)
  ins : List Nat          -- `indexes_edge_insertion_order`
  rem : List Nat          -- `indexes_edge_removal_order`
  seqLen : α

section Acc
variable {α : Type} [Inhabited α]
def Tables.numEdges (T : Tables α) : Nat := T.edges.size
def Tables.l (T : Tables α) (e : Nat) : α := (aget T.edges e).left
def Tables.r (T : Tables α) (e : Nat) : α := (aget T.edges e).right
def Tables.par (T : Tables α) (e : Nat) : Nat := (aget T.edges e).parent
def Tables.chi (T : Tables α) (e : Nat) : Nat := (aget T.edges e).child
end Acc

/-- The kernel-specific parts of the loop body. `σ` is the kernel's mutable state. -/
structure Hooks (α σ : Type) where
  head : α → σ → σ            -- at the top of an iteration (argument: `left`)
  remove : α → σ → Nat → σ    -- body of the "edges out" loop (`left`, state, edge id)
  insert : α → σ → Nat → σ    -- body of the "edges in" loop
  mid : α → σ → σ             -- after both inner loops, before `right` is computed
  stop : σ → Bool             -- early `return` after `mid`
  tail : α → σ → σ            -- after `left = right` (argument: the new `left`)

/-- `while i < n and p(idx[i]): f(idx[i]); i += 1` on the unconsumed suffix of `idx`. -/
def drainWhile {σ : Type} (p : Nat → Bool) (f : σ → Nat → σ) : List Nat → σ → List Nat × σ
  | [], s => ([], s)
  | e :: r, s => if p e then drainWhile p f r (f s e) else (e :: r, s)

section Go
variable {α σ : Type} [Inhabited α] [BEq α] [Min α]

/-- `right = sequence_length; if b < E: right = min(right, position_remove[b]);
if a < E: right = min(right, position_insert[a])`. -/
def nextPos (T : Tables α) (insR remR : List Nat) : α :=
  let r1 := match remR with
    | [] => T.seqLen
    | e :: _ => min T.seqLen (T.r e)
  match insR with
  | [] => r1
  | e :: _ => min r1 (T.l e)

/-- The outer `while a < num_edges or b < num_edges` loop, with fuel. -/
def go (T : Tables α) (H : Hooks α σ) : Nat → α → List Nat → List Nat → σ → Option σ
  | 0, _, insR, remR, s => if insR.isEmpty && remR.isEmpty then some s else none
  | n + 1, x, insR, remR, s =>
    if insR.isEmpty && remR.isEmpty then some s else
    let s0 := H.head x s
    let out := drainWhile (fun e => T.r e == x) (H.remove x) remR s0
    let inn := drainWhile (fun e => T.l e == x) (H.insert x) insR out.2
    let s3 := H.mid x inn.2
    if H.stop s3 then some s3 else
    let x' := nextPos T inn.1 out.1
    go T H n x' inn.1 out.1 (H.tail x' s3)

/-- The whole sweep from `left = 0.0`, `a = b = 0`. -/
def sweep [OfNat α 0] (T : Tables α) (H : Hooks α σ) (s : σ) : Option σ :=
  go T H (T.ins.length + T.rem.length + 1) 0 T.ins T.rem s

end Go

/-! ### The preconditions (tskit's table and index invariants), as executable checks -/

section Valid
variable {α : Type} [Inhabited α] [LT α] [LE α] [DecidableLT α] [DecidableLE α] [OfNat α 0]

/-- `idx` lists every edge id `0 … E-1` exactly once. -/
def isIndex (E : Nat) (idx : List Nat) : Bool := idx.isPerm (List.range E)

/-- consecutive keys are non-decreasing -/
def sortedBy (key : Nat → α) : List Nat → Bool
  | [] => true
  | [_] => true
  | a :: b :: r => decide (key a ≤ key b) && sortedBy key (b :: r)

/-- `0 ≤ sequence_length` and every edge has `0 ≤ left < right ≤ sequence_length` -/
def geomOk (T : Tables α) : Bool :=
  decide (0 ≤ T.seqLen) && (List.range T.numEdges).all fun e =>
    decide (0 ≤ T.l e) && decide (T.l e < T.r e) && decide (T.r e ≤ T.seqLen)

/-- The decidable hypothesis of the sweep theorems: both indexes are permutations of the edge ids,
sorted by left / right coordinate, and every edge has `0 ≤ left < right ≤ L`. -/
def validB (T : Tables α) : Bool :=
  isIndex T.numEdges T.ins && isIndex T.numEdges T.rem &&
  sortedBy T.l T.ins && sortedBy T.r T.rem && geomOk T

/-- No node has two parents at the same position: edges with the same child do not overlap. -/
def noOverlapB (T : Tables α) : Bool :=
  (List.range T.numEdges).all fun e => (List.range T.numEdges).all fun e' =>
    e == e' || T.chi e != T.chi e' || decide (T.r e ≤ T.l e') || decide (T.r e' ≤ T.l e)

/-- All node ids in the edge table are below `n`. -/
def nodesBelowB (T : Tables α) (n : Nat) : Bool :=
  (List.range T.numEdges).all fun e => decide (T.par e < n) && decide (T.chi e < n)

end Valid

end Tsdate.Sweep
