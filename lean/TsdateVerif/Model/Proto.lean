/-
Line-protocol helpers shared by the drivers (core Lean only).

Floats cross the boundary as their 64-bit pattern in 16 hex digits (`struct.pack('>d', x).hex()`),
rationals as `num/den`, so nothing is ever re-parsed from decimal text.
-/

namespace Tsdate.Proto

def hexDigit (c : Char) : Option UInt64 :=
  if '0' ≤ c ∧ c ≤ '9' then some (c.toNat - '0'.toNat).toUInt64
  else if 'a' ≤ c ∧ c ≤ 'f' then some (c.toNat - 'a'.toNat + 10).toUInt64
  else if 'A' ≤ c ∧ c ≤ 'F' then some (c.toNat - 'A'.toNat + 10).toUInt64
  else none

def hexToU64 (s : String) : Option UInt64 :=
  if s.length = 0 ∨ s.length > 16 then none else
  s.toList.foldl (fun acc c => do
    let a ← acc
    let d ← hexDigit c
    pure (a * 16 + d)) (some 0)

def hexToFloat (s : String) : Option Float := (hexToU64 s).map Float.ofBits

def u64ToHex (x : UInt64) : String :=
  let digs := "0123456789abcdef".toList.toArray
  let rec go (n : Nat) (x : UInt64) (acc : List Char) : List Char :=
    match n with
    | 0 => acc
    | n + 1 => go n (x >>> 4) (digs[(x &&& 15).toNat]! :: acc)
  String.ofList (go 16 x [])

/-- Canonical bits: every NaN is printed as the same pattern. -/
def floatToHex (x : Float) : String :=
  if x.isNaN then "7ff8000000000000" else u64ToHex x.toBits

/-- `np.nextafter(x, +inf)` for doubles. -/
def nextUp (x : Float) : Float :=
  if x.isNaN then x
  else if x == 0.0 then Float.ofBits 1                -- both zeros step to the least subnormal
  else if x > 0.0 then (if x.isInf then x else Float.ofBits (x.toBits + 1))
  else Float.ofBits (x.toBits - 1)

def parseInt (s : String) : Option Int := s.toInt?

def parseRat (s : String) : Option Rat :=
  match s.splitOn "/" with
  | [n] => (n.toInt?).map (fun (i : Int) => (i : Rat))
  | [n, d] => do
    let ni ← n.toInt?
    let di ← d.toNat?
    if di = 0 then none else pure (mkRat ni di)
  | _ => none

def ratToString (q : Rat) : String := s!"{q.num}/{q.den}"

def words (line : String) : List String :=
  (line.splitOn " ").filter (fun w => w ≠ "")

/-- Read one block of lines up to (excluding) a line `end`; `none` at end of input. -/
partial def readBlock (h : IO.FS.Stream) : IO (Option (List (List String))) := do
  let rec loop (acc : List (List String)) : IO (Option (List (List String))) := do
    let line ← h.getLine
    if line.isEmpty then
      return (if acc.isEmpty then none else some acc.reverse)
    let ws := words (line.trimAscii.toString)
    match ws with
    | [] => loop acc
    | ["end"] => return some acc.reverse
    | _ => loop (ws :: acc)
  loop []

def field (blk : List (List String)) (key : String) : Option (List String) :=
  (blk.find? (fun l => l.head? = some key)).map List.tail

def mapAll {α β : Type} (f : α → Option β) (xs : List α) : Option (List β) :=
  xs.foldr (fun x acc => do let y ← f x; let ys ← acc; pure (y :: ys)) (some [])

end Tsdate.Proto
