/-
Model of `BeliefPropagation.outside_maximization` (tsdate/discrete.py).

Python (abbreviated; `poisson` is `scipy.stats.poisson.pmf` in linear space and `.logpmf` in
logarithmic space, `combine` is `*` resp. `+`, `ratio` is `/` resp. `-`):

    maximized_node_times = np.zeros(num_nodes, dtype="int")
    mrcas = np.where(np.isin(np.arange(num_nodes), edges_child, invert=True))[0]
    for i in mrcas:
        if i not in fixednodes:
            maximized_node_times[i] = np.argmax(inside[i])
    for child, edges in edges_by_child_then_parent_desc():
        if child in fixednodes: continue
        for edge_index, edge in enumerate(edges):
            if edge_index == 0:
                youngest_par_index = maximized_node_times[edge.parent]
                parent_time = timepoints[maximized_node_times[edge.parent]]
                ll_mut = poisson(mut_edges[edge.id],
                    (parent_time - timepoints[: youngest_par_index + 1] + eps) * mut_rate * edge.span)
                result = ratio(ll_mut, np.max(ll_mut))
            else:
                cur_parent_index = maximized_node_times[edge.parent]
                if cur_parent_index < youngest_par_index:
                    youngest_par_index = cur_parent_index
                parent_time = timepoints[maximized_node_times[edge.parent]]
                ll_mut = poisson(mut_edges[edge.id],
                    (parent_time - timepoints[: youngest_par_index + 1] + eps) * mut_rate * edge.span)
                result[: youngest_par_index + 1] = combine(
                    ratio(ll_mut[: youngest_par_index + 1], np.max(ll_mut[: youngest_par_index + 1])),
                    result[: youngest_par_index + 1])
        inside_val = inside[child][: (youngest_par_index + 1)]
        maximized_node_times[child] = np.argmax(combine(result[: youngest_par_index + 1], inside_val))
    posterior_mean = timepoints[maximized_node_times]

In the model the edge likelihood is a *parameter* `lik e k t`
(= `poisson(mut_edges[e], (timepoints[k] - timepoints[t] + eps) * mut_rate * span_e)`: the
likelihood of edge `e` when its parent sits at grid index `k` and its child at index `t ≤ k`), the
inside rows are data, `combine`/`ratio` are parameters, and the groups are the runs of the edge
order handed in.  Numbers only need `<`.
-/
import TsdateVerif.Model.Arr
import TsdateVerif.Model.Order

namespace Tsdate.Maximize
open Tsdate

/-- An edge as seen by the maximization loop. -/
structure MEdge where
  p : Nat
  c : Nat
  id : Nat
deriving DecidableEq, Repr, Inhabited

section Argmax
variable {α : Type} [LT α] [DecidableLT α]

/-- scanning `xs`, whose first element has index `i`; `best` is the index of the first maximum
`bv` seen so far -/
def argmaxAux (best : Nat) (bv : α) (i : Nat) : List α → Nat
  | [] => best
  | x :: xs => if bv < x then argmaxAux i x (i + 1) xs else argmaxAux best bv (i + 1) xs

/-- `np.argmax`: index of the first maximum (0 on the empty list). -/
def argmax : List α → Nat
  | [] => 0
  | x :: xs => argmaxAux 0 x 1 xs

/-- `np.max` of a non-empty list (`d` on the empty list). -/
def listMax (d : α) : List α → α
  | [] => d
  | x :: xs => xs.foldl (fun a b => if a < b then b else a) x

end Argmax

/-- `combine` and `ratio` of the probability space. -/
structure Ops (α : Type) where
  comb : α → α → α
  ratio : α → α → α

/-- linear probability space: `combine = *`, `ratio = /` -/
def linOps {α : Type} [Mul α] [Div α] : Ops α := ⟨(· * ·), (· / ·)⟩

/-- logarithmic probability space: `combine = +`, `ratio = -` -/
def logOps {α : Type} [Add α] [Sub α] : Ops α := ⟨(· + ·), (· - ·)⟩

/-- Everything `outside_maximization` reads. -/
structure Inp (α : Type) where
  /-- number of nodes -/
  n : Nat
  /-- `u in fixednodes` -/
  fixed : Nat → Bool
  /-- `inside[u]` (a row of the grid, for non-fixed `u`) -/
  inside : Nat → List α
  /-- `lik e k t`: likelihood of edge `e` with parent at grid index `k`, child at index `t` -/
  lik : MEdge → Nat → Nat → α

section Model
variable {α : Type} [Inhabited α] [LT α] [DecidableLT α]

/-- `ll_mut`: likelihoods of edge `e`, parent at index `k`, for child indices `0..y`. -/
def llMut (inp : Inp α) (e : MEdge) (k y : Nat) : List α :=
  (List.range (y + 1)).map (inp.lik e k)

/-- the standardising constant `np.max(ll_mut[: y + 1])` -/
def stdConst (inp : Inp α) (e : MEdge) (k y : Nat) : α :=
  listMax default (llMut inp e k y)

/-- state after the first edge of a group: `(youngest_par_index, result)` -/
def firstEdge (ops : Ops α) (inp : Inp α) (idx : Nat → Nat) (e : MEdge) : Nat × List α :=
  let k := idx e.p
  let m := stdConst inp e k k
  (k, (llMut inp e k k).map (fun x => ops.ratio x m))

/-- a later edge of the group -/
def nextEdge (ops : Ops α) (inp : Inp α) (idx : Nat → Nat) (st : Nat × List α) (e : MEdge) :
    Nat × List α :=
  let k := idx e.p
  let y := if k < st.1 then k else st.1
  let m := stdConst inp e k y
  (y, List.zipWith (fun l r => ops.comb (ops.ratio l m) r) (llMut inp e k y) (st.2.take (y + 1))
        ++ st.2.drop (y + 1))

/-- the grid index chosen for the child of group `e0 :: rest` -/
def groupChoice (ops : Ops α) (inp : Inp α) (idx : Nat → Nat) (e0 : MEdge) (rest : List MEdge) :
    Nat :=
  let st := rest.foldl (nextEdge ops inp idx) (firstEdge ops inp idx e0)
  argmax (List.zipWith ops.comb (st.2.take (st.1 + 1)) ((inp.inside e0.c).take (st.1 + 1)))

/-- one group of the main loop -/
def processGroup (ops : Ops α) (inp : Inp α) (a : Array Nat) (g : List MEdge) : Array Nat :=
  match g with
  | [] => a
  | e0 :: rest => if inp.fixed e0.c then a else aset a e0.c (groupChoice ops inp (aget a) e0 rest)

/-- `i` is the child of some edge -/
def isChild (gs : List (List MEdge)) (i : Nat) : Bool := gs.any (fun g => g.any (fun e => e.c == i))

/-- the loop over `mrcas` -/
def initRoots (inp : Inp α) (gs : List (List MEdge)) : Array Nat :=
  (List.range inp.n).foldl
    (fun a i => if isChild gs i || inp.fixed i then a else aset a i (argmax (inp.inside i)))
    (Array.replicate inp.n 0)

/-- `outside_maximization` on the groups `gs`: the array `maximized_node_times`. -/
def maximizeGroups (ops : Ops α) (inp : Inp α) (gs : List (List MEdge)) : Array Nat :=
  gs.foldl (processGroup ops inp) (initRoots inp gs)

/-- `outside_maximization` along the edge order `es` (grouped by `itertools.groupby` on child). -/
def maximize (ops : Ops α) (inp : Inp α) (es : List MEdge) : Array Nat :=
  maximizeGroups ops inp (Order.runsBy (·.c) es)

end Model

/-! ### the documented rule, as an executable specification -/

section Spec
variable {α : Type} [Inhabited α] [LT α] [DecidableLT α]

/-- the running minimum of the parents' grid indices (`youngest_par_index`) -/
def minParent (idx : Nat → Nat) (e0 : MEdge) (rest : List MEdge) : Nat :=
  rest.foldl (fun y e => min y (idx e.p)) (idx e0.p)

/-- the combined likelihood of all edges of the group when the child sits at grid index `t`
(each edge evaluated at its parent's assigned index) -/
def prodLik (ops : Ops α) (inp : Inp α) (idx : Nat → Nat) (e0 : MEdge) (rest : List MEdge)
    (t : Nat) : α :=
  rest.foldl (fun acc e => ops.comb (inp.lik e (idx e.p) t) acc) (inp.lik e0 (idx e0.p) t)

/-- the score the documented rule maximises: for `t = 0 .. min parent index`,
`combine (Π_edges lik_e(parent index, t)) inside[child][t]` -/
def specScores (ops : Ops α) (inp : Inp α) (idx : Nat → Nat) (e0 : MEdge) (rest : List MEdge) :
    List α :=
  List.zipWith ops.comb
    ((List.range (minParent idx e0 rest + 1)).map (prodLik ops inp idx e0 rest))
    ((inp.inside e0.c).take (minParent idx e0 rest + 1))

/-- the standardising constants the loop divides by: each edge paired with the running minimum
at the time it is processed -/
def runConsts (inp : Inp α) (idx : Nat → Nat) (y : Nat) : List MEdge → List α
  | [] => []
  | e :: es =>
    let y' := if idx e.p < y then idx e.p else y
    stdConst inp e (idx e.p) y' :: runConsts inp idx y' es

/-- all standardising constants of a group -/
def groupConsts (inp : Inp α) (idx : Nat → Nat) (e0 : MEdge) (rest : List MEdge) : List α :=
  stdConst inp e0 (idx e0.p) (idx e0.p) :: runConsts inp idx (idx e0.p) rest

end Spec

/-! ### decidable hypotheses on the edge order (evaluated by the driver on every real input) -/

/-- the child a group is about (`itertools.groupby` key) -/
def gchild : List MEdge → Nat
  | [] => 0
  | e :: _ => e.c

/-- `r x y` for every `x` before `y` -/
def pairwiseB {ε : Type} (r : ε → ε → Bool) : List ε → Bool
  | [] => true
  | x :: xs => xs.all (r x) && pairwiseB r xs

/-- the edges of one child are adjacent, and no edge's child is the parent of that edge or of an
earlier one -/
def validOrderB (es : List MEdge) : Bool :=
  pairwiseB (fun a b => a != b) ((Order.runsBy (·.c) es).map gchild) &&
  pairwiseB (fun e e' => e'.c != e.p) es && es.all (fun e => e.c != e.p)

end Tsdate.Maximize
