/-
Array wrappers used by every executable model (core Lean only, no Mathlib).

numba/numpy code mutates arrays in place; the models thread an `Array α` through
folds instead.  `aget`/`aset` are total (out-of-range reads give `default`, writes are
dropped); every theorem that uses them carries the explicit in-range hypothesis that
the real code gets from tskit's table invariants, so totalisation never makes a
statement true for the wrong reason.
-/

namespace Tsdate

@[inline] def aget {α : Type} [Inhabited α] (a : Array α) (i : Nat) : α := (a[i]?).getD default
@[inline] def aset {α : Type} (a : Array α) (i : Nat) (v : α) : Array α := a.setIfInBounds i v

@[simp] theorem size_aset {α : Type} (a : Array α) (i : Nat) (v : α) :
    (aset a i v).size = a.size := by simp [aset]

theorem aget_aset_same {α : Type} [Inhabited α] (a : Array α) (i : Nat) (v : α)
    (h : i < a.size) : aget (aset a i v) i = v := by
  simp [aget, aset, h]

theorem aget_aset_other {α : Type} [Inhabited α] (a : Array α) (i j : Nat) (v : α)
    (h : j ≠ i) : aget (aset a i v) j = aget a j := by
  simp [aget, aset, Ne.symm h]

theorem aget_aset {α : Type} [Inhabited α] (a : Array α) (i j : Nat) (v : α)
    (h : i < a.size) : aget (aset a i v) j = if j = i then v else aget a j := by
  by_cases hj : j = i
  · subst hj; simp [aget_aset_same _ _ _ h]
  · simp [hj, aget_aset_other _ _ _ _ hj]

end Tsdate
