/-
Executable models of the pieces of the tsdate pipeline through which the *unit of time* (C06) and
the *unit of genome length* (C07) enter the result.  Namespace `Tsdate.Scale`; core Lean only; generic
in the number type so that the same definitions run at `Float` (driver, stage B), at `Rat`, and are
proved scale-equivariant over any linear ordered field (`Proofs/Scale.lean`, `Props/C06.lean`,
`Props/C07.lean`).

Totalisation: list reads are `getD · 0` (`nth`), division is the carrier's.  Equivariance lemmas hold
for the totalised functions on all inputs; the driver answers `bad-op` where the real code would
raise (index out of range, zero division), so the correspondence never compares totalised junk.

Python sources modelled (abbreviated; see each section):
  tsdate/discrete.py   Likelihoods.__init__ (timediff, timediff_lower_tri), Likelihoods._lik argument,
                       BeliefPropagation.outside_maximization Poisson argument, span fractions
  tsdate/demography.py PopulationSizeHistory._change_time_measure / __init__ / to_*_timescale
  tsdate/prior.py      fill_priors (one row), mixture_expect_and_var
  tsdate/core.py       DiscreteTimeMethod.mean_var (one node)
  tsdate/rescaling.py  mutational_area, _fixed_changepoints, mutational_timescale,
                       piecewise_scale_point_estimate, the rescale loop of variational.rescale
  tsdate/variational.py _damp, _rescale, one edge update of propagate_likelihood (three live cases),
                       a pass over an edge order, propagate_prior, node_moments
-/
import TsdateVerif.Model.Arr

namespace Tsdate.Scale

/-! ## 0. list utilities -/

section Util
variable {α : Type} [Add α] [Sub α] [Mul α] [Div α] [OfNat α 0] [OfNat α 1]

/-- total read with default `0` (the driver refuses out-of-range reads) -/
def nth (xs : List α) (i : Nat) : α := xs.getD i 0

/-- sequential sum `((0 + x0) + x1) + …` -/
def sumL (xs : List α) : α := xs.foldl (· + ·) 0

/-- `np.cumsum` (sequential), accumulator made explicit -/
def cumsumFrom (acc : α) : List α → List α
  | [] => []
  | x :: xs => (acc + x) :: cumsumFrom (acc + x) xs

def cumsum (xs : List α) : List α := cumsumFrom 0 xs

/-- `np.diff` -/
def diff : List α → List α
  | a :: b :: rest => (b - a) :: diff (b :: rest)
  | _ => []

/-- `np.sum(x[i:j])` -/
def sumRange (xs : List α) (i j : Nat) : α := sumL ((xs.drop i).take (j - i))

variable [LE α] [DecidableLE α]

/-- `np.searchsorted(xs, x, side="right")` for nondecreasing `xs`: the number of entries `≤ x`. -/
def searchRight (xs : List α) (x : α) : Nat := xs.countP (fun b => decide (b ≤ x))

variable [LT α] [DecidableLT α]

/-- `np.max` of a non-empty list (`0` for the empty list; the driver refuses it) -/
def maxL : List α → α
  | [] => 0
  | x :: xs => xs.foldl (fun m y => if m < y then y else m) x

/-- `np.argmax`: first index of the maximum -/
def argmaxGo : List α → Nat → α → Nat → Nat
  | [], _, _, best => best
  | y :: ys, i, m, best => if m < y then argmaxGo ys (i + 1) y i else argmaxGo ys (i + 1) m best

def argmax : List α → Nat
  | [] => 0
  | x :: xs => argmaxGo xs 1 x 0

end Util

/-! ## 1. discrete-time methods -/

section Discrete
variable {α : Type} [Add α] [Sub α] [Mul α] [Div α] [OfNat α 0] [OfNat α 1]

/-- `Likelihoods.timediff = timepoints - timepoints[0] + eps` -/
def timediff (tp : List α) (eps : α) : List α :=
  match tp with
  | [] => []
  | t0 :: _ => tp.map (fun t => t - t0 + eps)

/-- rows `i = |pre|, |pre|+1, …` of `timediff_lower_tri`; `pre` holds the earlier timepoints -/
def lowerTriFrom (eps : α) : List α → List α → List α
  | _, [] => []
  | pre, t :: rest =>
    ((pre ++ [t]).map (fun s => t - s + eps)) ++ lowerTriFrom eps (pre ++ [t]) rest

/-- `Likelihoods.timediff_lower_tri = concatenate([tp[i] - tp[0:i+1] + eps for i in range(len(tp))])` -/
def timediffLowerTri (tp : List α) (eps : α) : List α := lowerTriFrom eps [] tp

/-- The Poisson parameter `dt * mutation_rate * span` of `Likelihoods._lik`, for each `dt`. -/
def likArgs (dts : List α) (mu span : α) : List α := dts.map (fun dt => dt * mu * span)

/-- `_lik` with the pmf as a parameter (`scipy.stats.poisson.pmf/logpmf`) -/
def likTable {β : Type} (pmf : Nat → α → β) (muts : Nat) (dts : List α) (mu span : α) : List β :=
  (likArgs dts mu span).map (pmf muts)

/-- Poisson parameters of `outside_maximization`:
`(parent_time - timepoints[: youngest+1] + eps) * mut_rate * edge.span`. -/
def maxDts (tp : List α) (parentIdx youngest : Nat) (eps : α) : List α :=
  (tp.take (youngest + 1)).map (fun s => nth tp parentIdx - s + eps)

def maxArgs (tp : List α) (parentIdx youngest : Nat) (eps mu span : α) : List α :=
  likArgs (maxDts tp parentIdx youngest eps) mu span

/-- `edge.span / self.spans[edge.child]` -/
def spanFrac (span total : α) : α := span / total

variable [LE α] [DecidableLE α]

/-- `PopulationSizeHistory._change_time_measure(time_ago, breakpoints, time_measure)`:

    index = np.searchsorted(breakpoints, time_ago, side="right") - 1
    step = concatenate([[0.0], cumsum(breakpoints[1:] * (1.0/time_measure[:-1] - 1.0/time_measure[1:]))])
    new_time_ago = time_ago * 1.0 / time_measure[index] + step[index]
    new_breakpoints = breakpoints * 1.0 / time_measure + step
    new_time_measure = 1.0 / time_measure
-/
def ctmStep (breaks tm : List α) : List α :=
  let inv := tm.map (fun m => 1 / m)
  0 :: cumsum (List.zipWith (· * ·) breaks.tail (List.zipWith (· - ·) inv inv.tail))

def ctmTimes (times breaks tm : List α) : List α :=
  let step := ctmStep breaks tm
  times.map (fun t => let i := searchRight breaks t - 1; t * 1 / nth tm i + nth step i)

def ctmBreaks (breaks tm : List α) : List α :=
  List.zipWith (· + ·) (List.zipWith (fun b m => b * 1 / m) breaks tm) (ctmStep breaks tm)

def ctmMeasure (tm : List α) : List α := tm.map (fun m => 1 / m)

/-- State of a `PopulationSizeHistory(population_size, time_breaks)`:
`time_breaks` (with the leading 0), `population_size` (already doubled), `coalescent_breaks`,
`coalescent_rate`. -/
structure PopHist (α : Type) where
  timeBreaks : List α
  popSize2 : List α
  coalBreaks : List α
  coalRate : List α

/-- `PopulationSizeHistory.__init__` (`two` is the literal 2) -/
def mkPopHist (two : α) (popSize timeBreaks : List α) : PopHist α :=
  let tb := 0 :: timeBreaks
  let ps := popSize.map (fun n => two * n)
  { timeBreaks := tb, popSize2 := ps, coalBreaks := ctmBreaks tb ps, coalRate := ctmMeasure ps }

/-- `to_coalescent_timescale` -/
def toCoalescent (h : PopHist α) (times : List α) : List α := ctmTimes times h.timeBreaks h.popSize2

/-- `to_natural_timescale` -/
def toNatural (h : PopHist α) (times : List α) : List α := ctmTimes times h.coalBreaks h.coalRate

variable [LT α] [DecidableLT α]

/-- One row of `fill_priors`: `p = cdf(timepoints); p /= max(p); [0] ++ diff(p)`; the cdf (lognormal or
gamma with the node's parameters) is a parameter. -/
def priorRow (cdf : α → α) (coalTimepoints : List α) : List α :=
  let v := coalTimepoints.map cdf
  let m := maxL v
  0 :: diff (v.map (fun x => x / m))

/-- `DiscreteTimeMethod.mean_var` for one node:
`mn = sum(probs*times)/sum(probs)`, `va = sum((mn - times)**2 * (probs/sum(probs)))`. -/
def meanVar (probs times : List α) : α × α :=
  let sp := sumL probs
  let mn := sumL (List.zipWith (· * ·) probs times) / sp
  let va := sumL (List.zipWith (fun p t => (mn - t) * (mn - t) * (p / sp)) probs times)
  (mn, va)

/-- `ConditionalCoalescentTimes.mixture_expect_and_var` for one total-tip class (weights = spans):
`mean = Σ m·w / Σ w`, `var = (Σ v·w + Σ m²·w)/Σ w − mean²`. -/
def mixtureMeanVar (means vars weights : List α) : α × α :=
  let ws := sumL weights
  let e := sumL (List.zipWith (· * ·) means weights)
  let f := sumL (List.zipWith (· * ·) vars weights)
  let s := sumL (List.zipWith (fun m w => m * m * w) means weights)
  let mean := e / ws
  (mean, (f + s) / ws - mean * mean)

/-- `BeliefPropagation.spans[u]`: `bincount(edges_child, weights=span)[u]` plus the spans of the
single-root trees whose root is `u` (`roots` lists `(tree.root, tree.span)` per such tree). -/
def nodeSpan (edges : List (Nat × Nat × α)) (roots : List (Nat × α)) (u : Nat) : α :=
  sumL ((edges.filter (fun e => e.2.1 == u)).map (fun e => e.2.2))
    + sumL ((roots.filter (fun r => r.1 == u)).map (fun r => r.2))

/-- total span of the trees in which `u` is the single root (`root_spans[u]`) -/
def rootSpan (roots : List (Nat × α)) (u : Nat) : α :=
  sumL ((roots.filter (fun r => r.1 == u)).map (fun r => r.2))

/-- Inputs of a discrete-time run that carry a unit (of time or of genome length).
`userTimepoints = none` is the default grid, built by `create_timepoints` on the coalescent scale from
quantiles that do not depend on any unit-carrying input (`coalGrid`). -/
structure DiscreteIn (α : Type) where
  popSize : List α
  timeBreaks : List α
  userTimepoints : Option (List α)
  coalGrid : List α
  eps : α
  mu : α
  edges : List (Nat × Nat × α)      -- (mutation count, child, span) per edge
  roots : List (Nat × α)            -- (root, span) per single-root tree

/-- Everything the inside/outside/maximization code receives that was computed from unit-carrying
inputs: the time grid, the prior rows, per edge the two likelihood vectors (lower-triangular and
fixed-child), the span fractions of edges and roots, and the Poisson values of the maximization step
as a function of `(edge, parent index, youngest index)`. -/
structure DiscreteView (α β : Type) where
  grid : List α
  priors : List (List α)
  likTri : List (List β)
  likFix : List (List β)
  spanFracs : List α
  rootFracs : List α
  likMax : Nat → Nat → Nat → List β

/-- timepoints on the coalescent scale: user timepoints converted, or the default quantile grid -/
def coalTimepoints (two : α) (inp : DiscreteIn α) : List α :=
  match inp.userTimepoints with
  | some tp => toCoalescent (mkPopHist two inp.popSize inp.timeBreaks) tp
  | none => inp.coalGrid

/-- the time grid in generations (`priors.timepoints`) -/
def gridOf (two : α) (inp : DiscreteIn α) : List α :=
  toNatural (mkPopHist two inp.popSize inp.timeBreaks) (coalTimepoints two inp)

def viewOf {β : Type} (pmf : Nat → α → β) (cdfs : List (α → α)) (grid coal : List α) (eps mu : α)
    (edges : List (Nat × Nat × α)) (roots : List (Nat × α)) : DiscreteView α β :=
  { grid := grid
    priors := cdfs.map (fun cdf => priorRow cdf coal)
    likTri := edges.map (fun e => likTable pmf e.1 (timediffLowerTri grid eps) mu e.2.2)
    likFix := edges.map (fun e => likTable pmf e.1 (timediff grid eps) mu e.2.2)
    spanFracs := edges.map (fun e => spanFrac e.2.2 (nodeSpan edges roots e.2.1))
    rootFracs := roots.map (fun r => spanFrac (rootSpan roots r.1) (nodeSpan edges roots r.1))
    likMax := fun ei pi yi =>
      match edges[ei]? with
      | some e => likTable pmf e.1 (maxDts grid pi yi eps) mu e.2.2
      | none => [] }

def discreteView {β : Type} (two : α) (pmf : Nat → α → β) (cdfs : List (α → α)) (inp : DiscreteIn α) :
    DiscreteView α β :=
  viewOf pmf cdfs (gridOf two inp) (coalTimepoints two inp) inp.eps inp.mu inp.edges inp.roots

/-- the unit-free part of a view -/
@[ext] structure DiscreteFree (α β : Type) where
  priors : List (List α)
  likTri : List (List β)
  likFix : List (List β)
  spanFracs : List α
  rootFracs : List α
  likMax : Nat → Nat → Nat → List β

def DiscreteView.free {β : Type} (v : DiscreteView α β) : DiscreteFree α β :=
  { priors := v.priors, likTri := v.likTri, likFix := v.likFix, spanFracs := v.spanFracs,
    rootFracs := v.rootFracs, likMax := v.likMax }

/-- `inside_outside` seen from the unit-carrying inputs: an arbitrary function `core` of the
unit-free part of the view produces the posterior grid (one row of probabilities per non-fixed node);
the outputs are `mean_var` of each row on the time grid. -/
def insideOutsideOut {β : Type} (core : DiscreteFree α β → List (List α)) (v : DiscreteView α β) :
    List (α × α) :=
  (core v.free).map (fun probs => meanVar probs v.grid)

/-- `maximization`: `posterior_mean = timepoints[argmax indices]`. -/
def maximizationOut {β : Type} (core : DiscreteFree α β → List Nat) (v : DiscreteView α β) : List α :=
  (core v.free).map (fun i => nth v.grid i)

end Discrete

/-! ## 2. variational method: mutational target sizes -/

section VLik
variable {α : Type} [Mul α]

/-- `edge_likelihoods[:, 1] *= mutation_rate` after `count_mutations` (rows: mutation count, span) -/
def edgeLikelihoods (stats : List (α × α)) (mu : α) : List (α × α) :=
  stats.map (fun s => (s.1, s.2 * mu))

end VLik

end Tsdate.Scale
