/-
Executable models of the pieces of the tsdate pipeline through which the *unit of time* (C06) and
the *unit of genome length* (C07) enter the result.  Namespace `Tsdate.Scale`; core Lean only; generic
in the number type so that the same definitions run at `Float` (driver, stage B), at `Rat`, and are
proved scale-equivariant over any linear ordered field (`Proofs/Scale.lean`, `Props/C06.lean`,
`Props/C07.lean`).

Totalisation: list reads are `getD · 0` (`nth`), division is the carrier's.  Equivariance lemmas hold
for the totalised functions on all inputs; the driver answers `bad-op` where the real code would
raise (index out of range, zero division), so the correspondence never compares totalised junk.

Python sources modelled (abbreviated; see each section):
  tsdate/discrete.py   Likelihoods.__init__ (timediff, timediff_lower_tri), Likelihoods._lik argument,
                       BeliefPropagation.outside_maximization Poisson argument, span fractions
  tsdate/demography.py PopulationSizeHistory._change_time_measure / __init__ / to_*_timescale
  tsdate/prior.py      fill_priors (one row), mixture_expect_and_var
  tsdate/core.py       DiscreteTimeMethod.mean_var (one node)
  tsdate/rescaling.py  mutational_area, _fixed_changepoints, mutational_timescale,
                       piecewise_scale_point_estimate, the rescale loop of variational.rescale
  tsdate/variational.py _damp, _rescale, one edge update of propagate_likelihood (three live cases),
                       a pass over an edge order, propagate_prior, node_moments
-/
import TsdateVerif.Model.Arr
import TsdateVerif.Model.Constrain

namespace Tsdate.Scale

/-! ## 0. list utilities -/

section Util
variable {α : Type} [Add α] [Sub α] [Mul α] [Div α] [OfNat α 0] [OfNat α 1]

/-- total read with default `0` (the driver refuses out-of-range reads) -/
def nth (xs : List α) (i : Nat) : α := xs.getD i 0

/-- sequential sum `((0 + x0) + x1) + …` -/
def sumL (xs : List α) : α := xs.foldl (· + ·) 0

/-- `np.cumsum` (sequential), accumulator made explicit -/
def cumsumFrom (acc : α) : List α → List α
  | [] => []
  | x :: xs => (acc + x) :: cumsumFrom (acc + x) xs

def cumsum (xs : List α) : List α := cumsumFrom 0 xs

/-- `np.diff` -/
def diff : List α → List α
  | a :: b :: rest => (b - a) :: diff (b :: rest)
  | _ => []

/-- `np.sum(x[i:j])` -/
def sumRange (xs : List α) (i j : Nat) : α := sumL ((xs.drop i).take (j - i))

variable [LE α] [DecidableLE α]

/-- `np.searchsorted(xs, x, side="right")` for nondecreasing `xs`: the number of entries `≤ x`. -/
def searchRight (xs : List α) (x : α) : Nat := xs.countP (fun b => decide (b ≤ x))

variable [LT α] [DecidableLT α]

/-- `np.max` of a non-empty list (`0` for the empty list; the driver refuses it) -/
def maxL : List α → α
  | [] => 0
  | x :: xs => xs.foldl (fun m y => if m < y then y else m) x

/-- `np.argmax`: first index of the maximum -/
def argmaxGo : List α → Nat → α → Nat → Nat
  | [], _, _, best => best
  | y :: ys, i, m, best => if m < y then argmaxGo ys (i + 1) y i else argmaxGo ys (i + 1) m best

def argmax : List α → Nat
  | [] => 0
  | x :: xs => argmaxGo xs 1 x 0

end Util

/-! ## 1. discrete-time methods -/

section Discrete
variable {α : Type} [Add α] [Sub α] [Mul α] [Div α] [OfNat α 0] [OfNat α 1]

/-- `Likelihoods.timediff = timepoints - timepoints[0] + eps` -/
def timediff (tp : List α) (eps : α) : List α :=
  match tp with
  | [] => []
  | t0 :: _ => tp.map (fun t => t - t0 + eps)

/-- rows `i = |pre|, |pre|+1, …` of `timediff_lower_tri`; `pre` holds the earlier timepoints -/
def lowerTriFrom (eps : α) : List α → List α → List α
  | _, [] => []
  | pre, t :: rest =>
    ((pre ++ [t]).map (fun s => t - s + eps)) ++ lowerTriFrom eps (pre ++ [t]) rest

/-- `Likelihoods.timediff_lower_tri = concatenate([tp[i] - tp[0:i+1] + eps for i in range(len(tp))])` -/
def timediffLowerTri (tp : List α) (eps : α) : List α := lowerTriFrom eps [] tp

/-- The Poisson parameter `dt * mutation_rate * span` of `Likelihoods._lik`, for each `dt`. -/
def likArgs (dts : List α) (mu span : α) : List α := dts.map (fun dt => dt * mu * span)

/-- `_lik` with the pmf as a parameter (`scipy.stats.poisson.pmf/logpmf`) -/
def likTable {β : Type} (pmf : Nat → α → β) (muts : Nat) (dts : List α) (mu span : α) : List β :=
  (likArgs dts mu span).map (pmf muts)

/-- Poisson parameters of `outside_maximization`:
`(parent_time - timepoints[: youngest+1] + eps) * mut_rate * edge.span`. -/
def maxDts (tp : List α) (parentIdx youngest : Nat) (eps : α) : List α :=
  (tp.take (youngest + 1)).map (fun s => nth tp parentIdx - s + eps)

def maxArgs (tp : List α) (parentIdx youngest : Nat) (eps mu span : α) : List α :=
  likArgs (maxDts tp parentIdx youngest eps) mu span

/-- `edge.span / self.spans[edge.child]` -/
def spanFrac (span total : α) : α := span / total

variable [LE α] [DecidableLE α]

/-- `PopulationSizeHistory._change_time_measure(time_ago, breakpoints, time_measure)`:

    index = np.searchsorted(breakpoints, time_ago, side="right") - 1
    step = concatenate([[0.0], cumsum(breakpoints[1:] * (1.0/time_measure[:-1] - 1.0/time_measure[1:]))])
    new_time_ago = time_ago * 1.0 / time_measure[index] + step[index]
    new_breakpoints = breakpoints * 1.0 / time_measure + step
    new_time_measure = 1.0 / time_measure
-/
def ctmStep (breaks tm : List α) : List α :=
  let inv := tm.map (fun m => 1 / m)
  0 :: cumsum (List.zipWith (· * ·) breaks.tail (List.zipWith (· - ·) inv inv.tail))

def ctmTimes (times breaks tm : List α) : List α :=
  let step := ctmStep breaks tm
  times.map (fun t => let i := searchRight breaks t - 1; t * 1 / nth tm i + nth step i)

def ctmBreaks (breaks tm : List α) : List α :=
  List.zipWith (· + ·) (List.zipWith (fun b m => b * 1 / m) breaks tm) (ctmStep breaks tm)

def ctmMeasure (tm : List α) : List α := tm.map (fun m => 1 / m)

/-- State of a `PopulationSizeHistory(population_size, time_breaks)`:
`time_breaks` (with the leading 0), `population_size` (already doubled), `coalescent_breaks`,
`coalescent_rate`. -/
structure PopHist (α : Type) where
  timeBreaks : List α
  popSize2 : List α
  coalBreaks : List α
  coalRate : List α

/-- `PopulationSizeHistory.__init__` (`two` is the literal 2) -/
def mkPopHist (two : α) (popSize timeBreaks : List α) : PopHist α :=
  let tb := 0 :: timeBreaks
  let ps := popSize.map (fun n => two * n)
  { timeBreaks := tb, popSize2 := ps, coalBreaks := ctmBreaks tb ps, coalRate := ctmMeasure ps }

/-- `to_coalescent_timescale` -/
def toCoalescent (h : PopHist α) (times : List α) : List α := ctmTimes times h.timeBreaks h.popSize2

/-- `to_natural_timescale` -/
def toNatural (h : PopHist α) (times : List α) : List α := ctmTimes times h.coalBreaks h.coalRate

variable [LT α] [DecidableLT α]

/-- One row of `fill_priors`: `p = cdf(timepoints); p /= max(p); [0] ++ diff(p)`; the cdf (lognormal or
gamma with the node's parameters) is a parameter. -/
def priorRow (cdf : α → α) (coalTimepoints : List α) : List α :=
  let v := coalTimepoints.map cdf
  let m := maxL v
  0 :: diff (v.map (fun x => x / m))

/-- `DiscreteTimeMethod.mean_var` for one node:
`mn = sum(probs*times)/sum(probs)`, `va = sum((mn - times)**2 * (probs/sum(probs)))`. -/
def meanVar (probs times : List α) : α × α :=
  let sp := sumL probs
  let mn := sumL (List.zipWith (· * ·) probs times) / sp
  let va := sumL (List.zipWith (fun p t => (mn - t) * (mn - t) * (p / sp)) probs times)
  (mn, va)

/-- `ConditionalCoalescentTimes.mixture_expect_and_var` for one total-tip class (weights = spans):
`mean = Σ m·w / Σ w`, `var = (Σ v·w + Σ m²·w)/Σ w − mean²`. -/
def mixtureMeanVar (means vars weights : List α) : α × α :=
  let ws := sumL weights
  let e := sumL (List.zipWith (· * ·) means weights)
  let f := sumL (List.zipWith (· * ·) vars weights)
  let s := sumL (List.zipWith (fun m w => m * m * w) means weights)
  let mean := e / ws
  (mean, (f + s) / ws - mean * mean)

/-- `BeliefPropagation.spans[u]`: `bincount(edges_child, weights=span)[u]` plus the spans of the
single-root trees whose root is `u` (`roots` lists `(tree.root, tree.span)` per such tree). -/
def nodeSpan (edges : List (Nat × Nat × α)) (roots : List (Nat × α)) (u : Nat) : α :=
  sumL ((edges.filter (fun e => e.2.1 == u)).map (fun e => e.2.2))
    + sumL ((roots.filter (fun r => r.1 == u)).map (fun r => r.2))

/-- total span of the trees in which `u` is the single root (`root_spans[u]`) -/
def rootSpan (roots : List (Nat × α)) (u : Nat) : α :=
  sumL ((roots.filter (fun r => r.1 == u)).map (fun r => r.2))

/-- Inputs of a discrete-time run that carry a unit (of time or of genome length).
`userTimepoints = none` is the default grid, built by `create_timepoints` on the coalescent scale from
quantiles that do not depend on any unit-carrying input (`coalGrid`). -/
structure DiscreteIn (α : Type) where
  popSize : List α
  timeBreaks : List α
  userTimepoints : Option (List α)
  coalGrid : List α
  eps : α
  mu : α
  edges : List (Nat × Nat × α)      -- (mutation count, child, span) per edge
  roots : List (Nat × α)            -- (root, span) per single-root tree

/-- Everything the inside/outside/maximization code receives that was computed from unit-carrying
inputs: the time grid, the prior rows, per edge the two likelihood vectors (lower-triangular and
fixed-child), the span fractions of edges and roots, and the Poisson values of the maximization step
as a function of `(edge, parent index, youngest index)`. -/
structure DiscreteView (α β : Type) where
  grid : List α
  priors : List (List α)
  likTri : List (List β)
  likFix : List (List β)
  spanFracs : List α
  rootFracs : List α
  likMax : Nat → Nat → Nat → List β

/-- timepoints on the coalescent scale: user timepoints converted, or the default quantile grid -/
def coalTimepoints (two : α) (inp : DiscreteIn α) : List α :=
  match inp.userTimepoints with
  | some tp => toCoalescent (mkPopHist two inp.popSize inp.timeBreaks) tp
  | none => inp.coalGrid

/-- the time grid in generations (`priors.timepoints`) -/
def gridOf (two : α) (inp : DiscreteIn α) : List α :=
  toNatural (mkPopHist two inp.popSize inp.timeBreaks) (coalTimepoints two inp)

def viewOf {β : Type} (pmf : Nat → α → β) (cdfs : List (α → α)) (grid coal : List α) (eps mu : α)
    (edges : List (Nat × Nat × α)) (roots : List (Nat × α)) : DiscreteView α β :=
  { grid := grid
    priors := cdfs.map (fun cdf => priorRow cdf coal)
    likTri := edges.map (fun e => likTable pmf e.1 (timediffLowerTri grid eps) mu e.2.2)
    likFix := edges.map (fun e => likTable pmf e.1 (timediff grid eps) mu e.2.2)
    spanFracs := edges.map (fun e => spanFrac e.2.2 (nodeSpan edges roots e.2.1))
    rootFracs := roots.map (fun r => spanFrac (rootSpan roots r.1) (nodeSpan edges roots r.1))
    likMax := fun ei pi yi =>
      match edges[ei]? with
      | some e => likTable pmf e.1 (maxDts grid pi yi eps) mu e.2.2
      | none => [] }

def discreteView {β : Type} (two : α) (pmf : Nat → α → β) (cdfs : List (α → α)) (inp : DiscreteIn α) :
    DiscreteView α β :=
  viewOf pmf cdfs (gridOf two inp) (coalTimepoints two inp) inp.eps inp.mu inp.edges inp.roots

/-- the unit-free part of a view -/
@[ext] structure DiscreteFree (α β : Type) where
  priors : List (List α)
  likTri : List (List β)
  likFix : List (List β)
  spanFracs : List α
  rootFracs : List α
  likMax : Nat → Nat → Nat → List β

def DiscreteView.free {β : Type} (v : DiscreteView α β) : DiscreteFree α β :=
  { priors := v.priors, likTri := v.likTri, likFix := v.likFix, spanFracs := v.spanFracs,
    rootFracs := v.rootFracs, likMax := v.likMax }

/-- `inside_outside` seen from the unit-carrying inputs: an arbitrary function `core` of the
unit-free part of the view produces the posterior grid (one row of probabilities per non-fixed node);
the outputs are `mean_var` of each row on the time grid. -/
def insideOutsideOut {β : Type} (core : DiscreteFree α β → List (List α)) (v : DiscreteView α β) :
    List (α × α) :=
  (core v.free).map (fun probs => meanVar probs v.grid)

/-- `maximization`: `posterior_mean = timepoints[argmax indices]`. -/
def maximizationOut {β : Type} (core : DiscreteFree α β → List Nat) (v : DiscreteView α β) : List α :=
  (core v.free).map (fun i => nth v.grid i)

end Discrete

/-! ## 1b. `SpansBySamples.second_pass` (tsdate/prior.py): spans a skipped unary node borrows from a dated ancestor

    for tree in trees_with_undated, for node in unassigned_nodes (with a parent in the tree):
        n = first ancestor of node in this tree that already has spans
        for n_tips, spans in self._spans[n].items():
            for k, v in spans.items():
                local_weight = v / self.node_spans[n]
                self._spans[node][n_tips][k] += tree.span * local_weight / 2
        self._spans[node][total_tips][desc_tips] += tree.span / 2

The tree traversal (which ancestor, which tree) reads topology only and is an input of the model (a list of
visits); the model does the arithmetic on the span tables. -/

section SecondPass
variable {α : Type} [Add α] [Mul α] [Div α] [OfNat α 0]

/-- `d[key] += x` on a `defaultdict(float)` kept as an association list in insertion order -/
def addKey (acc : List ((Nat × Nat) × α)) (key : Nat × Nat) (x : α) : List ((Nat × Nat) × α) :=
  match acc with
  | [] => [(key, 0 + x)]
  | (k, v) :: rest => if k = key then (k, v + x) :: rest else (k, v) :: addKey rest key x

/-- the span table `self._spans[u]` flattened to `((total tips, descendant tips), span)` entries -/
def spansOf (st : List (Nat × List ((Nat × Nat) × α))) (u : Nat) : List ((Nat × Nat) × α) :=
  match st with
  | [] => []
  | (v, l) :: rest => if v = u then l else spansOf rest u

def setSpans (st : List (Nat × List ((Nat × Nat) × α))) (u : Nat) (l : List ((Nat × Nat) × α)) :
    List (Nat × List ((Nat × Nat) × α)) :=
  match st with
  | [] => [(u, l)]
  | (v, l0) :: rest => if v = u then (v, l) :: rest else (v, l0) :: setSpans rest u l

/-- one visit of the second pass: `node` borrows from ancestor `anc` in a tree of span `treeSpan` with
`total` sample tips in which `node` has `desc` descendant tips -/
structure Visit (α : Type) where
  node : Nat
  anc : Nat
  treeSpan : α
  total : Nat
  desc : Nat

def secondPassVisit (two : α) (nodeSpans : List α) (st : List (Nat × List ((Nat × Nat) × α))) (v : Visit α) :
    List (Nat × List ((Nat × Nat) × α)) :=
  let borrowed := (spansOf st v.anc).foldl
    (fun acc kv => addKey acc kv.1 (v.treeSpan * (kv.2 / nodeSpans.getD v.anc 0) / two)) (spansOf st v.node)
  setSpans st v.node (addKey borrowed (v.total, v.desc) (v.treeSpan / two))

/-- the whole second pass over the list of visits -/
def secondPass (two : α) (nodeSpans : List α) (st : List (Nat × List ((Nat × Nat) × α))) (visits : List (Visit α)) :
    List (Nat × List ((Nat × Nat) × α)) :=
  visits.foldl (secondPassVisit two nodeSpans) st

end SecondPass

section MixKeyed
variable {α : Type} [Add α] [Sub α] [Mul α] [Div α] [OfNat α 0]

/-- `mixture_expect_and_var` on the entries of a span table: the conditional-coalescent mean and variance of an
entry depend on its key `(total tips, descendant tips)` only, its weight is its span -/
def mixtureKeyed (meanOf varOf : Nat × Nat → α) (entries : List ((Nat × Nat) × α)) : α × α :=
  mixtureMeanVar (entries.map (fun kv => meanOf kv.1)) (entries.map (fun kv => varOf kv.1)) (entries.map (fun kv => kv.2))

end MixKeyed

/-! ## 3. time rescaling of the variational method (tsdate/rescaling.py) -/

section Rescale
variable {α : Type} [Add α] [Sub α] [Mul α] [Div α] [OfNat α 0] [OfNat α 1]
  [LE α] [DecidableLE α] [LT α] [DecidableLT α]

/-- functional update of one list entry (no-op out of range) -/
def modifyAt {β : Type} (f : β → β) : Nat → List β → List β
  | _, [] => []
  | 0, x :: xs => f x :: xs
  | n + 1, x :: xs => x :: modifyAt f n xs

/-- `np.argsort(nodes_time)` as the sorted list of (time, node).  Ties may be ordered differently by
numba's sort; everything computed from it below is tie-independent. -/
def sortByTime (t : List α) : List (α × Nat) :=
  t.zipIdx.mergeSort (fun a b => decide (a.1 ≤ b.1))

/-- the loop `for i, j in zip(nodes_order[1:], nodes_order[:-1])` of `mutational_area`: a new epoch
break at every strict increase of time; returns the appended breaks and the (node, epoch) assignments -/
def epochWalk : α → Nat → List (α × Nat) → List α × List (Nat × Nat)
  | _, _, [] => ([], [])
  | prev, k, (t, i) :: rest =>
    if prev < t then
      let r := epochWalk t (k + 1) rest
      (t :: r.1, (i, k + 1) :: r.2)
    else
      let r := epochWalk t k rest
      (r.1, (i, k) :: r.2)

/-- `epoch_breaks` (starting with the literal 0.0) and `nodes_index` -/
def epochIndex (n : Nat) (srt : List (α × Nat)) : List α × List Nat :=
  match srt with
  | [] => ([0], List.replicate n 0)
  | (t0, _) :: rest =>
    let r := epochWalk t0 0 rest
    (0 :: r.1, r.2.foldl (fun idx a => modifyAt (fun _ => a.2) a.1 idx) (List.replicate n 0))

/-- `row += d`, `row -= d` on a two-column row -/
def padd (d x : α × α) : α × α := (x.1 + d.1, x.2 + d.2)
def psub (d x : α × α) : α × α := (x.1 - d.1, x.2 - d.2)

/-- loop body over one edge `(p, c)` with likelihood row `(y, m)` of `mutational_area` -/
def areaEdge (t : List α) (idx : List Nat) (ne : Nat) (acc : List (α × α)) (e : (Nat × Nat) × (α × α)) :
    List (α × α) :=
  let len := nth t e.1.1 - nth t e.1.2
  if 0 < len then
    let cnt : α × α := (e.2.1 / len, e.2.2)
    let a := idx.getD e.1.2 0
    let b := idx.getD e.1.1 0
    let acc1 := if a < ne then modifyAt (padd cnt) a acc else acc
    if b < ne then modifyAt (psub cnt) b acc1 else acc1
  else acc

/-- `mutational_area(nodes_time, likelihoods, edges_parent, edges_child)`
→ `(counts, offset, duration, nodes_index)`; edges are `(parent, child)`. -/
def mutArea (t : List α) (lik : List (α × α)) (edges : List (Nat × Nat)) :
    List α × List α × List α × List Nat :=
  let bi := epochIndex t.length (sortByTime t)
  let ne := bi.1.length - 1
  let ec := (edges.zip lik).foldl (areaEdge t bi.2 ne) (List.replicate ne (0, 0))
  (cumsum (ec.map (fun x => x.1)), cumsum (ec.map (fun x => x.2)), diff bi.1, bi.2)

/-- `_fixed_changepoints(counts, epochs)`:

    Y = np.append(0.0, np.cumsum(counts))
    e = np.searchsorted(Y * epochs, np.arange(epochs + 1) * Y[-1], "right") - 1
    if e[0] > 0: e[0] = 0
    if e[-1] < counts.size: e[-1] = counts.size
-/
def fixedChangepoints (ofNat : Nat → α) (w : List α) (epochs : Nat) : List Nat :=
  let Y := 0 :: cumsum w
  let last := Y.getLast?.getD 0
  let Ye := Y.map (fun y => y * ofNat epochs)
  let e := (List.range (epochs + 1)).map (fun k => searchRight Ye (ofNat k * last) - 1)
  let e0 := match e with
    | [] => []
    | _ :: r => 0 :: r
  match e0.reverse with
  | [] => []
  | l :: r => (Nat.max l w.length :: r).reverse

/-- `np.unique` on a list of indices -/
def uniqueNat (xs : List Nat) : List Nat := (xs.mergeSort (fun a b => decide (a ≤ b))).eraseDups

/-- one step of the merging loop at the end of `mutational_timescale`; state = (kept indices, newest first;
`last`; `prev`):

    if origin[k] > origin[last] and adjust[k] > adjust[last]: keep[k] = True; prev = last; last = k
-/
def mergeStep (origin adjust : List α) (st : List Nat × Nat × Nat) (k : Nat) : List Nat × Nat × Nat :=
  if nth origin st.2.1 < nth origin k ∧ nth adjust st.2.1 < nth adjust k then (k :: st.1, k, st.2.1) else st

/-- the end of `mutational_timescale`: breakpoints that do not strictly increase both `origin` and `adjust`
are merged into their neighbours; the identity scale `([o_0, o_end], [o_0, o_end])` if nothing is informative:

    keep[0] = True; last = prev = 0
    for k in range(1, origin.size): (mergeStep)
    end = origin.size - 1
    if last == 0: return origin[[0, end]], origin[[0, end]]
    if last != end:
        keep[last] = False; keep[end] = True
        if not (origin[end] > origin[prev] and adjust[end] > adjust[prev]): return origin[[0, end]], origin[[0, end]]
    return origin[keep], adjust[keep]
-/
def mergeBreaks (origin adjust : List α) : List α × List α :=
  let n := origin.length
  let st := (List.range n).tail.foldl (mergeStep origin adjust) ([0], 0, 0)
  let last := st.2.1
  let prev := st.2.2
  let end_ := n - 1
  let ident := ([nth origin 0, nth origin end_], [nth origin 0, nth origin end_])
  if last = 0 then ident
  else if last ≠ end_ then
    if nth origin prev < nth origin end_ ∧ nth adjust prev < nth adjust end_ then
      let kept := (end_ :: st.1.tail).reverse
      (kept.map (nth origin), kept.map (nth adjust))
    else ident
  else
    let kept := st.1.reverse
    (kept.map (nth origin), kept.map (nth adjust))

/-- `mutational_timescale(nodes_time, likelihoods, nodes_fixed, edges_parent, edges_child, max_intervals)`
→ `(origin, adjust)` -/
def mutTimescale (ofNat : Nat → α) (t : List α) (lik : List (α × α)) (edges : List (Nat × Nat))
    (maxIntervals : Nat) : List α × List α :=
  let ar := mutArea t lik edges
  let counts := ar.1
  let offset := ar.2.1
  let duration := ar.2.2.1
  let epochBreaks := 0 :: cumsum duration
  let cp := uniqueNat (fixedChangepoints ofNat (List.zipWith (· * ·) offset duration) maxIntervals)
  let adj := (cp.zip cp.tail).map (fun ij =>
    sumRange duration ij.1 ij.2 * sumRange counts ij.1 ij.2 / sumRange offset ij.1 ij.2)
  mergeBreaks (cp.map (fun i => nth epochBreaks i)) (cumsum (0 :: adj))

/-- `piecewise_scale_point_estimate(point_estimate, point_fixed, original_breaks, rescaled_breaks)` -/
def piecewisePoint (x : List α) (fixed : List Bool) (orig resc : List α) : List α :=
  let scal := List.zipWith (· / ·) (diff resc) (diff orig) ++ [0]
  List.zipWith (fun xi f =>
    if f then xi
    else
      let i := searchRight orig xi - 1
      nth resc i + nth scal i * (xi - nth orig i)) x fixed

/-- the loop of `ExpectationPropagation.rescale`: `rescale_iterations` rounds of
`mutational_timescale` followed by `piecewise_scale_point_estimate` -/
def rescaleLoop (ofNat : Nat → α) (lik : List (α × α)) (edges : List (Nat × Nat)) (fixed : List Bool)
    (maxIntervals : Nat) : Nat → List α → List α
  | 0, t => t
  | n + 1, t =>
    let ob := mutTimescale ofNat t lik edges maxIntervals
    rescaleLoop ofNat lik edges fixed maxIntervals n (piecewisePoint t fixed ob.1 ob.2)

end Rescale

/-! ## 4. expectation propagation skeleton (tsdate/variational.py)

Natural parameters of a gamma are pairs `(shape − 1, rate)`; a likelihood row is `(count, μ·span)`.
The moment-matching projections (approx.py) are *parameters* of the model.  Block (unphased singleton)
factors are not modelled (`singletons_phased=True`, the default, has none). -/

section EP
variable {α : Type} [Add α] [Sub α] [Mul α] [Div α] [OfNat α 0] [OfNat α 1]
  [LE α] [DecidableLE α] [LT α] [DecidableLT α]

/-- `x == 0.0` on numbers (both signed zeros) -/
def isZero (x : α) : Bool := !(decide (x < 0)) && !(decide (0 < x))

/-- Python's `min(a, b)` -/
def pmin (a b : α) : α := if b < a then b else a

def absA (x : α) : α := if x < 0 then 0 - x else x

/-- scalar times a pair, pair minus pair, pair plus pair, pair over scalar -/
def sc2 (d : α) (x : α × α) : α × α := (d * x.1, d * x.2)
def sub2 (x y : α × α) : α × α := (x.1 - y.1, x.2 - y.2)
def add2 (x y : α × α) : α × α := (x.1 + y.1, x.2 + y.2)
def div2 (x : α × α) (d : α) : α × α := (x.1 / d, x.2 / d)

/-- `_damp(x, y, s)`:

    if np.all(y == 0.0) and np.all(x == 0.0): return 1.0
    a = 1.0 if (1 + x[0] - y[0] > (1 + x[0]) * s) else (1 - s) * (1 + x[0]) / y[0]
    b = 1.0 if (x[1] - y[1] > x[1] * s) else (1 - s) * x[1] / y[1]
    d = min(a, b)
-/
def damp (x y : α × α) (s : α) : α :=
  if isZero y.1 && isZero y.2 && isZero x.1 && isZero x.2 then 1
  else
    let a := if (1 + x.1) * s < 1 + x.1 - y.1 then 1 else (1 - s) * (1 + x.1) / y.1
    let b := if x.2 * s < x.2 - y.2 then 1 else (1 - s) * x.2 / y.2
    pmin a b

/-- `_rescale(x, s)`:

    if np.all(x == 0.0): return 1.0
    if 1 + x[0] > s: return (s - 1) / x[0]
    elif 1 + x[0] < 1 / s: return (1 / s - 1) / x[0]
    return 1.0
-/
def rescaleEta (x : α × α) (s : α) : α :=
  if isZero x.1 && isZero x.2 then 1
  else if s < 1 + x.1 then (s - 1) / x.1
  else if 1 + x.1 < 1 / s then (1 / s - 1) / x.1
  else 1

/-- Mutable state of the EP pass: node posteriors, per-edge (rootward, leafward) factors, the
mixture-prior node factors and the per-node scale. -/
structure EPState (α : Type) where
  post : List (α × α)
  edgeFac : List ((α × α) × (α × α))
  nodeFac : List (α × α)
  scale : List α

def getP (xs : List (α × α)) (i : Nat) : α × α := xs.getD i (0, 0)
def getF (xs : List ((α × α) × (α × α))) (i : Nat) : (α × α) × (α × α) := xs.getD i ((0, 0), (0, 0))

/-- `_rescale_factors`: absorb the scale into the factors and reset it to one -/
def rescaleFactors (edges : List (Nat × Nat)) (s : EPState α) : EPState α :=
  { s with
    edgeFac := List.zipWith (fun f e => (sc2 (nth s.scale e.1) f.1, sc2 (nth s.scale e.2) f.2)) s.edgeFac edges
    nodeFac := List.zipWith (fun f sc => sc2 sc f) s.nodeFac s.scale
    scale := s.scale.map (fun _ => 1) }

/-- The projections of approx.py as parameters: `gamma_projection(pars_i, pars_j, pars_ij)`,
`rootward_projection(t_j, pars_i, pars_ij)`, `leafward_projection(t_i, pars_j, pars_ij)`
(normalising constants dropped; on invalid moments the real functions return the cavity unchanged). -/
structure Projections (α : Type) where
  gamma : α × α → α × α → α × α → (α × α) × (α × α)
  rootward : α → α × α → α × α → α × α
  leafward : α → α × α → α × α → α × α

/-- the update of one side of an edge after the projection: factor and posterior/scale damping -/
def absorb (maxShape : α) (s : EPState α) (ei : Nat) (rootSide : Bool) (u : Nat)
    (delta : α) (cavity newPost : α × α) : EPState α :=
  let f := getF s.edgeFac ei
  let old := if rootSide then f.1 else f.2
  let upd := add2 (sc2 (1 - delta) old) (div2 (sub2 newPost cavity) (nth s.scale u))
  let f' := if rootSide then (upd, f.2) else (f.1, upd)
  let eta := rescaleEta newPost maxShape
  { s with
    edgeFac := modifyAt (fun _ => f') ei s.edgeFac
    post := modifyAt (fun _ => sc2 eta newPost) u s.post
    scale := modifyAt (fun x => x * eta) u s.scale }

/-- Loop body of `propagate_likelihood` for edge number `ei = (p, c)` (phased case):
skip if both ends fixed; leafward update if the parent is fixed; rootward update if the child is fixed;
joint `gamma_projection` otherwise.  `fixedAge u = some t` iff `constraints[u,LOWER] == constraints[u,UPPER] = t`. -/
def edgeUpdate (P : Projections α) (edges : List (Nat × Nat)) (lik : List (α × α))
    (fixedAge : List (Option α)) (maxShape minStep tiny : α) (s0 : EPState α) (ei : Nat) : EPState α :=
  let e := edges.getD ei (0, 0)
  let p := e.1
  let c := e.2
  let s := if nth s0.scale p < tiny || nth s0.scale c < tiny then rescaleFactors edges s0 else s0
  let f := getF s.edgeFac ei
  let l := getP lik ei
  match fixedAge.getD p none, fixedAge.getD c none with
  | some _, some _ => s
  | some tp, none =>
    let msg := sc2 (nth s.scale c) f.2
    let delta := damp (getP s.post c) msg minStep
    let cav := sub2 (getP s.post c) (sc2 delta msg)
    let np := P.leafward tp cav (sc2 delta l)
    absorb maxShape s ei false c delta cav np
  | none, some tc =>
    let msg := sc2 (nth s.scale p) f.1
    let delta := damp (getP s.post p) msg minStep
    let cav := sub2 (getP s.post p) (sc2 delta msg)
    let np := P.rootward tc cav (sc2 delta l)
    absorb maxShape s ei true p delta cav np
  | none, none =>
    let pmsg := sc2 (nth s.scale p) f.1
    let cmsg := sc2 (nth s.scale c) f.2
    let delta := pmin (damp (getP s.post p) pmsg minStep) (damp (getP s.post c) cmsg minStep)
    let pcav := sub2 (getP s.post p) (sc2 delta pmsg)
    let ccav := sub2 (getP s.post c) (sc2 delta cmsg)
    let pr := P.gamma pcav ccav (sc2 delta l)
    let s1 := absorb maxShape s ei true p delta pcav pr.1
    absorb maxShape s1 ei false c delta ccav pr.2

/-- What one iteration of the loop of `propagate_likelihood` hands to a projection kernel. -/
inductive EdgeCase (α : Type) where
  | skip
  | leaf (tp : α) (c : Nat) (delta : α) (cav lik : α × α)
  | root (tc : α) (p : Nat) (delta : α) (cav lik : α × α)
  | joint (p c : Nat) (delta : α) (pcav ccav lik : α × α)

/-- first half of `edgeUpdate`: the optional `_rescale_factors`, the damping factors and the cavities -/
def edgePre (edges : List (Nat × Nat)) (lik : List (α × α)) (fixedAge : List (Option α))
    (minStep tiny : α) (s0 : EPState α) (ei : Nat) : EPState α × EdgeCase α :=
  let e := edges.getD ei (0, 0)
  let p := e.1
  let c := e.2
  let s := if nth s0.scale p < tiny || nth s0.scale c < tiny then rescaleFactors edges s0 else s0
  let f := getF s.edgeFac ei
  let l := getP lik ei
  match fixedAge.getD p none, fixedAge.getD c none with
  | some _, some _ => (s, .skip)
  | some tp, none =>
    let msg := sc2 (nth s.scale c) f.2
    let delta := damp (getP s.post c) msg minStep
    (s, .leaf tp c delta (sub2 (getP s.post c) (sc2 delta msg)) (sc2 delta l))
  | none, some tc =>
    let msg := sc2 (nth s.scale p) f.1
    let delta := damp (getP s.post p) msg minStep
    (s, .root tc p delta (sub2 (getP s.post p) (sc2 delta msg)) (sc2 delta l))
  | none, none =>
    let pmsg := sc2 (nth s.scale p) f.1
    let cmsg := sc2 (nth s.scale c) f.2
    let delta := pmin (damp (getP s.post p) pmsg minStep) (damp (getP s.post c) cmsg minStep)
    (s, .joint p c delta (sub2 (getP s.post p) (sc2 delta pmsg)) (sub2 (getP s.post c) (sc2 delta cmsg)) (sc2 delta l))

/-- second half of `edgeUpdate`: the projection and the factor / posterior / scale updates -/
def edgePost (P : Projections α) (maxShape : α) (ei : Nat) (sc : EPState α × EdgeCase α) : EPState α :=
  match sc.2 with
  | .skip => sc.1
  | .leaf tp c delta cav lik => absorb maxShape sc.1 ei false c delta cav (P.leafward tp cav lik)
  | .root tc p delta cav lik => absorb maxShape sc.1 ei true p delta cav (P.rootward tc cav lik)
  | .joint p c delta pcav ccav lik =>
    let pr := P.gamma pcav ccav lik
    absorb maxShape (absorb maxShape sc.1 ei true p delta pcav pr.1) ei false c delta ccav pr.2

/-- `propagate_likelihood` over an edge order -/
def likelihoodPass (P : Projections α) (edges : List (Nat × Nat)) (lik : List (α × α))
    (fixedAge : List (Option α)) (maxShape minStep tiny : α) (order : List Nat) (s : EPState α) : EPState α :=
  order.foldl (edgeUpdate P edges lik fixedAge maxShape minStep tiny) s

/-- `np.mean` (numba: sequential sum over size) -/
def meanL (ofNat : Nat → α) (xs : List α) : α := sumL xs / ofNat xs.length

/-- the EM loop of `propagate_prior` (`delta = none` is the initial `inf`):

    while abs(delta) > abs(penalty) * em_reltol:
        if itt > em_maxitt: break
        delta = 1 / np.mean(shape / (rate + penalty)) - penalty
        penalty += delta; itt += 1
-/
def emCont (pen reltol : α) : Option α → Bool
  | none => true
  | some d => decide (absA pen * reltol < absA d)

def emGo (ofNat : Nat → α) (shape rate : List α) (reltol : α) (maxitt : Nat) :
    Nat → Nat → α → Option α → α
  | 0, _, pen, _ => pen
  | fuel + 1, itt, pen, delta =>
    if emCont pen reltol delta then
      if maxitt < itt then pen
      else
        let d := 1 / meanL ofNat (List.zipWith (fun sh r => sh / (r + pen)) shape rate) - pen
        emGo ofNat shape rate reltol maxitt fuel (itt + 1) (pen + d) (some d)
    else pen

/-- the regularisation penalty fitted by `propagate_prior` to the cavities of the free nodes -/
def priorPenalty (ofNat : Nat → α) (cavs : List (α × α)) (reltol : α) (maxitt : Nat) : α :=
  let shape := cavs.map (fun x => x.1 + 1)
  let rate := cavs.map (fun x => x.2)
  let pen0 := 1 / meanL ofNat (List.zipWith (· / ·) shape rate)
  emGo ofNat shape rate reltol maxitt (maxitt + 2) 0 pen0 none

/-- the update of one node in `propagate_prior`; `x = ((posterior, node factor), (cavity, scale))` -/
def priorNodeUpd (maxShape pen : α) (x : ((α × α) × (α × α)) × ((α × α) × α)) (fr : Bool) :
    (α × α) × (α × α) × α :=
  if fr then
    let np : α × α := (x.1.1.1, x.2.1.2 + pen)
    let fac := div2 (sub2 np x.2.1) x.2.2
    let eta := rescaleEta np maxShape
    (sc2 eta np, fac, x.2.2 * eta)
  else (x.1.1, x.1.2, x.2.2)

/-- cavities `posterior - factor[:, MIXPRIOR] * scale[:, newaxis]` -/
def priorCavities (s : EPState α) : List (α × α) :=
  List.zipWith (fun pf sc => sub2 pf.1 (sc2 sc pf.2)) (s.post.zip s.nodeFac) s.scale

/-- `propagate_prior(free, posterior, factors, max_shape, em_maxitt, em_reltol)` -/
def propagatePrior (ofNat : Nat → α) (free : List Bool) (maxShape reltol : α) (maxitt : Nat)
    (s : EPState α) : EPState α :=
  if !(free.any id) then s
  else
    let cav := priorCavities s
    let freeCav := ((cav.zip free).filter (fun x => x.2)).map (fun x => x.1)
    let pen := priorPenalty ofNat freeCav reltol maxitt
    let rows := List.zipWith (priorNodeUpd maxShape pen) ((s.post.zip s.nodeFac).zip (cav.zip s.scale)) free
    { s with
      post := rows.map (fun r => r.1)
      nodeFac := rows.map (fun r => r.2.1)
      scale := rows.map (fun r => r.2.2) }

/-- `ExpectationPropagation.iterate` (phased singletons): likelihood pass over `edge_order`, optional
`propagate_prior` on the unconstrained roots, `_rescale_factors`. -/
def epIterate (P : Projections α) (ofNat : Nat → α) (edges : List (Nat × Nat)) (lik : List (α × α))
    (fixedAge : List (Option α)) (roots : List Bool) (regularise : Bool)
    (maxShape minStep tiny reltol : α) (maxitt : Nat) (order : List Nat) (s : EPState α) : EPState α :=
  let s1 := likelihoodPass P edges lik fixedAge maxShape minStep tiny order s
  let s2 := if regularise then propagatePrior ofNat roots maxShape reltol maxitt s1 else s1
  rescaleFactors edges s2

/-- `ep_iterations` rounds -/
def epRun (P : Projections α) (ofNat : Nat → α) (edges : List (Nat × Nat)) (lik : List (α × α))
    (fixedAge : List (Option α)) (roots : List Bool) (regularise : Bool)
    (maxShape minStep tiny reltol : α) (maxitt : Nat) (order : List Nat) : Nat → EPState α → EPState α
  | 0, s => s
  | n + 1, s =>
    epRun P ofNat edges lik fixedAge roots regularise maxShape minStep tiny reltol maxitt order n
      (epIterate P ofNat edges lik fixedAge roots regularise maxShape minStep tiny reltol maxitt order s)

/-- `node_moments`: fixed nodes keep their age with zero variance; free nodes get
`mn = (alpha + 1)/beta`, `va = mn/beta`. -/
def nodeMoments (fixedAge : List (Option α)) (post : List (α × α)) : List (α × α) :=
  List.zipWith (fun fa p =>
    match fa with
    | some t => (t, 0)
    | none => let mn := (p.1 + 1) / p.2; (mn, mn / p.2)) fixedAge post

end EP

/-! ## 2. variational method: mutational target sizes -/

section VLik
variable {α : Type} [Mul α]

/-- `edge_likelihoods[:, 1] *= mutation_rate` after `count_mutations` (rows: mutation count, span) -/
def edgeLikelihoods (stats : List (α × α)) (mu : α) : List (α × α) :=
  stats.map (fun s => (s.1, s.2 * mu))

end VLik

/-! ## 5. a whole `inside_outside` run, as far as units are concerned -/

section WholeRun
variable {α : Type} [Inhabited α] [Add α] [Sub α] [Mul α] [Div α] [Neg α] [OfNat α 0] [OfNat α 1] [OfNat α 2]
  [LE α] [DecidableLE α] [LT α] [DecidableLT α]

/-- `mn_post[nonfixed[k]] = mean_k` on top of the fixed nodes' times -/
def scatter (base : Array α) (idx : List Nat) (vals : List α) : Array α :=
  (idx.zip vals).foldl (fun a iv => aset a iv.1 iv.2) base

/-- the observable outputs of a run -/
structure RunOut (α : Type) where
  nodesTime : List α
  mean : List α
  var : List α

/-- unit-carrying inputs of `tsdate.inside_outside`: those of the prior/likelihood construction and
`min_branch_length` -/
structure RunIn (α : Type) where
  disc : DiscreteIn α
  minBranch : α

/-- `inside_outside` end to end: prior grid and likelihood tables → (arbitrary) inside/outside recursion
→ `mean_var` on the grid → posterior means written over zeros (all samples are at time 0) →
`_constrain_ages` (exact addition in the forced pass) → node times. -/
def insideOutsideRun {β : Type} (two : α) (pmf : Nat → α → β) (cdfs : List (α → α))
    (core : DiscreteFree α β → List (List α)) (nNodes : Nat) (nonfixed : List Nat)
    (fixed : Array Bool) (es : List Edge) (iters : Nat) (inp : RunIn α) : RunOut α :=
  let mv := insideOutsideOut core (discreteView two pmf cdfs inp.disc)
  let means := scatter (Array.replicate nNodes 0) nonfixed (mv.map (fun x => x.1))
  let t := constrainAges (fun x => x + inp.minBranch) (fun x => x + inp.minBranch) fixed inp.minBranch es means iters
  { nodesTime := t.toList, mean := mv.map (fun x => x.1), var := mv.map (fun x => x.2) }

end WholeRun

end Tsdate.Scale
