/-
Model of the expectation-propagation bookkeeping of `tsdate/variational.py`
(`EPFactors`, `_rescale_factors`, `_assemble_factors`, `_damp`, `_rescale`,
`ExpectationPropagation.propagate_likelihood / propagate_prior / iterate`).

Python (numba) source, abbreviated (ROOTWARD = 0, LEAFWARD = 1, MIXPRIOR = 0, CONSTRNT = 1):

    class EPFactors:  node = zeros((N,2,2)); edge = zeros((E,2,2)); block = zeros((B,2,2)); scale = ones(N)
                      _p, _c = edge_parents, edge_children; _j, _k = block_left, block_right

    def _rescale_factors(factors):
        factors.edge[:, ROOTWARD] *= factors.scale[factors._p, newaxis]
        factors.edge[:, LEAFWARD] *= factors.scale[factors._c, newaxis]
        factors.block[:, ROOTWARD] *= factors.scale[factors._j, newaxis]
        factors.block[:, LEAFWARD] *= factors.scale[factors._k, newaxis]
        factors.node[:, MIXPRIOR] *= factors.scale[:, newaxis]
        factors.node[:, CONSTRNT] *= factors.scale[:, newaxis]
        factors.scale[:] = 1.0

    def _assemble_factors(factors):
        posterior = zeros((N, 2))
        for i, (p, c) in enumerate(zip(_p, _c)): posterior[p] += edge[i, ROOTWARD]; posterior[c] += edge[i, LEAFWARD]
        for i, (j, k) in enumerate(zip(_j, _k)): posterior[j] += block[i, ROOTWARD]; posterior[k] += block[i, LEAFWARD]
        posterior += node[:, MIXPRIOR]; posterior += node[:, CONSTRNT]

    def _damp(x, y, s):
        if all(y == 0.0) and all(x == 0.0): return 1.0
        assert 0 < s < 1; assert 0.0 < x[0] + 1; assert 0.0 < x[1]
        a = 1.0 if (1 + x[0] - y[0] > (1 + x[0]) * s) else (1 - s) * (1 + x[0]) / y[0]
        b = 1.0 if (x[1] - y[1] > x[1] * s) else (1 - s) * x[1] / y[1]
        d = min(a, b); assert 0.0 < d <= 1.0; return d

    def _rescale(x, s):
        if all(x == 0.0): return 1.0
        assert 0 < x[0] + 1; assert 0 < x[1]
        if 1 + x[0] > s: return (s - 1) / x[0]
        elif 1 + x[0] < 1 / s: return (1 / s - 1) / x[0]
        return 1.0

    def propagate_likelihood(edge_order, edges_parent, edges_child, likelihoods, constraints, posterior,
                             factors, lognorm, max_shape, min_step, unphased):
        fixed = constraints[:, LOWER] == constraints[:, UPPER]
        scale = factors.scale; factor = factors.block if unphased else factors.edge
        for i in edge_order:
            p, c = edges_parent[i], edges_child[i]
            if scale[p] < TINY or scale[c] < TINY: _rescale_factors(factors)
            if fixed[p] and fixed[c]: continue
            elif fixed[p] and not fixed[c]:                               # branch `leaf`
                child_message = factor[i, LEAFWARD] * scale[c]
                child_delta = _damp(posterior[c], child_message, min_step)
                child_cavity = posterior[c] - child_delta * child_message
                edge_likelihood = child_delta * likelihoods[i]
                lognorm[i], posterior[c] = leafward_projection(constraints[p, LOWER], child_cavity, edge_likelihood)
                factor[i, LEAFWARD] *= 1.0 - child_delta
                factor[i, LEAFWARD] += (posterior[c] - child_cavity) / scale[c]
                child_eta = _rescale(posterior[c], max_shape)
                posterior[c] *= child_eta; scale[c] *= child_eta
            elif fixed[c] and not fixed[p]:  (same on ROOTWARD / p)       # branch `root`
            else:
                if p == c:  (same on ROOTWARD / p with twin_projection)   # branch `twin`
                else:                                                     # branch `both`
                    parent_message = factor[i, ROOTWARD] * scale[p]; child_message = factor[i, LEAFWARD] * scale[c]
                    delta = min(_damp(posterior[p], parent_message, min_step), _damp(posterior[c], child_message, min_step))
                    parent_cavity = posterior[p] - delta * parent_message; child_cavity = posterior[c] - delta * child_message
                    edge_likelihood = delta * likelihoods[i]
                    lognorm[i], posterior[p], posterior[c] = gamma_projection(parent_cavity, child_cavity, edge_likelihood)
                    factor[i, ROOTWARD] *= 1.0 - delta; factor[i, ROOTWARD] += (posterior[p] - parent_cavity) / scale[p]
                    factor[i, LEAFWARD] *= 1.0 - delta; factor[i, LEAFWARD] += (posterior[c] - child_cavity) / scale[c]
                    parent_eta = _rescale(posterior[p], max_shape); child_eta = _rescale(posterior[c], max_shape)
                    posterior[p] *= parent_eta; posterior[c] *= child_eta; scale[p] *= parent_eta; scale[c] *= child_eta

    def propagate_prior(free, posterior, factors, max_shape, em_maxitt, em_reltol):
        if not any(free): return
        cavity = posterior - factor[:, MIXPRIOR] * scale[:, newaxis]
        shape, rate = cavity[free, 0] + 1, cavity[free, 1]
        penalty = 1 / mean(shape / rate); itt, delta = 0, inf
        while abs(delta) > abs(penalty) * em_reltol:
            if itt > em_maxitt: break
            delta = 1 / mean(shape / (rate + penalty)) - penalty; penalty += delta; itt += 1
        assert penalty > 0
        posterior[free, 1] = cavity[free, 1] + penalty
        factor[free, MIXPRIOR] = (posterior[free] - cavity[free]) / scale[free, newaxis]
        for i in flatnonzero(free): eta = _rescale(posterior[i], max_shape); posterior[i] *= eta; scale[i] *= eta

    def iterate(...):  propagate_likelihood(block_order, block_nodes[0], block_nodes[1], block_likelihoods, ..., True)
                       propagate_likelihood(edge_order, edge_parents, edge_children, edge_likelihoods, ..., False)
                       if regularise: propagate_prior(unconstrained_roots, ...)
                       _rescale_factors(factors)

The projection functions of `tsdate/approx.py` are *parameters*: the model is a step machine
`prep` (everything up to the projection call) / `stepApply` (everything after it, for an arbitrary
projection result).  `sweep` folds the machine over the edge order with a projection function
`proj : Req α → Res α`; the driver runs the same `prep`/`stepApply` with the projection answered by
the real `approx.*_projection` over the line protocol.

The `assert`s of `_damp`, `_rescale` and `propagate_prior` are the Boolean predicates `dampOk`,
`rescaleOk`, `stepOk`, `priorOk` (the model functions themselves are total).

The model is generic in the number type: only core operator classes are used, so the same definitions
run at `Float` (same IEEE operations in the same order as numba: compared bit-for-bit), at `Rat`, and
are proved over any linear ordered field.
-/
import TsdateVerif.Model.Arr

namespace Tsdate.EP

/-- A 2×2 factor row: `r` is column ROOTWARD (for node factors: MIXPRIOR), `l` is LEAFWARD (CONSTRNT). -/
structure Msg (α : Type) where
  r : α × α
  l : α × α
deriving Inhabited, Repr

/-- Mutable state of EP: `factors.node/edge/block/scale` and `node_posterior`. -/
structure State (α : Type) where
  node : Array (Msg α)
  edge : Array (Msg α)
  block : Array (Msg α)
  scale : Array α
  post : Array (α × α)
deriving Repr

/-- Static inputs: fixed flags, lower constraints (ages of fixed nodes), edge parents/children, the two
nodes of each singleton block, likelihoods `(count, rate·span)` per edge and per block. -/
structure Net (α : Type) where
  fixed : Array Bool
  lower : Array α
  ep : Array Nat
  ec : Array Nat
  bj : Array Nat
  bk : Array Nat
  elik : Array (α × α)
  blik : Array (α × α)

structure Cfg (α : Type) where
  maxShape : α
  minStep : α
  tiny : α

/-- Which branch of the loop body of `propagate_likelihood` an edge takes. -/
inductive Branch
  | skip | leaf | root | twin | both
deriving DecidableEq, Repr, Inhabited

def branchOf (fixed : Array Bool) (p c : Nat) : Branch :=
  if aget fixed p && aget fixed c then .skip
  else if aget fixed p then .leaf
  else if aget fixed c then .root
  else if p = c then .twin
  else .both

section Arith
variable {α : Type} [Add α] [Sub α] [Mul α] [Div α] [OfNat α 0] [OfNat α 1]
  [LT α] [LE α] [DecidableLT α] [DecidableLE α]

def padd (x y : α × α) : α × α := (x.1 + y.1, x.2 + y.2)
def pzero : α × α := (0, 0)
/-- `x == 0.0` of IEEE / numpy (false for NaN, true for both zeros); `x = 0` in a linear order. -/
def isZero (x : α) : Bool := decide (x ≤ 0) && decide (0 ≤ x)
def pIsZero (x : α × α) : Bool := isZero x.1 && isZero x.2

/-- `factor[i, ·] * scale[n]` -/
def message (f : α × α) (sc : α) : α × α := (f.1 * sc, f.2 * sc)
/-- `posterior[n] - delta * message` -/
def cavity (post msg : α × α) (d : α) : α × α := (post.1 - d * msg.1, post.2 - d * msg.2)
/-- `delta * likelihoods[i]` -/
def dampLik (d : α) (lik : α × α) : α × α := (d * lik.1, d * lik.2)
/-- `factor *= 1 - delta; factor += (posterior - cavity) / scale` -/
def newFactor (f : α × α) (d : α) (proj cav : α × α) (sc : α) : α × α :=
  (f.1 * (1 - d) + (proj.1 - cav.1) / sc, f.2 * (1 - d) + (proj.2 - cav.2) / sc)
/-- `posterior *= eta` -/
def scalePost (x : α × α) (eta : α) : α × α := (x.1 * eta, x.2 * eta)

/-- `_damp(x, y, s)` (the value; the asserts are `dampOk`). -/
def damp (x y : α × α) (s : α) : α :=
  if pIsZero y && pIsZero x then 1 else
  let a := if (1 + x.1) * s < 1 + x.1 - y.1 then 1 else (1 - s) * (1 + x.1) / y.1
  let b := if x.2 * s < x.2 - y.2 then 1 else (1 - s) * x.2 / y.2
  if b < a then b else a

/-- The asserts of `_damp`: `0 < s < 1`, `0 < x[0] + 1`, `0 < x[1]`, `0 < d <= 1`. -/
def dampOk (x y : α × α) (s : α) : Bool :=
  (pIsZero y && pIsZero x) ||
  (decide (0 < s) && decide (s < 1) && decide (0 < x.1 + 1) && decide (0 < x.2) &&
    decide (0 < damp x y s) && decide (damp x y s ≤ 1))

/-- `_rescale(x, s)` (the value; the asserts are `rescaleOk`). -/
def rescale (x : α × α) (s : α) : α :=
  if pIsZero x then 1
  else if s < 1 + x.1 then (s - 1) / x.1
  else if 1 + x.1 < 1 / s then (1 / s - 1) / x.1
  else 1

/-- The asserts of `_rescale`: `x == 0` or (`0 < x[0] + 1` and `0 < x[1]`). -/
def rescaleOk (x : α × α) : Bool :=
  pIsZero x || (decide (0 < x.1 + 1) && decide (0 < x.2))

end Arith

/-- Everything `propagate_likelihood` computes for one edge before it calls a projection. -/
structure Req (α : Type) where
  branch : Branch
  unphased : Bool
  p : Nat
  c : Nat
  age : α           -- `constraints[p, LOWER]` (leaf) or `constraints[c, LOWER]` (root, twin); unused for `both`
  dP : α            -- damping applied at the parent end
  dC : α            -- damping applied at the child end
  cavP : α × α
  cavC : α × α
  lik : α × α       -- damped likelihood
  ok : Bool         -- no assert of `_damp` fired

/-- What a projection returns: the new (pre-capping) posteriors of the parent end and of the child end
(only the ends updated by the branch are used). The log normaliser is not part of the bookkeeping. -/
structure Res (α : Type) where
  postP : α × α
  postC : α × α

section Machine
variable {α : Type} [Add α] [Sub α] [Mul α] [Div α] [OfNat α 0] [OfNat α 1]
  [LT α] [LE α] [DecidableLT α] [DecidableLE α] [Inhabited α]

def initState (n e b : Nat) : State α :=
  { node := Array.replicate n ⟨pzero, pzero⟩, edge := Array.replicate e ⟨pzero, pzero⟩,
    block := Array.replicate b ⟨pzero, pzero⟩, scale := Array.replicate n 1,
    post := Array.replicate n pzero }

def facOf (u : Bool) (s : State α) : Array (Msg α) := if u then s.block else s.edge
def setFac (u : Bool) (s : State α) (f : Array (Msg α)) : State α :=
  if u then { s with block := f } else { s with edge := f }
def parOf (u : Bool) (net : Net α) : Array Nat := if u then net.bj else net.ep
def chiOf (u : Bool) (net : Net α) : Array Nat := if u then net.bk else net.ec
def likOf (u : Bool) (net : Net α) : Array (α × α) := if u then net.blik else net.elik

/-- `_rescale_factors`. -/
def rescaleFactors (net : Net α) (s : State α) : State α :=
  { node := s.node.mapIdx (fun n m => ⟨message m.r (aget s.scale n), message m.l (aget s.scale n)⟩)
    edge := s.edge.mapIdx (fun i m =>
      ⟨message m.r (aget s.scale (aget net.ep i)), message m.l (aget s.scale (aget net.ec i))⟩)
    block := s.block.mapIdx (fun i m =>
      ⟨message m.r (aget s.scale (aget net.bj i)), message m.l (aget s.scale (aget net.bk i))⟩)
    scale := Array.replicate s.scale.size 1
    post := s.post }

/-- `if scale[p] < TINY or scale[c] < TINY: _rescale_factors(factors)` -/
def tinyCheck (cfg : Cfg α) (net : Net α) (u : Bool) (i : Nat) (s : State α) : State α :=
  if aget s.scale (aget (parOf u net) i) < cfg.tiny ∨ aget s.scale (aget (chiOf u net) i) < cfg.tiny
  then rescaleFactors net s else s

/-- The part of the loop body before the projection call. -/
def prep (cfg : Cfg α) (net : Net α) (u : Bool) (i : Nat) (s : State α) : Req α :=
  let p := aget (parOf u net) i
  let c := aget (chiOf u net) i
  let f := aget (facOf u s) i
  let lik := aget (likOf u net) i
  let br := branchOf net.fixed p c
  let msgP := message f.r (aget s.scale p)
  let msgC := message f.l (aget s.scale c)
  let dP := damp (aget s.post p) msgP cfg.minStep
  let dC := damp (aget s.post c) msgC cfg.minStep
  let okP := dampOk (aget s.post p) msgP cfg.minStep
  let okC := dampOk (aget s.post c) msgC cfg.minStep
  match br with
  | .skip => ⟨br, u, p, c, 0, 1, 1, pzero, pzero, lik, true⟩
  | .leaf => ⟨br, u, p, c, aget net.lower p, 1, dC, pzero, cavity (aget s.post c) msgC dC, dampLik dC lik, okC⟩
  | .root => ⟨br, u, p, c, aget net.lower c, dP, 1, cavity (aget s.post p) msgP dP, pzero, dampLik dP lik, okP⟩
  | .twin => ⟨br, u, p, c, aget net.lower c, dP, 1, cavity (aget s.post p) msgP dP, pzero, dampLik dP lik, okP⟩
  | .both =>
    let d := if dC < dP then dC else dP
    ⟨br, u, p, c, 0, d, d, cavity (aget s.post p) msgP d, cavity (aget s.post c) msgC d, dampLik d lik,
      okP && okC⟩

/-- Update of one end (`slotL = false`: ROOTWARD column / node `n = p`; `true`: LEAFWARD / `n = c`) of
factor row `i` after the projection returned `proj` for that end. -/
def applyEnd (cfg : Cfg α) (u : Bool) (i : Nat) (slotL : Bool) (n : Nat) (d : α) (cav proj : α × α)
    (s : State α) : State α :=
  let sc := aget s.scale n
  let f := aget (facOf u s) i
  let f' : Msg α := if slotL then ⟨f.r, newFactor f.l d proj cav sc⟩ else ⟨newFactor f.r d proj cav sc, f.l⟩
  let eta := rescale proj cfg.maxShape
  let s1 := setFac u s (aset (facOf u s) i f')
  { s1 with post := aset s1.post n (scalePost proj eta), scale := aset s1.scale n (sc * eta) }

/-- The part of the loop body after the projection call, for an arbitrary projection result. -/
def stepApply (cfg : Cfg α) (rq : Req α) (i : Nat) (r : Res α) (s : State α) : State α :=
  match rq.branch with
  | .skip => s
  | .leaf => applyEnd cfg rq.unphased i true rq.c rq.dC rq.cavC r.postC s
  | .root => applyEnd cfg rq.unphased i false rq.p rq.dP rq.cavP r.postP s
  | .twin => applyEnd cfg rq.unphased i false rq.p rq.dP rq.cavP r.postP s
  | .both =>
    applyEnd cfg rq.unphased i true rq.c rq.dC rq.cavC r.postC
      (applyEnd cfg rq.unphased i false rq.p rq.dP rq.cavP r.postP s)

/-- The asserts of `_rescale` on the projection results of the ends the branch updates. -/
def resOk (rq : Req α) (r : Res α) : Bool :=
  match rq.branch with
  | .skip => true
  | .leaf => rescaleOk r.postC
  | .root => rescaleOk r.postP
  | .twin => rescaleOk r.postP
  | .both => rescaleOk r.postP && rescaleOk r.postC

/-- One pass of the loop body for edge (or block) `i`. -/
def stepEdge (proj : Req α → Res α) (cfg : Cfg α) (net : Net α) (u : Bool) (s : State α) (i : Nat) :
    State α :=
  let s1 := tinyCheck cfg net u i s
  let rq := prep cfg net u i s1
  stepApply cfg rq i (proj rq) s1

/-- `propagate_likelihood` over `order`. -/
def sweep (proj : Req α → Res α) (cfg : Cfg α) (net : Net α) (u : Bool) (order : List Nat)
    (s : State α) : State α :=
  order.foldl (stepEdge proj cfg net u) s

/-- No assert of `_damp` / `_rescale` fires in the loop body for edge `i` (the real code raises otherwise). -/
def stepOk (proj : Req α → Res α) (cfg : Cfg α) (net : Net α) (u : Bool) (s : State α) (i : Nat) : Bool :=
  let s1 := tinyCheck cfg net u i s
  let rq := prep cfg net u i s1
  rq.ok && resOk rq (proj rq)

/-- No assert fires during `propagate_likelihood` over `order`. -/
def sweepOk (proj : Req α → Res α) (cfg : Cfg α) (net : Net α) (u : Bool) : List Nat → State α → Bool
  | [], _ => true
  | i :: rest, s => stepOk proj cfg net u s i && sweepOk proj cfg net u rest (stepEdge proj cfg net u s i)

/-- One node of `propagate_prior` with the penalty `pen` found by the EM loop. -/
def priorNode (cfg : Cfg α) (pen : α) (s : State α) (n : Nat) : State α :=
  let sc := aget s.scale n
  let f := aget s.node n
  let po := aget s.post n
  let cav := cavity po (message f.r sc) 1
  let po' : α × α := (po.1, cav.2 + pen)
  let mix : α × α := ((po'.1 - cav.1) / sc, (po'.2 - cav.2) / sc)
  let eta := rescale po' cfg.maxShape
  { s with node := aset s.node n ⟨mix, f.l⟩, post := aset s.post n (scalePost po' eta),
           scale := aset s.scale n (sc * eta) }

/-- Indices `n < free.size` with `free[n]`, ascending (`np.flatnonzero(free)`). -/
def freeList (free : Array Bool) : List Nat := (List.range free.size).filter (fun n => aget free n)

/-- `(shape, rate)` of the cavities of the free nodes: `cavity[free, 0] + 1, cavity[free, 1]`. -/
def priorCavities (free : Array Bool) (s : State α) : List (α × α) :=
  (freeList free).map (fun n =>
    let c := cavity (aget s.post n) (message (aget s.node n).r (aget s.scale n)) 1
    (c.1 + 1, c.2))

/-- `mean(shape / rate)` resp. `mean(shape / (rate + pen))`; numba sums sequentially; `cnt` is the number
of free nodes as an element of `α`. -/
def meanRatio (xs : List (α × α)) (cnt : α) (pen : Option α) : α :=
  (xs.foldl (fun acc x => acc + x.1 / (match pen with | none => x.2 | some q => x.2 + q)) 0) / cnt

end Machine

section EM
variable {α : Type} [Add α] [Sub α] [Mul α] [Div α] [Neg α] [OfNat α 0] [OfNat α 1]
  [LT α] [LE α] [DecidableLT α] [DecidableLE α] [Inhabited α]

def absv (x : α) : α := if x < 0 then -x else x

/-- The `while` loop of `propagate_prior`; `delta = none` is the initial `inf`; `fuel` bounds the number of
passes (the real loop leaves after `em_maxitt + 1` bodies). -/
def emLoop (xs : List (α × α)) (cnt reltol : α) : Nat → Option α → α → α
  | 0, _, pen => pen
  | fuel + 1, delta, pen =>
    let go : Bool := match delta with
      | none => true
      | some d => decide (absv pen * reltol < absv d)
    if go then
      let d := 1 / meanRatio xs cnt (some pen) - pen
      emLoop xs cnt reltol fuel (some d) (pen + d)
    else pen

/-- The regularisation penalty of `propagate_prior`. -/
def emPenalty (xs : List (α × α)) (cnt reltol : α) (maxitt : Nat) : α :=
  emLoop xs cnt reltol (maxitt + 1) none (1 / meanRatio xs cnt none)

/-- `propagate_prior` with the penalty supplied. -/
def priorWith (cfg : Cfg α) (free : Array Bool) (pen : α) (s : State α) : State α :=
  (freeList free).foldl (priorNode cfg pen) s

/-- `propagate_prior`. -/
def prior (cfg : Cfg α) (free : Array Bool) (cnt reltol : α) (maxitt : Nat) (s : State α) : State α :=
  if (freeList free).isEmpty then s
  else priorWith cfg free (emPenalty (priorCavities free s) cnt reltol maxitt) s

/-- The assert of `_rescale` on the new posterior of free node `n` in `propagate_prior`. -/
def priorNodeOk (pen : α) (s : State α) (n : Nat) : Bool :=
  rescaleOk ((aget s.post n).1,
    (cavity (aget s.post n) (message (aget s.node n).r (aget s.scale n)) 1).2 + pen)

def priorRunOk (cfg : Cfg α) (pen : α) : List Nat → State α → Bool
  | [], _ => true
  | n :: rest, s => priorNodeOk pen s n && priorRunOk cfg pen rest (priorNode cfg pen s n)

/-- The asserts of `propagate_prior`: `penalty > 0` and those of `_rescale` on each new posterior. -/
def priorOk (cfg : Cfg α) (free : Array Bool) (cnt reltol : α) (maxitt : Nat) (s : State α) : Bool :=
  (freeList free).isEmpty ||
  (let pen := emPenalty (priorCavities free s) cnt reltol maxitt
   decide (0 < pen) && priorRunOk cfg pen (freeList free) s)

/-- Parameters of `iterate`. -/
structure Sched (α : Type) where
  blockOrder : List Nat
  edgeOrder : List Nat
  regularise : Bool
  free : Array Bool       -- `unconstrained_roots`
  cnt : α                 -- number of free nodes, as a number
  reltol : α
  maxitt : Nat

/-- `ExpectationPropagation.iterate`. -/
def iterate (proj : Req α → Res α) (cfg : Cfg α) (net : Net α) (sch : Sched α) (s : State α) : State α :=
  let s1 := sweep proj cfg net true sch.blockOrder s
  let s2 := sweep proj cfg net false sch.edgeOrder s1
  let s3 := if sch.regularise then prior cfg sch.free sch.cnt sch.reltol sch.maxitt s2 else s2
  rescaleFactors net s3

/-- `max_iterations` rounds of `iterate` (the loop of `infer`). -/
def iterateN (proj : Req α → Res α) (cfg : Cfg α) (net : Net α) (sch : Sched α) : Nat → State α → State α
  | 0, s => s
  | k + 1, s => iterateN proj cfg net sch k (iterate proj cfg net sch s)

/-- No assert of the real code fires during one `iterate`. -/
def iterateOk (proj : Req α → Res α) (cfg : Cfg α) (net : Net α) (sch : Sched α) (s : State α) : Bool :=
  let s1 := sweep proj cfg net true sch.blockOrder s
  let s2 := sweep proj cfg net false sch.edgeOrder s1
  sweepOk proj cfg net true sch.blockOrder s && sweepOk proj cfg net false sch.edgeOrder s1 &&
    (!sch.regularise || priorOk cfg sch.free sch.cnt sch.reltol sch.maxitt s2)

/-- No assert fires during `k` rounds of `iterate`. -/
def iterateNOk (proj : Req α → Res α) (cfg : Cfg α) (net : Net α) (sch : Sched α) : Nat → State α → Bool
  | 0, _ => true
  | k + 1, s => iterateOk proj cfg net sch s && iterateNOk proj cfg net sch k (iterate proj cfg net sch s)

end EM

section Assemble
variable {α : Type} [Add α] [OfNat α 0] [Inhabited α]

/-- Accumulation of `_assemble_factors` over the first `k` rows of one factor table, as seen by node `n`:
`acc += fac[i].r if par[i] == n; acc += fac[i].l if chi[i] == n`, rows in increasing order. -/
def accTo (par chi : Array Nat) (fac : Array (Msg α)) (n : Nat) (acc : α × α) : Nat → α × α
  | 0 => acc
  | k + 1 =>
    let a := accTo par chi fac n acc k
    let a1 := if aget par k = n then padd a (aget fac k).r else a
    if aget chi k = n then padd a1 (aget fac k).l else a1

/-- `_assemble_factors(factors)[n]`: edge rows, then block rows, then the two node factors. -/
def assemble (net : Net α) (s : State α) (n : Nat) : α × α :=
  let a := accTo net.ep net.ec s.edge n pzero s.edge.size
  let b := accTo net.bj net.bk s.block n a s.block.size
  padd (padd b (aget s.node n).r) (aget s.node n).l

end Assemble

section Star
variable {α : Type} [Add α] [Sub α] [Mul α] [Div α] [OfNat α 0] [OfNat α 1]
  [LT α] [LE α] [DecidableLT α] [DecidableLE α]

/-
`approx.rootward_projection(t_j, pars_i, pars_ij)` on its `t_j == 0` path:

    a_i, b_i = pars_i; y_ij, mu_ij = pars_ij; a_i += 1
    s = a_i + y_ij; r = mu_ij + b_i                       # rootward_moments
    if not _valid_gamma(s, r): return nan, nan, nan        # s <= 0 or r <= 0 (or non-finite)
    if t_j == 0.0: mn_i = s / r; va_i = s / r**2
    if not _valid_moments(mn_i, va_i): return nan, pars_i  # wrapper: skip, parameters unchanged
    return logl, (mn_i**2 / va_i - 1.0, mn_i / va_i)       # approximate_gamma_mom
-/
/-- The conjugate projection; `none` is the skip (NaN log-normaliser, parameters unchanged). -/
def rootwardT0 (cav lik : α × α) : Option (α × α) :=
  let s := cav.1 + 1 + lik.1
  let r := lik.2 + cav.2
  if 0 < s ∧ 0 < r then
    let mn := s / r
    let va := s / (r * r)
    if 0 < mn ∧ 0 < va then some (mn * mn / va - 1, mn / va) else none
  else none

/-- A projection function for star inputs: the conjugate update on the `root` branch with child age 0
(skip returns the cavity); any other request is answered by `other`. -/
def starProj (other : Req α → Res α) (rq : Req α) : Res α :=
  if rq.branch = .root ∧ isZero rq.age ∧ rq.unphased = false then
    ⟨(rootwardT0 rq.cavP rq.lik).getD rq.cavP, rq.cavC⟩
  else other rq

end Star

section Outputs
variable {α : Type} [Add α] [Sub α] [Mul α] [Div α] [OfNat α 0] [OfNat α 1] [OfNat α 2]
  [LT α] [LE α] [DecidableLT α] [DecidableLE α]

/-
    def approximate_gamma_mom(mean, variance):            # tsdate/approx.py
        if not (mean > 0.0 and variance > 0.0): raise ...
        shape = mean**2 / variance; rate = mean / variance
        return shape - 1.0, rate
    # tail of every `*_projection` wrapper:
        if not _valid_moments(mn, va): return np.nan, <skip>
        proj = approximate_gamma_mom(mn, va)
-/
/-- `approximate_gamma_mom`. -/
def gammaMom (mn va : α) : α × α := (mn * mn / va - 1, mn / va)

/-- Tail of the projection wrappers: `none` stands for NaN moments or the skip. -/
def wrapTail (m : Option (α × α)) : Option (α × α) :=
  match m with
  | none => none
  | some (mn, va) => if 0 < mn ∧ 0 < va then some (gammaMom mn va) else none

/-- `node_moments` / `mutation_moments`: mean `(α+1)/β`, variance `mean/β`. -/
def momentsOf (x : α × α) : α × α := ((x.1 + 1) / x.2, (x.1 + 1) / x.2 / x.2)

/-- End of `infer`: `switched = mutation_phase < 0.5; mutation_phase[switched] = 1 - mutation_phase[switched]`
(`none` = NaN: comparisons are false, the entry stays NaN). -/
def flipPhase (ph : Option α) : Option α :=
  ph.map (fun x => if x < 1 / 2 then 1 - x else x)

/-
    def approximate_gamma_iqr(q1, q2, x1, x2, max_shape):            # tsdate/approx.py
        def upper_bound(q, x): return max_shape - 1, gammainc_inv(max_shape, q) / x
        if x2 == x1: return upper_bound(q1, x1)
        if not (q2 > q1 and x2 > x1): raise
        alpha = log(q2 / q1) / log(x2 / x1)
        if alpha > max_shape: return upper_bound(q1, x1)
        <Newton iteration on alpha; raise after too many iterations>
        if not alpha > 0: raise
        if alpha > max_shape: return upper_bound(q1, x1)
        return alpha - 1, gammainc_inv(alpha, q1) / x1
    # piecewise_scale_posterior (tsdate/rescaling.py):
        alpha, beta = approximate_gamma_iqr(quant_lower, quant_upper, lower[i], upper[i], max_shape)
        beta = (alpha + 1) / midpt[i]
-/
/-- Decision logic of `approximate_gamma_iqr` around the opaque pieces: `alpha0` (the log ratio), `newton`
(result of the Newton iteration started at `alpha0`, `none` = did not converge) and `ginv` (`gammainc_inv`).
`none` = the real code raises. -/
def iqrFit (q1 q2 x1 x2 maxShape alpha0 : α) (newton : Option α) (ginv : α → α → α) : Option (α × α) :=
  let upper : α × α := (maxShape - 1, ginv maxShape q1 / x1)
  if x1 ≤ x2 ∧ x2 ≤ x1 then some upper
  else if ¬ (q1 < q2 ∧ x1 < x2) then none
  else if maxShape < alpha0 then some upper
  else match newton with
    | none => none
    | some a => if ¬ 0 < a then none else if maxShape < a then some upper else some (a - 1, ginv a q1 / x1)

/-- The reprojection step of `piecewise_scale_posterior` for one node. -/
def reproject (q1 q2 x1 x2 maxShape alpha0 : α) (newton : Option α) (ginv : α → α → α) (midpt : α) :
    Option (α × α) :=
  (iqrFit q1 q2 x1 x2 maxShape alpha0 newton ginv).map (fun ab => (ab.1, (ab.1 + 1) / midpt))

end Outputs

end Tsdate.EP
