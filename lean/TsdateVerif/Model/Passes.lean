/-
The linear-space inside and outside passes of `BeliefPropagation` (tsdate/discrete.py) as instances
of the generic `pass` of Model/Order.lean, on *unpacked* likelihood tables handed in as data.

Python (abbreviated, linear space: combine = `*`, ratio = `/`, scale_geometric(f, v) = `v ** f`):

  inside_pass:
    for parent, edges in edges_by_parent_asc():
        if parent in fixednodes: continue
        val = priors[parent].copy()
        for edge in edges:
            spanfrac = edge.span / spans[edge.child]
            if edge.child in fixednodes:
                edge_lik = scale_geometric(spanfrac, inside[edge.child]) * mut_lik_fixed(edge)
            else:
                edge_lik = rowsum_lower_tri(scale_geometric(spanfrac, make_lower_tri(inside[edge.child]))
                                            * mut_lik_lower_tri(edge))
            val = val * edge_lik
        denominator[parent] = np.max(val); inside[parent] = val / denominator[parent]

  outside_pass(standardize, ignore_oldest_root):
    outside = zeros; outside[root] = span_when_root / spans[root]   (trees with a single root)
    for child, edges in edges_by_child_desc():
        if child in fixednodes: continue
        val = ones(grid_size)
        for edge in edges:
            if ignore_oldest_root:
                if edge.parent == num_nodes - 1: continue
            spanfrac = edge.span / spans[child]
            cur_g_i = rowsum_lower_tri(scale_geometric(spanfrac, make_lower_tri(inside[edge.child]))
                                       * mut_lik_lower_tri(edge)) / denominator[child]
            inside_div_gi = ratio(inside[edge.parent], cur_g_i, div_0_null=True)      # 0/0 := 0
            parent_val = scale_geometric(spanfrac, make_upper_tri(outside[edge.parent] * inside_div_gi))
            if standardize: parent_val = parent_val / np.max(parent_val)
            edge_lik = rowsum_upper_tri(parent_val * mut_lik_upper_tri(edge))
            val = val * edge_lik
        outside[child] = val / denominator[child]
        if standardize: outside[child] = val / np.max(val)

`likLower e t s` is `mut_lik_lower_tri(edge e)` at (parent index `t`, child index `s ≤ t`),
`likFixed e t` is `mut_lik_fixed(edge e)` at parent index `t`; `pow f v = v ** f` is a parameter
(a special function).  The rule deciding which parents are ignored is the parameter `ign`
(the code: `fun p => p == num_nodes - 1`).
-/
import TsdateVerif.Model.Order

namespace Tsdate.Order

/-- The numerical data of one discrete-time dating problem. -/
structure GridData (α : Type) where
  G : Nat
  fixed : Nat → Bool
  prior : Nat → List α
  likLower : Nat → Nat → Nat → α
  likFixed : Nat → Nat → α
  spanfrac : Nat → α
  pow : α → α → α

/-- replace `step` by one that skips the edges whose source is in the ignored set -/
def withIgnore {β : Type} (ops : PassOps β) (ign : Nat → Bool) : PassOps β :=
  { ops with step := fun e x v => if ign e.src then v else ops.step e x v }

/-- the rule of the code: ignore the node with the highest id -/
def ignCode (numNodes : Nat) : Nat → Bool := fun p => p == numNodes - 1

section Lin
variable {α : Type} [Inhabited α] [Add α] [Mul α] [Div α] [OfNat α 0] [OfNat α 1] [LT α]
  [DecidableLT α]

/-- the specified rule: ignore the root(s) of greatest time. `roots` lists the root nodes. -/
def ignOldest (time : Nat → α) (roots : List Nat) : Nat → Bool :=
  fun p => roots.contains p && roots.all (fun r => !(decide (time p < time r)))

def vsum (l : List α) : α := l.foldl (· + ·) 0

def vmax : List α → α
  | [] => default
  | x :: xs => xs.foldl (fun a b => if a < b then b else a) x

def vmul (a b : List α) : List α := List.zipWith (· * ·) a b

def vat (v : List α) (i : Nat) : α := v.getD i default

/-- `ratio(x, y, div_0_null=True)`: `0/0 := 0` -/
def ratio0 (x y : α) : α :=
  if y < 0 then x / y else if 0 < y then x / y
  else if x < 0 then x / y else if 0 < x then x / y else 0

/-- `rowsum_lower_tri(scale_geometric(spanfrac, make_lower_tri(v)) * mut_lik_lower_tri(e))` -/
def lowerMsg (d : GridData α) (e : Nat) (v : List α) : List α :=
  (List.range d.G).map (fun t =>
    vsum ((List.range (t + 1)).map (fun s => d.pow (d.spanfrac e) (vat v s) * d.likLower e t s)))

/-- the message of edge `e` (child → parent) in the inside pass -/
def insideMsg (d : GridData α) (e : DEdge) (x : List α × α) : List α :=
  if d.fixed e.src then
    (List.range d.G).map (fun t => d.pow (d.spanfrac e.id) (vat x.1 0) * d.likFixed e.id t)
  else lowerMsg d e.id x.1

/-- inside pass: the state of a node is `(inside row, denominator)` -/
def insideOps (d : GridData α) : PassOps (List α × α) where
  init p := (d.prior p, 1)
  step e x v := (vmul v.1 (insideMsg d e x), v.2)
  finish _ v := (v.1.map (fun a => a / vmax v.1), vmax v.1)
  skip := d.fixed

/-- `inside` and `denominator` before the pass: fixed nodes hold the identity constant -/
def insideInit (d : GridData α) (n : Nat) : Array (List α × α) :=
  (Array.range n).map (fun u => if d.fixed u then ([1], 1) else ([], 1))

/-- the message of edge `e` (parent → child) in the outside pass -/
def outsideMsg (d : GridData α) (ins : Nat → List α) (den : Nat → α) (standardize : Bool)
    (e : DEdge) (x : List α) : List α :=
  let gi := (lowerMsg d e.id (ins e.dst)).map (fun a => a / den e.dst)
  let pv := (List.range d.G).map (fun t =>
    d.pow (d.spanfrac e.id) (vat x t * ratio0 (vat (ins e.src) t) (vat gi t)))
  let pv' := if standardize then pv.map (fun a => a / vmax pv) else pv
  (List.range d.G).map (fun s =>
    vsum ((List.range (d.G - s)).map (fun j => vat pv' (s + j) * d.likLower e.id (s + j) s)))

/-- outside pass without the ignore rule (wrap with `withIgnore`) -/
def outsideOps (d : GridData α) (ins : Nat → List α) (den : Nat → α) (standardize : Bool) :
    PassOps (List α) where
  init _ := List.replicate d.G 1
  step e x v := vmul v (outsideMsg d ins den standardize e x)
  finish c v := if standardize then v.map (fun a => a / vmax v) else v.map (fun a => a / den c)
  skip := d.fixed

/-- `outside` before the pass -/
def outsideInit (d : GridData α) (n : Nat) (rootfrac : Nat → α) : Array (List α) :=
  (Array.range n).map (fun u => List.replicate d.G (rootfrac u))

/-- inside pass followed by the outside pass; returns (inside states, outside rows) -/
def insideOutside (d : GridData α) (n : Nat) (rootfrac : Nat → α) (ign : Nat → Bool)
    (standardize : Bool) (insOrder outOrder : List DEdge) :
    Array (List α × α) × Array (List α) :=
  let ins := pass (insideOps d) (insideInit d n) insOrder
  let insRow := fun u => (aget ins u).1
  let den := fun u => (aget ins u).2
  (ins, pass (withIgnore (outsideOps d insRow den standardize) ign) (outsideInit d n rootfrac) outOrder)

end Lin

end Tsdate.Order
