/-
Model of the option handling and the interval logic of `tsdate.util.preprocess_ts` (tsdate/util.py).

Python source, abbreviated:

    def preprocess_ts(ts, *, minimum_gap=None, erase_flanks=None, delete_intervals=None,
                      split_disjoint=None, filter_populations=False, filter_individuals=False,
                      filter_sites=False, record_provenance=None, remove_telomeres=None, **kwargs):
        if split_disjoint is None: split_disjoint = True
        if record_provenance is None: record_provenance = True
        if remove_telomeres is not None:
            if erase_flanks is None: erase_flanks = remove_telomeres
            else: raise ValueError("Cannot specify both remove_telomeres and erase_flanks")
        if delete_intervals is not None and (minimum_gap is not None or erase_flanks is not None):
            raise ValueError("Cannot specify both delete_intervals and minimum_gap/erase_flanks")
        sites = tables.sites.position[:]
        if delete_intervals is None:
            if minimum_gap is None: minimum_gap = 1000000
            if erase_flanks is None: erase_flanks = True
            if ts.num_sites < 1: raise ValueError("Invalid tree sequence: no sites present")
            delete_intervals = []
            if erase_flanks:
                first_site = sites[0] - 1
                if first_site > 0: delete_intervals.append([0, first_site])
                last_site = sites[-1] + 1
                if last_site < sequence_length: delete_intervals.append([last_site, sequence_length])
            gaps = sites[1:] - sites[:-1]
            for gap in np.where(gaps >= minimum_gap)[0]:
                gap_start = sites[gap] + 1; gap_end = sites[gap + 1] - 1
                if gap_end > gap_start: delete_intervals.append([gap_start, gap_end])
            delete_intervals = sorted(delete_intervals, key=lambda x: x[0])
        if len(delete_intervals) > 0:
            tables.delete_intervals(delete_intervals, simplify=False, record_provenance=False)
        tables.simplify(filter_populations=…, filter_individuals=…, filter_sites=…, **kwargs)
        tables.sort()
        if split_disjoint: ts = split_disjoint_nodes(tables.tree_sequence(), record_provenance=False)
        if record_provenance: provenance.record_provenance(tables, "preprocess_ts", minimum_gap=…, …)

The model computes the *plan*: either the `ValueError` that is raised, or the interval list handed to
`tables.delete_intervals` plus the resolved options.  What tskit's `delete_intervals` / `simplify` /
`sort` then do is their contract; `split_disjoint_nodes` is C29.  The number type is generic (core
classes only): run at `Float` (same IEEE operations as numpy, compared bit-for-bit) and proved over an
ordered ring.  `sorted(key=x[0])` is a stable sort: core `List.mergeSort`.
-/

namespace Tsdate.Preprocess

inductive Err where
  | bothTelomeresAndFlanks     -- "Cannot specify both remove_telomeres and erase_flanks"
  | intervalsAndGapOrFlanks    -- "Cannot specify both delete_intervals and minimum_gap/erase_flanks"
  | noSites                    -- "Invalid tree sequence: no sites present"
deriving DecidableEq, Repr

/-- The keyword arguments that steer the interval logic; `none` = Python `None`. -/
structure Opts (α : Type) where
  minimumGap : Option α := none
  eraseFlanks : Option Bool := none
  deleteIntervals : Option (List (α × α)) := none
  splitDisjoint : Option Bool := none
  recordProvenance : Option Bool := none
  removeTelomeres : Option Bool := none       -- deprecated alias of erase_flanks

/-- What `preprocess_ts` goes on to do. -/
structure Plan (α : Type) where
  intervals : List (α × α)        -- argument of `tables.delete_intervals` (skipped when empty)
  splitDisjoint : Bool
  recordProvenance : Bool
  minimumGap : Option α           -- values written to the provenance record
  eraseFlanks : Option Bool

section
variable {α : Type} [Add α] [Sub α] [OfNat α 0] [OfNat α 1] [LT α] [DecidableLT α] [LE α] [DecidableLE α]

/-- The two flank intervals: `[0, sites[0]-1)` and `[sites[-1]+1, L)`, each only if non-empty. -/
def flankIntervals (sites : List α) (L : α) : List (α × α) :=
  match sites.head?, sites.getLast? with
  | some s0, some sN =>
    (if 0 < s0 - 1 then [((0 : α), s0 - 1)] else []) ++ (if sN + 1 < L then [(sN + 1, L)] else [])
  | _, _ => []

/-- One interval `[s+1, s'-1)` for every pair of adjacent sites with `s' - s >= minimum_gap`, kept
only if `s'-1 > s+1`. -/
def gapIntervals (mg : α) : List α → List (α × α)
  | a :: b :: rest =>
    (if mg ≤ b - a ∧ a + 1 < b - 1 then [(a + 1, b - 1)] else []) ++ gapIntervals mg (b :: rest)
  | _ => []

/-- `sorted(delete_intervals, key=lambda x: x[0])`. -/
def sortByStart (ivs : List (α × α)) : List (α × α) :=
  ivs.mergeSort (fun x y => !decide (y.1 < x.1))

/-- The computed interval list. -/
def computedIntervals (mg : α) (ef : Bool) (sites : List α) (L : α) : List (α × α) :=
  sortByStart ((if ef then flankIntervals sites L else []) ++ gapIntervals mg sites)

/-- Option handling + interval logic. `dflt` is the default `minimum_gap` (1000000). -/
def plan (dflt : α) (sites : List α) (L : α) (o : Opts α) : Except Err (Plan α) :=
  let sd := o.splitDisjoint.getD true
  let rp := o.recordProvenance.getD true
  -- deprecated alias
  match (match o.removeTelomeres, o.eraseFlanks with
         | none, ef => Except.ok ef
         | some rt, none => Except.ok (some rt)
         | some _, some _ => Except.error Err.bothTelomeresAndFlanks) with
  | .error e => .error e
  | .ok ef =>
    match o.deleteIntervals with
    | some ivs =>
      if o.minimumGap.isSome || ef.isSome then .error Err.intervalsAndGapOrFlanks
      else .ok { intervals := ivs, splitDisjoint := sd, recordProvenance := rp,
                 minimumGap := none, eraseFlanks := none }
    | none =>
      let mg := o.minimumGap.getD dflt
      let ef' := ef.getD true
      if sites.isEmpty then .error Err.noSites
      else .ok { intervals := computedIntervals mg ef' sites L, splitDisjoint := sd,
                 recordProvenance := rp, minimumGap := some mg, eraseFlanks := some ef' }

end

end Tsdate.Preprocess
