/-
Model of the changepoint helpers of tsdate/rescaling.py.

    @numba_jit
    def _fixed_changepoints(counts, epochs):
        assert epochs > 0
        Y = np.append(0.0, np.cumsum(counts))
        # (since fix 412a87a) boundary k is the last index where Y[i]/Y[-1] <= k/epochs, cross-multiplied:
        e = np.searchsorted(Y * epochs, np.arange(epochs + 1) * Y[-1], "right") - 1
        if e[0] > 0: e[0] = 0
        if e[-1] < counts.size: e[-1] = counts.size
        return e.astype(np.int32)

    @numba_jit
    def _poisson_changepoints(counts, offset, penalty, min_counts, min_offset):
        N = np.append(0, np.cumsum(offset)); Y = np.append(0, np.cumsum(counts))
        def f(i, j):  # loss
            n = N[j] - N[i]; y = Y[j] - Y[i]
            s = n < min_offset or y < min_counts
            return inf if s else -2 * y * (log(y) - log(n) - 1)
        dim = counts.size; cost = np.empty(dim); F = np.empty(dim + 1)
        C = {0: np.empty(0, dtype=np.int64)}
        F[0] = -penalty
        for j in np.arange(1, dim + 1):
            argmin, minval = 0, np.inf
            for i in C:  # minimize
                cost[i] = F[i] + f(i, j) + penalty
                if cost[i] < minval: minval = cost[i]; argmin = i
            F[j] = minval
            for i in set(C):  # prune
                if cost[i] > F[j] + penalty: C.pop(i)
            C[j] = np.append(C[argmin], argmin)          # KeyError if argmin is no longer a key
        return np.append(C[dim], dim).astype(np.int32)

Generic in the number type `α` and in the cost type `κ` (for `Float` both are `Float` with `inf`;
in proofs `κ = WithTop α`).  The segment loss `f` is a parameter of the dynamic programme, so the
optimality theorems hold for every loss; `poissonLoss` is the loss the code uses, with `log` a
parameter.  Values of the dict `C` never change once written, so the model stores them for every
index (`P`) and keeps the *key set* separately (`cands`); reading a popped key is `none` (KeyError).
-/

namespace Tsdate.Changepoints

@[inline] def lget {α : Type} [Inhabited α] (l : List α) (i : Nat) : α := (l[i]?).getD default

/-- `np.append(0, np.cumsum(xs))`: running sums starting with `acc` -/
def prefixFrom {α : Type} [Add α] : α → List α → List α
  | acc, [] => [acc]
  | acc, x :: xs => acc :: prefixFrom (acc + x) xs

/-! ### `_fixed_changepoints` -/
section Fixed
variable {α : Type} [Inhabited α] [Add α] [Mul α] [Div α] [OfNat α 0] [OfNat α 1]
  [LE α] [DecidableLE α] [LT α] [DecidableLT α]

/-- `Y * epochs` with `Y = append(0, cumsum(counts))` -/
def scaledSums (cast : Nat → α) (counts : List α) (epochs : Nat) : List α :=
  (prefixFrom 0 counts).map (fun y => y * cast epochs)

/-- `(np.arange(epochs + 1) * Y[-1])[k]` -/
def target (cast : Nat → α) (counts : List α) (k : Nat) : α :=
  cast k * lget (prefixFrom 0 counts) counts.length

/-- `np.searchsorted(a, v, "right")` for sorted `a` -/
def searchRight (zs : List α) (z : α) : Nat := zs.countP (fun x => decide (x ≤ z))

/-- entry `k` of the result, before the two end corrections -/
def fixedRaw (cast : Nat → α) (counts : List α) (epochs k : Nat) : Nat :=
  searchRight (scaledSums cast counts epochs) (target cast counts k) - 1

/-- entry `k` of `_fixed_changepoints(counts, epochs)`, after the two end corrections -/
def fixedAt (cast : Nat → α) (counts : List α) (epochs k : Nat) : Nat :=
  let e := fixedRaw cast counts epochs k
  if k = 0 then 0                       -- `if e[0] > 0: e[0] = 0` (e[0] ≥ 0 because Z[0] = 0 ≤ z[0])
  else if k = epochs then (if e < counts.length then counts.length else e)
  else e

/-- `_fixed_changepoints(counts, epochs)` (length `epochs + 1`) -/
def fixedChangepoints (cast : Nat → α) (counts : List α) (epochs : Nat) : List Nat :=
  (List.range (epochs + 1)).map (fixedAt cast counts epochs)

/-- what the code needs to be meaningful: `epochs > 0` (asserted) and non-negative counts (so that the
cumulative sums are sorted; not asserted).  A zero total is fine since the cross-multiplied form. -/
def fixedPre (counts : List α) (epochs : Nat) : Bool :=
  decide (0 < epochs) && counts.all (fun c => decide (0 ≤ c))

end Fixed

/-! ### `_poisson_changepoints` -/
section Pelt
variable {κ : Type} [Inhabited κ] [Add κ] [LT κ] [DecidableLT κ]

/-- state after computing `F[0..j]`: `F`, the dict values `P[i] = C[i]` and the key set `cands`
(insertion order) -/
structure St (κ : Type) where
  F : List κ
  P : List (List Nat)
  cands : List Nat

/-- `cost[i] = F[i] + f(i, j) + penalty` for the candidates, in iteration order -/
def stepCosts (f : Nat → Nat → κ) (pen : κ) (F : List κ) (cands : List Nat) (j : Nat) : List (Nat × κ) :=
  cands.map (fun i => (i, lget F i + f i j + pen))

/-- `argmin, minval = 0, inf; for i in C: if cost[i] < minval: minval = cost[i]; argmin = i` -/
def argminFold (top : κ) (cs : List (Nat × κ)) : Nat × κ :=
  cs.foldl (fun acc c => if c.2 < acc.2 then c else acc) (0, top)

/-- one iteration of the `j` loop (`j = s.F.length`); `none` = `KeyError` on `C[argmin]` -/
def step (prune : Bool) (f : Nat → Nat → κ) (pen top : κ) (s : St κ) : Option (St κ) :=
  let j := s.F.length
  let cs := stepCosts f pen s.F s.cands j
  let am := argminFold top cs
  let cands' := if prune then (cs.filter (fun c => !(decide (am.2 + pen < c.2)))).map (·.1) else s.cands
  if cands'.contains am.1 then
    some { F := s.F ++ [am.2], P := s.P ++ [lget s.P am.1 ++ [am.1]], cands := cands' ++ [j] }
  else none

def iter (prune : Bool) (f : Nat → Nat → κ) (pen top : κ) : Nat → St κ → Option (St κ)
  | 0, s => some s
  | n + 1, s => (step prune f pen top s).bind (iter prune f pen top n)

def init (F0 : κ) : St κ := { F := [F0], P := [[]], cands := [0] }

/-- the segmentation returned for `dim` observations: `append(C[dim], dim)`;
`prune = true` is the code (PELT), `prune = false` the plain optimal-partitioning recursion -/
def segment (prune : Bool) (f : Nat → Nat → κ) (F0 pen top : κ) (dim : Nat) : Option (List Nat) :=
  (iter prune f pen top dim (init F0)).map (fun s => lget s.P dim ++ [dim])

/-- `F0 + Σ (f(s_r, s_{r+1}) + penalty)` over consecutive boundaries of a segmentation -/
def segCost (f : Nat → Nat → κ) (pen : κ) : κ → List Nat → κ
  | acc, a :: b :: rest => segCost f pen (acc + f a b + pen) (b :: rest)
  | acc, _ => acc

end Pelt

section Loss
variable {α κ : Type} [Inhabited α] [Add α] [Sub α] [Mul α] [Neg α] [OfNat α 0] [OfNat α 1] [OfNat α 2]
  [LT α] [DecidableLT α]

/-- the code's segment loss `f(i, j)`; `lg` is `math.log`, `top` is `inf`, `emb` embeds finite values -/
def poissonLoss (emb : α → κ) (top : κ) (lg : α → α) (counts offs : List α) (minCounts minOffset : α)
    (i j : Nat) : κ :=
  let N := prefixFrom 0 offs
  let Y := prefixFrom 0 counts
  let n := lget N j - lget N i
  let y := lget Y j - lget Y i
  if n < minOffset ∨ y < minCounts then top else emb (-2 * y * (lg y - lg n - 1))

end Loss

end Tsdate.Changepoints
