/-
Model of `tsdate.util._split_disjoint_nodes` and `tsdate.util._relabel_mutations_node`
(tsdate/util.py), the two numba kernels behind `split_disjoint_nodes`.

Python (numba) source, abbreviated:

    def _split_disjoint_nodes(edges_parent, edges_child, edges_left, edges_right, node_excluded):
        edges_order = np.argsort(edges_left)
        edges_segments = np.full((2, num_edges), -1); nodes_segments = np.full(num_nodes, -1)
        nodes_right = np.full(num_nodes, -np.inf)
        for e in edges_order:                                   # phase 1: label the pieces
            nodes = edges_parent[e], edges_child[e]
            for i, n in enumerate(nodes):
                if node_excluded[n]: continue
                nodes_segments[n] += edges_left[e] > nodes_right[n]
                edges_segments[i, e] = nodes_segments[n]
                nodes_right[n] = max(nodes_right[n], edges_right[e])
        split_nodes = []; nodes_map = np.full(num_nodes, -1)    # phase 2: allocate new ids
        for i, s in enumerate(nodes_segments):
            for j in range(s):
                if j == 0: nodes_map[i] = num_nodes
                split_nodes.append(i); num_nodes += 1
        nodes_order = np.arange(num_nodes); nodes_order[-len(split_nodes):] = split_nodes
        for e in edges_order:                                   # phase 3: relabel the edges
            for i, n in enumerate((edges_parent[e], edges_child[e])):
                if edges_segments[i, e] > 0: edges_segments[i, e] += nodes_map[n] - 1
                else:                        edges_segments[i, e] = n
        return edges_segments[0], edges_segments[1], nodes_order, split_nodes

    def _relabel_mutations_node(mutations_node, mutations_position, nodes_order, edges_parent,
                                edges_child, edges_left, edges_right, insert_index, remove_index):
        output = np.full(num_mutations, NULL)
        if num_edges == 0: output[:] = mutations_node; return output
        insert_position = edges_left[insert_index]; remove_position = edges_right[remove_index]
        sequence_length = remove_position[-1]
        nodes_map = np.full(num_nodes, NULL); a, b, m = 0, 0, 0; left = 0.0
        while left < sequence_length:
            while b < num_edges and remove_position[b] == left: b += 1
            while a < num_edges and insert_position[a] == left:
                e = insert_index[a]; c, p = edges_child[e], edges_parent[e]
                nodes_map[nodes_order[c]] = c; nodes_map[nodes_order[p]] = p; a += 1
            right = sequence_length
            if b < num_edges: right = min(right, remove_position[b])
            if a < num_edges: right = min(right, insert_position[a])
            left = right
            while m < num_mutations and mutations_position[m] < right:
                output[m] = nodes_map[mutations_node[m]] if nodes_map[mutations_node[m]] != NULL
                            else mutations_node[m]
                m += 1
        while m < num_mutations: (same assignment); m += 1
        return output

Modelling choices.
* `np.argsort(edges_left)` is a *parameter* `ord` of the model (numba's argsort is not stable); the
  theorems hold for every permutation of the edge ids that is sorted by left coordinate, the driver
  uses a stable merge sort.
* The nested loop "for e in edges_order: for i, n in enumerate((parent, child))" is flattened into
  the event list `eventsOf` (parent event, then child event, per edge) and a `foldl`.
* `nodes_right = -inf` is `none`; `NULL = -1` in `nodes_map` of the mutation sweep is `none`.
* "while idx < n and cond(arr[idx]): idx += 1" loops over an array are `takeWhile`/`dropWhile` on
  the remaining suffix of the corresponding list.  The outer `while left < sequence_length` is a
  recursion on fuel (`sweepGo`); Proofs/Split.lean shows the fuel used by `relabelMutations`
  always suffices for sorted indexes.
* The coordinate type `α` is generic (core classes only): run at `Rat` (exact) by the driver, proved
  over any linear order.
-/
import TsdateVerif.Model.Arr

namespace Tsdate.Split

/-- One row of the edge table. -/
structure SEdge (α : Type) where
  left : α
  right : α
  parent : Nat
  child : Nat
deriving Repr, Inhabited

/-- One step of the inner loop: edge `e` seen in role `role` (`false` = parent, `i = 0`;
`true` = child, `i = 1`), i.e. `n = nodes[i]`, with the edge's coordinates. -/
structure Ev (α : Type) where
  e : Nat
  role : Bool
  node : Nat
  left : α
  right : α
deriving Repr, Inhabited

section Phase1
variable {α : Type} [Inhabited α] [LT α] [DecidableLT α]

/-- The two inner-loop steps of edge `e`. -/
def evsOfEdge (es : Array (SEdge α)) (e : Nat) : List (Ev α) :=
  let ed := aget es e
  [⟨e, false, ed.parent, ed.left, ed.right⟩, ⟨e, true, ed.child, ed.left, ed.right⟩]

/-- `for e in edges_order: for i, n in enumerate((parent[e], child[e]))`, flattened. -/
def eventsOf (es : Array (SEdge α)) (ord : List Nat) : List (Ev α) :=
  ord.flatMap (evsOfEdge es)

/-- `edges_left[e] > nodes_right[n]` with `nodes_right[n] = -inf` as `none`. -/
def gtRight (l : α) : Option α → Bool
  | none => true
  | some r => decide (r < l)

/-- `max(nodes_right[n], edges_right[e])`. -/
def maxRight (r : α) : Option α → α
  | none => r
  | some r0 => if r0 < r then r else r0

/-- State of phase 1. -/
structure St (α : Type) where
  seg : Array Int            -- nodes_segments
  right : Array (Option α)   -- nodes_right
  esegP : Array Int          -- edges_segments[0, :]
  esegC : Array Int          -- edges_segments[1, :]

def St.init (N E : Nat) : St α :=
  { seg := Array.replicate N (-1), right := Array.replicate N none,
    esegP := Array.replicate E (-1), esegC := Array.replicate E (-1) }

/-- Body of the inner loop. -/
def step (excl : Array Bool) (st : St α) (ev : Ev α) : St α :=
  if aget excl ev.node then st else
  let s : Int := aget st.seg ev.node + (if gtRight ev.left (aget st.right ev.node) then 1 else 0)
  { seg := aset st.seg ev.node s,
    right := aset st.right ev.node (some (maxRight ev.right (aget st.right ev.node))),
    esegP := if ev.role then st.esegP else aset st.esegP ev.e s,
    esegC := if ev.role then aset st.esegC ev.e s else st.esegC }

/-- Phase 1 over an event list. -/
def phase1 (excl : Array Bool) (N E : Nat) (evs : List (Ev α)) : St α :=
  evs.foldl (step excl) (St.init N E)

/-- The label `edges_segments[i, e]` of an event. -/
def lab (st : St α) (ev : Ev α) : Int :=
  if ev.role then aget st.esegC ev.e else aget st.esegP ev.e

end Phase1

/-! ### Phase 2: allocation of the new ids -/

structure AllocSt where
  num : Nat                -- num_nodes
  map : Array Int          -- nodes_map
  split : List Nat         -- split_nodes
deriving Repr

/-- Body of `for i, s in enumerate(nodes_segments): for j in range(s): ...` for one `i`: the inner
loop appends `i` to `split_nodes` `s` times, sets `nodes_map[i]` on its first round, and advances
`num_nodes` by `s` (nothing happens for `s ≤ 0`). -/
def allocStep (st : AllocSt) (is : Nat × Int) : AllocSt :=
  { num := st.num + is.2.toNat,
    map := if 0 < is.2 then aset st.map is.1 (st.num : Int) else st.map,
    split := st.split ++ List.replicate is.2.toNat is.1 }

/-- `for i, s in enumerate(nodes_segments)` from index `i` on. -/
def allocGo : Nat → List Int → AllocSt → AllocSt
  | _, [], st => st
  | i, s :: ss, st => allocGo (i + 1) ss (allocStep st (i, s))

def alloc (N : Nat) (segs : List Int) : AllocSt :=
  allocGo 0 segs { num := N, map := Array.replicate N (-1), split := [] }

/-- Phase 3 for one `(i, e)`: `if seg > 0: seg + nodes_map[n] - 1 else n`. -/
def newId (map : Array Int) (l : Int) (n : Nat) : Nat :=
  if 0 < l then (l + aget map n - 1).toNat else n

structure Out where
  parent : List Nat        -- returned edges_parent
  child : List Nat         -- returned edges_child
  order : List Nat         -- nodes_order
  split : List Nat         -- split_nodes
deriving Repr, DecidableEq

section Full
variable {α : Type} [Inhabited α] [LT α] [DecidableLT α]

/-- `_split_disjoint_nodes`. `ord` is `np.argsort(edges_left)`. -/
def splitDisjoint (N : Nat) (excl : Array Bool) (es : Array (SEdge α)) (ord : List Nat) : Out :=
  let st := phase1 excl N es.size (eventsOf es ord)
  let al := alloc N st.seg.toList
  { parent := (List.range es.size).map
      (fun e => newId al.map (aget st.esegP e) (aget es e).parent),
    child := (List.range es.size).map
      (fun e => newId al.map (aget st.esegC e) (aget es e).child),
    order := List.range N ++ al.split,
    split := al.split }

/-- The edge table with the relabelled parent/child columns (what `split_disjoint_nodes` writes
back before `tables.sort()`). -/
def outEdges (es : Array (SEdge α)) (o : Out) : Array (SEdge α) :=
  ((List.range es.size).map (fun e =>
    ({ left := (aget es e).left, right := (aget es e).right,
       parent := o.parent.getD e 0, child := o.child.getD e 0 } : SEdge α))).toArray

end Full

/-! ### The node table (`split_disjoint_nodes` + `_reorder_nodes`)

    flags[split_nodes] |= NODE_SPLIT_BY_PREPROCESS          # on the *input* rows
    node_table.set_columns(flags=flags[order], time=time[order], population=…[order], individual=…[order], …)
-/

/-- `col[order]` (numpy fancy indexing). -/
def reorderCol {β : Type} [Inhabited β] (col : Array β) (order : List Nat) : List β :=
  order.map (fun i => aget col i)

/-- `flags[split_nodes] |= bit`. -/
def markSplit (bit : Nat) (flags : Array Nat) (split : List Nat) : Array Nat :=
  split.foldl (fun f i => aset f i (aget f i ||| bit)) flags

/-- The flags column of the returned node table. -/
def outFlags (bit : Nat) (flags : Array Nat) (o : Out) : List Nat :=
  reorderCol (markSplit bit flags o.split) o.order

/-! ### Node metadata (`split_disjoint_nodes` + `_reorder_nodes`)

    extra_md = {}
    try:
        for u in split_nodes:
            md = ts.node(u).metadata; md["unsplit_node_id"] = int(u)
            extra_md[u] = tables.nodes.metadata_schema.validate_and_encode_row(md)
    except (TypeError, tskit.MetadataValidationError):
        logger.warning("Could not set 'unsplit_node_id' on node metadata")
    # _reorder_nodes(node_table, order, extra_md_dict):
    data = [node_table.metadata] + [bytes of v for v in extra_md_dict.values()]; md = np.concatenate(data)
    if len(md) == 0: all output rows empty                      # shortcut: no byte anywhere, old or new
    else: rows = unpack(old rows ++ new rows); out = [rows[d.get(i, i)] for i in order]   # d: key -> new row

`enc u` is the result of decoding row `u`, adding the key and re-encoding with the table's schema
(`none` = `TypeError` / `MetadataValidationError`); the codec itself is tskit's (a parameter here).  The
`try` encloses the whole loop: the first failure ends it and the entries made so far are kept. -/

/-- The loop that fills `extra_md` (an association list in insertion order). -/
def extraGo {β : Type} (enc : Nat → Option β) : List Nat → List (Nat × β) → List (Nat × β)
  | [], acc => acc
  | u :: us, acc =>
    match enc u with
    | none => acc
    | some b => extraGo enc us (acc ++ [(u, b)])

def extraMd {β : Type} (enc : Nat → Option β) (split : List Nat) : List (Nat × β) :=
  extraGo enc split []

/-- `extra_md_dict.get(i)`. -/
def lookupMd {β : Type} (extra : List (Nat × β)) (i : Nat) : Option β :=
  (extra.find? (fun kv => kv.1 == i)).map (·.2)

/-- The metadata column written by `_reorder_nodes`. `isEmpty b` = row `b` has no bytes, `empty` = the
empty row. -/
def outMetadata {β : Type} [Inhabited β] (isEmpty : β → Bool) (empty : β) (rows : Array β)
    (order : List Nat) (extra : List (Nat × β)) : List β :=
  if rows.toList.all isEmpty && extra.all (fun kv => isEmpty kv.2) then order.map (fun _ => empty)
  else order.map (fun i => (lookupMd extra i).getD (aget rows i))

/-! ### `_relabel_mutations_node` -/

/-- An edge as seen by the sweep when it is inserted: left coordinate and the *new* child/parent. -/
structure InsEv (α : Type) where
  pos : α
  child : Nat
  parent : Nat
deriving Repr, Inhabited

/-- `nodes_map[nodes_order[c]] = c; nodes_map[nodes_order[p]] = p`. -/
def insertEdge {α : Type} (order : Array Nat) (map : Array (Option Nat)) (ie : InsEv α) :
    Array (Option Nat) :=
  aset (aset map (aget order ie.child) (some ie.child)) (aget order ie.parent) (some ie.parent)

/-- `nodes_map[u] if nodes_map[u] != NULL else u`. -/
def assign (map : Array (Option Nat)) (u : Nat) : Nat :=
  match aget map u with
  | some v => v
  | none => u

/-- `min(right, x)` when the index is in range. -/
def minOpt {α : Type} [LT α] [DecidableLT α] (r : α) : Option α → α
  | none => r
  | some x => if x < r then x else r

structure SwSt (α : Type) where
  left : α
  ins : List (InsEv α)          -- insert_index[a:], with the data of the edges
  rem : List α                  -- remove_position[b:]
  muts : List (α × Nat)         -- (mutations_position[m:], mutations_node[m:])
  map : Array (Option Nat)      -- nodes_map
  out : List Nat                -- output[:m]

section Sweep
variable {α : Type} [LT α] [DecidableLT α] [DecidableEq α]

/-- One round of the outer `while left < sequence_length` loop. -/
def sweepRound (order : Array Nat) (seqlen : α) (st : SwSt α) : SwSt α :=
  let rem' := st.rem.dropWhile (fun r => decide (r = st.left))
  let insNow := st.ins.takeWhile (fun i => decide (i.pos = st.left))
  let ins' := st.ins.dropWhile (fun i => decide (i.pos = st.left))
  let map' := insNow.foldl (insertEdge order) st.map
  let right : α := minOpt (minOpt seqlen rem'.head?) (ins'.head?.map (·.pos))
  let mNow := st.muts.takeWhile (fun (m : α × Nat) => decide (m.1 < right))
  let muts' := st.muts.dropWhile (fun (m : α × Nat) => decide (m.1 < right))
  { left := right, ins := ins', rem := rem', muts := muts', map := map',
    out := st.out ++ mNow.map (fun m => assign map' m.2) }

/-- The outer loop, on fuel; `none` = fuel exhausted (cannot happen for sorted indexes). -/
def sweepGo (order : Array Nat) (seqlen : α) : Nat → SwSt α → Option (List Nat)
  | 0, _ => none
  | fuel + 1, st =>
    if st.left < seqlen then sweepGo order seqlen fuel (sweepRound order seqlen st)
    else some (st.out ++ st.muts.map (fun m => assign st.map m.2))

/-- `_relabel_mutations_node`.  `ins` = the edges in insertion order (left, new child, new parent),
`rem` = right coordinates in removal order, `muts` = (position, node) of each mutation in table
order, `numNodes = nodes_order.size`, `zero` = the initial `left = 0.0`. -/
def relabelMutations (zero : α) (order : Array Nat) (ins : List (InsEv α)) (rem : List α)
    (muts : List (α × Nat)) : Option (List Nat) :=
  match rem.getLast? with
  | none => some (muts.map (·.2))                         -- num_edges == 0
  | some seqlen =>
    sweepGo order seqlen (ins.length + rem.length + 2)
      { left := zero, ins := ins, rem := rem, muts := muts,
        map := Array.replicate order.size none, out := [] }

end Sweep

/-- Stable sort of the edge ids by left coordinate: one admissible `np.argsort(edges_left)`. -/
def argsortLeft {α : Type} [Inhabited α] [LT α] [DecidableLT α] (es : Array (SEdge α)) : List Nat :=
  (List.range es.size).mergeSort (fun a b => !decide ((aget es b).left < (aget es a).left))

end Tsdate.Split
