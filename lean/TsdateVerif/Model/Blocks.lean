/-
Model of the unphased-singleton machinery of tsdate (tsdate/phasing.py, tsdate/variational.py).

1.  `_block_singletons` (phasing.py) -- numba source, abbreviated:

        indexes_mutation = np.argsort(mutations_position)
        individuals_edges = full((num_individuals, 2), NULL);  individuals_position = full(num_individuals, nan)
        individuals_singletons = zeros(num_individuals);       individuals_block = full(num_edges, NULL)
        mutations_block = full(num_mutations, NULL);  num_blocks = 0; left = 0.0; a = b = d = 0
        while a < num_edges or b < num_edges:
            while b < num_edges and position_remove[b] == left:            # edges out
                e = indexes_remove[b]; c = edges_child[e]; i = nodes_individual[c]
                if i != NULL and individuals_unphased[i]:
                    u, v = individuals_edges[i];  assert u == e or v == e
                    s = u if v == e else v;       individuals_edges[i] = s, NULL
                    if s != NULL:                                         # flush block
                        blocks_order.append(individuals_block[i]); blocks_edges.extend([e, s])
                        blocks_singletons.append(individuals_singletons[i])
                        blocks_span.append(left - individuals_position[i])
                        individuals_position[i] = nan; individuals_block[i] = NULL; individuals_singletons[i] = 0.0
                b += 1
            while a < num_edges and position_insert[a] == left:            # edges in
                e = indexes_insert[a]; c = edges_child[e]; i = nodes_individual[c]
                if i != NULL and individuals_unphased[i]:
                    u, v = individuals_edges[i];  assert u == NULL or v == NULL
                    individuals_edges[i] = [e, max(u, v)];  individuals_position[i] = left
                    if individuals_block[i] == NULL: individuals_block[i] = num_blocks; num_blocks += 1
                a += 1
            right = sequence_length
            if b < num_edges: right = min(right, position_remove[b])
            if a < num_edges: right = min(right, position_insert[a])
            left = right
            while d < num_mutations and position_mutation[d] < right:      # mutations
                m = indexes_mutation[d]; c = mutations_node[m]; i = nodes_individual[c]
                if i != NULL and individuals_unphased[i]:
                    mutations_block[m] = individuals_block[i]; individuals_singletons[i] += 1.0
                d += 1
        assert num_blocks == blocks_edges.shape[0] == blocks_stats.shape[0]
        blocks_order = np.argsort(blocks_order); blocks_edges = blocks_edges[blocks_order]; blocks_stats = ...
        return blocks_stats, blocks_edges, mutations_block

    Model: `tskit.NULL` and NaN are `none`.  Every `assert` that fails makes the model return `none`
    (the driver prints `bad-op`; numba raises AssertionError).  The three loop bodies are the pure functions
    `removeEdge`, `insertEdge`, `mutStep`; the control (two-pointer sweep) is `removeLoop`, `insertLoop`,
    `mutLoop`, `outer`, each structurally recursive on a fuel that real inputs never exhaust (exhaustion is
    `none`).  `np.argsort(mutations_position)` is a stable insertion sort (ties are processed in the same
    batch, so tie order cannot influence the result).  The final `argsort(blocks_order)` is a lookup of the
    flushed row with id k for k = 0 … num_blocks-1 (`none` if some id is missing).
    `individuals_block` is allocated with `num_edges` entries by the code although it is indexed by individual:
    `wellFormed` therefore demands num_individuals ≤ num_edges (true of every input `block_singletons` accepts
    whose individuals all have edges; numba would read out of bounds otherwise).

2.  `reallocate_unphased` (phasing.py):

        edges_unphased[blocks_edges[:, 0]] = True; edges_unphased[blocks_edges[:, 1]] = True
        num_unphased = np.sum(edges_likelihood[edges_unphased, 0]);  edges_likelihood[edges_unphased, 0] = 0.0
        for m, b in enumerate(mutations_block):
            if b == NULL: continue
            i, j = blocks_edges[b];  assert NULL < i < num_edges ...;
            if np.isnan(mutations_phase[m]): continue
            assert 0.0 <= mutations_phase[m] <= 1.0
            edges_likelihood[i, 0] += mutations_phase[m];  edges_likelihood[j, 0] += 1 - mutations_phase[m]
        assert np.isclose(num_unphased, np.sum(edges_likelihood[edges_unphased, 0]))

    Only column 0 (the mutation counts) is touched, so the model works on that column.  The closing
    `isclose` assertion is the parameter `close`.

3.  The tail of `ExpectationPropagation.infer` (variational.py):

        singletons = mutation_blocks != NULL;  switched_blocks = mutation_blocks[singletons]
        switched_edges = np.where(mutation_phase[singletons] < 0.5, block_edges[switched_blocks, 1],
                                                                    block_edges[switched_blocks, 0])
        mutation_edges[singletons] = switched_edges;  mutation_nodes[singletons] = edge_children[switched_edges]
        if rescale_intervals > 0 and rescale_iterations > 0: self.rescale(...)   # calls reallocate_unphased
        switched = mutation_phase < 0.5;  mutation_phase[switched] = 1 - mutation_phase[switched]

    `inferTail` is this order (since fix 9280c6b); `inferTailOld` is the order before it (flip, then rescale).

Generic in the number type (core operator classes only): runs at `Float` (bit-exact against numba) and at
`Rat`, proved over ordered fields.
-/
import TsdateVerif.Model.Arr

namespace Tsdate.Blocks

/-! ## 1. `_block_singletons` -/

/-- The arguments of `_block_singletons` that do not concern mutations (`edges_parent` is passed by the
code but never read). -/
structure EdgeInput (α : Type) where
  unphased : Array Bool            -- individuals_unphased
  nodeInd : Array (Option Nat)     -- nodes_individual (NULL = none)
  child : Array Nat                -- edges_child
  left : Array α                   -- edges_left
  right : Array α                  -- edges_right
  insOrder : Array Nat             -- indexes_insert
  remOrder : Array Nat             -- indexes_remove
  seqLen : α                       -- sequence_length

/-- All arguments of `_block_singletons`. -/
structure Input (α : Type) extends EdgeInput α where
  mutNode : Array Nat              -- mutations_node
  mutPos : Array α                 -- mutations_position

/-- One flushed block: `blocks_order`, `blocks_edges` (two entries), `blocks_singletons`, `blocks_span`. -/
structure Flushed (α : Type) where
  id : Option Nat
  e0 : Nat
  e1 : Nat
  cnt : Nat
  span : Option α

/-- The mutable arrays of the sweep. -/
structure Data (α : Type) where
  iedges : Array (Option Nat × Option Nat)   -- individuals_edges
  ipos : Array (Option α)                    -- individuals_position (nan = none)
  icnt : Array Nat                           -- individuals_singletons
  iblock : Array (Option Nat)                -- individuals_block
  mblock : Array (Option Nat)                -- mutations_block
  flushed : List (Flushed α)                 -- rows appended to blocks_* so far, oldest first
  numBlocks : Nat

/-- Returned triple: `blocks_stats` rows (singleton count, span), `blocks_edges` rows, `mutations_block`. -/
structure Output (α : Type) where
  stats : List (Nat × Option α)
  edges : List (Nat × Nat)
  mblock : Array (Option Nat)

/-- `i = nodes_individual[c]; if i != NULL and individuals_unphased[i]` — the unphased individual of node `c`. -/
def unphInd (unphased : Array Bool) (nodeInd : Array (Option Nat)) (c : Nat) : Option Nat :=
  match aget nodeInd c with
  | some i => if aget unphased i then some i else none
  | none => none

/-- `max(u, v)` on edge ids where NULL is -1. -/
def omax : Option Nat → Option Nat → Option Nat
  | some a, some b => some (max a b)
  | some a, none => some a
  | none, b => b

section Sweep
variable {α : Type}

def Data.init (nInd nMut : Nat) : Data α :=
  { iedges := Array.replicate nInd (none, none), ipos := Array.replicate nInd none,
    icnt := Array.replicate nInd 0, iblock := Array.replicate nInd none,
    mblock := Array.replicate nMut none, flushed := [], numBlocks := 0 }

/-- Body of the "edges out" loop for edge `e` whose child belongs to `oi`. -/
def removeEdge [Sub α] (oi : Option Nat) (D : Data α) (e : Nat) (left : α) : Option (Data α) :=
  match oi with
  | none => some D
  | some i =>
    let uv := aget D.iedges i
    if uv.1 = some e ∨ uv.2 = some e then
      let s := if uv.2 = some e then uv.1 else uv.2
      match s with
      | none => some { D with iedges := aset D.iedges i (none, none) }
      | some s' =>
        some { D with
          iedges := aset D.iedges i (some s', none)
          flushed := D.flushed ++ [{ id := aget D.iblock i, e0 := e, e1 := s', cnt := aget D.icnt i,
                                     span := (aget D.ipos i).map (fun p => left - p) }]
          ipos := aset D.ipos i none
          iblock := aset D.iblock i none
          icnt := aset D.icnt i 0 }
    else none

/-- Body of the "edges in" loop. -/
def insertEdge (oi : Option Nat) (D : Data α) (e : Nat) (left : α) : Option (Data α) :=
  match oi with
  | none => some D
  | some i =>
    let uv := aget D.iedges i
    if uv.1 = none ∨ uv.2 = none then
      let D1 : Data α := { D with iedges := aset D.iedges i (some e, omax uv.1 uv.2),
                                  ipos := aset D.ipos i (some left) }
      if aget D.iblock i = none then
        some { D1 with iblock := aset D.iblock i (some D.numBlocks), numBlocks := D.numBlocks + 1 }
      else some D1
    else none

/-- Body of the mutation loop for mutation `m` whose node belongs to `oi`. -/
def mutStep (oi : Option Nat) (D : Data α) (m : Nat) : Data α :=
  match oi with
  | none => D
  | some i => { D with mblock := aset D.mblock m (aget D.iblock i), icnt := aset D.icnt i (aget D.icnt i + 1) }

variable [Inhabited α] [Sub α] [BEq α] [LT α] [DecidableLT α]

/-- Unphased individual of the child of edge `e`. -/
def edgeInd (inp : EdgeInput α) (e : Nat) : Option Nat := unphInd inp.unphased inp.nodeInd (aget inp.child e)

/-- Unphased individual of the node of mutation `m`. -/
def mutInd (inp : Input α) (m : Nat) : Option Nat := unphInd inp.unphased inp.nodeInd (aget inp.mutNode m)

def posRemove (inp : EdgeInput α) (b : Nat) : α := aget inp.right (aget inp.remOrder b)
def posInsert (inp : EdgeInput α) (a : Nat) : α := aget inp.left (aget inp.insOrder a)

/-- `while b < num_edges and position_remove[b] == left`. -/
def removeLoop (inp : EdgeInput α) (left : α) : Nat → Nat → Data α → Option (Nat × Data α)
  | 0, _, _ => none
  | fuel + 1, b, D =>
    if b < inp.child.size ∧ (posRemove inp b == left) = true then
      match removeEdge (edgeInd inp (aget inp.remOrder b)) D (aget inp.remOrder b) left with
      | none => none
      | some D' => removeLoop inp left fuel (b + 1) D'
    else some (b, D)

/-- `while a < num_edges and position_insert[a] == left`. -/
def insertLoop (inp : EdgeInput α) (left : α) : Nat → Nat → Data α → Option (Nat × Data α)
  | 0, _, _ => none
  | fuel + 1, a, D =>
    if a < inp.child.size ∧ (posInsert inp a == left) = true then
      match insertEdge (edgeInd inp (aget inp.insOrder a)) D (aget inp.insOrder a) left with
      | none => none
      | some D' => insertLoop inp left fuel (a + 1) D'
    else some (a, D)

/-- Python's `min(x, y)` (`y if y < x else x`). -/
def pmin (x y : α) : α := if y < x then y else x

/-- The next breakpoint. -/
def nextRight (inp : EdgeInput α) (a b : Nat) : α :=
  let r0 := inp.seqLen
  let r1 := if b < inp.child.size then pmin r0 (posRemove inp b) else r0
  if a < inp.child.size then pmin r1 (posInsert inp a) else r1

/-- `while d < num_mutations and position_mutation[d] < right` over the sorted mutation list `order`. -/
def mutLoop (mutPos : Array α) (mi : Nat → Option Nat) (right : α) : List Nat → Data α → List Nat × Data α
  | [], D => ([], D)
  | m :: rest, D =>
    if aget mutPos m < right then mutLoop mutPos mi right rest (mutStep (mi m) D m)
    else (m :: rest, D)

/-- The outer `while a < num_edges or b < num_edges`. -/
def outer (inp : EdgeInput α) (mutPos : Array α) (mi : Nat → Option Nat) : Nat → Nat → Nat → List Nat → α → Data α → Option (Data α)
  | 0, _, _, _, _, _ => none
  | fuel + 1, a, b, order, left, D =>
    if a < inp.child.size ∨ b < inp.child.size then
      match removeLoop inp left (inp.child.size + 1) b D with
      | none => none
      | some (b', D1) =>
        match insertLoop inp left (inp.child.size + 1) a D1 with
        | none => none
        | some (a', D2) =>
          let right := nextRight inp a' b'
          let r := mutLoop mutPos mi right order D2
          outer inp mutPos mi fuel a' b' r.1 right r.2
    else some D

/-- Stable insertion sort of mutation ids by position (`np.argsort(mutations_position)`). -/
def insertBy (pos : Array α) (x : Nat) : List Nat → List Nat
  | [] => [x]
  | y :: ys => if aget pos y < aget pos x then y :: insertBy pos x ys else x :: y :: ys

def sortByPos (pos : Array α) (n : Nat) : List Nat := (List.range n).foldr (insertBy pos) []

/-- Rows in block-id order: row `k` is the flushed entry whose id is `k`. -/
def lookupRows (fl : List (Flushed α)) : List Nat → Option (List (Flushed α))
  | [] => some []
  | k :: ks =>
    match fl.find? (fun f => f.id == some k) with
    | none => none
    | some f => (lookupRows fl ks).map (fun rest => f :: rest)

/-- The closing assertion and the final re-ordering. -/
def finish (D : Data α) : Option (Output α) :=
  if D.flushed.length = D.numBlocks then
    (lookupRows D.flushed (List.range D.numBlocks)).map fun rows =>
      { stats := rows.map (fun f => (f.cnt, f.span)), edges := rows.map (fun f => (f.e0, f.e1)),
        mblock := D.mblock }
  else none

/-- Array sizes agree and every index stored in the input is in range (tskit guarantees this; the numba
kernel does not check it), and `individuals_block` (allocated with `num_edges` entries) is long enough. -/
def wellFormed (inp : Input α) : Bool :=
  let nE := inp.child.size
  let nN := inp.nodeInd.size
  let nI := inp.unphased.size
  inp.left.size == nE && inp.right.size == nE && inp.insOrder.size == nE && inp.remOrder.size == nE
  && inp.mutPos.size == inp.mutNode.size
  && inp.child.all (· < nN) && inp.mutNode.all (· < nN)
  && inp.insOrder.all (· < nE) && inp.remOrder.all (· < nE)
  && inp.nodeInd.all (fun o => match o with | some i => decide (i < nI) | none => true)
  && decide (nI ≤ nE)

/-- The sweep.  It reads `mutations_node` only through `mi`, the unphased-individual-of-mutation map. -/
def sweepCore (inp : EdgeInput α) (mutPos : Array α) (nMut : Nat) (mi : Nat → Option Nat) (zero : α) :
    Option (Data α) :=
  outer inp mutPos mi (2 * inp.child.size + 2) 0 0 (sortByPos mutPos nMut) zero
    (Data.init inp.unphased.size nMut)

def sweep (inp : Input α) (zero : α) : Option (Data α) :=
  sweepCore inp.toEdgeInput inp.mutPos inp.mutNode.size (mutInd inp) zero

/-- `_block_singletons`.  `zero` is the literal `0.0` the sweep starts from. -/
def blockSingletons (inp : Input α) (zero : α) : Option (Output α) :=
  if wellFormed inp then
    match sweep inp zero with
    | none => none
    | some D => finish D
  else none

end Sweep

/-! ## 2. `reallocate_unphased` -/

section Realloc
variable {α : Type} [Inhabited α] [Add α] [Sub α] [OfNat α 0] [OfNat α 1] [LE α] [DecidableLE α]

/-- `edges_likelihood[edges_unphased, 0] = 0.0`. -/
def zeroBlockEdges (lik : Array α) (bedges : List (Nat × Nat)) : Array α :=
  bedges.foldl (fun l ij => aset (aset l ij.1 0) ij.2 0) lik

/-- One iteration of `for m, b in enumerate(mutations_block)`; `x = (mutations_block[m], mutations_phase[m])`. -/
def creditStep (bedges : Array (Nat × Nat)) (l : Array α) (x : Option Nat × Option α) : Option (Array α) :=
  match x.1 with
  | none => some l
  | some b =>
    if b < bedges.size then
      let ij := aget bedges b
      match x.2 with
      | none => some l
      | some φ =>
        if 0 ≤ φ ∧ φ ≤ 1 then
          let l1 := aset l ij.1 (aget l ij.1 + φ)
          some (aset l1 ij.2 (aget l1 ij.2 + (1 - φ)))
        else none
    else none

def creditLoop (bedges : Array (Nat × Nat)) : Array α → List (Option Nat × Option α) → Option (Array α)
  | l, [] => some l
  | l, x :: xs =>
    match creditStep bedges l x with
    | none => none
    | some l' => creditLoop bedges l' xs

/-- Sum of the counts on the block edges (each edge once), in edge order. -/
def sumUnphased (lik : Array α) (bedges : List (Nat × Nat)) : α :=
  (List.range lik.size).foldl
    (fun acc e => if bedges.any (fun ij => ij.1 == e || ij.2 == e) then acc + aget lik e else acc) 0

/-- `reallocate_unphased` on the count column.  `close` is the closing `np.isclose` assertion. -/
def reallocate (close : α → α → Bool) (lik : Array α) (mblock : List (Option Nat))
    (phase : List (Option α)) (bedges : Array (Nat × Nat)) : Option (Array α) :=
  if mblock.length = phase.length ∧ bedges.all (fun ij => ij.1 < lik.size && ij.2 < lik.size) then
    match creditLoop bedges (zeroBlockEdges lik bedges.toList) (mblock.zip phase) with
    | none => none
    | some out =>
      if close (sumUnphased lik bedges.toList) (sumUnphased out bedges.toList) then some out else none
  else none

end Realloc

/-! ## 3. the tail of `infer` -/

section Tail
variable {α : Type} [Inhabited α] [Add α] [Sub α] [OfNat α 0] [OfNat α 1] [LE α] [DecidableLE α]
  [LT α] [DecidableLT α]

/-- `np.where(phase < 0.5, block_edges[b, 1], block_edges[b, 0])` (a NaN phase compares false). -/
def placedEdge (half : α) (ij : Nat × Nat) (φ : Option α) : Nat :=
  match φ with
  | some p => if p < half then ij.2 else ij.1
  | none => ij.1

/-- `mutation_phase[switched] = 1 - mutation_phase[switched]` for one entry. -/
def flipPhase (half : α) (φ : Option α) : Option α :=
  match φ with
  | some p => if p < half then some (1 - p) else some p
  | none => none

/-- State touched by the tail of `infer`. -/
structure Fit (α : Type) where
  mutEdge : List (Option Nat)   -- mutation_edges
  mutNode : List Nat            -- mutation_nodes
  phase : List (Option α)       -- mutation_phase
  lik : Array α                 -- count column of the likelihoods handed to the rescaling

/-- New (edge, node) of one mutation. -/
def placeOne (half : α) (child : Array Nat) (bedges : Array (Nat × Nat))
    (b : Option Nat) (φ : Option α) (old : Option Nat × Nat) : Option Nat × Nat :=
  match b with
  | none => old
  | some b => let e := placedEdge half (aget bedges b) φ; (some e, aget child e)

def zip3 {β γ δ : Type} : List β → List γ → List δ → List (β × γ × δ)
  | b :: bs, c :: cs, d :: ds => (b, c, d) :: zip3 bs cs ds
  | _, _, _ => []

/-- `mutation_edges[singletons] = …; mutation_nodes[singletons] = …`. -/
def place (half : α) (child : Array Nat) (bedges : Array (Nat × Nat)) (mblock : List (Option Nat))
    (f : Fit α) : Fit α :=
  let r := (zip3 mblock f.phase (f.mutEdge.zip f.mutNode)).map
    (fun x => placeOne half child bedges x.1 x.2.1 x.2.2)
  { f with mutEdge := r.map Prod.fst, mutNode := r.map Prod.snd }

/-- The tail of `infer` as it is now: place, rescale (reallocate), flip. -/
def inferTail (close : α → α → Bool) (half : α) (rescale : Bool) (child : Array Nat)
    (bedges : Array (Nat × Nat)) (mblock : List (Option Nat)) (f : Fit α) : Option (Fit α) :=
  let f1 := place half child bedges mblock f
  let lik? := if rescale then reallocate close f1.lik mblock f1.phase bedges else some f1.lik
  lik?.map fun lik => { f1 with lik := lik, phase := f1.phase.map (flipPhase half) }

/-- The order before fix 9280c6b: place, flip, rescale. -/
def inferTailOld (close : α → α → Bool) (half : α) (rescale : Bool) (child : Array Nat)
    (bedges : Array (Nat × Nat)) (mblock : List (Option Nat)) (f : Fit α) : Option (Fit α) :=
  let f1 := place half child bedges mblock f
  let f2 : Fit α := { f1 with phase := f1.phase.map (flipPhase half) }
  let lik? := if rescale then reallocate close f2.lik mblock f2.phase bedges else some f2.lik
  lik?.map fun lik => { f2 with lik := lik }

end Tail

end Tsdate.Blocks
