/-
Hand-written models of the *looping / recursive* special-function helpers that the straight-line translator T1
does not cover (core Lean only; generic carrier; namespace `Tsdate.Kernels`).

    tsdate/hypergeo.py  _digamma, _trigamma           (recursion x -> x + 1 up to a cut-off, then an asymptotic series)
    tsdate/approx.py    approximate_gamma_kl          (Newton iteration on the shape)
    tsdate/approx.py    approximate_gamma_iqr         (Newton iteration on the shape, quantile matching, shape cap)

Python being modelled (abbreviated):

    def _digamma(x):
        if x <= 0.0:  return _digamma(1 - x) - np.pi / np.tan(np.pi * x)      # NOT modelled (tsdate calls it on x > 0)
        if x <= 1e-5: return -np.euler_gamma - (1 / x)
        if x < 8.5:   return _digamma(1 + x) - 1 / x
        xpm2 = 1 / x**2
        return np.log(x) - 0.5 / x - c1 * xpm2 + c2 * xpm2**2 - ... + c6 * xpm2**6

    def _trigamma(x):
        if x <= 0.0:  ... reflection, NOT modelled
        if x <= 1e-4: return 1 / x**2
        if x < 5:     return _trigamma(1 + x) + 1 / x**2
        xpm1 = 1 / x; xpm2 = 1 / x**2
        return xpm1 * (1.0 + 0.5 * xpm1 + c1 * np.power(xpm2, 1) - ... + c7 * np.power(xpm2, 7))

    def approximate_gamma_kl(x, logx):
        if x <= 0.0 or np.isinf(logx): raise
        if not np.log(x) > logx: raise
        alpha = 0.5 / (np.log(x) - logx)
        if 1.0 / alpha < 1e-4: return alpha - 1.0, alpha / x
        itt = 0; delta = np.inf
        while np.abs(delta) > np.abs(alpha) * _KLMIN_RELTOL:
            if itt > _KLMIN_MAXITT: raise
            delta = _digamma(alpha) - np.log(alpha) + np.log(x) - logx
            delta /= _trigamma(alpha) - 1 / alpha
            alpha -= delta; itt += 1
        if not np.isfinite(alpha) or alpha <= 0: raise
        return alpha - 1.0, alpha / x

    def approximate_gamma_iqr(q1, q2, x1, x2, max_shape):
        def upper_bound(q, x): return max_shape - 1, _gammainc_inv(max_shape, q) / x
        if x2 == x1: return upper_bound(q1, x1)
        if not (q2 > q1 and x2 > x1): raise
        alpha = log(q2 / q1) / log(x2 / x1)
        if alpha > max_shape: return upper_bound(q1, x1)
        delta = inf; itt = 0
        while abs(delta) > abs(alpha) * _KLMIN_RELTOL:
            if itt > _KLMIN_MAXITT: raise
            y1 = _gammainc_inv(alpha, q1); y2 = _gammainc_inv(alpha, q2)
            obj = y2 / y1 - x2 / x1
            inv_1 = -exp(y1 + log(y1) * (1 - alpha) + lgamma(alpha)); inv_2 = (same with y2)
            gra_1 = _gammainc_der(alpha, y1) * inv_1; gra_2 = _gammainc_der(alpha, y2) * inv_2
            gra = (gra_2 * y1 - gra_1 * y2) / y1**2
            delta = -obj / gra; alpha += delta; itt += 1
        if not alpha > 0: raise
        if alpha > max_shape: return upper_bound(q1, x1)
        return alpha - 1, _gammainc_inv(alpha, q1) / x1

The literal cut-offs, coefficients and tolerances are *parameters* here; the driver and the theorems instantiate
them with the values T2 extracts into `Gen/Consts.lean`.  `delta = inf` before the first iteration is modelled
by `none`.
-/
import TsdateVerif.Model.KernelsBase

namespace Tsdate.Kernels

section
variable {α : Type} [Add α] [Sub α] [Mul α] [Div α] [Neg α] [LT α] [LE α]
  [DecidableLT α] [DecidableLE α] [NatCast α]

/-- `x ** k` for a literal natural `k ≥ 1` as numba compiles it: square-and-multiply
(`r = 1; while k: if k & 1: r *= x; k >>= 1; x *= x`; the initial `1 *` is exact and omitted). -/
def powSM (x : α) (k : Nat) : α :=
  let rec go (fuel : Nat) (k : Nat) (cur : α) (acc : Option α) : α :=
    match fuel with
    | 0 => acc.getD ((1 : Nat) : α)
    | fuel + 1 =>
      if k = 0 then acc.getD ((1 : Nat) : α) else
      let acc' := if k % 2 = 1 then some (match acc with | none => cur | some r => r * cur) else acc
      if k / 2 = 0 then acc'.getD ((1 : Nat) : α) else go fuel (k / 2) (cur * cur) acc'
  go 64 k x none

/-- Σ_{k ≥ 1} c_k p^k accumulated left to right onto `acc` (`acc + c_1 * p**1 + c_2 * p**2 + ...`);
`pw p k` is the power function used by the code (`**` resp. `np.power`). -/
def seriesFrom (pw : α → Nat → α) (p : α) : Nat → List α → α → α
  | _, [], acc => acc
  | k, c :: cs, acc => seriesFrom pw p (k + 1) cs (acc + c * pw p k)

/-- Literals of `_digamma`. -/
structure DigammaConsts (α : Type) where
  c0 : α            -- reflection below (`x <= c0`)
  c1 : α            -- small-x form `x <= c1`
  c2 : α            -- recurrence while `x < c2`
  eulerGamma : α
  inv : α           -- coefficient of 1/x  (-0.5)
  cs : List α       -- signed coefficients of xpm2^k, k = 1..

/-- The asymptotic-series leaf of `_digamma`. -/
def digammaSeries (F : SpecFns α) (C : DigammaConsts α) (x : α) : α :=
  let xpm2 := ((1 : Nat) : α) / (x * x)
  seriesFrom powSM xpm2 1 C.cs (F.log x + C.inv / x)

/-- `_digamma` on `x > c0 = 0` (`none`: reflection branch, not modelled, or out of fuel). -/
def digamma (F : SpecFns α) (C : DigammaConsts α) : Nat → α → Option α
  | 0, _ => none
  | fuel + 1, x =>
    if x ≤ C.c0 then none
    else if x ≤ C.c1 then some (-C.eulerGamma - ((1 : Nat) : α) / x)
    else if x < C.c2 then (digamma F C fuel (((1 : Nat) : α) + x)).map (fun v => v - ((1 : Nat) : α) / x)
    else some (digammaSeries F C x)

/-- Literals of `_trigamma`. -/
structure TrigammaConsts (α : Type) where
  c0 : α
  c1 : α
  c2 : α
  lead : α          -- 1.0
  half : α          -- 0.5
  cs : List α       -- signed coefficients of xpm2^k, k = 1..

def trigammaSeries (pw : α → Nat → α) (C : TrigammaConsts α) (x : α) : α :=
  let xpm1 := ((1 : Nat) : α) / x
  let xpm2 := ((1 : Nat) : α) / (x * x)
  xpm1 * seriesFrom pw xpm2 1 C.cs (C.lead + C.half * xpm1)

/-- `_trigamma` on `x > 0`. -/
def trigamma (pw : α → Nat → α) (C : TrigammaConsts α) : Nat → α → Option α
  | 0, _ => none
  | fuel + 1, x =>
    if x ≤ C.c0 then none
    else if x ≤ C.c1 then some (((1 : Nat) : α) / (x * x))
    else if x < C.c2 then (trigamma pw C fuel (((1 : Nat) : α) + x)).map (fun v => v + ((1 : Nat) : α) / (x * x))
    else some (trigammaSeries pw C x)

/-- Outcome of a gamma fit: natural parameters `(shape - 1, rate)` or the reason of the
`KLMinimizationFailedError`. -/
inductive Fit (α : Type) where
  | ok (shape1 rate : α)
  | fail (why : String)

/-- What `approximate_gamma_kl` calls. -/
structure KLFns (α : Type) where
  log : α → α
  digamma : α → α
  trigamma : α → α
  isFinite : α → Bool
  isInf : α → Bool
  reltol : α        -- _KLMIN_RELTOL
  maxitt : Nat      -- _KLMIN_MAXITT
  asym : α          -- 1e-4

/-- One Newton step of the KL fit at `alpha`. -/
def klStep (K : KLFns α) (x logx alpha : α) : α :=
  (K.digamma alpha - K.log alpha + K.log x - logx) / (K.trigamma alpha - ((1 : Nat) : α) / alpha)

/-- The `while` loop of `approximate_gamma_kl`; `delta = none` is the initial `inf`. -/
def klLoop (K : KLFns α) (x logx : α) : Nat → Nat → α → Option α → Fit α
  | 0, _, _, _ => .fail "out of fuel"
  | fuel + 1, itt, alpha, delta =>
    let go : Bool := match delta with
      | none => true
      | some d => decide (pyabs d > pyabs alpha * K.reltol)
    if go then
      if itt > K.maxitt then .fail "Maximum iterations reached in KL minimization"
      else
        let d := klStep K x logx alpha
        klLoop K x logx fuel (itt + 1) (alpha - d) (some d)
    else if !(K.isFinite alpha) || decide (alpha ≤ ((0 : Nat) : α)) then
      .fail "Invalid shape parameter in KL minimization"
    else .ok (alpha - ((1 : Nat) : α)) (alpha / x)

/-- `approximate_gamma_kl(x, logx)`. -/
def approxGammaKL (K : KLFns α) (x logx : α) : Fit α :=
  if decide (x ≤ ((0 : Nat) : α)) || K.isInf logx then .fail "Nonpositive or nonfinite moments"
  else if !(decide (K.log x > logx)) then .fail "log E[t] <= E[log t] violates Jensen's inequality"
  else
    let alpha := ((1 : Nat) : α) / ((2 : Nat) : α) / (K.log x - logx)
    if ((1 : Nat) : α) / alpha < K.asym then .ok (alpha - ((1 : Nat) : α)) (alpha / x)
    else klLoop K x logx (K.maxitt + 3) 0 alpha none

/-- What `approximate_gamma_iqr` calls. -/
structure IQRFns (α : Type) where
  log : α → α
  exp : α → α
  lgamma : α → α
  gammaincInv : α → α → α     -- scipy.special.gammaincinv(a, q)
  gammaincDer : α → α → α     -- hypergeo._gammainc_der(p, x)
  reltol : α
  maxitt : Nat

/-- One Newton step (the value added to `alpha`). -/
def iqrStep (Q : IQRFns α) (q1 q2 x1 x2 alpha : α) : α :=
  let y1 := Q.gammaincInv alpha q1
  let y2 := Q.gammaincInv alpha q2
  let obj := y2 / y1 - x2 / x1
  let inv1 := -Q.exp (y1 + Q.log y1 * (((1 : Nat) : α) - alpha) + Q.lgamma alpha)
  let inv2 := -Q.exp (y2 + Q.log y2 * (((1 : Nat) : α) - alpha) + Q.lgamma alpha)
  let gra1 := Q.gammaincDer alpha y1 * inv1
  let gra2 := Q.gammaincDer alpha y2 * inv2
  let gra := (gra2 * y1 - gra1 * y2) / (y1 * y1)
  (-obj) / gra

/-- `upper_bound(q, x)`: the capped fit. -/
def iqrCap (Q : IQRFns α) (maxShape q x : α) : Fit α :=
  .ok (maxShape - ((1 : Nat) : α)) (Q.gammaincInv maxShape q / x)

def iqrLoop (Q : IQRFns α) (q1 q2 x1 x2 maxShape : α) : Nat → Nat → α → Option α → Fit α
  | 0, _, _, _ => .fail "out of fuel"
  | fuel + 1, itt, alpha, delta =>
    let go : Bool := match delta with
      | none => true
      | some d => decide (pyabs d > pyabs alpha * Q.reltol)
    if go then
      if itt > Q.maxitt then .fail "Maximum iterations reached in quantile matching"
      else
        let d := iqrStep Q q1 q2 x1 x2 alpha
        iqrLoop Q q1 q2 x1 x2 maxShape fuel (itt + 1) (alpha + d) (some d)
    else if !(decide (alpha > ((0 : Nat) : α))) then .fail "Negative shape parameter"
    else if alpha > maxShape then iqrCap Q maxShape q1 x1
    else .ok (alpha - ((1 : Nat) : α)) (Q.gammaincInv alpha q1 / x1)

/-- `approximate_gamma_iqr(q1, q2, x1, x2, max_shape)`. -/
def approxGammaIQR (Q : IQRFns α) (q1 q2 x1 x2 maxShape : α) : Fit α :=
  if feq x2 x1 then iqrCap Q maxShape q1 x1
  else if !(decide (q2 > q1) && decide (x2 > x1)) then .fail "Quantiles must be sorted"
  else
    let alpha := Q.log (q2 / q1) / Q.log (x2 / x1)
    if alpha > maxShape then iqrCap Q maxShape q1 x1
    else iqrLoop Q q1 q2 x1 x2 maxShape (Q.maxitt + 3) 0 alpha none

end

end Tsdate.Kernels
