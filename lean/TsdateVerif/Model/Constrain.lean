/-
Model of `tsdate.util._constrain_ages` (tsdate/util.py).

Python (numba) source, abbreviated:

    nodes_time = nodes_time.copy(); edges_cavity = zeros((E, 2))
    for _ in range(max_iterations):
        if all(nodes_time[parent] - nodes_time[child] > epsilon): return nodes_time
        for e in range(E):
            p, c = parent[e], child[e]
            nodes_time[c] -= cavity[e,0]; nodes_time[p] -= cavity[e,1]
            adjustment = nodes_time[c] - nodes_time[p]
            cavity[e,:] = 0
            if adjustment > 0:
                (both free)      cavity[e] = (-adjustment/2, adjustment/2)
                (child fixed)    cavity[e] = (0, adjustment)
                (parent fixed)   cavity[e] = (-adjustment, 0)
            nodes_time[c] += cavity[e,0]; nodes_time[p] += cavity[e,1]
    for e in range(E):                       # forced pass
        if nodes_time[c] + epsilon >= nodes_time[p]:
            nodes_time[p] = max(nodes_time[c] + epsilon, np.nextafter(nodes_time[c], np.inf))
    return nodes_time

(The `max(..., nextafter)` is the repair of finding F1: before it the forced pass wrote
`nodes_time[c] + epsilon`, which equals `nodes_time[c]` once times exceed ~2e8 with the default
epsilon.)  In the model the test uses `ftest x` (the rounded `x + epsilon`) and the assignment uses
`fadd x`; before the fix both were the same function.

The model is generic in the number type: only core operator classes are used, so the same
definitions run at `Float` (bit-exact correspondence with numba), at `Rat`, and are proved over
any linear order / ordered field.
-/
import TsdateVerif.Model.Arr

namespace Tsdate

structure Edge where
  p : Nat
  c : Nat
deriving DecidableEq, Repr, Inhabited

section Forced
variable {α : Type} [Inhabited α] [LE α] [DecidableLE α]

/-- One step of the forced pass: `if t[c] + eps >= t[p]: t[p] = max(t[c] + eps, nextafter(t[c]))`.
`ftest x` is the rounded `x + eps` of the test, `fadd x` the value assigned. -/
def forcedStep (ftest fadd : α → α) (t : Array α) (e : Edge) : Array α :=
  if aget t e.p ≤ ftest (aget t e.c) then aset t e.p (fadd (aget t e.c)) else t

/-- The forced pass over the edge table, in table order. -/
def forced (ftest fadd : α → α) (t : Array α) (es : List Edge) : Array α :=
  es.foldl (forcedStep ftest fadd) t

end Forced

section LS
variable {α : Type} [Inhabited α] [Add α] [Sub α] [Neg α] [Div α] [OfNat α 0] [OfNat α 2]
  [LT α] [DecidableLT α]

/-- State of the alternating-projection phase: times and the per-edge cavities. -/
structure LSState (α : Type) where
  t : Array α
  cav : Array (α × α)

/-- The new cavity pair of an edge whose (cavity-free) child-minus-parent gap is `adj`. -/
def newCav (fc fp : Bool) (adj : α) : α × α :=
  if 0 < adj then
    if !fc && !fp then (-adj / 2, adj / 2)
    else if fc && !fp then (0, adj)
    else if !fc && fp then (-adj, 0)
    else (0, 0)        -- both fixed: the real code asserts this cannot happen
  else (0, 0)

/-- Inner-loop body for edge number `i` (`e = es[i]`). -/
def lsEdge (fixed : Array Bool) (s : LSState α) (i : Nat) (e : Edge) : LSState α :=
  let cv := aget s.cav i
  let t1 := aset s.t e.c (aget s.t e.c - cv.1)
  let t2 := aset t1 e.p (aget t1 e.p - cv.2)
  let cv' := newCav (aget fixed e.c) (aget fixed e.p) (aget t2 e.c - aget t2 e.p)
  let t3 := aset t2 e.c (aget t2 e.c + cv'.1)
  let t4 := aset t3 e.p (aget t3 e.p + cv'.2)
  { t := t4, cav := aset s.cav i cv' }

/-- One sweep over the edges `es`, whose first element has edge number `i`. -/
def lsSweepFrom (fixed : Array Bool) : Nat → List Edge → LSState α → LSState α
  | _, [], s => s
  | i, e :: es, s => lsSweepFrom fixed (i + 1) es (lsEdge fixed s i e)

/-- One sweep over all edges. -/
def lsSweep (fixed : Array Bool) (es : List Edge) (s : LSState α) : LSState α :=
  lsSweepFrom fixed 0 es s

/-- Early-exit test `all(t[p] - t[c] > eps)`. -/
def allStrict (eps : α) (es : List Edge) (t : Array α) : Bool :=
  es.all (fun e => decide (eps < aget t e.p - aget t e.c))

end LS

section Full
variable {α : Type} [Inhabited α] [Add α] [Sub α] [Neg α] [Div α] [OfNat α 0] [OfNat α 2]
  [LT α] [DecidableLT α] [LE α] [DecidableLE α]

/-- The main loop: either exits early (returning the current times, no forced pass) or, after
`iters` sweeps, falls through to the forced pass. -/
def constrainGo (ftest fadd : α → α) (fixed : Array Bool) (eps : α) (es : List Edge) :
    Nat → LSState α → Array α
  | 0, s => forced ftest fadd s.t es
  | n + 1, s =>
    if allStrict eps es s.t then s.t
    else constrainGo ftest fadd fixed eps es n (lsSweep fixed es s)

/-- `_constrain_ages`. `ftest` is the (rounded) `x + eps` tested by the forced pass and `fadd` the
value it assigns (`max (x + eps) (nextafter x)`). -/
def constrainAges (ftest fadd : α → α) (fixed : Array Bool) (eps : α) (es : List Edge)
    (t : Array α) (iters : Nat) : Array α :=
  constrainGo ftest fadd fixed eps es iters { t := t, cav := Array.replicate es.length (0, 0) }

end Full

section Wrapper
/-! `util.constrain_ages` (the Python wrapper):

    nodes_fixed = np.bitwise_and(ts.nodes_flags, tskit.NODE_IS_SAMPLE).astype(bool)
    constrained = _constrain_ages(nodes_time, nodes_fixed, ts.edges_parent, ts.edges_child, eps, iters)

`NODE_IS_SAMPLE = 1`, so a node is fixed iff bit 0 of its flags word is set, whatever the other bits
are (tsinfer's `NODE_IS_HISTORICAL_SAMPLE = 1 <<< 20`, tsdate's `NODE_SPLIT_BY_PREPROCESS = 1 <<< 30`, …). -/

/-- `bool(flags & NODE_IS_SAMPLE)`. -/
def isSampleFlag (flags : Nat) : Bool := flags % 2 == 1

/-- The fixed-node vector computed from the node-flags column. -/
def fixedOfFlags (flags : Array Nat) : Array Bool := flags.map isSampleFlag

variable {α : Type} [Inhabited α] [Add α] [Sub α] [Neg α] [Div α] [OfNat α 0] [OfNat α 2]
  [LT α] [DecidableLT α] [LE α] [DecidableLE α]

/-- `util.constrain_ages(ts, nodes_time, eps, iters)` with `ts` reduced to its flags column and edge
table. -/
def constrainAgesTs (ftest fadd : α → α) (flags : Array Nat) (eps : α) (es : List Edge)
    (t : Array α) (iters : Nat) : Array α :=
  constrainAges ftest fadd (fixedOfFlags flags) eps es t iters

end Wrapper

end Tsdate
